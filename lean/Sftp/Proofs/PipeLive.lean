import Sftp.Proofs.PipeLoc
/-
  No deadlock: as long as the controller has not stopped, some process of the server can take a step.
-/
set_option linter.unusedSimpArgs false
namespace Sftp.Pipe

theorem applySend_slots (cfg : PipeCfg) (s : State) : (applySend cfg s).slots = s.slots := rfl
theorem drainState_slots (cfg : PipeCfg) (s : State) : (drainState cfg s).slots = s.slots := rfl

/-- the number of pool workers never changes -/
theorem slots_length_step {cfg : PipeCfg} {s s' : State} {a : Action} (hs : step cfg s a = some s') :
    s'.slots.length = s.slots.length := by
  unfold step at hs
  split at hs
  · simp at hs
  · cases a <;>
      simp only [recvStep, dispatchStep, workerTakeStep, workerHandleStep, workerReadyStep, cmdTakeStep,
        cmdHandleStep, cmdReadyStep, ctlTakeReqStep, ctlTakeRespStep, closeInputStep, dispatcherShutdownStep,
        ctlFiniStep] at hs <;>
      (repeat' split at hs) <;>
      first
        | (simp only [Option.some.injEq] at hs; subst hs; simp [applySend_slots, drainState_slots])
        | simp at hs

theorem slots_length_run {cfg : PipeCfg} (as : List Action) {s s' : State} (hr : run cfg s as = some s') :
    s'.slots.length = s.slots.length := by
  induction as generalizing s with
  | nil => simp only [run, Option.some.injEq] at hr; rw [hr]
  | cons a as ih =>
    simp only [run] at hr
    split at hr
    · simp at hr
    · rename_i s1 hs1
      rw [ih hr, slots_length_step hs1]

theorem exists_busy {l : List Slot} (h : l.flatMap slotOids ≠ []) : ∃ (i : Nat) (sl : Slot), l[i]? = some sl ∧ sl ≠ Slot.idle := by
  induction l with
  | nil => exact absurd rfl h
  | cons a as ih =>
    by_cases ha : a = Slot.idle
    · subst ha
      rw [List.flatMap_cons] at h
      have : as.flatMap slotOids ≠ [] := by simpa [slotOids] using h
      obtain ⟨i, sl, h1, h2⟩ := ih this
      exact ⟨i + 1, sl, by simpa using h1, h2⟩
    · exact ⟨0, a, rfl, ha⟩

theorem all_idle_of_nil {l : List Slot} (h : l.flatMap slotOids = []) : ∀ sl ∈ l, sl = Slot.idle := by
  intro sl hsl
  have : slotOids sl = [] := by
    rw [List.flatMap_eq_nil_iff] at h
    exact h sl hsl
  cases sl <;> simp [slotOids] at this ⊢

/-- Progress: with the input closed (so that only the server's own processes can act) and the controller
still running, some action is enabled. -/
theorem progress (cfg : PipeCfg) (hw : 1 ≤ cfg.workers) {s : State} (hl : InvLoc s)
    (hlen : s.slots.length = cfg.workers) (hin : s.inputClosed = true) (hst : s.controllerStopped = false) :
    ∃ a, (step cfg s a).isSome = true := by
  have hnp := hl.noPanic
  by_cases hf : s.finiClosed = true
  · exact ⟨.ctlFini, by simp only [step, hnp, ctlFiniStep, hf, hst]; simp only [Bool.false_eq_true, if_false, and_self, if_true]; split <;> rfl⟩
  by_cases hw0 : s.working = 0
  · cases hp : s.pktChan with
    | nil => exact ⟨.dispatcherShutdown, by simp [step, hnp, dispatcherShutdownStep, hin, hp, hl.noPend, hf, hw0]⟩
    | cons r rest =>
      refine ⟨.dispatch, ?_⟩
      simp only [step, hnp, dispatchStep, hl.noPend, hp, hw0]
      simp only [Bool.false_eq_true, if_false, ne_eq, not_true_eq_false, and_false]
      split <;> split <;> rfl
  · have hpend : pendingOids s ≠ [] := by
      intro h0
      have := hl.work
      rw [h0] at this
      exact hw0 this
    cases hc : s.cmdSlot with
    | holding r => exact ⟨.cmdHandle, by simp [step, hnp, cmdHandleStep, hc]⟩
    | done p => exact ⟨.cmdReady, by simp [step, hnp, cmdReadyStep, hc, hw0]⟩
    | idle =>
      cases hq : s.cmdQueue with
      | cons r rest => exact ⟨.cmdTake, by simp [step, hnp, cmdTakeStep, hc, hq]⟩
      | nil =>
        by_cases hb : s.slots.flatMap slotOids = []
        · have hpq : s.poolQueue ≠ [] := by
            intro h0
            apply hpend
            simp [pendingOids, h0, hq, hb, hc, slotOids]
          obtain ⟨r, rest, hpq'⟩ := List.exists_cons_of_ne_nil hpq
          have h0 : 0 < s.slots.length := by omega
          have hidle : s.slots[0] = Slot.idle := all_idle_of_nil hb _ (List.getElem_mem h0)
          refine ⟨.workerTake 0, ?_⟩
          simp [step, hnp, workerTakeStep, List.getElem?_eq_getElem h0, hidle, hpq']
        · obtain ⟨i, sl, h1, h2⟩ := exists_busy hb
          cases sl with
          | idle => exact absurd rfl h2
          | holding r => exact ⟨.workerHandle i, by simp [step, hnp, workerHandleStep, h1]⟩
          | done p => exact ⟨.workerReady i, by simp [step, hnp, workerReadyStep, h1, hw0]⟩

end Sftp.Pipe
