import Sftp.Model.Codec
/-
  Generic lemmas for C08 / C06: no panic with checked primitives, independence of the result
  from the `safe` flags (up to err/panic), framing.
-/
namespace Sftp.Codec
open Sftp

/-! ### checked primitives never panic -/

theorem rdU8_safe (b : Bytes) : rdU8 true b ≠ .panic := by
  cases b with
  | nil => intro h; cases h
  | cons x r => intro h; cases h

theorem rdU32_safe (b : Bytes) : rdU32 true b ≠ .panic := goU32Safe_ne_panic b
theorem rdU64_safe (b : Bytes) : rdU64 true b ≠ .panic := goU64Safe_ne_panic b
theorem rdStr_safe (b : Bytes) : rdStr true b ≠ .panic := goStrSafe_ne_panic b

theorem ok_ne_panic {α} (a : α) : (Outcome.ok a) ≠ .panic := by intro h; cases h
theorem err_ne_panic {α} (e : String) : (Outcome.err e : Outcome α) ≠ .panic := by intro h; cases h

theorem optU32_safe (c : Bool) (b : Bytes) : optU32 true c b ≠ .panic := by
  cases c
  · exact ok_ne_panic _
  · exact rdU32_safe b

theorem optU64_safe (c : Bool) (b : Bytes) : optU64 true c b ≠ .panic := by
  cases c
  · exact ok_ne_panic _
  · exact rdU64_safe b

theorem decPairsN_safe : ∀ (n : Nat) (b : Bytes), decPairsN true n b ≠ .panic
  | 0, b => ok_ne_panic _
  | n + 1, b => by
    rw [decPairsN]
    refine Outcome.bind_ne_panic _ _ (rdStr_safe _) fun k => ?_
    refine Outcome.bind_ne_panic _ _ (rdStr_safe _) fun v => ?_
    refine Outcome.bind_ne_panic _ _ (decPairsN_safe n _) fun l => ?_
    exact ok_ne_panic _

theorem decPairsAll_safe : ∀ (fuel : Nat) (b : Bytes), decPairsAll true fuel b ≠ .panic
  | 0, [] => ok_ne_panic _
  | 0, _ :: _ => err_ne_panic _
  | fuel + 1, [] => ok_ne_panic _
  | fuel + 1, x :: xs => by
    rw [decPairsAll]
    · refine Outcome.bind_ne_panic _ _ (rdStr_safe _) fun k => ?_
      refine Outcome.bind_ne_panic _ _ (rdStr_safe _) fun v => ?_
      refine Outcome.bind_ne_panic _ _ (decPairsAll_safe fuel _) fun l => ?_
      exact ok_ne_panic _
    · intro h; cases h

theorem ite_ne_panic {α} (c : Bool) (x y : Outcome α) (hx : x ≠ .panic) (hy : y ≠ .panic) :
    (if c then x else y) ≠ .panic := by
  cases c
  · exact hy
  · exact hx

theorem decExt_safe (cfg : DecCfg) (c : Bool) (b : Bytes) : decExt cfg true c b ≠ .panic := by
  cases c
  · exact ok_ne_panic _
  · rw [decExt, if_pos rfl]
    refine Outcome.bind_ne_panic _ _ (rdU32_safe _) fun cnt => ?_
    exact ite_ne_panic _ _ _ (err_ne_panic _) (decPairsN_safe _ _)

theorem decAttrsHead_safe (b : Bytes) : decAttrsHead true b ≠ .panic := by
  rw [decAttrsHead]
  refine Outcome.bind_ne_panic _ _ (rdU32_safe _) fun fl => ?_
  refine Outcome.bind_ne_panic _ _ (optU64_safe _ _) fun size => ?_
  refine Outcome.bind_ne_panic _ _ (optU32_safe _ _) fun uid => ?_
  refine Outcome.bind_ne_panic _ _ (optU32_safe _ _) fun gid => ?_
  refine Outcome.bind_ne_panic _ _ (optU32_safe _ _) fun perm => ?_
  refine Outcome.bind_ne_panic _ _ (optU32_safe _ _) fun atime => ?_
  refine Outcome.bind_ne_panic _ _ (optU32_safe _ _) fun mtime => ?_
  exact ok_ne_panic _

theorem decAttrs_safe (cfg : DecCfg) (b : Bytes) : decAttrs cfg true b ≠ .panic := by
  rw [decAttrs]
  refine Outcome.bind_ne_panic _ _ (decAttrsHead_safe _) fun h => ?_
  refine Outcome.bind_ne_panic _ _ (decExt_safe _ _ _) fun e => ?_
  exact ok_ne_panic _

theorem decNamesN_safe (cfg : DecCfg) : ∀ (n : Nat) (b : Bytes), decNamesN cfg true n b ≠ .panic
  | 0, b => ok_ne_panic _
  | n + 1, b => by
    rw [decNamesN]
    refine Outcome.bind_ne_panic _ _ (rdStr_safe _) fun nm => ?_
    refine Outcome.bind_ne_panic _ _ (rdStr_safe _) fun lg => ?_
    refine Outcome.bind_ne_panic _ _ (decAttrs_safe cfg _) fun a => ?_
    refine Outcome.bind_ne_panic _ _ (decNamesN_safe cfg n _) fun l => ?_
    exact ok_ne_panic _

theorem decNames_safe (cfg : DecCfg) (b : Bytes) : decNames cfg true b ≠ .panic := by
  rw [decNames]
  refine Outcome.bind_ne_panic _ _ (rdU32_safe _) fun cnt => ?_
  exact ite_ne_panic _ _ _ (err_ne_panic _) (decNamesN_safe cfg _ _)

theorem decField_safe (cfg : DecCfg) (k : FKind) (b : Bytes) : decField cfg k true b ≠ .panic := by
  cases k with
  | u8 => exact Outcome.bind_ne_panic _ _ (rdU8_safe _) fun r => ok_ne_panic _
  | u32 => exact Outcome.bind_ne_panic _ _ (rdU32_safe _) fun r => ok_ne_panic _
  | u64 => exact Outcome.bind_ne_panic _ _ (rdU64_safe _) fun r => ok_ne_panic _
  | str => exact Outcome.bind_ne_panic _ _ (rdStr_safe _) fun r => ok_ne_panic _
  | cstr s => exact Outcome.bind_ne_panic _ _ (rdStr_safe _) fun r => ok_ne_panic _
  | lenData => exact Outcome.bind_ne_panic _ _ (rdStr_safe _) fun r => ok_ne_panic _
  | rest => exact ok_ne_panic _
  | attrs => exact Outcome.bind_ne_panic _ _ (decAttrs_safe cfg _) fun r => ok_ne_panic _
  | pairs => exact Outcome.bind_ne_panic _ _ (decPairsAll_safe _ _) fun r => ok_ne_panic _
  | names => exact Outcome.bind_ne_panic _ _ (decNames_safe cfg _) fun r => ok_ne_panic _

theorem decodeFields_safe (cfg : DecCfg) : ∀ (fs : List FieldD) (bs : Bytes),
    (∀ f ∈ fs, f.safe = true) → decodeFields cfg fs bs ≠ .panic
  | [], bs, _ => ok_ne_panic _
  | f :: fs, bs, h => by
    rw [decodeFields]
    have hf : f.safe = true := h f (List.mem_cons_self ..)
    rw [hf]
    refine Outcome.bind_ne_panic _ _ (decField_safe cfg _ _) fun v => ?_
    refine Outcome.bind_ne_panic _ _
      (decodeFields_safe cfg fs _ fun g hg => h g (List.mem_cons_of_mem _ hg)) fun vs => ?_
    exact ok_ne_panic _

/-! ### the `safe` flags do not change successful results -/

/-- The value of a successful run. -/
def forget {α} : Outcome α → Option α
  | .ok a => some a
  | _ => none

theorem forget_bind_congr {α β} {x y : Outcome α} {f g : α → Outcome β}
    (h1 : forget x = forget y) (h2 : ∀ a, forget (f a) = forget (g a)) :
    forget (x.bind f) = forget (y.bind g) := by
  cases x <;> cases y <;> simp only [forget, Option.some.injEq, reduceCtorEq] at h1 <;>
    first
      | (subst h1; exact h2 _)
      | rfl

theorem forget_rdU8 (s1 s2 : Bool) (b : Bytes) : forget (rdU8 s1 b) = forget (rdU8 s2 b) := by
  cases b with
  | nil => cases s1 <;> cases s2 <;> rfl
  | cons x r => rfl

theorem forget_goU32 (b : Bytes) : forget (goU32 b) = get32? b := by
  rw [goU32]; split <;> simp only [forget, *]
theorem forget_goU32Safe (b : Bytes) : forget (goU32Safe b) = get32? b := by
  rw [goU32Safe]; split <;> simp only [forget, *]
theorem forget_goU64 (b : Bytes) : forget (goU64 b) = get64? b := by
  rw [goU64]; split <;> simp only [forget, *]
theorem forget_goU64Safe (b : Bytes) : forget (goU64Safe b) = get64? b := by
  rw [goU64Safe]; split <;> simp only [forget, *]
theorem forget_goStrSafe (b : Bytes) : forget (goStrSafe b) = getStr? b := by
  rw [goStrSafe]; split <;> simp only [forget, *]
theorem forget_goStr (b : Bytes) : forget (goStr b) = getStr? b := by
  rw [goStr, getStr?]
  split
  · rfl
  · split <;> rfl

theorem forget_rdU32' (s : Bool) (b : Bytes) : forget (rdU32 s b) = get32? b := by
  cases s
  · exact forget_goU32 b
  · exact forget_goU32Safe b
theorem forget_rdU64' (s : Bool) (b : Bytes) : forget (rdU64 s b) = get64? b := by
  cases s
  · exact forget_goU64 b
  · exact forget_goU64Safe b
theorem forget_rdStr' (s : Bool) (b : Bytes) : forget (rdStr s b) = getStr? b := by
  cases s
  · exact forget_goStr b
  · exact forget_goStrSafe b

theorem forget_rdU32 (s1 s2 : Bool) (b : Bytes) : forget (rdU32 s1 b) = forget (rdU32 s2 b) := by
  rw [forget_rdU32', forget_rdU32']
theorem forget_rdU64 (s1 s2 : Bool) (b : Bytes) : forget (rdU64 s1 b) = forget (rdU64 s2 b) := by
  rw [forget_rdU64', forget_rdU64']
theorem forget_rdStr (s1 s2 : Bool) (b : Bytes) : forget (rdStr s1 b) = forget (rdStr s2 b) := by
  rw [forget_rdStr', forget_rdStr']

theorem forget_optU32 (s1 s2 c : Bool) (b : Bytes) : forget (optU32 s1 c b) = forget (optU32 s2 c b) := by
  cases c
  · rfl
  · exact forget_rdU32 s1 s2 b
theorem forget_optU64 (s1 s2 c : Bool) (b : Bytes) : forget (optU64 s1 c b) = forget (optU64 s2 c b) := by
  cases c
  · rfl
  · exact forget_rdU64 s1 s2 b

theorem forget_decPairsN (s1 s2 : Bool) : ∀ (n : Nat) (b : Bytes),
    forget (decPairsN s1 n b) = forget (decPairsN s2 n b)
  | 0, b => rfl
  | n + 1, b => by
    rw [decPairsN, decPairsN]
    refine forget_bind_congr (forget_rdStr s1 s2 _) fun k => ?_
    refine forget_bind_congr (forget_rdStr s1 s2 _) fun v => ?_
    exact forget_bind_congr (forget_decPairsN s1 s2 n _) fun l => rfl

theorem forget_decPairsAll (s1 s2 : Bool) : ∀ (fuel : Nat) (b : Bytes),
    forget (decPairsAll s1 fuel b) = forget (decPairsAll s2 fuel b)
  | 0, [] => rfl
  | 0, _ :: _ => rfl
  | fuel + 1, [] => rfl
  | fuel + 1, x :: xs => by
    have hne : ∀ (a : Bytes), a = [] → ¬ (x :: xs = a) := fun a ha h => by subst ha; cases h
    rw [decPairsAll, decPairsAll]
    · refine forget_bind_congr (forget_rdStr s1 s2 _) fun k => ?_
      refine forget_bind_congr (forget_rdStr s1 s2 _) fun v => ?_
      exact forget_bind_congr (forget_decPairsAll s1 s2 fuel _) fun l => rfl
    · intro h; cases h
    · intro h; cases h

theorem forget_ite {α} (c : Bool) {x x' y y' : Outcome α} (hx : forget x = forget x') (hy : forget y = forget y') :
    forget (if c then x else y) = forget (if c then x' else y') := by
  cases c
  · exact hy
  · exact hx

theorem forget_decExt (cfg : DecCfg) (s1 s2 c : Bool) (b : Bytes) :
    forget (decExt cfg s1 c b) = forget (decExt cfg s2 c b) := by
  cases c
  · rfl
  · rw [decExt, decExt, if_pos rfl, if_pos rfl]
    refine forget_bind_congr (forget_rdU32 s1 s2 _) fun cnt => ?_
    exact forget_ite _ rfl (forget_decPairsN s1 s2 _ _)

theorem forget_decAttrsHead (s1 s2 : Bool) (b : Bytes) :
    forget (decAttrsHead s1 b) = forget (decAttrsHead s2 b) := by
  rw [decAttrsHead, decAttrsHead]
  refine forget_bind_congr (forget_rdU32 s1 s2 _) fun fl => ?_
  refine forget_bind_congr (forget_optU64 s1 s2 _ _) fun size => ?_
  refine forget_bind_congr (forget_optU32 s1 s2 _ _) fun uid => ?_
  refine forget_bind_congr (forget_optU32 s1 s2 _ _) fun gid => ?_
  refine forget_bind_congr (forget_optU32 s1 s2 _ _) fun perm => ?_
  refine forget_bind_congr (forget_optU32 s1 s2 _ _) fun atime => ?_
  exact forget_bind_congr (forget_optU32 s1 s2 _ _) fun mtime => rfl

theorem forget_decAttrs (cfg : DecCfg) (s1 s2 : Bool) (b : Bytes) :
    forget (decAttrs cfg s1 b) = forget (decAttrs cfg s2 b) := by
  rw [decAttrs, decAttrs]
  refine forget_bind_congr (forget_decAttrsHead s1 s2 _) fun h => ?_
  exact forget_bind_congr (forget_decExt cfg s1 s2 _ _) fun e => rfl

theorem forget_decNamesN (cfg : DecCfg) (s1 s2 : Bool) : ∀ (n : Nat) (b : Bytes),
    forget (decNamesN cfg s1 n b) = forget (decNamesN cfg s2 n b)
  | 0, b => rfl
  | n + 1, b => by
    rw [decNamesN, decNamesN]
    refine forget_bind_congr (forget_rdStr s1 s2 _) fun nm => ?_
    refine forget_bind_congr (forget_rdStr s1 s2 _) fun lg => ?_
    refine forget_bind_congr rfl fun a => ?_
    exact forget_bind_congr (forget_decNamesN cfg s1 s2 n _) fun l => rfl

theorem forget_decNames (cfg : DecCfg) (s1 s2 : Bool) (b : Bytes) :
    forget (decNames cfg s1 b) = forget (decNames cfg s2 b) := by
  rw [decNames, decNames]
  refine forget_bind_congr (forget_rdU32 s1 s2 _) fun cnt => ?_
  exact forget_ite _ rfl (forget_decNamesN cfg s1 s2 _ _)

theorem forget_decField (cfg : DecCfg) (k : FKind) (s1 s2 : Bool) (b : Bytes) :
    forget (decField cfg k s1 b) = forget (decField cfg k s2 b) := by
  cases k with
  | u8 => exact forget_bind_congr (forget_rdU8 s1 s2 _) fun r => rfl
  | u32 => exact forget_bind_congr (forget_rdU32 s1 s2 _) fun r => rfl
  | u64 => exact forget_bind_congr (forget_rdU64 s1 s2 _) fun r => rfl
  | str => exact forget_bind_congr (forget_rdStr s1 s2 _) fun r => rfl
  | cstr s => exact forget_bind_congr (forget_rdStr s1 s2 _) fun r => rfl
  | lenData => exact forget_bind_congr (forget_rdStr s1 s2 _) fun r => rfl
  | rest => rfl
  | attrs => exact forget_bind_congr (forget_decAttrs cfg s1 s2 _) fun r => rfl
  | pairs => exact forget_bind_congr (forget_decPairsAll s1 s2 _ _) fun r => rfl
  | names => exact forget_bind_congr (forget_decNames cfg s1 s2 _) fun r => rfl

/-- Same sequence of field kinds (names and `safe` flags ignored). -/
def sameLayout (a b : List FieldD) : Bool := decide (a.map (·.kind) = b.map (·.kind))

theorem sameLayout_cons {f g : FieldD} {a b : List FieldD} (h : sameLayout (f :: a) (g :: b) = true) :
    f.kind = g.kind ∧ sameLayout a b = true := by
  simp only [sameLayout, List.map_cons, decide_eq_true_eq, List.cons.injEq] at h ⊢
  exact h

theorem encodeFields_sameLayout : ∀ (a b : List FieldD), sameLayout a b = true →
    ∀ vs, encodeFields a vs = encodeFields b vs
  | [], [], _, _ => rfl
  | [], _ :: _, h, _ => by simp [sameLayout] at h
  | _ :: _, [], h, _ => by simp [sameLayout] at h
  | f :: a, g :: b, h, vs => by
    obtain ⟨hk, ht⟩ := sameLayout_cons h
    cases vs with
    | nil => rfl
    | cons v vs =>
      rw [encodeFields, encodeFields, hk, encodeFields_sameLayout a b ht vs]

theorem decodeFields_sameLayout (cfg : DecCfg) : ∀ (a b : List FieldD), sameLayout a b = true →
    ∀ bs, forget (decodeFields cfg a bs) = forget (decodeFields cfg b bs)
  | [], [], _, _ => rfl
  | [], _ :: _, h, _ => by simp [sameLayout] at h
  | _ :: _, [], h, _ => by simp [sameLayout] at h
  | f :: a, g :: b, h, bs => by
    obtain ⟨hk, ht⟩ := sameLayout_cons h
    rw [decodeFields, decodeFields, hk]
    refine forget_bind_congr (forget_decField cfg _ _ _ _) fun v => ?_
    exact forget_bind_congr (decodeFields_sameLayout cfg a b ht _) fun vs => rfl

/-- Same kinds and same `safe` flags: the decoders are the same function. -/
theorem decodeFields_sameShape (cfg : DecCfg) : ∀ (a b : List FieldD),
    a.map (fun f => (f.kind, f.safe)) = b.map (fun f => (f.kind, f.safe)) →
    ∀ bs, decodeFields cfg a bs = decodeFields cfg b bs
  | [], [], _, _ => rfl
  | [], _ :: _, h, _ => by simp at h
  | _ :: _, [], h, _ => by simp at h
  | f :: a, g :: b, h, bs => by
    simp only [List.map_cons, List.cons.injEq, Prod.mk.injEq] at h
    rw [decodeFields, decodeFields, h.1.1, h.1.2]
    congr 1
    funext v
    rw [decodeFields_sameShape cfg a b h.2]

/-! ### framing -/

theorem get32?_eq_be32 {b : Bytes} {v : Nat} {r : Bytes} (h : get32? b = some (v, r)) : b = be32 v ++ r := by
  match b, h with
  | a :: b :: c :: d :: rest, h =>
    simp only [get32?, Option.some.injEq, Prod.mk.injEq] at h
    obtain ⟨hv, rfl⟩ := h
    have ha := a.toNat_lt; have hb := b.toNat_lt; have hc := c.toNat_lt; have hd := d.toNat_lt
    simp only [be32, List.cons_append, List.nil_append, List.cons.injEq, and_true]
    subst hv
    refine ⟨?_, ?_, ?_, ?_⟩ <;> apply UInt8.toNat_inj.mp <;>
      simp only [UInt8.toNat_ofNat', Nat.reducePow] <;> omega

end Sftp.Codec
