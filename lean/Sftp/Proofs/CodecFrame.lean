import Sftp.Proofs.CodecTotal
/-
  Framing lemmas (C06 length prefix, C08 frame refusal).
-/
namespace Sftp.Codec
open Sftp

theorem recvFrameL_of_get32 (maxLen : Nat) {s : Bytes} {n : Nat} {r : Bytes} (h : get32? s = some (n, r)) :
    recvFrameL maxLen s = recvBody maxLen n r := by
  cases s with
  | nil => cases h
  | cons x xs => rw [recvFrameL, h]

theorem recvFrameL_short (maxLen : Nat) {s : Bytes} (h0 : s ≠ []) (h : s.length < 4) :
    recvFrameL maxLen s = (.errShortHeader, []) := by
  cases s with
  | nil => exact absurd rfl h0
  | cons x xs => rw [recvFrameL, (get32?_none_iff _).mpr h]

theorem frame_length (typ : Nat) (body : Bytes) : (frame typ body).length = 4 + (1 + body.length) := by
  simp only [frame, List.length_append, length_be32, List.length_cons]; omega

theorem frame_take4 (typ : Nat) (body : Bytes) : (frame typ body).take 4 = be32 (1 + body.length) := by
  rw [frame]
  exact List.take_left' (length_be32 _)

theorem recvBody_frame (maxLen typ : Nat) (body rest : Bytes) (hmax : 1 + body.length ≤ maxLen) (ht : typ < 256) :
    recvBody maxLen (1 + body.length) (UInt8.ofNat typ :: body ++ rest) =
      (.ok typ body rest, rest) := by
  have h1 : ¬ (1 + body.length > maxLen) := by omega
  have h2 : ¬ (1 + body.length = 0) := by omega
  have h3 : ¬ ((UInt8.ofNat typ :: body ++ rest).length < 1 + body.length) := by
    simp only [List.cons_append, List.length_cons, List.length_append]; omega
  rw [recvBody, if_neg h1, if_neg h2, if_neg h3]
  have ht' : (UInt8.ofNat typ).toNat = typ := by
    simp only [UInt8.toNat_ofNat', Nat.reducePow]; omega
  have htake : (UInt8.ofNat typ :: body ++ rest).take (1 + body.length) = UInt8.ofNat typ :: body := by
    rw [Nat.add_comm, List.cons_append, List.take_succ_cons, List.take_left' rfl]
  have hdrop : (UInt8.ofNat typ :: body ++ rest).drop (1 + body.length) = rest := by
    rw [Nat.add_comm, List.cons_append, List.drop_succ_cons, List.drop_left' rfl]
  rw [htake]
  simp only [hdrop, ht']

theorem recvFrameL_frame (maxLen typ : Nat) (body rest : Bytes) (hmax : 1 + body.length ≤ maxLen) (ht : typ < 256)
    (hl : 1 + body.length < 2^32) :
    recvFrameL maxLen (frame typ body ++ rest) = (.ok typ body rest, rest) := by
  have hg : get32? (frame typ body ++ rest) = some (1 + body.length, UInt8.ofNat typ :: body ++ rest) := by
    rw [frame, List.append_assoc]
    exact get32?_be32 _ hl _
  rw [recvFrameL_of_get32 maxLen hg]
  exact recvBody_frame maxLen typ body rest hmax ht

theorem recvBody_ok {maxLen n : Nat} {r : Bytes} {typ : Nat} {payload rest left : Bytes}
    (h : recvBody maxLen n r = (.ok typ payload rest, left)) :
    r = UInt8.ofNat typ :: payload ++ rest ∧ n = payload.length + 1 ∧ n ≤ maxLen ∧ typ < 256 ∧ left = rest := by
  rw [recvBody] at h
  split at h
  · cases h
  · next h1 =>
    split at h
    · cases h
    · next h2 =>
      split at h
      · cases h
      · next h3 =>
        split at h
        · next t p htk =>
          simp only [Prod.mk.injEq, FrameResult.ok.injEq] at h
          obtain ⟨⟨rfl, rfl, rfl⟩, rfl⟩ := h
          have hlen : (r.take n).length = p.length + 1 := by rw [htk]; rfl
          rw [List.length_take] at hlen
          have hr : r = r.take n ++ r.drop n := (List.take_append_drop n r).symm
          refine ⟨?_, by omega, by omega, t.toNat_lt, rfl⟩
          rw [UInt8.ofNat_toNat, ← htk]
          exact hr
        · cases h

theorem recvFrameL_ok {maxLen : Nat} {s : Bytes} {typ : Nat} {payload rest left : Bytes}
    (h : recvFrameL maxLen s = (.ok typ payload rest, left)) :
    s = be32 (payload.length + 1) ++ UInt8.ofNat typ :: payload ++ rest ∧
      payload.length + 1 ≤ maxLen ∧ typ < 256 ∧ left = rest := by
  cases s with
  | nil => rw [recvFrameL] at h; cases h
  | cons x xs =>
    rw [recvFrameL] at h
    split at h
    · cases h
    · next nr hg =>
      obtain ⟨hr, hn, hmax, ht, hl⟩ := recvBody_ok h
      have hs := get32?_eq_be32 (show get32? (x :: xs) = some (nr.1, nr.2) from hg)
      refine ⟨?_, by omega, ht, hl⟩
      rw [hs, hn, hr, List.append_assoc]

theorem recvBody_long {maxLen n : Nat} (r : Bytes) (h : n > maxLen) : recvBody maxLen n r = (.errLong, r) := by
  rw [recvBody, if_pos h]

theorem recvBody_zero (maxLen : Nat) (r : Bytes) : recvBody maxLen 0 r = (.errZero, r) := by
  rw [recvBody, if_neg (by omega), if_pos rfl]

theorem recvBody_short {maxLen n : Nat} {r : Bytes} (h : r.length < n) :
    recvBody maxLen n r = (.errLong, r) ∨ recvBody maxLen n r = (.errShortBody r.length, []) := by
  rw [recvBody]
  by_cases h1 : n > maxLen
  · left; rw [if_pos h1]
  · right; rw [if_neg h1, if_neg (by omega), if_pos h]

/-! ### filexfer `readPacket` -/

theorem recvFrameFxL_of_get32 (maxLen : Nat) {s : Bytes} {n : Nat} {r : Bytes} (h : get32? s = some (n, r)) :
    recvFrameFxL maxLen s = recvBodyFx maxLen n r := by
  cases s with
  | nil => cases h
  | cons x xs => rw [recvFrameFxL, h]

theorem recvBodyFx_ok {maxLen n : Nat} {r : Bytes} {typ : Nat} {payload rest left : Bytes}
    (h : recvBodyFx maxLen n r = (.ok typ payload rest, left)) :
    r = UInt8.ofNat typ :: payload ++ rest ∧ n = payload.length + 1 ∧ 5 ≤ n ∧ n ≤ maxLen ∧ typ < 256 ∧
      left = rest := by
  rw [recvBodyFx] at h
  split at h
  · cases h
  · next h1 =>
    split at h
    · cases h
    · next h2 =>
      split at h
      · cases h
      · next h3 =>
        split at h
        · next t p htk =>
          simp only [Prod.mk.injEq, FrameResult.ok.injEq] at h
          obtain ⟨⟨rfl, rfl, rfl⟩, rfl⟩ := h
          have hlen : (r.take n).length = p.length + 1 := by rw [htk]; rfl
          rw [List.length_take] at hlen
          have hr : r = r.take n ++ r.drop n := (List.take_append_drop n r).symm
          refine ⟨?_, by omega, by omega, by omega, t.toNat_lt, rfl⟩
          rw [UInt8.ofNat_toNat, ← htk]
          exact hr
        · cases h

theorem recvFrameFxL_ok {maxLen : Nat} {s : Bytes} {typ : Nat} {payload rest left : Bytes}
    (h : recvFrameFxL maxLen s = (.ok typ payload rest, left)) :
    s = be32 (payload.length + 1) ++ UInt8.ofNat typ :: payload ++ rest ∧
      5 ≤ payload.length + 1 ∧ payload.length + 1 ≤ maxLen ∧ typ < 256 ∧ left = rest := by
  cases s with
  | nil => rw [recvFrameFxL] at h; cases h
  | cons x xs =>
    rw [recvFrameFxL] at h
    split at h
    · cases h
    · next nr hg =>
      obtain ⟨hr, hn, h5, hmax, ht, hl⟩ := recvBodyFx_ok h
      have hs := get32?_eq_be32 (show get32? (x :: xs) = some (nr.1, nr.2) from hg)
      refine ⟨?_, by omega, by omega, ht, hl⟩
      rw [hs, hn, hr, List.append_assoc]

theorem recvBodyFx_long {maxLen n : Nat} (r : Bytes) (h5 : 5 ≤ n) (h : n > maxLen) :
    recvBodyFx maxLen n r = (.errLong, r) := by
  rw [recvBodyFx, if_neg (by omega), if_pos h]

theorem recvBodyFx_small {maxLen n : Nat} (r : Bytes) (h : n < 5) : recvBodyFx maxLen n r = (.errZero, r) := by
  rw [recvBodyFx, if_pos h]

theorem recvBodyFx_short {maxLen n : Nat} {r : Bytes} (h : r.length < n) :
    recvBodyFx maxLen n r = (.errZero, r) ∨ recvBodyFx maxLen n r = (.errLong, r) ∨
      recvBodyFx maxLen n r = (.errShortBody r.length, []) := by
  rw [recvBodyFx]
  by_cases h0 : n < 5
  · left; rw [if_pos h0]
  · by_cases h1 : n > maxLen
    · right; left; rw [if_neg h0, if_pos h1]
    · right; right; rw [if_neg h0, if_neg h1, if_pos h]

end Sftp.Codec
