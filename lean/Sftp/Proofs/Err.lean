import Sftp.Spec.Err
/-
  Lemmas for C10's error algebra: the interpreter `statusFromError` on the two expected configurations
  (`cfgUnfixed`, `cfgFixed`), for ALL errors of the families (all errno values, all three wrappers, all status
  codes, all texts).
-/
namespace Sftp.Err
open Sftp.Spec.Err

theorem normalise_norm (c : Nat) : normalise norm c = kindOfCode c := by
  unfold normalise kindOfCode norm
  by_cases h0 : c = 0
  · subst h0; rfl
  by_cases h1 : c = 1
  · subst h1; rfl
  by_cases h2 : c = 2
  · subst h2; rfl
  by_cases h3 : c = 3
  · subst h3; rfl
  have e1 : (c == 1) = false := by simp [h1]
  have e2 : (c == 2) = false := by simp [h2]
  have e3 : (c == 3) = false := by simp [h3]
  have e0 : (c == 0) = false := by simp [h0]
  simp [List.lookup, h0, h1, h2, h3, e0, e1, e2, e3, NRes.kind]

theorem cfg_eq_fixed {cfg : ErrCfg} {nc : NormCfg} (ht : TablesOk cfg nc) (hp : HasPermTest cfg) :
    cfg = cfgFixed ∧ nc = norm := by
  obtain ⟨h1, h2, h3, h4⟩ := ht
  cases cfg
  simp only [HasPermTest] at hp h1 h2 h3
  subst hp h1 h2 h3
  exact ⟨rfl, h4⟩

theorem cfg_eq_unfixed {cfg : ErrCfg} {nc : NormCfg} (ht : TablesOk cfg nc) (hp : cfg.tests = testsUnfixed) :
    cfg = cfgUnfixed ∧ nc = norm := by
  obtain ⟨h1, h2, h3, h4⟩ := ht
  cases cfg
  simp only at hp h1 h2 h3
  subst hp h1 h2 h3
  exact ⟨rfl, h4⟩

theorem nat_cases (n : Nat) : n = 0 ∨ n = 2 ∨ n = 13 ∨ n = 1 ∨ (n ≠ 0 ∧ n ≠ 2 ∧ n ≠ 13 ∧ n ≠ 1) := by omega

/-- evaluate the interpreter on a (partly symbolic) error -/
local macro "err_eval" : tactic =>
  `(tactic| simp [statusFromError, cfgFixed, cfgUnfixed, testsFixed, testsUnfixed, runTests, osIsNotExist,
      osIsPermission, osIsExist, underlying, ENOENT, EACCES, EPERM, kindOf, stdKind, kindOfCode,
      translateSyscallError, translateErrno, translateErrno.go, errnoCases, errorsIsEOF, errorsAsFxerr,
      Kind.ofStatus, SSH_FX_FAILURE, syscallShapes, inFamilies, isStd, isF8] at *)

/-- an errno, bare or inside one wrapper `w`, under the FIXED configuration -/
theorem fixed_errno (w : GoErr → GoErr) (hw : w = id ∨ w = .pathError ∨ w = .linkError ∨ w = .syscallError)
    (n : Nat) (hn : n ≠ 0) :
    kindOfCode (statusFromError cfgFixed (w (.errno n))).1 = kindOf (w (.errno n)) := by
  rcases nat_cases n with h | h | h | h | ⟨_, a, b, c⟩
  · exact absurd h hn
  · subst h; rcases hw with rfl | rfl | rfl | rfl <;> decide
  · subst h; rcases hw with rfl | rfl | rfl | rfl <;> decide
  · subst h; rcases hw with rfl | rfl | rfl | rfl <;> decide
  · rcases hw with rfl | rfl | rfl | rfl <;> err_eval <;> simp [a, b, c, hn]

theorem fixed_all (e : GoErr) (hf : inFamilies e = true) :
    normalise norm (statusFromError cfgFixed e).1 = kindOf e := by
  rw [normalise_norm]
  cases e with
  | errno n => exact fixed_errno id (Or.inl rfl) n (by simpa [inFamilies, isStd] using hf)
  | pathError e' =>
    cases e' with
    | errno n => exact fixed_errno .pathError (by simp) n (by simpa [inFamilies, isStd] using hf)
    | other t => err_eval
    | _ => first | decide | (simp [inFamilies, isStd] at hf)
  | linkError e' =>
    cases e' with
    | errno n => exact fixed_errno .linkError (by simp) n (by simpa [inFamilies, isStd] using hf)
    | other t => err_eval
    | _ => first | decide | (simp [inFamilies, isStd] at hf)
  | syscallError e' =>
    cases e' with
    | errno n => exact fixed_errno .syscallError (by simp) n (by simpa [inFamilies, isStd] using hf)
    | other t => err_eval
    | _ => first | decide | (simp [inFamilies, isStd] at hf)
  | fxerr c => err_eval; rfl
  | other t => err_eval
  | statusErr c => exact absurd hf (by simp [inFamilies, isStd])
  | wrapped e' => exact absurd hf (by simp [inFamilies, isStd])
  | _ => decide

/-- an errno, bare or inside one wrapper, under the UNFIXED configuration, outside the F8 inputs -/
theorem unfixed_errno (w : GoErr → GoErr) (hw : w = id ∨ w = .pathError ∨ w = .linkError ∨ w = .syscallError)
    (n : Nat) (hn : n ≠ 0) (h8 : isF8 (w (.errno n)) = false) :
    kindOfCode (statusFromError cfgUnfixed (w (.errno n))).1 = kindOf (w (.errno n)) := by
  rcases nat_cases n with h | h | h | h | ⟨_, a, b, c⟩
  · exact absurd h hn
  · subst h; rcases hw with rfl | rfl | rfl | rfl <;> decide
  · subst h; rcases hw with rfl | rfl | rfl | rfl <;> first | decide | (exact absurd h8 (by decide))
  · subst h; rcases hw with rfl | rfl | rfl | rfl <;> first | decide | (exact absurd h8 (by decide))
  · rcases hw with rfl | rfl | rfl | rfl <;> err_eval <;> simp [a, b, c, hn]

theorem unfixed_partial (e : GoErr) (hf : inFamilies e = true) (h8 : isF8 e = false) :
    normalise norm (statusFromError cfgUnfixed e).1 = kindOf e := by
  rw [normalise_norm]
  cases e with
  | errno n => exact unfixed_errno id (Or.inl rfl) n (by simpa [inFamilies, isStd] using hf) h8
  | pathError e' =>
    cases e' with
    | errno n => exact unfixed_errno .pathError (by simp) n (by simpa [inFamilies, isStd] using hf) h8
    | other t => err_eval
    | _ => first | decide | (exact absurd h8 (by decide)) | (exact absurd hf (by simp [inFamilies, isStd]))
  | linkError e' =>
    cases e' with
    | errno n => exact unfixed_errno .linkError (by simp) n (by simpa [inFamilies, isStd] using hf) h8
    | other t => err_eval
    | _ => first | decide | (exact absurd h8 (by decide)) | (exact absurd hf (by simp [inFamilies, isStd]))
  | syscallError e' =>
    cases e' with
    | errno n => exact unfixed_errno .syscallError (by simp) n (by simpa [inFamilies, isStd] using hf) h8
    | other t => err_eval
    | _ => first | decide | (exact absurd h8 (by decide)) | (exact absurd hf (by simp [inFamilies, isStd]))
  | fxerr c => err_eval; rfl
  | other t => err_eval
  | statusErr c => exact absurd hf (by simp [inFamilies, isStd])
  | wrapped e' => exact absurd hf (by simp [inFamilies, isStd])
  | osErrPermission => exact absurd h8 (by decide)
  | _ => decide

/-- every F8 input is a counterexample under the unfixed configuration: the client sees a plain failure -/
theorem unfixed_f8 (e : GoErr) (h8 : isF8 e = true) :
    normalise norm (statusFromError cfgUnfixed e).1 = .failure ∧ kindOf e = .permission := by
  rw [normalise_norm]
  cases e with
  | linkError e' =>
    cases e' with
    | errno n =>
      have : n = 13 ∨ n = 1 := by simpa [isF8, EACCES, EPERM] using h8
      rcases this with rfl | rfl <;> decide
    | _ => first | decide | (simp [isF8] at h8)
  | syscallError e' =>
    cases e' with
    | errno n =>
      have : n = 13 ∨ n = 1 := by simpa [isF8, EACCES, EPERM] using h8
      rcases this with rfl | rfl <;> decide
    | _ => first | decide | (simp [isF8] at h8)
  | pathError e' => cases e' <;> first | decide | (simp [isF8] at h8)
  | _ => first | decide | (simp [isF8] at h8)

/-! ### the message -/

theorem runTests_msg (cfg : ErrCfg) (e : GoErr) (ts : List Test) (c : Nat) :
    (runTests cfg e ts c true).2 = true := by
  induction ts generalizing c with
  | nil => rfl
  | cons t ts ih =>
    cases t <;> simp only [runTests] <;> (try split) <;> first | rfl | exact ih _

/-- every non-nil error is answered with its text, nil with none (both configurations) -/
theorem msg_spec (cfg : ErrCfg) (h : TestsKnown cfg) (e : GoErr) :
    (statusFromError cfg e).2 = (e != .nil) := by
  unfold statusFromError
  by_cases he : e = .nil
  · subst he; rcases h with h | h <;> rw [h] <;> rfl
  · have hne : (e != .nil) = true := by simp [he]
    rw [hne]
    rcases h with h | h <;> rw [h]
    · simp only [testsUnfixed, runTests, he, if_false]
      repeat' (first | rfl | split)
    · simp only [testsFixed, runTests, he, if_false]
      repeat' (first | rfl | split)

end Sftp.Err
