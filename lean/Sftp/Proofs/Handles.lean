import Sftp.Model.Handles
/-
  Helper lemmas for C11: the handle-table invariant and its preservation by every action.
-/
namespace Sftp.Handles
open Sftp

/-- The source facts the theorems need. -/
structure Good (cfg : Cfg) : Prop where
  del : cfg.deleteOnClose = true
  cfo : cfg.closeOnFailedOpen = true
  swp : cfg.sweepClosesAll = true
  mono : cfg.counterMonotone = true

instance (cfg : Cfg) : Decidable (Good cfg) :=
  if h : cfg.deleteOnClose = true ∧ cfg.closeOnFailedOpen = true ∧ cfg.sweepClosesAll = true ∧
      cfg.counterMonotone = true then isTrue ⟨h.1, h.2.1, h.2.2.1, h.2.2.2⟩
  else isFalse (fun g => h ⟨g.del, g.cfo, g.swp, g.mono⟩)

@[simp] theorem upd_same {α} (f : Nat → α) (k : Nat) (v : α) : upd f k v k = v := by simp [upd]
theorem upd_other {α} (f : Nat → α) (k : Nat) (v : α) (i : Nat) (h : i ≠ k) : upd f k v i = f i := by
  simp [upd, h]

theorem lookup_some_mem : ∀ (l : List (Nat × Nat)) (h id : Nat), l.lookup h = some id → (h, id) ∈ l
  | [], _, _, hl => by simp [List.lookup] at hl
  | (k, v) :: t, h, id, hl => by
    rw [List.lookup_cons] at hl
    by_cases hk : h = k
    · subst hk; simp only [beq_self_eq_true, Option.some.injEq] at hl; subst hl; simp
    · have : (h == k) = false := by simp [hk]
      rw [this] at hl
      exact List.mem_cons_of_mem _ (lookup_some_mem t h id hl)

theorem lookup_none_of_not_mem : ∀ (l : List (Nat × Nat)) (h : Nat), h ∉ l.map (·.1) → l.lookup h = none
  | [], _, _ => rfl
  | (k, v) :: t, h, hn => by
    simp only [List.map_cons, List.mem_cons, not_or] at hn
    rw [List.lookup_cons]
    have : (h == k) = false := by simp [hn.1]
    rw [this]
    exact lookup_none_of_not_mem t h hn.2

theorem nodup_map_inj {α β} (f : α → β) : ∀ (l : List α), (l.map f).Nodup → ∀ a b, a ∈ l → b ∈ l →
    f a = f b → a = b
  | [], _, _, _, ha, _, _ => by cases ha
  | x :: t, hn, a, b, ha, hb, hab => by
    simp only [List.map_cons, List.nodup_cons, List.mem_map, not_exists, not_and] at hn
    simp only [List.mem_cons] at ha hb
    rcases ha with ha | ha <;> rcases hb with hb | hb
    · rw [ha, hb]
    · subst ha; exact absurd hab.symm (hn.1 b hb)
    · subst hb; exact absurd hab (hn.1 a ha)
    · exact nodup_map_inj f t hn.2 a b ha hb hab

structure Inv (s : State) : Prop where
  keys_le : ∀ e ∈ s.open, e.1 ≤ s.count
  keys_nodup : (s.open.map (·.1)).Nodup
  ids_lt : ∀ e ∈ s.open, e.2 < s.nobj
  ids_nodup : (s.open.map (·.2)).Nodup
  issued_le : ∀ h ∈ s.issued, h ≤ s.count
  issued_nodup : s.issued.Nodup
  open_issued : ∀ e ∈ s.open, e.1 ∈ s.issued
  closed_le : ∀ h ∈ s.closedH, h ≤ s.count
  closed_not_open : ∀ h ∈ s.closedH, h ∉ s.open.map (·.1)
  obj_open : ∀ e ∈ s.open, (s.objs e.2).closed = 0 ∧ (s.objs e.2).ctx = 0
  obj_closed : ∀ id, id < s.nobj → id ∉ s.open.map (·.2) →
    (s.objs id).closed = (s.objs id).real.toNat ∧ (s.objs id).ctx = 1
  terr_zero : s.ended = false → ∀ id, (s.objs id).terr = 0
  ended_open : s.ended = true → s.open = []

theorem Inv.init : Inv State.init := by
  refine ⟨?_, ?_, ?_, ?_, ?_, ?_, ?_, ?_, ?_, ?_, ?_, ?_, ?_⟩ <;> simp [State.init, Obj.new]

theorem Inv.with_log {s : State} (hi : Inv s) (l : List Status) : Inv { s with log := l } :=
  ⟨hi.keys_le, hi.keys_nodup, hi.ids_lt, hi.ids_nodup, hi.issued_le, hi.issued_nodup, hi.open_issued,
   hi.closed_le, hi.closed_not_open, hi.obj_open, hi.obj_closed, hi.terr_zero, hi.ended_open⟩

theorem inv_opened {s : State} (hi : Inv s) (hne : s.ended = false) (real : Bool) : Inv (opened s real) := by
  have hk : s.count + 1 ∉ s.open.map (·.1) := by
    intro hm; obtain ⟨e, he, h1⟩ := List.mem_map.mp hm; have := hi.keys_le e he; omega
  have hid : s.nobj ∉ s.open.map (·.2) := by
    intro hm; obtain ⟨e, he, h1⟩ := List.mem_map.mp hm; have := hi.ids_lt e he; omega
  have his : s.count + 1 ∉ s.issued := by
    intro hm; have := hi.issued_le _ hm; omega
  refine ⟨?_, ?_, ?_, ?_, ?_, ?_, ?_, ?_, ?_, ?_, ?_, ?_, ?_⟩
  · intro e he; simp only [opened, List.mem_append, List.mem_cons, List.not_mem_nil, or_false] at he ⊢
    rcases he with he | he
    · have := hi.keys_le e he; omega
    · subst he; simp
  · simp only [opened, List.map_append, List.map_cons, List.map_nil]
    rw [List.nodup_append]
    refine ⟨hi.keys_nodup, by simp, ?_⟩
    intro a ha b hb hab; simp only [List.mem_cons, List.not_mem_nil, or_false] at hb
    subst hb; subst hab; exact hk ha
  · intro e he; simp only [opened, List.mem_append, List.mem_cons, List.not_mem_nil, or_false] at he ⊢
    rcases he with he | he
    · have := hi.ids_lt e he; omega
    · subst he; simp
  · simp only [opened, List.map_append, List.map_cons, List.map_nil]
    rw [List.nodup_append]
    refine ⟨hi.ids_nodup, by simp, ?_⟩
    intro a ha b hb hab; simp only [List.mem_cons, List.not_mem_nil, or_false] at hb
    subst hb; subst hab; exact hid ha
  · intro h hh; simp only [opened, List.mem_append, List.mem_cons, List.not_mem_nil, or_false] at hh ⊢
    rcases hh with hh | hh
    · have := hi.issued_le h hh; omega
    · omega
  · simp only [opened]
    rw [List.nodup_append]
    refine ⟨hi.issued_nodup, by simp, ?_⟩
    intro a ha b hb hab; simp only [List.mem_cons, List.not_mem_nil, or_false] at hb
    subst hb; subst hab; exact his ha
  · intro e he; simp only [opened, List.mem_append, List.mem_cons, List.not_mem_nil, or_false] at he ⊢
    rcases he with he | he
    · exact Or.inl (hi.open_issued e he)
    · subst he; exact Or.inr rfl
  · intro h hh; simp only [opened] at hh ⊢; have := hi.closed_le h hh; omega
  · intro h hh; simp only [opened, List.map_append, List.map_cons, List.map_nil, List.mem_append,
      List.mem_cons, List.not_mem_nil, or_false, not_or] at hh ⊢
    have := hi.closed_le h hh
    exact ⟨hi.closed_not_open h hh, by omega⟩
  · intro e he; simp only [opened, List.mem_append, List.mem_cons, List.not_mem_nil, or_false] at he ⊢
    rcases he with he | he
    · have := hi.ids_lt e he
      rw [upd_other _ _ _ _ (by omega)]; exact hi.obj_open e he
    · subst he; simp [Obj.new]
  · intro id hlt hnm
    simp only [opened, List.map_append, List.map_cons, List.map_nil, List.mem_append, List.mem_cons,
      List.not_mem_nil, or_false, not_or] at hlt hnm ⊢
    rw [upd_other _ _ _ _ hnm.2]
    exact hi.obj_closed id (by omega) hnm.1
  · intro _ id; simp only [opened]
    by_cases h : id = s.nobj
    · subst h; simp [Obj.new]
    · rw [upd_other _ _ _ _ h]; exact hi.terr_zero hne id
  · intro he; simp only [opened] at he; rw [hne] at he; cases he

theorem inv_closeEntry {cfg : Cfg} (hg : Good cfg) {s : State} (hi : Inv s) (hne : s.ended = false)
    {h id : Nat} (hm : (h, id) ∈ s.open) : Inv (closeEntry cfg s h id) := by
  have hsub : ∀ e, e ∈ s.open.filter (fun e => !(e.1 == h)) → e ∈ s.open ∧ e.1 ≠ h := by
    intro e he; obtain ⟨h1, h2⟩ := List.mem_filter.mp he; exact ⟨h1, by simpa using h2⟩
  have hsl : List.Sublist (s.open.filter (fun e => !(e.1 == h))) s.open := List.filter_sublist
  have hidne : ∀ e, e ∈ s.open → e.1 ≠ h → e.2 ≠ id := by
    intro e he hne' heq
    have := nodup_map_inj (·.2) s.open hi.ids_nodup e (h, id) he hm heq
    rw [this] at hne'; exact hne' rfl
  unfold closeEntry
  rw [hg.del, hg.mono]
  simp only [if_true]
  refine ⟨?_, ?_, ?_, ?_, hi.issued_le, hi.issued_nodup, ?_, ?_, ?_, ?_, ?_, ?_, ?_⟩
  · intro e he; exact hi.keys_le e (hsub e he).1
  · exact hi.keys_nodup.sublist (hsl.map _)
  · intro e he; exact hi.ids_lt e (hsub e he).1
  · exact hi.ids_nodup.sublist (hsl.map _)
  · intro e he; exact hi.open_issued e (hsub e he).1
  · intro h' hh; simp only [List.mem_append, List.mem_cons, List.not_mem_nil, or_false] at hh
    rcases hh with hh | hh
    · exact hi.closed_le h' hh
    · subst hh; exact hi.keys_le _ hm
  · intro h' hh hmem; simp only [List.mem_append, List.mem_cons, List.not_mem_nil, or_false] at hh
    obtain ⟨e, he, h1⟩ := List.mem_map.mp hmem
    rcases hh with hh | hh
    · exact hi.closed_not_open h' hh (List.mem_map.mpr ⟨e, (hsub e he).1, h1⟩)
    · subst hh; exact (hsub e he).2 h1
  · intro e he; simp only
    rw [upd_other _ _ _ _ (hidne e (hsub e he).1 (hsub e he).2)]
    exact hi.obj_open e (hsub e he).1
  · intro id' hlt hnm; simp only at hlt hnm ⊢
    by_cases hid : id' = id
    · subst hid; rw [upd_same]
      have := hi.obj_open _ hm
      simp only at this
      simp [Obj.close, this.1, this.2]
    · rw [upd_other _ _ _ _ hid]
      apply hi.obj_closed id' hlt
      intro hmem
      obtain ⟨e, he, h1⟩ := List.mem_map.mp hmem
      by_cases hk : e.1 = h
      · have := nodup_map_inj (·.1) s.open hi.keys_nodup e (h, id) he hm hk
        rw [this] at h1; exact hid h1.symm
      · exact hnm (List.mem_map.mpr ⟨e, List.mem_filter.mpr ⟨he, by simpa using hk⟩, h1⟩)
  · intro _ id'; simp only
    by_cases hid : id' = id
    · subst hid; rw [upd_same]; simp only [Obj.close]; exact hi.terr_zero hne id'
    · rw [upd_other _ _ _ _ hid]; exact hi.terr_zero hne id'
  · intro he; simp only at he; rw [hne] at he; cases he

theorem inv_touch {s : State} (hi : Inv s) (id : Nat) :
    Inv { s with objs := upd s.objs id (s.objs id).touch } := by
  have key : ∀ i, (upd s.objs id (s.objs id).touch i).closed = (s.objs i).closed ∧
      (upd s.objs id (s.objs id).touch i).ctx = (s.objs i).ctx ∧
      (upd s.objs id (s.objs id).touch i).real = (s.objs i).real ∧
      (upd s.objs id (s.objs id).touch i).terr = (s.objs i).terr := by
    intro i
    by_cases h : i = id
    · subst h; rw [upd_same]; simp [Obj.touch]
    · rw [upd_other _ _ _ _ h]; simp
  refine ⟨hi.keys_le, hi.keys_nodup, hi.ids_lt, hi.ids_nodup, hi.issued_le, hi.issued_nodup, hi.open_issued,
   hi.closed_le, hi.closed_not_open, ?_, ?_, ?_, hi.ended_open⟩
  · intro e he; simp only; rw [(key e.2).1, (key e.2).2.1]; exact hi.obj_open e he
  · intro i hlt hnm; simp only; rw [(key i).1, (key i).2.1, (key i).2.2.1]; exact hi.obj_closed i hlt hnm
  · intro hne i; simp only; rw [(key i).2.2.2]; exact hi.terr_zero hne i

theorem step_live {cfg : Cfg} {s s' : State} {act : Action} (h : step cfg s act = some s') :
    s.ended = false ∧ live cfg s act = some s' := by
  unfold step at h
  cases he : s.ended with
  | false => rw [he] at h; exact ⟨rfl, by simpa using h⟩
  | true => rw [he] at h; simp at h

theorem inv_sweep {cfg : Cfg} (hg : Good cfg) {s s' : State} {err : Bool} (hi : Inv s)
    (h : step cfg s (.sweep err) = some s') : Inv s' := by
  obtain ⟨hne, h⟩ := step_live h
  simp only [live, hg.swp, ↓reduceIte, Option.some.injEq] at h
  subst h
  refine ⟨?_, ?_, ?_, ?_, hi.issued_le, hi.issued_nodup, ?_, hi.closed_le, ?_, ?_, ?_, ?_, ?_⟩
  · intro e he; cases he
  · simp
  · intro e he; cases he
  · simp
  · intro e he; cases he
  · intro h' _; simp
  · intro e he; cases he
  · intro id hlt _; simp only at hlt ⊢
    by_cases hm : id ∈ s.open.map (·.2)
    · rw [if_pos hm]
      obtain ⟨e, he, h1⟩ := List.mem_map.mp hm
      have := hi.obj_open e he
      rw [h1] at this
      by_cases hn : (cfg.sweepNotifiesTransferError && err) = true
      · simp [hn, Obj.close, Obj.notify, this.1, this.2]
      · simp [hn, Obj.close, this.1, this.2]
    · rw [if_neg hm]; exact hi.obj_closed id hlt hm
  · intro he; cases he
  · intro _; rfl

theorem step_inv {cfg : Cfg} (hg : Good cfg) {s s' : State} {act : Action} (hi : Inv s)
    (h : step cfg s act = some s') : Inv s' := by
  have h0 := h
  obtain ⟨hne, h⟩ := step_live h
  cases act with
  | openOk =>
    simp only [live, Option.some.injEq] at h
    subst h
    exact (inv_opened hi hne true).with_log _
  | openFail =>
    simp only [live, ↓reduceIte, hg.cfo] at h
    split at h
    · injection h with h; subst h
      have h1 : Inv ({ opened s false with log := s.log ++ [Status.fail] }) :=
        (inv_opened hi hne false).with_log _
      exact inv_closeEntry hg h1 hne (by simp [opened])
    · injection h with h; subst h; exact hi.with_log _
  | use hd =>
    simp only [live] at h
    split at h
    · injection h with h; subst h; exact (inv_touch hi _).with_log _
    · injection h with h; subst h; exact hi.with_log _
  | close hd =>
    simp only [live] at h
    split at h
    · next id hl =>
      injection h with h; subst h
      exact (inv_closeEntry hg hi hne (lookup_some_mem _ _ _ hl)).with_log _
    · injection h with h; subst h; exact hi.with_log _
  | sweep err => exact inv_sweep hg hi h0

theorem run_inv {cfg : Cfg} (hg : Good cfg) : ∀ (acts : List Action) {s s' : State}, Inv s →
    run cfg s acts = some s' → Inv s'
  | [], s, s', hi, h => by simp only [run] at h; injection h with h; subst h; exact hi
  | a :: as, s, s', hi, h => by
    simp only [run] at h
    split at h
    · next s1 h1 => exact run_inv hg as (step_inv hg hi h1) h
    · cases h

theorem run_append (cfg : Cfg) : ∀ (as bs : List Action) (s : State),
    run cfg s (as ++ bs) = (run cfg s as).bind (fun s1 => run cfg s1 bs)
  | [], bs, s => rfl
  | a :: as, bs, s => by
    simp only [List.cons_append, run]
    cases step cfg s a with
    | none => rfl
    | some s1 => exact run_append cfg as bs s1

/-- `closedH` and `issued` only grow, the counter never decreases. -/
theorem step_mono {cfg : Cfg} (hg : Good cfg) {s s' : State} {act : Action} (h : step cfg s act = some s') :
    (∀ x, x ∈ s.closedH → x ∈ s'.closedH) ∧ (∀ x, x ∈ s.issued → x ∈ s'.issued) ∧ s.count ≤ s'.count := by
  obtain ⟨hne, h⟩ := step_live h
  cases act with
  | openOk =>
    simp only [live, Option.some.injEq] at h
    subst h; exact ⟨fun _ hx => hx, fun _ hx => List.mem_append_left _ hx, Nat.le_succ _⟩
  | openFail =>
    simp only [live, ↓reduceIte, hg.cfo] at h
    split at h
    · injection h with h; subst h
      simp only [closeEntry, hg.mono, if_true]
      exact ⟨fun _ hx => List.mem_append_left _ hx, fun _ hx => List.mem_append_left _ hx, Nat.le_succ _⟩
    · injection h with h; subst h; exact ⟨fun _ hx => hx, fun _ hx => hx, Nat.le_refl _⟩
  | use hd =>
    simp only [live] at h
    split at h <;> (injection h with h; subst h; exact ⟨fun _ hx => hx, fun _ hx => hx, Nat.le_refl _⟩)
  | close hd =>
    simp only [live] at h
    split at h
    · injection h with h; subst h
      simp only [closeEntry, hg.mono, if_true]
      exact ⟨fun _ hx => List.mem_append_left _ hx, fun _ hx => hx, Nat.le_refl _⟩
    · injection h with h; subst h; exact ⟨fun _ hx => hx, fun _ hx => hx, Nat.le_refl _⟩
  | sweep err =>
    simp only [live, Option.some.injEq] at h
    subst h; exact ⟨fun _ hx => hx, fun _ hx => hx, Nat.le_refl _⟩

theorem run_mono {cfg : Cfg} (hg : Good cfg) : ∀ (acts : List Action) {s s' : State},
    run cfg s acts = some s' →
    (∀ x, x ∈ s.closedH → x ∈ s'.closedH) ∧ (∀ x, x ∈ s.issued → x ∈ s'.issued) ∧ s.count ≤ s'.count
  | [], s, s', h => by
    simp only [run] at h; injection h with h; subst h
    exact ⟨fun _ hx => hx, fun _ hx => hx, Nat.le_refl _⟩
  | a :: as, s, s', h => by
    simp only [run] at h
    split at h
    · next s1 h1 =>
      have m1 := step_mono hg h1
      have m2 := run_mono hg as h
      exact ⟨fun x hx => m2.1 x (m1.1 x hx), fun x hx => m2.2.1 x (m1.2.1 x hx), Nat.le_trans m1.2.2 m2.2.2⟩
    · cases h

end Sftp.Handles
