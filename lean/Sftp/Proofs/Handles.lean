import Sftp.Model.Handles
/-
  Helper lemmas for C11: the handle-table invariant and its preservation by every action.
-/
namespace Sftp.Handles
open Sftp

/-- The source facts the theorems need. -/
structure Good (cfg : Cfg) : Prop where
  del : cfg.deleteOnClose = true
  cfo : cfg.closeOnFailedOpen = true
  swp : cfg.sweepClosesAll = true
  mono : cfg.counterMonotone = true

instance (cfg : Cfg) : Decidable (Good cfg) :=
  if h : cfg.deleteOnClose = true ∧ cfg.closeOnFailedOpen = true ∧ cfg.sweepClosesAll = true ∧
      cfg.counterMonotone = true then isTrue ⟨h.1, h.2.1, h.2.2.1, h.2.2.2⟩
  else isFalse (fun g => h ⟨g.del, g.cfo, g.swp, g.mono⟩)

@[simp] theorem upd_same {α} (f : Nat → α) (k : Nat) (v : α) : upd f k v k = v := by simp [upd]
theorem upd_other {α} (f : Nat → α) (k : Nat) (v : α) (i : Nat) (h : i ≠ k) : upd f k v i = f i := by
  simp [upd, h]

theorem lookup_some_mem : ∀ (l : List (Nat × Nat)) (h id : Nat), l.lookup h = some id → (h, id) ∈ l
  | [], _, _, hl => by simp [List.lookup] at hl
  | (k, v) :: t, h, id, hl => by
    rw [List.lookup_cons] at hl
    by_cases hk : h = k
    · subst hk; simp only [beq_self_eq_true, Option.some.injEq] at hl; subst hl; simp
    · have : (h == k) = false := by simp [hk]
      rw [this] at hl
      exact List.mem_cons_of_mem _ (lookup_some_mem t h id hl)

theorem lookup_none_of_not_mem : ∀ (l : List (Nat × Nat)) (h : Nat), h ∉ l.map (·.1) → l.lookup h = none
  | [], _, _ => rfl
  | (k, v) :: t, h, hn => by
    simp only [List.map_cons, List.mem_cons, not_or] at hn
    rw [List.lookup_cons]
    have : (h == k) = false := by simp [hn.1]
    rw [this]
    exact lookup_none_of_not_mem t h hn.2

theorem nodup_map_inj {α β} (f : α → β) : ∀ (l : List α), (l.map f).Nodup → ∀ a b, a ∈ l → b ∈ l →
    f a = f b → a = b
  | [], _, _, _, ha, _, _ => by cases ha
  | x :: t, hn, a, b, ha, hb, hab => by
    simp only [List.map_cons, List.nodup_cons, List.mem_map, not_exists, not_and] at hn
    simp only [List.mem_cons] at ha hb
    rcases ha with ha | ha <;> rcases hb with hb | hb
    · rw [ha, hb]
    · subst ha; exact absurd hab.symm (hn.1 b hb)
    · subst hb; exact absurd hab (hn.1 a ha)
    · exact nodup_map_inj f t hn.2 a b ha hb hab

structure Inv (cfg : Cfg) (s : State) : Prop where
  keys_le : ∀ e ∈ s.open, e.1 ≤ s.count
  keys_nodup : (s.open.map (·.1)).Nodup
  ids_lt : ∀ e ∈ s.open, e.2 < s.nobj
  ids_nodup : (s.open.map (·.2)).Nodup
  issued_le : ∀ h ∈ s.issued, h ≤ s.count
  issued_nodup : s.issued.Nodup
  open_issued : ∀ e ∈ s.open, e.1 ∈ s.issued
  closed_le : ∀ h ∈ s.closedH, h ≤ s.count
  closed_not_open : ∀ h ∈ s.closedH, h ∉ s.open.map (·.1)
  /-- while Serve runs, what is in the table has not been closed -/
  obj_open : s.ended = false → ∀ e ∈ s.open, (s.objs e.2).closed = 0 ∧ (s.objs e.2).ctx = 0
  /-- what has left the table — or was in it when Serve returned — was closed exactly once -/
  obj_closed : ∀ id, id < s.nobj → (id ∉ s.open.map (·.2) ∨ s.ended = true) →
    (s.objs id).closed = (s.objs id).real.toNat ∧ (s.objs id).ctx = 1
  terr_zero : s.ended = false → ∀ id, (s.objs id).terr = 0
  ended_open : s.ended = true → cfg.sweepEmptiesTable = true → s.open = []

theorem Inv.init (cfg : Cfg) : Inv cfg State.init := by
  refine ⟨?_, ?_, ?_, ?_, ?_, ?_, ?_, ?_, ?_, ?_, ?_, ?_, ?_⟩ <;> simp [State.init, Obj.new]

theorem Inv.with_log {cfg : Cfg} {s : State} (hi : Inv cfg s) (l : List Status) : Inv cfg { s with log := l } :=
  ⟨hi.keys_le, hi.keys_nodup, hi.ids_lt, hi.ids_nodup, hi.issued_le, hi.issued_nodup, hi.open_issued,
   hi.closed_le, hi.closed_not_open, hi.obj_open, hi.obj_closed, hi.terr_zero, hi.ended_open⟩

theorem inv_opened {cfg : Cfg} {s : State} (hi : Inv cfg s) (hne : s.ended = false) (kind : Kind) :
    Inv cfg (opened s kind) := by
  have hk : s.count + 1 ∉ s.open.map (·.1) := by
    intro hm; obtain ⟨e, he, h1⟩ := List.mem_map.mp hm; have := hi.keys_le e he; omega
  have hid : s.nobj ∉ s.open.map (·.2) := by
    intro hm; obtain ⟨e, he, h1⟩ := List.mem_map.mp hm; have := hi.ids_lt e he; omega
  have his : s.count + 1 ∉ s.issued := by
    intro hm; have := hi.issued_le _ hm; omega
  refine ⟨?_, ?_, ?_, ?_, ?_, ?_, ?_, ?_, ?_, ?_, ?_, ?_, ?_⟩
  · intro e he; simp only [opened, List.mem_append, List.mem_cons, List.not_mem_nil, or_false] at he ⊢
    rcases he with he | he
    · have := hi.keys_le e he; omega
    · subst he; simp
  · simp only [opened, List.map_append, List.map_cons, List.map_nil]
    rw [List.nodup_append]
    refine ⟨hi.keys_nodup, by simp, ?_⟩
    intro a ha b hb hab; simp only [List.mem_cons, List.not_mem_nil, or_false] at hb
    subst hb; subst hab; exact hk ha
  · intro e he; simp only [opened, List.mem_append, List.mem_cons, List.not_mem_nil, or_false] at he ⊢
    rcases he with he | he
    · have := hi.ids_lt e he; omega
    · subst he; simp
  · simp only [opened, List.map_append, List.map_cons, List.map_nil]
    rw [List.nodup_append]
    refine ⟨hi.ids_nodup, by simp, ?_⟩
    intro a ha b hb hab; simp only [List.mem_cons, List.not_mem_nil, or_false] at hb
    subst hb; subst hab; exact hid ha
  · intro h hh; simp only [opened, List.mem_append, List.mem_cons, List.not_mem_nil, or_false] at hh ⊢
    rcases hh with hh | hh
    · have := hi.issued_le h hh; omega
    · omega
  · simp only [opened]
    rw [List.nodup_append]
    refine ⟨hi.issued_nodup, by simp, ?_⟩
    intro a ha b hb hab; simp only [List.mem_cons, List.not_mem_nil, or_false] at hb
    subst hb; subst hab; exact his ha
  · intro e he; simp only [opened, List.mem_append, List.mem_cons, List.not_mem_nil, or_false] at he ⊢
    rcases he with he | he
    · exact Or.inl (hi.open_issued e he)
    · subst he; exact Or.inr rfl
  · intro h hh; simp only [opened] at hh ⊢; have := hi.closed_le h hh; omega
  · intro h hh; simp only [opened, List.map_append, List.map_cons, List.map_nil, List.mem_append,
      List.mem_cons, List.not_mem_nil, or_false, not_or] at hh ⊢
    have := hi.closed_le h hh
    exact ⟨hi.closed_not_open h hh, by omega⟩
  · intro _ e he; simp only [opened, List.mem_append, List.mem_cons, List.not_mem_nil, or_false] at he ⊢
    rcases he with he | he
    · have := hi.ids_lt e he
      rw [upd_other _ _ _ _ (by omega)]; exact hi.obj_open hne e he
    · subst he; simp [Obj.new]
  · intro id hlt hnm
    have hnm' : id ∉ (opened s kind).open.map (·.2) := by
      rcases hnm with h | h
      · exact h
      · simp only [opened] at h; rw [hne] at h; cases h
    simp only [opened, List.map_append, List.map_cons, List.map_nil, List.mem_append, List.mem_cons,
      List.not_mem_nil, or_false, not_or] at hlt hnm' ⊢
    rw [upd_other _ _ _ _ hnm'.2]
    exact hi.obj_closed id (by omega) (Or.inl hnm'.1)
  · intro _ id; simp only [opened]
    by_cases h : id = s.nobj
    · subst h; simp [Obj.new]
    · rw [upd_other _ _ _ _ h]; exact hi.terr_zero hne id
  · intro he; simp only [opened] at he; rw [hne] at he; cases he

theorem inv_closeEntry {cfg : Cfg} (hg : Good cfg) {s : State} (hi : Inv cfg s) (hne : s.ended = false)
    {h id : Nat} (hm : (h, id) ∈ s.open) : Inv cfg (closeEntry cfg s h id) := by
  have hsub : ∀ e, e ∈ s.open.filter (fun e => !(e.1 == h)) → e ∈ s.open ∧ e.1 ≠ h := by
    intro e he; obtain ⟨h1, h2⟩ := List.mem_filter.mp he; exact ⟨h1, by simpa using h2⟩
  have hsl : List.Sublist (s.open.filter (fun e => !(e.1 == h))) s.open := List.filter_sublist
  have hidne : ∀ e, e ∈ s.open → e.1 ≠ h → e.2 ≠ id := by
    intro e he hne' heq
    have := nodup_map_inj (·.2) s.open hi.ids_nodup e (h, id) he hm heq
    rw [this] at hne'; exact hne' rfl
  unfold closeEntry
  rw [hg.del, hg.mono]
  simp only [if_true]
  refine ⟨?_, ?_, ?_, ?_, hi.issued_le, hi.issued_nodup, ?_, ?_, ?_, ?_, ?_, ?_, ?_⟩
  · intro e he; exact hi.keys_le e (hsub e he).1
  · exact hi.keys_nodup.sublist (hsl.map _)
  · intro e he; exact hi.ids_lt e (hsub e he).1
  · exact hi.ids_nodup.sublist (hsl.map _)
  · intro e he; exact hi.open_issued e (hsub e he).1
  · intro h' hh; simp only [List.mem_append, List.mem_cons, List.not_mem_nil, or_false] at hh
    rcases hh with hh | hh
    · exact hi.closed_le h' hh
    · subst hh; exact hi.keys_le _ hm
  · intro h' hh hmem; simp only [List.mem_append, List.mem_cons, List.not_mem_nil, or_false] at hh
    obtain ⟨e, he, h1⟩ := List.mem_map.mp hmem
    rcases hh with hh | hh
    · exact hi.closed_not_open h' hh (List.mem_map.mpr ⟨e, (hsub e he).1, h1⟩)
    · subst hh; exact (hsub e he).2 h1
  · intro _ e he; simp only
    rw [upd_other _ _ _ _ (hidne e (hsub e he).1 (hsub e he).2)]
    exact hi.obj_open hne e (hsub e he).1
  · intro id' hlt hnm; simp only at hlt hnm ⊢
    have hnm' : id' ∉ (s.open.filter (fun e => !(e.1 == h))).map (·.2) := by
      rcases hnm with h1 | h1
      · exact h1
      · rw [hne] at h1; cases h1
    by_cases hid : id' = id
    · subst hid; rw [upd_same]
      have := hi.obj_open hne _ hm
      simp only at this
      simp [Obj.close, Obj.real, this.1, this.2]
    · rw [upd_other _ _ _ _ hid]
      apply hi.obj_closed id' hlt
      left
      intro hmem
      obtain ⟨e, he, h1⟩ := List.mem_map.mp hmem
      by_cases hk : e.1 = h
      · have := nodup_map_inj (·.1) s.open hi.keys_nodup e (h, id) he hm hk
        rw [this] at h1; exact hid h1.symm
      · exact hnm' (List.mem_map.mpr ⟨e, List.mem_filter.mpr ⟨he, by simpa using hk⟩, h1⟩)
  · intro _ id'; simp only
    by_cases hid : id' = id
    · subst hid; rw [upd_same]; simp only [Obj.close]; exact hi.terr_zero hne id'
    · rw [upd_other _ _ _ _ hid]; exact hi.terr_zero hne id'
  · intro he; simp only at he; rw [hne] at he; cases he

/-- Touching an object changes nothing but its `touched` counter. -/
theorem touch_fields (s : State) (id i : Nat) :
    (upd s.objs id (s.objs id).touch i).closed = (s.objs i).closed ∧
    (upd s.objs id (s.objs id).touch i).ctx = (s.objs i).ctx ∧
    (upd s.objs id (s.objs id).touch i).real = (s.objs i).real ∧
    (upd s.objs id (s.objs id).touch i).terr = (s.objs i).terr ∧
    (upd s.objs id (s.objs id).touch i).kind = (s.objs i).kind := by
  by_cases h : i = id
  · subst h; rw [upd_same]; simp [Obj.touch, Obj.real]
  · rw [upd_other _ _ _ _ h]; simp

theorem inv_touch {cfg : Cfg} {s : State} (hi : Inv cfg s) (id : Nat) :
    Inv cfg { s with objs := upd s.objs id (s.objs id).touch } := by
  have key := touch_fields s id
  refine ⟨hi.keys_le, hi.keys_nodup, hi.ids_lt, hi.ids_nodup, hi.issued_le, hi.issued_nodup, hi.open_issued,
   hi.closed_le, hi.closed_not_open, ?_, ?_, ?_, hi.ended_open⟩
  · intro hne e he; simp only; rw [(key e.2).1, (key e.2).2.1]; exact hi.obj_open hne e he
  · intro i hlt hnm; simp only; rw [(key i).1, (key i).2.1, (key i).2.2.1]; exact hi.obj_closed i hlt hnm
  · intro hne i; simp only; rw [(key i).2.2.2.1]; exact hi.terr_zero hne i

theorem step_live {cfg : Cfg} {s s' : State} {act : Action} (h : step cfg s act = some s') :
    s.ended = false ∧ live cfg s act = some s' := by
  unfold step at h
  cases he : s.ended with
  | false => rw [he] at h; exact ⟨rfl, by simpa using h⟩
  | true => rw [he] at h; simp at h

/-- The sweep, object by object (given that it closes). -/
theorem sweepObj_fields {cfg : Cfg} (hswp : cfg.sweepClosesAll = true) (err : Bool) (o : Obj) :
    (sweepObj cfg err o).closed = o.closed + o.real.toNat ∧ (sweepObj cfg err o).ctx = o.ctx + 1 ∧
    (sweepObj cfg err o).kind = o.kind ∧ (sweepObj cfg err o).real = o.real ∧
    (sweepObj cfg err o).touched = o.touched ∧
    (sweepObj cfg err o).terr =
      o.terr + (if (cfg.sweepNotifiesTransferError && err && cfg.notifies o.kind) = true then 1 else 0) := by
  unfold sweepObj
  rw [hswp]
  by_cases hn : (cfg.sweepNotifiesTransferError && err && cfg.notifies o.kind) = true
  · simp [hn, Obj.close, Obj.notify, Obj.real]
  · simp [hn, Obj.close, Obj.real]

theorem inv_sweep {cfg : Cfg} (hg : Good cfg) {s s' : State} {err : Bool} (hi : Inv cfg s)
    (h : step cfg s (.sweep err) = some s') : Inv cfg s' := by
  obtain ⟨hne, h⟩ := step_live h
  simp only [live, Option.some.injEq] at h
  subst h
  have hsl : ∀ e, e ∈ (if cfg.sweepEmptiesTable = true then [] else s.open) → e ∈ s.open := by
    intro e he; split at he
    · cases he
    · exact he
  have hsub : List.Sublist (if cfg.sweepEmptiesTable = true then [] else s.open) s.open := by
    split
    · exact List.nil_sublist _
    · exact List.Sublist.refl _
  refine ⟨?_, ?_, ?_, ?_, hi.issued_le, hi.issued_nodup, ?_, hi.closed_le, ?_, ?_, ?_, ?_, ?_⟩
  · intro e he; exact hi.keys_le e (hsl e he)
  · exact hi.keys_nodup.sublist (hsub.map _)
  · intro e he; exact hi.ids_lt e (hsl e he)
  · exact hi.ids_nodup.sublist (hsub.map _)
  · intro e he; exact hi.open_issued e (hsl e he)
  · intro h' hh hmem
    obtain ⟨e, he, h1⟩ := List.mem_map.mp hmem
    exact hi.closed_not_open h' hh (List.mem_map.mpr ⟨e, hsl e he, h1⟩)
  · intro he; cases he
  · intro id hlt _; simp only at hlt ⊢
    by_cases hm : id ∈ s.open.map (·.2)
    · rw [if_pos hm]
      obtain ⟨e, he, h1⟩ := List.mem_map.mp hm
      have := hi.obj_open hne e he
      rw [h1] at this
      have f := sweepObj_fields hg.swp err (s.objs id)
      rw [f.1, f.2.1, f.2.2.2.1, this.1, this.2]
      simp
    · rw [if_neg hm]; exact hi.obj_closed id hlt (Or.inl hm)
  · intro he; cases he
  · intro _ hse; simp [hse]

theorem step_inv {cfg : Cfg} (hg : Good cfg) {s s' : State} {act : Action} (hi : Inv cfg s)
    (h : step cfg s act = some s') : Inv cfg s' := by
  have h0 := h
  obtain ⟨hne, h⟩ := step_live h
  cases act with
  | openOk k =>
    simp only [live, Option.some.injEq] at h
    subst h
    exact (inv_opened hi hne k).with_log _
  | openFail =>
    simp only [live, ↓reduceIte, hg.cfo] at h
    split at h
    · injection h with h; subst h
      have h1 : Inv cfg ({ opened s .placeholder with log := s.log ++ [Status.fail] }) :=
        (inv_opened hi hne .placeholder).with_log _
      exact inv_closeEntry hg h1 hne (by simp [opened])
    · injection h with h; subst h; exact hi.with_log _
  | use hd =>
    simp only [live] at h
    split at h
    · injection h with h; subst h; exact (inv_touch hi _).with_log _
    · injection h with h; subst h; exact hi.with_log _
  | useAs hd n =>
    simp only [live] at h
    split at h
    · split at h
      · injection h with h; subst h; exact (inv_touch hi _).with_log _
      · split at h
        · injection h with h; subst h; exact hi.with_log _
        · injection h with h; subst h; exact (inv_touch hi _).with_log _
    · injection h with h; subst h; exact hi.with_log _
  | close hd =>
    simp only [live] at h
    split at h
    · next id hl =>
      injection h with h; subst h
      exact (inv_closeEntry hg hi hne (lookup_some_mem _ _ _ hl)).with_log _
    · injection h with h; subst h; exact hi.with_log _
  | sweep err => exact inv_sweep hg hi h0

theorem run_inv {cfg : Cfg} (hg : Good cfg) : ∀ (acts : List Action) {s s' : State}, Inv cfg s →
    run cfg s acts = some s' → Inv cfg s'
  | [], s, s', hi, h => by simp only [run] at h; injection h with h; subst h; exact hi
  | a :: as, s, s', hi, h => by
    simp only [run] at h
    split at h
    · next s1 h1 => exact run_inv hg as (step_inv hg hi h1) h
    · cases h

theorem run_append (cfg : Cfg) : ∀ (as bs : List Action) (s : State),
    run cfg s (as ++ bs) = (run cfg s as).bind (fun s1 => run cfg s1 bs)
  | [], bs, s => rfl
  | a :: as, bs, s => by
    simp only [List.cons_append, run]
    cases step cfg s a with
    | none => rfl
    | some s1 => exact run_append cfg as bs s1

/-- `closedH` and `issued` only grow, the counter never decreases. -/
theorem step_mono {cfg : Cfg} (hg : Good cfg) {s s' : State} {act : Action} (h : step cfg s act = some s') :
    (∀ x, x ∈ s.closedH → x ∈ s'.closedH) ∧ (∀ x, x ∈ s.issued → x ∈ s'.issued) ∧ s.count ≤ s'.count := by
  obtain ⟨hne, h⟩ := step_live h
  cases act with
  | openOk k =>
    simp only [live, Option.some.injEq] at h
    subst h; exact ⟨fun _ hx => hx, fun _ hx => List.mem_append_left _ hx, Nat.le_succ _⟩
  | openFail =>
    simp only [live, ↓reduceIte, hg.cfo] at h
    split at h
    · injection h with h; subst h
      simp only [closeEntry, hg.mono, if_true]
      exact ⟨fun _ hx => List.mem_append_left _ hx, fun _ hx => List.mem_append_left _ hx, Nat.le_succ _⟩
    · injection h with h; subst h; exact ⟨fun _ hx => hx, fun _ hx => hx, Nat.le_refl _⟩
  | use hd =>
    simp only [live] at h
    split at h <;> (injection h with h; subst h; exact ⟨fun _ hx => hx, fun _ hx => hx, Nat.le_refl _⟩)
  | useAs hd n =>
    simp only [live] at h
    repeat' split at h
    all_goals (injection h with h; subst h; exact ⟨fun _ hx => hx, fun _ hx => hx, Nat.le_refl _⟩)
  | close hd =>
    simp only [live] at h
    split at h
    · injection h with h; subst h
      simp only [closeEntry, hg.mono, if_true]
      exact ⟨fun _ hx => List.mem_append_left _ hx, fun _ hx => hx, Nat.le_refl _⟩
    · injection h with h; subst h; exact ⟨fun _ hx => hx, fun _ hx => hx, Nat.le_refl _⟩
  | sweep err =>
    simp only [live, Option.some.injEq] at h
    subst h; exact ⟨fun _ hx => hx, fun _ hx => hx, Nat.le_refl _⟩

theorem run_mono {cfg : Cfg} (hg : Good cfg) : ∀ (acts : List Action) {s s' : State},
    run cfg s acts = some s' →
    (∀ x, x ∈ s.closedH → x ∈ s'.closedH) ∧ (∀ x, x ∈ s.issued → x ∈ s'.issued) ∧ s.count ≤ s'.count
  | [], s, s', h => by
    simp only [run] at h; injection h with h; subst h
    exact ⟨fun _ hx => hx, fun _ hx => hx, Nat.le_refl _⟩
  | a :: as, s, s', h => by
    simp only [run] at h
    split at h
    · next s1 h1 =>
      have m1 := step_mono hg h1
      have m2 := run_mono hg as h
      exact ⟨fun x hx => m2.1 x (m1.1 x hx), fun x hx => m2.2.1 x (m1.2.1 x hx), Nat.le_trans m1.2.2 m2.2.2⟩
    · cases h

/-! ### an object keeps the kind it was created with -/

theorem sweepObj_kind (cfg : Cfg) (err : Bool) (o : Obj) : (sweepObj cfg err o).kind = o.kind := by
  unfold sweepObj
  by_cases hn : (cfg.sweepNotifiesTransferError && err && cfg.notifies o.kind) = true <;>
    by_cases hc : cfg.sweepClosesAll = true <;> simp [hn, hc, Obj.close, Obj.notify]

theorem upd_kind (f : Nat → Obj) (k : Nat) (v : Obj) (hv : v.kind = (f k).kind) (i : Nat) :
    (upd f k v i).kind = (f i).kind := by
  by_cases h : i = k
  · subst h; rw [upd_same]; exact hv
  · rw [upd_other _ _ _ _ h]

theorem upd_touch_kind (f : Nat → Obj) (k i : Nat) : (upd f k (f k).touch i).kind = (f i).kind :=
  upd_kind f k (f k).touch rfl i

theorem upd_close_kind (f : Nat → Obj) (k i : Nat) : (upd f k (f k).close i).kind = (f i).kind :=
  upd_kind f k (f k).close rfl i

theorem closeEntry_kind (cfg : Cfg) (s : State) (h id i : Nat) :
    ((closeEntry cfg s h id).objs i).kind = (s.objs i).kind ∧ (closeEntry cfg s h id).nobj = s.nobj :=
  ⟨upd_close_kind s.objs id i, rfl⟩

theorem step_kind {cfg : Cfg} {s s' : State} {act : Action} (h : step cfg s act = some s') :
    s.nobj ≤ s'.nobj ∧ ∀ id, id < s.nobj → (s'.objs id).kind = (s.objs id).kind := by
  obtain ⟨_, h⟩ := step_live h
  cases act with
  | openOk k =>
    simp only [live, Option.some.injEq] at h
    subst h
    refine ⟨Nat.le_succ _, fun id hid => ?_⟩
    simp only [opened]; rw [upd_other _ _ _ _ (by omega)]
  | openFail =>
    simp only [live] at h
    repeat' split at h
    all_goals (injection h with h; subst h)
    · refine ⟨?_, fun id hid => ?_⟩
      · rw [(closeEntry_kind _ _ _ _ 0).2]; exact Nat.le_succ _
      · rw [(closeEntry_kind _ _ _ _ id).1]; simp only [opened]; rw [upd_other _ _ _ _ (by omega)]
    · refine ⟨Nat.le_succ _, fun id hid => ?_⟩
      simp only [opened]; rw [upd_other _ _ _ _ (by omega)]
    · exact ⟨Nat.le_refl _, fun _ _ => rfl⟩
  | use hd =>
    simp only [live] at h
    split at h <;> (injection h with h; subst h)
    · exact ⟨Nat.le_refl _, fun id _ => upd_touch_kind _ _ id⟩
    · exact ⟨Nat.le_refl _, fun _ _ => rfl⟩
  | useAs hd n =>
    simp only [live] at h
    repeat' split at h
    all_goals (injection h with h; subst h)
    · exact ⟨Nat.le_refl _, fun id _ => upd_touch_kind _ _ id⟩
    · exact ⟨Nat.le_refl _, fun _ _ => rfl⟩
    · exact ⟨Nat.le_refl _, fun id _ => upd_touch_kind _ _ id⟩
    · exact ⟨Nat.le_refl _, fun _ _ => rfl⟩
  | close hd =>
    simp only [live] at h
    split at h <;> (injection h with h; subst h)
    · exact ⟨Nat.le_refl _, fun id _ => upd_close_kind s.objs _ id⟩
    · exact ⟨Nat.le_refl _, fun _ _ => rfl⟩
  | sweep err =>
    simp only [live, Option.some.injEq] at h
    subst h
    refine ⟨Nat.le_refl _, fun id _ => ?_⟩
    simp only
    split
    · exact sweepObj_kind _ _ _
    · rfl

theorem run_kind {cfg : Cfg} : ∀ (acts : List Action) {s s' : State}, run cfg s acts = some s' →
    s.nobj ≤ s'.nobj ∧ ∀ id, id < s.nobj → (s'.objs id).kind = (s.objs id).kind
  | [], s, s', h => by
    simp only [run] at h; injection h with h; subst h; exact ⟨Nat.le_refl _, fun _ _ => rfl⟩
  | a :: as, s, s', h => by
    simp only [run] at h
    split at h
    · next s1 h1 =>
      have m1 := step_kind h1
      have m2 := run_kind as h
      exact ⟨Nat.le_trans m1.1 m2.1, fun id hid => (m2.2 id (by omega)).trans (m1.2 id hid)⟩
    · cases h

/-! ### `Request.transferError` tells exactly the transfer objects -/

/-- The source fact of (a): the kinds `Request.transferError` notifies are reader, writer and
reader-writer — and no other. -/
def NotifiesTransfer (cfg : Cfg) : Prop := ∀ k : Kind, cfg.notifies k = k.isTransfer

theorem notifiesTransfer_iff (cfg : Cfg) :
    NotifiesTransfer cfg ↔ (Kind.all.all fun k => cfg.notifies k == k.isTransfer) = true := by
  constructor
  · intro h; simp only [Kind.all, List.all_cons, List.all_nil, Bool.and_true, Bool.and_eq_true, beq_iff_eq]
    exact ⟨h _, h _, h _, h _, h _⟩
  · intro h k
    simp only [Kind.all, List.all_cons, List.all_nil, Bool.and_true, Bool.and_eq_true, beq_iff_eq] at h
    cases k
    · exact h.1
    · exact h.2.1
    · exact h.2.2.1
    · exact h.2.2.2.1
    · exact h.2.2.2.2

instance (cfg : Cfg) : Decidable (NotifiesTransfer cfg) := decidable_of_iff _ (notifiesTransfer_iff cfg).symm

theorem lookup_ne_none_of_mem : ∀ (l : List (Nat × Nat)) (e : Nat × Nat), e ∈ l → l.lookup e.1 ≠ none
  | [], _, h => by cases h
  | x :: t, e, hm => by
    intro hn
    rw [List.lookup_cons] at hn
    by_cases hx : e.1 = x.1
    · simp [hx] at hn
    · have : (e.1 == x.1) = false := by simp [hx]
      rw [this] at hn
      simp only [List.mem_cons] at hm
      rcases hm with hm | hm
      · subst hm; exact hx rfl
      · exact lookup_ne_none_of_mem t e hm hn

end Sftp.Handles
