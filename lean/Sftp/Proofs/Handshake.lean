import Sftp.Model.Handshake
namespace Sftp.Handshake
open Sftp

theorem get32?_eq {b : Bytes} {v : Nat} {r : Bytes} (h : get32? b = some (v, r)) : b = be32 v ++ r := by
  match b, h with
  | a :: b :: c :: d :: rest, h =>
    simp only [get32?, Option.some.injEq, Prod.mk.injEq] at h
    obtain ⟨hv, hr⟩ := h
    subst hr
    have ha := a.toNat_lt; have hb := b.toNat_lt; have hc := c.toNat_lt; have hd := d.toNat_lt
    simp only [be32, List.cons_append, List.nil_append, List.cons.injEq, and_true]
    refine ⟨?_, ?_, ?_, ?_⟩ <;> apply UInt8.toNat_inj.1 <;> simp only [UInt8.toNat_ofNat'] <;> omega

theorem getStr?_eq {b s r : Bytes} (h : getStr? b = some (s, r)) : b = putStr s ++ r ∧ s.length < 2^32 := by
  unfold getStr? at h
  split at h
  · cases h
  · next n b1 h1 =>
    split at h
    · next hle =>
      simp only [Option.some.injEq, Prod.mk.injEq] at h
      have hlt := get32?_lt h1
      have hb := get32?_eq h1
      obtain ⟨hs, hr⟩ := h
      have hlen : s.length = n := by rw [← hs, List.length_take]; omega
      refine ⟨?_, by omega⟩
      rw [hb, putStr, hlen, List.append_assoc, ← hs, ← hr, List.take_append_drop]
    · cases h

theorem encodePairs_length_cons (p : Pair) (r : List Pair) :
    (encodePairs (p :: r)).length = 8 + p.1.length + p.2.length + (encodePairs r).length := by
  simp [encodePairs]; omega

theorem parsePairs_sound : ∀ (fuel : Nat) (b : Bytes) (ps : List Pair),
    parsePairs fuel b = some ps → b = encodePairs ps ∧ WellSized ps
  | 0, b, ps, h => by
    rw [parsePairs] at h
    split at h
    · next he =>
      cases h
      have : b = [] := by simpa using he
      exact ⟨this, fun p hp => by cases hp⟩
    · cases h
  | fuel + 1, b, ps, h => by
    rw [parsePairs] at h
    split at h
    · next he =>
      cases h
      have : b = [] := by simpa using he
      exact ⟨this, fun p hp => by cases hp⟩
    · cases h1 : getStr? b with
      | none => rw [h1] at h; cases h
      | some nb =>
        rw [h1, Option.bind_some] at h
        cases h2 : getStr? nb.2 with
        | none => rw [h2] at h; cases h
        | some db =>
          rw [h2, Option.bind_some] at h
          cases h3 : parsePairs fuel db.2 with
          | none => rw [h3] at h; cases h
          | some ps' =>
            rw [h3, Option.map_some] at h
            cases h
            have ⟨e1, l1⟩ := getStr?_eq (s := nb.1) (r := nb.2) h1
            have ⟨e2, l2⟩ := getStr?_eq (s := db.1) (r := db.2) h2
            have ⟨e3, w3⟩ := parsePairs_sound fuel db.2 ps' h3
            refine ⟨?_, ?_⟩
            · rw [e1, e2, e3]; simp [encodePairs, List.append_assoc]
            · intro p hp
              rcases List.mem_cons.1 hp with hp | hp
              · subst hp; exact ⟨l1, l2⟩
              · exact w3 p hp

theorem parsePairs_complete : ∀ (ps : List Pair) (fuel : Nat), WellSized ps → (encodePairs ps).length ≤ fuel →
    parsePairs fuel (encodePairs ps) = some ps
  | [], fuel, _, _ => by cases fuel <;> rfl
  | p :: r, fuel, hw, hf => by
    have hp := hw p List.mem_cons_self
    have hl := encodePairs_length_cons p r
    cases fuel with
    | zero => omega
    | succ fuel =>
      have hne : (encodePairs (p :: r)).isEmpty = false := by
        cases hb : encodePairs (p :: r) with
        | nil => rw [hb] at hl; simp only [List.length_nil] at hl; omega
        | cons x xs => rfl
      have hfr : (encodePairs r).length ≤ fuel := by omega
      have ih := parsePairs_complete r fuel (fun q hq => hw q (List.mem_cons_of_mem _ hq)) hfr
      rw [parsePairs, hne]
      have e : encodePairs (p :: r) = putStr p.1 ++ (putStr p.2 ++ encodePairs r) := by
        simp [encodePairs, List.append_assoc]
      rw [e, getStr?_putStr _ hp.1, Option.bind_some]
      simp only [Bool.false_eq_true, if_false]
      rw [getStr?_putStr _ hp.2, Option.bind_some, ih, Option.map_some]

theorem get_insert (m : List Pair) (k v k' : Bytes) :
    get (insert m k v) k' = if k = k' then some v else get m k' := by
  induction m with
  | nil => simp [insert, get]
  | cons p r ih =>
    obtain ⟨pk, pv⟩ := p
    simp only [insert]
    by_cases h1 : pk = k
    · subst h1; by_cases h2 : pk = k' <;> simp [get, h2]
    · simp only [if_neg h1, get, ih]
      by_cases h2 : pk = k'
      · subst h2; simp; intro h; exact absurd h.symm h1
      · simp [h2]

theorem get_foldl (ps : List Pair) : ∀ (m : List Pair) (k : Bytes),
    get (ps.foldl (fun m p => insert m p.1 p.2) m) k =
      match lastWins ps k with
      | some v => some v
      | none => get m k := by
  induction ps with
  | nil => intro m k; rfl
  | cons p r ih =>
    intro m k
    simp only [List.foldl_cons, ih, lastWins]
    cases lastWins r k with
    | some v => rfl
    | none =>
      simp only [get_insert]
      by_cases h : p.1 = k <;> simp [h]

theorem setExtLoop_spec (supported : List (String × String)) :
    ∀ (names : List String) (temp cur : List (String × String)),
      ((setExtLoop false supported names temp cur).1 = none ∧
        ∃ l, (setExtLoop false supported names temp cur).2 = temp ++ l ∧ l.map (·.1) = names ∧
          ∀ p ∈ l, p ∈ supported) ∨
      ((setExtLoop false supported names temp cur).1.isSome = true ∧
        (setExtLoop false supported names temp cur).2 = cur)
  | [], temp, cur => by
    rw [setExtLoop]
    exact .inl ⟨rfl, [], by simp, rfl, fun p hp => by cases hp⟩
  | n :: rest, temp, cur => by
    rw [setExtLoop]
    cases hf : supported.find? (fun p => p.1 == n) with
    | none => exact .inr ⟨rfl, rfl⟩
    | some p =>
      have hm := List.mem_of_find?_eq_some hf
      have hn : p.1 = n := by simpa using List.find?_some hf
      simp only [Bool.false_eq_true, if_false]
      rcases setExtLoop_spec supported rest (temp ++ [p]) cur with ⟨h1, l, h2, h3, h4⟩ | h
      · refine .inl ⟨h1, p :: l, ?_, ?_, ?_⟩
        · rw [h2]; simp
        · simp [h3, hn]
        · intro q hq
          rcases List.mem_cons.1 hq with hq | hq
          · subst hq; exact hm
          · exact h4 q hq
      · exact .inr h

end Sftp.Handshake
