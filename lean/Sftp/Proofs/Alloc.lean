import Sftp.Model.Alloc
/-
  Helper lemmas for C18: the allocator tables in isolation.
-/
namespace Sftp.Alloc
open Sftp

/-- The source facts the theorems need. -/
structure Good (cfg : Cfg) : Prop where
  ras : cfg.releaseAfterSend = true
  marks : cfg.getPageMarksUsed = true
  pop : cfg.popRemovesFromAvailable = true
  del : cfg.releaseDeletesKey = true
  size : cfg.maxTx ≤ cfg.pageSize

instance (cfg : Cfg) : Decidable (Good cfg) :=
  if h : cfg.releaseAfterSend = true ∧ cfg.getPageMarksUsed = true ∧ cfg.popRemovesFromAvailable = true ∧
      cfg.releaseDeletesKey = true ∧ cfg.maxTx ≤ cfg.pageSize then
    isTrue ⟨h.1, h.2.1, h.2.2.1, h.2.2.2.1, h.2.2.2.2⟩
  else isFalse (fun g => h ⟨g.ras, g.marks, g.pop, g.del, g.size⟩)

theorem Good.noAlloc {cfg : Cfg} (h : Good cfg) : Good cfg.noAlloc :=
  ⟨h.ras, h.marks, h.pop, h.del, h.size⟩

def Alloc.usedPages (a : Alloc) : List PageId := a.used.map (·.2)

/-- No page is in two places, and `fresh` is above every page ever handed out that is still tracked. -/
structure AInv (a : Alloc) : Prop where
  nodup : (a.available ++ a.usedPages).Nodup
  lt_fresh : ∀ p : Nat, p ∈ a.available ++ a.usedPages → p < a.fresh

theorem AInv.empty : AInv Alloc.empty := ⟨by simp [Alloc.empty, Alloc.usedPages], by simp [Alloc.empty, Alloc.usedPages]⟩

theorem getPage_cases {cfg : Cfg} (hg : Good cfg) (a : Alloc) (oid : Nat) :
    (∃ q ys, a.available = ys ++ [q] ∧
        getPage cfg a oid = (q, { available := ys, used := a.used ++ [(oid, q)], fresh := a.fresh })) ∨
    getPage cfg a oid =
      (a.fresh, { available := a.available, used := a.used ++ [(oid, a.fresh)], fresh := a.fresh + 1 }) := by
  unfold getPage Alloc.mark
  rw [hg.marks, hg.pop]
  cases hr : cfg.reuse
  · right; simp
  · cases hl : a.available.getLast? with
    | none => right; simp
    | some q =>
      left
      obtain ⟨ys, hys⟩ := List.getLast?_eq_some_iff.mp hl
      refine ⟨q, ys, hys, ?_⟩
      simp [hys]

/-- Everything the session proofs need to know about one `GetPage`. -/
structure GetSpec (a : Alloc) (oid : Nat) (q : PageId) (a' : Alloc) : Prop where
  used_eq : a'.used = a.used ++ [(oid, q)]
  not_used : q ∉ a.usedPages
  avail_sub : ∀ p ∈ a'.available, p ∈ a.available
  inv : AInv a'

theorem getPage_spec {cfg : Cfg} (hg : Good cfg) {a : Alloc} (ha : AInv a) (oid : Nat) :
    GetSpec a oid (getPage cfg a oid).1 (getPage cfg a oid).2 := by
  have hn := ha.nodup
  have hl := ha.lt_fresh
  rcases getPage_cases hg a oid with ⟨q, ys, hys, he⟩ | he
  · rw [he]
    rw [hys] at hn hl
    simp only [Alloc.usedPages] at hn hl ⊢
    refine ⟨rfl, ?_, ?_, ?_, ?_⟩
    · simp only [Alloc.usedPages]
      intro hq
      rw [List.nodup_append] at hn
      exact hn.2.2 q (by simp) q hq rfl
    · intro p hp; rw [hys]; simp [hp]
    · simp only [Alloc.usedPages, List.map_append, List.map_cons, List.map_nil]
      have hp : List.Perm (ys ++ (List.map (·.2) a.used ++ [q])) ((ys ++ [q]) ++ List.map (·.2) a.used) := by
        rw [List.append_assoc]
        exact List.Perm.append_left ys List.perm_append_comm
      exact (hp.nodup_iff).mpr hn
    · intro p hp
      apply hl
      simp only [Alloc.usedPages, List.map_append, List.map_cons, List.map_nil, List.mem_append,
        List.mem_cons, List.not_mem_nil, or_false] at hp ⊢
      rcases hp with hp | hp | hp
      · exact Or.inl (Or.inl hp)
      · exact Or.inr hp
      · exact Or.inl (Or.inr hp)
  · rw [he]
    refine ⟨rfl, ?_, ?_, ?_, ?_⟩
    · intro hq
      have := hl a.fresh (by simp [hq])
      omega
    · intro p hp; exact hp
    · simp only [Alloc.usedPages, List.map_append, List.map_cons, List.map_nil]
      rw [← List.append_assoc, List.nodup_append]
      refine ⟨hn, by simp, ?_⟩
      intro x hx y hy hxy
      simp only [List.mem_cons, List.not_mem_nil, or_false] at hy
      subst hy
      have := hl x hx
      rw [hxy] at this
      exact Nat.lt_irrefl _ this
    · intro p hp
      simp only [Alloc.usedPages, List.map_append, List.map_cons, List.map_nil, List.mem_append,
        List.mem_cons, List.not_mem_nil, or_false] at hp
      simp only
      rcases hp with hp | hp | hp
      · have := hl p (by simp [hp]); omega
      · have := hl p (by simp [Alloc.usedPages, hp]); omega
      · omega

theorem pagesOf_perm (a : Alloc) (oid : Nat) :
    List.Perm (a.pagesOf oid ++ (a.used.filter (fun e => !(e.1 == oid))).map (·.2)) a.usedPages := by
  unfold Alloc.pagesOf Alloc.usedPages
  rw [← List.map_append]
  exact (List.filter_append_perm _ _).map _

theorem release_inv {cfg : Cfg} (hg : Good cfg) {a : Alloc} (ha : AInv a) (oid : Nat) :
    AInv (releasePages cfg a oid) := by
  have hp : List.Perm ((releasePages cfg a oid).available ++ (releasePages cfg a oid).usedPages)
      (a.available ++ a.usedPages) := by
    unfold releasePages
    rw [hg.del]
    simp only [Alloc.usedPages, if_true]
    rw [List.append_assoc]
    exact List.Perm.append_left _ (pagesOf_perm a oid)
  refine ⟨hp.nodup_iff.mpr ha.nodup, ?_⟩
  intro p hpm
  have : (releasePages cfg a oid).fresh = a.fresh := rfl
  rw [this]
  exact ha.lt_fresh p (hp.mem_iff.mp hpm)

theorem release_used {cfg : Cfg} (hg : Good cfg) (a : Alloc) (oid : Nat) :
    (releasePages cfg a oid).used = a.used.filter (fun e => !(e.1 == oid)) := by
  unfold releasePages; rw [hg.del]; rfl

theorem free_inv {a : Alloc} (_ha : AInv a) : AInv (freeAll a) := by
  refine ⟨by simp [freeAll, Alloc.usedPages], by simp [freeAll, Alloc.usedPages]⟩

/-- In a well-formed allocator a page is marked used under at most one order id. -/
theorem used_key_unique {a : Alloc} (ha : AInv a) {o o' : Nat} {p : PageId}
    (h1 : (o, p) ∈ a.used) (h2 : (o', p) ∈ a.used) : o = o' := by
  have hn : (a.used.map (·.2)).Nodup := (List.nodup_append.mp ha.nodup).2.1
  have : ∀ (l : List (Nat × PageId)), (l.map (·.2)).Nodup → (o, p) ∈ l → (o', p) ∈ l → o = o' := by
    intro l
    induction l with
    | nil => intro _ h; cases h
    | cons e l ih =>
      intro hnd h1 h2
      simp only [List.map_cons, List.nodup_cons, List.mem_map, not_exists, not_and] at hnd
      simp only [List.mem_cons] at h1 h2
      rcases h1 with h1 | h1 <;> rcases h2 with h2 | h2
      · rw [← h1] at h2; exact (Prod.mk.inj h2).1.symm
      · exact absurd rfl (hnd.1 (o', p) h2 |> fun h => by rw [← h1] at h; exact h)
      · exact absurd rfl (hnd.1 (o, p) h1 |> fun h => by rw [← h2] at h; exact h)
      · exact ih hnd.2 h1 h2
  exact this a.used hn h1 h2

/-- A used page is not available. -/
theorem used_not_available {a : Alloc} (ha : AInv a) {o : Nat} {p : PageId}
    (h : (o, p) ∈ a.used) : p ∉ a.available := by
  intro hp
  have := (List.nodup_append.mp ha.nodup).2.2 p hp p (List.mem_map.mpr ⟨(o, p), h, rfl⟩)
  exact this rfl

end Sftp.Alloc
