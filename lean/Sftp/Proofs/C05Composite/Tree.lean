import Sftp.Proofs.C05Composite.Wf
/-
  Subtrees of well-formed trees: children, removal of a subtree, the recursion measure of RemoveAll.
-/
namespace Sftp.AbsFS

theorem isPrefixOf_false_iff {q r : Path} : q.isPrefixOf r = false ↔ ¬ q <+: r := by
  cases hb : q.isPrefixOf r with
  | false => simp [← List.isPrefixOf_iff_prefix, hb]
  | true => simp [← List.isPrefixOf_iff_prefix, hb]

theorem isChild_iff {p q : Path} : isChild p q = true ↔ ∃ c, q = p ++ [c] := by
  simp only [isChild, Bool.and_eq_true, beq_iff_eq, List.isPrefixOf_iff_prefix]
  constructor
  · rintro ⟨hl, t, rfl⟩
    simp at hl
    match t, hl with
    | [c], _ => exact ⟨c, rfl⟩
  · rintro ⟨c, rfl⟩
    exact ⟨by simp, List.prefix_append _ _⟩

theorem wf_intro {fs : FS} (hn : (fs.map (·.1)).Nodup)
    (h : ∀ q n, (q, n) ∈ fs → q ≠ [] ∧ ∀ k, 0 < k → k < q.length → get fs (q.take k) = some .dir) :
    wf fs = true := by
  simp only [wf, Bool.and_eq_true, decide_eq_true_eq, List.all_eq_true]
  refine ⟨hn, ?_⟩
  rintro ⟨q, n⟩ hm
  obtain ⟨h1, h2⟩ := h q n hm
  refine ⟨by simpa using h1, ?_⟩
  intro k hk
  simp only [List.mem_range] at hk
  by_cases h0 : k = 0
  · simp [h0]
  · simp [h2 k (by omega) hk]

/-- removing a subtree keeps the tree well-formed -/
theorem wf_delTree {fs : FS} (h : wf fs = true) (q : Path) : wf (delTree fs q) = true := by
  apply wf_intro
  · exact List.Nodup.sublist (List.Sublist.map _ List.filter_sublist) (wf_nodup h)
  · intro r n hm
    simp only [delTree, List.mem_filter, Bool.not_eq_true'] at hm
    obtain ⟨hm, hq⟩ := hm
    have hq' : ¬ q <+: r := isPrefixOf_false_iff.mp hq
    refine ⟨wf_ne_nil h hm, ?_⟩
    intro k hk hk'
    have hg := wf_take h hm k hk hk'
    have hnp : ¬ q <+: r.take k := fun hp => hq' (hp.trans (List.take_prefix _ _))
    unfold delTree
    rw [get_filter fs (fun x => !q.isPrefixOf x)]
    have : q.isPrefixOf (r.take k) = false := by
      cases hb : q.isPrefixOf (r.take k) with
      | false => rfl
      | true => exact absurd (List.isPrefixOf_iff_prefix.mp hb) hnp
    simp [this, hg]

theorem get_delTree (fs : FS) (q r : Path) :
    get (delTree fs q) r = if q <+: r then none else get fs r := by
  unfold delTree
  rw [get_filter fs (fun x => !q.isPrefixOf x)]
  by_cases h : q <+: r
  · simp [h, List.isPrefixOf_iff_prefix.mpr h]
  · have : q.isPrefixOf r = false := by
      cases hb : q.isPrefixOf r with
      | false => rfl
      | true => exact absurd (List.isPrefixOf_iff_prefix.mp hb) h
    simp [h, this]

/-- under a non-directory there is nothing, so removing the entry is removing the subtree -/
theorem del_eq_delTree {fs : FS} (h : wf fs = true) {q : Path} (hq : q ≠ []) (hd : get fs q ≠ some .dir) :
    del fs q = delTree fs q := by
  unfold del delTree
  apply List.filter_congr
  rintro ⟨r, n⟩ hm
  simp only
  by_cases hr : r = q
  · subst hr; simp
  · have : ¬ q <+: r := by
      rintro ⟨t, rfl⟩
      have ht : t ≠ [] := by intro e; subst e; simp at hr
      have := wf_below_none h hq ht hd
      rw [mem_get_of_nodup (wf_nodup h) hm] at this
      cases this
    have hb : q.isPrefixOf r = false := by
      cases hb : q.isPrefixOf r with
      | false => rfl
      | true => exact absurd (List.isPrefixOf_iff_prefix.mp hb) this
    simp [hr, hb]

/-! ### the measure -/

def below (fs : FS) (p : Path) : Nat :=
  (fs.filter (fun e => p.isPrefixOf e.1 && !decide (e.1 = p))).length

theorem below_le_length (fs : FS) (p : Path) : below fs p ≤ fs.length := List.length_filter_le _ _

theorem filter_length_le_of_imp {α} (A B : α → Bool) : ∀ (l : List α), (∀ x ∈ l, A x = true → B x = true) →
    (l.filter A).length ≤ (l.filter B).length
  | [], _ => by simp
  | x :: l, h => by
    have ih := filter_length_le_of_imp A B l (fun y hy => h y (List.mem_cons_of_mem _ hy))
    by_cases ha : A x = true
    · have hb := h x List.mem_cons_self ha
      simp [ha, hb, ih]
    · by_cases hb : B x = true
      · simp [ha, hb]; omega
      · simp [ha, hb, ih]

theorem filter_length_lt_of_imp {α} (A B : α → Bool) : ∀ (l : List α), (∀ x ∈ l, A x = true → B x = true) →
    (∃ x ∈ l, B x = true ∧ A x = false) → (l.filter A).length < (l.filter B).length
  | [], _, ⟨x, hx, _⟩ => by cases hx
  | x :: l, h, ⟨y, hy, hyb, hya⟩ => by
    have hl : ∀ z ∈ l, A z = true → B z = true := fun z hz => h z (List.mem_cons_of_mem _ hz)
    rcases List.mem_cons.mp hy with rfl | hy'
    · have := filter_length_le_of_imp A B l hl
      simp [hyb, hya]; omega
    · have ih := filter_length_lt_of_imp A B l hl ⟨y, hy', hyb, hya⟩
      by_cases ha : A x = true
      · have hb := h x List.mem_cons_self ha
        simp [ha, hb, ih]
      · by_cases hb : B x = true
        · simp [ha, hb]; omega
        · simp [ha, hb, ih]

theorem below_filter_le (fs : FS) (P : Path × Node → Bool) (p : Path) : below (fs.filter P) p ≤ below fs p := by
  unfold below
  rw [List.filter_filter]
  apply filter_length_le_of_imp
  intro x _ hx
  simp only [Bool.and_eq_true] at hx
  simp only [Bool.and_eq_true]
  exact hx.1

theorem below_child_lt {fs : FS} {p : Path} {c : String} {n : Node} (hm : (p ++ [c], n) ∈ fs) :
    below fs (p ++ [c]) < below fs p := by
  unfold below
  apply filter_length_lt_of_imp
  · rintro ⟨r, m⟩ _ hx
    simp only [Bool.and_eq_true, List.isPrefixOf_iff_prefix, Bool.not_eq_true', decide_eq_false_iff_not] at hx ⊢
    obtain ⟨⟨t, rfl⟩, _⟩ := hx
    refine ⟨⟨[c] ++ t, by simp⟩, ?_⟩
    intro e
    have := congrArg List.length e
    simp at this
  · refine ⟨_, hm, ?_, ?_⟩
    · simp only [Bool.and_eq_true, List.isPrefixOf_iff_prefix, Bool.not_eq_true', decide_eq_false_iff_not]
      refine ⟨List.prefix_append _ _, ?_⟩
      intro e
      have := congrArg List.length e
      simp at this
    · simp


/-! ### directory listings -/

theorem perm_insertSorted (x : String × Bool) : ∀ l, (insertSorted x l).Perm (x :: l)
  | [] => by simp [insertSorted]
  | y :: ys => by
    simp only [insertSorted]
    split
    · exact List.Perm.refl _
    · exact ((perm_insertSorted x ys).cons y).trans (List.Perm.swap x y ys)

theorem perm_sortNames : ∀ l, (sortNames l).Perm l
  | [] => by simp [sortNames]
  | x :: xs => by
    simp only [sortNames]
    exact (perm_insertSorted x _).trans ((perm_sortNames xs).cons x)

theorem getLastD_snoc (p : Path) (c : String) : (p ++ [c]).getLastD "" = c := by
  simp [List.getLastD_eq_getLast?]

theorem mem_children {fs : FS} {p : Path} {c : String} {k : Bool} :
    (c, k) ∈ children fs p ↔ ∃ n, (p ++ [c], n) ∈ fs ∧ n.isDir = k := by
  simp only [children, List.mem_filterMap]
  constructor
  · rintro ⟨⟨q, n⟩, hm, hx⟩
    by_cases hc : isChild p q = true
    · obtain ⟨c', rfl⟩ := isChild_iff.mp hc
      simp only [hc, if_true, Option.some.injEq, Prod.mk.injEq, getLastD_snoc] at hx
      obtain ⟨rfl, rfl⟩ := hx
      exact ⟨n, hm, rfl⟩
    · simp [hc] at hx
  · rintro ⟨n, hm, rfl⟩
    refine ⟨(p ++ [c], n), hm, ?_⟩
    simp [isChild_iff.mpr ⟨c, rfl⟩]

theorem children_names_nodup (p : Path) : ∀ (fs : FS), (fs.map (·.1)).Nodup → ((children fs p).map (·.1)).Nodup
  | [], _ => by simp [children]
  | (q, n) :: fs, h => by
    simp only [List.map_cons, List.nodup_cons] at h
    have ih := children_names_nodup p fs h.2
    by_cases hc : isChild p q = true
    · obtain ⟨c, rfl⟩ := isChild_iff.mp hc
      have : children ((p ++ [c], n) :: fs) p = (c, n.isDir) :: children fs p := by
        simp [children, hc]
      rw [this, List.map_cons, List.nodup_cons]
      refine ⟨?_, ih⟩
      intro hmem
      obtain ⟨⟨c', k⟩, hck, hcc⟩ := List.mem_map.mp hmem
      simp only at hcc
      subst hcc
      obtain ⟨n', hm', _⟩ := mem_children.mp hck
      exact h.1 (List.mem_map_of_mem (f := (·.1)) hm')
    · have : children ((q, n) :: fs) p = children fs p := by
        simp [children, hc]
      rw [this]; exact ih

/-! ### real directories -/

theorem locate_dirAt_iff {fs : FS} {p : Path} : locate fs p = .dirAt ↔ split fs [] p = (p, []) := by
  constructor
  · intro h
    rcases hsp : split fs [] p with ⟨d, rem⟩
    obtain ⟨mid, hm1, hm2, _, _⟩ := split_spec fs _ _ _ _ hsp
    cases rem with
    | nil => simp at hm1 hm2; rw [hm2, hm1]
    | cons c rem =>
      unfold locate at h
      rw [hsp] at h
      cases rem with
      | nil => simp only at h; cases hg : get fs (d ++ [c]) <;> simp [hg] at h
      | cons c' rem' =>
        simp only at h
        cases hg : get fs (d ++ [c]) with
        | none => simp [hg] at h
        | some n => cases n <;> simp [hg] at h
  · intro h
    unfold locate
    rw [h]

/-- an `entry` is never a directory -/
theorem locate_entry_not_dir {fs : FS} {p : Path} : locate fs p ≠ .entry .dir := by
  intro h
  rcases hsp : split fs [] p with ⟨d, rem⟩
  obtain ⟨_, _, _, _, hm4⟩ := split_spec fs _ _ _ _ hsp
  unfold locate at h
  rw [hsp] at h
  match rem, h, hm4 with
  | [], h, _ => simp at h
  | [c], h, hm4 =>
    simp only at h
    cases hg : get fs (d ++ [c]) with
    | none => simp [hg] at h
    | some n =>
      simp only [hg, Loc.entry.injEq] at h
      subst h
      exact hm4 c [] rfl hg
  | c :: c' :: rem', h, _ =>
    simp only at h
    cases hg : get fs (d ++ [c]) with
    | none => simp [hg] at h
    | some n => cases n <;> simp [hg] at h

/-- removing a subtree rooted strictly deeper than `p` does not change the walk to `p` -/
theorem split_delTree_of_longer (fs : FS) (p q : Path) (h : p.length < q.length) :
    split (delTree fs q) [] p = split fs [] p := by
  apply split_congr
  intro k _ hk'
  rw [get_delTree]
  have : ¬ q <+: p.take k := by
    intro hp
    have := hp.length_le
    simp at this
    omega
  simp [this]

end Sftp.AbsFS
