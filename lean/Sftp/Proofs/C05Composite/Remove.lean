import Sftp.Model.Composite
import Sftp.Spec.OsComposite
/-
  Client.Remove = os.Remove on the abstract file system (helper lemmas for Props/C05Composite.lean).
-/
namespace Sftp.C05Composite
open Sftp.AbsFS Sftp.Composite Sftp.Spec.OsComposite

theorem wire_eq_std {W : Result → CErr} (hW : WireStd W) : W = wireStd :=
  funext fun r => hW r (Result.mem_all r)

/-- statN on something that is not an entry does not need its budget -/
theorem statN_succ_of_not_link (n : Nat) (fs : FS) (p : Path)
    (h : ∀ t, locate fs p ≠ .entry (.link t)) : statN (n + 1) fs p = lstat fs p := by
  rw [statN, lstat]
  cases hl : locate fs p with
  | dirAt => rfl
  | absent => rfl
  | blocked r => rfl
  | entry nd =>
    cases nd with
    | file => rfl
    | dir => rfl
    | link t => exact absurd hl (h t)

/-- Go's os.Remove (unlink, then rmdir, error choice) is the documented os.Remove. -/
theorem osRemoveCall_eq_spec (fs : FS) (p : Path) : osRemoveCall fs p = osRemove fs p := by
  unfold osRemoveCall osRemove unlink rmdir
  cases hl : locate fs p with
  | dirAt =>
    by_cases hp : p = []
    · subst hp; simp [hl]
    · by_cases hc : hasChild fs p = true
      · simp [hl, hp, hc]
      · simp [hl, hp, hc]
  | entry nd => simp
  | absent => simp [hl]
  | blocked r => cases r <;> simp [hl]

/-- when os.Remove fails: nothing changes, every server call fails with an error of the same wire image, and a
stat either succeeds or fails with that same wire image. -/
theorem remove_fail_profile (fs : FS) (p : Path) (h : (osRemove fs p).2 ≠ .ok) :
    (osRemove fs p).1 = fs ∧ wireStd (osRemove fs p).2 ≠ .ok ∧
    (∀ c, ∃ rc, srvCall c fs p = (fs, rc) ∧ wireStd rc = wireStd (osRemove fs p).2) ∧
    (wireStd (stat fs p).1 = .ok ∨ wireStd (stat fs p).1 = wireStd (osRemove fs p).2) ∧
    (wireStd (lstat fs p).1 = .ok ∨ wireStd (lstat fs p).1 = wireStd (osRemove fs p).2) := by
  have hstat : ∀ (_ : ∀ t, locate fs p ≠ .entry (.link t)), stat fs p = lstat fs p :=
    fun hh => statN_succ_of_not_link _ fs p hh
  cases hl : locate fs p with
  | entry nd => simp [osRemove, hl] at h
  | absent =>
    rw [hstat (by simp [hl])]
    refine ⟨by simp [osRemove, hl], by simp [osRemove, hl, wireStd], ?_, by simp [osRemove, lstat, hl], by simp [osRemove, lstat, hl]⟩
    intro c; cases c <;> simp [srvCall, osRemoveCall, unlink, rmdir, osRemove, hl, wireStd]
  | blocked r =>
    rw [hstat (by simp [hl])]
    have hr : r ≠ .ok := by simpa [osRemove, hl] using h
    refine ⟨by simp [osRemove, hl], ?_, ?_, by simp [osRemove, lstat, hl], by simp [osRemove, lstat, hl]⟩
    · cases r <;> simp_all [osRemove, wireStd]
    · intro c; cases c <;> cases r <;> simp_all [srvCall, osRemoveCall, unlink, rmdir, osRemove, wireStd]
  | dirAt =>
    rw [hstat (by simp [hl])]
    by_cases hp : p = []
    · subst hp
      refine ⟨by simp [osRemove, hl], by simp [osRemove, hl, wireStd], ?_, by simp [osRemove, lstat, hl, wireStd], by simp [osRemove, lstat, hl, wireStd]⟩
      intro c; cases c <;> simp [srvCall, osRemoveCall, unlink, rmdir, osRemove, hl, wireStd]
    · by_cases hc : hasChild fs p = true
      · refine ⟨by simp [osRemove, hl, hp, hc], by simp [osRemove, hl, hp, hc, wireStd], ?_, by simp [osRemove, lstat, hl, hp, hc, wireStd], by simp [osRemove, lstat, hl, hp, hc, wireStd]⟩
        intro c; cases c <;> simp [srvCall, osRemoveCall, unlink, rmdir, osRemove, hl, hp, hc, wireStd]
      · simp [osRemove, hl, hp, hc] at h

/-- The decidable condition on the configuration under which Client.Remove is os.Remove: the REMOVE packet is
served by os.Remove, or it is served by unlink and a FAILURE reply makes the client try RMDIR, which is served
by something that can remove a directory. -/
def RemoveCfgOk (cfg : CompositeCfg) : Prop :=
  cfg.removePkt = .osRemove ∨
  (cfg.removePkt = .unlink ∧ cfg.rmFallbackOn.contains .failure = true ∧ cfg.rmdirPkt ≠ .unlink)

instance (cfg : CompositeCfg) : Decidable (RemoveCfgOk cfg) := by unfold RemoveCfgOk; infer_instance

/-- the tail of removeC once both calls failed with the same wire image -/
theorem remove_tail (cfg : CompositeCfg) (fs : FS) (p : Path) (e eD : CErr) (heD : eD = e)
    (hs : wireStd (stat fs p).1 = .ok ∨ wireStd (stat fs p).1 = e)
    (hl : wireStd (lstat fs p).1 = .ok ∨ wireStd (lstat fs p).1 = e) :
    (if (cfg.rmCompare && sameErr cfg e eD) = true then (fs, e)
     else if (!cfg.rmStats) = true then (fs, e)
     else
      if wireStd (if cfg.rmStatFollows = true then stat fs p else lstat fs p).1 ≠ .ok then
        (fs, wireStd (if cfg.rmStatFollows = true then stat fs p else lstat fs p).1)
      else if (if cfg.rmStatFollows = true then stat fs p else lstat fs p).2.isDir = cfg.rmDirGivesErrD then (fs, eD)
      else (fs, e)) = (fs, e) := by
  subst heD
  split
  · rfl
  · split
    · rfl
    · cases hf : cfg.rmStatFollows
      · simp only [Bool.false_eq_true, if_false]
        rcases hl with hl | hl
        · simp [hl]
        · simp [hl]
      · simp only [if_true]
        rcases hs with hs | hs
        · simp [hs]
        · simp [hs]

theorem removeC_unfold (cfg : CompositeCfg) (fs : FS) (p : Path) :
    removeC cfg wireStd fs p =
      (if wireStd (srvCall cfg.removePkt fs p).2 = .ok then ((srvCall cfg.removePkt fs p).1, .ok)
       else if (!cfg.rmFallbackOn.contains (wireStd (srvCall cfg.removePkt fs p).2)) = true then
         ((srvCall cfg.removePkt fs p).1, wireStd (srvCall cfg.removePkt fs p).2)
       else
        let fs1 := (srvCall cfg.removePkt fs p).1
        let eF := wireStd (srvCall cfg.removePkt fs p).2
        let fs2 := (srvCall cfg.rmdirPkt fs1 p).1
        let eD := wireStd (srvCall cfg.rmdirPkt fs1 p).2
        if eD = .ok then (fs2, .ok)
        else if (cfg.rmCompare && sameErr cfg eF eD) = true then (fs2, eF)
        else if (!cfg.rmStats) = true then (fs2, eF)
        else
          if wireStd (if cfg.rmStatFollows = true then stat fs2 p else lstat fs2 p).1 ≠ .ok then
            (fs2, wireStd (if cfg.rmStatFollows = true then stat fs2 p else lstat fs2 p).1)
          else if (if cfg.rmStatFollows = true then stat fs2 p else lstat fs2 p).2.isDir = cfg.rmDirGivesErrD then (fs2, eD)
          else (fs2, eF)) := by
  unfold removeC
  rfl


/-- Client.Remove is os.Remove: same tree, and the caller sees the wire image of os.Remove's error. -/
theorem removeC_eq_spec (cfg : CompositeCfg) (fs : FS) (p : Path) (hc : RemoveCfgOk cfg) :
    removeC cfg wireStd fs p = ((osRemove fs p).1, wireStd (osRemove fs p).2) := by
  rw [removeC_unfold]
  by_cases hok : (osRemove fs p).2 = .ok
  · -- os.Remove succeeds
    rcases hc with h1 | ⟨h1, h2, h3⟩
    · rw [h1]; simp only [srvCall, osRemoveCall_eq_spec, hok, wireStd, if_true]
    · rw [h1]
      cases hl : locate fs p with
      | absent => simp [osRemove, hl] at hok
      | blocked r => simp [osRemove, hl] at hok; simp [osRemove, hl, hok, srvCall, unlink, wireStd]
      | entry nd => simp [srvCall, unlink, osRemove, hl, wireStd]
      | dirAt =>
        have hu : srvCall .unlink fs p = (fs, .errIsDir) := by simp [srvCall, unlink, hl]
        have hd : srvCall cfg.rmdirPkt fs p = osRemove fs p := by
          cases hk : cfg.rmdirPkt with
          | unlink => exact absurd hk h3
          | osRemove => simp [srvCall, osRemoveCall_eq_spec]
          | rmdir => simp [srvCall, rmdir, osRemove, hl]
        simp only [hu, wireStd, h2, hd, hok]
        simp
  · -- os.Remove fails
    obtain ⟨hfs, hne, hcall, hs, hl⟩ := remove_fail_profile fs p hok
    obtain ⟨rF, hF, hFw⟩ := hcall cfg.removePkt
    obtain ⟨rD, hD, hDw⟩ := hcall cfg.rmdirPkt
    simp only [hF, hD, hFw, hDw, hfs, if_neg hne]
    split
    · rfl
    · exact remove_tail cfg fs p _ _ rfl hs hl

end Sftp.C05Composite
