import Sftp.Model.AbsFS
/-
  Lemmas about the abstract file system: association-list lookup, the directory walk `split`, well-formed trees.
-/
namespace Sftp.AbsFS

theorem get_append (fs gs : FS) (p : Path) :
    get (fs ++ gs) p = match get fs p with | some n => some n | none => get gs p := by
  induction fs with
  | nil => simp [get]
  | cons e fs ih =>
    obtain ⟨q, n⟩ := e
    simp only [List.cons_append, get]
    by_cases h : q = p
    · simp [h]
    · simp [h, ih]

theorem get_append_of_some {fs gs : FS} {p : Path} {n : Node} (h : get fs p = some n) :
    get (fs ++ gs) p = some n := by rw [get_append, h]

theorem get_append_of_none {fs gs : FS} {p : Path} (h : get fs p = none) :
    get (fs ++ gs) p = get gs p := by rw [get_append, h]

/-- lookup after filtering on the key -/
theorem get_filter (fs : FS) (P : Path → Bool) (p : Path) :
    get (fs.filter (fun e => P e.1)) p = if P p then get fs p else none := by
  induction fs with
  | nil => simp [get]
  | cons e fs ih =>
    obtain ⟨q, n⟩ := e
    by_cases hq : P q = true
    · rw [List.filter_cons_of_pos (by simpa using hq)]
      simp only [get]
      by_cases h : q = p
      · subst h; simp [hq]
      · simp [h, ih]
    · rw [List.filter_cons_of_neg (by simpa using hq)]
      simp only [get]
      by_cases h : q = p
      · subst h; simp [hq, ih]
      · simp [h, ih]

theorem get_some_mem {fs : FS} {p : Path} {n : Node} (h : get fs p = some n) : (p, n) ∈ fs := by
  induction fs with
  | nil => simp [get] at h
  | cons e fs ih =>
    obtain ⟨q, m⟩ := e
    simp only [get] at h
    by_cases hq : q = p
    · simp only [hq, if_true, Option.some.injEq] at h; subst h; subst hq; exact List.mem_cons_self
    · simp only [hq, if_false] at h; exact List.mem_cons_of_mem _ (ih h)

theorem get_none_of_not_mem {fs : FS} {p : Path} (h : p ∉ fs.map (·.1)) : get fs p = none := by
  cases hg : get fs p with
  | none => rfl
  | some n => exact absurd (List.mem_map_of_mem (f := (·.1)) (get_some_mem hg)) h

theorem mem_get_of_nodup {fs : FS} (hn : (fs.map (·.1)).Nodup) {p : Path} {n : Node} (h : (p, n) ∈ fs) :
    get fs p = some n := by
  induction fs with
  | nil => cases h
  | cons e fs ih =>
    obtain ⟨q, m⟩ := e
    simp only [List.map_cons, List.nodup_cons] at hn
    simp only [get]
    rcases List.mem_cons.mp h with h | h
    · cases h; simp
    · have : q ≠ p := by
        intro hq; subst hq; exact hn.1 (List.mem_map_of_mem (f := (·.1)) h)
      simp [this, ih hn.2 h]

/-! ### the walk -/

/-- if every step of the walk finds a real directory the walk consumes everything -/
theorem split_all_dirs (fs : FS) : ∀ (rest cur : Path),
    (∀ k, 0 < k → k ≤ rest.length → get fs (cur ++ rest.take k) = some .dir) →
    split fs cur rest = (cur ++ rest, [])
  | [], cur, _ => by simp [split]
  | c :: rest, cur, h => by
    have h1 : get fs (cur ++ [c]) = some .dir := by simpa using h 1 (by omega) (by simp)
    rw [split, if_pos h1, split_all_dirs fs rest (cur ++ [c])]
    · simp
    · intro k hk hk'
      have := h (k + 1) (by omega) (by simp; omega)
      simpa using this

/-- what the walk returns -/
theorem split_spec (fs : FS) : ∀ (rest cur d rem : Path), split fs cur rest = (d, rem) →
    ∃ mid, rest = mid ++ rem ∧ d = cur ++ mid ∧
      (∀ k, 0 < k → k ≤ mid.length → get fs (cur ++ mid.take k) = some .dir) ∧
      (∀ c rem', rem = c :: rem' → get fs (d ++ [c]) ≠ some .dir)
  | [], cur, d, rem, h => by
    simp only [split, Prod.mk.injEq] at h
    refine ⟨[], by simp [h.2], by simp [h.1], by intro k h1 h2; simp at h2; omega, ?_⟩
    intro c rem' hr; rw [← h.2] at hr; cases hr
  | c :: rest, cur, d, rem, h => by
    rw [split] at h
    by_cases h1 : get fs (cur ++ [c]) = some .dir
    · rw [if_pos h1] at h
      obtain ⟨mid, hm1, hm2, hm3, hm4⟩ := split_spec fs rest (cur ++ [c]) d rem h
      refine ⟨c :: mid, by simp [hm1], by simp [hm2], ?_, hm4⟩
      intro k hk hk'
      cases k with
      | zero => omega
      | succ k =>
        by_cases hk0 : k = 0
        · subst hk0; simpa using h1
        · have := hm3 k (by omega) (by simp at hk'; omega)
          simpa using this
    · rw [if_neg h1] at h
      simp only [Prod.mk.injEq] at h
      refine ⟨[], by simp [h.2], by simp [h.1], by intro k h1 h2; simp at h2; omega, ?_⟩
      intro c' rem' hr
      rw [← h.2] at hr; cases hr; rw [← h.1]; exact h1

/-- the walk on a path extended by one component -/
theorem split_snoc (fs : FS) (c : String) : ∀ (xs cur : Path),
    split fs cur (xs ++ [c]) =
      match split fs cur xs with
      | (d, []) => if get fs (d ++ [c]) = some .dir then (d ++ [c], []) else (d, [c])
      | (d, r :: rem) => (d, r :: rem ++ [c])
  | [], cur => by simp [split]
  | x :: xs, cur => by
    simp only [List.cons_append]
    rw [split, split]
    by_cases h1 : get fs (cur ++ [x]) = some .dir
    · rw [if_pos h1, if_pos h1]; exact split_snoc fs c xs (cur ++ [x])
    · rw [if_neg h1, if_neg h1]

/-- two trees that agree on every prefix the walk may look at give the same walk -/
theorem split_congr (fs fs' : FS) : ∀ (rest cur : Path),
    (∀ k, 0 < k → k ≤ rest.length → get fs (cur ++ rest.take k) = get fs' (cur ++ rest.take k)) →
    split fs cur rest = split fs' cur rest
  | [], cur, _ => by simp [split]
  | c :: rest, cur, h => by
    have h1 : get fs (cur ++ [c]) = get fs' (cur ++ [c]) := by simpa using h 1 (by omega) (by simp)
    rw [split, split, h1]
    split
    · apply split_congr fs fs' rest (cur ++ [c])
      intro k hk hk'
      have := h (k + 1) (by omega) (by simp; omega)
      simpa using this
    · rfl

end Sftp.AbsFS
