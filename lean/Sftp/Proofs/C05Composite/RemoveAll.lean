import Sftp.Proofs.C05Composite.Tree
import Sftp.Proofs.C05Composite.MkdirAll
/-
  Client.RemoveAll (lstat, list, recurse, remove) = os.RemoveAll (drop the subtree) on well-formed trees,
  for every recursion budget above the number of entries below the path.
-/
namespace Sftp.C05Composite
open Sftp.AbsFS Sftp.Composite Sftp.Spec.OsComposite

def RemoveAllCfgOk (cfg : CompositeCfg) : Prop :=
  RemoveCfgOk cfg ∧ cfg.raLstat = true ∧ cfg.raChildrenFirst = true ∧ cfg.raRecurseDirs = true ∧
  cfg.raRemovesNonDirs = true

instance (cfg : CompositeCfg) : Decidable (RemoveAllCfgOk cfg) := by unfold RemoveAllCfgOk; infer_instance

/-- what Client.RemoveAll returns, in terms of os.RemoveAll: identical except that a failing Lstat is reported
as it is (os.RemoveAll turns "does not exist" into nil; `raNoEntNil` says whether the client does too). -/
def raResult (cfg : CompositeCfg) (fs : FS) (p : Path) : FS × CErr :=
  if wireStd (lstat fs p).1 ≠ .ok then
    (fs, if cfg.raNoEntNil && wireStd (lstat fs p).1 = .notExist then .ok else wireStd (lstat fs p).1)
  else ((osRemoveAll fs p).1, wireStd (osRemoveAll fs p).2)

/-- the tree without the subtrees of the named children of `p` -/
def delKids (fs : FS) (p : Path) (names : List String) : FS :=
  fs.filter (fun e => !(names.any (fun c => (p ++ [c]).isPrefixOf e.1)))

theorem delKids_nil (fs : FS) (p : Path) : delKids fs p [] = fs := by simp [delKids]

theorem delKids_cons (fs : FS) (p : Path) (c : String) (names : List String) :
    delKids (delTree fs (p ++ [c])) p names = delKids fs p (c :: names) := by
  unfold delKids delTree
  rw [List.filter_filter]
  apply List.filter_congr
  intro e _
  simp only [List.any_cons, Bool.not_or, Bool.and_comm]

theorem isDir_eq_true {n : Node} : n.isDir = true ↔ n = .dir := by cases n <;> simp [Node.isDir]

/-- removing one listed child (recursively if it is a directory) removes exactly its subtree -/
theorem child_step (cfg : CompositeCfg) (hc : RemoveAllCfgOk cfg) (fuel : Nat)
    (IH : ∀ fs q, wf fs = true → below fs q < fuel → removeAllC cfg wireStd fuel fs q = raResult cfg fs q)
    (p : Path) (fs : FS) (hwf : wf fs = true) (hp : split fs [] p = (p, [])) (c : String) (k : Bool) (n : Node)
    (hg : get fs (p ++ [c]) = some n) (hk : n.isDir = k) (hb : below fs (p ++ [c]) < fuel) :
    (if (k && cfg.raRecurseDirs) = true then removeAllC cfg wireStd fuel fs (p ++ [c])
     else if (cfg.raRemovesNonDirs || k) = true then removeC cfg wireStd fs (p ++ [c])
     else (fs, .ok)) = (delTree fs (p ++ [c]), .ok) := by
  obtain ⟨hrm, _, _, h4, h5⟩ := hc
  have hloc := locate_snoc_of_dir (name := c) hp
  rw [hg] at hloc
  have hne : p ++ [c] ≠ [] := by simp
  cases k with
  | true =>
    have hn : n = .dir := isDir_eq_true.mp hk
    subst hn
    simp only at hloc
    simp only [h4, Bool.and_self, if_true]
    rw [IH fs _ hwf hb]
    simp [raResult, lstat, hloc, wireStd, osRemoveAll]
  | false =>
    have hn : n ≠ .dir := by intro e; subst e; simp [Node.isDir] at hk
    have hloc' : locate fs (p ++ [c]) = .entry n := by
      cases n with
      | dir => exact absurd rfl hn
      | file => simpa using hloc
      | link t => simpa using hloc
    simp only [h5, Bool.false_and, Bool.false_eq_true, if_false, Bool.or_false, if_true]
    rw [removeC_eq_spec cfg fs _ hrm]
    simp only [osRemove, hloc', wireStd]
    rw [del_eq_delTree hwf hne (by rw [hg]; simpa using hn)]

/-- the loop over the listed children -/
theorem raLoop_eq (cfg : CompositeCfg) (hc : RemoveAllCfgOk cfg) (fuel : Nat)
    (IH : ∀ fs q, wf fs = true → below fs q < fuel → removeAllC cfg wireStd fuel fs q = raResult cfg fs q)
    (p : Path) : ∀ (entries : List (String × Bool)) (fs : FS), wf fs = true → split fs [] p = (p, []) →
      (∀ c k, (c, k) ∈ entries → ∃ n, get fs (p ++ [c]) = some n ∧ n.isDir = k) →
      (entries.map (·.1)).Nodup →
      (∀ c k, (c, k) ∈ entries → below fs (p ++ [c]) < fuel) →
      raLoop cfg wireStd (removeAllC cfg wireStd fuel) p fs entries = (delKids fs p (entries.map (·.1)), .ok)
  | [], fs, _, _, _, _, _ => by simp [raLoop, delKids_nil]
  | (c, k) :: rest, fs, hwf, hp, hent, hnd, hbel => by
    obtain ⟨n, hg, hk⟩ := hent c k List.mem_cons_self
    have hstep := child_step cfg hc fuel IH p fs hwf hp c k n hg hk (hbel c k List.mem_cons_self)
    rw [raLoop]
    simp only
    rw [hstep]
    simp only [ne_eq, not_true_eq_false, if_false]
    simp only [List.map_cons, List.nodup_cons] at hnd
    rw [raLoop_eq cfg hc fuel IH p rest (delTree fs (p ++ [c])) (wf_delTree hwf _)
      (by rw [split_delTree_of_longer]; exact hp; simp)]
    · rw [delKids_cons]; rfl
    · intro c' k' hm
      obtain ⟨n', hg', hk'⟩ := hent c' k' (List.mem_cons_of_mem _ hm)
      refine ⟨n', ?_, hk'⟩
      rw [get_delTree]
      have hcc : c' ≠ c := by
        intro e; subst e
        exact hnd.1 (List.mem_map_of_mem (f := (·.1)) hm)
      have : ¬ (p ++ [c]) <+: (p ++ [c']) := by
        intro hpre
        have := List.IsPrefix.eq_of_length hpre (by simp)
        simp at this
        exact hcc this.symm
      simp [this, hg']
    · exact hnd.2
    · intro c' k' hm
      exact Nat.lt_of_le_of_lt (below_filter_le fs _ _) (hbel c' k' (List.mem_cons_of_mem _ hm))


/-- in a well-formed tree everything strictly below `p` is below one of the children of `p` -/
theorem kids_cover {fs : FS} (hwf : wf fs = true) {p r : Path} {n : Node} (hm : (r, n) ∈ fs)
    (hpre : p <+: r) (hne : r ≠ p) : ∃ c k, (c, k) ∈ children fs p ∧ (p ++ [c]) <+: r := by
  obtain ⟨t, rfl⟩ := hpre
  cases t with
  | nil => simp at hne
  | cons c t =>
    have hpc : (p ++ [c]) <+: (p ++ c :: t) := ⟨t, by simp⟩
    cases t with
    | nil => exact ⟨c, n.isDir, mem_children.mpr ⟨n, hm, rfl⟩, hpc⟩
    | cons c' t' =>
      have := wf_take hwf hm (p.length + 1) (by omega) (by simp)
      have e : List.take (p.length + 1) (p ++ c :: c' :: t') = p ++ [c] := by
        rw [List.take_append]; simp [List.take_of_length_le]
      rw [e] at this
      exact ⟨c, true, mem_children.mpr ⟨.dir, get_some_mem this, rfl⟩, hpc⟩

/-- with ALL children named, what is left is what is not strictly below `p` -/
theorem delKids_complete {fs : FS} (hwf : wf fs = true) (p : Path) (names : List String)
    (hall : ∀ c k, (c, k) ∈ children fs p → c ∈ names) :
    delKids fs p names = fs.filter (fun e => !(p.isPrefixOf e.1) || decide (e.1 = p)) := by
  unfold delKids
  apply List.filter_congr
  rintro ⟨r, n⟩ hm
  simp only
  by_cases hpre : p <+: r
  · by_cases hrp : r = p
    · subst hrp
      have : (names.any fun c => (r ++ [c]).isPrefixOf r) = false := by
        rw [List.any_eq_false]
        intro c _
        rw [Bool.not_eq_true, isPrefixOf_false_iff]
        intro h; have := h.length_le; simp at this; omega
      simp [this]
    · obtain ⟨c, k, hck, hc⟩ := kids_cover hwf hm hpre hrp
      have : (names.any fun c => (p ++ [c]).isPrefixOf r) = true := by
        rw [List.any_eq_true]
        exact ⟨c, hall c k hck, List.isPrefixOf_iff_prefix.mpr hc⟩
      simp [this, hrp, List.isPrefixOf_iff_prefix.mpr hpre]
  · have h1 : p.isPrefixOf r = false := isPrefixOf_false_iff.mpr hpre
    have : (names.any fun c => (p ++ [c]).isPrefixOf r) = false := by
      rw [List.any_eq_false]
      intro c _
      rw [Bool.not_eq_true, isPrefixOf_false_iff]
      intro h; exact hpre ((List.prefix_append p [c]).trans h)
    simp [this, h1]

/-- the remains of the loop: `p` is still a real directory, now empty; removing it leaves `delTree fs p` -/
theorem after_loop {fs : FS} (hwf : wf fs = true) (p : Path) (hp : split fs [] p = (p, [])) :
    let fsL := fs.filter (fun e => !(p.isPrefixOf e.1) || decide (e.1 = p))
    osRemove fsL p = if p = [] then (delTree fs [], .errOther) else (delTree fs p, .ok) := by
  intro fsL
  have hsplit : split fsL [] p = (p, []) := by
    rw [← hp]
    apply split_congr
    intro k _ hk'
    simp only [List.nil_append]
    show AbsFS.get (fs.filter (fun e => (fun x => !(p.isPrefixOf x) || decide (x = p)) e.1)) _ = _
    rw [get_filter fs (fun x => !(p.isPrefixOf x) || decide (x = p))]
    by_cases hk : k = p.length
    · subst hk; simp
    · have : p.isPrefixOf (p.take k) = false := by
        rw [isPrefixOf_false_iff]; intro h; have := h.length_le; simp at this; omega
      simp [this]
  have hloc : locate fsL p = .dirAt := locate_dirAt_iff.mpr hsplit
  unfold osRemove
  rw [hloc]
  by_cases hp0 : p = []
  · subst hp0
    simp only [if_true]
    have h1 : fsL = [] := by
      apply List.filter_eq_nil_iff.mpr
      rintro ⟨r, n⟩ hm
      have := wf_ne_nil hwf hm
      simp [this]
    have h2 : delTree fs [] = [] := by
      apply List.filter_eq_nil_iff.mpr
      rintro ⟨r, n⟩ _
      simp
    rw [h1, h2]
  · simp only [hp0, if_false]
    have hnc : hasChild fsL p = false := by
      unfold hasChild
      rw [List.any_eq_false]
      rintro ⟨r, n⟩ hm
      simp only [Bool.not_eq_true]
      cases hic : isChild p r with
      | false => rfl
      | true =>
        obtain ⟨c, rfl⟩ := isChild_iff.mp hic
        simp only [fsL, List.mem_filter, Bool.or_eq_true, Bool.not_eq_true', decide_eq_true_eq] at hm
        rcases hm.2 with h | h
        · exact absurd (List.prefix_append p [c]) (isPrefixOf_false_iff.mp h)
        · have := congrArg List.length h; simp at this
    simp only [hnc, Bool.false_eq_true, if_false]
    congr 1
    unfold del delTree
    rw [List.filter_filter]
    apply List.filter_congr
    rintro ⟨r, n⟩ _
    simp only
    by_cases hrp : r = p
    · subst hrp; simp
    · simp [hrp]


theorem locate_blocked_ne_ok {fs : FS} {p : Path} {r : Result} (h : locate fs p = .blocked r) : r ≠ .ok := by
  unfold locate at h
  rcases hsp : split fs [] p with ⟨d, rem⟩
  rw [hsp] at h
  match rem, h with
  | [], h => simp at h
  | [c], h =>
    simp only at h
    cases hg : get fs (d ++ [c]) <;> simp [hg] at h
  | c :: c' :: rem', h =>
    simp only at h
    cases hg : get fs (d ++ [c]) with
    | none => simp [hg] at h; subst h; decide
    | some n => cases n <;> simp [hg] at h <;> subst h <;> decide

/-- Client.RemoveAll, any sufficient budget. -/
theorem removeAllC_eq (cfg : CompositeCfg) (hc : RemoveAllCfgOk cfg) :
    ∀ (fuel : Nat) (fs : FS) (p : Path), wf fs = true → below fs p < fuel →
      removeAllC cfg wireStd fuel fs p = raResult cfg fs p
  | 0, _, _, _, h => by omega
  | fuel + 1, fs, p, hwf, hb => by
    have IH := removeAllC_eq cfg hc fuel
    obtain ⟨hrm, h2, h3, h4, h5⟩ := hc
    rw [removeAllC]
    simp only [h2, h3, h5, if_true, Bool.and_true, Bool.true_or]
    unfold raResult
    by_cases hl : wireStd (lstat fs p).1 = .ok
    · simp only [hl, ne_eq, not_true_eq_false, if_false]
      cases hloc : locate fs p with
      | absent => simp [lstat, hloc, wireStd] at hl
      | blocked r =>
        have := locate_blocked_ne_ok hloc
        simp only [lstat, hloc] at hl
        exact absurd (wireStd_eq_ok.mp hl) this
      | entry n =>
        have hn : n.isDir = false := by
          cases n with
          | dir => exact absurd hloc locate_entry_not_dir
          | file => rfl
          | link t => rfl
        simp only [lstat, hloc, hn, Bool.false_eq_true, if_false]
        rw [removeC_eq_spec cfg fs p hrm]
        simp [osRemove, osRemoveAll, hloc]
      | dirAt =>
        have hsp := locate_dirAt_iff.mp hloc
        have hrd : readDir fs p = (.ok, sortNames (children fs p)) := by
          simp [readDir, stat_of_dirAt hloc, Node.isDir, hloc]
        have hperm := perm_sortNames (children fs p)
        simp only [lstat, hloc, Node.isDir, if_true, hrd]
        rw [raLoop_eq cfg ⟨hrm, h2, h3, h4, h5⟩ fuel IH p _ fs hwf hsp]
        · simp only [not_true_eq_false, if_false]
          rw [removeC_eq_spec cfg _ p hrm, delKids_complete hwf p]
          · rw [after_loop hwf p hsp]
            by_cases hp0 : p = []
            · simp [hp0, osRemoveAll, locate, split]
            · simp [hp0, osRemoveAll, hloc]
          · intro c k hck
            exact List.mem_map_of_mem (f := (·.1)) (hperm.mem_iff.mpr hck)
        · intro c k hck
          obtain ⟨n, hm, hk⟩ := mem_children.mp (hperm.mem_iff.mp hck)
          exact ⟨n, mem_get_of_nodup (wf_nodup hwf) hm, hk⟩
        · exact ((hperm.map (·.1)).nodup_iff).mpr (children_names_nodup p fs (wf_nodup hwf))
        · intro c k hck
          obtain ⟨n, hm, _⟩ := mem_children.mp (hperm.mem_iff.mp hck)
          have := below_child_lt hm
          omega
    · simp only [hl, ne_eq, not_false_eq_true, if_true]

end Sftp.C05Composite
