import Sftp.Proofs.C05Composite.FsLemmas
/-
  Well-formed trees.
-/
namespace Sftp.AbsFS

theorem wf_nodup {fs : FS} (h : wf fs = true) : (fs.map (·.1)).Nodup := by
  simp only [wf, Bool.and_eq_true, decide_eq_true_eq] at h; exact h.1

theorem wf_ne_nil {fs : FS} (h : wf fs = true) {q : Path} {n : Node} (hm : (q, n) ∈ fs) : q ≠ [] := by
  simp only [wf, Bool.and_eq_true, List.all_eq_true] at h
  have := (h.2 _ hm).1
  simpa using this

theorem wf_take {fs : FS} (h : wf fs = true) {q : Path} {n : Node} (hm : (q, n) ∈ fs) (k : Nat)
    (hk : 0 < k) (hk' : k < q.length) : get fs (q.take k) = some .dir := by
  simp only [wf, Bool.and_eq_true, List.all_eq_true] at h
  have := (h.2 _ hm).2 k (by simp; exact hk')
  simp only [Bool.or_eq_true, beq_iff_eq, decide_eq_true_eq] at this
  rcases this with h0 | h1
  · omega
  · exact h1

/-- below something that is not a real directory there is nothing -/
theorem wf_below_none {fs : FS} (h : wf fs = true) {q ys : Path} (hq : q ≠ []) (hys : ys ≠ [])
    (hd : get fs q ≠ some .dir) : get fs (q ++ ys) = none := by
  cases hg : get fs (q ++ ys) with
  | none => rfl
  | some n =>
    have hm := get_some_mem hg
    have hlen : 0 < ys.length := List.length_pos_iff.mpr hys
    have := wf_take h hm q.length (List.length_pos_iff.mpr hq) (by simp; omega)
    simp at this
    exact absurd this hd

theorem get_mem_iff {fs : FS} (h : wf fs = true) {q : Path} {n : Node} : get fs q = some n ↔ (q, n) ∈ fs :=
  ⟨get_some_mem, mem_get_of_nodup (wf_nodup h)⟩

/-! ### chains of new directories -/

theorem chain_get_take : ∀ (rest q : Path) (k : Nat), get (chain q rest) (q ++ rest.take k) = some .dir
  | [], q, k => by simp [chain, get]
  | r :: rest, q, 0 => by simp [chain, get]
  | r :: rest, q, k + 1 => by
    have hne : ¬ q = q ++ r :: rest.take k := by
      intro h; have := congrArg List.length h; simp at this
    simp only [chain, get, List.take_succ_cons, hne, if_false]
    have := chain_get_take rest (q ++ [r]) k
    simpa using this

theorem chain_get_long : ∀ (rest q x : Path), q.length + rest.length < x.length → get (chain q rest) x = none
  | [], q, x, h => by
    have : ¬ q = x := by intro e; subst e; simp at h
    simp [chain, get, this]
  | r :: rest, q, x, h => by
    have : ¬ q = x := by intro e; subst e; simp only [List.length_cons] at h; omega
    simp only [chain, get, this, if_false]
    exact chain_get_long rest (q ++ [r]) x (by simp at h ⊢; omega)

theorem chain_snoc : ∀ (rest q : Path) (c : String),
    chain q (rest ++ [c]) = chain q rest ++ [(q ++ rest ++ [c], .dir)]
  | [], q, c => by simp [chain]
  | r :: rest, q, c => by
    simp only [List.cons_append, chain]
    rw [chain_snoc rest (q ++ [r]) c]
    simp

/-- after creating the missing directories of `d/r/rem`, the path `d/r/rem/name` has a real directory as
parent and does not exist -/
theorem locate_after_chain {fs : FS} (hwf : wf fs = true) (d : Path) (r : String) (rem : Path) (name : String)
    (hs : split fs [] (d ++ r :: rem) = (d, r :: rem)) (hg : get fs (d ++ [r]) = none) :
    locate (fs ++ chain (d ++ [r]) rem) (d ++ r :: rem ++ [name]) = .absent := by
  obtain ⟨mid, hm1, hm2, hm3, _⟩ := split_spec fs _ _ _ _ hs
  simp only [List.nil_append] at hm2
  subst hm2
  have hbelow : ∀ ys : Path, get fs ((d ++ [r]) ++ ys) = none := by
    intro ys
    by_cases hys : ys = []
    · subst hys; simpa using hg
    · exact wf_below_none hwf (by simp) hys (by rw [hg]; simp)
  have hwalk : split (fs ++ chain (d ++ [r]) rem) [] (d ++ r :: rem) = (d ++ r :: rem, []) := by
    have := split_all_dirs (fs ++ chain (d ++ [r]) rem) (d ++ r :: rem) []
    simp only [List.nil_append] at this
    apply this
    intro k hk hk'
    by_cases hkd : k ≤ d.length
    · have h3 := hm3 k hk hkd
      simp only [List.nil_append] at h3
      rw [List.take_append_of_le_length hkd]
      exact get_append_of_some h3
    · obtain ⟨j, hj⟩ : ∃ j, k = d.length + (j + 1) := ⟨k - d.length - 1, by omega⟩
      subst hj
      have e : List.take (d.length + (j + 1)) (d ++ r :: rem) = (d ++ [r]) ++ List.take j rem := by
        rw [List.take_append]; simp [List.take_of_length_le]
      rw [e, get_append_of_none (hbelow _)]
      exact chain_get_take rem (d ++ [r]) _
  have hnone : get (fs ++ chain (d ++ [r]) rem) (d ++ r :: rem ++ [name]) = none := by
    have e : d ++ r :: rem ++ [name] = (d ++ [r]) ++ (rem ++ [name]) := by simp
    rw [e, get_append_of_none (hbelow _)]
    apply chain_get_long
    simp; omega
  have hsn := split_snoc (fs ++ chain (d ++ [r]) rem) name (d ++ r :: rem) []
  rw [hwalk] at hsn
  simp only [hnone] at hsn
  have hn' : get (fs ++ chain (d ++ [r]) rem) (d ++ r :: (rem ++ [name])) = none := by simpa using hnone
  unfold locate
  rw [hsn]
  simp [hn']

end Sftp.AbsFS
