import Sftp.Proofs.C05Composite.Wf
import Sftp.Proofs.C05Composite.Remove
/-
  Client.MkdirAll (bottom-up recursion on the path) = os.MkdirAll (one top-down classification) on well-formed trees.
-/
namespace Sftp.C05Composite
open Sftp.AbsFS Sftp.Composite Sftp.Spec.OsComposite

/-- what the caller of Client.MkdirAll sees when os.MkdirAll reports `r`: the ENOTDIR is built locally -/
def maErr (cfg : CompositeCfg) (r : Result) : CErr := if r = .errNotDir then cfg.maFileErr else wireStd r

def MkdirAllCfgOk (cfg : CompositeCfg) : Prop :=
  cfg.maStatFirst = true ∧ cfg.maStatFollows = true ∧ cfg.maDirIsNil = true ∧ cfg.maParents = true ∧
  cfg.maFileErr.cat = .other

instance (cfg : CompositeCfg) : Decidable (MkdirAllCfgOk cfg) := by unfold MkdirAllCfgOk; infer_instance

/-- one level of the recursion, configuration resolved -/
def maStep (cfg : CompositeCfg) (fs : FS) (p : Path) (parent : FS × CErr) : FS × CErr :=
  if wireStd (stat fs p).1 = .ok then (fs, if (stat fs p).2.isDir then .ok else cfg.maFileErr)
  else if parent.2 ≠ .ok then parent
  else
    if wireStd (mkdir parent.1 p).2 = .ok then ((mkdir parent.1 p).1, .ok)
    else if (cfg.maRecheck && (wireStd (lstat (mkdir parent.1 p).1 p).1 = .ok && (lstat (mkdir parent.1 p).1 p).2.isDir)) = true
      then ((mkdir parent.1 p).1, .ok)
    else ((mkdir parent.1 p).1, wireStd (mkdir parent.1 p).2)

theorem mkdirAllC_cons (cfg : CompositeCfg) (hc : MkdirAllCfgOk cfg) (fs : FS) (name : String) (prev : List String) :
    mkdirAllC cfg wireStd fs (name :: prev) =
      maStep cfg fs (prev.reverse ++ [name])
        (if prev ≠ [] then mkdirAllC cfg wireStd fs prev else (fs, .ok)) := by
  obtain ⟨h1, h2, h3, h4, _⟩ := hc
  rw [mkdirAllC]
  simp only [h1, h2, h3, h4, if_true, Bool.true_and, List.reverse_cons, maStep, decide_eq_true_eq]

theorem stat_of_dirAt {fs : FS} {p : Path} (h : locate fs p = .dirAt) : stat fs p = (.ok, .dir) := by
  simp [stat, statN, h]

theorem stat_of_absent {fs : FS} {p : Path} (h : locate fs p = .absent) : stat fs p = (.errNoEnt, .file) := by
  simp [stat, statN, h]

theorem stat_of_file {fs : FS} {p : Path} (h : locate fs p = .entry .file) : stat fs p = (.ok, .file) := by
  simp [stat, statN, h]

theorem stat_of_blocked {fs : FS} {p : Path} {r : Result} (h : locate fs p = .blocked r) : stat fs p = (r, .file) := by
  simp [stat, statN, h]

/-- locate of `xs ++ [name]` when `xs` is a real directory -/
theorem locate_snoc_of_dir {fs : FS} {xs : Path} {name : String} (h : split fs [] xs = (xs, [])) :
    locate fs (xs ++ [name]) =
      match get fs (xs ++ [name]) with
      | none => .absent
      | some .dir => .dirAt
      | some n => .entry n := by
  have hsn := split_snoc fs name xs []
  rw [h] at hsn
  unfold locate
  rw [hsn]
  cases hg : get fs (xs ++ [name]) with
  | none => simp [hg]
  | some n => cases n <;> simp [hg]

/-- locate of `xs ++ [name]` when the walk on `xs` stops early -/
theorem locate_snoc_of_blocked {fs : FS} {xs d : Path} {r : String} {rem : Path} {name : String}
    (h : split fs [] xs = (d, r :: rem)) :
    locate fs (xs ++ [name]) =
      match get fs (d ++ [r]) with
      | none => .blocked .errNoEnt
      | some .file => .blocked .errNotDir
      | some _ => .blocked .errOther := by
  have hsn := split_snoc fs name xs []
  rw [h] at hsn
  unfold locate
  rw [hsn]
  cases rem <;> rfl

theorem blocked_ne_ok {fs : FS} {xs d : Path} {r : String} {rem : Path} {name : String}
    (h : split fs [] xs = (d, r :: rem)) :
    ∃ b, locate fs (xs ++ [name]) = .blocked b ∧ b ≠ .ok ∧ wireStd b ≠ .ok := by
  rw [locate_snoc_of_blocked h]
  cases get fs (d ++ [r]) with
  | none => exact ⟨_, rfl, by decide, by decide⟩
  | some n => cases n <;> exact ⟨_, rfl, by decide, by decide⟩


theorem wireStd_eq_ok {r : Result} : wireStd r = .ok ↔ r = .ok := by cases r <;> simp [wireStd]

/-- the decision of os.MkdirAll at a symbolic link -/
def linkRes (st : Result × Node) (last : Bool) : Result :=
  match st with
  | (.ok, .dir) => if last then .ok else .errOther
  | (.ok, _) => .errNotDir
  | _ => .errExist

/-- os.MkdirAll when the walk stops at `d` with `c :: rest` to go -/
theorem osMkdirAll_of_split {fs : FS} {p d : Path} {c : String} {rest : Path}
    (h : split fs [] p = (d, c :: rest)) :
    osMkdirAll fs p =
      match get fs (d ++ [c]) with
      | none => (fs ++ chain (d ++ [c]) rest, .ok)
      | some .file => (fs, .errNotDir)
      | some .dir => (fs, .errOther)
      | some (.link _) => (fs, linkRes (stat fs (d ++ [c])) (decide (rest = []))) := by
  unfold osMkdirAll
  rw [h]
  simp only
  cases hg : get fs (d ++ [c]) with
  | none => rfl
  | some n =>
    cases n with
    | file => rfl
    | dir => rfl
    | link t =>
      simp only [linkRes]
      rcases hst : stat fs (d ++ [c]) with ⟨sr, sn⟩
      cases sr <;> cases sn <;> simp <;> split <;> rfl

theorem osMkdirAll_of_dir {fs : FS} {p d : Path} (h : split fs [] p = (d, [])) : osMkdirAll fs p = (fs, .ok) := by
  unfold osMkdirAll; rw [h]


theorem mkdir_of_absent {fs : FS} {p : Path} (h : locate fs p = .absent) : mkdir fs p = (fs ++ [(p, .dir)], .ok) := by
  simp [mkdir, h]

theorem mkdir_of_entry {fs : FS} {p : Path} {n : Node} (h : locate fs p = .entry n) : mkdir fs p = (fs, .errExist) := by
  simp [mkdir, h]

theorem mkdir_of_blocked {fs : FS} {p : Path} {r : Result} (h : locate fs p = .blocked r) : mkdir fs p = (fs, r) := by
  simp [mkdir, h]

/-- the step when the parent is (now) fine and the path is a dangling link: EEXIST, seen as FAILURE -/
theorem maStep_entry_fail (cfg : CompositeCfg) {fs : FS} {p t : Path} (hl : locate fs p = .entry (.link t))
    (hs : (stat fs p).1 ≠ .ok) : maStep cfg fs p (fs, .ok) = (fs, .failure) := by
  have hw : wireStd (stat fs p).1 ≠ .ok := fun h => hs (wireStd_eq_ok.mp h)
  unfold maStep
  rw [if_neg hw]
  simp [mkdir_of_entry hl, wireStd, lstat, hl, Node.isDir]


theorem maErr_ok (cfg : CompositeCfg) : maErr cfg .ok = .ok := by simp [maErr, wireStd]

/-- the case where the parent `xs` is a real directory -/
theorem mkdirAll_step_dir (cfg : CompositeCfg) (fs : FS) (xs : Path) (name : String)
    (hsp : split fs [] xs = (xs, [])) :
    maStep cfg fs (xs ++ [name]) (fs, .ok) =
      ((osMkdirAll fs (xs ++ [name])).1, maErr cfg (osMkdirAll fs (xs ++ [name])).2) := by
  have hloc := locate_snoc_of_dir (name := name) hsp
  have hsn := split_snoc fs name xs []
  rw [hsp] at hsn
  simp only at hsn
  cases hg : get fs (xs ++ [name]) with
  | none =>
    rw [hg] at hloc hsn
    simp only [reduceCtorEq, if_false] at hsn
    rw [osMkdirAll_of_split hsn, hg]
    simp only [maStep, stat_of_absent hloc, mkdir_of_absent hloc, wireStd, chain, maErr_ok]
    simp
  | some n =>
    rw [hg] at hloc hsn
    cases n with
    | dir =>
      simp only [if_true] at hsn
      rw [osMkdirAll_of_dir hsn]
      simp only at hloc
      simp [maStep, stat_of_dirAt hloc, wireStd, Node.isDir, maErr_ok]
    | file =>
      simp only [reduceCtorEq, Option.some.injEq, if_false] at hsn
      rw [osMkdirAll_of_split hsn, hg]
      simp only at hloc
      simp [maStep, stat_of_file hloc, wireStd, Node.isDir, maErr]
    | link t =>
      simp only [reduceCtorEq, Option.some.injEq, if_false] at hsn
      rw [osMkdirAll_of_split hsn, hg]
      simp only at hloc
      by_cases hok : (stat fs (xs ++ [name])).1 = .ok
      · have hw : wireStd (stat fs (xs ++ [name])).1 = .ok := wireStd_eq_ok.mpr hok
        unfold maStep
        rw [if_pos hw]
        rcases hst : stat fs (xs ++ [name]) with ⟨sr, sn⟩
        rw [hst] at hok
        simp only at hok
        subst hok
        cases sn <;> simp [linkRes, Node.isDir, maErr, wireStd]
      · rw [maStep_entry_fail cfg hloc hok]
        rcases hst : stat fs (xs ++ [name]) with ⟨sr, sn⟩
        rw [hst] at hok
        simp only at hok
        cases sr <;> simp_all [linkRes, maErr, wireStd]


/-- the case where the walk on the parent `xs` stops early, given the result for the parent -/
theorem mkdirAll_step_blocked (cfg : CompositeCfg) (hc : MkdirAllCfgOk cfg) (fs : FS) (hwf : wf fs = true)
    (xs d : Path) (r : String) (rem : Path) (name : String)
    (hsp : split fs [] xs = (d, r :: rem)) :
    maStep cfg fs (xs ++ [name]) ((osMkdirAll fs xs).1, maErr cfg (osMkdirAll fs xs).2) =
      ((osMkdirAll fs (xs ++ [name])).1, maErr cfg (osMkdirAll fs (xs ++ [name])).2) := by
  obtain ⟨b, hb, hbne, hbw⟩ := blocked_ne_ok (name := name) hsp
  have hfe : cfg.maFileErr ≠ .ok := by
    intro h; have := hc.2.2.2.2; rw [h] at this; cases this
  have hsn := split_snoc fs name xs []
  rw [hsp] at hsn
  simp only at hsn
  obtain ⟨mid, hm1, hm2, _, hm4⟩ := split_spec fs _ _ _ _ hsp
  simp only [List.nil_append] at hm2
  subst hm2
  have hstat : wireStd (stat fs (xs ++ [name])).1 ≠ .ok := by rw [stat_of_blocked hb]; exact hbw
  rw [osMkdirAll_of_split hsp, osMkdirAll_of_split hsn]
  unfold maStep
  rw [if_neg hstat]
  cases hg : get fs (d ++ [r]) with
  | none =>
    simp only [maErr_ok, ne_eq, not_true_eq_false, if_false]
    have hla := locate_after_chain hwf d r rem name (hm1 ▸ hsp) hg
    have hp : xs ++ [name] = d ++ r :: rem ++ [name] := by rw [hm1]
    rw [hp, mkdir_of_absent hla]
    simp only [List.append_eq]
    rw [chain_snoc]
    simp [wireStd]
  | some n =>
    cases n with
    | dir => exact absurd hg (hm4 r rem rfl)
    | file => simp [maErr, hfe]
    | link t =>
      simp only
      have hlb : locate fs (xs ++ [name]) = .blocked .errOther := by
        rw [locate_snoc_of_blocked hsp, hg]
      rcases hst : stat fs (d ++ [r]) with ⟨sr, sn⟩
      by_cases hrem : rem = []
      · subst hrem
        cases sr <;> cases sn <;>
          simp [linkRes, maErr, wireStd, hfe, mkdir_of_blocked hlb, lstat, hlb]
      · cases sr <;> cases sn <;> simp [linkRes, maErr, wireStd, hfe, hrem]

/-- Client.MkdirAll is os.MkdirAll on every well-formed tree. -/
theorem mkdirAllC_eq_spec (cfg : CompositeCfg) (hc : MkdirAllCfgOk cfg) (fs : FS) (hwf : wf fs = true) :
    ∀ rp : List String, mkdirAllC cfg wireStd fs rp =
      ((osMkdirAll fs rp.reverse).1, maErr cfg (osMkdirAll fs rp.reverse).2)
  | [] => by
    rw [mkdirAllC]
    simp [hc.1, hc.2.2.1, osMkdirAll, split, maErr_ok]
  | name :: prev => by
    rw [mkdirAllC_cons cfg hc, List.reverse_cons]
    rcases hsp : split fs [] prev.reverse with ⟨d, rem⟩
    cases rem with
    | nil =>
      obtain ⟨mid, hm1, hm2, _, _⟩ := split_spec fs _ _ _ _ hsp
      simp only [List.nil_append, List.append_nil] at hm1 hm2
      rw [hm2, ← hm1] at hsp
      have hpar : (if prev ≠ [] then mkdirAllC cfg wireStd fs prev else (fs, CErr.ok)) = (fs, .ok) := by
        by_cases hp : prev = []
        · simp [hp]
        · simp only [ne_eq, hp, not_false_eq_true, if_true]
          rw [mkdirAllC_eq_spec cfg hc fs hwf prev, osMkdirAll_of_dir hsp, maErr_ok]
      rw [hpar]
      exact mkdirAll_step_dir cfg fs _ name hsp
    | cons r rem =>
      have hp : prev ≠ [] := by
        intro h; subst h; simp [split] at hsp
      simp only [ne_eq, hp, not_false_eq_true, if_true]
      rw [mkdirAllC_eq_spec cfg hc fs hwf prev]
      exact mkdirAll_step_blocked cfg hc fs hwf _ d r rem name hsp

end Sftp.C05Composite
