import Sftp.Proofs.CodecTotal
import Sftp.Proofs.CodecMeter
/-
  Layouts up to what is on the wire: `cstr` and `lenData` are `str` for a decoder, and a trailing
  `attrs` is a flags word followed by the rest.
-/
namespace Sftp.Codec
open Sftp

/-- The kind a decoder sees: a fixed-content string and a length-prefixed payload are strings. -/
def FKind.wire : FKind → FKind
  | .cstr _ => .str
  | .lenData => .str
  | k => k

theorem decField_wire (cfg : DecCfg) (k : FKind) (sf : Bool) (bs : Bytes) :
    decField cfg k sf bs = decField cfg k.wire sf bs := by
  cases k <;> rfl

/-- Same sequence of wire kinds (names, `safe` flags and the cstr/lenData/str distinction ignored). -/
def sameWire (a b : List FieldD) : Bool := decide (a.map (·.kind.wire) = b.map (·.kind.wire))

theorem decodeFields_sameWire (cfg : DecCfg) : ∀ (a b : List FieldD), sameWire a b = true →
    ∀ bs, forget (decodeFields cfg a bs) = forget (decodeFields cfg b bs)
  | [], [], _, _ => rfl
  | [], _ :: _, h, _ => by simp [sameWire] at h
  | _ :: _, [], h, _ => by simp [sameWire] at h
  | f :: a, g :: b, h, bs => by
    simp only [sameWire, List.map_cons, decide_eq_true_eq, List.cons.injEq] at h
    have ht : sameWire a b = true := by simp only [sameWire, decide_eq_true_eq]; exact h.2
    rw [decodeFields, decodeFields, decField_wire cfg f.kind, decField_wire cfg g.kind, h.1]
    refine forget_bind_congr (forget_decField cfg _ _ _ _) fun v => ?_
    exact forget_bind_congr (decodeFields_sameWire cfg a b ht _) fun vs => rfl

/-- Replace a trailing `attrs` by (flags word, rest): how packet.go lays out OPEN/SETSTAT/FSETSTAT. -/
def splitAttrsTail : List FKind → List FKind
  | [] => []
  | [.attrs] => [.u32, .rest]
  | k :: ks => k :: splitAttrsTail ks

end Sftp.Codec
