import Sftp.Model.Lin
/-
  Helper lemmas for C15 (linearizability from linearization points; the stamped-trace checker).
-/
namespace Sftp.C15
open Sftp

/-! ### insertion sort by stamp -/

theorem insertByStamp_perm (x : SEvent) : ∀ l : List SEvent, (insertByStamp x l).Perm (x :: l)
  | [] => List.Perm.refl _
  | y :: ys => by
    rw [insertByStamp]
    split
    · exact List.Perm.refl _
    · exact ((insertByStamp_perm x ys).cons y).trans (List.Perm.swap x y ys)

theorem sortByStamp_perm : ∀ l : List SEvent, (sortByStamp l).Perm l
  | [] => List.Perm.refl _
  | x :: xs => by
    rw [sortByStamp]
    exact (insertByStamp_perm x _).trans ((sortByStamp_perm xs).cons x)

theorem insertByStamp_sorted (x : SEvent) :
    ∀ l : List SEvent, l.Pairwise (fun a b => a.stamp ≤ b.stamp) →
      (insertByStamp x l).Pairwise (fun a b => a.stamp ≤ b.stamp)
  | [], _ => by simp [insertByStamp]
  | y :: ys, h => by
    rw [insertByStamp]
    have hy := List.pairwise_cons.mp h
    split
    · next hle =>
      refine List.pairwise_cons.mpr ⟨?_, h⟩
      intro b hb
      rcases List.mem_cons.mp hb with rfl | hb
      · exact hle
      · exact Nat.le_trans hle (hy.1 b hb)
    · next hnle =>
      refine List.pairwise_cons.mpr ⟨?_, insertByStamp_sorted x ys hy.2⟩
      intro b hb
      have hb' := (insertByStamp_perm x ys).mem_iff.mp hb
      rcases List.mem_cons.mp hb' with rfl | hb'
      · omega
      · exact hy.1 b hb'

theorem sortByStamp_sorted : ∀ l : List SEvent, (sortByStamp l).Pairwise (fun a b => a.stamp ≤ b.stamp)
  | [] => List.Pairwise.nil
  | x :: xs => by
    rw [sortByStamp]
    exact insertByStamp_sorted x _ (sortByStamp_sorted xs)

/-- distinct stamps ⇒ the sorted list is strictly increasing. -/
theorem sortByStamp_strict (l : List SEvent) (hd : l.Pairwise (fun a b => a.stamp ≠ b.stamp)) :
    (sortByStamp l).Pairwise (fun a b => a.stamp < b.stamp) := by
  have h1 := sortByStamp_sorted l
  have h2 : (sortByStamp l).Pairwise (fun a b => a.stamp ≠ b.stamp) :=
    (sortByStamp_perm l).symm.pairwise hd (fun {a b} h => Ne.symm h)
  exact (h1.and h2).imp (fun h => by omega)

theorem strictlyIncreasing_pairwise :
    ∀ l : List SEvent, strictlyIncreasing l = true → l.Pairwise (fun a b => a.stamp < b.stamp)
  | [], _ => List.Pairwise.nil
  | [a], _ => by simp
  | a :: b :: rest, h => by
    simp only [strictlyIncreasing, Bool.and_eq_true, decide_eq_true_eq] at h
    have ih := strictlyIncreasing_pairwise (b :: rest) h.2
    refine List.pairwise_cons.mpr ⟨?_, ih⟩
    intro c hc
    rcases List.mem_cons.mp hc with rfl | hc
    · exact h.1
    · exact Nat.lt_trans h.1 ((List.pairwise_cons.mp ih).1 c hc)

theorem pairwise_strictlyIncreasing :
    ∀ l : List SEvent, l.Pairwise (fun a b => a.stamp < b.stamp) → strictlyIncreasing l = true
  | [], _ => rfl
  | [a], _ => rfl
  | a :: b :: rest, h => by
    have h' := List.pairwise_cons.mp h
    simp only [strictlyIncreasing, Bool.and_eq_true, decide_eq_true_eq]
    exact ⟨h'.1 b (List.mem_cons_self ..), pairwise_strictlyIncreasing (b :: rest) h'.2⟩

/-! ### the main argument: order by linearization point -/

/-- If `ord` lists the stamped operations in strictly increasing stamp order, every stamp lies
inside its operation's interval, and replaying `ord` explains the results, the history is
linearizable. -/
theorem lin_of_sorted (init : Bytes) (hs ord : List SEvent)
    (inside : ∀ e, e ∈ hs → e.ev.call < e.stamp ∧ e.stamp < e.ev.ret)
    (hp : ord.Perm hs) (hsorted : ord.Pairwise (fun a b => a.stamp < b.stamp))
    (hr : replayOk init (ord.map (·.ev)) = true) :
    Linearizable (hs.map (·.ev)) init := by
  refine ⟨ord.map (·.ev), hp.map _, ?_, hr⟩
  unfold RespectsRT
  rw [List.pairwise_map]
  refine List.Pairwise.imp_of_mem ?_ hsorted
  intro a b ha hb hab
  have h1 := inside a (hp.mem_iff.mp ha)
  have h2 := inside b (hp.mem_iff.mp hb)
  omega

/-! ### the sequential file -/

theorem apply_length (f : Bytes) (op : Op) (h : withinExtent f.length op = true) :
    (apply f op).1.length = f.length := by
  cases op with
  | read off len => rfl
  | size => rfl
  | write off data =>
    simp only [withinExtent, decide_eq_true_eq] at h
    simp only [apply, List.length_append, List.length_take, List.length_drop, List.length_replicate]
    omega

theorem replay_size (n : Nat) :
    ∀ (ord : List Event) (f : Bytes), f.length = n →
      (∀ e, e ∈ ord → withinExtent n e.op = true) → replayOk f ord = true →
      ∀ e, e ∈ ord → e.op = .size → e.res = .size n
  | [], _, _, _, _, e, he, _ => by cases he
  | x :: xs, f, hf, hw, hr, e, he, hop => by
    simp only [replayOk, Bool.and_eq_true, beq_iff_eq] at hr
    rcases List.mem_cons.mp he with rfl | he
    · rw [hop] at hr
      rw [← hr.1, ← hf]; rfl
    · have hx := hw x (List.mem_cons_self ..)
      have hlen : (apply f x.op).1.length = n := by
        rw [apply_length f x.op (by rw [hf]; exact hx), hf]
      exact replay_size n xs _ hlen (fun e he => hw e (List.mem_cons_of_mem _ he)) hr.2 e he hop

/-! ### sequential histories have exactly one admissible order -/

theorem sequential_total (h : List Event)
    (seq : h.Pairwise (fun a b => a.ret < b.call)) :
    ∀ a, a ∈ h → ∀ b, b ∈ h → a = b ∨ a.ret < b.call ∨ b.ret < a.call := by
  have := List.Pairwise.forall_of_forall_of_flip
    (R := fun a b => a = b ∨ a.ret < b.call ∨ b.ret < a.call) (l := h)
    (fun x _ => Or.inl rfl)
    (seq.imp (fun hab => Or.inr (Or.inl hab)))
    (seq.imp (fun hab => Or.inr (Or.inr hab)))
  intro a ha b hb
  exact this ha hb

theorem sequential_unique (h ord : List Event) (wf : ∀ e, e ∈ h → e.call < e.ret)
    (seq : h.Pairwise (fun a b => a.ret < b.call))
    (hp : ord.Perm h) (rt : RespectsRT ord) : ord = h := by
  have hnd : h.Pairwise (fun a b => a ≠ b) := by
    refine List.Pairwise.imp_of_mem ?_ seq
    intro a b ha _ hab heq
    subst heq
    have := wf a ha
    omega
  have hnd' : ord.Pairwise (fun a b => a ≠ b) :=
    hp.symm.pairwise hnd (fun {a b} h => Ne.symm h)
  have hord : ord.Pairwise (fun a b => a.ret < b.call) := by
    refine List.Pairwise.imp_of_mem ?_ (rt.and hnd')
    intro a b ha hb hab
    rcases sequential_total h seq a (hp.mem_iff.mp ha) b (hp.mem_iff.mp hb) with h1 | h1 | h1
    · exact absurd h1 hab.2
    · exact h1
    · exact absurd h1 hab.1
  refine List.Perm.eq_of_pairwise (le := fun a b => a.ret < b.call) ?_ hord seq hp
  intro a b ha hb h1 h2
  have := wf a (hp.mem_iff.mp ha)
  have := wf b hb
  omega

theorem sequential_respectsRT (h : List Event) (wf : ∀ e, e ∈ h → e.call < e.ret)
    (seq : h.Pairwise (fun a b => a.ret < b.call)) : RespectsRT h := by
  refine List.Pairwise.imp_of_mem ?_ seq
  intro a b ha hb hab
  have := wf a ha
  have := wf b hb
  omega

end Sftp.C15
