import Sftp.Model.GateCurrent
import Sftp.Spec.Gate
/-
  Helper lemmas for C09: complete evaluation of the gate over type bytes × open flags,
  and independence of the extension name for non-extended requests.
-/
namespace Sftp.C09
open Sftp Sftp.Spec.Gate

/-- one (type byte, pflags) pair: what may mutate is denied, what only reads is let through -/
def pairCheck (typ pf : Nat) : Bool :=
  (!mayMutate typ pf "" || denied G.gateCfg ⟨typ, pf, ""⟩) &&
  (!onlyReads typ pf "" || gateReadonly G.gateCfg ⟨typ, pf, ""⟩ == some true)

/-- all 256 type bytes with pflags 0 (the gate ignores pflags unless the packet is an OPEN, see below) -/
theorem types_all : allBelow (fun typ => typ == 3 || typ == 200 || pairCheck typ 0) 256 = true := by
  decide +kernel

/-- SSH_FXP_OPEN with all 64 flag sets -/
theorem open_all : allBelow (fun pf => pairCheck 3 pf) 64 = true := by decide +kernel

def extCheck (name : String) : Bool :=
  (List.range 64).all fun pf =>
    (!mutatingExt.contains name || denied G.gateCfg ⟨200, pf, name⟩) &&
    (!readingExt.contains name || gateReadonly G.gateCfg ⟨200, pf, name⟩ == some true)

theorem ext_all : (mutatingExt ++ readingExt).all extCheck = true := by decide +kernel

/-- the extended-request type byte is the only one whose gate looks at the extension name -/
def extTypeOnly200 : Bool :=
  G.gateCfg.makePacket.all fun p => p.2 != extType || p.1 == 200

theorem extTypeOnly200_ok : extTypeOnly200 = true := by decide

/-- OPEN's type byte is the only one whose gate looks at pflags -/
def openTypeOnly3 : Bool :=
  G.gateCfg.makePacket.all fun p => p.2 != openType || p.1 == 3

theorem openTypeOnly3_ok : openTypeOnly3 = true := by decide

theorem readonlyMethod_pflags_irrelevant (cfg : GateCfg) (t : String) (ht : t ≠ openType) (r : GReq) (pf : Nat) :
    readonlyMethod cfg t { r with pflags := pf } = readonlyMethod cfg t r := by
  unfold readonlyMethod
  simp [ht]

theorem gateSwitch_pflags_irrelevant (cfg : GateCfg) (t : String) (ht : t ≠ openType) (r : GReq) (pf : Nat)
    (l : List (String × String)) :
    gateSwitch cfg t { r with pflags := pf } l = gateSwitch cfg t r l := by
  induction l with
  | nil => rfl
  | cons hd tl ih =>
    obtain ⟨c, act⟩ := hd
    simp only [gateSwitch]
    rw [ih, readonlyMethod_pflags_irrelevant cfg t ht]

theorem mem_of_lookup {α} (l : List (Nat × α)) (k : Nat) (v : α) (h : l.lookup k = some v) : (k, v) ∈ l := by
  obtain ⟨l1, l2, heq, _⟩ := List.lookup_eq_some_iff.mp h
  rw [heq]; simp

theorem gateReadonly_pflags_irrelevant (typ pf : Nat) (htyp : typ ≠ 3) (n : String) :
    gateReadonly G.gateCfg ⟨typ, pf, n⟩ = gateReadonly G.gateCfg ⟨typ, 0, n⟩ := by
  unfold gateReadonly
  split
  · rfl
  · cases hl : G.gateCfg.makePacket.lookup typ with
    | none => rfl
    | some t =>
      have ht : t ≠ openType := by
        intro h
        have hall := openTypeOnly3_ok
        unfold openTypeOnly3 at hall
        rw [List.all_eq_true] at hall
        have := hall (typ, t) (mem_of_lookup _ _ _ hl)
        simp [h] at this
        exact htyp this
      exact gateSwitch_pflags_irrelevant G.gateCfg t ht ⟨typ, 0, n⟩ pf _

theorem readonlyMethod_name_irrelevant (cfg : GateCfg) (t : String) (ht : t ≠ extType) (r : GReq) (n : String) :
    readonlyMethod cfg t { r with extName := n } = readonlyMethod cfg t r := by
  unfold readonlyMethod
  by_cases h1 : t = openType
  · simp [h1]
  · simp [h1, ht]

theorem gateSwitch_name_irrelevant (cfg : GateCfg) (t : String) (ht : t ≠ extType) (r : GReq) (n : String)
    (l : List (String × String)) :
    gateSwitch cfg t { r with extName := n } l = gateSwitch cfg t r l := by
  induction l with
  | nil => rfl
  | cons hd tl ih =>
    obtain ⟨c, act⟩ := hd
    simp only [gateSwitch]
    rw [ih, readonlyMethod_name_irrelevant cfg t ht]

theorem gateReadonly_name_irrelevant (typ pf : Nat) (htyp : typ ≠ 200) (n : String) :
    gateReadonly G.gateCfg ⟨typ, pf, n⟩ = gateReadonly G.gateCfg ⟨typ, pf, ""⟩ := by
  unfold gateReadonly
  split
  · rfl
  · cases hl : G.gateCfg.makePacket.lookup typ with
    | none => rfl
    | some t =>
      have ht : t ≠ extType := by
        intro h
        have hall := extTypeOnly200_ok
        unfold extTypeOnly200 at hall
        rw [List.all_eq_true] at hall
        have := hall (typ, t) (mem_of_lookup _ _ _ hl)
        simp [h] at this
        exact htyp this
      exact gateSwitch_name_irrelevant G.gateCfg t ht ⟨typ, pf, ""⟩ n _

end Sftp.C09
