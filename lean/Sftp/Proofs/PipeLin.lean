import Sftp.Model.PipeLin
import Sftp.Proofs.PipeFinal
import Sftp.Proofs.Lin
/-
  Proofs for C15 on the pipeline model: every schedule accepted by M-Pipe supplies linearisation points.
  * `Shape`    what one step can do to `received`, `handled`, `sent` (and by which action)
  * `InvH`     every dispatched request has been handled exactly once or waits, un-handled, in exactly one place
  * `LogInv`   the ghost log of Model/PipeLin.lean is faithful and ordered:  recv < handler return < send
-/
set_option linter.unusedSimpArgs false
namespace Sftp.C15Pipe
open Sftp Sftp.Pipe Sftp.C15

/-! ### what one step does to the three ghost lists -/

theorem sendLoop_sent_prefix (hm : Bool) (is : List OReq) (os sn : List Resp) :
    ∃ t, (sendLoop hm is os sn).2.2 = sn ++ t := by
  induction is generalizing os sn with
  | nil => cases os <;> exact ⟨[], by simp [sendLoop]⟩
  | cons i is ih =>
    cases os with
    | nil => exact ⟨[], by simp [sendLoop]⟩
    | cons o os =>
      rw [sendLoop]
      split
      · obtain ⟨t, ht⟩ := ih os (sn ++ [o])
        exact ⟨o :: t, by rw [ht]; simp⟩
      · exact ⟨[], by simp⟩

theorem applySend_sent_prefix (cfg : PipeCfg) (s : State) : ∃ t, (applySend cfg s).sent = s.sent ++ t :=
  sendLoop_sent_prefix _ _ _ _

def IsHandle (a : Action) : Prop := a = .cmdHandle ∨ ∃ i, a = .workerHandle i
def IsCtl (a : Action) : Prop := a = .ctlTakeReq ∨ a = .ctlTakeResp ∨ a = .ctlFini

/-- One step: `received` grows only by a `recv` (by exactly that request, numbered next); `handled` grows only by a
handler-return action, by one request that was in a queue or a worker; `sent` only grows, and only by a controller
action; and no step both handles and sends. -/
structure Shape (a : Action) (s s' : State) : Prop where
  recv : s'.received = s.received ∨
    ∃ r, a = .recv r ∧ s'.received = s.received ++ [⟨s.received.length + 1, r.id, r.kind⟩]
  hand : s'.handled = s.handled ∨
    ∃ r ∈ pendingReqs s, IsHandle a ∧ s'.handled = s.handled ++ [r.oid] ∧ s'.sent = s.sent
  sent : ∃ ns, s'.sent = s.sent ++ ns ∧ (ns = [] ∨ (s'.handled = s.handled ∧ IsCtl a))

theorem Shape.same {a : Action} {s s' : State} (h1 : s'.received = s.received) (h2 : s'.handled = s.handled)
    (h3 : s'.sent = s.sent) : Shape a s s' :=
  ⟨Or.inl h1, Or.inl h2, ⟨[], by simp [h3], Or.inl rfl⟩⟩

theorem Shape.ofSend {a : Action} (cfg : PipeCfg) {s0 s : State} (ha : IsCtl a)
    (h1 : s.received = s0.received) (h2 : s.handled = s0.handled) (h3 : s.sent = s0.sent) :
    Shape a s0 (applySend cfg s) := by
  obtain ⟨t, ht⟩ := applySend_sent_prefix cfg s
  refine ⟨Or.inl h1, Or.inl h2, ⟨t, by rw [ht, h3], Or.inr ⟨h2, ha⟩⟩⟩

theorem shape_step {cfg : PipeCfg} {s s' : State} {a : Action} (hs : step cfg s a = some s') : Shape a s s' := by
  unfold step at hs
  split at hs
  · simp at hs
  cases a with
  | recv r =>
    simp only [recvStep] at hs
    split at hs
    · simp at hs
    · simp only [Option.some.injEq] at hs; subst hs
      exact ⟨Or.inr ⟨r, rfl, rfl⟩, Or.inl rfl, ⟨[], by simp, Or.inl rfl⟩⟩
  | dispatch =>
    simp only [dispatchStep] at hs
    split at hs
    · simp only [Option.some.injEq] at hs; subst hs; exact Shape.same rfl rfl rfl
    · split at hs
      · simp at hs
      · split at hs
        · split at hs <;> (simp only [Option.some.injEq] at hs; subst hs; exact Shape.same rfl rfl rfl)
        · split at hs
          · simp at hs
          · split at hs <;> (simp only [Option.some.injEq] at hs; subst hs; exact Shape.same rfl rfl rfl)
  | workerTake i =>
    simp only [workerTakeStep] at hs
    split at hs
    · simp only [Option.some.injEq] at hs; subst hs; exact Shape.same rfl rfl rfl
    · simp at hs
  | workerHandle i =>
    simp only [workerHandleStep] at hs
    split at hs
    · rename_i r hsl
      simp only [Option.some.injEq] at hs; subst hs
      have hr : r ∈ pendingReqs s := by
        have : r ∈ s.slots.flatMap slotReqs :=
          List.mem_flatMap.mpr ⟨_, List.mem_of_getElem? hsl, by simp [slotReqs]⟩
        simp only [pendingReqs, List.mem_append]
        exact Or.inl (Or.inr this)
      exact ⟨Or.inl rfl, Or.inr ⟨r, hr, Or.inr ⟨i, rfl⟩, rfl, rfl⟩, ⟨[], by simp, Or.inl rfl⟩⟩
    · simp at hs
  | workerReady i =>
    simp only [workerReadyStep] at hs
    split at hs
    · split at hs <;> (simp only [Option.some.injEq] at hs; subst hs; exact Shape.same rfl rfl rfl)
    · simp at hs
  | cmdTake =>
    simp only [cmdTakeStep] at hs
    split at hs
    · simp only [Option.some.injEq] at hs; subst hs; exact Shape.same rfl rfl rfl
    · simp at hs
  | cmdHandle =>
    simp only [cmdHandleStep] at hs
    split at hs
    · rename_i r hsl
      simp only [Option.some.injEq] at hs; subst hs
      have hr : r ∈ pendingReqs s := by simp [pendingReqs, hsl, slotReqs]
      exact ⟨Or.inl rfl, Or.inr ⟨r, hr, Or.inl rfl, rfl, rfl⟩, ⟨[], by simp, Or.inl rfl⟩⟩
    · simp at hs
  | cmdReady =>
    simp only [cmdReadyStep] at hs
    split at hs
    · split at hs <;> (simp only [Option.some.injEq] at hs; subst hs; exact Shape.same rfl rfl rfl)
    · simp at hs
  | ctlTakeReq =>
    simp only [ctlTakeReqStep] at hs
    split at hs
    · simp at hs
    · split at hs
      · simp at hs
      · simp only [Option.some.injEq] at hs; subst hs
        exact Shape.ofSend cfg (Or.inl rfl) rfl rfl rfl
  | ctlTakeResp =>
    simp only [ctlTakeRespStep] at hs
    split at hs
    · simp at hs
    · split at hs
      · simp at hs
      · simp only [Option.some.injEq] at hs; subst hs
        exact Shape.ofSend cfg (Or.inr (Or.inl rfl)) rfl rfl rfl
  | closeInput =>
    simp only [closeInputStep] at hs
    split at hs
    · simp at hs
    · simp only [Option.some.injEq] at hs; subst hs; exact Shape.same rfl rfl rfl
  | dispatcherShutdown =>
    simp only [dispatcherShutdownStep] at hs
    split at hs
    · simp only [Option.some.injEq] at hs; subst hs; exact Shape.same rfl rfl rfl
    · simp at hs
  | ctlFini =>
    simp only [ctlFiniStep] at hs
    split at hs
    · split at hs
      · simp only [Option.some.injEq] at hs; subst hs
        have := Shape.ofSend (a := .ctlFini) cfg (s0 := s)
          (s := { s with reqInbox := [], respInbox := [],
                         incoming := s.reqInbox.foldl
                           (fun acc r => if cfg.sortIncoming then insertBy OReq.oid r acc else acc ++ [r]) s.incoming,
                         outgoing := s.respInbox.foldl
                           (fun acc p => if cfg.sortOutgoing then insertBy Resp.oid p acc else acc ++ [p]) s.outgoing })
          (Or.inr (Or.inr rfl)) rfl rfl rfl
        exact ⟨this.recv, this.hand, this.sent⟩
      · simp only [Option.some.injEq] at hs; subst hs; exact Shape.same rfl rfl rfl
    · simp at hs

/-! ### handled at most once -/

def slotHold : Slot → List Nat
  | .holding r => [r.oid]
  | _ => []

/-- order ids of the dispatched requests whose handler has not returned -/
def unhandled (s : State) : List Nat :=
  s.poolQueue.map OReq.oid ++ s.cmdQueue.map OReq.oid ++ s.slots.flatMap slotHold ++ slotHold s.cmdSlot

/-- every dispatched request is handled (once) or un-handled in exactly one queue / worker -/
def InvH (s : State) : Prop := (s.handled ++ unhandled s).Perm (List.range' 1 s.dispatched.length)

theorem invH_init (cfg : PipeCfg) : InvH (init cfg) := by
  have h1 := flatMap_replicate_idle slotHold rfl cfg.workers
  simp [InvH, init, unhandled, h1, slotHold]

theorem InvH.frame {s s' : State} (h : InvH s) (h1 : s'.handled = s.handled) (h2 : s'.poolQueue = s.poolQueue)
    (h3 : s'.cmdQueue = s.cmdQueue) (h4 : s'.slots = s.slots) (h5 : s'.cmdSlot = s.cmdSlot)
    (h6 : s'.dispatched = s.dispatched) : InvH s' := by
  unfold InvH unhandled at *
  rw [h1, h2, h3, h4, h5, h6]; exact h

theorem InvH.handled_nodup {s : State} (h : InvH s) : s.handled.Nodup := by
  have : (s.handled ++ unhandled s).Nodup := h.nodup_iff.mpr List.nodup_range'
  exact (List.nodup_append.mp this).1

theorem invH_dispatch {cfg : PipeCfg} (hreg : cfg.registerBeforeHandoff = true) {s s' : State}
    (hl : InvLoc s) (h : InvH s) (hs : dispatchStep cfg s = some s') : InvH s' := by
  unfold dispatchStep at hs
  rw [hl.noPend] at hs
  simp only [hreg, if_true] at hs
  split at hs
  · simp at hs
  · rename_i r rest hp
    have hoid := hl.head_oid hp
    have hrange : List.range' 1 (s.dispatched ++ [r]).length = List.range' 1 s.dispatched.length ++ [r.oid] := by
      rw [List.length_append, List.length_singleton, List.range'_concat, hoid]
      simp [Nat.add_comm]
    have hcnt : ∀ k, (s.handled ++ unhandled s).count k = (List.range' 1 s.dispatched.length).count k :=
      fun k => h.count_eq k
    split at hs
    · simp only [Option.some.injEq] at hs
      subst hs
      unfold InvH
      rw [hrange]
      refine List.perm_iff_count.mpr fun k => ?_
      have := hcnt k
      simp only [unhandled, List.map_append, List.map_cons, List.map_nil, List.count_append] at this ⊢
      omega
    · split at hs
      · simp at hs
      · simp only [Option.some.injEq] at hs
        subst hs
        unfold InvH
        rw [hrange]
        refine List.perm_iff_count.mpr fun k => ?_
        have := hcnt k
        simp only [unhandled, List.map_append, List.map_cons, List.map_nil, List.count_append] at this ⊢
        omega

theorem invH_step {cfg : PipeCfg} (hreg : cfg.registerBeforeHandoff = true) {s s' : State} {a : Action}
    (hl : InvLoc s) (h : InvH s) (hs : step cfg s a = some s') : InvH s' := by
  unfold step at hs
  rw [hl.noPanic] at hs
  simp only [Bool.false_eq_true, if_false] at hs
  cases a with
  | recv r =>
    simp only [recvStep] at hs
    split at hs
    · simp at hs
    · simp only [Option.some.injEq] at hs; subst hs; exact h.frame rfl rfl rfl rfl rfl rfl
  | dispatch => exact invH_dispatch hreg hl h hs
  | workerTake i =>
    simp only [workerTakeStep] at hs
    split at hs
    · rename_i r rest hsl hq
      simp only [Option.some.injEq] at hs; subst hs
      unfold InvH at *
      refine List.perm_iff_count.mpr fun k => ?_
      have h0 := h.count_eq k
      have hc := count_flatMap_set slotHold (Slot.holding r) hsl k
      simp only [unhandled, hq, slotHold, List.map_cons, List.count_append, List.count_nil] at h0 hc ⊢
      rw [List.count_cons] at h0
      rw [List.count_singleton] at hc
      omega
    · simp at hs
  | workerHandle i =>
    simp only [workerHandleStep] at hs
    split at hs
    · rename_i r hsl
      simp only [Option.some.injEq] at hs; subst hs
      unfold InvH at *
      refine List.perm_iff_count.mpr fun k => ?_
      have h0 := h.count_eq k
      have hc := count_flatMap_set slotHold (Slot.done (mkResp r)) hsl k
      simp only [unhandled, slotHold, List.count_append, List.count_nil] at h0 hc ⊢
      omega
    · simp at hs
  | workerReady i =>
    simp only [workerReadyStep] at hs
    split at hs
    · rename_i p hsl
      split at hs
      · simp only [Option.some.injEq] at hs; subst hs; exact h.frame rfl rfl rfl rfl rfl rfl
      · simp only [Option.some.injEq] at hs; subst hs
        unfold InvH at *
        refine List.perm_iff_count.mpr fun k => ?_
        have h0 := h.count_eq k
        have hc := count_flatMap_set slotHold Slot.idle hsl k
        simp only [unhandled, slotHold, List.count_append, List.count_nil] at h0 hc ⊢
        omega
    · simp at hs
  | cmdTake =>
    simp only [cmdTakeStep] at hs
    split at hs
    · rename_i r rest hsl hq
      simp only [Option.some.injEq] at hs; subst hs
      unfold InvH at *
      refine List.perm_iff_count.mpr fun k => ?_
      have h0 := h.count_eq k
      simp only [unhandled, hq, hsl, slotHold, List.map_cons, List.count_append, List.count_nil] at h0 ⊢
      rw [List.count_cons] at h0
      rw [List.count_singleton]
      omega
    · simp at hs
  | cmdHandle =>
    simp only [cmdHandleStep] at hs
    split at hs
    · rename_i r hsl
      simp only [Option.some.injEq] at hs; subst hs
      unfold InvH at *
      refine List.perm_iff_count.mpr fun k => ?_
      have h0 := h.count_eq k
      simp only [unhandled, hsl, slotHold, List.count_append, List.count_nil] at h0 ⊢
      omega
    · simp at hs
  | cmdReady =>
    simp only [cmdReadyStep] at hs
    split at hs
    · rename_i p hsl
      split at hs
      · simp only [Option.some.injEq] at hs; subst hs; exact h.frame rfl rfl rfl rfl rfl rfl
      · simp only [Option.some.injEq] at hs; subst hs
        unfold InvH at *
        refine List.perm_iff_count.mpr fun k => ?_
        have h0 := h.count_eq k
        simp only [unhandled, hsl, slotHold, List.count_append, List.count_nil] at h0 ⊢
        omega
    · simp at hs
  | ctlTakeReq =>
    simp only [ctlTakeReqStep] at hs
    split at hs
    · simp at hs
    · split at hs
      · simp at hs
      · simp only [Option.some.injEq] at hs; subst hs; exact h.frame rfl rfl rfl rfl rfl rfl
  | ctlTakeResp =>
    simp only [ctlTakeRespStep] at hs
    split at hs
    · simp at hs
    · split at hs
      · simp at hs
      · simp only [Option.some.injEq] at hs; subst hs; exact h.frame rfl rfl rfl rfl rfl rfl
  | closeInput =>
    simp only [closeInputStep] at hs
    split at hs
    · simp at hs
    · simp only [Option.some.injEq] at hs; subst hs; exact h.frame rfl rfl rfl rfl rfl rfl
  | dispatcherShutdown =>
    simp only [dispatcherShutdownStep] at hs
    split at hs
    · simp only [Option.some.injEq] at hs; subst hs; exact h.frame rfl rfl rfl rfl rfl rfl
    · simp at hs
  | ctlFini =>
    simp only [ctlFiniStep] at hs
    split at hs
    · split at hs <;> (simp only [Option.some.injEq] at hs; subst hs; exact h.frame rfl rfl rfl rfl rfl rfl)
    · simp at hs

/-! ### the atomic store -/

/-- `es` is what an atomic store yields when the handlers return in list order, from contents `f` to `g`. -/
inductive Replays (ops : Nat → Option Op) : Bytes → List HEntry → Bytes → Prop
  | nil (f : Bytes) : Replays ops f [] f
  | cons {f g : Bytes} {e : HEntry} {es : List HEntry} :
      e.eff = effAt ops f e.oid → Replays ops (fileStep ops f e.oid) es g → Replays ops f (e :: es) g

theorem Replays.append {ops : Nat → Option Op} {f g h : Bytes} {es es' : List HEntry}
    (h1 : Replays ops f es g) (h2 : Replays ops g es' h) : Replays ops f (es ++ es') h := by
  induction h1 with
  | nil f => exact h2
  | cons he _ ih => exact Replays.cons he (ih h2)

theorem applyHandled_replays (ops : Nat → Option Op) (k : Nat) :
    ∀ (os : List Nat) (f : Bytes), Replays ops f (applyHandled ops k f os).1 (applyHandled ops k f os).2
  | [], f => Replays.nil f
  | _ :: os, _ => Replays.cons rfl (applyHandled_replays ops k os _)

theorem applyHandled_oids (ops : Nat → Option Op) (k : Nat) :
    ∀ (os : List Nat) (f : Bytes), (applyHandled ops k f os).1.map (·.oid) = os
  | [], _ => rfl
  | o :: os, f => by
    simp only [applyHandled, List.map_cons]
    rw [applyHandled_oids ops k os]

theorem applyHandled_idx (ops : Nat → Option Op) (k : Nat) :
    ∀ (os : List Nat) (f : Bytes), ∀ e ∈ (applyHandled ops k f os).1, e.idx = k
  | [], _, e, he => by cases he
  | o :: os, f, e, he => by
    simp only [applyHandled, List.mem_cons] at he
    rcases he with rfl | he
    · rfl
    · exact applyHandled_idx ops k os _ e he

/-- replaying the events of the handled operations in handler-return order explains all results -/
theorem replays_replayOk {ops : Nat → Option Op} (n : Nat) (l : Log) {f g : Bytes} {es : List HEntry}
    (h : Replays ops f es g) : replayOk f ((es.filterMap (eventOf n l)).map (·.ev)) = true := by
  induction h with
  | nil f => rfl
  | @cons f g e es he _ ih =>
    cases hop : ops e.oid with
    | none =>
      have h1 : e.eff = none := by rw [he, effAt, hop]; rfl
      have h2 : eventOf n l e = none := by rw [eventOf, h1]; rfl
      have h3 : fileStep ops f e.oid = f := by rw [fileStep, hop]
      rw [List.filterMap_cons_none h2]
      rw [h3] at ih
      exact ih
    | some op =>
      have h1 : e.eff = some (op, (apply f op).2) := by rw [he, effAt, hop]; rfl
      have h3 : fileStep ops f e.oid = (apply f op).1 := by rw [fileStep, hop]
      have h2 : eventOf n l e = some ⟨⟨op, (apply f op).2, (recvIdx l e.oid).getD 0, (sendIdx l e.oid).getD n⟩, e.idx⟩ := by
        rw [eventOf, h1]; rfl
      rw [List.filterMap_cons_some h2, List.map_cons, replayOk]
      rw [h3] at ih
      simp only [beq_self_eq_true, Bool.true_and]
      exact ih

/-! ### the log invariant -/

def HandleAt (pre : List Action) (i : Nat) : Prop := ∃ a, pre[i]? = some a ∧ IsHandle a
def CtlAt (pre : List Action) (i : Nat) : Prop := ∃ a, pre[i]? = some a ∧ IsCtl a

theorem getElem?_append_some {α : Type} {l : List α} {i : Nat} {a : α} (m : List α) (h : l[i]? = some a) :
    (l ++ m)[i]? = some a := by
  have hi : i < l.length := (List.getElem?_eq_some_iff.mp h).1
  rw [List.getElem?_append_left hi]; exact h

theorem lt_of_getElem? {α : Type} {l : List α} {i : Nat} {a : α} (h : l[i]? = some a) : i < l.length :=
  (List.getElem?_eq_some_iff.mp h).1

theorem HandleAt.mono {pre : List Action} {i : Nat} (h : HandleAt pre i) (m : List Action) : HandleAt (pre ++ m) i := by
  obtain ⟨a, h1, h2⟩ := h
  exact ⟨a, getElem?_append_some m h1, h2⟩

theorem CtlAt.mono {pre : List Action} {i : Nat} (h : CtlAt pre i) (m : List Action) : CtlAt (pre ++ m) i := by
  obtain ⟨a, h1, h2⟩ := h
  exact ⟨a, getElem?_append_some m h1, h2⟩

/-- The ghost log after the schedule prefix `pre`, in pipeline state `s`. -/
structure LogInv (ops : Nat → Option Op) (f0 : Bytes) (pre : List Action) (s : State) (l : Log) : Prop where
  recvOids : l.recvAt.map (·.1) = s.received.map OReq.oid
  handOids : l.handleAt.map (·.oid) = s.handled
  sendOids : l.sendAt.map (·.1) = s.sent.map Resp.oid
  /-- a logged receive instant is the index of the `recv` action of that very request -/
  recvIs : ∀ x ∈ l.recvAt, ∃ r ∈ s.received, r.oid = x.1 ∧ pre[x.2]? = some (.recv ⟨r.id, r.kind⟩)
  /-- a logged stamp is the index of a handler-return action -/
  handIs : ∀ e ∈ l.handleAt, HandleAt pre e.idx
  /-- a logged send instant is the index of a controller action -/
  sendIs : ∀ x ∈ l.sendAt, CtlAt pre x.2
  /-- receive instants strictly increase along the log -/
  recvInc : l.recvAt.Pairwise (fun a b => a.2 < b.2)
  /-- stamps strictly increase along the log: distinct handler returns have distinct stamps -/
  handInc : l.handleAt.Pairwise (fun a b => a.idx < b.idx)
  /-- a request is received strictly before its handler returns -/
  recvBefore : ∀ e ∈ l.handleAt, ∃ x ∈ l.recvAt, x.1 = e.oid ∧ x.2 < e.idx
  /-- a response is sent strictly after the handler of its request returned -/
  handBefore : ∀ x ∈ l.sendAt, ∃ e ∈ l.handleAt, e.oid = x.1 ∧ e.idx < x.2
  /-- the file is the result of the store steps taken so far, in handler-return order -/
  store : Replays ops f0 l.handleAt l.file

theorem logInv_init (cfg : PipeCfg) (ops : Nat → Option Op) (f0 : Bytes) :
    LogInv ops f0 [] (init cfg) { file := f0 } := by
  constructor <;> simp [init]
  exact Replays.nil f0

/-- `Shape` with the three increments named. -/
theorem Shape.norm {a : Action} {s s' : State} (h : Shape a s s') :
    ∃ (nr : List OReq) (nh : List Nat) (ns : List Resp),
      s'.received = s.received ++ nr ∧ s'.handled = s.handled ++ nh ∧ s'.sent = s.sent ++ ns ∧
      (nr = [] ∨ ∃ r, a = .recv r ∧ nr = [⟨s.received.length + 1, r.id, r.kind⟩]) ∧
      (nh = [] ∨ ∃ r ∈ pendingReqs s, IsHandle a ∧ nh = [r.oid]) ∧
      (ns = [] ∨ (nh = [] ∧ IsCtl a)) := by
  obtain ⟨ns, hS, hns⟩ := h.sent
  have hR : ∃ nr, s'.received = s.received ++ nr ∧
      (nr = [] ∨ ∃ r, a = .recv r ∧ nr = [⟨s.received.length + 1, r.id, r.kind⟩]) := by
    rcases h.recv with hR | ⟨r, ha, hR⟩
    · exact ⟨[], by simp [hR], Or.inl rfl⟩
    · exact ⟨_, hR, Or.inr ⟨r, ha, rfl⟩⟩
  obtain ⟨nr, hR, hnr⟩ := hR
  rcases h.hand with hH | ⟨r, hrp, hah, hH, hS'⟩
  · refine ⟨nr, [], ns, hR, by simp [hH], hS, hnr, Or.inl rfl, ?_⟩
    rcases hns with hns | hns
    · exact Or.inl hns
    · exact Or.inr ⟨rfl, hns.2⟩
  · have : ns = [] := by
      rw [hS'] at hS
      have := congrArg List.length hS
      simp at this
      exact this
    exact ⟨nr, [r.oid], ns, hR, hH, hS, hnr, Or.inr ⟨r, hrp, hah, rfl⟩, Or.inl this⟩

theorem logStep_eq (ops : Nat → Option Op) (k : Nat) {s s' : State} (l : Log) {nr : List OReq} {nh : List Nat}
    {ns : List Resp} (hR : s'.received = s.received ++ nr) (hH : s'.handled = s.handled ++ nh)
    (hS : s'.sent = s.sent ++ ns) :
    logStep ops k s s' l =
      { recvAt := l.recvAt ++ nr.map (fun r => (r.oid, k)),
        handleAt := l.handleAt ++ (applyHandled ops k l.file nh).1,
        sendAt := l.sendAt ++ ns.map (fun p => (p.oid, k)),
        file := (applyHandled ops k l.file nh).2 } := by
  simp [logStep, hR, hH, hS]

theorem logInv_step {cfg : PipeCfg} (hreg : cfg.registerBeforeHandoff = true) {ops : Nat → Option Op} {f0 : Bytes}
    {pre : List Action} {s s' : State} {l : Log} {a : Action}
    (hl : InvLoc s) (hi : LogInv ops f0 pre s l) (hs : step cfg s a = some s') :
    LogInv ops f0 (pre ++ [a]) s' (logStep ops pre.length s s' l) := by
  have hl' := invLoc_step hreg hl hs
  obtain ⟨nr, nh, ns, hR, hH, hS, hnr, hnh, hns⟩ := (shape_step hs).norm
  rw [logStep_eq ops pre.length l hR hH hS]
  have hnewIdx := applyHandled_idx ops pre.length nh l.file
  have hnewOid := applyHandled_oids ops pre.length nh l.file
  have hlast : (pre ++ [a])[pre.length]? = some a := by simp
  constructor
  · show (l.recvAt ++ nr.map (fun r => (r.oid, pre.length))).map (·.1) = _
    rw [hR, List.map_append, List.map_append, hi.recvOids, List.map_map]; rfl
  · show (l.handleAt ++ _).map (·.oid) = _
    rw [hH, List.map_append, hi.handOids, hnewOid]
  · show (l.sendAt ++ ns.map (fun p => (p.oid, pre.length))).map (·.1) = _
    rw [hS, List.map_append, List.map_append, hi.sendOids, List.map_map]; rfl
  · intro x hx
    rcases List.mem_append.mp hx with hx | hx
    · obtain ⟨r, hr, e1, e2⟩ := hi.recvIs x hx
      exact ⟨r, by rw [hR]; exact List.mem_append_left _ hr, e1, getElem?_append_some _ e2⟩
    · obtain ⟨r', hr', rfl⟩ := List.mem_map.mp hx
      rcases hnr with hnr | ⟨r, ha, hnr⟩
      · rw [hnr] at hr'; cases hr'
      · rw [hnr, List.mem_singleton] at hr'
        subst hr'
        refine ⟨⟨s.received.length + 1, r.id, r.kind⟩, by rw [hR, hnr]; simp, rfl, ?_⟩
        rw [hlast, ha]
  · intro e he
    rcases List.mem_append.mp he with he | he
    · exact (hi.handIs e he).mono _
    · rcases hnh with hnh | ⟨r, _, hah, _⟩
      · rw [hnh] at he; cases he
      · exact ⟨a, by rw [hnewIdx e he]; exact hlast, hah⟩
  · intro x hx
    rcases List.mem_append.mp hx with hx | hx
    · exact (hi.sendIs x hx).mono _
    · obtain ⟨p, hp, rfl⟩ := List.mem_map.mp hx
      rcases hns with hns | ⟨_, hac⟩
      · rw [hns] at hp; cases hp
      · exact ⟨a, hlast, hac⟩
  · show (l.recvAt ++ _).Pairwise _
    refine List.pairwise_append.mpr ⟨hi.recvInc, ?_, ?_⟩
    · rcases hnr with hnr | ⟨r, _, hnr⟩
      · rw [hnr]; exact List.Pairwise.nil
      · rw [hnr]; simp
    · intro x hx x' hx'
      obtain ⟨_, _, _, h1⟩ := hi.recvIs x hx
      obtain ⟨r', _, rfl⟩ := List.mem_map.mp hx'
      exact lt_of_getElem? h1
  · show (l.handleAt ++ _).Pairwise _
    refine List.pairwise_append.mpr ⟨hi.handInc, ?_, ?_⟩
    · rcases hnh with hnh | ⟨r, _, _, hnh⟩
      · rw [hnh]; exact List.Pairwise.nil
      · rw [hnh]; simp [applyHandled]
    · intro e he e' he'
      obtain ⟨_, h1, _⟩ := hi.handIs e he
      rw [hnewIdx e' he']
      exact lt_of_getElem? h1
  · intro e he
    rcases List.mem_append.mp he with he | he
    · obtain ⟨x, hx, e1, e2⟩ := hi.recvBefore e he
      exact ⟨x, List.mem_append_left _ hx, e1, e2⟩
    · rcases hnh with hnh | ⟨r, hrp, _, hnh⟩
      · rw [hnh] at he; cases he
      · have hoid : e.oid = r.oid := by
          have : e.oid ∈ (applyHandled ops pre.length l.file nh).1.map (·.oid) := List.mem_map.mpr ⟨e, he, rfl⟩
          rw [hnewOid, hnh, List.mem_singleton] at this
          exact this
        have hrr : r ∈ s.received := hl.dispatched_sub (hl.reqOk r hrp)
        have : r.oid ∈ l.recvAt.map (·.1) := by rw [hi.recvOids]; exact List.mem_map.mpr ⟨r, hrr, rfl⟩
        obtain ⟨x, hx, e1⟩ := List.mem_map.mp this
        obtain ⟨_, _, _, e2⟩ := hi.recvIs x hx
        refine ⟨x, List.mem_append_left _ hx, by rw [e1, hoid], ?_⟩
        rw [hnewIdx e he]
        exact lt_of_getElem? e2
  · intro x hx
    rcases List.mem_append.mp hx with hx | hx
    · obtain ⟨e, he, e1, e2⟩ := hi.handBefore x hx
      exact ⟨e, List.mem_append_left _ he, e1, e2⟩
    · obtain ⟨p, hp, rfl⟩ := List.mem_map.mp hx
      rcases hns with hns | ⟨hnh0, _⟩
      · rw [hns] at hp; cases hp
      · have hps : p ∈ s'.sent := by rw [hS]; exact List.mem_append_right _ hp
        have hph : p.oid ∈ s'.handled := sent_handled hl' hps
        rw [hH, hnh0, List.append_nil, ← hi.handOids] at hph
        obtain ⟨e, he, e1⟩ := List.mem_map.mp hph
        obtain ⟨_, h1, _⟩ := hi.handIs e he
        exact ⟨e, List.mem_append_left _ he, e1, lt_of_getElem? h1⟩
  · exact hi.store.append (applyHandled_replays ops pre.length nh l.file)

theorem logInv_run {cfg : PipeCfg} (hreg : cfg.registerBeforeHandoff = true) {ops : Nat → Option Op} {f0 : Bytes}
    (as : List Action) {pre : List Action} {s s' : State} {l l' : Log}
    (hl : InvLoc s) (hh : InvH s) (hi : LogInv ops f0 pre s l)
    (hr : runLog cfg ops pre.length s l as = some (s', l')) :
    InvLoc s' ∧ InvH s' ∧ LogInv ops f0 (pre ++ as) s' l' := by
  induction as generalizing pre s l with
  | nil =>
    simp only [runLog, Option.some.injEq, Prod.mk.injEq] at hr
    obtain ⟨rfl, rfl⟩ := hr
    rw [List.append_nil]
    exact ⟨hl, hh, hi⟩
  | cons a as ih =>
    simp only [runLog] at hr
    split at hr
    · simp at hr
    · rename_i s1 hs1
      have := ih (pre := pre ++ [a]) (invLoc_step hreg hl hs1) (invH_step hreg hl hh hs1) (logInv_step hreg hl hi hs1)
        (by rw [List.length_append, List.length_singleton]; exact hr)
      rw [List.append_assoc] at this
      exact this

/-- the instrumentation does not change the pipeline: the state component of `runLog` is `run`. -/
theorem runLog_fst (cfg : PipeCfg) (ops : Nat → Option Op) (as : List Action) (k : Nat) (s : State) (l : Log) :
    (runLog cfg ops k s l as).map (·.1) = run cfg s as := by
  induction as generalizing k s l with
  | nil => rfl
  | cons a as ih =>
    simp only [runLog, run]
    cases step cfg s a with
    | none => rfl
    | some s1 => exact ih _ _ _

theorem exec_of_run {cfg : PipeCfg} (ops : Nat → Option Op) (f0 : Bytes) {as : List Action} {s : State}
    (hr : run cfg (init cfg) as = some s) : exec cfg ops f0 as = some (s, logOf cfg ops f0 as) := by
  have h := runLog_fst cfg ops as 0 (init cfg) { file := f0 }
  rw [hr] at h
  unfold logOf
  change (exec cfg ops f0 as).map (·.1) = some s at h
  cases he : exec cfg ops f0 as with
  | none => rw [he] at h; cases h
  | some x =>
    rw [he] at h
    simp only [Option.map_some, Option.some.injEq] at h
    obtain ⟨s1, l1⟩ := x
    simp only at h
    subst h
    rfl

/-- all three invariants hold for the log of every accepted schedule -/
theorem inv_of_run {cfg : PipeCfg} (hreg : cfg.registerBeforeHandoff = true) (ops : Nat → Option Op) (f0 : Bytes)
    {as : List Action} {s : State} (hr : run cfg (init cfg) as = some s) :
    InvLoc s ∧ InvH s ∧ LogInv ops f0 as s (logOf cfg ops f0 as) := by
  have := logInv_run hreg as (pre := []) (invLoc_init cfg) (invH_init cfg) (logInv_init cfg ops f0)
    (exec_of_run ops f0 hr)
  simpa using this

/-! ### look-ups in the log -/

theorem lookup_of_mem {l : List (Nat × Nat)} (hnd : (l.map (·.1)).Nodup) {o c : Nat} (h : (o, c) ∈ l) :
    l.lookup o = some c := by
  induction l with
  | nil => cases h
  | cons x xs ih =>
    obtain ⟨k, b⟩ := x
    rw [List.map_cons, List.nodup_cons] at hnd
    rw [List.lookup_cons]
    rcases List.mem_cons.mp h with h1 | h1
    · cases h1; simp
    · have hne : (o == k) = false := by
        rw [beq_eq_false_iff_ne]
        intro e; subst e
        exact hnd.1 (List.mem_map.mpr ⟨(o, c), h1, rfl⟩)
      rw [hne]
      exact ih hnd.2 h1

theorem mem_of_lookup {l : List (Nat × Nat)} {o c : Nat} (h : l.lookup o = some c) : (o, c) ∈ l := by
  induction l with
  | nil => cases h
  | cons x xs ih =>
    obtain ⟨k, b⟩ := x
    rw [List.lookup_cons] at h
    cases hk : (o == k) with
    | true =>
      rw [hk] at h
      simp only [Option.some.injEq] at h
      rw [beq_iff_eq] at hk
      subst hk; subst h
      exact List.mem_cons_self
    | false =>
      rw [hk] at h
      exact List.mem_cons_of_mem _ (ih h)

theorem lookup_isSome_of_key {l : List (Nat × Nat)} {o : Nat} (h : o ∈ l.map (·.1)) : (l.lookup o).isSome = true := by
  induction l with
  | nil => cases h
  | cons x xs ih =>
    obtain ⟨k, b⟩ := x
    rw [List.lookup_cons]
    cases hk : (o == k) with
    | true => rfl
    | false =>
      rw [List.map_cons, List.mem_cons] at h
      rcases h with h | h
      · rw [beq_eq_false_iff_ne] at hk; exact absurd h hk
      · exact ih h

theorem find_of_mem {l : List HEntry} (hnd : (l.map (·.oid)).Nodup) {e : HEntry} (h : e ∈ l) :
    l.find? (fun x => x.oid == e.oid) = some e := by
  induction l with
  | nil => cases h
  | cons x xs ih =>
    rw [List.map_cons, List.nodup_cons] at hnd
    rw [List.find?_cons]
    rcases List.mem_cons.mp h with h1 | h1
    · subst h1; simp
    · have hne : (x.oid == e.oid) = false := by
        rw [beq_eq_false_iff_ne]
        intro e1
        exact hnd.1 (e1 ▸ List.mem_map.mpr ⟨e, h1, rfl⟩)
      rw [hne]
      exact ih hnd.2 h1

theorem mem_of_find {l : List HEntry} {o : Nat} {e : HEntry} (h : l.find? (fun x => x.oid == o) = some e) :
    e ∈ l ∧ e.oid = o := by
  have h1 := List.mem_of_find?_eq_some h
  have h2 := List.find?_some h
  exact ⟨h1, by simpa using h2⟩

theorem filterMap_congr' {α β : Type} {f g : α → Option β} {l : List α} (h : ∀ x ∈ l, f x = g x) :
    l.filterMap f = l.filterMap g := by
  induction l with
  | nil => rfl
  | cons x xs ih =>
    have hx := h x (by simp)
    have ih' := ih (fun y hy => h y (by simp [hy]))
    cases hg : g x with
    | none => rw [List.filterMap_cons_none (hx.trans hg), List.filterMap_cons_none hg, ih']
    | some b => rw [List.filterMap_cons_some (hx.trans hg), List.filterMap_cons_some hg, ih']

theorem sortByStamp_of_sorted : ∀ l : List SEvent, l.Pairwise (fun a b => a.stamp < b.stamp) → sortByStamp l = l
  | [], _ => rfl
  | x :: xs, h => by
    have h' := List.pairwise_cons.mp h
    rw [sortByStamp, sortByStamp_of_sorted xs h'.2]
    cases xs with
    | nil => rfl
    | cons y ys => rw [insertByStamp, if_pos (Nat.le_of_lt (h'.1 y (by simp)))]

/-- every entry of a replayed log carries the operation of its request (and the result the store gave) -/
theorem Replays.mem_eff {ops : Nat → Option Op} {f g : Bytes} {es : List HEntry} (h : Replays ops f es g)
    {e : HEntry} (he : e ∈ es) : ∃ f', e.eff = effAt ops f' e.oid := by
  induction h with
  | nil f => cases he
  | @cons f g e' es he' _ ih =>
    rcases List.mem_cons.mp he with rfl | he
    · exact ⟨f, he'⟩
    · exact ih he

/-! ### consequences of the invariants, per request -/

section
variable {ops : Nat → Option Op} {f0 : Bytes} {as : List Action} {s : State} {l : Log}

theorem LogInv.recvNodup (hl : InvLoc s) (hi : LogInv ops f0 as s l) : (l.recvAt.map (·.1)).Nodup := by
  rw [hi.recvOids, hl.recvOids]; exact List.nodup_range'

theorem LogInv.handNodup (hh : InvH s) (hi : LogInv ops f0 as s l) : (l.handleAt.map (·.oid)).Nodup := by
  rw [hi.handOids]; exact hh.handled_nodup

theorem LogInv.sendNodup (hl : InvLoc s) (hi : LogInv ops f0 as s l) : (l.sendAt.map (·.1)).Nodup := by
  rw [hi.sendOids]
  have := resp_nodup hl
  rw [List.map_append, List.map_append, List.append_assoc] at this
  exact (List.nodup_append.mp this).1

/-- The three instants of a handled request. -/
theorem LogInv.entry (hl : InvLoc s) (hh : InvH s) (hi : LogInv ops f0 as s l) {e : HEntry} (he : e ∈ l.handleAt) :
    ∃ c, recvIdx l e.oid = some c ∧ c < e.idx ∧ stampIdx l e.oid = some e.idx ∧ e.idx < as.length ∧
      HandleAt as e.idx ∧
      (∃ r ∈ s.received, r.oid = e.oid ∧ as[c]? = some (.recv ⟨r.id, r.kind⟩)) ∧
      ∀ t, sendIdx l e.oid = some t → e.idx < t ∧ t < as.length ∧ CtlAt as t := by
  obtain ⟨x, hx, e1, e2⟩ := hi.recvBefore e he
  obtain ⟨c0, c⟩ := x
  simp only at e1 e2
  subst e1
  have hH := hi.handIs e he
  obtain ⟨_, hH1, _⟩ := hH
  refine ⟨c, lookup_of_mem (hi.recvNodup hl) hx, e2, ?_, lt_of_getElem? hH1, hi.handIs e he, ?_, ?_⟩
  · unfold stampIdx
    rw [find_of_mem (hi.handNodup hh) he]; rfl
  · obtain ⟨r, hr, e3, e4⟩ := hi.recvIs _ hx
    exact ⟨r, hr, e3, e4⟩
  · intro t ht
    have hm := mem_of_lookup ht
    obtain ⟨e', he', e3, e4⟩ := hi.handBefore _ hm
    have hee : e' = e := by
      have h1 := find_of_mem (hi.handNodup hh) he'
      have h2 := find_of_mem (hi.handNodup hh) he
      simp only at e3
      rw [e3] at h1
      rw [h1] at h2
      exact Option.some.inj h2
    subst hee
    obtain ⟨a, hC1, hC2⟩ := hi.sendIs _ hm
    exact ⟨e4, lt_of_getElem? hC1, ⟨a, hC1, hC2⟩⟩

/-- the entry of a request whose response has been sent -/
theorem LogInv.sent_entry (hl : InvLoc s) (hi : LogInv ops f0 as s l) {p : Resp} (hp : p ∈ s.sent) :
    ∃ t, sendIdx l p.oid = some t ∧ ∃ e ∈ l.handleAt, e.oid = p.oid := by
  have : p.oid ∈ l.sendAt.map (·.1) := by rw [hi.sendOids]; exact List.mem_map.mpr ⟨p, hp, rfl⟩
  obtain ⟨x, hx, e1⟩ := List.mem_map.mp this
  obtain ⟨o, t⟩ := x
  simp only at e1
  subst e1
  obtain ⟨e, he, e2, _⟩ := hi.handBefore _ hx
  exact ⟨t, lookup_of_mem (hi.sendNodup hl) hx, e, he, e2⟩

end

/-! ### the stamped history of an execution -/

section
variable {ops : Nat → Option Op} {f0 : Bytes} {as : List Action} {s : State} {l : Log}

theorem eventOf_some {n : Nat} {l : Log} {h : HEntry} {e : SEvent} (he : eventOf n l h = some e) :
    ∃ op res, h.eff = some (op, res) ∧
      e = ⟨⟨op, res, (recvIdx l h.oid).getD 0, (sendIdx l h.oid).getD n⟩, h.idx⟩ := by
  unfold eventOf at he
  cases hx : h.eff with
  | none => rw [hx] at he; cases he
  | some x =>
    rw [hx] at he
    simp only [Option.map_some, Option.some.injEq] at he
    exact ⟨x.1, x.2, rfl, he.symm⟩

/-- every stamp lies strictly inside its operation's interval (pending operations are closed at the horizon) -/
theorem stamped_inside (hl : InvLoc s) (hh : InvH s) (hi : LogInv ops f0 as s l) :
    ∀ e, e ∈ stamped as.length l → e.ev.call < e.stamp ∧ e.stamp < e.ev.ret := by
  intro e he
  obtain ⟨h, hh', hev⟩ := List.mem_filterMap.mp he
  obtain ⟨op, res, _, rfl⟩ := eventOf_some hev
  obtain ⟨c, hc, hlt, _, hlen, _, _, hsend⟩ := hi.entry hl hh hh'
  simp only [hc, Option.getD_some]
  refine ⟨hlt, ?_⟩
  cases ht : sendIdx l h.oid with
  | none => exact hlen
  | some t => exact (hsend t ht).1

theorem stamped_sorted (n : Nat) (hi : LogInv ops f0 as s l) :
    (stamped n l).Pairwise (fun a b => a.stamp < b.stamp) := by
  refine List.Pairwise.filterMap (eventOf n l) ?_ hi.handInc
  intro a a' hlt b hb b' hb'
  obtain ⟨_, _, _, rfl⟩ := eventOf_some hb
  obtain ⟨_, _, _, rfl⟩ := eventOf_some hb'
  exact hlt

theorem stamped_explains (n : Nat) (hi : LogInv ops f0 as s l) :
    replayOk f0 ((stamped n l).map (·.ev)) = true :=
  replays_replayOk n l hi.store

theorem recvAt_inj (hi : LogInv ops f0 as s l) {x y : Nat × Nat} (hx : x ∈ l.recvAt) (hy : y ∈ l.recvAt)
    (e : x.2 = y.2) : x = y := by
  have := List.Pairwise.forall_of_forall_of_flip (R := fun a b : Nat × Nat => a.2 = b.2 → a = b) (l := l.recvAt)
    (fun _ _ _ => rfl)
    (hi.recvInc.imp (fun h e => by omega))
    (hi.recvInc.imp (fun h e => by omega))
  exact this hx hy e

/-- the client-side events of distinct requests are distinct (they were called at different instants) -/
theorem stamped_events_nodup (n : Nat) (hl : InvLoc s) (hh : InvH s) (hi : LogInv ops f0 as s l) :
    ((stamped n l).map (·.ev)).Nodup := by
  rw [List.nodup_iff_pairwise_ne, List.pairwise_map]
  have h0 : l.handleAt.Pairwise (fun a b => a.oid ≠ b.oid) := by
    have := hi.handNodup hh
    rw [List.nodup_iff_pairwise_ne, List.pairwise_map] at this
    exact this
  have h1 : l.handleAt.Pairwise (fun a b => a ∈ l.handleAt ∧ b ∈ l.handleAt ∧ a.oid ≠ b.oid) :=
    List.Pairwise.imp_of_mem (fun ha hb hab => ⟨ha, hb, hab⟩) h0
  refine List.Pairwise.filterMap (eventOf n l) ?_ h1
  intro a a' ⟨ha, ha', hne⟩ b hb b' hb' heq
  obtain ⟨_, _, _, rfl⟩ := eventOf_some hb
  obtain ⟨_, _, _, rfl⟩ := eventOf_some hb'
  obtain ⟨c, hc, _⟩ := hi.entry hl hh ha
  obtain ⟨c', hc', _⟩ := hi.entry hl hh ha'
  have hcall := congrArg Event.call heq
  simp only [hc, hc', Option.getD_some] at hcall
  have := recvAt_inj hi (mem_of_lookup hc) (mem_of_lookup hc') hcall
  exact hne (congrArg Prod.fst this)

/-- the completed operations are those events of the stamped history whose response has been sent; together
with the pending ones (closed at the horizon) they make up the stamped history -/
theorem stamped_split (n : Nat) (l : Log) : (stamped n l).Perm (completedStamped l ++ pendingStamped n l) := by
  unfold stamped completedStamped pendingStamped
  have h1 : (l.handleAt.filter (fun e => (sendIdx l e.oid).isSome)).filterMap (eventOf 0 l) =
      (l.handleAt.filter (fun e => (sendIdx l e.oid).isSome)).filterMap (eventOf n l) := by
    apply filterMap_congr'
    intro x hx
    have := (List.mem_filter.mp hx).2
    unfold eventOf
    cases ht : sendIdx l x.oid with
    | none => rw [ht] at this; cases this
    | some t => rfl
  rw [h1, ← List.filterMap_append]
  exact ((List.filter_append_perm (fun e => (sendIdx l e.oid).isSome) l.handleAt).filterMap _).symm

theorem completed_eq_stamped (n : Nat) {l : Log} (h : allAnswered l = true) : completedStamped l = stamped n l := by
  unfold completedStamped stamped
  unfold allAnswered at h
  rw [List.all_eq_true] at h
  rw [List.filter_eq_self.mpr h]
  apply filterMap_congr'
  intro x hx
  have := h x hx
  unfold eventOf
  cases ht : sendIdx l x.oid with
  | none => rw [ht] at this; cases this
  | some t => rfl

end

/-! ### linearisation points as a function of the event (the shape `lin_points_imply_linearizable` wants) -/

/-- the stamp of the stamped event that `e` comes from -/
def sigma (hs : List SEvent) (e : Event) : Nat := ((hs.find? (fun x => x.ev == e)).map (·.stamp)).getD 0

theorem find_ev_of_mem {hs : List SEvent} (hnd : (hs.map (·.ev)).Nodup) {x : SEvent} (h : x ∈ hs) :
    hs.find? (fun y => y.ev == x.ev) = some x := by
  induction hs with
  | nil => cases h
  | cons y ys ih =>
    rw [List.map_cons, List.nodup_cons] at hnd
    rw [List.find?_cons]
    rcases List.mem_cons.mp h with h1 | h1
    · subst h1; simp
    · have hne : (y.ev == x.ev) = false := by
        rw [beq_eq_false_iff_ne]
        intro e1
        exact hnd.1 (e1 ▸ List.mem_map.mpr ⟨x, h1, rfl⟩)
      rw [hne]
      exact ih hnd.2 h1

theorem map_sigma {hs : List SEvent} (hnd : (hs.map (·.ev)).Nodup) :
    (hs.map (·.ev)).map (fun e => (⟨e, sigma hs e⟩ : SEvent)) = hs := by
  rw [List.map_map]
  conv => rhs; rw [← List.map_id hs]
  apply List.map_congr_left
  intro x hx
  simp only [Function.comp, sigma, find_ev_of_mem hnd hx, Option.map_some, Option.getD_some, id]

end Sftp.C15Pipe
