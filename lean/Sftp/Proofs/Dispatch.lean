import Sftp.Model.Dispatch
/-
  Invariant of M-Dispatch and its consequences (helper lemmas for Props/C13Dispatch.lean).
-/
namespace Sftp.Dispatch

/-- The inductive invariant (one field per clause). -/
structure Inv (c : DispatchCfg) (e : Env) (s : State) : Prop where
  handed_eq : s.handed = List.range s.next
  sent_eq : s.sent = List.range (s.next + (if s.held = true ∧ c.sendFirst = true then 1 else 0))
  perm_handed : (s.inflight ++ s.completed).Perm s.handed
  rep_sub : ∀ i ∈ s.reporting, i ∈ s.completed
  obs_sub : ∀ i ∈ s.observed, i ∈ s.completed
  prod_done : s.prodDone = true → s.cancelled = true ∨ (c.bounded = true ∧ e.planLen ≤ s.next)
  held_lt : s.held = true → c.bounded = true → s.next < e.planLen
  next_le : c.bounded = true → s.next ≤ e.planLen
  fin_idle : s.finished = true → s.prodDone = true ∧ s.inflight = [] ∧ s.reporting = []
  fin_red : s.finished = true → c.chain = true → s.redDone = true
  fold_perm : c.chain = false → (s.reporting ++ s.observed).Perm (s.completed.filter e.fails)
  fold_cancel : c.chain = false → s.cancelled = true → s.observed ≠ []
  chain_obs : c.chain = true → s.observed = List.range s.observed.length
  chain_ok : c.chain = true → s.redDone = false → ∀ i ∈ s.observed, e.fails i = false
  chain_done : c.chain = true → s.redDone = true →
    ∃ m, s.observed = List.range (m + 1) ∧ e.fails m = true ∧ ∀ i, i < m → e.fails i = false
  chain_cancel : c.chain = true → s.cancelled = true → s.redDone = true
  chain_red : c.chain = true → s.redDone = true → s.cancelled = true
  chain_perm : c.chain = true → s.cancelled = false → (s.reporting ++ s.observed).Perm s.completed

theorem inv_init (c : DispatchCfg) (e : Env) : Inv c e init where
  handed_eq := rfl
  sent_eq := by simp [init]
  perm_handed := List.Perm.refl _
  rep_sub := fun _ h => by cases h
  obs_sub := fun _ h => by cases h
  prod_done := fun h => by cases h
  held_lt := fun h => by cases h
  next_le := fun _ => Nat.zero_le _
  fin_idle := fun h => by cases h
  fin_red := fun h => by cases h
  fold_perm := fun _ => List.Perm.refl _
  fold_cancel := fun _ h => by cases h
  chain_obs := fun _ => rfl
  chain_ok := fun _ _ _ h => by cases h
  chain_done := fun _ h => by cases h
  chain_cancel := fun _ h => by cases h
  chain_red := fun _ h => by cases h
  chain_perm := fun _ _ => List.Perm.refl _

variable {c : DispatchCfg} {e : Env} {s : State}

theorem inv_send (h : Inv c e s) (hh : s.held = false)
    (hb : c.bounded = false ∨ s.next < e.planLen) :
    Inv c e { s with held := true, sent := if c.sendFirst = true then s.sent ++ [s.next] else s.sent } where
  handed_eq := h.handed_eq
  sent_eq := by
    have h1 := h.sent_eq
    simp only [hh, Bool.false_eq_true, false_and, if_false, Nat.add_zero] at h1
    cases hsf : c.sendFirst <;> simp [h1, List.range_succ]
  perm_handed := h.perm_handed
  rep_sub := h.rep_sub
  obs_sub := h.obs_sub
  prod_done := h.prod_done
  held_lt := fun _ hbd => by
    rcases hb with hb | hb
    · rw [hbd] at hb; cases hb
    · exact hb
  next_le := h.next_le
  fin_idle := h.fin_idle
  fin_red := h.fin_red
  fold_perm := h.fold_perm
  fold_cancel := h.fold_cancel
  chain_obs := h.chain_obs
  chain_ok := h.chain_ok
  chain_done := h.chain_done
  chain_cancel := h.chain_cancel
  chain_red := h.chain_red
  chain_perm := h.chain_perm

theorem inv_handOut (h : Inv c e s) (hfin : ¬ s.finished = true) (hp : s.prodDone = false)
    (hh : s.held = true) :
    Inv c e { s with held := false, next := s.next + 1, handed := s.handed ++ [s.next],
                     inflight := s.inflight ++ [s.next],
                     sent := if c.sendFirst = true then s.sent else s.sent ++ [s.next] } where
  handed_eq := by simp only [h.handed_eq, List.range_succ]
  sent_eq := by
    have h1 := h.sent_eq
    cases hsf : c.sendFirst <;> simp [hh, hsf] at h1 ⊢ <;> simp [h1, List.range_succ]
  perm_handed := by
    have := h.perm_handed
    simp only
    refine List.Perm.trans ?_ (List.Perm.append_right [s.next] this)
    simp only [List.append_assoc]
    exact List.Perm.append_left _ List.perm_append_comm
  rep_sub := h.rep_sub
  obs_sub := h.obs_sub
  prod_done := fun hpd => by simp only at hpd; rw [hp] at hpd; cases hpd
  held_lt := fun hf => by cases hf
  next_le := fun hbd => h.held_lt hh hbd
  fin_idle := fun hf => absurd hf hfin
  fin_red := h.fin_red
  fold_perm := h.fold_perm
  fold_cancel := h.fold_cancel
  chain_obs := h.chain_obs
  chain_ok := h.chain_ok
  chain_done := h.chain_done
  chain_cancel := h.chain_cancel
  chain_red := h.chain_red
  chain_perm := h.chain_perm

theorem inv_seeCancel (h : Inv c e s) (hcan : s.cancelled = true) :
    Inv c e { s with prodDone := true } where
  handed_eq := h.handed_eq
  sent_eq := h.sent_eq
  perm_handed := h.perm_handed
  rep_sub := h.rep_sub
  obs_sub := h.obs_sub
  prod_done := fun _ => Or.inl hcan
  held_lt := h.held_lt
  next_le := h.next_le
  fin_idle := fun hf => ⟨rfl, (h.fin_idle hf).2⟩
  fin_red := h.fin_red
  fold_perm := h.fold_perm
  fold_cancel := h.fold_cancel
  chain_obs := h.chain_obs
  chain_ok := h.chain_ok
  chain_done := h.chain_done
  chain_cancel := h.chain_cancel
  chain_red := h.chain_red
  chain_perm := h.chain_perm

theorem inv_exhaust (h : Inv c e s) (hb : c.bounded = true) (hle : e.planLen ≤ s.next) :
    Inv c e { s with prodDone := true } where
  handed_eq := h.handed_eq
  sent_eq := h.sent_eq
  perm_handed := h.perm_handed
  rep_sub := h.rep_sub
  obs_sub := h.obs_sub
  prod_done := fun _ => Or.inr ⟨hb, hle⟩
  held_lt := h.held_lt
  next_le := h.next_le
  fin_idle := fun hf => ⟨rfl, (h.fin_idle hf).2⟩
  fin_red := h.fin_red
  fold_perm := h.fold_perm
  fold_cancel := h.fold_cancel
  chain_obs := h.chain_obs
  chain_ok := h.chain_ok
  chain_done := h.chain_done
  chain_cancel := h.chain_cancel
  chain_red := h.chain_red
  chain_perm := h.chain_perm

theorem inv_reply (h : Inv c e s) (hfin : ¬ s.finished = true) (i : Nat) (hi : i ∈ s.inflight) :
    Inv c e { s with inflight := s.inflight.erase i, completed := s.completed ++ [i],
                     reporting := if c.chain = true ∨ e.fails i = true then s.reporting ++ [i] else s.reporting } where
  handed_eq := h.handed_eq
  sent_eq := h.sent_eq
  perm_handed := by
    simp only
    refine List.Perm.trans ?_ h.perm_handed
    have h1 : (i :: s.inflight.erase i).Perm s.inflight := (List.perm_cons_erase hi).symm
    refine List.Perm.trans ?_ (List.Perm.append_right s.completed h1)
    rw [← List.append_assoc]
    refine List.Perm.trans List.perm_append_comm ?_
    simp
  rep_sub := fun j hj => by
    simp only at hj ⊢
    split at hj
    · rcases List.mem_append.mp hj with hj | hj
      · exact List.mem_append_left _ (h.rep_sub j hj)
      · exact List.mem_append_right _ hj
    · exact List.mem_append_left _ (h.rep_sub j hj)
  obs_sub := fun j hj => List.mem_append_left _ (h.obs_sub j hj)
  prod_done := h.prod_done
  held_lt := h.held_lt
  next_le := h.next_le
  fin_idle := fun hf => absurd hf hfin
  fin_red := h.fin_red
  fold_perm := fun hch => by
    have h1 := h.fold_perm hch
    simp only [hch, Bool.false_eq_true, false_or, List.filter_append]
    cases hf : e.fails i
    · simpa [hf] using h1
    · simp only [if_true, List.filter_cons, hf, List.filter_nil]
      refine List.Perm.trans ?_ (List.Perm.append_right [i] h1)
      simp only [List.append_assoc]
      exact List.Perm.append_left _ List.perm_append_comm
  fold_cancel := h.fold_cancel
  chain_obs := h.chain_obs
  chain_ok := h.chain_ok
  chain_done := h.chain_done
  chain_cancel := h.chain_cancel
  chain_red := h.chain_red
  chain_perm := fun hch hcan => by
    have h1 := h.chain_perm hch hcan
    simp only [hch, true_or, if_true]
    refine List.Perm.trans ?_ (List.Perm.append_right [i] h1)
    simp only [List.append_assoc]
    exact List.Perm.append_left _ List.perm_append_comm

theorem inv_observe_fold (h : Inv c e s) (hch : c.chain = false) (i : Nat) (hi : i ∈ s.reporting) :
    Inv c e { s with reporting := s.reporting.erase i, observed := s.observed ++ [i], cancelled := true } where
  handed_eq := h.handed_eq
  sent_eq := h.sent_eq
  perm_handed := h.perm_handed
  rep_sub := fun j hj => h.rep_sub j (List.mem_of_mem_erase hj)
  obs_sub := fun j hj => by
    rcases List.mem_append.mp hj with hj | hj
    · exact h.obs_sub j hj
    · rw [List.mem_singleton.mp hj]; exact h.rep_sub i hi
  prod_done := fun hp => Or.inl rfl
  held_lt := h.held_lt
  next_le := h.next_le
  fin_idle := fun hf => by
    have := (h.fin_idle hf).2.2
    rw [this] at hi; cases hi
  fin_red := fun _ hc => by rw [hch] at hc; cases hc
  fold_perm := fun _ => by
    refine List.Perm.trans ?_ (h.fold_perm hch)
    have h1 : (i :: s.reporting.erase i).Perm s.reporting := (List.perm_cons_erase hi).symm
    refine List.Perm.trans ?_ (List.Perm.append_right s.observed h1)
    simp only
    rw [← List.append_assoc]
    refine List.Perm.trans List.perm_append_comm ?_
    simp
  fold_cancel := fun _ _ => by simp
  chain_obs := fun hc => by rw [hch] at hc; cases hc
  chain_ok := fun hc => by rw [hch] at hc; cases hc
  chain_done := fun hc => by rw [hch] at hc; cases hc
  chain_cancel := fun hc => by rw [hch] at hc; cases hc
  chain_red := fun hc => by rw [hch] at hc; cases hc
  chain_perm := fun hc => by rw [hch] at hc; cases hc

theorem inv_observe_chain (h : Inv c e s) (hch : c.chain = true) (hfin : ¬ s.finished = true)
    (hrd : s.redDone = false) (hi : s.observed.length ∈ s.reporting) :
    Inv c e { s with reporting := s.reporting.erase s.observed.length,
                     observed := s.observed ++ [s.observed.length],
                     redDone := e.fails s.observed.length,
                     cancelled := s.cancelled || e.fails s.observed.length } where
  handed_eq := h.handed_eq
  sent_eq := h.sent_eq
  perm_handed := h.perm_handed
  rep_sub := fun j hj => h.rep_sub j (List.mem_of_mem_erase hj)
  obs_sub := fun j hj => by
    rcases List.mem_append.mp hj with hj | hj
    · exact h.obs_sub j hj
    · rw [List.mem_singleton.mp hj]; exact h.rep_sub _ hi
  prod_done := fun hp => by
    rcases h.prod_done hp with h1 | h1
    · exact Or.inl (by simp [h1])
    · exact Or.inr h1
  held_lt := h.held_lt
  next_le := h.next_le
  fin_idle := fun hf => absurd hf hfin
  fin_red := fun hf => absurd hf hfin
  fold_perm := fun hc => by rw [hch] at hc; cases hc
  fold_cancel := fun hc => by rw [hch] at hc; cases hc
  chain_obs := fun _ => by
    simp only [List.length_append, List.length_singleton, List.range_succ]
    rw [← h.chain_obs hch]
  chain_ok := fun _ hf j hj => by
    simp only at hf
    rcases List.mem_append.mp hj with hj | hj
    · exact h.chain_ok hch hrd j hj
    · rw [List.mem_singleton.mp hj]; exact hf
  chain_done := fun _ hf => by
    simp only at hf
    refine ⟨s.observed.length, ?_, hf, fun j hj => ?_⟩
    · simp only [List.range_succ]; rw [← h.chain_obs hch]
    · apply h.chain_ok hch hrd
      rw [h.chain_obs hch]; exact List.mem_range.mpr hj
  chain_cancel := fun _ hcan => by
    simp only [Bool.or_eq_true] at hcan
    rcases hcan with h1 | h1
    · have := h.chain_cancel hch h1; rw [hrd] at this; cases this
    · exact h1
  chain_red := fun _ hr => by
    simp only at hr ⊢
    rw [hr]; simp
  chain_perm := fun _ hcan => by
    simp only [Bool.or_eq_false_iff] at hcan
    refine List.Perm.trans ?_ (h.chain_perm hch hcan.1)
    have h1 : (s.observed.length :: s.reporting.erase s.observed.length).Perm s.reporting :=
      (List.perm_cons_erase hi).symm
    refine List.Perm.trans ?_ (List.Perm.append_right s.observed h1)
    simp only
    rw [← List.append_assoc]
    refine List.Perm.trans List.perm_append_comm ?_
    simp

theorem inv_drop (h : Inv c e s) (hch : c.chain = true) (hfin : ¬ s.finished = true)
    (hcan : s.cancelled = true) (i : Nat) :
    Inv c e { s with reporting := s.reporting.erase i } where
  handed_eq := h.handed_eq
  sent_eq := h.sent_eq
  perm_handed := h.perm_handed
  rep_sub := fun j hj => h.rep_sub j (List.mem_of_mem_erase hj)
  obs_sub := h.obs_sub
  prod_done := h.prod_done
  held_lt := h.held_lt
  next_le := h.next_le
  fin_idle := fun hf => absurd hf hfin
  fin_red := h.fin_red
  fold_perm := fun hc => by rw [hch] at hc; cases hc
  fold_cancel := h.fold_cancel
  chain_obs := h.chain_obs
  chain_ok := h.chain_ok
  chain_done := h.chain_done
  chain_cancel := h.chain_cancel
  chain_red := h.chain_red
  chain_perm := fun _ hc => by simp only at hc; rw [hcan] at hc; cases hc

theorem inv_finish (h : Inv c e s) (hw : 1 ≤ e.workers) (h1 : c.chain = true → s.redDone = true)
    (h2 : (e.workers = 0 ∨ s.prodDone = true) ∧ s.inflight = [] ∧ s.reporting = []) :
    Inv c e { s with finished := true } where
  handed_eq := h.handed_eq
  sent_eq := h.sent_eq
  perm_handed := h.perm_handed
  rep_sub := h.rep_sub
  obs_sub := h.obs_sub
  prod_done := h.prod_done
  held_lt := h.held_lt
  next_le := h.next_le
  fin_idle := fun _ => ⟨h2.1.resolve_left (by omega), h2.2⟩
  fin_red := fun _ => h1
  fold_perm := h.fold_perm
  fold_cancel := h.fold_cancel
  chain_obs := h.chain_obs
  chain_ok := h.chain_ok
  chain_done := h.chain_done
  chain_cancel := h.chain_cancel
  chain_red := h.chain_red
  chain_perm := h.chain_perm

/-- Every step of a sound configuration preserves the invariant. -/
theorem inv_step (hc : c.Sound) (hw : 1 ≤ e.workers) {a : Action} {s' : State} (h : Inv c e s)
    (hs : step c e s a = some s') : Inv c e s' := by
  obtain ⟨hio, hcr, hne, hcb, haw⟩ := hc
  unfold step at hs
  split at hs
  · cases hs
  rename_i hfin
  cases a with
  | send =>
    simp only at hs
    split at hs
    · rename_i hg; cases hs; exact inv_send h hg.2.1 hg.2.2
    · cases hs
  | handOut =>
    simp only at hs
    split at hs
    · rename_i hg; cases hs; exact inv_handOut h hfin hg.1 hg.2.1
    · cases hs
  | seeCancel =>
    simp only at hs
    split at hs
    · rename_i hg; cases hs; exact inv_seeCancel h hg.2.2.2
    · cases hs
  | exhaust =>
    simp only at hs
    split at hs
    · rename_i hg; cases hs; exact inv_exhaust h hg.1 hg.2.2.2
    · cases hs
  | skip => simp [hio] at hs
  | quit => simp [hne] at hs
  | cancel => simp [hcb] at hs
  | reply i =>
    simp only at hs
    split at hs
    · rename_i hg; cases hs; exact inv_reply h hfin i hg
    · cases hs
  | observe i =>
    simp only at hs
    split at hs
    · rename_i hch
      split at hs
      · rename_i hg
        cases hs
        obtain ⟨g1, g2, g3⟩ := hg
        subst g3
        exact inv_observe_chain h hch hfin g1 g2
      · cases hs
    · rename_i hch
      split at hs
      · rename_i hg; cases hs; exact inv_observe_fold h (by simpa using hch) i hg
      · cases hs
  | drop i =>
    simp only at hs
    split at hs
    · rename_i hg; cases hs; exact inv_drop h hg.1 hfin hg.2.1 i
    · cases hs
  | finish =>
    simp only [haw, true_implies] at hs
    split at hs
    · rename_i hg; cases hs; exact inv_finish h hw hg.1 hg.2
    · cases hs

theorem inv_run (hc : c.Sound) (hw : 1 ≤ e.workers) : ∀ (acts : List Action) (s s' : State), Inv c e s →
    run c e s acts = some s' → Inv c e s'
  | [], s, s', h, hr => by simp only [run] at hr; cases hr; exact h
  | a :: as, s, s', h, hr => by
    simp only [run] at hr
    split at hr
    · rename_i s1 hs1
      exact inv_run hc hw as s1 s' (inv_step hc hw h hs1) hr
    · cases hr

theorem inv_reachable (hc : c.Sound) (hw : 1 ≤ e.workers) (hr : Reachable c e s) : Inv c e s := by
  obtain ⟨acts, h⟩ := hr
  exact inv_run hc hw acts init s (inv_init c e) h

/-! ### consequences of the invariant -/

theorem filter_range_perm_of_perm {l : List Nat} {k : Nat} (f : Nat → Bool) (h : l.Perm (List.range k)) :
    (l.filter f).Perm ((List.range k).filter f) := h.filter f

/-- all replies of a finished run have been received: `completed` is a permutation of the hand-outs -/
theorem Inv.completed_perm (h : Inv c e s) (hf : s.finished = true) : s.completed.Perm (List.range s.next) := by
  have h1 := h.perm_handed
  rw [(h.fin_idle hf).2.1, List.nil_append, h.handed_eq] at h1
  exact h1

/-- fold: the events the reducer received are exactly the failing chunks among the hand-outs -/
theorem Inv.observed_perm (h : Inv c e s) (hch : c.chain = false) (hf : s.finished = true) :
    s.observed.Perm ((List.range s.next).filter e.fails) := by
  have h1 := h.fold_perm hch
  rw [(h.fin_idle hf).2.2, List.nil_append] at h1
  exact h1.trans ((h.completed_perm hf).filter e.fails)

/-- fold, bounded: the hand-outs of a finished run are the whole plan unless one of them failed -/
theorem Inv.whole_or_failed (h : Inv c e s) (hch : c.chain = false) (hb : c.bounded = true)
    (hf : s.finished = true) : s.next = e.planLen ∨ ∃ i, i < s.next ∧ e.fails i = true := by
  rcases h.prod_done (h.fin_idle hf).1 with hcan | ⟨_, hle⟩
  · right
    have hne := h.fold_cancel hch hcan
    cases hobs : s.observed with
    | nil => exact absurd hobs hne
    | cons i rest =>
      have hi : i ∈ (List.range s.next).filter e.fails :=
        (h.observed_perm hch hf).mem_iff.mp (by rw [hobs]; exact List.mem_cons_self)
      rw [List.mem_filter, List.mem_range] at hi
      exact ⟨i, hi.1, hi.2⟩
  · left
    have := h.next_le hb
    omega

/-- if no chunk of the plan fails, a finished run has put exactly the plan on the wire -/
theorem Inv.sent_all (h : Inv c e s) (hch : c.chain = false) (hb : c.bounded = true)
    (hf : s.finished = true) (hok : ∀ i, i < e.planLen → e.fails i = false) :
    s.sent = List.range e.planLen ∧ s.next = e.planLen ∧ s.observed = [] := by
  have hle := h.next_le hb
  have hnext : s.next = e.planLen := by
    rcases h.whole_or_failed hch hb hf with h1 | ⟨i, hi, hfi⟩
    · exact h1
    · rw [hok i (by omega)] at hfi; cases hfi
  have hheld : s.held = false := by
    cases hh : s.held with
    | false => rfl
    | true => have := h.held_lt hh hb; omega
  refine ⟨?_, hnext, ?_⟩
  · have := h.sent_eq
    simp only [hheld, Bool.false_eq_true, false_and, if_false, Nat.add_zero] at this
    rw [this, hnext]
  · have hp := h.observed_perm hch hf
    have : (List.range s.next).filter e.fails = [] := by
      apply List.filter_eq_nil_iff.mpr
      intro i hi
      rw [List.mem_range] at hi
      rw [hok i (by omega)]; simp
    rw [this] at hp
    exact hp.eq_nil

end Sftp.Dispatch
