import Sftp.Props.C15Pipe
import Sftp.Props.C02Inst
import Sftp.Generated.PipeCfg
/-
  C15 on the pipeline for the code as it is now: the theorems of Props/C15Pipe.lean instantiated with the
  configuration the extractor read off packet-manager.go (`Sftp.G.pipeCfg`, Generated/PipeCfg.lean).  The hypothesis
  on the configuration is discharged by `decide`; a source change that falsifies it makes this file fail.
-/
namespace Sftp.C15Pipe
open Sftp Sftp.Pipe Sftp.C15

/-- packet-manager.go today: `incomingPacket` precedes both hand-offs in workerChan (and incomingPacket /
readyPacket have the Add-then-send / send-then-Done shape). -/
theorem cfg_ok_current : CfgOk G.pipeCfg := by decide

/-- the conjuncts the extractor folds into `registerBeforeHandoff` -/
theorem shape_ok_current :
    G.registerBeforePoolHandoff = true ∧ G.registerBeforeCmdHandoff = true ∧
    G.incomingPacketIsAddThenSend = true ∧ G.readyPacketIsSendThenDone = true ∧ G.pipeCmdWorkers = 1 := by decide

theorem pipeline_has_lin_points_current (ops : Nat → Option Op) (f0 : Bytes) (as : List Action) (s : State)
    (hr : run G.pipeCfg (init G.pipeCfg) as = some s) :
    (∀ p ∈ s.sent, ∃ c h t,
        recvIdx (logOf G.pipeCfg ops f0 as) p.oid = some c ∧
        stampIdx (logOf G.pipeCfg ops f0 as) p.oid = some h ∧
        sendIdx (logOf G.pipeCfg ops f0 as) p.oid = some t ∧
        c < h ∧ h < t ∧ t < as.length ∧
        as[c]? = some (.recv ⟨p.id, p.kind⟩) ∧ HandleAt as h ∧ CtlAt as t) ∧
    (∀ o o' h, stampIdx (logOf G.pipeCfg ops f0 as) o = some h → stampIdx (logOf G.pipeCfg ops f0 as) o' = some h →
      o = o') :=
  pipeline_has_lin_points G.pipeCfg cfg_ok_current ops f0 as s hr

theorem pipeline_linearizable_current (ops : Nat → Option Op) (f0 : Bytes) (as : List Action) (s : State)
    (hr : run G.pipeCfg (init G.pipeCfg) as = some s) :
    Linearizable (history as.length (logOf G.pipeCfg ops f0 as)) f0 :=
  pipeline_linearizable G.pipeCfg cfg_ok_current ops f0 as s hr

theorem completed_linearizable_current (ops : Nat → Option Op) (f0 : Bytes) (as : List Action) (s : State)
    (hr : run G.pipeCfg (init G.pipeCfg) as = some s) (hq : allAnswered (logOf G.pipeCfg ops f0 as) = true) :
    Linearizable (completedHistory (logOf G.pipeCfg ops f0 as)) f0 :=
  completed_linearizable G.pipeCfg cfg_ok_current ops f0 as s hr hq

theorem model_trace_accepted_by_checker_current (ops : Nat → Option Op) (f0 : Bytes) (as : List Action) (s : State)
    (hr : run G.pipeCfg (init G.pipeCfg) as = some s)
    (hext : ∀ o op, ops o = some op → withinExtent f0.length op = true) :
    checkStamped f0 (stamped as.length (logOf G.pipeCfg ops f0 as)) = true :=
  model_trace_accepted_by_checker G.pipeCfg cfg_ok_current ops f0 as s hr hext

/-- the code as it is now drains on `fini` (C02Inst), so at the end of every run every request has its three
instants and the completed history is linearizable -/
theorem every_request_linearised_at_end_current (ops : Nat → Option Op) (f0 : Bytes) (as : List Action) (s : State)
    (hr : run G.pipeCfg (init G.pipeCfg) as = some s) (hst : s.controllerStopped = true) :
    (∀ r ∈ s.received, ∃ c h t,
        recvIdx (logOf G.pipeCfg ops f0 as) r.oid = some c ∧
        stampIdx (logOf G.pipeCfg ops f0 as) r.oid = some h ∧
        sendIdx (logOf G.pipeCfg ops f0 as) r.oid = some t ∧
        c < h ∧ h < t ∧ t < as.length ∧ as[c]? = some (.recv ⟨r.id, r.kind⟩)) ∧
    allAnswered (logOf G.pipeCfg ops f0 as) = true ∧
    Linearizable (completedHistory (logOf G.pipeCfg ops f0 as)) f0 :=
  every_request_linearised_at_end G.pipeCfg C02.cfg_ok_current C02.drain_current.1 ops f0 as s hr hst

/-! non-vacuity: the schedules of Props/C15Pipe.lean run on the generated configuration -/
example : history exSched.length (logOf G.pipeCfg exOps exFile exSched) =
    [⟨.read 0 4, .bytes [97, 98, 99, 100], 1, 13⟩, ⟨.write 1 [88, 89], .unit, 0, 13⟩] := by decide

example : Linearizable (history exSched.length (logOf G.pipeCfg exOps exFile exSched)) exFile := by
  obtain ⟨s, hs⟩ := Option.isSome_iff_exists.mp (by decide : (run G.pipeCfg (init G.pipeCfg) exSched).isSome = true)
  exact pipeline_linearizable_current exOps exFile exSched s hs

example : (run G.pipeCfg (init G.pipeCfg) C02.drainDemo).map (·.controllerStopped) = some true := by decide
example : completedHistory (logOf G.pipeCfg exOps3 exFile C02.drainDemo) =
    [⟨.write 0 [1], .unit, 1, 12⟩, ⟨.size, .size 4, 0, 12⟩] := by decide

end Sftp.C15Pipe
