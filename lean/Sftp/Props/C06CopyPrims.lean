import Sftp.Generated.CodecTables
/-
  C06: the filexfer copy primitives every DATA / WRITE / extended decoder goes through
  (Buffer.ConsumeByteSliceCopy, Buffer.UnmarshalBinary) are the grow-by-append/copy idiom, so that decoding
  INTO a held or pre-populated value yields the same bytes as decoding into a zero value.  Obligation on the
  regenerated table (closed by `decide`); the behaviour is checked by the harness (keys reuse/*, prefill/*, prim/*).
-/
namespace Sftp.C06CopyPrims
open Sftp

/-- filexfer copy primitives (ConsumeByteSliceCopy, Buffer.UnmarshalBinary) are the grow-by-append/copy idiom:
    the result has the length of the data and equals it for every hint. -/
theorem fx_copy_prims_exact : G.fxCopyPrims.all (fun p => p.2) = true ∧ G.fxCopyPrims.length = 2 := by decide

/-- (*Buffer).Reset clears the read offset and the sticky Err together with the contents (whole-value replacement):
    a Buffer after Reset is a fresh Buffer, so marshalling into / decoding from a REUSED Buffer is the fresh-Buffer
    case the layout theorems are about (behaviour checked by the harness, keys buffer/*). -/
theorem fx_buffer_reset_clears_all : G.fxBufferResetClearsAll = true := by decide

end Sftp.C06CopyPrims
