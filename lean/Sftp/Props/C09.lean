import Sftp.Proofs.Gate
/-
  C09 — A read-only server never changes the file system.

  The gate is the interpreter `gateReadonly` (Model/Gate.lean) instantiated with the tables
  regenerated from server.go / packet.go / packet-typing.go; `mayMutate` / `onlyReads` are the
  hand-written expectations of Spec/Gate.lean.
-/
namespace Sftp.C09
open Sftp Sftp.Spec.Gate

/-- Every request that may modify the file system — whatever its type byte, its 64 open-flag
combinations, and whatever extension name it carries — is refused by a read-only server before any
handler runs. -/
theorem gate_complete (typ pf : Nat) (name : String) (ht : typ < 256) (hp : pf < 64)
    (hm : mayMutate typ pf name = true) : denied G.gateCfg ⟨typ, pf, name⟩ = true := by
  by_cases h200 : typ = 200
  · subst h200
    have hn : mutatingExt.contains name = true := by
      simp only [mayMutate, mutatingTypes, Bool.or_eq_true, Bool.and_eq_true] at hm
      rcases hm with (h | h) | h
      · simp at h
      · simp at h
      · exact h.2
    have hmem : name ∈ mutatingExt ++ readingExt := by
      rw [List.contains_iff_mem] at hn
      exact List.mem_append_left _ hn
    have := (List.all_eq_true.mp ext_all) name hmem
    unfold extCheck at this
    have := (List.all_eq_true.mp this) pf (List.mem_range.mpr hp)
    simp only [hn, Bool.not_true, Bool.false_or, Bool.and_eq_true] at this
    exact this.1
  · have hname : denied G.gateCfg ⟨typ, pf, name⟩ = denied G.gateCfg ⟨typ, pf, ""⟩ := by
      unfold denied; rw [gateReadonly_name_irrelevant typ pf h200 name]
    have hm' : mayMutate typ pf "" = true := by
      simp only [mayMutate, Bool.or_eq_true, Bool.and_eq_true, beq_iff_eq] at hm ⊢
      rcases hm with (h | h) | h
      · exact Or.inl (Or.inl h)
      · exact Or.inl (Or.inr h)
      · exact absurd h.1 h200
    rw [hname]
    by_cases h3 : typ = 3
    · subst h3
      have := allBelow_spec _ _ open_all pf hp
      simp only [pairCheck, Bool.and_eq_true, Bool.or_eq_true, Bool.not_eq_true'] at this
      rcases this.1 with h | h
      · rw [hm'] at h; cases h
      · exact h
    · have := allBelow_spec _ _ types_all typ ht
      simp only [Bool.or_eq_true, beq_iff_eq] at this
      rcases this with (h | h) | h
      · exact absurd h h3
      · exact absurd h h200
      · have hpf : mayMutate typ 0 "" = true := by
          simp only [mayMutate, Bool.or_eq_true, Bool.and_eq_true, beq_iff_eq] at hm' ⊢
          rcases hm' with (h | h) | h
          · exact Or.inl (Or.inl h)
          · exact absurd h.1 h3
          · exact absurd h.1 h200
        simp only [pairCheck, Bool.and_eq_true, Bool.or_eq_true, Bool.not_eq_true'] at h
        unfold denied
        rw [gateReadonly_pflags_irrelevant typ pf h3 ""]
        rcases h.1 with h' | h'
        · rw [hpf] at h'; cases h'
        · exact h'

/-- Purely reading requests keep working: the gate lets them through. -/
theorem gate_not_overzealous (typ pf : Nat) (name : String) (ht : typ < 256) (hp : pf < 64)
    (hr : onlyReads typ pf name = true) : gateReadonly G.gateCfg ⟨typ, pf, name⟩ = some true := by
  by_cases h200 : typ = 200
  · subst h200
    have hn : readingExt.contains name = true := by
      simp only [onlyReads, readingTypes, Bool.or_eq_true, Bool.and_eq_true] at hr
      rcases hr with (h | h) | h
      · simp at h
      · simp at h
      · exact h.2
    have hmem : name ∈ mutatingExt ++ readingExt := by
      rw [List.contains_iff_mem] at hn
      exact List.mem_append_right _ hn
    have := (List.all_eq_true.mp ext_all) name hmem
    unfold extCheck at this
    have := (List.all_eq_true.mp this) pf (List.mem_range.mpr hp)
    simp only [hn, Bool.not_true, Bool.false_or, Bool.and_eq_true, beq_iff_eq] at this
    exact this.2
  · rw [gateReadonly_name_irrelevant typ pf h200 name]
    have hr' : onlyReads typ pf "" = true := by
      simp only [onlyReads, Bool.or_eq_true, Bool.and_eq_true, beq_iff_eq] at hr ⊢
      rcases hr with (h | h) | h
      · exact Or.inl (Or.inl h)
      · exact Or.inl (Or.inr h)
      · exact absurd h.1 h200
    by_cases h3 : typ = 3
    · subst h3
      have := allBelow_spec _ _ open_all pf hp
      simp only [pairCheck, Bool.and_eq_true, Bool.or_eq_true, Bool.not_eq_true', beq_iff_eq] at this
      rcases this.2 with h | h
      · rw [hr'] at h; cases h
      · exact h
    · have := allBelow_spec _ _ types_all typ ht
      simp only [Bool.or_eq_true, beq_iff_eq] at this
      rcases this with (h | h) | h
      · exact absurd h h3
      · exact absurd h h200
      · have hpf : onlyReads typ 0 "" = true := by
          simp only [onlyReads, Bool.or_eq_true, Bool.and_eq_true, beq_iff_eq] at hr' ⊢
          rcases hr' with (h | h) | h
          · exact Or.inl (Or.inl h)
          · exact absurd h.1 h3
          · exact absurd h.1 h200
        simp only [pairCheck, Bool.and_eq_true, Bool.or_eq_true, Bool.not_eq_true', beq_iff_eq] at h
        rw [gateReadonly_pflags_irrelevant typ pf h3 ""]
        rcases h.2 with h' | h'
        · rw [hpf] at h'; cases h'
        · exact h'

/-- The refusal is a permission error (EPERM/EACCES, which the status table maps to PERMISSION_DENIED). -/
theorem denied_is_permission : deniedWithPermission G.gateCfg = true := by decide

/-- Sequences: the gate is stateless, so along any request sequence — including sequences that first
obtain a handle and then try to modify through it — the file-system state never changes, for every
effect function whose non-mutating requests leave the state alone. -/
theorem sequence_safe {FS : Type} (eff : GReq → FS → FS)
    (hpure : ∀ r fs, mayMutate r.typ r.pflags r.extName = false → eff r fs = fs)
    (reqs : List GReq) (hwf : ∀ r ∈ reqs, r.typ < 256 ∧ r.pflags < 64) (fs : FS) :
    reqs.foldl (fun fs r => if denied G.gateCfg r then fs else eff r fs) fs = fs := by
  induction reqs generalizing fs with
  | nil => rfl
  | cons r rs ih =>
    simp only [List.foldl_cons]
    have hr := hwf r (by simp)
    have hstep : (if denied G.gateCfg r then fs else eff r fs) = fs := by
      by_cases hd : denied G.gateCfg r = true
      · simp [hd]
      · simp only [hd]
        apply hpure
        cases hm : mayMutate r.typ r.pflags r.extName with
        | false => rfl
        | true => exact absurd (gate_complete r.typ r.pflags r.extName hr.1 hr.2 hm) hd
    rw [hstep]
    exact ih (fun r' h' => hwf r' (by simp [h'])) fs

/-! Non-vacuity -/
example : mayMutate 3 (0x01 ||| 0x08) "" = true ∧ (3 < 256 ∧ (0x01 ||| 0x08) < 64) := by decide
example : mayMutate 200 0 "hardlink@openssh.com" = true := by decide
example : onlyReads 5 0 "" = true ∧ onlyReads 200 0 "statvfs@openssh.com" = true := by decide

end Sftp.C09
