import Sftp.Props.C13
import Sftp.Props.C01
import Sftp.Proofs.DispatchLink
import Sftp.Proofs.DispatchLive
/-
  C13 / C01 / C12 — the schedule hypotheses of the M-Transfer theorems DERIVED from the small-step
  model of the producer / workers / reducer plumbing (Model/Dispatch.lean).

  Part 1: theorems about every action list accepted from `init`, for every `fails`.
  Part 2: `Admissible` (Model/Transfer.lean) holds for the dispatched set of every finished run, and the
          theorems of Props/C13.lean, Props/C01.lean that carried it are restated without it.
  Part 3: the ordered chain (WriteTo).   Part 4: no deadlock.
  Property theorems only (+ non-vacuity examples).
-/
namespace Sftp.Dispatch
open Sftp Sftp.Transfer Sftp.Spec.OsFile

/-! ## Part 1 — the transition system -/

/-- the hand-written configurations satisfy the decidable hypotheses of the theorems below -/
theorem current_paths :
    DispatchCfg.readAt.FoldPath ∧ DispatchCfg.writeAtConcurrent.FoldPath ∧
    DispatchCfg.readFromWithConcurrency.FoldPath ∧ DispatchCfg.current.FoldPath ∧
    DispatchCfg.writeTo.ChainPath ∧ DispatchCfg.writeTo.bounded = false := by decide

/-- Dispatch.dispatched_is_prefix — in every reachable state the chunks ever handed to workers are
exactly `0 … next-1`, handed out in this order (a prefix of the plan, inside the plan when the producer
is bounded), and what is on the wire is that prefix plus at most the one chunk the producer holds. -/
theorem dispatched_is_prefix (c : DispatchCfg) (hc : c.Sound) (e : Env) (hw : 1 ≤ e.workers)
    (acts : List Action) (s : State) (hr : run c e init acts = some s) :
    s.handed = List.range s.next ∧ (c.bounded = true → s.next ≤ e.planLen) ∧
    (s.sent = List.range s.next ∨ s.sent = List.range (s.next + 1)) := by
  have h := inv_run hc hw acts init s (inv_init c e) hr
  refine ⟨h.handed_eq, h.next_le, ?_⟩
  have := h.sent_eq
  split at this
  · exact Or.inr this
  · exact Or.inl this

/-- Dispatch.finish_waits_for_all — when the method has returned, the producer has returned, no chunk
is in flight, no worker is blocked, and every chunk handed out had its reply received. -/
theorem finish_waits_for_all (c : DispatchCfg) (hc : c.Sound) (e : Env) (hw : 1 ≤ e.workers)
    (acts : List Action) (s : State) (hr : FinishedRun c e acts s) :
    s.prodDone = true ∧ s.inflight = [] ∧ s.reporting = [] ∧ s.completed.Perm s.handed := by
  have h := inv_run hc hw acts init s (inv_init c e) hr.1
  obtain ⟨h1, h2, h3⟩ := h.fin_idle hr.2
  exact ⟨h1, h2, h3, by rw [h.handed_eq]; exact h.completed_perm hr.2⟩

/-- Dispatch.dispatched_covers_lowest_failing — errCh-fold paths.  Let `m` be the least failing index
of the plan.  In every finished run chunk `m` was handed out and its event reached the reducer, every
chunk `≤ m` was handed out and answered, and the reducer received exactly the events of the failing
chunks among the hand-outs.  If no chunk of the plan fails, the whole plan was handed out, exactly the
plan was put on the wire and the reducer saw nothing. -/
theorem dispatched_covers_lowest_failing (c : DispatchCfg) (hc : c.FoldPath) (e : Env)
    (hw : 1 ≤ e.workers) (acts : List Action) (s : State) (hr : FinishedRun c e acts s) :
    (∀ m, m < e.planLen → e.fails m = true → (∀ i, i < m → e.fails i = false) →
      m < s.next ∧ m ∈ s.observed ∧ ∀ i, i ≤ m → i ∈ s.handed ∧ i ∈ s.completed) ∧
    s.observed.Perm (s.handed.filter e.fails) ∧
    ((∀ i, i < e.planLen → e.fails i = false) →
      s.handed = List.range e.planLen ∧ s.sent = List.range e.planLen ∧ s.observed = []) := by
  obtain ⟨hs, hch, hb⟩ := hc
  have h := inv_run hs hw acts init s (inv_init c e) hr.1
  have hobs := h.observed_perm hch hr.2
  refine ⟨?_, by rw [h.handed_eq]; exact hobs, ?_⟩
  · intro m hm hfm hmin
    have hlt : m < s.next := by
      rcases h.whole_or_failed hch hb hr.2 with h1 | ⟨i, hi, hfi⟩
      · omega
      · apply Nat.lt_of_not_le
        intro hle
        have := hmin i (by omega)
        rw [hfi] at this; cases this
    refine ⟨hlt, hobs.mem_iff.mpr (List.mem_filter.mpr ⟨List.mem_range.mpr hlt, hfm⟩), fun i hi => ?_⟩
    have hir : i ∈ List.range s.next := List.mem_range.mpr (by omega)
    exact ⟨by rw [h.handed_eq]; exact hir, (h.completed_perm hr.2).mem_iff.mpr hir⟩
  · intro hok
    obtain ⟨h1, h2, h3⟩ := h.sent_all hch hb hr.2 hok
    exact ⟨by rw [h.handed_eq, h2], h1, h3⟩

/-- 5 chunks, 2 workers, only chunk 3 fails; its reply comes back before that of chunk 0; the producer is
caught by `cancel` while holding chunk 4 (already on the wire, never handed to a worker). -/
def exActs : List Action :=
  [.send, .handOut, .send, .handOut, .reply 1, .send, .handOut, .send, .reply 2, .handOut,
   .reply 3, .send, .observe 3, .reply 0, .seeCancel, .finish]

/-- non-vacuity of `FinishedRun` for `exActs` -/
example :
    let e : Env := { workers := 2, planLen := 5, fails := fun i => i == 3 }
    ∃ s, FinishedRun DispatchCfg.current e exActs s ∧
      s.handed = [0, 1, 2, 3] ∧ s.sent = [0, 1, 2, 3, 4] ∧ s.completed = [1, 2, 3, 0] ∧
      s.observed = [3] ∧ s.cancelled = true := by
  refine ⟨_, ⟨rfl, rfl⟩, by decide⟩

/-- 5 chunks, 2 workers, chunks 1 and 3 fail.  Chunk 3 fails, its event reaches the reducer and closes
`cancel` while chunk 1 is still unanswered (worker A took 0, 2, 3 in turn; worker B still holds 1);
chunk 1's event arrives second, and the method only returns after it. -/
def exActs2 : List Action :=
  [.send, .handOut, .send, .handOut, .reply 0, .send, .handOut, .reply 2, .send, .handOut,
   .reply 3, .observe 3, .send, .seeCancel, .reply 1, .observe 1, .finish]

example :
    let e : Env := { workers := 2, planLen := 5, fails := fun i => i == 1 || i == 3 }
    ∃ s, FinishedRun DispatchCfg.current e exActs2 s ∧
      s.handed = [0, 1, 2, 3] ∧ s.completed = [0, 2, 3, 1] ∧ s.observed = [3, 1] := by
  refine ⟨_, ⟨rfl, rfl⟩, by decide⟩

/-- after `cancel` is closed the producer's `select` may still take the hand-out arm (both arms ready:
Go chooses at random), so the whole plan can be dispatched although chunk 0 failed first -/
example :
    let e : Env := { workers := 2, planLen := 3, fails := fun i => i == 0 }
    ∃ s, FinishedRun DispatchCfg.current e
        [.send, .handOut, .reply 0, .observe 0, .send, .handOut, .send, .handOut, .reply 2, .reply 1,
         .exhaust, .finish] s ∧ s.handed = [0, 1, 2] ∧ s.cancelled = true := by
  refine ⟨_, ⟨rfl, rfl⟩, by decide⟩

/-- what is NOT a schedule: returning while a chunk is in flight, handing out with both workers busy,
an event from a chunk that did not fail, returning before the producer has -/
example :
    let e : Env := { workers := 2, planLen := 5, fails := fun i => i == 3 }
    run DispatchCfg.current e init [.send, .handOut, .finish] = none ∧
    run DispatchCfg.current e init [.send, .handOut, .send, .handOut, .send, .handOut] = none ∧
    run DispatchCfg.current e init [.send, .handOut, .reply 0, .observe 0] = none ∧
    run DispatchCfg.current e init [.finish] = none := by decide

/-- every hypothesis is needed — the schedules the model admits when one source fact is dropped:
(1) cancel arm falls through instead of returning: dispatched = {0, 2}, not a prefix;
(2) `cancel` closed by somebody else: the producer stops after chunk 0 of 3 although nothing failed;
(3) the method does not wait for the workers: it returns with chunk 0 in flight;
(4) zero workers: the WaitGroup is empty, the method returns at once with nothing dispatched. -/
example :
    let e : Env := { workers := 1, planLen := 3, fails := fun i => i == 0 }
    let ok : Env := { workers := 1, planLen := 3, fails := fun _ => false }
    ((run { DispatchCfg.current with cancelArmReturns := false } e init
        [.send, .handOut, .reply 0, .observe 0, .send, .seeCancel, .send, .handOut, .reply 2, .exhaust,
         .finish]).map (fun s => (s.finished, s.handed))) = some (true, [0, 2]) ∧
    ((run { DispatchCfg.current with cancelByReducerOnly := false } ok init
        [.send, .handOut, .cancel, .send, .seeCancel, .reply 0, .finish]).map
          (fun s => (s.finished, s.handed, s.observed))) = some (true, [0], []) ∧
    ((run { DispatchCfg.current with awaitWorkers := false } ok init
        [.send, .handOut, .finish]).map (fun s => (s.finished, s.inflight))) = some (true, [0]) ∧
    ((run DispatchCfg.current { ok with workers := 0 } init [.finish]).map
        (fun s => (s.finished, s.handed, s.prodDone))) = some (true, [], false) := by decide

/-! ## Part 2 — admissibility derived; C13 / C01 theorems without the hypothesis -/

/-- Dispatch.finished_run_admissible — for every plan `P`, event function `ev`, number of workers and
every complete schedule of an errCh-fold path: the dispatched set is `Admissible` (the hypothesis of
Props/C13.lean and Props/C01.lean), the replies arrived in a permutation `arrivedD` of it, and the
reducer received a permutation `arrivedE` of its events. -/
theorem finished_run_admissible {α : Type} (c : DispatchCfg) (hc : c.FoldPath) (ev : α → Option Ev)
    (P : List α) (w : Nat) (hw : 1 ≤ w) (acts : List Action) (s : State)
    (hr : FinishedRun c (envOf ev P w) acts s) :
    Admissible ev P (dispatched P s) ∧ (dispatched P s).Perm (arrivedD P s) ∧
    ((dispatched P s).filterMap ev).Perm (arrivedE ev P s) ∧
    (sentOf P s = dispatched P s ∨ ∃ x, sentOf P s = dispatched P s ++ [x]) := by
  have h := inv_run hc.1 hw acts init s (inv_init c _) hr.1
  obtain ⟨h1, h2, h3⟩ := finished_admissible h hc.2.1 hc.2.2 hr.2
  refine ⟨h1, h2, h3, ?_⟩
  rw [dispatched_eq_take h]
  rcases sent_eq_take h with h4 | h4
  · exact Or.inl h4
  · rw [h4, List.take_add_one]
    cases P[s.next]? with
    | none => left; simp
    | some x => right; exact ⟨x, rfl⟩

/-- C13.error_is_lowest_failing_offset without the admissibility hypothesis: whatever the schedule,
the reduce loop ends with the event of the lowest failing offset of the WHOLE plan. -/
theorem error_is_lowest_failing_offset_run {α : Type} (c : DispatchCfg) (hc : c.FoldPath)
    (ev : α → Option Ev) (P : List α) (w : Nat) (hw : 1 ≤ w) (acts : List Action) (s : State)
    (hs : (P.filterMap ev).Pairwise (fun a b => a.1 < b.1))
    (hr : FinishedRun c (envOf ev P w) acts s) :
    foldEarliest (arrivedE ev P s) = (P.filterMap ev).head? ∧
    ∀ m, foldEarliest (arrivedE ev P s) = some m → m ∈ P.filterMap ev ∧ ∀ x ∈ P.filterMap ev, m.1 ≤ x.1 := by
  obtain ⟨h1, _, h3, _⟩ := finished_run_admissible c hc ev P w hw acts s hr
  exact C13.error_is_lowest_failing_offset ev P _ _ hs h1 h3

/-- writeAtConcurrent / readFromWithConcurrency: the reported error is that of the lowest failing chunk -/
theorem write_error_is_lowest_run (c : DispatchCfg) (hc : c.FoldPath) (sv : Served) (mp : Nat)
    (hmp : 1 ≤ mp) (off : Nat) (b : Bytes) (w : Nat) (hw : 1 ≤ w) (acts : List Action) (s : State)
    (hr : FinishedRun c (envOf (wrEvent sv) (chunkWrites mp off b) w) acts s) :
    foldEarliest (arrivedE (wrEvent sv) (chunkWrites mp off b) s) =
      ((chunkWrites mp off b).filterMap (wrEvent sv)).head? := by
  obtain ⟨h1, _, h3, _⟩ := finished_run_admissible c hc _ _ w hw acts s hr
  exact C13.write_error_is_lowest sv mp hmp off b _ _ h1 h3

/-- concurrent readAt: the reported error is that of the lowest failing chunk -/
theorem read_error_is_lowest_run (c : DispatchCfg) (hc : c.FoldPath) (cfg : Cfg) (sv : Served)
    (hmp : 1 ≤ cfg.maxPacket) (htx : cfg.maxPacket ≤ cfg.maxTx) (off len : Nat) (w : Nat) (hw : 1 ≤ w)
    (acts : List Action) (s : State)
    (hr : FinishedRun c (envOf (rdEvent cfg sv) (planChunks cfg.maxPacket off len) w) acts s) :
    foldEarliest (arrivedE (rdEvent cfg sv) (planChunks cfg.maxPacket off len) s) =
      ((planChunks cfg.maxPacket off len).filterMap (rdEvent cfg sv)).head? := by
  obtain ⟨h1, _, h3, _⟩ := finished_run_admissible c hc _ _ w hw acts s hr
  exact C13.read_error_is_lowest cfg sv hmp htx off len _ _ h1 h3

/-- C13.prefix_intact (concurrent readAt) for every schedule of the plumbing: the buffer is filled in
the order the replies arrived, the events folded in the order the reducer received them; the
returned bytes are the file's bytes `f[off, off+n)` and the error is the status at `off+n` or io.EOF. -/
theorem prefix_intact_read_run (c : DispatchCfg) (hc : c.FoldPath) (cfg : Cfg) (sv : Served)
    (hmp : 1 ≤ cfg.maxPacket) (htx : cfg.maxPacket ≤ cfg.maxTx) (off len : Nat) (w : Nat) (hw : 1 ≤ w)
    (acts : List Action) (s : State) (buf0 : Bytes) (hbuf : buf0.length = len)
    (hr : FinishedRun c (envOf (rdEvent cfg sv) (planChunks cfg.maxPacket off len) w) acts s) :
    let P := planChunks cfg.maxPacket off len
    let r := concRead cfg sv off len buf0 (arrivedD P s) (arrivedE (rdEvent cfg sv) P s)
    RdOK sv off len (r.2.2, r.2.1) ∧ r.1 = r.2.2.length := by
  obtain ⟨h1, h2, h3, _⟩ := finished_run_admissible c hc _ _ w hw acts s hr
  exact (C13.prefix_intact_read cfg sv off len hmp htx).2.2 _ _ _ buf0 h1 h2 h3 hbuf

/-- C01.readAt_spec (concurrent branch) for every schedule of the plumbing, no injected failure:
exactly the file's bytes, `n = min len (|f| − off)`, nil error iff everything was read. -/
theorem readAt_spec_run (c : DispatchCfg) (hc : c.FoldPath) (cfg : Cfg) (sv : Served)
    (hmp : 1 ≤ cfg.maxPacket) (htx : cfg.maxPacket ≤ cfg.maxTx) (hnf : ∀ o, sv.rdFail o = none)
    (off len : Nat) (w : Nat) (hw : 1 ≤ w) (acts : List Action) (s : State) (buf0 : Bytes) (hbuf : buf0.length = len)
    (hr : FinishedRun c (envOf (rdEvent cfg sv) (planChunks cfg.maxPacket off len) w) acts s) :
    let P := planChunks cfg.maxPacket off len
    let r := concRead cfg sv off len buf0 (arrivedD P s) (arrivedE (rdEvent cfg sv) P s)
    C01.ReadSpec sv.data off len (r.2.2, r.2.1) ∧ r.1 = r.2.2.length := by
  obtain ⟨h1, h2, h3, _⟩ := finished_run_admissible c hc _ _ w hw acts s hr
  exact (C01.readAt_spec cfg sv off len hmp (by omega) hnf).2.2 htx _ _ _ buf0 h1 h2 h3 hbuf

/-- C13.prefix_intact (concurrent writes) for every schedule of the plumbing: if the reduce reports an
error with count `n`, every chunk lying entirely below `off+n` was handed to a worker (hence put on the
wire and awaited) and accepted by the server. -/
theorem prefix_intact_concWrite_run (c : DispatchCfg) (hc : c.FoldPath) (sv : Served) (mp : Nat)
    (hmp : 1 ≤ mp) (off : Nat) (b : Bytes) (w : Nat) (hw : 1 ≤ w) (acts : List Action) (s : State)
    (hr : FinishedRun c (envOf (wrEvent sv) (chunkWrites mp off b) w) acts s)
    (herr : (concResult off b.length (arrivedE (wrEvent sv) (chunkWrites mp off b) s)).2 ≠ none) :
    ∀ x ∈ chunkWrites mp off b,
      x.off + x.d.length ≤ off + (concResult off b.length (arrivedE (wrEvent sv) (chunkWrites mp off b) s)).1 →
      x ∈ dispatched (chunkWrites mp off b) s ∧ x ∈ sentOf (chunkWrites mp off b) s ∧ sv.wrFail x.off = none := by
  obtain ⟨h1, _, h3, h4⟩ := finished_run_admissible c hc _ _ w hw acts s hr
  intro x hx hle
  obtain ⟨h5, h6⟩ := C13.prefix_intact_concWrite sv mp hmp off b _ _ h1 h3 herr x hx hle
  refine ⟨h5, ?_, h6⟩
  rcases h4 with h4 | ⟨y, h4⟩
  · rw [h4]; exact h5
  · rw [h4]; exact List.mem_append_left _ h5

/-- C01.writeAt_count (concurrent branch) for every schedule of the plumbing: when no chunk fails, the
packets on the wire are exactly the plan, so in whatever order `applied` the server applies them the
file is the single write and the result is `(|b|, nil)`. -/
theorem writeAt_count_run (c : DispatchCfg) (hc : c.FoldPath) (sv : Served) (f : Bytes) (off : Nat)
    (b : Bytes) (mp : Nat) (hmp : 1 ≤ mp) (hok : ∀ x ∈ chunkWrites mp off b, sv.wrFail x.off = none)
    (w : Nat) (hw : 1 ≤ w) (acts : List Action) (s : State)
    (hr : FinishedRun c (envOf (wrEvent sv) (chunkWrites mp off b) w) acts s)
    (applied : List W) (happ : (sentOf (chunkWrites mp off b) s).Perm applied) :
    concWrite sv f off b.length applied (arrivedE (wrEvent sv) (chunkWrites mp off b) s)
      = (writeAt f off b, b.length, none) := by
  have h := inv_run hc.1 hw acts init s (inv_init c _) hr.1
  have hev : ∀ x ∈ chunkWrites mp off b, wrEvent sv x = none := fun x hx => by simp [wrEvent, hok x hx]
  obtain ⟨h1, _, h3⟩ := finished_sent_all h hc.2.1 hc.2.2 hr.2 hev
  rw [h1] at happ
  rw [h3]
  refine (C01.writeAt_count sv f off b mp hmp hok applied happ [] ?_).2
  rw [wrEvents_nil sv _ hok]

/-- C13.readFrom_count_is_consumed / C01.readFrom_spec (concurrent branch) for every schedule of the
plumbing.  `read` counts the packets put on the wire; on error the File offset is the end of the
intact prefix; with no failing chunk the file is the single write, `read = |src|`, offset advanced by
`|src|`, nil error. -/
theorem readFrom_run (c : DispatchCfg) (hc : c.FoldPath) (cfg : Cfg) (sv : Served) (off : Nat)
    (src : Bytes) (hmp : 1 ≤ cfg.maxPacket) (w : Nat) (hw : 1 ≤ w) (acts : List Action) (s : State)
    (hr : FinishedRun c (envOf (wrEvent sv) (chunkWrites cfg.maxPacket off src) w) acts s)
    (applied : List W) (happ : (sentOf (chunkWrites cfg.maxPacket off src) s).Perm applied) :
    let P := chunkWrites cfg.maxPacket off src
    let r := rfConc sv sv.data off applied (arrivedE (wrEvent sv) P s)
    r.2.1 = sumLens (sentOf P s) ∧
    (r.2.2.2 ≠ none → r.2.2.1 = off + intactPrefix sv.wrFail P) ∧
    (r.2.2.2 = none → r.2.2.1 = off + sumLens (sentOf P s)) ∧
    ((∀ x ∈ P, sv.wrFail x.off = none) → r = (writeAt sv.data off src, src.length, off + src.length, none)) := by
  intro P r
  have h := inv_run hc.1 hw acts init s (inv_init c _) hr.1
  obtain ⟨h1, _, h3, _⟩ := finished_run_admissible c hc _ _ w hw acts s hr
  obtain ⟨g1, g2, g3⟩ := (C13.readFrom_count_is_consumed cfg sv off src hmp).2.2 _ applied _ h1 h3
  have hsum : sumLens applied = sumLens (sentOf P s) := by
    unfold sumLens; exact ((happ.map _).sum_nat).symm
  refine ⟨by rw [← hsum]; exact g1, g2, fun hn => by rw [← hsum]; exact g3 hn, fun hok => ?_⟩
  have hev : ∀ x ∈ P, wrEvent sv x = none := fun x hx => by simp [wrEvent, hok x hx]
  obtain ⟨k1, _, k3⟩ := finished_sent_all h hc.2.1 hc.2.2 hr.2 hev
  have happ' : P.Perm applied := by rw [k1] at happ; exact happ
  show rfConc sv sv.data off applied (arrivedE (wrEvent sv) P s) = _
  rw [k3]
  exact (C01.readFrom_spec cfg sv off src hmp hok).2.1 applied happ'

/-- C12 (and C01/C13 at method level): `fileStep` evaluates the concurrent branches under ONE canonical
schedule (everything dispatched, replies in plan order).  This is without loss of generality: for every
complete schedule of the plumbing
 (a) the concurrent readAt returns the same `(n, err, b[:n])`;
 (b) the concurrent writeAt returns the same `(n, err)` — the offset advance of Write;
 (c) readFromWithConcurrency ends with the same `(f.offset, err)`.
(The file contents after a FAILED concurrent write, and ReadFrom's `read` count on failure, do depend on
the schedule — chunks above the failing one may or may not have been written/consumed; C13 only
promises the intact prefix, see `prefix_intact_concWrite_run`, `readFrom_run`.) -/
theorem method_result_schedule_independent (c : DispatchCfg) (hc : c.FoldPath) (cfg : Cfg) (sv : Served)
    (hmp : 1 ≤ cfg.maxPacket) (htx : cfg.maxPacket ≤ cfg.maxTx) (w : Nat) (hw : 1 ≤ w)
    (acts : List Action) (s : State) :
    (∀ off len, let P := planChunks cfg.maxPacket off len
      FinishedRun c (envOf (rdEvent cfg sv) P w) acts s →
      concRead cfg sv off len (List.replicate len 0) (arrivedD P s) (arrivedE (rdEvent cfg sv) P s) =
      concRead cfg sv off len (List.replicate len 0) P (P.filterMap (rdEvent cfg sv))) ∧
    (∀ (f : Bytes) off (b : Bytes) (applied : List W), let P := chunkWrites cfg.maxPacket off b
      FinishedRun c (envOf (wrEvent sv) P w) acts s →
      (concWrite sv f off b.length applied (arrivedE (wrEvent sv) P s)).2 =
      (concWrite sv f off b.length P (P.filterMap (wrEvent sv))).2) ∧
    (∀ (f : Bytes) off (src : Bytes) (applied : List W), let P := chunkWrites cfg.maxPacket off src
      FinishedRun c (envOf (wrEvent sv) P w) acts s → (sentOf P s).Perm applied →
      (rfConc sv f off applied (arrivedE (wrEvent sv) P s)).2.2 =
      (rfConc sv f off P (P.filterMap (wrEvent sv))).2.2) := by
  refine ⟨?_, ?_, ?_⟩
  · intro off len P hr
    have hE := read_error_is_lowest_run c hc cfg sv hmp htx off len w hw acts s hr
    have hE0 := C13.read_error_is_lowest cfg sv hmp htx off len P (P.filterMap (rdEvent cfg sv))
      (admissible_full _ _) (List.Perm.refl _)
    have h1 := prefix_intact_read_run c hc cfg sv hmp htx off len w hw acts s (List.replicate len 0)
      (List.length_replicate ..) hr
    have h0 := (C13.prefix_intact_read cfg sv off len hmp htx).2.2 P P (P.filterMap (rdEvent cfg sv))
      (List.replicate len 0) (admissible_full _ _) (List.Perm.refl _) (List.Perm.refl _)
      (List.length_replicate ..)
    have hres : concResult off len (arrivedE (rdEvent cfg sv) P s) =
        concResult off len (P.filterMap (rdEvent cfg sv)) := by
      unfold concResult; rw [hE, hE0]
    have ha : (concRead cfg sv off len (List.replicate len 0) (arrivedD P s) (arrivedE (rdEvent cfg sv) P s)).1 =
        (concRead cfg sv off len (List.replicate len 0) P (P.filterMap (rdEvent cfg sv))).1 := by
      simp only [concRead, hres]
    have hb : (concRead cfg sv off len (List.replicate len 0) (arrivedD P s) (arrivedE (rdEvent cfg sv) P s)).2.1 =
        (concRead cfg sv off len (List.replicate len 0) P (P.filterMap (rdEvent cfg sv))).2.1 := by
      simp only [concRead, hres]
    have hc' : (concRead cfg sv off len (List.replicate len 0) (arrivedD P s) (arrivedE (rdEvent cfg sv) P s)).2.2 =
        (concRead cfg sv off len (List.replicate len 0) P (P.filterMap (rdEvent cfg sv))).2.2 := by
      have p1 := h1.1.pref
      have p0 := h0.1.pref
      simp only at p1 p0
      rw [p1, p0, ← h1.2, ← h0.2, ha]
    exact Prod.ext ha (Prod.ext hb hc')
  · intro f off b applied P hr
    have hE := write_error_is_lowest_run c hc sv cfg.maxPacket hmp off b w hw acts s hr
    have hE0 := C13.write_error_is_lowest sv cfg.maxPacket hmp off b P (P.filterMap (wrEvent sv))
      (admissible_full _ _) (List.Perm.refl _)
    simp only [concWrite, concResult]
    rw [hE, hE0]
  · intro f off src applied P hr happ
    have hE := write_error_is_lowest_run c hc sv cfg.maxPacket hmp off src w hw acts s hr
    have hE0 := C13.write_error_is_lowest sv cfg.maxPacket hmp off src P (P.filterMap (wrEvent sv))
      (admissible_full _ _) (List.Perm.refl _)
    have hfe : foldEarliest (arrivedE (wrEvent sv) P s) = foldEarliest (P.filterMap (wrEvent sv)) := by
      rw [hE, hE0]
    unfold rfConc
    rw [hfe]
    cases hcase : foldEarliest (P.filterMap (wrEvent sv)) with
    | some e => rfl
    | none =>
      have hnil : P.filterMap (wrEvent sv) = [] := by
        rw [hE0] at hcase
        cases hl : P.filterMap (wrEvent sv) with
        | nil => rfl
        | cons x xs => rw [hl] at hcase; cases hcase
      have hev : ∀ x ∈ P, wrEvent sv x = none := List.filterMap_eq_nil_iff.mp hnil
      have h := inv_run hc.1 hw acts init s (inv_init c _) hr.1
      obtain ⟨k1, _, _⟩ := finished_sent_all h hc.2.1 hc.2.2 hr.2 hev
      have hsum : sumLens applied = sumLens P := by
        have happ' : P.Perm applied := by rw [k1] at happ; exact happ
        unfold sumLens; exact ((happ'.map _).sum_nat).symm
      simp only [hsum]

/-- non-vacuity for Part 2: the plan of C13's example (WRITE chunks at 0,4,8,12; 4 and 8 fail), two
workers; the schedule hands out 0,4,8, the event of 8 reaches the reducer first, the producer is
caught holding chunk 12 (on the wire, never awaited); the fold still returns the event of offset 4. -/
example :
    let sv : Served := { data := [], wrFail := fun o => if o = 4 then some 7 else if o = 8 then some 9 else none }
    let P := chunkWrites 4 0 (pat 0 16)
    let acts : List Action := [.send, .handOut, .send, .handOut, .reply 0, .send, .handOut, .reply 2,
      .observe 2, .send, .seeCancel, .reply 1, .observe 1, .finish]
    ∃ s, FinishedRun DispatchCfg.writeAtConcurrent (envOf (wrEvent sv) P 2) acts s ∧
      dispatched P s = P.take 3 ∧ sentOf P s = P ∧
      arrivedE (wrEvent sv) P s = [(8, .srv 9), (4, .srv 7)] ∧
      foldEarliest (arrivedE (wrEvent sv) P s) = some (4, .srv 7) := by
  refine ⟨_, ⟨rfl, rfl⟩, by decide⟩

/-! ## Part 3 — the ordered chain of WriteTo -/

/-- Dispatch.chain_consumes_in_order — WriteTo's reducer consumes packets strictly in chunk order in
every reachable state, whatever the arrival order of the replies; a finished run consumed exactly
`0 … m` where `m` is the lowest failing chunk (for WriteTo: the first chunk answered by a STATUS, EOF
included), chunk `m` had been handed out, and nothing is in flight any more.  This is why `chainLoop`
(Model/Transfer.lean) needs no schedule parameter. -/
theorem chain_consumes_in_order (c : DispatchCfg) (hc : c.ChainPath) (e : Env) (hw : 1 ≤ e.workers)
    (acts : List Action) (s : State) (hr : run c e init acts = some s) :
    s.observed = List.range s.observed.length ∧
    (s.redDone = false → ∀ i ∈ s.observed, e.fails i = false) ∧
    (s.finished = true →
      ∃ m, s.observed = List.range (m + 1) ∧ e.fails m = true ∧ (∀ i, i < m → e.fails i = false) ∧
        m < s.next ∧ s.inflight = [] ∧ s.reporting = [] ∧ s.prodDone = true) := by
  have h := inv_run hc.1 hw acts init s (inv_init c e) hr
  refine ⟨h.chain_obs hc.2.1, h.chain_ok hc.2.1, fun hf => ?_⟩
  obtain ⟨m, h1, h2, h3, h4⟩ := h.chain_finished hc.2.1 hf
  obtain ⟨h5, h6, h7⟩ := h.fin_idle hf
  exact ⟨m, h1, h2, h3, h4, h6, h7, h5⟩

/-- non-vacuity: 3 workers, chunk 2 is the EOF status; replies arrive 2,1,0; the reducer still consumes
0,1,2; the worker holding chunk 3 is released by cancel; the producer is caught holding chunk 4. -/
example :
    let e : Env := { workers := 3, planLen := 0, fails := fun i => i == 2 }
    let acts : List Action := [.send, .handOut, .send, .handOut, .send, .handOut, .reply 2, .reply 1,
      .reply 0, .observe 0, .send, .handOut, .observe 1, .send, .observe 2, .reply 3, .drop 3,
      .seeCancel, .finish]
    ∃ s, FinishedRun DispatchCfg.writeTo e acts s ∧ s.observed = [0, 1, 2] ∧ s.completed = [2, 1, 0, 3] ∧
      s.handed = [0, 1, 2, 3] ∧ s.sent = [0, 1, 2, 3, 4] := by
  refine ⟨_, ⟨rfl, rfl⟩, by decide⟩

/-! ## Part 4 — no deadlock -/

/-- Dispatch.can_always_finish (errCh-fold paths) — from every reachable state some continuation of
the schedule lets the method return (at least one worker). -/
theorem can_always_finish (c : DispatchCfg) (hc : c.FoldPath) (e : Env) (hw : 1 ≤ e.workers)
    (acts : List Action) (s : State) (hr : run c e init acts = some s) :
    ∃ more s', run c e s more = some s' ∧ s'.finished = true :=
  fold_can_finish hc hw _ s (Nat.le_refl _) (inv_run hc.1 hw acts init s (inv_init c e) hr)

/-- Dispatch.can_always_finish (WriteTo chain) — provided some chunk ends the transfer. -/
theorem chain_can_always_finish (c : DispatchCfg) (hc : c.ChainPath) (hb : c.bounded = false) (e : Env)
    (hw : 1 ≤ e.workers) (M : Nat) (hM : e.fails M = true)
    (acts : List Action) (s : State) (hr : run c e init acts = some s) :
    ∃ more s', run c e s more = some s' ∧ s'.finished = true :=
  chain_can_finish hc hb hw M hM _ s (Nat.le_refl _) (inv_run hc.1 hw acts init s (inv_init c e) hr)

end Sftp.Dispatch
