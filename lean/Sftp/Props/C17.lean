import Sftp.Proofs.C17.All
/-
  C17 — File attributes and modes survive every conversion.

  Property theorems only.  The conversion functions are the interpreter
  `BitMap.apply` instantiated with the switch tables regenerated from
  stat.go / client.go (Generated/Mode.lean); the reference conversions and the
  enumeration of os.FileMode values are hand-written in Spec/Mode.lean.
-/
namespace Sftp.C17
open Sftp Sftp.Spec.Mode

/-- Every 16-bit wire mode word is converted exactly as the POSIX/Go reference tables say. -/
theorem toFileMode_is_reference (m : Nat) (hm : m < 65536) : toFileMode m = toOs m := by
  have h := wire_all m hm
  simp only [wireCheck, Bool.and_eq_true, beq_iff_eq] at h
  exact h.1

/-- wire → os → wire is the identity on every wire word whose type nibble is one of the seven
representable kinds (all 9 permission and 3 special bits free). -/
theorem wire_os_wire (m : Nat) (hm : m < 65536) (ht : validWireType (m &&& S_IFMT) = true) :
    fromFileMode (toFileMode m) = m := by
  have h := wire_all m hm
  simp only [wireCheck, Bool.and_eq_true, beq_iff_eq, Bool.or_eq_true, Bool.not_eq_true'] at h
  rcases h.2 with h2 | h2
  · rw [ht] at h2; cases h2
  · exact h2

/-- os → wire agrees with the reference for every os.FileMode built from one type, three special
and nine permission bits. -/
theorem fromFileMode_is_reference (i : Nat) (hi : i < 28672) :
    fromFileMode (osModeOfIndex i) = toWire (osModeOfIndex i) := by
  have h := os_all i hi
  simp only [osCheck, Bool.and_eq_true, beq_iff_eq] at h
  exact h.1.1

/-- os → wire → os is the identity on all those modes. -/
theorem os_wire_os (i : Nat) (hi : i < 28672) :
    toFileMode (fromFileMode (osModeOfIndex i)) = osModeOfIndex i := by
  have h := os_all i hi
  simp only [osCheck, Bool.and_eq_true, beq_iff_eq] at h
  exact h.1.2

/-- The chmod argument carries exactly the permission bits and the POSIX forms of
setuid/setgid/sticky, whatever the type bits. -/
theorem toChmodPerm_spec (i : Nat) (hi : i < 28672) :
    toChmodPerm (osModeOfIndex i) = chmodOf (osModeOfIndex i) := by
  have h := os_all i hi
  simp only [osCheck, Bool.and_eq_true, beq_iff_eq] at h
  exact h.2

/-! Non-vacuity: concrete members of the quantified domains. -/
-- setuid directory rwxr-x--x : wire 0o044751
example : validWireType (0o044751 &&& S_IFMT) = true ∧ toFileMode 0o044751 = ModeDir ||| ModeSetuid ||| 0o751 := by
  decide
-- index 3·4096 + 0o1644 is a sticky named pipe rw-r--r--
example : osModeOfIndex (3 * 4096 + 0o1644) = ModeNamedPipe ||| ModeSticky ||| 0o644 := by decide
example : fromFileMode (ModeNamedPipe ||| ModeSticky ||| 0o644) = S_IFIFO ||| S_ISVTX ||| 0o644 := by decide

end Sftp.C17
