import Sftp.Proofs.Listing
/-
  C16 — A directory listing returns every entry exactly once.

  Property theorems only.  Model: Sftp/Model/Listing.lean (request.go `filelist`, server.go
  `sshFxpReaddirPacket.respond`, client.go `ReadDirContext`, the ListerAt contract `Legal`).
  All theorems are for every entry list, every batch size ≥ 1 and every legal lister behaviour
  (short batches; EOF together with the last entries or on the following call).
-/
namespace Sftp.C16
open Sftp

/-- what `ReadDir` must return for `entries`: same order, each once, `.`/`..` dropped, attributes
untouched; the name is `path.Base` of the server's name (client.go keeps `path.Base(filename)`). -/
def expected (entries : List Entry) : List Entry :=
  (entries.filter (fun e => !isDot e)).map (fun e => { e with name := pathBase e.name })

/-- names as every real directory has them: non-empty, no `/`. -/
def PlainNames (entries : List Entry) : Prop :=
  ∀ e, e ∈ entries → e.name ≠ [] ∧ (47 : UInt8) ∉ e.name

/-- **C16.listing_exact** (request server, any handler lister honouring the contract).
For every fuel ≥ |entries| + 1 the client returns exactly `expected entries` and a nil error. -/
theorem listing_exact (sc : SrvCfg) (cc : CliCfg)
    (hinc : sc.incByN = true) (heo : sc.eofOnlyWhenEmpty = true) (hb : 1 ≤ sc.batch)
    (hdots : cc.filterDots = true) (hstop : cc.stopOnStatus = true) (hnil : cc.eofIsNil = true)
    (hbase : cc.baseName = true)
    (entries : List Entry) (beh : Beh) (hl : Legal entries.length beh)
    (fuel : Nat) (hfuel : entries.length + 1 ≤ fuel) :
    ∃ rounds, listRequestServer sc cc entries beh fuel = some ⟨expected entries, .nil, rounds⟩ := by
  obtain ⟨k, _, _, hk⟩ := readDir_filelist sc cc hinc heo hb hstop hnil entries beh hl
    entries.length 0 (by omega) [] 0 fuel hfuel
  refine ⟨0 + k, ?_⟩
  unfold listRequestServer
  rw [hk]
  simp [keep, hdots, hbase, expected]

/-- On ordinary names (non-empty, without `/`) the entries come back verbatim:
`entries.filter (name ∉ {".", ".."})`. -/
theorem listing_exact_plain (sc : SrvCfg) (cc : CliCfg)
    (hinc : sc.incByN = true) (heo : sc.eofOnlyWhenEmpty = true) (hb : 1 ≤ sc.batch)
    (hdots : cc.filterDots = true) (hstop : cc.stopOnStatus = true) (hnil : cc.eofIsNil = true)
    (hbase : cc.baseName = true)
    (entries : List Entry) (hplain : PlainNames entries) (beh : Beh) (hl : Legal entries.length beh)
    (fuel : Nat) (hfuel : entries.length + 1 ≤ fuel) :
    ∃ rounds, listRequestServer sc cc entries beh fuel =
      some ⟨entries.filter (fun e => !isDot e), .nil, rounds⟩ := by
  obtain ⟨r, hr⟩ := listing_exact sc cc hinc heo hb hdots hstop hnil hbase entries beh hl fuel hfuel
  refine ⟨r, ?_⟩
  rw [hr]
  have : expected entries = entries.filter (fun e => !isDot e) := by
    unfold expected
    conv => rhs; rw [← List.map_id (entries.filter (fun e => !isDot e))]
    apply List.map_congr_left
    intro e he
    have hm := (List.mem_filter.mp he).1
    have := hplain e hm
    simp only [id]
    rw [pathBase_id e.name this.1 this.2]
  rw [this]

/-- **C16.listing_terminates**: the listing ends after at most |entries| + 1 READDIR round trips,
fuel |entries| + 1 suffices and any larger fuel gives the same answer. -/
theorem listing_terminates (sc : SrvCfg) (cc : CliCfg)
    (hinc : sc.incByN = true) (heo : sc.eofOnlyWhenEmpty = true) (hb : 1 ≤ sc.batch)
    (hstop : cc.stopOnStatus = true) (hnil : cc.eofIsNil = true)
    (entries : List Entry) (beh : Beh) (hl : Legal entries.length beh) :
    ∃ r, listRequestServer sc cc entries beh (entries.length + 1) = some r ∧
      1 ≤ r.rounds ∧ r.rounds ≤ entries.length + 1 ∧
      ∀ fuel, entries.length + 1 ≤ fuel → listRequestServer sc cc entries beh fuel = some r := by
  obtain ⟨k, hk1, hk2, hk⟩ := readDir_filelist sc cc hinc heo hb hstop hnil entries beh hl
    entries.length 0 (by omega) [] 0 (entries.length + 1) (Nat.le_refl _)
  refine ⟨_, hk, by simp only; omega, by simp only; omega, ?_⟩
  intro fuel hf
  exact readDir_fuel_mono cc _ _ _ _ _ _ hk fuel hf

/-- **C16.os_lister_legal**: `os.File.Readdir(k)` (up to `k` entries, `io.EOF` exactly when none is
left) is a legal behaviour. -/
theorem os_lister_legal (len : Nat) : Legal len (readdirBeh len) := readdirBeh_legal len

/-- The os-backed server's READDIR is the request-server step with that behaviour, hence the listing
through it is exact too. -/
theorem os_listing_exact (oc : OsCfg) (cc : CliCfg)
    (hst : oc.errToStatus = true) (hb : 1 ≤ oc.batch)
    (hdots : cc.filterDots = true) (hstop : cc.stopOnStatus = true) (hnil : cc.eofIsNil = true)
    (hbase : cc.baseName = true)
    (entries : List Entry) (fuel : Nat) (hfuel : entries.length + 1 ≤ fuel) :
    ∃ rounds, listOsServer oc cc entries fuel = some ⟨expected entries, .nil, rounds⟩ ∧
      rounds ≤ entries.length + 1 := by
  have hsrv : osReaddirStep oc entries =
      filelistStep { batch := oc.batch, incByN := true, eofOnlyWhenEmpty := true } entries
        (readdirBeh entries.length) := funext (osReaddirStep_eq oc hst entries)
  obtain ⟨k, _, hk2, hk⟩ := readDir_filelist
    { batch := oc.batch, incByN := true, eofOnlyWhenEmpty := true } cc rfl rfl hb hstop hnil
    entries _ (readdirBeh_legal entries.length) entries.length 0 (by omega) [] 0 fuel hfuel
  refine ⟨0 + k, ?_, by omega⟩
  unfold listOsServer
  rw [hsrv, hk]
  simp [keep, hdots, hbase, expected]

/-- **C16.example_lister_legal**: `listerat.ListAt` of request-example.go is legal. -/
theorem example_lister_legal (len : Nat) : Legal len (exampleBeh len) := exampleBeh_legal len

/-- Every scripted behaviour of the driver/harness (arbitrary short batches, EOF with the last
entries or after them) is legal — so each harness case is an instance of `listing_exact`. -/
theorem script_lister_legal (sizes : List Nat) (eofWithLast : Bool) (len : Nat) :
    Legal len (scriptBeh sizes eofWithLast len) := scriptBeh_legal sizes eofWithLast len

/-- The configuration read off today's source satisfies the hypotheses. -/
theorem current_cfg_ok :
    SrvCfg.current.incByN = true ∧ SrvCfg.current.eofOnlyWhenEmpty = true ∧ 1 ≤ SrvCfg.current.batch ∧
    OsCfg.current.errToStatus = true ∧ 1 ≤ OsCfg.current.batch ∧
    CliCfg.current.filterDots = true ∧ CliCfg.current.stopOnStatus = true ∧
    CliCfg.current.eofIsNil = true ∧ CliCfg.current.baseName = true := by decide

/-! ### non-vacuity and necessity of the hypotheses -/

/-- seven entries: `.`, `..` and five files -/
def ex7 : List Entry :=
  [⟨dot, 0⟩, ⟨[97], 1⟩, ⟨dotdot, 2⟩, ⟨[98], 3⟩, ⟨[99], 4⟩, ⟨[100], 5⟩, ⟨[101], 6⟩]

def files (es : List Entry) : List Nat := es.map (·.attrs)

-- batch 3, short first batch of 2, EOF together with the last entries: 4 rounds, all five files.
example : (listRequestServer { SrvCfg.current with batch := 3 } .current ex7 (scriptBeh [2] true 7) 8).map
    (fun r => (files r.entries, r.err, r.rounds)) = some ([1, 3, 4, 5, 6], .nil, 4) := by decide
-- the example lister, batch 3: EOF arrives with the short last batch.
example : (listRequestServer { SrvCfg.current with batch := 3 } .current ex7 (exampleBeh 7) 8).map
    (fun r => (files r.entries, r.err, r.rounds)) = some ([1, 3, 4, 5, 6], .nil, 4) := by decide
-- the bound |entries| + 1 is attained (batch 1).
example : (listRequestServer { SrvCfg.current with batch := 1 } .current ex7 (readdirBeh 7) 8).map
    (fun r => r.rounds) = some 8 := by decide
-- os-backed server, Readdir(3).
example : (listOsServer { OsCfg.current with batch := 3 } .current ex7 8).map
    (fun r => (files r.entries, r.err, r.rounds)) = some ([1, 3, 4, 5, 6], .nil, 4) := by decide
example : PlainNames ex7 := by unfold PlainNames; decide

/-- `incByN` is needed: without `lsInc(n)` the first batch is served for ever (no fuel suffices). -/
theorem incByN_needed : ∀ fuel,
    listRequestServer { SrvCfg.current with batch := 3, incByN := false } .current ex7 (readdirBeh 7) fuel
      = none := by
  have hstep : filelistStep { SrvCfg.current with batch := 3, incByN := false } ex7 (readdirBeh 7) 0 =
      (.name (slice ex7 0 3), 0) := by decide
  have : ∀ fuel acc rounds,
      readDir CliCfg.current
        (filelistStep { SrvCfg.current with batch := 3, incByN := false } ex7 (readdirBeh 7)) fuel 0 acc rounds
        = none := by
    intro fuel
    induction fuel with
    | zero => intro acc rounds; rfl
    | succ fuel ih => intro acc rounds; rw [readDir, hstep]; exact ih _ _
  intro fuel; exact this fuel [] 0

/-- …and the client meanwhile accumulates duplicates: were it to stop after 3 rounds it would hold
the first batch three times (a client that does not stop on its own is cut by the fuel). -/
theorem incByN_needed_duplicates :
    (readDir { CliCfg.current with stopOnStatus := true }
        (fun (s : Nat) => if s < 3 then
            ((filelistStep { SrvCfg.current with batch := 3, incByN := false } ex7 (readdirBeh 7) 0).1, s + 1)
          else (.status .eof, s)) 10 0 [] 0).map (fun r => files r.entries)
      = some [1, 1, 1] := by decide

/-- `eofOnlyWhenEmpty` is needed: with a lister that returns EOF together with the last entries
(allowed by the contract, done by request-example.go) those entries are lost. -/
theorem eofOnlyWhenEmpty_needed :
    (listRequestServer { SrvCfg.current with batch := 3, eofOnlyWhenEmpty := false } .current ex7
        (exampleBeh 7) 8).map (fun r => (files r.entries, r.err)) = some ([1, 3, 4, 5], .nil) := by decide

/-- `batch ≥ 1` is needed: with `MaxFilelist = 0` every reply is an empty NAME and the loop never ends. -/
theorem batch_needed :
    listRequestServer { SrvCfg.current with batch := 0 } .current ex7 (readdirBeh 7) 50 = none := by decide

/-- client hypotheses are needed. -/
theorem filterDots_needed :
    (listRequestServer .current { CliCfg.current with filterDots := false } ex7 (readdirBeh 7) 8).map
      (fun r => files r.entries) = some [0, 1, 2, 3, 4, 5, 6] := by decide
theorem stopOnStatus_needed :
    listRequestServer .current { CliCfg.current with stopOnStatus := false } ex7 (readdirBeh 7) 50 = none := by
  decide
theorem eofIsNil_needed :
    (listRequestServer .current { CliCfg.current with eofIsNil := false } ex7 (readdirBeh 7) 8).map
      (fun r => r.err) = some .eof := by decide

/-- A lister that breaks the contract (EOF reported one batch early) does lose entries: `Legal` is
not vacuous padding. -/
theorem legal_needed :
    (listRequestServer { SrvCfg.current with batch := 3 } .current ex7
        (fun off buf => if 3 ≤ off then ⟨0, .eof⟩ else ⟨min buf (7 - off), .nil⟩) 8).map
      (fun r => files r.entries) = some [1] := by decide

/-- Finding (names only): `.`/`..` are filtered *before* `path.Base`, so a handler lister entry named
`x/..` (or `./`, or the empty name) reaches the caller as `..` (resp. `.`).  Impossible for names read
from a real directory (`PlainNames`), hence `listing_exact_plain`. -/
theorem base_after_filter_witness :
    (listRequestServer .current .current [⟨[120, 47, 46, 46], 7⟩, ⟨[], 8⟩] (readdirBeh 2) 3).map
      (fun r => r.entries) = some [⟨dotdot, 7⟩, ⟨dot, 8⟩] := by decide

end Sftp.C16
