import Sftp.Proofs.PipeFinal
/-
  C14 — Close waits for everything that came before it.

  "When reads and writes on a handle are pipelined and followed by a close of that handle without waiting for
  replies, the server completes every one of those reads and writes before it closes the underlying file or
  handler object. … no read or write belonging to a request that preceded the close runs concurrently with or
  after Close."

  Property theorems only.  In the model a worker slot is `holding r` from the moment the worker received r until
  its handler RETURNS (`workerHandle` / `cmdHandle` append r's order id to `handled` = `finished`), so
  "r.oid ∈ finished" means the ReadAt/WriteAt of r is over, and "not in finished" covers not started as well as
  in progress.  The CLOSE handler (closeHandle / closeRequest) can only run after the CLOSE was dispatched.
-/
namespace Sftp.C14
open Sftp.Pipe

/-- The hypotheses on the extracted configuration, decidable. -/
def CfgOk (cfg : PipeCfg) : Prop :=
  cfg.closeWaits = true ∧ cfg.registerBeforeHandoff = true ∧ ReqKind.close ∉ cfg.poolKinds

instance (cfg : PipeCfg) : Decidable (CfgOk cfg) := by unfold CfgOk; infer_instance

theorem reachable_inv {cfg : PipeCfg} (hc : CfgOk cfg) {as : List Action} {s : State}
    (hr : run cfg (init cfg) as = some s) : InvLoc s ∧ InvClose s :=
  invClose_run hc.2.1 hc.1 hc.2.2 as (invLoc_init cfg) (invClose_init cfg) hr

/-- In every reachable state, under every schedule: if a CLOSE has left the dispatcher (it is on its way to, or
in, the command worker) or its handler has run, then every pool request (READ/WRITE) that was received before
it has already finished its handler.  So at the moment `cmdHandle` runs the CLOSE, no earlier read or write is
un-handled or mid-handler, and none can run later. -/
theorem close_after_all_prior (cfg : PipeCfg) (hc : CfgOk cfg) (as : List Action) (s : State)
    (hr : run cfg (init cfg) as = some s) (c : OReq) (hcr : c ∈ s.received) (hk : c.kind = .close)
    (hd : c ∈ s.dispatched ∨ c.oid ∈ s.handled) (r : OReq) (hrr : r ∈ s.received) (hlt : r.oid < c.oid)
    (_hpool : r.kind ∈ cfg.poolKinds) : r.oid ∈ s.finished := by
  obtain ⟨hl, hcl⟩ := reachable_inv hc hr
  exact close_prior_handled hl hcl hcr hk hd hrr hlt

/-- Stronger, and what the WaitGroup actually gives: EVERY earlier request of any kind has finished its handler
(and its response is already on the `responses` channel) when a CLOSE leaves the dispatcher. -/
theorem close_after_everything_prior (cfg : PipeCfg) (hc : CfgOk cfg) (as : List Action) (s : State)
    (hr : run cfg (init cfg) as = some s) (c : OReq) (hcr : c ∈ s.received) (hk : c.kind = .close)
    (hd : c ∈ s.dispatched ∨ c.oid ∈ s.handled) (r : OReq) (hrr : r ∈ s.received) (hlt : r.oid < c.oid) :
    r.oid ∈ s.finished := by
  obtain ⟨hl, hcl⟩ := reachable_inv hc hr
  exact close_prior_handled hl hcl hcr hk hd hrr hlt

/-- The executable check used by the driver op `c14.check` holds in every reachable state. -/
theorem closeSafe_always (cfg : PipeCfg) (hc : CfgOk cfg) (as : List Action) (s : State)
    (hr : run cfg (init cfg) as = some s) : closeSafe cfg s = true := by
  obtain ⟨hl, hcl⟩ := reachable_inv hc hr
  exact closeSafe_of_inv cfg hl hcl

/-- While a CLOSE waits at the dispatcher for the counter to reach 0 the `dispatch` action is not enabled. -/
theorem close_blocks (cfg : PipeCfg) (hcw : cfg.closeWaits = true) (hnp : ReqKind.close ∉ cfg.poolKinds)
    (s : State) (c : OReq) (rest : List OReq) (hp : s.pktChan = c :: rest) (hk : c.kind = .close)
    (hpr : s.pendingReg = none) (hw : s.working ≠ 0) : step cfg s .dispatch = none := by
  unfold step
  split
  · rfl
  · simp only [dispatchStep, hpr, hp]
    rw [if_neg (by rw [hk]; exact hnp), if_pos ⟨hk, hcw, hw⟩]

/-! ### non-vacuity and necessity -/

example : CfgOk PipeCfg.current := by decide

/-- WRITE, WRITE, CLOSE pipelined on today's configuration: the dispatcher cannot pass the CLOSE on while a write
is in a worker … -/
example : (run .current (init .current)
    [.recv ⟨1, .rw⟩, .recv ⟨2, .rw⟩, .recv ⟨3, .close⟩, .dispatch, .dispatch, .workerTake 0, .workerHandle 0,
     .workerReady 0, .dispatch]).isNone = true := by decide

/-- … and once both are done it can, and the CLOSE handler runs last. -/
example : (run .current (init .current)
    [.recv ⟨1, .rw⟩, .recv ⟨2, .rw⟩, .recv ⟨3, .close⟩, .dispatch, .dispatch, .workerTake 0, .workerTake 1,
     .workerHandle 1, .workerReady 1, .workerHandle 0, .workerReady 0, .dispatch, .cmdTake, .cmdHandle]).map
      (·.finished) = some [2, 1, 3] := by decide

/-- The barrier is needed: without `working.Wait()` the CLOSE handler can run before an earlier write's handler. -/
theorem barrier_needed :
    (run { PipeCfg.current with closeWaits := false } (init { PipeCfg.current with closeWaits := false })
      [.recv ⟨1, .rw⟩, .recv ⟨2, .close⟩, .dispatch, .dispatch, .workerTake 0, .cmdTake, .cmdHandle,
       .workerHandle 0]).map (fun s => (s.finished, closeSafe { PipeCfg.current with closeWaits := false } s))
      = some ([2, 1], true) ∧
    (run { PipeCfg.current with closeWaits := false } (init { PipeCfg.current with closeWaits := false })
      [.recv ⟨1, .rw⟩, .recv ⟨2, .close⟩, .dispatch, .dispatch, .workerTake 0, .cmdTake, .cmdHandle]).map
      (fun s => (s.finished, closeSafe { PipeCfg.current with closeWaits := false } s)) = some ([2], false) := by
  decide

/-- CLOSE must not be a pool kind: the type switch tests the pool kinds first, so it would bypass the barrier. -/
theorem close_not_pool_needed :
    (run { PipeCfg.current with poolKinds := [.rw, .close] } (init { PipeCfg.current with poolKinds := [.rw, .close] })
      [.recv ⟨1, .rw⟩, .recv ⟨2, .close⟩, .dispatch, .dispatch, .workerTake 0, .workerTake 1,
       .workerHandle 1]).map (·.finished) = some [2] := by decide

end Sftp.C14
