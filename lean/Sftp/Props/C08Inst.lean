import Sftp.Props.C08
import Sftp.Props.Known.C08
import Sftp.Generated.CodecTables
import Sftp.Generated.Consts
/-
  C08 for the code as it is now: Props/C08.lean instantiated with the tables and configuration the
  extractor read off packet.go and internal/encoding/ssh/filexfer (Generated/CodecTables.lean).
-/
namespace Sftp.C08
open Sftp Sftp.Codec

/-- Every field of every decoder table row uses a bounds-checked primitive. -/
theorem tables_all_safe :
    (∀ r ∈ G.mainUnmarshal, ∀ f ∈ r.2, f.safe = true) ∧ (∀ r ∈ G.fxUnmarshal, ∀ f ∈ r.2, f.safe = true) := by
  decide

/-- No request decoder of packet.go panics, whatever the bytes. -/
theorem main_decoders_total (r : String × List FieldD) (hr : r ∈ G.mainUnmarshal) (bs : Bytes) :
    decodeFields G.decCfgMain r.2 bs ≠ .panic :=
  decode_total _ _ _ (tables_all_safe.1 r hr)

/-- No filexfer decoder panics, whatever the bytes. -/
theorem fx_decoders_total (r : String × List FieldD) (hr : r ∈ G.fxUnmarshal) (bs : Bytes) :
    decodeFields G.decCfgFx r.2 bs ≠ .panic :=
  decode_total _ _ _ (tables_all_safe.2 r hr)

/-- packet.go's decoders allocate linearly in the input (the count guard of `unmarshalFileStat` is
in place). -/
theorem main_alloc_linear (fs : List FieldD) (bs : Bytes) :
    decodeMeter G.decCfgMain fs bs ≤ 9 * bs.length + 96 * fs.length :=
  alloc_linear_main _ _ _ (by decide) (by decide)

/-- The filexfer decoders allocate linearly too: both count guards (extended attributes: count ≤ len/8,
name entries: count ≤ len/12) are in place.  (They were absent at the pinned commit — finding F2,
`Known.fx_alloc_witness` — and were added by a `fix:` commit.) -/
theorem fx_alloc_linear (fs : List FieldD) (bs : Bytes) :
    decodeMeter G.decCfgFx fs bs ≤ 9 * bs.length + 96 * fs.length :=
  alloc_linear _ _ _ (by decide) (by decide)

/-- The framing facts the model of `recvPacket` relies on are those of the source. -/
theorem recv_facts : G.recvMaxLen = 262144 ∧ G.recvLongCheck = true ∧ G.recvZeroCheck = true ∧
    G.recvReadsFull = true ∧ G.recvMaxLen = G.maxMsgLength := by decide

end Sftp.C08
