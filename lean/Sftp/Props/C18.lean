import Sftp.Proofs.AllocSim
/-
  C18 — the server buffer allocator is invisible.

  Property theorems only.  Model: Sftp/Model/Alloc.lean; every theorem is about ALL action lists
  (= all interleavings of the recvPacket goroutine, the workers, the controller and Serve's deferred
  Free that respect the control preconditions documented in the model).
  `Good cfg` collects the source facts used (ReleasePages after sendPacket, GetPage marks the page used,
  pop removes from `available`, ReleasePages deletes the key, maxTxPacket ≤ page size); `cfg.reuse`
  (allocator on/off) is arbitrary.
-/
namespace Sftp.C18
open Sftp Sftp.Alloc

/-- No page is lent twice: in every reachable state the pages in `available` and all pages marked used
(under whatever order id) are pairwise distinct.  Spelled out: `available` has no duplicates, a page is
marked used under at most one order id, and a used page is not available. -/
theorem pages_disjoint (cfg : Cfg) (hg : Good cfg) (acts : List Action) (s : State)
    (h : run cfg State.init acts = some s) :
    (s.a.available ++ s.a.used.map (·.2)).Nodup ∧
    s.a.available.Nodup ∧
    (∀ o o' p, (o, p) ∈ s.a.used → (o', p) ∈ s.a.used → o = o') ∧
    (∀ o p, (o, p) ∈ s.a.used → p ∉ s.a.available) ∧
    (∀ o, (s.a.pagesOf o).Nodup) := by
  have hi := run_inv hg acts Inv.init h
  refine ⟨hi.ainv.nodup, (List.nodup_append.mp hi.ainv.nodup).1, ?_, ?_, ?_⟩
  · intro o o' p h1 h2; exact used_key_unique hi.ainv h1 h2
  · intro o p h1; exact used_not_available hi.ainv h1
  · intro o
    have hn : (s.a.used.map (·.2)).Nodup := (List.nodup_append.mp hi.ainv.nodup).2.1
    have hp := pagesOf_perm s.a o
    exact (List.nodup_append.mp (hp.nodup_iff.mpr hn)).1

/-- A queued, not yet sent response resolves — now, hence also at send time, since this holds in every
reachable state — to exactly the bytes its handler produced; and if it refers to a page, that page is
marked used under the response's own order id (until Serve's Free), is not available, is used under no
other order id, and is not what the next GetPage returns. -/
theorem no_reuse_before_send (cfg : Cfg) (hg : Good cfg) (acts : List Action) (s : State)
    (h : run cfg State.init acts = some s) (oid : Nat) (b : Bytes)
    (hunsent : s.g.nextSend ≤ oid) (hans : s.g.gout oid = some b) :
    ∃ r, s.resp oid = some r ∧ resolve s.heap r = b ∧
      ∀ p n, r = .ref p n →
        p ∉ s.a.available ∧ (∀ o', (o', p) ∈ s.a.used → o' = oid) ∧
        (s.g.freed = false → (oid, p) ∈ s.a.used ∧ ∀ o', (getPage cfg s.a o').1 ≠ p) := by
  have hi := run_inv hg acts Inv.init h
  obtain ⟨r, hr1, hr2⟩ := hi.heap_out oid b hunsent hans
  refine ⟨r, hr1, hr2, ?_⟩
  intro p n hrp
  subst hrp
  have hoN : oid < s.g.nextOid := by
    apply Nat.lt_of_not_le; intro hle; rw [hi.gout_lt oid hle] at hans; cases hans
  cases hf : s.g.freed with
  | true =>
    obtain ⟨h1, h2⟩ := hi.freed_empty hf
    rw [h1, h2]
    exact ⟨by simp, by simp, by simp⟩
  | false =>
    have hheld := hi.ref_held hf oid p n hoN (hi.unsent_unreleased hunsent) hr1
    refine ⟨used_not_available hi.ainv hheld, ?_, ?_⟩
    · intro o' ho'; exact used_key_unique hi.ainv ho' hheld
    · intro _
      refine ⟨hheld, ?_⟩
      intro o' he
      have sp := getPage_spec hg hi.ainv o'
      rw [he] at sp
      exact sp.not_used (mem_usedPages hheld)

/-- The frame page of a request whose handler has not answered yet still holds the request bytes, and
the data page a READ handler has taken holds what the handler stored in it (as a prefix: the rest may be
stale bytes of an earlier request, which `handlerData`'s bound `n ≤ stored length` keeps off the wire). -/
theorem request_intact_until_handled (cfg : Cfg) (hg : Good cfg) (acts : List Action) (s : State)
    (h : run cfg State.init acts = some s) (oid : Nat) (hrecv : oid < s.g.nextOid)
    (hun : s.g.gout oid = none) :
    s.heap (s.page oid) = s.g.gin oid ∧
    (s.g.taken oid = true → (s.heap (s.dpage oid)).take (s.g.gdata oid).length = s.g.gdata oid) :=
  ⟨(run_inv hg acts Inv.init h).heap_in oid hrecv hun,
   fun ht => (run_inv hg acts Inv.init h).fill_ok oid hrecv ht hun⟩

/-- Turning the allocator on never changes a response: for every action list the run with the allocator
and the run with plain `make` are enabled together and put the same bytes on the wire (and the
allocator run never hits the `GetPage(..)[:dataLen]` slice-bounds panic). -/
theorem output_independent_of_allocator (cfg : Cfg) (hg : Good cfg) (acts : List Action) :
    (run cfg State.init acts).map (·.wire) = (run cfg.noAlloc State.init acts).map (·.wire) ∧
    ∀ s, run cfg State.init acts = some s → s.panicked = false := by
  have h1 := run_g cfg acts State.init
  have h2 := run_g cfg.noAlloc acts State.init
  rw [crun_noAlloc] at h2
  constructor
  · cases hr1 : run cfg State.init acts with
    | none =>
      rw [hr1] at h1
      cases hr2 : run cfg.noAlloc State.init acts with
      | none => rfl
      | some t => rw [hr2, ← h1] at h2; cases h2
    | some s =>
      rw [hr1] at h1
      cases hr2 : run cfg.noAlloc State.init acts with
      | none => rw [hr2, ← h1] at h2; cases h2
      | some t =>
        rw [hr2, ← h1] at h2
        simp only [Option.map_some, Option.some.injEq] at h2 ⊢
        rw [(run_inv hg acts Inv.init hr1).wire_ideal, (run_inv hg.noAlloc acts Inv.init hr2).wire_ideal, h2]
  · intro s hs; exact (run_inv hg acts Inv.init hs).no_panic

/-- Both runs moreover produce the wire the handlers meant (`ideal`: each handler's bytes, in order). -/
theorem wire_is_intended (cfg : Cfg) (hg : Good cfg) (acts : List Action) (s : State)
    (h : run cfg State.init acts = some s) : s.wire = s.g.ideal :=
  (run_inv hg acts Inv.init h).wire_ideal

/-- Once every received request has been sent and released, nothing is marked used except possibly the
one page lent to recvPacket for the frame that has not arrived (under the NEXT order id); without a
pending recvPacket nothing at all.  After `free` both tables are empty. -/
theorem quiescent_clean (cfg : Cfg) (hg : Good cfg) (acts : List Action) (s : State)
    (h : run cfg State.init acts = some s) :
    ((∀ o, o < s.g.nextOid → s.g.released o = true) →
      (s.a.used = [] ∨ (s.g.pending = true ∧ s.a.used = [(s.g.nextOid, s.pendPage)])) ∧
      (s.g.pending = false → s.usedCount = 0)) ∧
    (∀ o, s.g.released o = true → o < s.g.nextSend) ∧
    (s.g.freed = true → s.a.available = [] ∧ s.a.used = []) := by
  have hi := run_inv hg acts Inv.init h
  refine ⟨?_, hi.rel_sent, hi.freed_empty⟩
  intro hall
  have hk : ∀ e ∈ s.a.used, e = (s.g.nextOid, s.pendPage) ∧ s.g.pending = true := by
    intro e he
    rcases hi.keys e he with h1 | h1
    · exact h1
    · rw [hall e.1 h1.1] at h1; exact absurd h1.2 (by simp)
  have hn : (s.a.used.map (·.2)).Nodup := (List.nodup_append.mp hi.ainv.nodup).2.1
  rcases all_eq_nodup (fun e he => (hk e he).1) hn with h0 | h1
  · exact ⟨Or.inl h0, fun _ => by simp [State.usedCount, h0]⟩
  · have hp := (hk (s.g.nextOid, s.pendPage) (by rw [h1]; simp)).2
    exact ⟨Or.inr ⟨hp, h1⟩, fun hf => by rw [hp] at hf; cases hf⟩

/-- Serve's deferred Free leaves both tables empty, whatever happened before. -/
theorem free_empties (cfg : Cfg) (hg : Good cfg) (acts : List Action) (s : State)
    (h : run cfg State.init (acts ++ [.free]) = some s) : s.availCount = 0 ∧ s.usedCount = 0 := by
  have hi := run_inv hg _ Inv.init h
  have hf : s.g.freed = true := by
    have h1 := run_g cfg (acts ++ [.free]) State.init
    rw [h] at h1
    simp only [Option.map_some] at h1
    have : ∀ (as : List Action) (g g' : Ctl), crun cfg g (as ++ [.free]) = some g' → g'.freed = true := by
      intro as
      induction as with
      | nil => intro g g' hc; simp only [List.nil_append, crun, cstep] at hc; injection hc with hc; rw [← hc]
      | cons a as ih =>
        intro g g' hc
        simp only [List.cons_append, crun] at hc
        split at hc
        · exact ih _ _ hc
        · cases hc
    exact this acts _ _ h1.symm
  obtain ⟨h1, h2⟩ := hi.freed_empty hf
  simp [State.availCount, State.usedCount, h1, h2]

/-! ### the hypotheses are met by the code as it is, and are needed -/

example : Good Cfg.current := by decide

/-- Three pipelined requests (a READ answered out of order, an echo, a plain status), everything sent,
released, freed: a non-trivial member of the quantified domain that exercises page reuse. -/
def sampleTrace : List Action :=
  [.lend, .arrive [1], .lend, .arrive [2], .lend, .handlerTake 1 2, .handlerTake 0 4, .handlerFill 1 [0xbb, 0xbc],
   .handlerFill 0 [0xaa, 0xab], .handlerData 1 2, .handlerData 0 1,
   .send 0, .release 0, .arrive [3], .send 1, .handlerEcho 2, .lend, .release 1, .arrive [4],
   .handlerTake 3 8, .handlerFill 3 [0xcc], .handlerData 3 1, .send 2, .send 3, .release 3, .release 2, .free]

example : (run Cfg.current State.init sampleTrace).map (·.wire) =
    some [[0xaa], [0xbb, 0xbc], [3], [0xcc]] := by decide
-- after the third READ took its page: pages 0,1 available again, page 3 (formerly request 1's data) re-lent
example : (run Cfg.current State.init (sampleTrace.take 20)).map (fun s => (s.a.available, s.a.used)) =
    some ([0, 1], [(2, 2), (3, 4), (3, 3)]) := by decide

/-- `releaseAfterSend` is needed: with ReleasePages before sendPacket the data page of request 0 is
re-lent to request 1's READ and overwritten before response 0 is written; the wire differs from the
allocator-free run. -/
def earlyReleaseTrace : List Action :=
  [.lend, .arrive [1], .lend, .arrive [2], .handlerTake 0 1, .handlerFill 0 [0xaa], .handlerData 0 1,
   .release 0, .handlerTake 1 1, .handlerFill 1 [0xbb], .handlerData 1 1, .send 0, .send 1]

theorem release_before_send_witness :
    let cfg := { Cfg.current with releaseAfterSend := false }
    (run cfg State.init earlyReleaseTrace).map (·.wire) = some [[0xbb], [0xbb]] ∧
    (run cfg.noAlloc State.init earlyReleaseTrace).map (·.wire) = some [[0xaa], [0xbb]] := by decide

/-- `popRemovesFromAvailable` is needed: the same page is lent to two requests. -/
theorem pop_needed_witness :
    let cfg := { Cfg.current with popRemovesFromAvailable := false }
    (run cfg State.init [.lend, .arrive [1], .handlerOther 0 [9], .send 0, .release 0, .lend, .arrive [2],
        .handlerTake 1 1]).map (fun s => s.a.used) = some [(1, 0), (1, 0)] := by decide

/-- `releaseDeletesKey` is needed: a released page stays marked used. -/
theorem delete_needed_witness :
    let cfg := { Cfg.current with releaseDeletesKey := false }
    (run cfg State.init [.lend, .arrive [1], .handlerOther 0 [9], .send 0, .release 0]).map
      (fun s => (s.a.available, s.a.used)) = some ([0], [(0, 0)]) := by decide

/-- `maxTx ≤ pageSize` is needed (finding F10: WithAllocator + WithMaxTxPacket above the page size):
the allocator run panics, the allocator-free run does not. -/
theorem page_overflow_witness :
    let cfg := { Cfg.current with pageSize := 4, maxTx := 8 }
    (run cfg State.init [.lend, .arrive [1], .handlerTake 0 5]).map (·.panicked) = some true ∧
    (run cfg.noAlloc State.init [.lend, .arrive [1], .handlerTake 0 5]).map (·.panicked)
      = some false := by decide

end Sftp.C18
