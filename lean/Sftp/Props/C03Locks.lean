import Sftp.Model.LockOrder
import Sftp.Generated.ConnLocks
/-
  C03 / C04 — the in-flight table has a mutex of its own (source shape of seeded defect C03_g: clientConn's embedded
  `sync.Mutex` deleted, so that `c.Lock()` in getChannel / putChannel / broadcastErr silently resolves to the promoted
  `conn.Mutex`, the one `conn.sendPacket` holds across a blocking transport Write).

  Facts: `Generated/ConnLocks.lean` (translator unit ConnLocks, /verif/extract/round4.go): for every `X.Lock()` on a mutex
  of conn / clientConn the mutex OBJECT the type checker selects (go/types field path of the method selection:
  `Owner.field` of the last embedded field walked through), the calls made while it is held (`[io]` = reaches package
  io / os / net, transitively through the package's functions), every access of `inflight` with the lock held there.

  M-ClientConn (Model/ClientConn.lean, Props/C03, C04) treats getChannel / putChannel / broadcastErr as steps that are
  never blocked by a writer in the middle of a Write; that is the assumption this file discharges.
-/
namespace Sftp.C03Locks
open Sftp Sftp.LockOrder

def inflightFns : List String := ["clientConn.broadcastErr", "clientConn.getChannel", "clientConn.putChannel"]

/-- do the in-flight lock and the lock held across the transport Write coincide, according to the source? -/
def sameLock : Bool :=
  G.inflightLockObjects.isEmpty || G.inflightLockObjects.contains G.sendPacketLock ||
  G.inflightLockObjects.any G.ioLockObjects.contains

/-- C03Locks.inflight_lock_distinct_from_write_lock — conn.go: the mutex locked by getChannel, putChannel and
broadcastErr is clientConn's OWN embedded Mutex (field path of length 1), the one locked by conn.sendPacket (and
conn.Close) is conn's; they are different objects; every access of `inflight` in the package happens under the former;
no transport I/O is performed under it, and every lock region under which I/O is performed is conn's. -/
theorem inflight_lock_distinct_from_write_lock :
    G.inflightLockIsOwn = true ∧ G.noIoUnderInflightLock = true ∧
    (G.lockSites.filter (fun r => inflightFns.contains r.1)).map (fun r => (r.1, r.2.1)) =
      [("clientConn.broadcastErr", "clientConn.Mutex"), ("clientConn.getChannel", "clientConn.Mutex"),
       ("clientConn.putChannel", "clientConn.Mutex")] ∧
    (G.lockSites.filter (fun r => r.1 == "conn.sendPacket")).map (fun r => r.2) = [("conn.Mutex", "sendPacket[io]")] ∧
    G.sendPacketLock = "conn.Mutex" ∧
    G.inflightLockObjects = ["clientConn.Mutex"] ∧ G.ioLockObjects = ["conn.Mutex"] ∧
    G.inflightAccessSites.all (fun r => r.2 == "clientConn.Mutex") = true ∧
    (G.inflightAccessSites.map (·.1)) = inflightFns ∧
    sameLock = false := by
  decide

/-- C03Locks.no_lock_order_deadlock — sender / peer / receive loop with the two mutexes as the source has them: in
every schedule from the back-pressure situation (a request still in the pipe, the peer busy writing a batch of
replies and not reading, a caller about to send), no reachable state is a deadlock. -/
theorem no_lock_order_deadlock (acts : List Act) (s : St) (_hr : run sameLock St.init acts = some s) :
    stuck sameLock s = false := by
  have h : sameLock = false := by decide
  rw [h]
  exact distinct_never_stuck s

/-- non-vacuity: that situation does run to completion (all five replies written, read and delivered) -/
example : run sameLock St.init
    [.sAcquire, .pWrite, .rRead, .rLock, .rDeliver, .pWrite, .rRead, .rLock, .rDeliver, .pWrite, .rRead, .rLock, .rDeliver,
     .pRead, .sWrite, .sRelease, .pWrite, .rRead, .rLock, .rDeliver, .pRead, .pWrite, .rRead, .rLock, .rDeliver]
    = some ⟨0, 0, 0, .fin, .reading⟩ ∧ final ⟨0, 0, 0, .fin, .reading⟩ = true := by decide

/-- C03Locks.deadlock_reachable_iff_locks_coincide — the 3-party model: a deadlock state (sender holds the mutex blocked
in Write, peer blocked writing, receive loop waiting for the mutex) is reachable iff the in-flight lock IS the write
lock (seed C03_g). -/
theorem deadlock_reachable_iff_locks_coincide (same : Bool) :
    (∃ acts s, run same St.init acts = some s ∧ stuck same s = true) ↔ same = true :=
  deadlock_iff_same_lock same

/-- the seed's schedule and its stuck state, spelled out -/
theorem seed_shared_mutex_deadlocks :
    run true St.init [.sAcquire, .pWrite, .rRead, .pWrite] = some ⟨1, 1, 1, .writing, .needLock⟩ ∧
    stuck true ⟨1, 1, 1, .writing, .needLock⟩ = true ∧
    run false St.init [.sAcquire, .pWrite, .rRead, .pWrite, .rLock] = some ⟨1, 1, 1, .writing, .holding⟩ := by decide

end Sftp.C03Locks
