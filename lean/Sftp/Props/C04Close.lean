import Sftp.Model.RecvLifecycle
import Sftp.Generated.RecvLifecycle
/-
  C04 — `Client.Close` returns only after every waiting call has been notified (source shape of seeded defect C04_h:
  the receiver's `wg.Done()` moved into clientConn.recv, where it runs BEFORE the goroutine's `broadcastErr`).

  Facts: `Generated/RecvLifecycle.lean` (translator unit RecvLifecycle, /verif/extract/round4.go): the goroutine that
  runs clientConn.recv (client.go newClientPipe) statement by statement, recognised by callee OBJECT (not spelling),
  the order of its events with recv inlined and deferred calls last, every use of clientConn's WaitGroup in the
  package, recv's deferred calls and return values, and the shapes of clientConn.Close and broadcastErr.

  M-ClientConn (Model/ClientConn.lean, Props/C04) has ONE receiver action that fails all waiting calls and marks the
  connection closed, and Close waits "for the receiver"; that the code's Close waits for the goroutine's LAST step is
  the assumption this file discharges.
-/
namespace Sftp.C04Close
open Sftp Sftp.RecvLife

/-- the receiver goroutine's event list as the translator reads it off the source -/
def receiverEvents : List Ev := G.receiverEvents.map parseEv

/-- C04Close.receiver_signs_off_last — client.go newClientPipe: `wg.Add(1)` stands before the go statement; the
goroutine is `defer wg.Done(); if err := recv(); err != nil { broadcastErr(err) }`; that `wg.Done()` is the only one
in the package and clientConn.recv contains none; recv never returns nil (so the broadcast does happen), its only
deferred call is `conn.Close()`; recv is started exactly once, by that go statement; clientConn.Close is
`defer wg.Wait(); return conn.Close()`; broadcastErr closes `closed` as its last statement (which lock it holds is
Props/C03Locks' business). -/
theorem receiver_signs_off_last :
    G.doneAfterBroadcast = true ∧ G.closeWaitsForReceiver = true ∧
    G.recvGoroutineShape = ["wg.Add(1)", "go func() {", "defer wg.Done()",
      "if err := recv(); err != nil { broadcastErr(err) }", "}()"] ∧
    G.receiverEvents = ["recvLoop", "connClose", "broadcast", "done"] ∧
    G.recvContainsDone = false ∧ G.recvReturnsNonNil = true ∧ G.recvDeferred = ["conn.Close()"] ∧
    G.recvCallSites = [("newClientPipe", "go")] ∧
    (G.wgSites.filter (fun r => r.2 != "defer wg.Wait()")).map (·.2) = ["wg.Add(1)", "defer wg.Done()"] ∧
    G.closeShape = ["defer wg.Wait()", "return conn.Close()"] ∧
    G.broadcastErrStmts.getLast? = some "close(c.closed)" := by
  decide

/-- C04Close.close_returns_after_all_notified — for EVERY interleaving of the receiver goroutine's steps with the call
and the return of Close: in a state where Close has returned, `broadcastErr` has been executed (every waiting call
has been notified and `closed` is closed), the connection has been closed and the goroutine has signed off — nothing
of the receiver is still to run. -/
theorem close_returns_after_all_notified (acts : List Act) (s : St)
    (hr : run receiverEvents St.init acts = some s) (hc : s.closeReturned = true) :
    Ev.broadcast ∈ executed receiverEvents s ∧ Ev.done ∈ executed receiverEvents s := by
  have hb : before .broadcast .done receiverEvents = true := by decide
  refine ⟨close_after_broadcast receiverEvents hb acts s hr hc, ?_⟩
  exact run_inv receiverEvents acts St.init s (by intro h; cases h) hr hc

/-- non-vacuity: Close called while the receive loop is still running does return, after the four events -/
example : run receiverEvents St.init [.closeCall, .recvStep, .recvStep, .recvStep, .recvStep, .closeReturn]
    = some ⟨4, true, true⟩ := by decide

/-- Close cannot return earlier: with the broadcast still to run `closeReturn` is not enabled -/
example : run receiverEvents St.init [.closeCall, .recvStep, .recvStep, .closeReturn] = none := by decide

/-! ### the seeded shape -/

/-- seed C04_h: `defer c.wg.Done()` at the top of clientConn.recv, none in the goroutine -/
def seedEvents : List Ev := [.recvLoop, .connClose, .done, .broadcast]

/-- C04Close.seed_close_returns_before_broadcast — with the seed's order there is a schedule in which Close has returned
and the broadcast has not run (no waiting call notified, `closed` still open); Add/Done stay balanced and every run
to completion still executes all four events, which is why nothing but an interleaving shows it. -/
theorem seed_close_returns_before_broadcast :
    before .broadcast .done seedEvents = false ∧
    (∃ acts s, run seedEvents St.init acts = some s ∧ s.closeReturned = true ∧
      Ev.broadcast ∉ executed seedEvents s) ∧
    run seedEvents St.init [.closeCall, .recvStep, .recvStep, .recvStep, .recvStep, .closeReturn] = some ⟨4, true, true⟩ := by
  refine ⟨by decide, ⟨[.closeCall, .recvStep, .recvStep, .recvStep, .closeReturn], ⟨3, true, true⟩, by decide, rfl, by decide⟩,
    by decide⟩

/-- `go c.recv()` without the wrapper: no broadcast at all (and no Done: Close never returns) -/
theorem bare_recv_never_notifies :
    ∀ acts s, run [.recvLoop, .connClose] St.init acts = some s → s.closeReturned = false := by
  intro acts s hr
  cases hc : s.closeReturned with
  | false => rfl
  | true =>
    have := run_inv [.recvLoop, .connClose] acts St.init s (by intro h; cases h) hr hc
    unfold executed at this
    have h2 : ∀ k, Ev.done ∉ ([Ev.recvLoop, Ev.connClose] : List Ev).take k := by
      intro k
      match k with
      | 0 => simp
      | 1 => simp
      | k + 2 => simp
    exact absurd this (h2 _)

end Sftp.C04Close
