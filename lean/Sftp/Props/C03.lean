import Sftp.Proofs.ClientConn.Reach
/-
  C03 — Every client operation returns the result the server produced for that very request, no matter in
  which order the server answers outstanding requests and no matter how many goroutines share the Client or
  a File.  Ids of requests in flight are pairwise distinct, and each request reaches the wire as one
  contiguous, well-framed packet.

  Property theorems only, over ALL schedules (`acts` arbitrary) of the transition system
  Sftp/Model/ClientConn.lean with any number `n` of callers.  Hypotheses on `cfg` are the source facts the
  theorem needs; they are discharged for `Cfg.current` by `decide` in the corollaries at the end.
-/
namespace Sftp.C03
open Sftp Sftp.ClientConn

/-- Ids held by callers between nextID() and return are pairwise distinct while fewer than 2^32 ids
have been drawn; needs only that ids come from one atomic counter. -/
theorem ids_distinct (cfg : Cfg) (n : Nat) (acts : List Action) (s : State)
    (hat : cfg.idAtomic = true) (h : Reach cfg n acts s) (hlt : s.nextid < idMod)
    (c c' sid : Nat) (hc : (s.pc c).sid? = some sid) (hc' : (s.pc c').sid? = some sid) : c = c' :=
  (reach_id hat h).distinct hlt c c' sid hc hc'

/-- …and they are the draw numbers 1 … nextid (never 0). -/
theorem ids_range (cfg : Cfg) (n : Nat) (acts : List Action) (s : State)
    (hat : cfg.idAtomic = true) (h : Reach cfg n acts s) (hlt : s.nextid < idMod)
    (c sid : Nat) (hc : (s.pc c).sid? = some sid) : 1 ≤ sid ∧ sid ≤ s.nextid :=
  (reach_id hat h).bound hlt c sid hc

/-- Whenever caller `c` (whose request id is `sid`) returns a server reply, that reply frame carried `sid`
and its payload is one the environment sent for `sid` — whatever the order of replies, the number of
callers, and even if the environment reuses or invents sids. -/
theorem routing (cfg : Cfg) (n : Nat) (acts : List Action) (s : State)
    (hdel : cfg.getChannelDeletes = true) (hrep : cfg.broadcastReplacesChan = true)
    (h : Reach cfg n acts s) (c sid sid' : Nat) (p : Bytes)
    (hd : s.pc c = .done sid (.reply sid' p)) : sid' = sid ∧ Action.envReply sid p ∈ acts := by
  have := (reach_inv hdel hrep h).2.doneR c sid sid' p hd
  exact ⟨this.1, this.1 ▸ this.2⟩

/-- The same for a reply still sitting in the caller's channel. -/
theorem routing_pending (cfg : Cfg) (n : Nat) (acts : List Action) (s : State)
    (hdel : cfg.getChannelDeletes = true) (hrep : cfg.broadcastReplacesChan = true)
    (h : Reach cfg n acts s) (c sid' : Nat) (hc : c < n) (p : Bytes)
    (hd : (s.chan c).slot = some (.reply sid' p)) :
    (s.pc c).active? = some sid' ∧ Action.envReply sid' p ∈ acts :=
  (reach_inv hdel hrep h).2.slotR c sid' p hc hd

/-- The outgoing stream is always whole frames (header Write directly followed by the payload Write of the
same request), each caller at most once, plus at most one lone header — that of the caller currently inside
conn.sendPacket's critical section, or a torn frame after the write side died.  Every framed request
belongs to a caller that is now waiting for / has got its result. -/
theorem wire_framed (cfg : Cfg) (n : Nat) (acts : List Action) (s : State)
    (hlk : cfg.sendUnderLock = true) (h : Reach cfg n acts s) :
    ∃ (frames : List (Nat × Nat)) (part : List Chunk),
      s.wire = framesWire frames ++ part ∧ (frames.map (·.1)).Nodup ∧
      (∀ e ∈ frames, s.pc e.1 = .waiting e.2 true ∨ ∃ r, s.pc e.1 = .done e.2 r) ∧
      (part = [] ∨ ∃ c sid, part = [Chunk.hdr c sid] ∧
        (s.wdead = true ∨ (s.lock = some c ∧ s.pc c = .wroteHeader sid))) := by
  obtain ⟨frames, part, w⟩ := reach_wire hlk h
  refine ⟨frames, part, w.wire, w.nodup, w.sent, ?_⟩
  cases hw : s.wdead with
  | true =>
    rcases w.dead hw with hp | ⟨c, sid, hp⟩
    · exact .inl hp
    · exact .inr ⟨c, sid, hp, .inl rfl⟩
  | false =>
    rcases w.live hw with ⟨hp, _⟩ | ⟨c, sid, hp, hpc⟩
    · exact .inl hp
    · exact .inr ⟨c, sid, hp, .inr ⟨w.holder c sid (.inr hpc), hpc⟩⟩

/-- Decidable corollary used by the harness. -/
theorem wire_wellFramed (cfg : Cfg) (n : Nat) (acts : List Action) (s : State)
    (hlk : cfg.sendUnderLock = true) (h : Reach cfg n acts s) : wellFramed s.wire = true := by
  obtain ⟨frames, part, hw, _, _, hp⟩ := wire_framed cfg n acts s hlk h
  rw [hw]
  apply wellFramed_frames
  rcases hp with hp | ⟨c, sid, hp, _⟩
  · exact .inl hp
  · exact .inr ⟨c, sid, hp⟩

/-- Mutual exclusion behind `wire_framed`: at most one caller is between the two Writes. -/
theorem one_writer (cfg : Cfg) (n : Nat) (acts : List Action) (s : State)
    (hlk : cfg.sendUnderLock = true) (h : Reach cfg n acts s) (c c' sid sid' : Nat)
    (hc : s.pc c = .locked sid ∨ s.pc c = .wroteHeader sid)
    (hc' : s.pc c' = .locked sid' ∨ s.pc c' = .wroteHeader sid') : c = c' := by
  obtain ⟨frames, part, w⟩ := reach_wire hlk h
  have h1 := w.holder c sid hc
  have h2 := w.holder c' sid' hc'
  rw [h1] at h2
  exact Option.some.inj h2

/-! ### the code as it is today -/

theorem current_ok : Cfg.current.idAtomic = true ∧ Cfg.current.getChannelDeletes = true ∧
    Cfg.current.broadcastReplacesChan = true ∧ Cfg.current.sendUnderLock = true := by decide

/-! ### non-vacuity and necessity of the source facts (concrete schedules) -/

example : idMod = 2 ^ 32 := by decide

/-- two callers, replies in the opposite order of the requests: each gets its own -/
def demo : List Action :=
  [.callerNextId 0, .callerNextId 1, .callerPut 0, .callerPut 1, .callerLock 1, .callerWriteHeader 1,
   .callerWritePayload 1, .callerLock 0, .callerWriteHeader 0, .callerWritePayload 0,
   .envReply 2 [0xbb], .envReply 1 [0xaa], .callerRecvResult 1, .callerRecvResult 0]

example : (run Cfg.current 2 (init 2) demo).map (fun s => (s.pc 0, s.pc 1, s.wire, s.nextid)) =
    some (.done 1 (.reply 1 [0xaa]), .done 2 (.reply 2 [0xbb]),
      [.hdr 1 2, .pay 1 2, .hdr 0 1, .pay 0 1], 2) := by decide

/-- `idAtomic = false` (load and store of the counter as two steps): two callers share sid 1. -/
theorem idAtomic_needed :
    (run { Cfg.current with idAtomic := false } 2 (init 2)
      [.callerLoadId 0, .callerLoadId 1, .callerNextId 0, .callerNextId 1]).map
      (fun s => ((s.pc 0).sid?, (s.pc 1).sid?, decide (s.nextid < idMod))) = some (some 1, some 1, true) := by
  decide

/-- `sendUnderLock = false`: two frames interleave on the wire. -/
theorem sendUnderLock_needed :
    (run { Cfg.current with sendUnderLock := false } 2 (init 2)
      [.callerNextId 0, .callerNextId 1, .callerPut 0, .callerPut 1, .callerLock 0, .callerLock 1,
       .callerWriteHeader 0, .callerWriteHeader 1, .callerWritePayload 0, .callerWritePayload 1]).map
      (fun s => (s.wire, wellFramed s.wire)) =
    some ([.hdr 0 1, .hdr 1 2, .pay 0 1, .pay 1 2], false) := by decide

/-- `getChannelDeletes = false`: a second frame with the same sid is handed to the caller of a later… here:
the first caller has returned reply `aa`; the duplicate `bb` is delivered into the same channel again. -/
theorem getChannelDeletes_needed :
    (run { Cfg.current with getChannelDeletes := false } 1 (init 1)
      [.callerNextId 0, .callerPut 0, .callerLock 0, .callerWriteHeader 0, .callerWritePayload 0,
       .envReply 1 [0xaa], .callerRecvResult 0, .envReply 1 [0xbb]]).map
      (fun s => ((s.chan 0).delivered, (s.chan 0).slot)) = some (2, some (.reply 1 [0xbb])) := by decide

end Sftp.C03
