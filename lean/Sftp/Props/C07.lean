import Sftp.Model.ServeLoop
import Sftp.Props.C02Inst
import Sftp.Props.C11Inst
import Sftp.Props.C08Inst
import Sftp.Generated.PipeCfg
/-
  C07 — No byte stream can crash, wedge or trick a server.

  Composition: framing and decoding are total and never deliver a short frame (C08: frame_never_short,
  main_decoders_total); the receive loop never dispatches a malformed frame (here, over the
  regenerated loop facts of both servers); what is dispatched is answered in order, exactly once,
  never wrongly (C02 *_current: the emitted responses are a prefix of the correct ones for every
  schedule) and the pipeline never deadlocks after the input ends (C02.no_stuck_state_current);
  every handle left open is swept exactly once when Serve returns (C11 closed_exactly_once_*).
-/
namespace Sftp.C07
open Sftp Sftp.ServeLoop

/-- A malformed packet is never acted upon: with a loop that stops on a decoding error, the requests
that reach the workers are exactly those of the stream's well-formed prefix — for every stream. -/
theorem malformed_not_dispatched {Req} (cfg : Cfg) (hs : cfg.stopsOnError = true) (fs : List (Frame Req)) :
    dispatched cfg fs = prefixRequests cfg fs := by
  unfold prefixRequests
  induction fs with
  | nil => rfl
  | cons f fs ih =>
    cases f with
    | ok r => simp only [dispatched, wellFormedPrefix, ih]
    | unknownExt r =>
      simp only [dispatched, wellFormedPrefix]
      split <;> simp only [ih]
    | bad p => simp [dispatched, wellFormedPrefix, hs]

/-- Hence the store (files, handler state) after any stream equals the store after its longest
well-formed prefix, for every effect function of dispatched requests. -/
theorem store_as_after_prefix {Req Store} (cfg : Cfg) (hs : cfg.stopsOnError = true)
    (eff : Store → Req → Store) (s0 : Store) (fs : List (Frame Req)) :
    (dispatched cfg fs).foldl eff s0 = (prefixRequests cfg fs).foldl eff s0 := by
  rw [malformed_not_dispatched cfg hs fs]

/-- Nothing after the first malformed frame is dispatched, whatever follows it (garbage appended,
more valid-looking frames). -/
theorem nothing_after_bad {Req} (cfg : Cfg) (hs : cfg.stopsOnError = true) (pre : List (Frame Req))
    (p : Req) (post : List (Frame Req)) (hpre : wellFormedPrefix pre = pre) :
    dispatched cfg (pre ++ .bad p :: post) = dispatched cfg pre := by
  induction pre with
  | nil => simp [dispatched, hs]
  | cons f fs ih =>
    cases f with
    | ok r =>
      simp only [wellFormedPrefix, List.cons.injEq, true_and] at hpre
      simp only [List.cons_append, dispatched, ih hpre]
    | unknownExt r =>
      simp only [wellFormedPrefix, List.cons.injEq, true_and] at hpre
      simp only [List.cons_append, dispatched, ih hpre]
    | bad q => simp [wellFormedPrefix] at hpre

/-- the loop configuration of the os-backed server / of the request server, regenerated from the source -/
def cfgOS : Cfg := ⟨G.serveLoopOS_stopsOnMakePacketError, G.serveLoopOS_unknownExtendedIsDispatched⟩
def cfgRS : Cfg := ⟨G.serveLoopRS_stopsOnMakePacketError, G.serveLoopRS_unknownExtendedIsDispatched⟩

/-- Both servers leave the receive loop on a decoding error, before anything is dispatched. -/
theorem both_loops_stop_on_error : cfgOS.stopsOnError = true ∧ cfgRS.stopsOnError = true ∧
    G.serveLoopOS_dispatchesAfterMakePacketError = false ∧ G.serveLoopRS_dispatchesAfterMakePacketError = false := by
  decide

theorem malformed_not_dispatched_os {Req} (fs : List (Frame Req)) : dispatched cfgOS fs = prefixRequests cfgOS fs :=
  malformed_not_dispatched cfgOS both_loops_stop_on_error.1 fs

theorem malformed_not_dispatched_rs {Req} (fs : List (Frame Req)) : dispatched cfgRS fs = prefixRequests cfgRS fs :=
  malformed_not_dispatched cfgRS both_loops_stop_on_error.2.1 fs

/-- With a loop that does NOT stop (the pinned os-backed server: `break` left only the `switch`), the
partially decoded packet of a malformed frame is dispatched — the negation, on a concrete stream. -/
theorem stop_needed : dispatched (Req := Nat) ⟨false, true⟩ [.ok 1, .bad 2, .ok 3] = [1, 2, 3] ∧
    prefixRequests (Req := Nat) ⟨false, true⟩ [.ok 1, .bad 2, .ok 3] = [1] := by decide

/-! Non-vacuity -/
example : dispatched (Req := Nat) ⟨true, true⟩ [.ok 1, .unknownExt 7, .bad 2, .ok 3] = [1, 7] := by decide
example : wellFormedPrefix (Req := Nat) [.ok 1, .unknownExt 7] = [.ok 1, .unknownExt 7] := by decide

end Sftp.C07
