import Sftp.Props.C13Dispatch
import Sftp.Generated.DispatchCfg
/-
  C13 / C01 / C12 — the theorems of Props/C13Dispatch.lean instantiated with the configurations the
  translator REGENERATED from client.go on this run (Sftp/Generated/DispatchCfg.lean, unit DispatchCfg of
  /verif/extract/dispatchcfg.go):

      G.dispReadAt    (*File).readAt, concurrent branch
      G.dispWriteAt   (*File).writeAtConcurrent
      G.dispReadFrom  (*File).readFromWithConcurrency
      G.dispWriteTo   (*File).WriteTo, concurrent branch

  `generated_paths` is the tie: it is closed by `decide` on the nine extracted bits, so a source change
  that drops one of the facts (dispatch after the select, a cancel arm that does not return, a second
  close(cancel), a missing wg.Wait …) — or any shape the extractor does not recognise, which yields the
  all-false configuration — makes this file fail to compile.  Everything below is a one-line
  application of the generic theorem.
-/
namespace Sftp.Dispatch
open Sftp Sftp.Transfer Sftp.Spec.OsFile

/-- the configurations extracted from the working tree are an errCh-fold path over a finite plan
(three times) and an ordered-chain path with an unbounded producer -/
theorem generated_paths :
    G.dispReadAt.FoldPath ∧ G.dispWriteAt.FoldPath ∧ G.dispReadFrom.FoldPath ∧
    G.dispWriteTo.ChainPath ∧ G.dispWriteTo.bounded = false := by decide

theorem readAt_foldPath : G.dispReadAt.FoldPath := generated_paths.1
theorem writeAt_foldPath : G.dispWriteAt.FoldPath := generated_paths.2.1
theorem readFrom_foldPath : G.dispReadFrom.FoldPath := generated_paths.2.2.1
theorem writeTo_chainPath : G.dispWriteTo.ChainPath := generated_paths.2.2.2.1
theorem writeTo_unbounded : G.dispWriteTo.bounded = false := generated_paths.2.2.2.2

/-! ## Part 1 — the transition system, for the extracted configurations -/

theorem dispatched_is_prefix_generated (e : Env) (hw : 1 ≤ e.workers) (acts : List Action) (s : State) :
    (run G.dispReadAt e init acts = some s →
      s.handed = List.range s.next ∧ (G.dispReadAt.bounded = true → s.next ≤ e.planLen) ∧
      (s.sent = List.range s.next ∨ s.sent = List.range (s.next + 1))) ∧
    (run G.dispWriteAt e init acts = some s →
      s.handed = List.range s.next ∧ (G.dispWriteAt.bounded = true → s.next ≤ e.planLen) ∧
      (s.sent = List.range s.next ∨ s.sent = List.range (s.next + 1))) ∧
    (run G.dispReadFrom e init acts = some s →
      s.handed = List.range s.next ∧ (G.dispReadFrom.bounded = true → s.next ≤ e.planLen) ∧
      (s.sent = List.range s.next ∨ s.sent = List.range (s.next + 1))) ∧
    (run G.dispWriteTo e init acts = some s →
      s.handed = List.range s.next ∧ (G.dispWriteTo.bounded = true → s.next ≤ e.planLen) ∧
      (s.sent = List.range s.next ∨ s.sent = List.range (s.next + 1))) :=
  ⟨dispatched_is_prefix _ readAt_foldPath.1 e hw acts s, dispatched_is_prefix _ writeAt_foldPath.1 e hw acts s,
   dispatched_is_prefix _ readFrom_foldPath.1 e hw acts s, dispatched_is_prefix _ writeTo_chainPath.1 e hw acts s⟩

theorem finish_waits_for_all_generated (e : Env) (hw : 1 ≤ e.workers) (acts : List Action) (s : State) :
    (FinishedRun G.dispReadAt e acts s →
      s.prodDone = true ∧ s.inflight = [] ∧ s.reporting = [] ∧ s.completed.Perm s.handed) ∧
    (FinishedRun G.dispWriteAt e acts s →
      s.prodDone = true ∧ s.inflight = [] ∧ s.reporting = [] ∧ s.completed.Perm s.handed) ∧
    (FinishedRun G.dispReadFrom e acts s →
      s.prodDone = true ∧ s.inflight = [] ∧ s.reporting = [] ∧ s.completed.Perm s.handed) ∧
    (FinishedRun G.dispWriteTo e acts s →
      s.prodDone = true ∧ s.inflight = [] ∧ s.reporting = [] ∧ s.completed.Perm s.handed) :=
  ⟨finish_waits_for_all _ readAt_foldPath.1 e hw acts s, finish_waits_for_all _ writeAt_foldPath.1 e hw acts s,
   finish_waits_for_all _ readFrom_foldPath.1 e hw acts s, finish_waits_for_all _ writeTo_chainPath.1 e hw acts s⟩

/-! ## Part 2 — admissibility derived, for the three extracted errCh-fold paths -/

/-- Dispatch.finished_run_admissible for `(*File).readAt` as extracted -/
theorem finished_run_admissible_generated_readAt {α : Type} (ev : α → Option Ev) (P : List α) (w : Nat)
    (hw : 1 ≤ w) (acts : List Action) (s : State) (hr : FinishedRun G.dispReadAt (envOf ev P w) acts s) :
    Admissible ev P (dispatched P s) ∧ (dispatched P s).Perm (arrivedD P s) ∧
    ((dispatched P s).filterMap ev).Perm (arrivedE ev P s) ∧
    (sentOf P s = dispatched P s ∨ ∃ x, sentOf P s = dispatched P s ++ [x]) :=
  finished_run_admissible _ readAt_foldPath ev P w hw acts s hr

/-- Dispatch.finished_run_admissible for `(*File).writeAtConcurrent` as extracted -/
theorem finished_run_admissible_generated_writeAt {α : Type} (ev : α → Option Ev) (P : List α) (w : Nat)
    (hw : 1 ≤ w) (acts : List Action) (s : State) (hr : FinishedRun G.dispWriteAt (envOf ev P w) acts s) :
    Admissible ev P (dispatched P s) ∧ (dispatched P s).Perm (arrivedD P s) ∧
    ((dispatched P s).filterMap ev).Perm (arrivedE ev P s) ∧
    (sentOf P s = dispatched P s ∨ ∃ x, sentOf P s = dispatched P s ++ [x]) :=
  finished_run_admissible _ writeAt_foldPath ev P w hw acts s hr

/-- Dispatch.finished_run_admissible for `(*File).readFromWithConcurrency` as extracted -/
theorem finished_run_admissible_generated_readFrom {α : Type} (ev : α → Option Ev) (P : List α) (w : Nat)
    (hw : 1 ≤ w) (acts : List Action) (s : State) (hr : FinishedRun G.dispReadFrom (envOf ev P w) acts s) :
    Admissible ev P (dispatched P s) ∧ (dispatched P s).Perm (arrivedD P s) ∧
    ((dispatched P s).filterMap ev).Perm (arrivedE ev P s) ∧
    (sentOf P s = dispatched P s ∨ ∃ x, sentOf P s = dispatched P s ++ [x]) :=
  finished_run_admissible _ readFrom_foldPath ev P w hw acts s hr

/-- all three at once (the form asked for: `finished_run_admissible` specialised to the generated cfgs) -/
theorem finished_run_admissible_generated {α : Type} (ev : α → Option Ev) (P : List α) (w : Nat)
    (hw : 1 ≤ w) (acts : List Action) (s : State)
    (hr : FinishedRun G.dispReadAt (envOf ev P w) acts s ∨ FinishedRun G.dispWriteAt (envOf ev P w) acts s ∨
          FinishedRun G.dispReadFrom (envOf ev P w) acts s) :
    Admissible ev P (dispatched P s) ∧ (dispatched P s).Perm (arrivedD P s) ∧
    ((dispatched P s).filterMap ev).Perm (arrivedE ev P s) ∧
    (sentOf P s = dispatched P s ∨ ∃ x, sentOf P s = dispatched P s ++ [x]) :=
  hr.elim (finished_run_admissible _ readAt_foldPath ev P w hw acts s)
    (fun h => h.elim (finished_run_admissible _ writeAt_foldPath ev P w hw acts s)
      (finished_run_admissible _ readFrom_foldPath ev P w hw acts s))

/-- C13.error_is_lowest_failing_offset for every schedule of the extracted plumbing (any of the three fold paths) -/
theorem error_is_lowest_failing_offset_run_generated {α : Type} (ev : α → Option Ev) (P : List α) (w : Nat)
    (hw : 1 ≤ w) (acts : List Action) (s : State)
    (hs : (P.filterMap ev).Pairwise (fun a b => a.1 < b.1))
    (hr : FinishedRun G.dispReadAt (envOf ev P w) acts s ∨ FinishedRun G.dispWriteAt (envOf ev P w) acts s ∨
          FinishedRun G.dispReadFrom (envOf ev P w) acts s) :
    foldEarliest (arrivedE ev P s) = (P.filterMap ev).head? ∧
    ∀ m, foldEarliest (arrivedE ev P s) = some m → m ∈ P.filterMap ev ∧ ∀ x ∈ P.filterMap ev, m.1 ≤ x.1 :=
  hr.elim (error_is_lowest_failing_offset_run _ readAt_foldPath ev P w hw acts s hs)
    (fun h => h.elim (error_is_lowest_failing_offset_run _ writeAt_foldPath ev P w hw acts s hs)
      (error_is_lowest_failing_offset_run _ readFrom_foldPath ev P w hw acts s hs))

/-- concurrent readAt as extracted: the reported error is that of the lowest failing chunk -/
theorem read_error_is_lowest_run_generated (cfg : Cfg) (sv : Served)
    (hmp : 1 ≤ cfg.maxPacket) (htx : cfg.maxPacket ≤ cfg.maxTx) (off len : Nat) (w : Nat) (hw : 1 ≤ w)
    (acts : List Action) (s : State)
    (hr : FinishedRun G.dispReadAt (envOf (rdEvent cfg sv) (planChunks cfg.maxPacket off len) w) acts s) :
    foldEarliest (arrivedE (rdEvent cfg sv) (planChunks cfg.maxPacket off len) s) =
      ((planChunks cfg.maxPacket off len).filterMap (rdEvent cfg sv)).head? :=
  read_error_is_lowest_run _ readAt_foldPath cfg sv hmp htx off len w hw acts s hr

/-- writeAtConcurrent as extracted: the reported error is that of the lowest failing chunk -/
theorem write_error_is_lowest_run_generated (sv : Served) (mp : Nat)
    (hmp : 1 ≤ mp) (off : Nat) (b : Bytes) (w : Nat) (hw : 1 ≤ w) (acts : List Action) (s : State)
    (hr : FinishedRun G.dispWriteAt (envOf (wrEvent sv) (chunkWrites mp off b) w) acts s) :
    foldEarliest (arrivedE (wrEvent sv) (chunkWrites mp off b) s) =
      ((chunkWrites mp off b).filterMap (wrEvent sv)).head? :=
  write_error_is_lowest_run _ writeAt_foldPath sv mp hmp off b w hw acts s hr

/-- readFromWithConcurrency as extracted: the reported error is that of the lowest failing chunk -/
theorem write_error_is_lowest_run_generated_readFrom (sv : Served) (mp : Nat)
    (hmp : 1 ≤ mp) (off : Nat) (b : Bytes) (w : Nat) (hw : 1 ≤ w) (acts : List Action) (s : State)
    (hr : FinishedRun G.dispReadFrom (envOf (wrEvent sv) (chunkWrites mp off b) w) acts s) :
    foldEarliest (arrivedE (wrEvent sv) (chunkWrites mp off b) s) =
      ((chunkWrites mp off b).filterMap (wrEvent sv)).head? :=
  write_error_is_lowest_run _ readFrom_foldPath sv mp hmp off b w hw acts s hr

/-- C13.prefix_intact (concurrent readAt as extracted) for every schedule of the plumbing -/
theorem prefix_intact_read_run_generated (cfg : Cfg) (sv : Served)
    (hmp : 1 ≤ cfg.maxPacket) (htx : cfg.maxPacket ≤ cfg.maxTx) (off len : Nat) (w : Nat) (hw : 1 ≤ w)
    (acts : List Action) (s : State) (buf0 : Bytes) (hbuf : buf0.length = len)
    (hr : FinishedRun G.dispReadAt (envOf (rdEvent cfg sv) (planChunks cfg.maxPacket off len) w) acts s) :
    let P := planChunks cfg.maxPacket off len
    let r := concRead cfg sv off len buf0 (arrivedD P s) (arrivedE (rdEvent cfg sv) P s)
    RdOK sv off len (r.2.2, r.2.1) ∧ r.1 = r.2.2.length :=
  prefix_intact_read_run _ readAt_foldPath cfg sv hmp htx off len w hw acts s buf0 hbuf hr

/-- C01.readAt_spec (concurrent branch as extracted) for every schedule of the plumbing -/
theorem readAt_spec_run_generated (cfg : Cfg) (sv : Served)
    (hmp : 1 ≤ cfg.maxPacket) (htx : cfg.maxPacket ≤ cfg.maxTx) (hnf : ∀ o, sv.rdFail o = none)
    (off len : Nat) (w : Nat) (hw : 1 ≤ w) (acts : List Action) (s : State) (buf0 : Bytes) (hbuf : buf0.length = len)
    (hr : FinishedRun G.dispReadAt (envOf (rdEvent cfg sv) (planChunks cfg.maxPacket off len) w) acts s) :
    let P := planChunks cfg.maxPacket off len
    let r := concRead cfg sv off len buf0 (arrivedD P s) (arrivedE (rdEvent cfg sv) P s)
    C01.ReadSpec sv.data off len (r.2.2, r.2.1) ∧ r.1 = r.2.2.length :=
  readAt_spec_run _ readAt_foldPath cfg sv hmp htx hnf off len w hw acts s buf0 hbuf hr

/-- C13.prefix_intact (writeAtConcurrent as extracted) for every schedule of the plumbing -/
theorem prefix_intact_concWrite_run_generated (sv : Served) (mp : Nat)
    (hmp : 1 ≤ mp) (off : Nat) (b : Bytes) (w : Nat) (hw : 1 ≤ w) (acts : List Action) (s : State)
    (hr : FinishedRun G.dispWriteAt (envOf (wrEvent sv) (chunkWrites mp off b) w) acts s)
    (herr : (concResult off b.length (arrivedE (wrEvent sv) (chunkWrites mp off b) s)).2 ≠ none) :
    ∀ x ∈ chunkWrites mp off b,
      x.off + x.d.length ≤ off + (concResult off b.length (arrivedE (wrEvent sv) (chunkWrites mp off b) s)).1 →
      x ∈ dispatched (chunkWrites mp off b) s ∧ x ∈ sentOf (chunkWrites mp off b) s ∧ sv.wrFail x.off = none :=
  prefix_intact_concWrite_run _ writeAt_foldPath sv mp hmp off b w hw acts s hr herr

/-- C01.writeAt_count (writeAtConcurrent as extracted) for every schedule of the plumbing -/
theorem writeAt_count_run_generated (sv : Served) (f : Bytes) (off : Nat)
    (b : Bytes) (mp : Nat) (hmp : 1 ≤ mp) (hok : ∀ x ∈ chunkWrites mp off b, sv.wrFail x.off = none)
    (w : Nat) (hw : 1 ≤ w) (acts : List Action) (s : State)
    (hr : FinishedRun G.dispWriteAt (envOf (wrEvent sv) (chunkWrites mp off b) w) acts s)
    (applied : List W) (happ : (sentOf (chunkWrites mp off b) s).Perm applied) :
    concWrite sv f off b.length applied (arrivedE (wrEvent sv) (chunkWrites mp off b) s)
      = (writeAt f off b, b.length, none) :=
  writeAt_count_run _ writeAt_foldPath sv f off b mp hmp hok w hw acts s hr applied happ

/-- C13.readFrom_count_is_consumed / C01.readFrom_spec (readFromWithConcurrency as extracted) for every
schedule of the plumbing -/
theorem readFrom_run_generated (cfg : Cfg) (sv : Served) (off : Nat)
    (src : Bytes) (hmp : 1 ≤ cfg.maxPacket) (w : Nat) (hw : 1 ≤ w) (acts : List Action) (s : State)
    (hr : FinishedRun G.dispReadFrom (envOf (wrEvent sv) (chunkWrites cfg.maxPacket off src) w) acts s)
    (applied : List W) (happ : (sentOf (chunkWrites cfg.maxPacket off src) s).Perm applied) :
    let P := chunkWrites cfg.maxPacket off src
    let r := rfConc sv sv.data off applied (arrivedE (wrEvent sv) P s)
    r.2.1 = sumLens (sentOf P s) ∧
    (r.2.2.2 ≠ none → r.2.2.1 = off + intactPrefix sv.wrFail P) ∧
    (r.2.2.2 = none → r.2.2.1 = off + sumLens (sentOf P s)) ∧
    ((∀ x ∈ P, sv.wrFail x.off = none) → r = (writeAt sv.data off src, src.length, off + src.length, none)) :=
  readFrom_run _ readFrom_foldPath cfg sv off src hmp w hw acts s hr applied happ

/-! ## Part 3 — the ordered chain of WriteTo as extracted -/

theorem chain_consumes_in_order_generated (e : Env) (hw : 1 ≤ e.workers)
    (acts : List Action) (s : State) (hr : run G.dispWriteTo e init acts = some s) :
    s.observed = List.range s.observed.length ∧
    (s.redDone = false → ∀ i ∈ s.observed, e.fails i = false) ∧
    (s.finished = true →
      ∃ m, s.observed = List.range (m + 1) ∧ e.fails m = true ∧ (∀ i, i < m → e.fails i = false) ∧
        m < s.next ∧ s.inflight = [] ∧ s.reporting = [] ∧ s.prodDone = true) :=
  chain_consumes_in_order _ writeTo_chainPath e hw acts s hr

/-! ## Part 4 — no deadlock, for the extracted configurations -/

/-- Dispatch.can_always_finish for the three extracted errCh-fold paths -/
theorem can_always_finish_generated (e : Env) (hw : 1 ≤ e.workers) (acts : List Action) (s : State) :
    (run G.dispReadAt e init acts = some s → ∃ more s', run G.dispReadAt e s more = some s' ∧ s'.finished = true) ∧
    (run G.dispWriteAt e init acts = some s → ∃ more s', run G.dispWriteAt e s more = some s' ∧ s'.finished = true) ∧
    (run G.dispReadFrom e init acts = some s → ∃ more s', run G.dispReadFrom e s more = some s' ∧ s'.finished = true) :=
  ⟨can_always_finish _ readAt_foldPath e hw acts s, can_always_finish _ writeAt_foldPath e hw acts s,
   can_always_finish _ readFrom_foldPath e hw acts s⟩

/-- Dispatch.can_always_finish for WriteTo as extracted, provided some chunk ends the transfer -/
theorem chain_can_always_finish_generated (e : Env) (hw : 1 ≤ e.workers) (M : Nat) (hM : e.fails M = true)
    (acts : List Action) (s : State) (hr : run G.dispWriteTo e init acts = some s) :
    ∃ more s', run G.dispWriteTo e s more = some s' ∧ s'.finished = true :=
  chain_can_always_finish _ writeTo_chainPath writeTo_unbounded e hw M hM acts s hr

end Sftp.Dispatch
