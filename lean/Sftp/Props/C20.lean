import Sftp.Proofs.Reply
import Sftp.Generated.ClientReplies
/-
  C20 — No server reply can crash the client.

  Reply programs (`Sftp.Reply.RStep`) are what `extract/replies.go` reads off every reply site of client.go,
  packet.go's `unmarshalStatus`/`unmarshalAttrs`/`unmarshalFileStat`/`unmarshalExtensionPair`, conn.go's `recv`
  and `recvVersion`.  The theorems here are about ALL programs and ALL byte strings; the instantiation with
  the tables extracted today is in `Props/C20Fixed.lean` (expected to fail until the `fix:` commit, F7) and the
  witnesses about today's tables are in `Props/Known/C20.lean`.
-/
namespace Sftp.C20
open Sftp Sftp.Reply

/-- C20.reply_never_panics_from — a program without an unchecked operation beyond the `avail` bytes known to be
present never panics, for every reply body of at least `avail` bytes, every expected id and buffer size. -/
theorem reply_never_panics_from (avail cap id : Nat) (prog : List RStep) (data : Bytes)
    (hs : SafeFrom avail prog) (hlen : avail ≤ data.length) :
    runReplyWith cap id prog data ≠ .panic := by
  obtain ⟨a, ha⟩ := isSome_some hs
  have h := (safeProg_sound cap prog avail a ha { data := data, id := id } hlen).1
  unfold runReplyWith
  cases hr : runProg cap prog { data := data, id := id } with
  | ok s => intro h'; cases h'
  | err e m => intro h'; cases h'
  | panic m => rw [hr] at h; cases h

/-- C20.reply_never_panics — the statement of the design: all programs, all byte strings. -/
theorem reply_never_panics (prog : List RStep) (data : Bytes) (h : AllSafe prog) :
    runReply prog data ≠ .panic :=
  reply_never_panics_from 0 _ _ prog data h.1 (Nat.zero_le _)

/-- C20.handle_never_panics — `handle m typ data` of the design: a function whose reply cases are all safe from
the `avail` bytes its caller guarantees never panics, whatever the reply type and bytes
(`data.length ≥ 4` is what `clientConn.recv` guarantees: `G.recvGuaranteedLen`). -/
theorem handle_never_panics (tbl : List (String × Nat × List RStep)) (env : List (String × List RStep))
    (avail : Nat) (hall : ∀ row ∈ tbl, SafeFrom avail (inline env row.2.2))
    (cap id : Nat) (fn : String) (typ : Nat) (data : Bytes) (hlen : avail ≤ data.length) :
    handle tbl env cap id fn typ data ≠ .panic := by
  unfold handle lookupRow
  cases hf : tbl.find? (fun r => r.1 == fn && r.2.1 == typ) with
  | none => intro h; cases h
  | some r =>
    have hm := List.mem_of_find?_eq_some hf
    exact reply_never_panics_from avail cap id _ data (hall r hm) hlen

/-- C20.reply_alloc_linear — a linear program (paid steps and `peek`s of paid steps: every loop body consumes
input, `make([]T, count)` only behind a count guard) allocates at most `rateProg prog` bytes per byte received;
the constant depends on the program only. -/
theorem reply_alloc_linear_from (cap id : Nat) (prog : List RStep) (data : Bytes) (h : linearProg prog = true) :
    meterWith cap id prog data ≤ rateProg prog * data.length := by
  have := linearProg_sound cap prog h { data := data, id := id }
  simpa [meterWith] using this

theorem reply_alloc_linear (prog : List RStep) (data : Bytes) (h : AllSafe prog) :
    meter prog data ≤ rateProg prog * data.length + 0 :=
  reply_alloc_linear_from _ _ prog data h.2

/-- C20.unsafe_step_panics — each unchecked primitive does panic on a suitable input (the interpreter does not
totalise the failure away). -/
theorem unsafe_step_panics :
    runReply [.u32 false] [0, 0, 1] = .panic ∧
    runReply [.u64 false] [0, 0, 0, 0, 0, 0, 1] = .panic ∧
    runReply [.str false] [0, 0, 0, 5, 97] = .panic ∧
    runReply [.u32 false, .sliceLen false] [0, 0, 0, 2, 7] = .panic ∧
    runReplyWith 4 0 [.u32 false, .sliceBuf false] [0, 0, 0, 5, 1, 2, 3, 4, 5] = .panic ∧
    runReply [.u32 true, .loopCount none 0 [.str false]] [0, 0, 0, 2, 0, 0, 0, 0] = .panic := by decide

/-- and the checked variants return an error on the same inputs -/
theorem safe_step_errs :
    runReply [.u32 true] [0, 0, 1] = .err "short" ∧
    runReply [.u64 true] [0, 0, 0, 0, 0, 0, 1] = .err "short" ∧
    runReply [.str true] [0, 0, 0, 5, 97] = .err "short" ∧
    runReply [.u32 true, .sliceLen true] [0, 0, 0, 2, 7] = .err "short" ∧
    runReplyWith 4 0 [.u32 true, .sliceBuf true] [0, 0, 0, 5, 1, 2, 3, 4, 5] = .err "short" ∧
    runReply [.u32 true, .loopCount none 0 [.str true]] [0, 0, 0, 2, 0, 0, 0, 0] = .err "short" := by decide

/-- C20.unguarded_count_not_linear — why `make([]T, count)` needs its guard: 8 bytes make the meter read
32 * (2^32-1) when the count is not compared with the bytes present. -/
theorem unguarded_count_not_linear :
    meter [.u32 true, .loopCount none 32 [.str true, .str true]] [255, 255, 255, 255] = 32 * 4294967295 ∧
    meter [.u32 true, .loopCount (some 8) 32 [.str true, .str true]] [255, 255, 255, 255] = 0 := by decide

/-! ### instantiation with the extracted tables: the parts that hold today -/

/-- C20.client_replies_alloc_linear — every reply case of every client function extracted today is linear, so
for every reply body the allocation is at most `rateProg` bytes per byte received (38 at most, ReadDirContext). -/
theorem client_replies_linear :
    ∀ row ∈ G.clientReplies ++ G.handshakeReplies, linearProg (inline G.decoderProgs row.2.2) = true := by decide

theorem client_replies_alloc_linear (cap id : Nat) (data : Bytes) :
    ∀ row ∈ G.clientReplies ++ G.handshakeReplies,
      meterWith cap id (inline G.decoderProgs row.2.2) data ≤ 38 * data.length := by
  intro row hrow
  have h := reply_alloc_linear_from cap id _ data (client_replies_linear row hrow)
  have hr : ∀ row ∈ G.clientReplies ++ G.handshakeReplies, rateProg (inline G.decoderProgs row.2.2) ≤ 38 := by decide
  exact Nat.le_trans h (Nat.mul_le_mul_right _ (hr row hrow))

/-- C20.handshake_and_recv_safe — `recvVersion`, `clientConn.recv` and the attribute / extension-pair decoders
use checked primitives only: no reply can make them panic (no length assumption). -/
theorem handshake_and_recv_safe :
    (∀ row ∈ G.handshakeReplies, AllSafe (inline G.decoderProgs row.2.2)) ∧
    AllSafe G.recvProg ∧ G.recvGuaranteedLen = 4 ∧
    AllSafe (inline G.decoderProgs [.attrs]) ∧ AllSafe G.unmarshalExtensionPairProg := by decide

theorem recvVersion_never_panics (cap id typ : Nat) (data : Bytes) :
    handle G.handshakeReplies G.decoderProgs cap id "Client.recvVersion" typ data ≠ .panic :=
  handle_never_panics _ _ 0 (fun row h => (handshake_and_recv_safe.1 row h).1) cap id _ typ data (Nat.zero_le _)

/-- C20.reply_defaults_are_errors — every reply switch has a `default:` that returns an error, and the table
has a row for each of the 26 functions. -/
theorem reply_defaults_are_errors :
    (∀ r ∈ G.replyDefaultIsError, r.2 = true) ∧ G.replyDefaultIsError.length = 26 ∧
    (∀ row ∈ G.clientReplies, (G.replyDefaultIsError.lookup row.1).isSome = true) := by decide

/-- C20.reply_ids_checked — every reply case compares the reply's id with the request's (`sid != id` ⇒ error),
with two exceptions: `writeChunkAt` compares the reply's id with itself (`id, _ := unmarshalUint32(data)`), and the
STATVFS reply's id is not looked at: harmless, because `recv` dispatches by that very id. -/
theorem reply_ids_checked :
    (G.idChecked.filter (fun r => !r.2.2)).map (fun r => (r.1, r.2.1)) =
      [("Client.StatVFS", 201), ("File.writeChunkAt", 101)] := by decide

/-! non-vacuity: the shape the repaired code is expected to have is `AllSafe`, runs, and stays within the bound -/

/-- a NAME reply as ReadDirContext would decode it with checked primitives -/
def exampleFixed : List RStep :=
  inline [("unmarshalAttrs", [.flags true, .call "unmarshalFileStat"]),
          ("unmarshalFileStat", [.ifFlag 1 [.u64 true], .ifFlag 2147483648 [.u32 true, .loopCount (some 8) 32 [.str true, .str true]]])]
    [.u32 true, .checkId, .u32 true, .loopCount none 0 [.str true, .str true, .attrs]]

example : AllSafe exampleFixed := by decide
example : SafeFrom 4 (inline [] [.u32 false, .checkId, .peek [.str true]]) := by decide
example : runReplyWith 0 7 exampleFixed
    ([0,0,0,7, 0,0,0,1, 0,0,0,1,97, 0,0,0,2,97,98, 0,0,0,1, 0,0,0,0,0,0,0,9]) = .ok () := by decide
example : meterWith 0 7 exampleFixed
    ([0,0,0,7, 0,0,0,1, 0,0,0,1,97, 0,0,0,2,97,98, 0,0,0,1, 0,0,0,0,0,0,0,9]) = 4 := by decide
example : rateProg exampleFixed = 38 := by decide

end Sftp.C20
