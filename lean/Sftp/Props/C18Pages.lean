import Sftp.Generated.SrvPages
import Sftp.Props.C18Inst
/-
  Allocator page lifetime (packet-manager.go, packet.go, request.go, server.go, conn.go) — source shapes no other
  extracted fact covers (seeded defects C18_e, C15_c, C15_e, C15_f).  Facts: `Generated/SrvPages.lean` (translator unit
  SrvPages, /verif/extract/srvlifetimes.go part C).

  Pages are released only in maybeSendPackets after sendPacket, every allocator key is an order id, order ids are taken
  by the receive loop itself, and the request decoders that alias the receive page are the ones M-Alloc treats as
  reading the frame page at handler time (C18, C15, C01).  Table theorems by `decide`; docstrings say which assumption
  of Model/Alloc.lean each fact discharges.
-/
namespace Sftp.C18Pages
open Sftp

/-! ## C. allocator page lifetime

Which assumptions of `Sftp/Model/Alloc.lean` (M-Alloc, theorems in Props/C18, instantiated in Props/C18Inst) these
facts discharge:
* the action alphabet has ONE action that returns pages to the free list, `release oid`, enabled only when
  `oid < nextSend` (given `cfg.releaseAfterSend`, regenerated in `G.allocCfg` from the text of maybeSendPackets
  alone).  That NO OTHER place in the package releases pages is `pages_released_only_after_send` (seed C18_e adds a
  second site in workerChan's dispatcher);
* `release oid` frees `pagesOf oid` for the order id of the response just sent: `releaseKeyMatchesSent`
  (seed C15_e releases under `in.id()`);
* `lend` books the frame page under `nextOid`, which `arrive` then gives the request: the receive loops key
  `recvPacket` with `getNextOrderID()` and take the id with `newOrderedRequest` themselves
  (`order_ids_assigned_in_receive_loop`; seed C15_c moves `newOrderID` to the dispatcher goroutine);
* `handlerTake oid` books the data page under the handler's OWN order id: every key handed to `GetPage` through
  `getDataSlice` / `packetData` / `fileget` … / `Request.call` is the `orderID` parameter, fed from `pkt.orderID()`
  (`all_page_keys_order_ids`; seed C15_f passes `pkt.id()`);
* `handlerEcho oid` answers from the frame page as it is WHEN THE HANDLER RUNS: the request kinds that keep a
  sub-slice of the receive page past makePacket are exactly OPEN / SETSTAT / FSETSTAT (`Attrs`) and WRITE (`Data`)
  (`page_aliases_as_modelled`), so their page must stay booked until the handler has answered — which
  "released only after the response was sent" gives (`alias_requests_intact_until_handled`). -/

/-- C18Pages.pages_released_only_after_send — the ONLY call of `ReleasePages` outside allocator.go is in
`packetManager.maybeSendPackets`, in a statement list where a plain `s.sender.sendPacket(…)` statement stands before
it, under `if in.orderID() == out.orderID()` with `out` the packet just sent and `in.orderID()` the key released. -/
theorem pages_released_only_after_send :
    G.releaseOnlyAfterSend = true ∧
    G.releaseSites.map (fun r => (r.1, r.2.2)) = [("packetManager.maybeSendPackets", "afterSendPacket")] ∧
    G.releaseKeyMatchesSent = true ∧
    G.allocCfg.releaseAfterSend = true := by decide

/-- functions of the CLIENT, whose conn never has an allocator (`alloc` is assigned by WithAllocator /
WithRSAllocator on the servers' conn only), so the key `0` they pass to `recvPacket` is never used -/
def clientFns : List String := ["Client.recvVersion", "clientConn.recv"]

def orderIdKey (r : String × String × String) : Bool :=
  r.2.2 == "orderID" || (r.2.2 == "clientZero" && clientFns.contains r.1)

/-- C18Pages.all_page_keys_order_ids — every expression that reaches `GetPage` / `ReleasePages` as a key (directly
or through a parameter of recvPacket, getDataSlice, packetData, fileget / fileput / fileputget, Request.call) is an
order id: `X.orderID()`, `X.getNextOrderID()`, a local defined as one of these, or the key parameter itself (whose
callers are rows of the same table).  Never `pkt.id()` / `p.ID`.  The table covers both receive loops, both READ
paths of the request server, the os-backed server's READ and the release. -/
theorem all_page_keys_order_ids :
    G.allPageKeysAreOrderIds = true ∧
    G.pageKeySites.all orderIdKey = true ∧
    ["recvPacket", "sshFxpReadPacket.getDataSlice", "Server.Serve", "RequestServer.serveLoop", "handlePacket",
     "fileget", "fileputget", "packetData", "Request.call", "RequestServer.packetWorker",
     "packetManager.maybeSendPackets"].all (fun f => G.pageKeySites.any (fun r => r.1 == f)) = true := by decide

/-- C18Pages.order_ids_assigned_in_receive_loop — `newOrderID` is called by `newOrderedRequest` only
(`orderid: s.newOrderID()`), `newOrderedRequest` and `getNextOrderID` by the two receive loops only, in each after the
`recvPacket(getNextOrderID())` of the same iteration; nothing assigns `.orderid` afterwards. -/
theorem order_ids_assigned_in_receive_loop :
    G.orderIdAssignedInReceiveLoop = true ∧ G.allocRecvUsesNextOrderID = true ∧
    G.orderIdSites.all (fun r => ["newOrderID", "newOrderedRequest", "getNextOrderID"].contains r.2) = true ∧
    G.orderIdSites.map (·.1) =
      ["packetManager.newOrderedRequest", "RequestServer.serveLoop", "RequestServer.serveLoop", "Server.Serve",
       "Server.Serve"] := by decide

/-- C18Pages.page_aliases_as_modelled — the request decoders that keep a sub-slice of the receive page. -/
theorem page_aliases_as_modelled :
    G.pageAliases.map (·.1) = ["sshFxpOpenPacket", "sshFxpWritePacket", "sshFxpSetstatPacket", "sshFxpFsetstatPacket"] := by
  decide

open Sftp.Alloc in
/-- C18Pages.alias_requests_intact_until_handled — M-Alloc instantiated with the regenerated configuration: for
every schedule, the frame page of a request whose handler has not answered yet still holds the request's bytes (so
the `Attrs` / `Data` sub-slices of `page_aliases_as_modelled` are what the client sent when the command worker gets to
them).  The model's premise "pages return to the free list only through `release`" is
`pages_released_only_after_send`, its key discipline `all_page_keys_order_ids`. -/
theorem alias_requests_intact_until_handled (acts : List Action) (s : State)
    (h : run G.allocCfg State.init acts = some s) (oid : Nat) (hrecv : oid < s.g.nextOid)
    (hun : s.g.gout oid = none) : s.heap (s.page oid) = s.g.gin oid :=
  (C18.request_intact_until_handled G.allocCfg C18.current_good acts s h oid hrecv hun).1

open Sftp.Alloc in
/-- non-vacuity: SETSTAT(oid 0) waits for the command worker while two more frames arrive and the first of them is
answered and sent; its page still holds its own bytes. -/
example : (run G.allocCfg State.init
      [.lend, .arrive [1], .lend, .arrive [2], .lend, .arrive [3]]).map
    (fun s => (s.heap (s.page 0), decide (0 < s.g.nextOid), s.g.gout 0)) = some ([1], true, none) := by decide

end Sftp.C18Pages
