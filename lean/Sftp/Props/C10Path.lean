import Sftp.Proofs.Path
/-
  C10 (path part): every path handed to a request-server handler went through
  `cleanPathWithBase(startDirectory, ·)` with `startDirectory = cleanPath(configured)`.
  For ALL byte strings the result is absolute and lexically clean (`AbsClean`), hence
  joining it under any clean root stays, component-wise, under that root.
-/
namespace Sftp.C10
open Sftp Sftp.Path

/-- `b! "lit"`: the UTF-8 bytes of a string literal as an explicit `Bytes` list (examples only). -/
local macro "b!" s:str : term => do
  let elems := s.getString.toUTF8.toList.toArray.map fun x => Lean.Syntax.mkNumLit (toString x.toNat)
  `(([$elems,*] : Bytes))

/-! ### AbsClean is what it says -/

/-- `AbsClean s` (a decidable check on the bytes) holds exactly when `s` is "/" followed by
    components that are non-empty, slash-free, not "." and not "..", separated by single slashes. -/
theorem absClean_iff (s : Bytes) :
    AbsClean s ↔ ∃ segs : List Bytes, (∀ c ∈ segs, Normal c) ∧ s = slash :: join segs :=
  Path.absClean_iff

/-- Equivalently (and this is the oracle the Go harness uses): `s` is rooted and a fixed point of Clean. -/
theorem absClean_iff_clean_fix (s : Bytes) : AbsClean s ↔ (isAbs s = true ∧ clean s = s) :=
  ⟨fun h => ⟨h.isAbs, clean_of_absClean h⟩, fun ⟨h1, h2⟩ => h2 ▸ clean_absClean_of_abs h1⟩

example : AbsClean (b! "/") ∧ AbsClean (b! "/a/..b/c.") ∧ AbsClean [47, 0xff, 47, 0x80] := by decide
example : ¬ AbsClean (b! "") ∧ ¬ AbsClean (b! "a") ∧ ¬ AbsClean (b! "/a/") ∧ ¬ AbsClean (b! "//a") ∧
    ¬ AbsClean (b! "/a/../b") ∧ ¬ AbsClean (b! "/./a") ∧ ¬ AbsClean (b! "/..") := by decide

/-! ### the cleaned path is always absolute and clean -/

/-- For every byte string `p` and every base that merely starts with '/', `cleanPathWithBase(base, p)`
    is absolute and lexically clean. -/
theorem withBase_absClean_of_abs (base p : Bytes) (hb : isAbs base = true) :
    AbsClean (withBase base p) := by
  unfold withBase
  simp only
  split
  · rename_i h
    cases hp : isAbs p with
    | true => exact clean_absClean_of_abs hp
    | false => rw [clean_rel_not_abs hp] at h; cases h
  · have hne : base ≠ [] := by intro e; subst e; simp [isAbs] at hb
    unfold join2
    rw [if_neg hne, if_neg (clean_ne_nil p)]
    apply clean_absClean_of_abs
    obtain ⟨t, rfl⟩ := isAbs_iff.mp hb
    rfl

theorem withBase_absClean (base p : Bytes) (hb : AbsClean base) : AbsClean (withBase base p) :=
  withBase_absClean_of_abs base p hb.isAbs

example : AbsClean (b! "/home/u") := by decide
example : withBase (b! "/home/u") (b! "../../../etc/passwd") = b! "/etc/passwd" := by decide
example : withBase (b! "/home/u") (b! "a/../../b/") = b! "/home/b" := by decide
example : withBase (b! "/home/u") (b! "") = b! "/home/u" := by decide
example : withBase (b! "/home/u") (b! "//x/.//y/") = b! "/x/y" := by decide
example : withBase (b! "/home/u") [0xff, 47, 46, 46, 47, 0x80] = b! "/home/u/" ++ [0x80] := by decide

/-- The stored start directory `cleanPath(startDirectory)` is AbsClean whatever was configured. -/
theorem cleanPath_absClean (p : Bytes) : AbsClean (cleanPath p) :=
  withBase_absClean_of_abs [slash] p rfl

example : cleanPath (b! "") = b! "/" ∧ cleanPath (b! "..") = b! "/" ∧ cleanPath (b! "srv//sftp/") = b! "/srv/sftp" := by
  decide

/-! ### joining under a root cannot escape it -/

/-- Lexical confinement.  Let `q` be a handler path and `root` a directory, both AbsClean.  Then
    `path.Join(root, q)` is just `under root q` (the concatenation, a lone "/" contributing nothing),
    it is AbsClean, and its component list is the components of `root` followed by the components of
    `q`, none of which is ".." (or "." or empty).
    Why this is "cannot escape": `path.Join` cleans `root + "/" + q`, and Clean removes a component of
    `root` only when a ".." pops it.  `components (join2 root q) = components root ++ components q`
    says no component of `root` was popped, i.e. the result names `root` itself or something
    lexically below it, and no ".." is left for later resolution to climb with. -/
theorem confined (root q : Bytes) (hr : AbsClean root) (hq : AbsClean q) :
    join2 root q = under root q ∧
    AbsClean (under root q) ∧
    components (under root q) = components root ++ components q ∧
    (∀ c ∈ components (under root q), c ≠ [dot, dot] ∧ c ≠ [dot] ∧ c ≠ []) := by
  obtain ⟨rs, hrs, rfl⟩ := Path.absClean_iff.mp hr
  obtain ⟨qs, hqs, rfl⟩ := Path.absClean_iff.mp hq
  have hall : ∀ s ∈ rs ++ qs, Normal s := by
    intro s hs
    rcases List.mem_append.mp hs with hs | hs
    · exact hrs s hs
    · exact hqs s hs
  have hunder : under (ofSegs rs) (ofSegs qs) = ofSegs (rs ++ qs) := by
    unfold under
    cases qs with
    | nil => simp [ofSegs, join]
    | cons x xs =>
      have hx : (x :: xs) ≠ [] := by simp
      have h1 : ofSegs (x :: xs) ≠ [slash] := by
        intro e
        simp only [ofSegs, List.cons.injEq, true_and] at e
        exact hx (join_eq_nil (fun s hs => (hqs s hs).1) e)
      rw [if_neg h1]
      cases rs with
      | nil => simp [ofSegs, join]
      | cons y ys =>
        have h2 : ofSegs (y :: ys) ≠ [slash] := by
          intro e
          simp only [ofSegs, List.cons.injEq, true_and] at e
          have := join_eq_nil (fun s hs => (hrs s hs).1) e
          simp at this
        rw [if_neg h2]
        have := join_append (a := y :: ys) (b := x :: xs) (by simp) hx
        simp only [ofSegs, List.cons_append] at this ⊢
        rw [this]
  have hjoin : join2 (ofSegs rs) (ofSegs qs) = ofSegs (rs ++ qs) := by
    unfold join2
    rw [if_neg (by simp [ofSegs]), if_neg (by simp [ofSegs])]
    rw [clean_abs (by simp [ofSegs, isAbs]), components_append,
      components_ofSegs (fun s hs => (hrs s hs).seg), components_ofSegs (fun s hs => (hqs s hs).seg),
      foldl_push_normals true _ hall]
    simp
  rw [hunder, hjoin]
  refine ⟨rfl, absClean_ofSegs hall, ?_, ?_⟩
  · rw [components_ofSegs (fun s hs => (hall s hs).seg),
      components_ofSegs (fun s hs => (hrs s hs).seg), components_ofSegs (fun s hs => (hqs s hs).seg)]
  · rw [components_ofSegs (fun s hs => (hall s hs).seg)]
    intro c hc
    exact ⟨(hall c hc).2.2.1, (hall c hc).2.1, (hall c hc).1⟩

/-- Byte-level form of the same fact: the joined path is `root` itself or `root` followed by a
    '/'-initial suffix, so `root` is a prefix that ends at a component boundary. -/
theorem confined_prefix (root q : Bytes) (hq : AbsClean q) (hroot : root ≠ [slash]) :
    ∃ t, under root q = root ++ t ∧ (t = [] ∨ isAbs t = true) := by
  unfold under
  split
  · exact ⟨[], by simp, .inl rfl⟩
  · exact ⟨q, rfl, .inr hq.isAbs⟩

example : (b! "/srv/jail") ≠ [slash] ∧ under (b! "/srv/jail") (b! "/etc/passwd") = b! "/srv/jail" ++ b! "/etc/passwd" := by
  decide

example : AbsClean (b! "/srv/jail") ∧ AbsClean (withBase (b! "/") (b! "../../etc/passwd")) := by decide
example : join2 (b! "/srv/jail") (withBase (b! "/") (b! "../../etc/passwd")) = b! "/srv/jail/etc/passwd" := by
  decide
example : components (b! "/srv/jail/etc/passwd") = [b! "srv", b! "jail", b! "etc", b! "passwd"] := by decide
-- the hypothesis matters: an uncleaned path does escape
example : join2 (b! "/srv/jail") (b! "/../../etc/passwd") = b! "/etc/passwd" := by decide

/-! ### algebra of cleanPathWithBase -/

/-- Go documents `Clean(Clean(p)) == Clean(p)`. -/
theorem clean_idempotent (p : Bytes) : clean (clean p) = clean p := clean_idem p

example : clean (b! "../.././a/b/../c//") = b! "../../a/c" := by decide

theorem withBase_of_abs (base p : Bytes) (hp : isAbs p = true) : withBase base p = clean p := by
  unfold withBase
  simp only
  rw [if_pos (clean_absClean_of_abs hp).isAbs]

example : withBase (b! "/home/u") (b! "/x/../y") = b! "/y" := by decide

/-- For a relative (or empty) `p` the result is `path.Join(base, Clean(p))`, … -/
theorem withBase_of_rel (base p : Bytes) (hp : isAbs p = false) :
    withBase base p = join2 base (clean p) := by
  unfold withBase
  simp only
  rw [clean_rel_not_abs hp]; rfl

example : isAbs (b! "x/../../y") = false ∧ withBase (b! "/home/u") (b! "x/../../y") = b! "/home/y" := by decide
example : isAbs (b! "") = false ∧ withBase (b! "/home/u") (b! "") = b! "/home/u" := by decide

/-- … which for a rooted base is `Clean(base + "/" + p)`: the intermediate Clean is invisible. -/
theorem withBase_of_rel_eq (base p : Bytes) (hb : isAbs base = true) (hp : isAbs p = false) :
    withBase base p = clean (base ++ slash :: p) := by
  have hne : base ≠ [] := by intro e; subst e; simp [isAbs] at hb
  obtain ⟨t, rfl⟩ := isAbs_iff.mp hb
  rw [withBase_of_rel _ _ hp, join2, if_neg hne, if_neg (clean_ne_nil p)]
  rw [clean_abs (p := slash :: t ++ slash :: clean p) rfl, clean_abs (p := slash :: t ++ slash :: p) rfl,
    components_append, components_append, List.foldl_append, List.foldl_append,
    foldl_push_true_clean_rel hp]

example : withBase (b! "/home/u") (b! "x/../../y") = clean (b! "/home/u/x/../../y") := by decide

theorem withBase_idempotent (base p : Bytes) (hb : AbsClean base) :
    withBase base (withBase base p) = withBase base p := by
  have h := withBase_absClean base p hb
  rw [withBase_of_abs _ _ h.isAbs, clean_of_absClean h]

example : withBase (b! "/home/u") (withBase (b! "/home/u") (b! "../x//")) = b! "/home/x" := by decide

/-- AbsClean paths are exactly the fixed points: the handler path is stable under re-cleaning. -/
theorem withBase_fix (base q : Bytes) (hq : AbsClean q) : withBase base q = q := by
  rw [withBase_of_abs _ _ hq.isAbs, clean_of_absClean hq]

example : AbsClean (b! "/home/x") ∧ withBase (b! "/anything") (b! "/home/x") = b! "/home/x" := by decide

end Sftp.C10
