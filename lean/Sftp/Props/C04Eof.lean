import Sftp.Generated.EofFacts
/-
  C04 (a transport failure is never a silently truncated success), the part that lives in client.go's
  multi-request loops.

  ReadDirContext, writeToSequential and the reduce loop of WriteTo keep issuing requests until the server
  answers SSH_FX_EOF.  normaliseError turns that status into the bare `io.EOF` VALUE, and the loops end --
  returning nil and what was collected so far -- when the error they hold IS that value (`err == io.EOF`).
  A transport write failure travels the same variables, but packet.go's sendPacket wraps the writer's error
  with %w (conn.sendPacket, dispatchRequest and clientConn.sendPacket hand it on unchanged).  A writer failing
  with io.EOF therefore arrives as a WRAPPED io.EOF: identity rejects it and the call returns the error;
  `errors.Is(err, io.EOF)` would accept it and the call would return a truncated listing / file with nil.

  The facts are regenerated from client.go / conn.go / packet.go / sftp.go on every run (Generated/EofFacts.lean,
  translator unit /verif/extract/eoffacts.go): every comparison of an error with io.EOF, how it is made, what a
  true comparison does, and where the tested value can come from.
-/
namespace Sftp.C04Eof
open Sftp

/-! ## why identity matters: a three-constructor model of Go error values -/

/-- An error value as far as io.EOF is concerned: the io.EOF value itself, an error wrapping another one
(fmt.Errorf("…%w", e)), or anything else. -/
inductive Err where
  | bare : Err
  | wrapped : Err → Err
  | other : Err
  deriving DecidableEq, Repr

/-- `e == io.EOF` -/
def isId (e : Err) : Bool := e == .bare

/-- `errors.Is(e, io.EOF)`: looks through every layer of wrapping -/
def errorsIs : Err → Bool
  | .bare => true
  | .wrapped e => errorsIs e
  | .other => false

/-- What sendPacket makes of a writer that fails with io.EOF: `fmt.Errorf("failed to send packet: %w", err)`. -/
def transportEof : Err := .wrapped .bare

/-- Everything identity recognises, errors.Is recognises too. -/
theorem isId_imp_errorsIs : ∀ e : Err, isId e = true → errorsIs e = true := by
  intro e h
  have : e = .bare := by simpa [isId] using h
  subst this
  rfl

/-- errors.Is accepts strictly more: the wrapped transport EOF is accepted by errors.Is and is not io.EOF. -/
theorem errorsIs_strictly_weaker : ∃ e : Err, errorsIs e = true ∧ isId e = false :=
  ⟨transportEof, by decide, by decide⟩

/-- Exactly the wrapped EOFs make the difference: errors.Is accepts `e` and identity does not iff `e` is a
(non-empty) tower of wrappings around io.EOF. -/
theorem differ_iff_wrapped_eof (e : Err) :
    (errorsIs e = true ∧ isId e = false) ↔ ∃ e', e = .wrapped e' ∧ errorsIs e' = true := by
  cases e with
  | bare => simp [errorsIs, isId]
  | wrapped e' => simp [errorsIs, isId]
  | other => simp [errorsIs, isId]

/-- A loop that ends on `stop e` and otherwise fails with `e`: `none` = success (nil error), `some e` = the error
the caller sees. -/
def loopResult (stop : Err → Bool) (e : Err) : Option Err := if stop e then none else some e

/-- With identity every error that is not the protocol's end marker is returned to the caller -- in particular
the transport failure.  With errors.Is the transport failure is reported as success. -/
theorem identity_reports_transport_failure :
    (∀ e, e ≠ .bare → loopResult isId e = some e) ∧
    loopResult isId transportEof = some transportEof ∧
    loopResult errorsIs transportEof = none := by
  refine ⟨?_, by decide, by decide⟩
  intro e h
  have : isId e = false := by
    cases e <;> simp_all [isId]
  simp [loopResult, this]

/-! ## the code as it is now -/

/-- Every loop-ending test on a value that can come from a request round trip compares by identity, and the
value normaliseError makes of SSH_FX_EOF is the bare io.EOF (so identity does recognise the protocol's end). -/
theorem protocol_eof_recognised_by_identity :
    G.eofLoopEndsByIdentity = true ∧ G.normaliseEofIsBare = true := by decide

/-- The same, recomputed from the table: every row with a round-trip origin whose true branch is not a plain
pass-through of the error (role "loop-end", or an unrecognised "other") has how = "identity". -/
theorem loop_end_rows_use_identity :
    (G.eofRoundTripTests.all fun r => r.2.2 == "passthrough" || r.2.1 == "identity") = true := by decide

/-- … in particular the rows with role "loop-end". -/
theorem loop_end_rows_use_identity' :
    ((G.eofRoundTripTests.filter fun r => r.2.2 == "loop-end").all fun r => r.2.1 == "identity") = true := by
  decide

/-- The round-trip rows are rows of the full table, the site table is parallel to it, and a row is a round-trip
row exactly when its origin is not a local reader / writer. -/
theorem tables_consistent :
    (G.eofRoundTripTests.all fun r => G.eofTests.contains r) = true ∧
    G.eofTestSites.length = G.eofTests.length ∧
    ((G.eofTests.zip G.eofTestSites).all fun p => p.1.1 == p.2.1) = true ∧
    ((G.eofTests.zip G.eofTestSites).filter fun p => p.2.2.2 != "reader").map (·.1) = G.eofRoundTripTests := by
  decide

/-- No comparison was left unclassified. -/
theorem no_unrecognised_test :
    (G.eofTests.all fun r => r.2.1 != "other" && r.2.2 != "other") = true ∧
    (G.eofTestSites.all fun r => r.2.2 != "unknown") = true := by decide

/-- The reason identity matters is present in the code: the writer's error reaches the calling operation
wrapped with %w (sendPacket) or unchanged (conn.sendPacket, dispatchRequest, clientConn.sendPacket), so a writer
failing with io.EOF arrives as `transportEof`. -/
theorem transport_failure_may_look_like_eof : G.transportErrorsWrapped = true := by decide

/-- Non-vacuity: the table is not empty, and the three multi-request loops are in it. -/
theorem eofTests_nonempty : G.eofTests.length ≥ 3 := by decide

theorem loops_covered :
    (["Client.ReadDirContext", "File.writeToSequential", "File.WriteTo"].all fun f =>
      G.eofRoundTripTests.contains (f, "identity", "loop-end")) = true := by decide

-- non-vacuity of the abstract lemma: the witness is the value the transport path produces
example : errorsIs transportEof = true ∧ isId transportEof = false ∧ isId .bare = true := by decide
example : loopResult isId .bare = none := by decide

end Sftp.C04Eof
