import Sftp.Model.IdLookup
import Sftp.Generated.IdLookup
/-
  C17, last clause — "the human-readable long name in listings agrees with the structured attributes": the owner and
  group COLUMNS are the names of the UID and the GID of the same entry, each resolved in its own number space (source
  shape of seeded defect C17_j: `osIDLookup.LookupUserName` / `LookupGroupName` memoised both in ONE package-level
  sync.Map keyed by the numeric string, so gid 4 was answered `sync` once uid 4 had been seen.  The differential harness
  caught it, no extracted fact covered it).

  Facts: `Generated/IdLookup.lean` (translator unit IdLookup, /verif/extract/round5.go): the bodies of the two methods
  (one recognised shape: `r, err := user.F(id); if err != nil { return id }; return r.Field`), the os/user function and
  result field of each, every call and every package-level variable they mention, the fields of the receiver type.
-/
namespace Sftp.C17IdLookup
open Sftp Sftp.IdLookup

/-- the configuration in the tree -/
def cfg : Option Cfg := cfgOf G.idLookupSources G.idLookupsIndependent

/-- C17IdLookup.id_lookup_bodies_as_spec — ls_formatting.go: LookupUserName is user.LookupId(id) → .Username,
LookupGroupName is user.LookupGroupId(id) → .Name, a failed lookup answers the id itself; neither body contains another
call or mentions a package-level variable, and `osIDLookup` has no fields: nothing is shared between the two. -/
theorem id_lookup_bodies_as_spec :
    G.idLookupBodies =
      [("LookupUserName", "r, err := user.LookupId(id); if err != nil { return id }; return r.Username"),
       ("LookupGroupName", "r, err := user.LookupGroupId(id); if err != nil { return id }; return r.Name")] ∧
    G.idLookupSources = [("LookupUserName", "LookupId", "Username"), ("LookupGroupName", "LookupGroupId", "Name")] ∧
    G.idLookupCallees = [("LookupUserName", ["os/user.LookupId"]), ("LookupGroupName", ["os/user.LookupGroupId"])] ∧
    G.idLookupPkgVars = [("LookupUserName", []), ("LookupGroupName", [])] ∧
    G.idLookupRecvFields = [] ∧ G.idLookupsIndependent = true := by
  decide

/-- C17IdLookup.lookups_independent — with the configuration read off the tree, for EVERY account database and EVERY
history of lookups (any number of listings, uids and gids in any order, numbers shared between the two spaces or not),
each owner column is the name of that uid among the users and each group column the name of that gid among the groups
(the number itself where the database has no entry) — what came before never matters. -/
theorem lookups_independent :
    ∃ c, cfg = some c ∧
      ∀ (db : Db) (hist : List (Kind × Nat)), run c db [] hist = hist.map (fun q => db.name q.1 q.2) := by
  refine ⟨⟨.user, .group, .none⟩, by decide, ?_⟩
  intro db hist
  exact run_own _ db rfl rfl (by decide) hist [] (consistent_nil db)

/-- the same holds for a memo per method (a correct way to write the optimisation of the seed) -/
theorem per_kind_memo_is_transparent (db : Db) (hist : List (Kind × Nat)) :
    run ⟨.user, .group, .perKind⟩ db [] hist = hist.map (fun q => db.name q.1 q.2) :=
  run_own _ db rfl rfl (by decide) hist [] (consistent_nil db)

/-- a stock Debian: uid 4 = sync, gid 4 = adm; uid 65534 = nobody, gid 65534 = nogroup -/
def debian : Db :=
  { user := fun n => if n = 0 then some "root" else if n = 4 then some "sync" else if n = 65534 then some "nobody" else none
    group := fun n => if n = 0 then some "root" else if n = 4 then some "adm" else if n = 65534 then some "nogroup" else none }

/-- non-vacuity: one entry owned by sync:adm, one by nobody:nogroup, one by an id without a name -/
example : run ⟨.user, .group, .none⟩ debian [] [(.user, 4), (.group, 4), (.user, 65534), (.group, 65534), (.group, 7)]
    = ["sync", "adm", "nobody", "nogroup", "7"] := by decide

/-! ### the seeded shape (hand-written parameter, so this part builds on every tree) -/

/-- C17IdLookup.seed_shared_cache_conflates_uid_and_gid — seed C17_j (one map keyed by the number for both methods): a
file owned by sync:adm is listed `sync sync`, nobody:nogroup as `nobody nobody`; met in the other order the USER column
is wrong instead; root:root and ids without a namesake in the other space (all the suite lists) stay right. -/
theorem seed_shared_cache_conflates_uid_and_gid :
    run ⟨.user, .group, .shared⟩ debian [] [(.user, 4), (.group, 4)] = ["sync", "sync"] ∧
    run ⟨.user, .group, .shared⟩ debian [] [(.user, 65534), (.group, 65534)] = ["nobody", "nobody"] ∧
    run ⟨.user, .group, .shared⟩ debian [] [(.group, 4), (.user, 4)] = ["adm", "adm"] ∧
    run ⟨.user, .group, .shared⟩ debian [] [(.user, 0), (.group, 0), (.group, 7)] = ["root", "root", "7"] ∧
    [(Kind.user, 4), (Kind.group, 4)].map (fun q => debian.name q.1 q.2) = ["sync", "adm"] := by
  decide

/-- a method resolving through the other method's function (neighbour of the seed) is wrong without any history -/
theorem swapped_source_is_wrong :
    run ⟨.group, .group, .none⟩ debian [] [(.user, 4)] = ["adm"] ∧ debian.name .user 4 = "sync" := by decide

end Sftp.C17IdLookup
