import Sftp.Props.C03
import Sftp.Generated.ClientConnCfg
/-
  C03 for the code as it is now: the theorems of Props/C03.lean instantiated with the facts the
  translator read off conn.go / client.go (Generated/ClientConnCfg.lean).
-/
namespace Sftp.C03
open Sftp Sftp.ClientConn

/-- every source fact the C03 theorems use holds of the regenerated configuration, and the shapes the
model hard-codes are those of the source -/
theorem cfg_ok_current :
    G.clientConnCfg.idAtomic = true ∧ G.clientConnCfg.getChannelDeletes = true ∧
    G.clientConnCfg.broadcastReplacesChan = true ∧ G.clientConnCfg.sendUnderLock = true ∧
    G.clientConnShapes = true := by decide

theorem routing_current (n : Nat) (acts : List Action) (s : State) (h : Reach G.clientConnCfg n acts s)
    (c sid sid' : Nat) (p : Bytes) (hd : s.pc c = .done sid (.reply sid' p)) :
    sid' = sid ∧ Action.envReply sid p ∈ acts :=
  routing _ n acts s cfg_ok_current.2.1 cfg_ok_current.2.2.1 h c sid sid' p hd

theorem ids_distinct_current (n : Nat) (acts : List Action) (s : State) (h : Reach G.clientConnCfg n acts s)
    (hlt : s.nextid < idMod) (c c' sid : Nat)
    (hc : (s.pc c).sid? = some sid) (hc' : (s.pc c').sid? = some sid) : c = c' :=
  ids_distinct _ n acts s cfg_ok_current.1 h hlt c c' sid hc hc'

theorem wire_wellFramed_current (n : Nat) (acts : List Action) (s : State) (h : Reach G.clientConnCfg n acts s) :
    wellFramed s.wire = true :=
  wire_wellFramed _ n acts s cfg_ok_current.2.2.2.1 h

end Sftp.C03
