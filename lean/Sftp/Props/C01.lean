import Sftp.Proofs.Transfer.ConcRead
import Sftp.Proofs.Transfer.Step
/-
  C01 — bytes transferred are exactly the file's bytes.
  Property theorems only (helper lemmas live in Sftp/Proofs/Transfer).
-/
namespace Sftp.C01
open Sftp Sftp.Transfer

/-- What it means for a chunk list to tile the request `[off, off+len)` with packets of `mp` bytes. -/
structure Tiles (mp off len : Nat) (P : List (Nat × Nat)) : Prop where
  /-- number of packets = ⌈len / mp⌉ -/
  count : P.length = (len + mp - 1) / mp
  /-- closed form of the k-th packet -/
  nth : ∀ k (h : k < P.length), P[k] = (off + k * mp, min mp (len - k * mp))
  /-- every packet carries between 1 and mp bytes -/
  len_pos : ∀ k (h : k < P.length), 1 ≤ P[k].2
  len_le : ∀ k (h : k < P.length), P[k].2 ≤ mp
  /-- all packets but the last are full -/
  full : ∀ k (h : k + 1 < P.length), P[k].2 = mp
  /-- contiguous: starts at `off`, each packet starts where its predecessor ends, the last ends at `off+len` -/
  first : ∀ (h : 0 < P.length), P[0].1 = off
  contig : ∀ k (h : k + 1 < P.length), P[k + 1].1 = P[k].1 + P[k].2
  last : ∀ k (h : k < P.length), k + 1 = P.length → P[k].1 + P[k].2 = off + len
  /-- the lengths add up to the request -/
  sum : (P.map Prod.snd).sum = len
  /-- ranges are pairwise disjoint and in increasing order -/
  disjoint : P.Pairwise (fun a b => a.1 + a.2 ≤ b.1)

/-- C01.plan_tiles — the off-by-one theorem: for EVERY request length (in particular k·mp−1, k·mp,
k·mp+1) and every packet size ≥ 1 the slice loop tiles the request exactly. -/
theorem plan_tiles (mp off len : Nat) (hmp : 1 ≤ mp) : Tiles mp off len (planChunks mp off len) := by
  have hnth := plan_nth mp hmp off len
  have hidx := plan_index_lt mp hmp off len
  have hcnt := plan_count mp hmp off len
  refine
    { count := hcnt, nth := hnth, len_pos := ?_, len_le := ?_, full := ?_, first := ?_, contig := ?_,
      last := ?_, sum := plan_sum mp hmp off len, disjoint := plan_sorted mp hmp off len }
  · intro k h; rw [hnth k h]; have := hidx k h; simp only; omega
  · intro k h; rw [hnth k h]; simp only; omega
  · intro k h; rw [hnth k (by omega)]
    have := hidx (k + 1) h
    rw [Nat.succ_mul] at this
    simp only; omega
  · intro h; rw [hnth 0 h]; simp
  · intro k h; rw [hnth k (by omega), hnth (k + 1) h]
    have := hidx (k + 1) h
    rw [Nat.succ_mul] at this
    simp only [Nat.succ_mul]; omega
  · intro k h hk; rw [hnth k h]
    have h1 := hidx k h
    have h2 : len + mp - 1 < (k + 1 + 1) * mp := by
      have : (len + mp - 1) / mp < k + 1 + 1 := by omega
      exact (Nat.div_lt_iff_lt_mul (by omega)).mp this
    rw [Nat.succ_mul, Nat.succ_mul] at h2
    simp only; omega

/-- non-vacuity: the three lengths around a multiple of the packet size -/
example : planChunks 4 10 7 = [(10, 4), (14, 3)] ∧ planChunks 4 10 8 = [(10, 4), (14, 4)] ∧
    planChunks 4 10 9 = [(10, 4), (14, 4), (18, 1)] ∧ planChunks 4 10 0 = [] := by decide

/-- The intended content of the served file after a write of `b` at `off`: byte-wise. -/
structure Written (f : Bytes) (off : Nat) (b : Bytes) (g : Bytes) : Prop where
  inside : ∀ i, off ≤ i → i < off + b.length → byteAt g i = byteAt b (i - off)
  outside : ∀ i, ¬ (off ≤ i ∧ i < off + b.length) → byteAt g i = byteAt f i
  length : g.length = if b = [] then f.length else max f.length (off + b.length)

theorem written_writeAt (f : Bytes) (off : Nat) (b : Bytes) : Written f off b (writeAt f off b) where
  inside := fun i h1 h2 => by rw [byteAt_writeAt, if_pos ⟨h1, h2⟩]
  outside := fun i h => by rw [byteAt_writeAt, if_neg h]
  length := length_writeAt' f off b

/-- C01.writeAt_any_order — in whatever order `ws` the WRITE packets of a chunked write reach the
file, the file afterwards has `b[i-off]` at every `i ∈ [off, off+|b|)`, the old byte (0 beyond the
old end) elsewhere, and length `max |f| (off+|b|)`; it is the single server-side write. -/
theorem writeAt_any_order (f : Bytes) (off : Nat) (b : Bytes) (mp : Nat) (hmp : 1 ≤ mp)
    (ws : List W) (hperm : (chunkWrites mp off b).Perm ws) :
    Written f off b (applyAll f ws) ∧ applyAll f ws = writeAt f off b := by
  have h := applyAll_chunkWrites_perm mp hmp f off b ws hperm
  rw [h]; exact ⟨written_writeAt f off b, rfl⟩

/-- … and when no chunk fails both write disciplines report `(|b|, nil)`: sequential loop, and the
concurrent reduce for every dispatched set `sent` (a permutation of the plan — nothing is cancelled
without an error event) and every arrival order `arrE` of the (empty) error events. -/
theorem writeAt_count (sv : Served) (f : Bytes) (off : Nat) (b : Bytes) (mp : Nat) (hmp : 1 ≤ mp)
    (hok : ∀ w ∈ chunkWrites mp off b, sv.wrFail w.off = none)
    (sent : List W) (hsent : (chunkWrites mp off b).Perm sent)
    (arrE : List Ev) (harr : ((chunkWrites mp off b).filterMap (wrEvent sv)).Perm arrE) :
    seqWrite sv f (chunkWrites mp off b) = (writeAt f off b, b.length, none) ∧
    concWrite sv f off b.length sent arrE = (writeAt f off b, b.length, none) := by
  constructor
  · obtain ⟨h1, h2, h3⟩ := seqWrite_spec sv (chunkWrites mp off b) f
    have hall : ∀ w ∈ chunkWrites mp off b, wOk sv w = true := fun w hw => by simp [wOk, hok w hw]
    rw [takeWhile_all _ _ hall, applyAll_chunkWrites mp hmp] at h1
    rw [intactPrefix_all _ _ hok, sumLens_chunkWrites mp hmp] at h2
    rw [wrEvents_nil sv _ hok] at h3
    exact Prod.ext h1 (Prod.ext h2 h3)
  · rw [wrEvents_nil sv _ hok] at harr
    have := harr.nil_eq; subst this
    have hfilter : sent.filter (fun w => (sv.wrFail w.off).isNone) = sent := by
      apply List.filter_eq_self.mpr
      intro w hw; simp [hok w (hsent.mem_iff.mpr hw)]
    unfold concWrite concResult
    rw [hfilter, applyAll_chunkWrites_perm mp hmp f off b sent hsent]
    rfl

/-- non-vacuity: 9 bytes in packets of 4 at offset 2 of a 3-byte file, replies in reverse order -/
example : (chunkWrites 4 2 [1,2,3,4,5,6,7,8,9]).Perm (chunkWrites 4 2 [1,2,3,4,5,6,7,8,9]).reverse ∧
    applyAll [7,7,7] (chunkWrites 4 2 [1,2,3,4,5,6,7,8,9]).reverse = [7,7,1,2,3,4,5,6,7,8,9] :=
  ⟨(List.reverse_perm _).symm, by decide⟩

/-- What a read of `len` bytes at `off` must return on a file `f`: `r = (b[:n], err)`. -/
structure ReadSpec (f : Bytes) (off len : Nat) (r : Bytes × Option Err) : Prop where
  /-- the bytes are exactly the file's bytes `f[off, off+n)` -/
  bytes : r.1 = (f.drop off).take r.1.length
  /-- `n = min len (|f| − off)` (0 past the end) -/
  count : r.1.length = min len (f.length - off)
  /-- nil error ⇔ the whole request was transferred -/
  nil_iff : r.2 = none ↔ r.1.length = len
  /-- otherwise the error is io.EOF -/
  eof : r.2 = none ∨ r.2 = some .eof

theorem ReadSpec.of_rdOK {sv : Served} {off len : Nat} {r : Bytes × Option Err}
    (h : RdOK sv off len r) (hnf : ∀ o, sv.rdFail o = none) : ReadSpec sv.data off len r := by
  have hlf := h.len_le_file
  have hle := h.le
  rcases h.cls with hc | ⟨hc, hl⟩ | ⟨k, _, hk⟩
  · have := h.full hc
    exact { bytes := h.pref, count := by omega, nil_iff := ⟨fun _ => this, fun _ => hc⟩, eof := Or.inl hc }
  · have := h.short (by rw [hc]; simp)
    exact { bytes := h.pref, count := by omega,
            nil_iff := ⟨(fun h' => by rw [hc] at h'; cases h'), (fun h' => by omega)⟩, eof := Or.inr hc }
  · rw [hnf] at hk; cases hk

/-- C01.readAt_spec — with no injected failure, every read discipline returns exactly the file's
bytes: (a) `readChunkAt` (with its re-request loop, for ANY server payload limit ≥ 1) and the
sequential chunk loop; (b) the concurrent slice/map/reduce for every admissible dispatched set `D`,
every order `arrD` in which workers fill the buffer and every arrival order `arrE` of the error
events — provided the packet size does not exceed the server's maximum payload. -/
theorem readAt_spec (cfg : Cfg) (sv : Served) (off len : Nat)
    (hmp : 1 ≤ cfg.maxPacket) (htx1 : 1 ≤ cfg.maxTx) (hnf : ∀ o, sv.rdFail o = none) :
    ReadSpec sv.data off len (readChunkAt cfg sv len off len) ∧
    ReadSpec sv.data off len (seqRead cfg sv (planChunks cfg.maxPacket off len)) ∧
    (cfg.maxPacket ≤ cfg.maxTx →
      ∀ (D arrD : List (Nat × Nat)) (arrE : List Ev) (buf0 : Bytes),
        Admissible (rdEvent cfg sv) (planChunks cfg.maxPacket off len) D → D.Perm arrD →
        (D.filterMap (rdEvent cfg sv)).Perm arrE → buf0.length = len →
        ReadSpec sv.data off len ((concRead cfg sv off len buf0 arrD arrE).2.2,
                                  (concRead cfg sv off len buf0 arrD arrE).2.1) ∧
        (concRead cfg sv off len buf0 arrD arrE).1 = (concRead cfg sv off len buf0 arrD arrE).2.2.length) := by
  refine ⟨ReadSpec.of_rdOK (readChunkAt_ok cfg sv htx1 len off len (Nat.le_refl _)) hnf,
    ReadSpec.of_rdOK (seqRead_ok cfg sv htx1 _ hmp off len) hnf, ?_⟩
  intro htx D arrD arrE buf0 hadm hp hE hbuf
  obtain ⟨h1, h2⟩ := concRead_ok (goodPlan cfg sv hmp htx off len) hadm hp arrE hE buf0 hbuf
  exact ⟨ReadSpec.of_rdOK h1 hnf, h2⟩

/-- The read outcome of the method itself (`File.readAt`, whichever branch the options select). -/
theorem readAtM_ok (cfg : Cfg) (sv : Served) (off len : Nat)
    (hmp : 1 ≤ cfg.maxPacket) (htx : cfg.maxPacket ≤ cfg.maxTx) :
    RdOK sv off len ((readAtM cfg sv off len).data, (readAtM cfg sv off len).err) ∧
    (readAtM cfg sv off len).n = (readAtM cfg sv off len).data.length := by
  unfold readAtM
  split
  · exact ⟨readChunkAt_ok cfg sv (by omega) len off len (Nat.le_refl _), rfl⟩
  · split
    · exact ⟨seqRead_ok cfg sv (by omega) _ hmp off len, rfl⟩
    · exact concRead_ok (goodPlan cfg sv hmp htx off len) (admissible_full _ _) (List.Perm.refl _) _
        (List.Perm.refl _) _ (List.length_replicate ..)

/-- ReadAt / Read as a method: exactly the file's bytes, for every option combination. -/
theorem readAtM_spec (cfg : Cfg) (sv : Served) (off len : Nat)
    (hmp : 1 ≤ cfg.maxPacket) (htx : cfg.maxPacket ≤ cfg.maxTx) (hnf : ∀ o, sv.rdFail o = none) :
    ReadSpec sv.data off len ((readAtM cfg sv off len).data, (readAtM cfg sv off len).err) ∧
    (readAtM cfg sv off len).n = (readAtM cfg sv off len).data.length :=
  ⟨ReadSpec.of_rdOK (readAtM_ok cfg sv off len hmp htx).1 hnf, (readAtM_ok cfg sv off len hmp htx).2⟩

/-- non-vacuity: 10-byte file, packets of 4, read 9 bytes at 3 concurrently → 7 bytes and io.EOF;
the replies arrive in reverse order. -/
example :
    let cfg : Cfg := { Cfg.current with maxPacket := 4, maxTx := 4 }
    let sv : Served := { data := pat 0 10 }
    let P := planChunks 4 3 9
    concRead cfg sv 3 9 (List.replicate 9 0) P.reverse (P.filterMap (rdEvent cfg sv)).reverse
      = (7, some .eof, pat 3 7) := by decide

/-- C01.writeTo_spec — with no failing READ, WriteTo (sequential loop, or the ordered cur/next
chain, whichever the options and the file size select) hands the writer all bytes from the current
offset to the end of the file, in order, exactly once; the count is `|f| − offset`, the error nil.
Arrival order of the chunk replies is irrelevant by construction: packet j is received on its own
channel `cur_j` (see `chainLoop`).
FINAL OFFSET: `offset + count` for the sequential loop and for the chain with
`writeToMovesOnEmpty = false`; with today's value `true` the chain leaves
`f.offset = offset + ⌈count/maxPacket⌉·maxPacket` (the offset of the EOF packet), e.g. 12 for a
10-byte file and packets of 4 — see Known/C12.writeTo_offset_witness. -/
theorem writeTo_spec (cfg : Cfg) (sv : Served) (off : Nat) (hmp : 1 ≤ cfg.maxPacket)
    (htx : cfg.maxPacket ≤ cfg.maxTx) (hst : sv.statFail = none) (hnf : ∀ o, sv.rdFail o = none) :
    (writeToM cfg sv off).1.data = sv.data.drop off ∧
    (writeToM cfg sv off).1.n = sv.data.length - off ∧
    (writeToM cfg sv off).1.err = none ∧
    (cfg.writeToMovesOnEmpty = false → (writeToM cfg sv off).2 = off + (sv.data.length - off)) := by
  obtain ⟨h, hn⟩ := writeToM_ok cfg sv off hmp htx hst
  have herr : (writeToM cfg sv off).1.err = none := by
    cases he : (writeToM cfg sv off).1.err with
    | none => rfl
    | some e =>
      obtain ⟨k, o, _, _, hk⟩ := h.cls e he
      rw [hnf] at hk; cases hk
  have hfull := h.full herr
  have hlen := take_drop_length_le _ _ h.pref
  simp only at hfull hlen
  have hdata : (writeToM cfg sv off).1.data = sv.data.drop off := by
    have hp := h.pref
    simp only at hp
    rw [hp]
    apply List.take_of_length_le
    rw [List.length_drop]; omega
  have hcount : (writeToM cfg sv off).1.n = sv.data.length - off := by
    rw [hn, hdata, List.length_drop]
  refine ⟨hdata, hcount, herr, fun hw => ?_⟩
  rw [writeToM_offset cfg sv off hmp htx hw, hcount]

/-- C01.readFrom_spec — with no failing WRITE, for every source length: the sequential loop and
the concurrent discipline under every schedule (`sent` any order of the packets, no error events)
leave the served file = `writeAt f offset src`, return count `|src|` with nil error and advance
the offset by `|src|`; as a method the outcome does not depend on the concurrency chosen. -/
theorem readFrom_spec (cfg : Cfg) (sv : Served) (off : Nat) (src : Bytes) (hmp : 1 ≤ cfg.maxPacket)
    (hok : ∀ w ∈ chunkWrites cfg.maxPacket off src, sv.wrFail w.off = none) :
    rfSeq cfg sv sv.data (chunkWrites cfg.maxPacket off src)
      = (writeAt sv.data off src, src.length, src.length, none) ∧
    (∀ sent, (chunkWrites cfg.maxPacket off src).Perm sent →
      rfConc sv sv.data off sent [] = (writeAt sv.data off src, src.length, off + src.length, none)) ∧
    (∀ conc, readFromM cfg sv off src conc
      = ({ n := src.length, err := none }, writeAt sv.data off src, off + src.length)) := by
  have hseq : rfSeq cfg sv sv.data (chunkWrites cfg.maxPacket off src)
      = (writeAt sv.data off src, src.length, src.length, none) := by
    rw [rfSeq_nofail (chunkWrites_chunked _ hmp off src) hok, applyAll_chunkWrites _ hmp,
      sumLens_chunkWrites _ hmp]
  have hconc : ∀ sent, (chunkWrites cfg.maxPacket off src).Perm sent →
      rfConc sv sv.data off sent [] = (writeAt sv.data off src, src.length, off + src.length, none) := by
    intro sent hp
    have hfilter : sent.filter (fun w => (sv.wrFail w.off).isNone) = sent := by
      apply List.filter_eq_self.mpr
      intro w hw; simp [hok w (hp.mem_iff.mpr hw)]
    have hsum : sumLens sent = src.length := by
      rw [← sumLens_chunkWrites cfg.maxPacket hmp off src]
      unfold sumLens
      exact ((hp.map _).sum_nat).symm
    unfold rfConc
    rw [hfilter, applyAll_chunkWrites_perm _ hmp _ off src sent hp, hsum]
    rfl
  refine ⟨hseq, hconc, ?_⟩
  intro conc
  unfold readFromM
  cases conc with
  | true =>
    simp only [if_true]
    rw [wrEvents_nil sv _ hok, hconc _ (List.Perm.refl _)]
  | false =>
    simp only [Bool.false_eq_true, if_false]
    rw [hseq]

/-- non-vacuity: 9 bytes from a reader into an empty file, packets of 4, both disciplines -/
example :
    let cfg : Cfg := { Cfg.current with maxPacket := 4, maxTx := 4 }
    (readFromM cfg { data := [] } 0 (pat 1 9) true).2.1 = pat 1 9 ∧
    (readFromM cfg { data := [] } 0 (pat 1 9) false).2.1 = pat 1 9 ∧
    (writeToM cfg { data := pat 0 9 } 2).1.data = pat 2 7 := by decide

end Sftp.C01
