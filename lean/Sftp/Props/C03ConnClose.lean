import Sftp.Model.ConnClose
import Sftp.Generated.ConnCloseShape
/-
  C03 / C04 — each packet reaches the wire as one contiguous, well-framed unit, also when the connection is being closed
  (source shape of seeded defect C03_l: conn.go `(*conn).Close` no longer took conn's mutex, so `Client.Close` — or the
  receive loop's deferred Close — from another goroutine could close the pipe between the header Write and the payload
  Write of a two-part packet: the header announcing 1027 bytes is on the wire, the payload never follows).

  Facts: `Generated/ConnCloseShape.lean` (translator unit ConnCloseShape, /verif/extract/round6.go): the bodies of
  (*conn).Close and (*conn).sendPacket; the mutex OBJECT (go/types field path) of the leading `Lock(); defer Unlock()`
  pair of each and the call made while it is held; the Write calls of packet.go sendPacket with their conditions; every
  function of the package that calls Close on conn's WriteCloser.  (Which mutex guards the in-flight table, and what else
  runs under conn's: unit ConnLocks, Props/C03Locks.)
-/
namespace Sftp.C03ConnClose
open Sftp Sftp.ConnClose

/-- is the pipe closed only under the mutex the senders hold across their Writes, according to the tree? -/
def closeLocks : Bool :=
  G.ccCloseLock != "" && G.ccCloseLock == G.ccSendLock && G.ccCloseHeldCall == "WriteCloser.Close" &&
  G.ccSendHeldCall == "sendPacket(c, m)" && G.ccPipeClosers == ["conn.Close"]

/-- C03ConnClose.close_takes_the_senders_mutex — conn.go: Close is `c.Lock(); defer c.Unlock(); return c.WriteCloser.Close()`,
sendPacket is `c.Lock(); defer c.Unlock(); return sendPacket(c, m)`; both pairs select the same mutex object (conn's
embedded Mutex); packet.go sendPacket writes the header and then, for a non-empty payload, the payload — both inside
that one call; conn.Close is the only function of the package that closes conn's WriteCloser. -/
theorem close_takes_the_senders_mutex :
    G.ccCloseBody = ["c.Lock()", "defer c.Unlock()", "return c.WriteCloser.Close()"] ∧
    G.ccSendBody = ["c.Lock()", "defer c.Unlock()", "return sendPacket(c, m)"] ∧
    G.ccCloseLock = "conn.Mutex" ∧ G.ccSendLock = "conn.Mutex" ∧
    G.ccCloseHeldCall = "WriteCloser.Close" ∧ G.ccSendHeldCall = "sendPacket(c, m)" ∧
    G.ccSendWrites = [("", "w.Write(header)"), ("len(payload) > 0", "w.Write(payload)")] ∧
    G.ccPipeClosers = ["conn.Close"] ∧ closeLocks = true := by
  decide

/-- C03ConnClose.no_close_between_header_and_payload — Close as the tree has it, ANY number of senders and closers, EVERY
interleaving of their steps: what has reached the pipe is a sequence of whole packets and closes, followed at most by
the header of the one packet whose sender is between its two Writes (and then holds the mutex, so no Close can come
before its payload); whenever no sender is in that position the wire consists of whole packets only. -/
theorem no_close_between_header_and_payload (acts : List Act) (s : St)
    (hr : run closeLocks St.init acts = some s) :
    wellFramed s.wire = true ∧ ((∀ i, s.holder ≠ some (.sender i .headerOut)) → good s.wire = true) := by
  have h : closeLocks = true := by decide
  rw [h] at hr
  exact locked_close_never_tears acts s hr

/-- non-vacuity: sender 1 writes a two-part packet, a closer gets the mutex only after it, then sender 2's Write fails;
and while sender 1 is between its Writes neither another sender nor a closer can get in -/
example : run closeLocks St.init
      [.sAcquire 1, .sWrite 1, .sWrite 1, .sReturn 1, .cAcquire, .cStep, .cStep, .sAcquire 2, .sWrite 2]
      = some ⟨none, true, [.close, .pay 1, .hdr 1]⟩ ∧
    run closeLocks St.init [.sAcquire 1, .sWrite 1, .cAcquire] = none ∧
    run closeLocks St.init [.sAcquire 1, .sWrite 1, .cBare] = none ∧
    run closeLocks St.init [.sAcquire 1, .sWrite 1, .sAcquire 2] = none := by decide

/-! ### the seeded shape (hand-written parameter, so this part builds on every tree) -/

/-- C03ConnClose.seed_unlocked_close_tears_a_packet — seed C03_l (Close without the mutex): the schedule "sender takes the
mutex, writes its header, Close, sender tries its payload" is possible; the wire then ends in a header followed by the
close — the packet is torn, its payload Write fails and never reaches the peer. -/
theorem seed_unlocked_close_tears_a_packet :
    run false St.init [.sAcquire 1, .sWrite 1, .cBare, .sWrite 1] = some ⟨none, true, [.close, .hdr 1]⟩ ∧
    wellFramed [.close, .hdr 1] = false ∧
    (∃ acts s, run false St.init acts = some s ∧ wellFramed s.wire = false) ∧
    run false St.init [.sAcquire 1, .sWrite 1, .sWrite 1, .sReturn 1, .cBare] = some ⟨none, true, [.close, .pay 1, .hdr 1]⟩ := by
  refine ⟨by decide, by decide, ⟨[.sAcquire 1, .sWrite 1, .cBare], ⟨some (.sender 1 .headerOut), true, [.close, .hdr 1]⟩,
    by decide, by decide⟩, by decide⟩

end Sftp.C03ConnClose
