import Sftp.Generated.AttrConv
import Sftp.Proofs.AttrConv
/-
  C17 — the VALUES of the numeric attributes: "size, mode, modification time (to the second) and owner reported
  for a served file equal what the file system reports; a set-attributes request changes exactly the attributes
  whose flags it carries" — to the values it carries.

  The conversions are the integer-conversion chains regenerated from attrs.go (FileStat.ModTime / AccessTime,
  fileInfo.Size / ModTime, fileStatFromInfo), server.go (the argument lists of the os calls of SETSTAT / FSETSTAT)
  and client.go (Chtimes / Chown / Truncate) in Generated/AttrConv.lean, interpreted by Model/AttrConv.lean
  (a Go integer conversion wraps into the target type's range).  Every theorem is a decidable shape fact about the
  regenerated table (closed by `decide`) plus the arithmetic lemma "a conversion keeps every value of its type".
-/
namespace Sftp.C17
open Sftp

/-- Wire seconds are UNSIGNED 32-bit, without special values: for every wire value, FileStat.ModTime and
FileStat.AccessTime return the instant `t` seconds (0 ns) after the epoch, read from Mtime resp. Atime. -/
theorem time_roundtrip (t : Nat) (ht : t < 2 ^ 32) :
    G.modTime.decode t = some (wireTimeToUnix t, 0) ∧ G.accessTime.decode t = some (wireTimeToUnix t, 0) :=
  ⟨TimeDecode.decode_of_unsigned _ "Mtime" (by decide) t ht, TimeDecode.decode_of_unsigned _ "Atime" (by decide) t ht⟩

/-- which field each of the two reads -/
theorem time_fields : G.modTime.sec.src = "Mtime" ∧ G.accessTime.sec.src = "Atime" := by decide

/-- What the client reports for a decoded attribute block: Size() is the wire size for every size an int64 holds,
ModTime() is FileStat.ModTime (so `time_roundtrip` applies). -/
theorem client_reports_wire_values :
    (∀ n : Nat, n < 2 ^ 63 → G.clientSize.eval n = some (n : Int)) ∧ G.clientSize.src = "Size" ∧
    G.clientModTimeVia = "FileStat.ModTime" := by
  refine ⟨fun n hn => ?_, by decide, by decide⟩
  exact ConvFact.eval_id _ 0 9223372036854775808 (by decide) n (by omega) (by omega)

/-- the entry of fileStatFromInfo's FileStat literal for a field -/
def statField (k : String) : ConvFact := (G.statFields.lookup k).getD ⟨"", [], false⟩

/-- What a server puts on the wire for an os.FileInfo: Size is fi.Size() for every non-negative size, Mtime (and
Atime) are fi.ModTime().Unix() — whole seconds — for every instant the wire can carry. -/
theorem server_reports_fs_values :
    (∀ n : Nat, n < 2 ^ 63 → (statField "Size").eval n = some (n : Int)) ∧ (statField "Size").src = "fi.Size()" ∧
    (∀ t : Nat, t < 2 ^ 32 → (statField "Mtime").eval t = some (t : Int)) ∧ (statField "Mtime").src = "fi.ModTime().Unix()" ∧
    (∀ t : Nat, t < 2 ^ 32 → (statField "Atime").eval t = some (t : Int)) ∧ (statField "Atime").src = "fi.ModTime().Unix()" := by
  refine ⟨fun n hn => ?_, by decide, fun t ht => ?_, by decide, fun t ht => ?_, by decide⟩
  · exact ConvFact.eval_id _ 0 9223372036854775808 (by decide) n (by omega) (by omega)
  · exact ConvFact.eval_id _ 0 4294967296 (by decide) t (by omega) (by omega)
  · exact ConvFact.eval_id _ 0 4294967296 (by decide) t (by omega) (by omega)

/-- (flag, call, operands) of each step -/
def stepShape (steps : List (Nat × String × List ConvFact)) : List (Nat × String × List String) :=
  steps.map (fun s => (s.1, s.2.1, s.2.2.map (·.src)))

/-- SETSTAT applies the VALUES the request carries: each flag guards the call for its attribute, the call receives
the request's own size / owner / access time / modification time (atime first, mtime second), for every flags
word and all values in range. -/
theorem setstat_applies_values :
    stepShape G.setstatArgs = [(1, "os.Truncate", ["Size"]), (4, "os.Chmod", ["FileMode()"]),
      (2, "os.Chown", ["UID", "GID"]), (8, "os.Chtimes", ["AccessTime()", "ModTime()"])] ∧
    ∀ (flags : Nat) (w : WireAttrs), InRange w →
      appliedCalls G.setstatArgs G.accessTime G.modTime flags w =
        (G.setstatArgs.filter (fun s => flags &&& s.1 != 0)).map
          (fun s => (s.2.1, some (s.2.2.map (fun a => specVal w a.src)))) :=
  ⟨by decide, fun flags w hw => appliedCalls_spec _ _ _ (by decide) flags w hw⟩

/-- FSETSTAT likewise (f.Chtimes when the file has it, else os.Chtimes: both with the same arguments). -/
theorem fsetstat_applies_values :
    stepShape G.fsetstatArgs = [(1, "f.Truncate", ["Size"]), (4, "f.Chmod", ["FileMode()"]),
      (2, "f.Chown", ["UID", "GID"]), (8, "f.Chtimes", ["AccessTime()", "ModTime()"]),
      (8, "os.Chtimes", ["AccessTime()", "ModTime()"])] ∧
    ∀ (flags : Nat) (w : WireAttrs), InRange w →
      appliedCalls G.fsetstatArgs G.accessTime G.modTime flags w =
        (G.fsetstatArgs.filter (fun s => flags &&& s.1 != 0)).map
          (fun s => (s.2.1, some (s.2.2.map (fun a => specVal w a.src)))) :=
  ⟨by decide, fun flags w hw => appliedCalls_spec _ _ _ (by decide) flags w hw⟩

/-- In particular: a SETSTAT carrying the times flag calls os.Chtimes with exactly the instants the wire values
denote — atime and mtime independently. -/
theorem setstat_chtimes (flags : Nat) (hf : (flags &&& 8 != 0) = true) (w : WireAttrs) (hw : InRange w) :
    ("os.Chtimes", some [ArgVal.time (wireTimeToUnix w.atime) 0, ArgVal.time (wireTimeToUnix w.mtime) 0]) ∈
      appliedCalls G.setstatArgs G.accessTime G.modTime flags w := by
  rw [(setstat_applies_values).2 flags w hw, List.mem_map]
  refine ⟨(8, "os.Chtimes", [⟨"AccessTime()", [], true⟩, ⟨"ModTime()", [], true⟩]), ?_, ?_⟩
  · rw [List.mem_filter]
    exact ⟨by decide, hf⟩
  · rfl

/-- the row of a client setter -/
def setter (api : String) : Nat × List (String × ConvFact) := (G.clientSetters.lookup api).getD (0, [])

/-- (flag, [(wire field, parameter)]) of a setter -/
def setterShape (api : String) : Nat × List (String × String) :=
  ((setter api).1, (setter api).2.map (fun kf => (kf.1, kf.2.src)))

/-- What the client's setters put on the wire: the flag of the attribute and the parameter values themselves —
Chtimes: (Atime, Mtime) = (atime.Unix(), mtime.Unix()) in that order for instants in [0, 2^32); Chown: (UID, GID);
Truncate: the size. -/
theorem client_setters_send_values (vals : String → Int) :
    setterShape "Client.Chtimes" = (8, [("Atime", "atime.Unix()"), ("Mtime", "mtime.Unix()")]) ∧
    setterShape "Client.Chown" = (2, [("UID", "uid"), ("GID", "gid")]) ∧
    setterShape "File.Chown" = (2, [("UID", "uid"), ("GID", "gid")]) ∧
    setterShape "Client.Truncate" = (1, [("", "size")]) ∧ setterShape "File.Truncate" = (1, [("", "size")]) ∧
    ((∀ s, 0 ≤ vals s ∧ vals s < 4294967296) → ∀ api ∈ ["Client.Chtimes", "Client.Chown", "File.Chown"],
      fieldsEval (setter api).2 vals = some ((setter api).2.map (fun kf => (kf.1, vals kf.2.src)))) ∧
    ((∀ s, 0 ≤ vals s ∧ vals s < 9223372036854775808) → ∀ api ∈ ["Client.Truncate", "File.Truncate"],
      fieldsEval (setter api).2 vals = some ((setter api).2.map (fun kf => (kf.1, vals kf.2.src)))) := by
  refine ⟨by decide, by decide, by decide, by decide, by decide, fun hv api hapi => ?_, fun hv api hapi => ?_⟩
  · have hk : fieldsKeep (setter api).2 4294967296 = true := by
      simp only [List.mem_cons, List.not_mem_nil, or_false] at hapi
      rcases hapi with h | h | h <;> subst h <;> decide
    exact fieldsEval_spec _ _ hk vals (fun kf _ => hv kf.2.src)
  · have hk : fieldsKeep (setter api).2 9223372036854775808 = true := by
      simp only [List.mem_cons, List.not_mem_nil, or_false] at hapi
      rcases hapi with h | h <;> subst h <;> decide
    exact fieldsEval_spec _ _ hk vals (fun kf _ => hv kf.2.src)

/-! Non-vacuity: the boundary instants and sizes -/
example : G.modTime.decode 2147483648 = some (2147483648, 0) := by decide          -- 2038-01-19 03:14:08 UTC
example : G.accessTime.decode 4294967295 = some (4294967295, 0) := by decide       -- 2106-02-07 06:28:15 UTC
example : G.modTime.decode 0 = some (0, 0) := by decide                            -- the epoch is an instant, not "unset"
example : InRange ⟨9223372036854775807, 4294967295, 0, 2147483648, 4294967295⟩ := ⟨by decide, by decide, by decide, by decide, by decide⟩
example : appliedCalls G.setstatArgs G.accessTime G.modTime 9 ⟨4294967297, 0, 0, 2147483648, 0⟩ =
    [("os.Truncate", some [.int 4294967297]), ("os.Chtimes", some [.time 2147483648 0, .time 0 0])] := by decide
-- a signed widening would NOT have the property (what the theorem excludes)
example : (TimeDecode.mk ⟨"Mtime", [.i32, .i64], true⟩ 0 true).decode 2147483648 = some (-2147483648, 0) := by decide

end Sftp.C17
