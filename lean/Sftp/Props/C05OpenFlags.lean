import Sftp.Model.OpenFlags
import Sftp.Generated.OpenFlags
import Sftp.Generated.Gate
/-
  C05 (and the flag columns of C09 / C10) — the translation of open flags.

  "A client operation through the os-backed server has the same effect as the corresponding local os call":
  for OpenFile / Create / Open the effect is decided by the flag word that reaches os.OpenFile on the server.
  The theorems below interpret the tables regenerated from client.go (toPflags and its callers), server.go
  ((*sshFxpOpenPacket).respond), request-attrs.go (newFileOpenFlags) and request.go (Request.open), and
  Generated/Gate's truth table of (*sshFxpOpenPacket).readonly().

  Quantification: every theorem is over ALL flag words (`Nat`).  The rules only test bits 0..10 (os side) / 0..5
  (wire side) — `orAll_local` etc. — so each statement reduces to a complete finite table (2048 / 64 words),
  which is evaluated by the kernel (`decide +kernel`; no native code) and lifted by `allBelow_spec`.
-/
namespace Sftp.C05OpenFlags
open Sftp Sftp.OpenFlags

/-- pflags the client puts on the wire for os flag word `f` (regenerated toPflags table) -/
def pflagsOf (f : Nat) : Nat := toPflags G.clientToPflagsN f
/-- flag word the os-backed server gives to os.OpenFile for wire word `pf`; none = refused -/
def serverWord (pf : Nat) : Option Nat := serverOsFlags G.serverAccessN G.serverBitsN pf
/-- client word → server word -/
def via (f : Nat) : Option Nat := viaServer G.clientToPflagsN G.serverAccessN G.serverBitsN f
/-- what a handler sees -/
def handlerSees (pf : Nat) : List (String × Bool) := handlerView G.handlerFlagFieldsN pf
/-- the gate's verdict on an OPEN with wire word `pf` (Generated/Gate: readonly() for pflags 0..63; the gate model
    indexes it with `pflags % 64`, Model/Gate.readonlyMethod) -/
def gateReadonly (pf : Nat) : Option Bool := G.openReadonlyTable[pf % 64]?

/-! ### the constants are the ones assumed -/

/-- the go/types values (linux/amd64) of every os.O_* name the source uses are the hand-written ones of
    Model/OpenFlags, and the six SSH_FXF_* constants have the draft's bit values -/
theorem flag_values_as_assumed :
    G.openOsFlagValues = osFlagValues ∧
    G.openPflagValues.map (·.2) = [FXF_READ, FXF_WRITE, FXF_APPEND, FXF_CREAT, FXF_TRUNC, FXF_EXCL] := by
  decide

/-- the word travels unchanged between the tables: Client.open puts its pflags argument into the packet,
    respond hands its word to openfile = os.OpenFile, Request.Pflags() decodes Request.Flags -/
theorem flags_travel_verbatim :
    G.clientSendsPflagsVerbatim = true ∧ G.serverPassesFlagsVerbatim = true ∧ G.requestPflagsFromFlags = true := by
  decide

/-- who calls toPflags, and with what: Create = os.Create's word, Open = os.Open's word, OpenFile = the caller's -/
theorem client_open_calls :
    G.clientOpenCallsN =
      [("Create", some (O_RDWR ||| O_CREATE ||| O_TRUNC)), ("Open", some O_RDONLY), ("OpenFile", none)] := by
  decide

/-! ### locality facts of the regenerated tables (discharged on the tables as they are now) -/

theorem client_masks : masksWithin (2 ^ 11 - 1) G.clientToPflagsN = true := by decide
theorem server_masks :
    masksWithin (2 ^ 6 - 1) G.serverAccessN = true ∧ masksWithin (2 ^ 6 - 1) G.serverBitsN = true := by decide
theorem handler_masks : (G.handlerFlagFieldsN.all fun fm => (2 ^ 6 - 1) &&& fm.2 == fm.2) = true := by decide

theorem pflagsOf_local (f : Nat) : pflagsOf (f &&& (2 ^ 11 - 1)) = pflagsOf f :=
  orAll_local client_masks f

theorem serverWord_local (pf : Nat) : serverWord (pf &&& (2 ^ 6 - 1)) = serverWord pf :=
  serverOsFlags_local server_masks.1 server_masks.2 pf

theorem mod64 (pf : Nat) : pf % 64 = pf &&& (2 ^ 6 - 1) := (Nat.and_two_pow_sub_one_eq_mod pf 6).symm

/-! ### 0. the wire word -/

theorem pflags_table : allBelow (fun g => pflagsOf g == specPflags g) (2 ^ 11) = true := by decide +kernel

/-- **client_pflags_as_draft** — for EVERY os flag word the wire word has exactly the draft's bits: READ/WRITE from
    the access mode, APPEND/CREAT/TRUNC/EXCL from the like-named os flags, nothing else -/
theorem client_pflags_as_draft (f : Nat) : pflagsOf f = specPflags f := by
  have hs : specPflags (f &&& (2 ^ 11 - 1)) = specPflags f := by
    unfold specPflags
    simp only [Nat.and_assoc,
      show (2 ^ 11 - 1) &&& O_ACCMODE = O_ACCMODE by decide, show (2 ^ 11 - 1) &&& O_APPEND = O_APPEND by decide,
      show (2 ^ 11 - 1) &&& O_CREATE = O_CREATE by decide, show (2 ^ 11 - 1) &&& O_TRUNC = O_TRUNC by decide,
      show (2 ^ 11 - 1) &&& O_EXCL = O_EXCL by decide]
  have := allBelow_spec _ _ pflags_table (f &&& (2 ^ 11 - 1)) (and_mask_lt f 11)
  rw [← pflagsOf_local, ← hs]
  exact eq_of_beq this

example : pflagsOf (O_WRONLY ||| O_CREATE ||| O_EXCL) = 0x2a := by decide

/-! ### 1. round trip -/

theorem roundtrip_table :
    allBelow (fun g => decide (via g = specServerWord g)) (2 ^ 11) = true := by decide +kernel

/-- **open_flags_roundtrip** — for EVERY os flag word `f` the client may pass to OpenFile, the word the server
    passes to os.OpenFile is `f` with O_APPEND removed (documented: the client sends the offsets) and the bits SFTP
    cannot express removed (documented: "Unsupported flags are ignored"); nothing else changes.  The impossible
    access mode 3 is refused (EINVAL) instead of reaching the kernel. -/
theorem open_flags_roundtrip (f : Nat) : via f = specServerWord f := by
  have hv : via (f &&& (2 ^ 11 - 1)) = via f := by
    unfold via viaServer toPflags
    rw [orAll_local client_masks f]
  have hs : specServerWord (f &&& (2 ^ 11 - 1)) = specServerWord f := by
    unfold specServerWord
    rw [Nat.and_assoc, Nat.and_assoc,
      show (2 ^ 11 - 1) &&& O_ACCMODE = O_ACCMODE by decide, show (2 ^ 11 - 1) &&& handedOn = handedOn by decide]
  have := allBelow_spec _ _ roundtrip_table (f &&& (2 ^ 11 - 1)) (and_mask_lt f 11)
  rw [← hv, ← hs]
  exact of_decide_eq_true this

/-- the same on the 64 relevant words {access mode} × subsets of {O_CREATE, O_EXCL, O_TRUNC, O_APPEND}, in the
    words of the task: server flags = client flags with O_APPEND removed, nothing else changed -/
theorem open_flags_roundtrip_relevant :
    relevantWords.length = 64 ∧
    ∀ f ∈ relevantWords,
      (f &&& O_ACCMODE ≠ O_ACCMODE → via f = some (f ^^^ (f &&& O_APPEND))) ∧
      (f &&& O_ACCMODE = O_ACCMODE → via f = none) := by
  decide +kernel

/-- exactly one SSH_FXF_* constant is never tested by respond, and it is APPEND (row ("…Append", "") of
    serverFromPflags); the chain's final else refuses with EINVAL -/
theorem append_is_the_only_ignored_flag :
    G.serverIgnoredPflags.map (fun n => G.openPflagValues.lookup n) = [some FXF_APPEND] ∧
    G.serverAccessElse = "syscall.EINVAL" ∧
    (G.serverFromPflags.filter (·.2 == "")).map (·.1) = G.serverIgnoredPflags := by
  decide

/-- non-vacuity: O_WRONLY|O_CREATE|O_APPEND arrives as O_WRONLY|O_CREATE; O_RDWR|O_CREATE|O_EXCL unchanged -/
example : via (O_WRONLY ||| O_CREATE ||| O_APPEND) = some (O_WRONLY ||| O_CREATE) := by decide
example : via (O_RDWR ||| O_CREATE ||| O_EXCL) = some (O_RDWR ||| O_CREATE ||| O_EXCL) := by decide
example : pflagsOf (O_WRONLY ||| O_CREATE ||| O_APPEND) = FXF_WRITE ||| FXF_CREAT ||| FXF_APPEND := by decide
example : via 3 = none := by decide
example : (O_RDWR ||| O_TRUNC ||| O_APPEND) ∈ relevantWords := by decide

/-! ### 2. Create truncates -/

/-- **create_truncates** — Create()'s flag word reaches os.OpenFile with O_CREATE and O_TRUNC and write access (and
    without O_EXCL): an existing file is truncated, as by os.Create -/
theorem create_truncates :
    ∃ w s, G.clientOpenCallsN.lookup "Create" = some (some w) ∧ via w = some s ∧
      s &&& O_CREATE = O_CREATE ∧ s &&& O_TRUNC = O_TRUNC ∧ s &&& O_EXCL = 0 ∧
      (s &&& O_ACCMODE = O_WRONLY ∨ s &&& O_ACCMODE = O_RDWR) :=
  ⟨578, 578, by decide, by decide, by decide, by decide, by decide, by decide⟩

/-- stronger: the three entry points give the server exactly the word of os.Create / os.Open / the caller's -/
theorem create_open_as_os :
    via (O_RDWR ||| O_CREATE ||| O_TRUNC) = some (O_RDWR ||| O_CREATE ||| O_TRUNC) ∧ via O_RDONLY = some O_RDONLY := by
  decide

/-- non-vacuity: the wire word of Create carries TRUNC (the bit a historical defect dropped together with O_RDWR) -/
example : pflagsOf (O_RDWR ||| O_CREATE ||| O_TRUNC) = FXF_READ ||| FXF_WRITE ||| FXF_CREAT ||| FXF_TRUNC := by decide

/-! ### 3. handlers -/

/-- every field of FileOpenFlags is filled by newFileOpenFlags -/
theorem handler_fields_cover : G.handlerFlagFieldsN.map (·.1) = G.fileOpenFlagsStructFields := by decide

/-- the six fields are the six bits of the wire word, for every wire word -/
theorem handler_sees_wire_flags (pf : Nat) : handlerSees pf = specView pf := rfl

/-- the six booleans of wire word `pf` are those of os word `f` (strings left out: this is the part evaluated on
    the complete table) -/
def bitsAgree (pf f : Nat) : Bool :=
  (specView pf).map (·.2) == (specViewOfOs f).map (·.2)

theorem specView_eq_of_bitsAgree {pf f : Nat} (h : bitsAgree pf f = true) : specView pf = specViewOfOs f := by
  unfold bitsAgree specView specViewOfOs at h
  simp only [List.map_cons, List.map_nil, beq_iff_eq, List.cons.injEq, and_true] at h
  obtain ⟨h1, h2, h3, h4, h5, h6⟩ := h
  unfold specView specViewOfOs
  rw [h1, h2, h3, h4, h5, h6]

theorem handler_table :
    allBelow (fun g => bitsAgree (pflagsOf g) g) (2 ^ 11) = true := by decide +kernel

/-- **handler_sees_client_flags** — for EVERY os flag word of the client, the FileOpenFlags a handler receives are,
    field by field, the client's flags (Read/Write from the access mode; Append included — handlers do see it) -/
theorem handler_sees_client_flags (f : Nat) : handlerSees (pflagsOf f) = specViewOfOs f := by
  have hs : specViewOfOs (f &&& (2 ^ 11 - 1)) = specViewOfOs f := by
    unfold specViewOfOs
    simp only [Nat.and_assoc,
      show (2 ^ 11 - 1) &&& O_ACCMODE = O_ACCMODE by decide, show (2 ^ 11 - 1) &&& O_APPEND = O_APPEND by decide,
      show (2 ^ 11 - 1) &&& O_CREATE = O_CREATE by decide, show (2 ^ 11 - 1) &&& O_TRUNC = O_TRUNC by decide,
      show (2 ^ 11 - 1) &&& O_EXCL = O_EXCL by decide]
  have := allBelow_spec _ _ handler_table (f &&& (2 ^ 11 - 1)) (and_mask_lt f 11)
  rw [handler_sees_wire_flags, ← pflagsOf_local, ← hs]
  exact specView_eq_of_bitsAgree this

example : handlerSees (pflagsOf (O_RDWR ||| O_CREATE ||| O_TRUNC)) =
    [("Read", true), ("Write", true), ("Append", false), ("Creat", true), ("Trunc", true), ("Excl", false)] := by
  decide

/-- method chosen by Request.open for wire word `pf`; `w` = the FilePut handler implements OpenFileWriter -/
def methodOf (pf : Nat) (w : Bool) : String :=
  openMethod G.openMethodCases G.openMethodDefault G.openMethodUpgrades (handlerSees pf)
    (if w then ["OpenFileWriter"] else [])

theorem method_table :
    allBelow (fun g => decide (methodOf g true = specMethod g true ∧ methodOf g false = specMethod g false)) (2 ^ 6)
      = true := by decide +kernel

/-- **open_method_as_spec** — for every wire word: any writing bit makes the request a "Put" ("Open" if also READ
    and the handler implements OpenFileWriter), READ alone a "Get", neither an error -/
theorem open_method_as_spec (pf : Nat) (w : Bool) : methodOf pf w = specMethod pf w := by
  have hm : methodOf (pf &&& (2 ^ 6 - 1)) w = methodOf pf w := by
    unfold methodOf handlerSees
    rw [handlerView_local handler_masks]
  have hs : specMethod (pf &&& (2 ^ 6 - 1)) w = specMethod pf w := by
    unfold specMethod
    simp only [Nat.and_assoc, show (2 ^ 6 - 1) &&& FXF_READ = FXF_READ by decide,
      show (2 ^ 6 - 1) &&& (FXF_WRITE ||| FXF_APPEND ||| FXF_CREAT ||| FXF_TRUNC)
        = (FXF_WRITE ||| FXF_APPEND ||| FXF_CREAT ||| FXF_TRUNC) by decide]
  have := of_decide_eq_true (allBelow_spec _ _ method_table (pf &&& (2 ^ 6 - 1)) (and_mask_lt pf 6))
  rw [← hm, ← hs]
  cases w
  · exact this.2
  · exact this.1

example : methodOf (pflagsOf (O_RDWR ||| O_CREATE ||| O_TRUNC)) true = "Open" := by decide
example : methodOf (pflagsOf (O_RDWR ||| O_CREATE ||| O_TRUNC)) false = "Put" := by decide
example : methodOf (pflagsOf O_RDONLY) true = "Get" := by decide
example : methodOf 0 true = "error" := by decide

/-! ### 4. the read-only gate -/

theorem gate_table :
    allBelow (fun g => decide (gateReadonly (pflagsOf g) =
      some (decide (g &&& O_ACCMODE ≠ O_WRONLY ∧ g &&& O_ACCMODE ≠ O_RDWR ∧ g &&& O_CREATE = 0 ∧ g &&& O_TRUNC = 0))))
      (2 ^ 11) = true := by decide +kernel

/-- **readonly_gate_matches_flags** — an OPEN produced by the client from os flag word `f` is classified read-only
    by the gate iff `f` asks for no write access, no O_CREATE and no O_TRUNC -/
theorem readonly_gate_matches_flags (f : Nat) :
    gateReadonly (pflagsOf f) =
      some (decide (f &&& O_ACCMODE ≠ O_WRONLY ∧ f &&& O_ACCMODE ≠ O_RDWR ∧ f &&& O_CREATE = 0 ∧ f &&& O_TRUNC = 0)) := by
  have := of_decide_eq_true (allBelow_spec _ _ gate_table (f &&& (2 ^ 11 - 1)) (and_mask_lt f 11))
  rw [pflagsOf_local] at this
  rw [this]
  simp only [Nat.and_assoc,
    show (2 ^ 11 - 1) &&& O_ACCMODE = O_ACCMODE by decide, show (2 ^ 11 - 1) &&& O_CREATE = O_CREATE by decide,
    show (2 ^ 11 - 1) &&& O_TRUNC = O_TRUNC by decide]

theorem gate_server_table :
    allBelow (fun pf => decide (
      (gateReadonly pf = some true → ∀ s, serverWord pf = some s →
        s &&& O_ACCMODE = O_RDONLY ∧ s &&& O_CREATE = 0 ∧ s &&& O_TRUNC = 0) ∧
      (gateReadonly pf = some false → ∀ s, serverWord pf = some s →
        s &&& O_ACCMODE ≠ O_RDONLY ∨ s &&& O_CREATE ≠ 0 ∨ s &&& O_TRUNC ≠ 0) ∧
      gateReadonly pf ≠ none)) (2 ^ 6) = true := by decide +kernel

/-- **gate_readonly_opens_readonly** — for EVERY wire word (also those no toPflags produces): if the gate lets an
    OPEN through as read-only, the word the server then gives to os.OpenFile has access mode O_RDONLY and neither
    O_CREATE nor O_TRUNC; and an OPEN the gate refuses would indeed have written, created or truncated
    (the gate is not over-zealous).  Ties the gate's predicate to the server's translation table. -/
theorem gate_readonly_opens_readonly (pf : Nat) :
    (gateReadonly pf = some true → ∀ s, serverWord pf = some s →
      s &&& O_ACCMODE = O_RDONLY ∧ s &&& O_CREATE = 0 ∧ s &&& O_TRUNC = 0) ∧
    (gateReadonly pf = some false → ∀ s, serverWord pf = some s →
      s &&& O_ACCMODE ≠ O_RDONLY ∨ s &&& O_CREATE ≠ 0 ∨ s &&& O_TRUNC ≠ 0) ∧
    gateReadonly pf ≠ none := by
  have := of_decide_eq_true (allBelow_spec _ _ gate_server_table (pf &&& (2 ^ 6 - 1)) (and_mask_lt pf 6))
  have hg : gateReadonly (pf &&& (2 ^ 6 - 1)) = gateReadonly pf := by
    unfold gateReadonly
    rw [mod64 (pf &&& (2 ^ 6 - 1)), Nat.and_assoc, Nat.and_self, ← mod64]
  rw [hg, serverWord_local] at this
  exact this

example : gateReadonly (pflagsOf O_RDONLY) = some true := by decide
example : gateReadonly (pflagsOf (O_RDONLY ||| O_TRUNC)) = some false := by decide
example : gateReadonly (pflagsOf (O_RDONLY ||| O_APPEND)) = some true ∧
    serverWord (pflagsOf (O_RDONLY ||| O_APPEND)) = some O_RDONLY := by decide
example : gateReadonly FXF_TRUNC = some false ∧ serverWord FXF_TRUNC = none := by decide

/-! ### the name tables say the same as the numeric ones (row counts; names resolve to the rule's bits) -/

theorem named_tables_cover :
    G.clientToPflags.length = G.clientToPflagsN.length ∧
    G.serverFromPflags.length =
      G.serverAccessN.length + 1 + G.serverBitsN.length + G.serverIgnoredPflags.length ∧
    G.handlerFlagFields.map (·.1) = G.handlerFlagFieldsN.map (·.1) ∧
    G.handlerFlagFields.map (fun p => G.openPflagValues.lookup p.2) = G.handlerFlagFieldsN.map (fun p => some p.2) ∧
    G.clientOpenCalls.map (·.1) = G.clientOpenCallsN.map (·.1) := by
  decide

end Sftp.C05OpenFlags
