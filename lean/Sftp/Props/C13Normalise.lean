import Sftp.Model.NormWidth
import Sftp.Generated.NormaliseErr
/-
  C13 / C20 / C10 — a failure status is classified by its whole 32-bit code (source shape of seeded defect C13_j:
  client.go `normaliseError` switched on `fx(err.Code)` with `type fx uint8`, so a status whose code is ≥ 256 was
  classified by its low byte: 0x100 → nil, 0x101 → io.EOF.  The differential harness caught it — a refused chunk
  counted as transferred — no extracted fact covered it).

  Facts: `Generated/NormaliseErr.lean` (translator unit NormaliseErr, /verif/extract/round5.go): the tag of the switch
  inside `case *StatusError:` as text, the width of ITS type, the width of the `Code` field, the case table sorted by
  code and the default.  The table semantics are Model/Err's (`NormCfg`, `NRes.kind`, `kindOfCode`: what property C10
  instantiates with unit ErrTables); this module adds the width.
-/
namespace Sftp.C13Normalise
open Sftp Sftp.Err Sftp.NormWidth

/-- the case table in the tree -/
def cfg : Option NormCfg := cfgOf G.normaliseCases G.normaliseDefaultRes

/-- C13Normalise.normalise_switches_on_the_whole_code — client.go normaliseError: the switch tag is the field `err.Code`
itself, a uint32 like the field (no conversion, no mask: nothing narrows it); the cases are OK → nil, EOF → io.EOF,
NO_SUCH_FILE → os.ErrNotExist, PERMISSION_DENIED → os.ErrPermission, default → the *StatusError itself. -/
theorem normalise_switches_on_the_whole_code :
    G.normaliseScrutinee = "err.Code" ∧ G.normaliseScrutineeType = "uint32" ∧
    G.normaliseScrutineeBits = 32 ∧ G.statusCodeFieldBits = 32 ∧
    G.normaliseCases = [(0, "nil"), (1, "io.EOF"), (2, "os.ErrNotExist"), (3, "os.ErrPermission")] ∧
    G.normaliseDefaultRes = "same" := by
  decide

/-- C13Normalise.normalise_total_on_uint32 — with the case table and the tag width read off the tree, EVERY status code
a reply can carry (c < 2^32) is classified by its whole value: 0 is success, 1 io.EOF, 2 os.ErrNotExist,
3 os.ErrPermission, and every other code — in particular every code ≥ 256 — reaches the caller as a *StatusError with
that code (an error, never nil, never io.EOF). -/
theorem normalise_total_on_uint32 :
    ∃ nc, cfg = some nc ∧
      ∀ c, c < 2^32 →
        classify G.normaliseScrutineeBits nc c =
          (if c = 0 then Kind.ok else if c = 1 then .eof else if c = 2 then .notExist else if c = 3 then .permission
           else Kind.ofStatus c) ∧
        (4 ≤ c → classify G.normaliseScrutineeBits nc c ≠ .ok ∧ classify G.normaliseScrutineeBits nc c ≠ .eof) := by
  refine ⟨draftCfg, by decide, ?_⟩
  intro c hc
  have hb : G.normaliseScrutineeBits = 32 := by decide
  rw [hb, classify_of_lt 32 draftCfg c hc, normalise_draft]
  refine ⟨rfl, ?_⟩
  intro h4
  have h0 : c ≠ 0 := by omega
  have h1 : c ≠ 1 := by omega
  have h2 : c ≠ 2 := by omega
  have h3 : c ≠ 3 := by omega
  simp only [kindOfCode, if_neg h0, if_neg h1, if_neg h2, if_neg h3, Kind.ofStatus]
  constructor <;> (split <;> simp)

/-- non-vacuity: the codes the seed got wrong, and an ordinary one -/
example : cfg = some draftCfg ∧ classify 32 draftCfg 256 = .status 256 ∧ classify 32 draftCfg 257 = .status 257 ∧
    classify 32 draftCfg 4 = .failure ∧ classify 32 draftCfg 1 = .eof := by decide

/-! ### the seeded shape (hand-written parameter, so this part builds on every tree) -/

/-- C13Normalise.seed_uint8_tag_classifies_by_low_byte — seed C13_j (`switch fx(err.Code)`, 8 bits): for EVERY code the
verdict is the one of its low byte — 0x100, 0x200, … are success (`nil`: the refused chunk counts as transferred),
0x101, … are io.EOF — while every code below 256 is classified exactly as before (the suite passes). -/
theorem seed_uint8_tag_classifies_by_low_byte :
    (∀ c, classify 8 draftCfg c =
      (if c % 2^8 = 0 then Kind.ok else if c % 2^8 = 1 then .eof else if c % 2^8 = 2 then .notExist
       else if c % 2^8 = 3 then .permission else Kind.ofStatus c)) ∧
    classify 8 draftCfg 256 = .ok ∧ classify 8 draftCfg 257 = .eof ∧ classify 8 draftCfg 0x202 = .notExist ∧
    (∀ c, c < 256 → classify 8 draftCfg c = classify 32 draftCfg c) := by
  refine ⟨fun c => classify_narrow 8 c, by decide, by decide, by decide, ?_⟩
  intro c hc
  rw [classify_of_lt 8 draftCfg c (by simpa using hc), classify_of_lt 32 draftCfg c (by omega)]

end Sftp.C13Normalise
