import Sftp.Model.OsAdapter
import Sftp.Proofs.Path
import Sftp.Spec.OsAdapter
import Sftp.Generated.ServerCalls
import Sftp.Generated.ServerPaths
/-
  C05 — Operations through Client and Server behave like package os.

  What is proved: (1) for every request kind the os-backed server performs exactly the
  corresponding package os call, with exactly the path arguments resolved against the working
  directory (table regenerated from handlePacket / the respond methods, compared with the
  hand-written Spec); (2) properties of that resolution for ALL byte strings; (3) the adapter
  adds nothing to the oracle's result.  The kernel and package os are the oracle (not modelled);
  error categories are the subject of C10's error theorems; the client-side composites
  (Remove's fallback, MkdirAll, RemoveAll, Glob, Walk) are validated by the differential only.
-/
namespace Sftp.C05
open Sftp Sftp.Path Sftp.OsAdapter

/-- Every request kind maps to the expected os call with the expected arguments localised. -/
theorem server_calls_as_spec :
    ∀ row ∈ Spec.OsAdapter.expectedCalls, G.serverCalls.lookup row.1 = some row.2 := by decide

/-- toLocalPath has the shape modelled by `toLocal`, and the working directory is stored clean. -/
theorem toLocalPath_shape : G.toLocalPathJoinsWorkDirForRelative = true ∧ G.workDirStoredClean = true := by
  decide

/-- The adapter is transparent: serving a request IS the os call on the resolved arguments —
same new state, same result, for every oracle, state, call and argument list. -/
theorem adapter_transparent {FS R} (o : Oracle FS R) (wd : Bytes) (fs : FS) (name : String) (args : List Arg) :
    serve o wd fs name args = o.call fs name (args.map (resolve wd)) := rfl

/-- Absolute paths are never rewritten. -/
theorem toLocal_abs (wd p : Bytes) (h : isAbs p = true) : toLocal wd p = p := by
  simp [toLocal, h]

/-- Without a working directory nothing is rewritten. -/
theorem toLocal_no_workdir (p : Bytes) : toLocal [] p = p := by simp [toLocal]

/-- Relative paths are joined under the working directory. -/
theorem toLocal_rel (wd p : Bytes) (hw : wd ≠ []) (h : isAbs p = false) : toLocal wd p = join2 wd p := by
  simp [toLocal, hw, h]

/-- With a (clean, absolute) working directory every resolved path is absolute: what the kernel
sees never depends on the server process's own current directory. -/
theorem toLocal_absolute (wd p : Bytes) (hw : AbsClean wd) : isAbs (toLocal wd p) = true := by
  unfold toLocal
  have hwabs : isAbs wd = true := AbsClean.isAbs hw
  have hwne : wd ≠ [] := by
    intro h; subst h; simp [isAbs] at hwabs
  by_cases hp : isAbs p = true
  · simp [hp]
  · have hp' : isAbs p = false := by simpa using hp
    simp only [hwne, hp', ne_eq, not_false_eq_true, and_self, if_true]
    unfold join2
    simp only [hwne, if_false]
    by_cases hpe : p = []
    · simp only [hpe, if_true]
      exact AbsClean.isAbs (clean_absClean_of_abs hwabs)
    · simp only [hpe, if_false]
      apply AbsClean.isAbs
      apply clean_absClean_of_abs
      obtain ⟨t, ht⟩ := isAbs_iff.mp hwabs
      rw [ht]; simp [isAbs]

/-! Non-vacuity -/
example : toLocal [47, 119] [97] = [47, 119, 47, 97] := by decide            -- "/w" + "a" = "/w/a"
example : toLocal [47, 119] [47, 97] = [47, 97] := by decide                  -- absolute: untouched
example : AbsClean [47, 119] := by decide

end Sftp.C05
