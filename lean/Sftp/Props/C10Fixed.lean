import Sftp.Props.C10
/-
  C10, error part at FULL strength for the source as it is now.

  This file builds only when server.go `statusFromError` contains
      if os.IsPermission(err) { ret.StatusError.Code = sshFxPermissionDenied; return ret }
  directly after the os.IsNotExist test (the repair of known defect F8).  On a tree without that test
  `has_perm_test_current` fails (`decide` evaluates `G.errCfg.tests = testsFixed` to false) — then use
  Props/Known/C10.lean instead of this file.
-/
namespace Sftp.C10
open Sftp Sftp.Err Sftp.Spec.Err

theorem has_perm_test_current : HasPermTest G.errCfg := by decide

/-- For the tables generated from the source, for EVERY error of the families (all errno values, all three os
wrappers, all status codes, all texts): what the client sees after statusFromError → wire → normaliseError is the
kind the property asks for. -/
theorem error_kind_preserved_now (e : GoErr) (hf : inFamilies e = true) :
    normalise G.normCfg (statusFromError G.errCfg e).1 = kindOf e :=
  error_kind_preserved_current has_perm_test_current e hf

-- the former F8 inputs, on the generated tables
example : statusFromError G.errCfg (.linkError (.errno 13)) = (3, true) ∧
    statusFromError G.errCfg .osErrPermission = (3, true) ∧
    statusFromError G.errCfg (.syscallError (.errno 1)) = (3, true) := by decide

end Sftp.C10
