import Sftp.Proofs.Lin
/-
  C15 — Concurrent single-packet operations are linearizable.

  Property theorems only.  Model: Sftp/Model/Lin.lean (`SeqFile` = `apply`, histories, `Linearizable`,
  the stamped-trace checker).  Atomicity of the backing store's ReadAt/WriteAt is the property's own
  premise: it appears as the existence of one instant `σ o` per operation (its store step) such that
  the results are the sequential results in `σ` order.  That executions of the pipeline models
  provide such instants is `pipeline_has_lin_points` (C02/C03/C18 models), not part of this file;
  for the real server the harness records the instants and `checkStamped` validates them.
-/
namespace Sftp.C15
open Sftp

/-- the operations of `h` ordered by their linearization points `σ`. -/
def sortBy (σ : Event → Nat) (h : List Event) : List Event :=
  (sortByStamp (h.map (fun e => ⟨e, σ e⟩))).map (·.ev)

/-- **C15.lin_points_imply_linearizable.**  If every completed operation `o` has an instant `σ o`
strictly between its call and its return, the instants are pairwise distinct, and the observed
results are those of replaying the operations in increasing `σ` order through `SeqFile`, then the
history is linearizable (the witness order is the `σ` order; it respects real time because every
instant lies inside its interval). -/
theorem lin_points_imply_linearizable (init : Bytes) (h : List Event) (σ : Event → Nat)
    (inside : ∀ o, o ∈ h → o.call < σ o ∧ σ o < o.ret)
    (distinct : h.Pairwise (fun a b => σ a ≠ σ b))
    (explains : replayOk init (sortBy σ h) = true) :
    Linearizable h init := by
  have key := lin_of_sorted init (h.map (fun e => ⟨e, σ e⟩)) (sortByStamp (h.map (fun e => ⟨e, σ e⟩)))
    (by
      intro e he
      obtain ⟨o, ho, rfl⟩ := List.mem_map.mp he
      exact inside o ho)
    (sortByStamp_perm _)
    (sortByStamp_strict _ (by rw [List.pairwise_map]; exact distinct))
    explains
  simpa [List.map_map, Function.comp_def] using key

/-- The same with the order given explicitly: any list `ord` of the stamped operations that is a
permutation of the history and strictly increasing in the stamps. -/
theorem lin_points_imply_linearizable_ord (init : Bytes) (hs ord : List SEvent)
    (inside : ∀ e, e ∈ hs → e.ev.call < e.stamp ∧ e.stamp < e.ev.ret)
    (hp : ord.Perm hs) (hsorted : ord.Pairwise (fun a b => a.stamp < b.stamp))
    (explains : replayOk init (ord.map (·.ev)) = true) :
    Linearizable (hs.map (·.ev)) init :=
  lin_of_sorted init hs ord inside hp hsorted explains

/-- **C15.checker_sound.**  A stamped trace accepted by the executable checker is linearizable (and
all its operations lie within the file's extent). -/
theorem checker_sound (init : Bytes) (hs : List SEvent) (h : checkStamped init hs = true) :
    Linearizable (hs.map (·.ev)) init ∧ ∀ e, e ∈ hs → withinExtent init.length e.ev.op = true := by
  simp only [checkStamped, Bool.and_eq_true, List.all_eq_true] at h
  obtain ⟨⟨⟨h1, h2⟩, h3⟩, h4⟩ := h
  refine ⟨?_, h2⟩
  refine lin_of_sorted init hs (sortByStamp hs) ?_ (sortByStamp_perm hs)
    (strictlyIncreasing_pairwise _ h3) h4
  intro e he
  have := h1 e he
  simp only [stampInside, Bool.and_eq_true, decide_eq_true_eq] at this
  exact this

/-- The checker is also complete for stamped traces: it accepts exactly when the four clauses hold
(so a rejection is never an artefact of the sorting). -/
theorem checker_complete (init : Bytes) (hs : List SEvent)
    (inside : ∀ e, e ∈ hs → e.ev.call < e.stamp ∧ e.stamp < e.ev.ret)
    (extent : ∀ e, e ∈ hs → withinExtent init.length e.ev.op = true)
    (distinct : hs.Pairwise (fun a b => a.stamp ≠ b.stamp))
    (explains : replayOk init ((sortByStamp hs).map (·.ev)) = true) :
    checkStamped init hs = true := by
  simp only [checkStamped, Bool.and_eq_true, List.all_eq_true]
  refine ⟨⟨⟨?_, extent⟩, pairwise_strictlyIncreasing _ (sortByStamp_strict hs distinct)⟩, explains⟩
  intro e he
  simp only [stampInside, Bool.and_eq_true, decide_eq_true_eq]
  exact inside e he

/-- **C15.within_extent_size_constant.**  An operation within the extent does not change the size. -/
theorem within_extent_size_constant (f : Bytes) (op : Op) (h : withinExtent f.length op = true) :
    (apply f op).1.length = f.length := apply_length f op h

/-- Hence in any explained order of within-extent operations every size query returns the initial size. -/
theorem size_results_initial (init : Bytes) (ord : List Event)
    (extent : ∀ e, e ∈ ord → withinExtent init.length e.op = true)
    (explains : replayOk init ord = true) :
    ∀ e, e ∈ ord → e.op = .size → e.res = .size init.length :=
  replay_size init.length ord init rfl extent explains

/-- a history without overlap, listed in time order. -/
def Sequential (h : List Event) : Prop := h.Pairwise (fun a b => a.ret < b.call)

/-- Sanity (converse direction): a sequential history has no other admissible order than its own … -/
theorem sequential_order_unique (h ord : List Event) (wf : ∀ e, e ∈ h → e.call < e.ret)
    (seq : Sequential h) (hp : ord.Perm h) (rt : RespectsRT ord) : ord = h :=
  sequential_unique h ord wf seq hp rt

/-- … so it is linearizable exactly when its own order explains the results. -/
theorem sequential_linearizable_iff (init : Bytes) (h : List Event) (wf : ∀ e, e ∈ h → e.call < e.ret)
    (seq : Sequential h) : Linearizable h init ↔ replayOk init h = true := by
  constructor
  · rintro ⟨ord, hp, rt, hr⟩
    rw [sequential_unique h ord wf seq hp rt] at hr
    exact hr
  · intro hr
    exact ⟨h, List.Perm.refl _, sequential_respectsRT h wf seq, hr⟩

/-! ### non-vacuity -/

/-- file "abcd"; three overlapping operations: a write of "XY" at 1 (interval 1–10), a read of
[0,4) (interval 2–8) that already sees the write, a read of [0,4) (interval 3–9) that was served
before it, and a size query. -/
def exInit : Bytes := [97, 98, 99, 100]
def exW : Event := ⟨.write 1 [88, 89], .unit, 1, 10⟩
def exR1 : Event := ⟨.read 0 4, .bytes [97, 88, 89, 100], 2, 8⟩
def exR2 : Event := ⟨.read 0 4, .bytes [97, 98, 99, 100], 3, 9⟩
def exS : Event := ⟨.size, .size 4, 4, 12⟩
def exHist : List Event := [exW, exR1, exR2, exS]
def exStamped : List SEvent := [⟨exW, 5⟩, ⟨exR1, 6⟩, ⟨exR2, 4⟩, ⟨exS, 11⟩]

/-- linearization points: read₂ at 4, write at 5, read₁ at 6 … here as a function of the event. -/
def exSigma (e : Event) : Nat := if e = exW then 5 else if e = exR1 then 6 else if e = exR2 then 4 else 11

example : Linearizable exHist exInit :=
  lin_points_imply_linearizable exInit exHist exSigma (by decide) (by decide) (by decide)
example : checkStamped exInit exStamped = true := by decide
example : Linearizable (exStamped.map (·.ev)) exInit := (checker_sound exInit exStamped (by decide)).1
-- the hypotheses matter: with read₂'s stamp after the write the results are not explained …
example : checkStamped exInit [⟨exW, 5⟩, ⟨exR1, 6⟩, ⟨exR2, 7⟩, ⟨exS, 11⟩] = false := by decide
-- … and a stamp outside its interval is rejected.
example : checkStamped exInit [⟨exW, 5⟩, ⟨exR1, 8⟩, ⟨exR2, 4⟩, ⟨exS, 11⟩] = false := by decide
-- a sequential history in the wrong result order is not linearizable
example : ¬ Linearizable [⟨.write 0 [1], .unit, 1, 2⟩, ⟨.read 0 1, .bytes [0], 3, 4⟩] [0] := by
  rw [sequential_linearizable_iff _ _ (by decide) (by unfold Sequential; decide)]
  decide
example : withinExtent exInit.length (.write 1 [88, 89]) = true ∧ (apply exInit (.write 1 [88, 89])).1.length = 4 := by
  decide
-- outside the extent the size does change (the hypothesis is needed)
example : (apply exInit (.write 3 [1, 2])).1.length = 5 := by decide

end Sftp.C15
