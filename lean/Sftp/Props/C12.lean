import Sftp.Proofs.Transfer.Step
/-
  C12 — offset and closed-state semantics like os.File.
  Property theorems only.  The reference is Sftp/Spec/OsFile.lean.

  Atomicity: every File method takes `f.mu` (Lock or RLock) in its first statement and releases it
  on return; Close takes the write lock.  Hence any concurrent execution is equivalent to a
  sequence of whole method calls, and "Close races with other methods" is covered by quantifying
  over all call lists.
-/
namespace Sftp.C12
open Sftp Sftp.Transfer Sftp.Spec.OsFile

/-- Simulation relation between the client File and the os.File reference. -/
def Sim (s : FileSt) (o : OsSt) : Prop := s.offset = o.offset ∧ s.closed = o.closed

/-- Model and reference side by side: after each call the File state, the reference state and the
result.  The reference is told the bytes transferred (`moved`) and the file size. -/
def trace (cfg : Cfg) : Served → FileSt → OsSt → List Call → List (FileSt × OsSt × Result)
  | _, _, _, [] => []
  | sv, s, o, c :: cs =>
    let r := fileStep cfg sv s c
    let o' := osStep sv.data.length sv.statFail.isNone o c (moved cfg sv s c r.2.1)
    (r.1, o', r.2.1) :: trace cfg r.2.2 r.1 o' cs

/-- One call preserves the simulation. -/
theorem step_refines (cfg : Cfg) (hmp : 1 ≤ cfg.maxPacket) (htx : cfg.maxPacket ≤ cfg.maxTx)
    (hw : cfg.writeToMovesOnEmpty = false) (hm : cfg.readFromMasksWriteErr = false)
    (sv : Served) (s : FileSt) (o : OsSt) (c : Call) (h : Sim s o) :
    Sim (fileStep cfg sv s c).1
      (osStep sv.data.length sv.statFail.isNone o c (moved cfg sv s c (fileStep cfg sv s c).2.1)) := by
  obtain ⟨h1, h2⟩ := h
  unfold fileStep osStep
  by_cases hc : s.closed = true
  · rw [if_pos hc, if_pos (by rw [← h2]; exact hc)]; exact ⟨h1, h2⟩
  · rw [if_neg hc, if_neg (by rw [← h2]; exact hc)]
    cases c with
    | read n => exact ⟨by simp [moved, h1], h2⟩
    | readAt n off => exact ⟨h1, h2⟩
    | write d => exact ⟨by simp [moved, h1], h2⟩
    | writeAt d off => exact ⟨h1, h2⟩
    | readFrom src sized =>
      refine ⟨?_, h2⟩
      simp only [moved]
      rw [readFromM_offset cfg sv s.offset src _ hmp hm, h1]
    | readFromConc src conc =>
      refine ⟨?_, h2⟩
      simp only [moved]
      rw [readFromM_offset cfg sv s.offset src _ hmp hm, h1]
    | writeTo =>
      refine ⟨?_, h2⟩
      simp only [moved]
      rw [writeToM_offset cfg sv s.offset hmp htx hw, h1]
    | close => exact ⟨h1, rfl⟩
    | stat => simp only; split <;> exact ⟨h1, h2⟩
    | truncate n => exact ⟨h1, h2⟩
    | seek off whence =>
      simp only
      cases hst : sv.statFail with
      | some k =>
        match whence with
        | 0 => simp only [seekTarget]; split <;> exact ⟨by simp_all, h2⟩
        | 1 => simp only [seekTarget, h1]; split <;> exact ⟨by simp_all, h2⟩
        | 2 => exact ⟨h1, h2⟩
        | n + 3 => exact ⟨h1, h2⟩
      | none =>
        match whence with
        | 0 => simp only [seekTarget]; split <;> exact ⟨by simp_all, h2⟩
        | 1 => simp only [seekTarget, h1]; split <;> exact ⟨by simp_all, h2⟩
        | 2 => simp only [seekTarget, Option.isNone_none, if_true]; split <;> exact ⟨by simp_all, h2⟩
        | n + 3 => exact ⟨h1, h2⟩

/-- C12.offset_refines — for every list of calls (= every interleaving of whole methods), every
served file, every fault pattern and every configuration with the two repairs in place
(`writeToMovesOnEmpty = false`, `readFromMasksWriteErr = false`) and packet size within the
server's payload limit, the File's offset and closed flag equal the os.File reference's after
every call.  (With today's values of the two flags the statement is false:
Known/C12.writeTo_offset_witness, Known/C13.readFrom_masks_write_error.) -/
theorem offset_refines (cfg : Cfg) (hmp : 1 ≤ cfg.maxPacket) (htx : cfg.maxPacket ≤ cfg.maxTx)
    (hw : cfg.writeToMovesOnEmpty = false) (hm : cfg.readFromMasksWriteErr = false) :
    ∀ (calls : List Call) (sv : Served) (s : FileSt) (o : OsSt), Sim s o →
      ∀ p ∈ trace cfg sv s o calls, p.1.offset = p.2.1.offset ∧ p.1.closed = p.2.1.closed := by
  intro calls
  induction calls with
  | nil => intro sv s o _ p hp; simp [trace] at hp
  | cons c cs ih =>
    intro sv s o h p hp
    have hstep := step_refines cfg hmp htx hw hm sv s o c h
    rw [trace] at hp
    rcases List.mem_cons.mp hp with rfl | hp
    · exact hstep
    · exact ih _ _ _ hstep p hp

/-- Seek in isolation: start-, current- and end-relative targets; a negative target is rejected
with ErrInvalid and nothing moves; the returned position is the new offset. -/
theorem seek_spec (cfg : Cfg) (sv : Served) (s : FileSt) (off : Int) (whence : Nat)
    (hc : s.closed = false) (hst : sv.statFail = none) (hwh : whence ≤ 2) :
    let t : Int := match whence with | 0 => off | 1 => off + s.offset | _ => off + sv.data.length
    let r := fileStep cfg sv s (.seek off whence)
    (t < 0 → r.1 = s ∧ r.2.1.err = some .invalid) ∧
    (0 ≤ t → r.1 = { s with offset := t.toNat } ∧ r.2.1.err = none ∧ r.2.1.n = t.toNat) ∧
    r.2.2.data = sv.data := by
  unfold fileStep
  rw [hc]
  match whence, hwh with
  | 0, _ =>
    simp only [hst, seekTarget, Bool.false_eq_true, if_false]
    split
    · next h => exact ⟨fun _ => ⟨rfl, rfl⟩, fun h' => by omega, rfl⟩
    · next h => exact ⟨fun h' => by omega, fun _ => ⟨rfl, rfl, rfl⟩, rfl⟩
  | 1, _ =>
    simp only [hst, seekTarget, Bool.false_eq_true, if_false]
    split
    · next h => exact ⟨fun _ => ⟨rfl, rfl⟩, fun h' => by omega, rfl⟩
    · next h => exact ⟨fun h' => by omega, fun _ => ⟨rfl, rfl, rfl⟩, rfl⟩
  | 2, _ =>
    simp only [hst, seekTarget, Bool.false_eq_true, if_false]
    split
    · next h => exact ⟨fun _ => ⟨rfl, rfl⟩, fun h' => by omega, rfl⟩
    · next h => exact ⟨fun h' => by omega, fun _ => ⟨rfl, rfl, rfl⟩, rfl⟩

/-- C12.closed_is_final — on a closed File every method returns os.ErrClosed (count 0, no data)
and changes neither the File nor the served file (no request is issued: the closed test precedes
every discipline). -/
theorem closed_is_final (cfg : Cfg) (sv : Served) (s : FileSt) (c : Call) (h : s.closed = true) :
    (fileStep cfg sv s c).1 = s ∧ (fileStep cfg sv s c).2.1 = closedResult ∧
    (fileStep cfg sv s c).2.2.data = sv.data := by
  unfold fileStep; rw [if_pos h]; exact ⟨rfl, rfl, rfl⟩

/-- … and this persists over any further list of calls. -/
theorem closed_is_final_run (cfg : Cfg) :
    ∀ (calls : List Call) (sv : Served) (s : FileSt), s.closed = true →
      (∀ p ∈ run cfg sv s calls, p = (s, closedResult)) ∧ (finalServed cfg sv s calls).data = sv.data := by
  intro calls
  induction calls with
  | nil => intro sv s _; exact ⟨fun p hp => by simp [run] at hp, rfl⟩
  | cons c cs ih =>
    intro sv s h
    have hfs : fileStep cfg sv s c = (s, closedResult, sv) := by unfold fileStep; rw [if_pos h]; rfl
    rw [run, finalServed, hfs]
    obtain ⟨h1, h2⟩ := ih sv s h
    refine ⟨fun p hp => ?_, h2⟩
    rcases List.mem_cons.mp hp with rfl | hp
    · rfl
    · exact h1 p hp

/-- Close on an open File closes it and sends exactly one close request. -/
theorem close_closes (cfg : Cfg) (sv : Served) (s : FileSt) (h : s.closed = false) :
    (fileStep cfg sv s .close).1.closed = true ∧
    (fileStep cfg sv s .close).1.closeSent = s.closeSent + 1 ∧
    (fileStep cfg sv s .close).2.1.err = none := by
  unfold fileStep; rw [h]; exact ⟨rfl, rfl, rfl⟩

/-- Invariant linking the closed flag and the number of close requests sent. -/
def CloseInv (s : FileSt) : Prop :=
  (s.closed = false ∧ s.closeSent = 0) ∨ (s.closed = true ∧ s.closeSent = 1)

/-- C12.one_close_sent — starting from a fresh File, after every call of every call list at most
one close request has been sent, and exactly one iff the File is closed (so a second Close, or a
Close racing with another method, never sends a second request). -/
theorem one_close_sent (cfg : Cfg) :
    ∀ (calls : List Call) (sv : Served) (s : FileSt), CloseInv s →
      ∀ p ∈ run cfg sv s calls, p.1.closeSent ≤ 1 ∧ (p.1.closed = true ↔ p.1.closeSent = 1) := by
  have hinv : ∀ s, CloseInv s → s.closeSent ≤ 1 ∧ (s.closed = true ↔ s.closeSent = 1) := by
    intro s h
    rcases h with ⟨h1, h2⟩ | ⟨h1, h2⟩
    · rw [h1, h2]; simp
    · rw [h1, h2]; simp
  intro calls
  induction calls with
  | nil => intro sv s _ p hp; simp [run] at hp
  | cons c cs ih =>
    intro sv s h p hp
    have hstep : CloseInv (fileStep cfg sv s c).1 := by
      rcases fileStep_frame cfg sv s c with ⟨f1, f2⟩ | ⟨_, f0, f1, f2⟩
      · unfold CloseInv; rw [f1, f2]; exact h
      · rcases h with ⟨_, h2⟩ | ⟨h1, _⟩
        · exact Or.inr ⟨f1, by rw [f2, h2]⟩
        · rw [f0] at h1; cases h1
    rw [run] at hp
    rcases List.mem_cons.mp hp with rfl | hp
    · exact hinv _ hstep
    · exact ih _ _ hstep p hp

/-! Non-vacuity: a concrete run of the repaired configuration; hypotheses are satisfiable. -/
example :
    let cfg : Cfg := { Cfg.current with maxPacket := 4, maxTx := 4, writeToMovesOnEmpty := false,
                                         readFromMasksWriteErr := false }
    (1 ≤ cfg.maxPacket ∧ cfg.maxPacket ≤ cfg.maxTx) ∧
    (run cfg { data := pat 0 10 } {} [.read 3, .seek (-2) 2, .writeTo, .close, .close]).map
        (fun p => (p.1.offset, p.1.closeSent, p.2.n, p.2.err))
      = [(3, 0, 3, none), (8, 0, 8, none), (10, 0, 2, none), (10, 1, 0, none), (10, 1, 0, some .closed)] := by
  decide

example : CloseInv {} ∧ Sim {} {} := ⟨Or.inl ⟨rfl, rfl⟩, rfl, rfl⟩

end Sftp.C12
