import Sftp.Props.C05Composite
import Sftp.Generated.CompositeCfg
/-
  C05 (composites) for the code as it is now: the theorems of Props/C05Composite.lean instantiated with the
  configuration the extractor read off client.go `(*Client).Remove`, `(*Client).MkdirAll`, `(*Client).RemoveAll`
  and server.go's REMOVE / RMDIR cases (`Sftp.G.compositeCfg`, Generated/CompositeCfg.lean), over the wire of the
  generated error tables (`wireOf G.errCfg G.normCfg`).

  The hypotheses on the configuration are discharged by `decide`: a source change that falsifies one of them (or
  that the extractor cannot read: it then emits neutral values chosen to falsify them) makes this file fail.
-/
namespace Sftp.C05Composite
open Sftp.AbsFS Sftp.Composite Sftp.Spec.OsComposite

/-- every statement of the three composites (and of the two server cases) fitted a known shape -/
theorem shape_ok_generated : G.compositeShapeOK = true := by decide

/-- the requests the composites are made of: which packet each client method sends, that the status reply goes
through normaliseError, and which os call the server answers STAT / LSTAT / MKDIR with (REMOVE / RMDIR are fields
of the configuration). -/
theorem prims_generated :
    G.compositePrims.map (fun r => (r.1, r.2.1)) =
      [("removeFile", "sshFxpRemovePacket"), ("RemoveDirectory", "sshFxpRmdirPacket"), ("Mkdir", "sshFxpMkdirPacket"),
       ("Stat", "sshFxpStatPacket"), ("Lstat", "sshFxpLstatPacket")] ∧
    (∀ r ∈ G.compositePrims,
      ["normalised", "normalised,PathError", "normalised,via:stat"].contains r.2.2.2.1 = true) ∧
    (G.compositePrims.filter (fun r => ["Mkdir", "Stat", "Lstat"].contains r.1)).map (fun r => (r.1, r.2.2.2.2)) =
      [("Mkdir", ["os.Mkdir(L:Path,C:493)"]), ("Stat", ["os.Stat(L:Path)"]), ("Lstat", ["s.lstat(L:Path)=os.Lstat"])] := by
  decide

/-! ### Client.Remove -/

theorem remove_cfg_generated : RemoveCfgOk G.compositeCfg := by decide

theorem remove_as_os_generated (fs : FS) (p : Path) :
    (removeC G.compositeCfg (wireOf G.errCfg G.normCfg) fs p).1 = (osRemove fs p).1 ∧
    (removeC G.compositeCfg (wireOf G.errCfg G.normCfg) fs p).2.cat = osCat (osRemove fs p).2 :=
  let h := remove_as_os G.compositeCfg _ wire_current remove_cfg_generated fs p
  ⟨h.1, h.2.2⟩

/-! ### Client.MkdirAll -/

theorem mkdirAll_cfg_generated : MkdirAllCfgOk G.compositeCfg := by decide

theorem mkdirAll_as_os_generated (fs : FS) (hwf : wf fs = true) (p : Path) :
    (mkdirAll G.compositeCfg (wireOf G.errCfg G.normCfg) fs p).1 = (osMkdirAll fs p).1 ∧
    (mkdirAll G.compositeCfg (wireOf G.errCfg G.normCfg) fs p).2.cat = osCat (osMkdirAll fs p).2 :=
  let h := mkdirAll_as_os G.compositeCfg _ wire_current mkdirAll_cfg_generated fs hwf p
  ⟨h.1, h.2.2⟩

/-- the locally built error for "exists and is not a directory" is ENOTDIR today: the fine category agrees too
whenever os.MkdirAll reports ENOTDIR or nil -/
theorem mkdirAll_notdir_fine_generated (fs : FS) (hwf : wf fs = true) (p : Path)
    (hr : (osMkdirAll fs p).2 = .errNotDir ∨ (osMkdirAll fs p).2 = .ok) :
    (mkdirAll G.compositeCfg (wireOf G.errCfg G.normCfg) fs p).2.fine = osFine (osMkdirAll fs p).2 :=
  mkdirAll_notdir_fine G.compositeCfg _ wire_current mkdirAll_cfg_generated (by decide) fs hwf p hr

/-! ### Client.RemoveAll -/

theorem removeAll_cfg_generated : RemoveAllCfgOk G.compositeCfg := by decide

/-- same tree as os.RemoveAll; the caller sees the wire image of its error, except on a missing path when the
client does not turn that into nil (the bit `raNoEntNil` of the generated configuration: whichever value it has,
the statement follows it). -/
theorem removeAll_as_os_generated (fs : FS) (hwf : wf fs = true) (p : Path) :
    (removeAll G.compositeCfg (wireOf G.errCfg G.normCfg) fs p).1 = (osRemoveAll fs p).1 ∧
    (removeAll G.compositeCfg (wireOf G.errCfg G.normCfg) fs p).2 =
      (if (lstat fs p).1 = .errNoEnt ∧ G.compositeCfg.raNoEntNil = false then .notExist
       else wireOf G.errCfg G.normCfg (osRemoveAll fs p).2) :=
  removeAll_as_os G.compositeCfg _ wire_current removeAll_cfg_generated fs hwf p

theorem removeAll_category_as_os_generated (fs : FS) (hwf : wf fs = true) (p : Path)
    (hex : (lstat fs p).1 ≠ .errNoEnt ∨ G.compositeCfg.raNoEntNil = true) :
    (removeAll G.compositeCfg (wireOf G.errCfg G.normCfg) fs p).2.cat = osCat (osRemoveAll fs p).2 :=
  removeAll_category_as_os G.compositeCfg _ wire_current removeAll_cfg_generated fs hwf p hex

/-- the recursion budget of `removeAll` suffices for the generated configuration -/
theorem removeAll_fuel_suffices_generated (fs : FS) (hwf : wf fs = true) (p : Path) (fuel : Nat)
    (hf : fs.length < fuel) :
    removeAllC G.compositeCfg (wireOf G.errCfg G.normCfg) fuel fs p =
      removeAll G.compositeCfg (wireOf G.errCfg G.normCfg) fs p :=
  removeAll_fuel_suffices G.compositeCfg _ wire_current removeAll_cfg_generated fs hwf p fuel hf

/-! ### non-vacuity: the concrete trees of Props/C05Composite.lean, run on the generated configuration -/

example : removeC G.compositeCfg (wireOf G.errCfg G.normCfg) tree ["a", "d", "e"] = (del tree ["a", "d", "e"], .ok) := by
  decide
example : removeC G.compositeCfg (wireOf G.errCfg G.normCfg) tree ["a", "d"] = (tree, .failure) := by decide
example : mkdirAll G.compositeCfg (wireOf G.errCfg G.normCfg) tree ["a", "d", "n1", "n2"] =
    (tree ++ [(["a", "d", "n1"], .dir), (["a", "d", "n1", "n2"], .dir)], .ok) := by decide
example : mkdirAll G.compositeCfg (wireOf G.errCfg G.normCfg) tree ["a", "f", "y"] =
    (tree, G.compositeCfg.maFileErr) := by decide
example : removeAll G.compositeCfg (wireOf G.errCfg G.normCfg) tree ["a", "d"] = (delTree tree ["a", "d"], .ok) := by
  decide
example : removeAll G.compositeCfg (wireOf G.errCfg G.normCfg) tree ["a", "dl"] = (del tree ["a", "dl"], .ok) := by
  decide

end Sftp.C05Composite
