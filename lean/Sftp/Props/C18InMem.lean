import Sftp.Model.InMemStore
import Sftp.Generated.InMemShape
/-
  C18 / C01 — the in-memory handler neither keeps a request's buffer nor swaps a file's object (source shapes of seeded
  defects C18_l: `(*memFile).WriteAt` took the argument slice over (`f.content = b`) when a write at offset 0 covered
  the whole file — `b` is a view on the page the WRITE was received into, which the allocator hands to a later request;
  C01_l: `(*root).openfile` answered O_TRUNC by storing a NEW memFile under the existing name, so handles already open
  on that name kept an orphaned object).

  Facts: `Generated/InMemShape.lean` (translator unit InMemShape, /verif/extract/round6.go): (a) every assignment to
  `content` in the methods of memFile classified by its right-hand side, every use of a []byte parameter in them;
  (b) for openfile: the lookup, the O_TRUNC statement and whether it truncates the looked-up object in place, and — each
  with the conditions it stands under — the memFile objects made, the stores into `fs.files`, the calls of putfile, the
  assignments to the looked-up variable; putfile statement by statement; every store into `fs.files` in the package.
-/
namespace Sftp.C18InMem
open Sftp Sftp.InMemStore

/-- the kinds of assignment to `content` found in the tree -/
def kinds : List String := G.imContentWrites.map (·.2)

/-- does O_TRUNC replace the object, according to the tree?  (no only if the O_TRUNC statement is the in-place shape, the
looked-up variable is never re-assigned and openfile itself stores nothing into the table) -/
def replaces : Bool :=
  !(G.imOpenTruncInPlace && G.imOpenFileReassigned.isEmpty && G.imOpenStores.isEmpty)

/-- C18InMem.memfile_shapes_as_spec — request-example.go: `content` is assigned only in Truncate (a re-slice of itself)
and grow (append to itself); the []byte parameters of ReadAt / WriteAt occur only under len() and as destination /
source of copy(); openfile looks the name up with fs.fetch, answers O_TRUNC with `file.Truncate(0)` on the object it
found, makes a memFile only where the lookup reported os.ErrNotExist and hands it to putfile there, never assigns the
looked-up variable and never stores into fs.files itself; putfile stores only after `fs.lfetch` reported the name
absent; the other stores are rename's (the same object under its new name). -/
theorem memfile_shapes_as_spec :
    G.imContentWrites = [("Truncate", "reslice(content)"), ("grow", "append(content)")] ∧
    G.imParamUses = [("ReadAt", "copy-dst"), ("ReadAt", "len"), ("WriteAt", "copy-src"), ("WriteAt", "len")] ∧
    G.imContentNeverAliasesParam = true ∧
    G.imOpenLookup = "file, err := fs.fetch(pathname)" ∧
    G.imOpenTruncStmt = "if pflags.Trunc { if err := file.Truncate(0); err != nil { return nil, err } }" ∧
    G.imOpenTruncInPlace = true ∧
    G.imOpenNewObjects = [("err == os.ErrNotExist", "memFile literal")] ∧
    G.imOpenStores = [] ∧
    G.imOpenPutfileCalls = [("err == os.ErrNotExist", "fs.putfile(pathname, file)")] ∧
    G.imOpenFileReassigned = [] ∧
    G.imPutfileBody.drop 3 = ["if _, err := fs.lfetch(pathname); err != os.ErrNotExist { return os.ErrExist }",
      "file.name = pathname", "fs.files[pathname] = file", "return nil"] ∧
    G.imFilesStores = [("root.putfile", "fs.files[pathname] = file"), ("root.rename", "fs.files[newpath] = file"),
      ("root.rename", "fs.files[newname] = file")] := by
  decide

/-- C18InMem.stored_content_never_aliases_a_request_page — with the assignment kinds read off the tree: whatever a WRITE
carried, and whichever page it was received into, the file reads back exactly those bytes after ANY sequence of later
requests received into any pages (that one included) — and every use of the argument slice is a len or a copy. -/
theorem stored_content_never_aliases_a_request_page :
    G.imParamUses.all (fun u => safeUses.contains u.2) = true ∧
    ∀ (page : Nat) (data : List Nat) (pg : Pages) (later : List (Nat × List Nat)),
      read (store kinds page data) (recvAll (recvInto pg page data) later) = data := by
  refine ⟨by decide, ?_⟩
  intro page data pg later
  exact store_stable kinds (by decide) page data pg later

/-- non-vacuity: a 3-byte WRITE received into page 0; two later requests are received into page 0 -/
example : read (store kinds 0 [1, 2, 3]) (recvAll (recvInto (fun _ => []) 0 [1, 2, 3]) [(0, [9, 9, 9]), (0, [7])])
    = [1, 2, 3] := by decide

/-- C18InMem.handles_share_the_object_of_their_name — with the O_TRUNC reading of the tree (in place): after ANY sequence
of opens (creating, plain, truncating, on any names) every handle ever handed out holds the object its name
designates — two Files open on one path see one file, whichever of them was opened with O_TRUNC. -/
theorem handles_share_the_object_of_their_name (ops : List Open) :
    ∀ h ∈ (run replaces St.init ops).handles, find (run replaces St.init ops).files h.1 = some h.2 := by
  have hr : replaces = false := by decide
  rw [hr]
  exact run_coherent ops St.init (by intro h hh; cases hh)

/-- non-vacuity: open a, create-truncate a, open b: three handles, two objects -/
example : run replaces St.init [⟨"a", false⟩, ⟨"a", true⟩, ⟨"b", true⟩]
    = ⟨[("b", 1), ("a", 0)], 2, [("b", 1), ("a", 0), ("a", 0)]⟩ := by decide

/-! ### the seeded shapes (hand-written parameters, so this part builds on every tree) -/

/-- C18InMem.seed_adopted_slice_is_overwritten_by_a_later_request — seed C18_l (`f.content = b` in WriteAt): the file holds
a view on the page; as soon as a later request is received into that page the file reads back THAT request's bytes. -/
theorem seed_adopted_slice_is_overwritten_by_a_later_request :
    store ["param:b", "reslice(content)", "append(content)"] 0 [1, 2, 3] = .view 0 ∧
    read (store ["param:b", "reslice(content)", "append(content)"] 0 [1, 2, 3])
      (recvAll (recvInto (fun _ => []) 0 [1, 2, 3]) [(1, [5]), (0, [9, 9, 9])]) = [9, 9, 9] ∧
    (∀ (page : Nat) (data other : List Nat) (pg : Pages),
      read (store ["param:b"] page data) (recvAll (recvInto pg page data) [(page, other)]) = other) := by
  refine ⟨by decide, by decide, ?_⟩
  intro page data other pg
  simp [store, safeKinds, InMemStore.read, recvAll, InMemStore.recvInto]

/-- C18InMem.seed_replace_on_trunc_orphans_open_handles — seed C01_l (O_TRUNC stores a new object): after `open a` and
`open a O_TRUNC` the first handle holds object 0 while the name designates object 1. -/
theorem seed_replace_on_trunc_orphans_open_handles :
    run true St.init [⟨"a", false⟩, ⟨"a", true⟩] = ⟨[("a", 1), ("a", 0)], 2, [("a", 1), ("a", 0)]⟩ ∧
    (∃ ops, ∃ h ∈ (run true St.init ops).handles, find (run true St.init ops).files h.1 ≠ some h.2) ∧
    run false St.init [⟨"a", false⟩, ⟨"a", true⟩] = ⟨[("a", 0)], 1, [("a", 0), ("a", 0)]⟩ := by
  refine ⟨by decide, ⟨[⟨"a", false⟩, ⟨"a", true⟩], ("a", 0), by decide, by decide⟩, by decide⟩

end Sftp.C18InMem
