import Sftp.Props.C14
import Sftp.Generated.PipeCfg
/-
  C14 for the code as it is now: Props/C14.lean instantiated with the extracted `Sftp.G.pipeCfg`.
-/
namespace Sftp.C14
open Sftp.Pipe

/-- packet-manager.go today: `case *sshFxpClosePacket: s.working.Wait()` is there, registration precedes the
hand-offs, and CLOSE is not one of the types sent to the worker pool. -/
theorem cfg_ok_current : CfgOk G.pipeCfg := by decide

theorem close_after_all_prior_current (as : List Action) (s : State)
    (hr : run G.pipeCfg (init G.pipeCfg) as = some s) (c : OReq) (hcr : c ∈ s.received) (hk : c.kind = .close)
    (hd : c ∈ s.dispatched ∨ c.oid ∈ s.handled) (r : OReq) (hrr : r ∈ s.received) (hlt : r.oid < c.oid)
    (hpool : r.kind ∈ G.pipeCfg.poolKinds) : r.oid ∈ s.finished :=
  close_after_all_prior G.pipeCfg cfg_ok_current as s hr c hcr hk hd r hrr hlt hpool

theorem close_after_everything_prior_current (as : List Action) (s : State)
    (hr : run G.pipeCfg (init G.pipeCfg) as = some s) (c : OReq) (hcr : c ∈ s.received) (hk : c.kind = .close)
    (hd : c ∈ s.dispatched ∨ c.oid ∈ s.handled) (r : OReq) (hrr : r ∈ s.received) (hlt : r.oid < c.oid) :
    r.oid ∈ s.finished :=
  close_after_everything_prior G.pipeCfg cfg_ok_current as s hr c hcr hk hd r hrr hlt

theorem closeSafe_always_current (as : List Action) (s : State)
    (hr : run G.pipeCfg (init G.pipeCfg) as = some s) : closeSafe G.pipeCfg s = true :=
  closeSafe_always G.pipeCfg cfg_ok_current as s hr

theorem close_blocks_current (s : State) (c : OReq) (rest : List OReq) (hp : s.pktChan = c :: rest)
    (hk : c.kind = .close) (hpr : s.pendingReg = none) (hw : s.working ≠ 0) :
    step G.pipeCfg s .dispatch = none :=
  close_blocks G.pipeCfg (by decide) (by decide) s c rest hp hk hpr hw

/-- READ and WRITE are what the pool serves today (so `close_after_all_prior_current` speaks about them). -/
theorem pool_is_rw_current : G.pipeCfg.poolKinds = [.rw] := by decide

/-! non-vacuity on the generated configuration -/
example : (run G.pipeCfg (init G.pipeCfg)
    [.recv ⟨1, .rw⟩, .recv ⟨2, .rw⟩, .recv ⟨3, .close⟩, .dispatch, .dispatch, .workerTake 0, .workerHandle 0,
     .workerReady 0, .dispatch]).isNone = true := by decide
example : (run G.pipeCfg (init G.pipeCfg)
    [.recv ⟨1, .rw⟩, .recv ⟨2, .rw⟩, .recv ⟨3, .close⟩, .dispatch, .dispatch, .workerTake 0, .workerTake 1,
     .workerHandle 1, .workerReady 1, .workerHandle 0, .workerReady 0, .dispatch, .cmdTake, .cmdHandle]).map
      (·.finished) = some [2, 1, 3] := by decide

end Sftp.C14
