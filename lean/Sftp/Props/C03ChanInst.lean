import Sftp.Props.C03Chan
import Sftp.Generated.ClientChanCfg
/-
  C03 (channel part) for the code as it is now: the theorems of Props/C03Chan.lean instantiated with the
  configuration the translator read off conn.go / client.go / pool.go (Generated/ClientChanCfg.lean, unit
  ClientChanCfg: every value of type `chan result` / `resChanPool` of package sftp classified by type into a
  closed list of contexts, `G.clientChanSites` is the evidence).  `generated_disciplined` is the tie: a source
  change that switches one of the six facts off (or that the translator does not recognise: neutral
  configuration) makes the `decide` fail and with it every `_generated` theorem.
-/
namespace Sftp.C03Chan
open Sftp Sftp.ClientChan

/-- the six source facts hold of the regenerated configuration -/
theorem generated_disciplined : G.clientChanCfg.Disciplined := by decide

/-- …which is then the hand-written `ChanCfg.current` -/
theorem generated_eq_current : G.clientChanCfg = ChanCfg.current := by decide

theorem discipline_reachable_generated (acts : List Action) (s : State) (h : Reach G.clientChanCfg acts s) :
    AtMostOneOutstandingPerChannel s :=
  discipline_reachable _ acts s generated_disciplined h

theorem at_most_one_outstanding_generated (acts : List Action) (s : State) (h : Reach G.clientChanCfg acts s) :
    (s.inflight.map (·.2)).Nodup ∧
    (∀ ch, ch ∈ s.pool → ch ∉ s.inflight.map (·.2) ∧ (s.chan ch).buf = [] ∧ (s.chan ch).owner = none) ∧
    (∀ ch, (s.chan ch).buf.length ≤ 1) ∧
    (∀ c c' ch, (s.pc c).ch? = some ch → (s.pc c').ch? = some ch → c = c') :=
  at_most_one_outstanding _ acts s generated_disciplined h

theorem each_recv_is_own_reply_generated (acts : List Action) (s : State) (h : Reach G.clientChanCfg acts s)
    (e : RecvEvent) (he : e ∈ s.log) :
    e.msg.sid = e.sid ∧ Action.envReply e.sid e.msg.payload ∈ acts ∧ Action.dispatch e.caller e.sid ∈ acts :=
  each_recv_is_own_reply _ acts s generated_disciplined h e he

theorem waiting_is_served_generated (acts : List Action) (s : State) (h : Reach G.clientChanCfg acts s)
    (c ch sid : Nat) (hw : s.pc c = .waiting ch sid) :
    (lookupSid s.inflight sid = some ch ∧ (s.chan ch).buf = []) ∨
    (∃ p, (s.chan ch).buf = [⟨sid, p⟩] ∧ Action.envReply sid p ∈ acts) :=
  waiting_is_served _ acts s generated_disciplined h c ch sid hw

theorem late_reply_never_blocks_generated (acts : List Action) (s : State) (h : Reach G.clientChanCfg acts s)
    (sid ch : Nat) (p : Bytes) (hl : lookupSid s.inflight sid = some ch) (hr : s.recvDead = false) :
    enabled G.clientChanCfg s (.envReply sid p) :=
  late_reply_never_blocks _ acts s generated_disciplined h sid ch p hl hr

/-- non-vacuity: the demo schedule of Props/C03Chan.lean is accepted under the regenerated configuration
(five receives, none foreign), so the `_generated` theorems speak about it -/
example : ∃ s, Reach G.clientChanCfg demo s ∧ s.log.length = 5 ∧ s.log.all (fun e => !e.foreign) = true :=
  ⟨_, by unfold Reach; exact Option.eq_some_of_isSome (by decide), by decide, by decide⟩

/-- the evidence table is not empty: the translator did find the sites it judged -/
example : G.clientChanSites.length > 0 := by decide

end Sftp.C03Chan
