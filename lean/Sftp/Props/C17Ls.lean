import Sftp.Proofs.C17Ls.All
import Sftp.Generated.LsOwner
/-
  C17, third part — "the human-readable long name in listings agrees with the structured
  attributes".

  * The permission column of every long name is `sshfx.FileMode(mode).String()`.  Its statement
    table (type switch, nine permission tests, three special-bit blocks with the condition each one
    consults) is regenerated from internal/encoding/ssh/filexfer/permissions.go
    (Generated/LsMode.lean, `G.lsMode`) and interpreted by `LsTable.render`; the reference is the
    hand-written POSIX `ls -l` rendering `Spec.LsMode.lsModeString`.  Equality is decided by the
    kernel on all 2^16 mode words (32 chunks, Proofs/C17Ls) and lifted.
  * The owner columns: the ordered owner sources of `fileStatFromInfo` (attributes) and of `runLs`
    (long name) are regenerated from attrs.go / attrs_unix.go and ls_formatting.go / ls_unix.go
    (Generated/LsOwner.lean: `G.attrsOwnerSteps`, `G.lsOwnerOrder`).
-/
namespace Sftp.C17
open Sftp Sftp.Spec.LsMode

/-- For every 16-bit mode word the permission column produced by `FileMode.String` is the POSIX
`ls -l` rendering of that word: type character, `rwx` triplets, and `s/S`, `s/S`, `t/T` chosen by
the execute bit of user, group and other respectively. -/
theorem longname_mode_column (m : Nat) (hm : m < 65536) :
    G.lsMode.string m = lsModeString m := by
  have h := ls_all m hm
  simp only [lsCheck, beq_iff_eq] at h
  simp only [LsTable.string, lsModeString, h]

/-- The same statement on the bytes. -/
theorem longname_mode_bytes (m : Nat) (hm : m < 65536) :
    G.lsMode.render m = lsModeCodes m := by
  have h := ls_all m hm
  simpa only [lsCheck, beq_iff_eq] using h

/-- The column always has the ten characters of `ls -l`. -/
theorem longname_mode_length (m : Nat) (hm : m < 65536) : (G.lsMode.render m).length = 10 := by
  rw [longname_mode_bytes m hm]; rfl

/-! Non-vacuity: sticky directories whose group and other execute bits differ, a setuid program,
a device node (checked against the literal strings). -/
example : lsModeString 0o041770 = "drwxrwx--T" ∧ G.lsMode.string 0o041770 = "drwxrwx--T" := by decide
example : lsModeString 0o041707 = "drwx---rwt" ∧ G.lsMode.string 0o041707 = "drwx---rwt" := by decide
example : lsModeString 0o104755 = "-rwsr-xr-x" ∧ lsModeString 0o102644 = "-rw-r-Sr--" := by decide
example : lsModeString 0o020620 = "crw--w----" ∧ lsModeString 0o170000 = "?---------" := by decide

/-! ### owner columns -/

/-- Interface override is unconditional: whatever `Sys()` is, the attributes of a `FileInfo`
implementing `FileInfoUidGid` carry the owner its `Uid()`/`Gid()` report. -/
theorem attrs_owner_interface_wins (fi : InfoShape) (h : "FileInfoUidGid" ∈ fi.ifaces) :
    attrsOwner G.attrsOwnerSteps fi = some fi.ifaceOwner := by
  simp [attrsOwner, G.attrsOwnerSteps, OwnerSrc.get, h]

/-- Without the interface the owner is the one of a `*syscall.Stat_t` in `Sys()` … -/
theorem attrs_owner_stat_t (fi : InfoShape) (h : "FileInfoUidGid" ∉ fi.ifaces)
    (hs : fi.sysTy = "*syscall.Stat_t") : attrsOwner G.attrsOwnerSteps fi = some fi.sysOwner := by
  simp [attrsOwner, G.attrsOwnerSteps, OwnerSrc.get, h, hs]

/-- … and otherwise no owner is reported (the UIDGID flag stays clear). -/
theorem attrs_owner_absent (fi : InfoShape) (h : "FileInfoUidGid" ∉ fi.ifaces)
    (hs : fi.sysTy ≠ "*syscall.Stat_t") : attrsOwner G.attrsOwnerSteps fi = none := by
  simp [attrsOwner, G.attrsOwnerSteps, OwnerSrc.get, h, hs]

/-- No owner source of either function carries a guard besides its type test (an extra guard in
the source flips the regenerated flag). -/
theorem owner_sources_unconditional :
    G.attrsOwnerSteps.all OwnerSrc.unconditional = true ∧
      G.lsOwnerOrder.all OwnerSrc.unconditional = true := by decide

/-- Long name and attributes name the same owner — the long name's owner lookup follows the
attributes' precedence: for EVERY `FileInfo` shape (any dynamic type of `Sys()`: nil, `*syscall.Stat_t`,
`*FileStat`, `*sshfx.Attributes`, anything else; implementing `FileInfoUidGid` or not; all ids), whenever
the attribute block carries an owner (UIDGID flag set) the long name shows exactly that owner.
Nothing is excluded: a `*FileStat` / `*sshfx.Attributes` in `Sys()` without the interface makes the
attributes carry NO owner (hypothesis false), see `longname_owner_when_attrs_have_none`. -/
theorem longname_owner_agrees (fi : InfoShape) (o : Nat × Nat)
    (h : attrsOwner G.attrsOwnerSteps fi = some o) : lsOwner G.lsOwnerOrder fi = o := by
  by_cases hi : "FileInfoUidGid" ∈ fi.ifaces
  · rw [attrs_owner_interface_wins fi hi] at h
    simp [lsOwner, G.lsOwnerOrder, OwnerSrc.get, hi] at h ⊢
    exact h
  · by_cases hst : fi.sysTy = "*syscall.Stat_t"
    · rw [attrs_owner_stat_t fi hi hst] at h
      simp [lsOwner, G.lsOwnerOrder, OwnerSrc.get, List.findSome?, hi, hst] at h ⊢
      exact h
    · rw [attrs_owner_absent fi hi hst] at h
      cases h

/-- The interface wins in the long name too, whatever `Sys()` is (the repaired order). -/
theorem longname_owner_interface_wins (fi : InfoShape) (h : "FileInfoUidGid" ∈ fi.ifaces) :
    lsOwner G.lsOwnerOrder fi = fi.ifaceOwner := by
  simp [lsOwner, G.lsOwnerOrder, OwnerSrc.get, h]

/-- What the long name shows when the attributes carry no owner: the ids of the package's own
attribute types if `Sys()` is one of them (structured owner absent, textual owner present — no
contradiction, but the only place where the two differ in information), "0 0" otherwise. -/
theorem longname_owner_when_attrs_have_none (fi : InfoShape)
    (h : attrsOwner G.attrsOwnerSteps fi = none) :
    lsOwner G.lsOwnerOrder fi =
      if fi.sysTy = "*sshfx.Attributes" ∨ fi.sysTy = "*FileStat" then fi.sysOwner else (0, 0) := by
  by_cases hi : "FileInfoUidGid" ∈ fi.ifaces
  · rw [attrs_owner_interface_wins fi hi] at h; cases h
  · by_cases hst : fi.sysTy = "*syscall.Stat_t"
    · rw [attrs_owner_stat_t fi hi hst] at h; cases h
    · by_cases h1 : fi.sysTy = "*sshfx.Attributes"
      · simp [lsOwner, G.lsOwnerOrder, OwnerSrc.get, List.findSome?, hi, h1]
      · by_cases h2 : fi.sysTy = "*FileStat"
        · simp [lsOwner, G.lsOwnerOrder, OwnerSrc.get, List.findSome?, hi, h2]
        · simp [lsOwner, G.lsOwnerOrder, OwnerSrc.get, List.findSome?, hi, h1, h2, hst]

/-! Non-vacuity: a handler's `FileInfo` wrapping a real `os.FileInfo` (Sys() = *syscall.Stat_t, owner
1001:1002 on disk) that maps the owner to 4242:4343 through `Uid()`/`Gid()`; a proxying handler whose
`Sys()` is the upstream `*FileStat`; a plain real file. -/
example :
    let fi : InfoShape := ⟨"*syscall.Stat_t", (1001, 1002), ["FileInfoUidGid"], (4242, 4343)⟩
    attrsOwner G.attrsOwnerSteps fi = some (4242, 4343) ∧ lsOwner G.lsOwnerOrder fi = (4242, 4343) := by decide
example :
    let fi : InfoShape := ⟨"*FileStat", (1001, 1002), ["FileInfoUidGid"], (4242, 4343)⟩
    attrsOwner G.attrsOwnerSteps fi = some (4242, 4343) ∧ lsOwner G.lsOwnerOrder fi = (4242, 4343) := by decide
example :
    let fi : InfoShape := ⟨"*syscall.Stat_t", (1001, 1002), [], (0, 0)⟩
    attrsOwner G.attrsOwnerSteps fi = some (1001, 1002) ∧ lsOwner G.lsOwnerOrder fi = (1001, 1002) := by decide
example :
    let fi : InfoShape := ⟨"*FileStat", (1001, 1002), [], (0, 0)⟩
    attrsOwner G.attrsOwnerSteps fi = none ∧ lsOwner G.lsOwnerOrder fi = (1001, 1002) := by decide

end Sftp.C17
