import Sftp.Spec.Layout
import Sftp.Generated.CodecTables
/-
  C08 (table level) — the facts of `recvPacket` and of the count guards, regenerated from the Go
  source (Generated/CodecTables.lean), are those the framing model `recvFrameL` and the decoder
  configuration `DecCfg` of Model/Codec.lean assume; and the boundary of the length check is where
  the specification puts it.
-/
namespace Sftp.C08
open Sftp Sftp.Codec

/-- `recvPacket` refuses a declared length above the limit after the four length bytes and before
the body is allocated or read, refuses length 0, reads the body with `io.ReadFull` and returns its
error, delivers `b[1:n]` only on success; the limit is 256 KiB; `sendPacket` writes as prefix the
number of bytes that follow it.  These are the assumptions under which
`recvFrameL G.recvMaxLen` / `frame` model `recvPacket` / `sendPacket`. -/
theorem framing_facts :
    G.recvLongCheck = true ∧ G.recvZeroCheck = true ∧ G.recvReadsFull = true ∧
    G.recvMaxLen = Spec.maxPacket ∧ G.sendLenExcludesPrefix = true := by decide

example : Spec.maxPacket = 262144 := by decide

/-- The main codec checks the extended-attribute count against the remaining bytes before it
allocates; the two configurations differ only in which decoder they describe. -/
theorem main_count_guard :
    G.decCfgMain.extCountGuard = true ∧ G.decCfgMain.fx = false ∧ G.decCfgFx.fx = true ∧
    G.decCfgFx.extCountGuard = G.decCfgMain.extCountGuard ∧
    G.decCfgFx.fxCountGuard = G.decCfgMain.fxCountGuard ∧
    G.decCfgFx.fxCountGuard = (G.fxExtCountGuard && G.fxNameCountGuard) := by decide

example : G.decCfgMain.extGuard = true := by decide

/-- A declared length above 262 144 is refused, with exactly the four length bytes consumed. -/
theorem recv_long_refused (s r : Bytes) (n : Nat) (h : get32? s = some (n, r)) (hn : 262144 < n) :
    recvFrameL G.recvMaxLen s = (.errLong, r) := by
  have hm : G.recvMaxLen = 262144 := by decide
  cases s with
  | nil => simp [get32?] at h
  | cons a t =>
    simp only [recvFrameL, recvBody, h, hm]
    rw [if_pos hn]

example : recvFrameL G.recvMaxLen ([0, 4, 0, 1] ++ [9, 9]) = (.errLong, [9, 9]) := by decide

/-- A declared length of exactly 262 144 is NOT refused as too long. -/
theorem recv_max_accepted (s r : Bytes) (h : get32? s = some (262144, r)) :
    (recvFrameL G.recvMaxLen s).1 ≠ .errLong := by
  have hm : G.recvMaxLen = 262144 := by decide
  cases s with
  | nil => simp [get32?] at h
  | cons a t =>
    simp only [recvFrameL, recvBody, h, hm]
    rw [if_neg (by omega), if_neg (by omega)]
    split
    · simp
    · split <;> simp

example : (recvFrameL G.recvMaxLen [0, 4, 0, 0, 7]).1 = .errShortBody 1 := by decide

/-- A declared length of zero is refused. -/
theorem recv_zero_refused (r : Bytes) : recvFrameL G.recvMaxLen ([0, 0, 0, 0] ++ r) = (.errZero, r) := by
  simp [recvFrameL, recvBody, get32?]

end Sftp.C08
