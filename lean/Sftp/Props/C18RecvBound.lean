import Sftp.Model.RecvBound
import Sftp.Generated.RecvBound
/-
  C18 / C08 — the server buffer allocator is invisible: a frame is accepted, refused or read identically with and
  without it (source shape of seeded defect C18_k: packet.go `recvPacket` accepted frames up to
  `maxMsgLength + maxMsgHeaderLength` while `allocator.GetPage` still makes pages of `maxMsgLength` bytes, so with the
  allocator on `b[:length]` panics for the 281 lengths just above 256 KiB; without it the same frame is served).

  Facts: `Generated/RecvBound.lean` (translator unit RecvBound, /verif/extract/round6.go): the condition of the
  long-packet check of recvPacket and the largest length that passes it (constant evaluated by go/types), the one slice
  of the receive buffer bounded by `length`, every assignment to the receive buffer with its guard; the constant size of
  every `make([]byte, N)` in the methods of `allocator` and where the page returned by GetPage comes from.
-/
namespace Sftp.C18RecvBound
open Sftp Sftp.RecvBound

/-- C18RecvBound.recv_bound_and_page_size_as_spec — packet.go recvPacket refuses `length > maxMsgLength` (256 KiB), reads
the body into `b[:length]` (low bound 0, high bound `length` itself), `b` being a page of `alloc.GetPage` when there is
an allocator and `make([]byte, length)` when there is none; allocator.go GetPage hands out either a recycled page or
`make([]byte, maxMsgLength)`, the only byte slice the allocator ever makes. -/
theorem recv_bound_and_page_size_as_spec :
    G.rbRecvBoundCond = "length > maxMsgLength" ∧ G.rbBoundRecognised = true ∧ G.rbRecvBound = 262144 ∧
    G.rbBodySlice = "b[:length]" ∧ G.rbBodySliceLow = "" ∧ G.rbBodySliceHigh = "length" ∧
    G.rbBufferSources = [("alloc != nil", "alloc.GetPage(orderID)"), ("!(alloc != nil)", "make([]byte, 4)"),
      ("alloc == nil", "make([]byte, length)")] ∧
    G.rbPageMakes = [262144] ∧ G.rbPageSources = ["available", "make"] ∧ G.rbPageSize = 262144 := by
  decide

/-- C18RecvBound.accepted_length_fits_a_page — with the two numbers read off the tree: the receive bound does not exceed
the page size, hence for EVERY length that passes recvPacket's checks the slice `b[:length]` is within the capacity of a
page, and recvPacket's verdict is the same with and without the allocator and is never a panic. -/
theorem accepted_length_fits_a_page :
    G.rbRecvBound ≤ G.rbPageSize ∧
    (∀ length : Nat, accepted G.rbRecvBound length = true → length ≤ G.rbPageSize) ∧
    (∀ length : Nat, recv G.rbRecvBound (some G.rbPageSize) length = recv G.rbRecvBound none length ∧
      recv G.rbRecvBound (some G.rbPageSize) length ≠ .panic) := by
  have h : G.rbRecvBound ≤ G.rbPageSize := by decide
  exact ⟨h, fun l ha => accepted_within_page _ _ h l ha, fun l => recv_same _ _ h l⟩

/-- non-vacuity: a full-size frame is accepted and read, one byte more is refused — in both modes -/
example : accepted G.rbRecvBound 262144 = true ∧ recv G.rbRecvBound (some G.rbPageSize) 262144 = .read ∧
    recv G.rbRecvBound (some G.rbPageSize) 262145 = .tooLong ∧ recv G.rbRecvBound none 262145 = .tooLong ∧
    recv G.rbRecvBound none 0 = .tooShort := by decide

/-! ### the seeded shape (hand-written parameters, so this part builds on every tree) -/

/-- C18RecvBound.seed_bound_past_page_panics_with_allocator — seed C18_k (bound = page size + 281): there IS an accepted
length beyond the page size; with the allocator the body slice panics, without it the frame is read — the two servers
differ; for every bound beyond the page size, the frame of page size + 1 bytes is such a length. -/
theorem seed_bound_past_page_panics_with_allocator :
    (∃ length : Nat, accepted (262144 + 281) length = true ∧ length > 262144) ∧
    recv (262144 + 281) (some 262144) 262166 = .panic ∧ recv (262144 + 281) none 262166 = .read ∧
    recv (262144 + 281) (some 262144) (262144 + 282) = .tooLong ∧
    (∀ bound pageSize : Nat, pageSize < bound →
      accepted bound (pageSize + 1) = true ∧ recv bound (some pageSize) (pageSize + 1) = .panic ∧
      recv bound none (pageSize + 1) = .read) := by
  refine ⟨⟨262145, by decide, by decide⟩, by decide, by decide, by decide, ?_⟩
  intro b p h
  exact recv_differs b p h

end Sftp.C18RecvBound
