import Sftp.Props.C10
/-
  C10 (and C02's "type legal for that request"), the two guards in front of the handlers of the request server —
  for the source as it is now.  This file builds only on a tree that has both (the repairs of F13 and of the
  short-attribute-block defect); Props/C10.lean builds with or without them.
-/
namespace Sftp.C10
open Sftp Sftp.Spec.ReqServer

/-- A request whose raw attribute block does not decode against its flags word (OPEN, SETSTAT, FSETSTAT) is
answered with a status before the type switch and never reaches a handler: the pre-check
`if err := attrsError(pkt.requestPacket); err != nil { readyPacket(status); continue }` is present, and
`attrsError` decodes exactly those three packet types with `unmarshalFileStat(flags, bytes)`. -/
theorem attrs_validated_before_dispatch :
    G.packetWorkerValidatesAttrs = true ∧ G.attrsErrorTypes = attrsTypes ∧ G.packetWorkerReadyOnce = true := by
  decide

/-- A READ / WRITE / READDIR is handed to `Request.call` only if the handle was opened with a method that serves
it (READ: Get or Open, WRITE: Put or Open, READDIR: List); otherwise it is answered with a status and no handler
or handler object is called. -/
theorem handle_kind_checked :
    G.handleKindChecked = true ∧ G.servesPacketTable = servesPacket ∧ G.servesPacketOtherTypesPass = true ∧
    reachCounts G.packetWorkerPaths = expectedReach ∧
    (∀ p ∈ (G.packetWorkerPaths.lookup "hasHandle").getD [],
      reachCount p = 1 → ("request.servesPacket", "V:pkt") ∈ p ∧ ("?", "!(!request.servesPacket(pkt))") ∈ p) := by
  decide

-- non-vacuity: the hasHandle case has a path that reaches a handler
example : ((G.packetWorkerPaths.lookup "hasHandle").getD []).any (fun p => reachCount p == 1) = true := by decide

end Sftp.C10
