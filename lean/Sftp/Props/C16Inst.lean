import Sftp.Props.C16
import Sftp.Generated.ListingCfg
/-
  C16 for the code as it is now: Props/C16.lean instantiated with the configurations the extractor read off
  request.go `filelist` (`G.srvCfg`), server.go `sshFxpReaddirPacket.respond` (`G.osCfg`) and client.go
  `ReadDirContext` (`G.cliCfg`).
-/
namespace Sftp.C16
open Sftp

/-- what the source says today satisfies every hypothesis of the listing theorems -/
theorem generated_cfg_ok :
    G.srvCfg.incByN = true ∧ G.srvCfg.eofOnlyWhenEmpty = true ∧ 1 ≤ G.srvCfg.batch ∧
    G.osCfg.errToStatus = true ∧ 1 ≤ G.osCfg.batch ∧
    G.cliCfg.filterDots = true ∧ G.cliCfg.stopOnStatus = true ∧
    G.cliCfg.eofIsNil = true ∧ G.cliCfg.baseName = true := by decide

/-- request server + client, as they are: every entry exactly once, for every legal lister. -/
theorem listing_exact_current (entries : List Entry) (beh : Beh) (hl : Legal entries.length beh)
    (fuel : Nat) (hfuel : entries.length + 1 ≤ fuel) :
    ∃ rounds, listRequestServer G.srvCfg G.cliCfg entries beh fuel = some ⟨expected entries, .nil, rounds⟩ :=
  listing_exact G.srvCfg G.cliCfg (by decide) (by decide) (by decide) (by decide) (by decide) (by decide)
    (by decide) entries beh hl fuel hfuel

theorem listing_exact_plain_current (entries : List Entry) (hplain : PlainNames entries) (beh : Beh)
    (hl : Legal entries.length beh) (fuel : Nat) (hfuel : entries.length + 1 ≤ fuel) :
    ∃ rounds, listRequestServer G.srvCfg G.cliCfg entries beh fuel =
      some ⟨entries.filter (fun e => !isDot e), .nil, rounds⟩ :=
  listing_exact_plain G.srvCfg G.cliCfg (by decide) (by decide) (by decide) (by decide) (by decide) (by decide)
    (by decide) entries hplain beh hl fuel hfuel

theorem listing_terminates_current (entries : List Entry) (beh : Beh) (hl : Legal entries.length beh) :
    ∃ r, listRequestServer G.srvCfg G.cliCfg entries beh (entries.length + 1) = some r ∧
      1 ≤ r.rounds ∧ r.rounds ≤ entries.length + 1 ∧
      ∀ fuel, entries.length + 1 ≤ fuel → listRequestServer G.srvCfg G.cliCfg entries beh fuel = some r :=
  listing_terminates G.srvCfg G.cliCfg (by decide) (by decide) (by decide) (by decide) (by decide) entries beh hl

/-- os-backed server + client, as they are. -/
theorem os_listing_exact_current (entries : List Entry) (fuel : Nat) (hfuel : entries.length + 1 ≤ fuel) :
    ∃ rounds, listOsServer G.osCfg G.cliCfg entries fuel = some ⟨expected entries, .nil, rounds⟩ ∧
      rounds ≤ entries.length + 1 :=
  os_listing_exact G.osCfg G.cliCfg (by decide) (by decide) (by decide) (by decide) (by decide) (by decide)
    entries fuel hfuel

/-! non-vacuity on the generated configurations: 7 entries, two of them `.`/`..`; batch 100 / 128 ⇒ 2 rounds -/
example : (listRequestServer G.srvCfg G.cliCfg ex7 (exampleBeh 7) 8).map
    (fun r => (files r.entries, r.err, r.rounds)) = some ([1, 3, 4, 5, 6], .nil, 2) := by decide
example : (listOsServer G.osCfg G.cliCfg ex7 8).map
    (fun r => (files r.entries, r.err, r.rounds)) = some ([1, 3, 4, 5, 6], .nil, 2) := by decide

end Sftp.C16
