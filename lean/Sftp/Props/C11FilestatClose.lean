import Sftp.Model.ListerClose
import Sftp.Generated.FilestatClose
/-
  C11 — every lister obtained from a handler is closed exactly once (source shape of seeded defect C11_l: in request.go
  `filestat` the common `if err != nil && err != io.EOF { return … }` of both method branches was hoisted to directly
  after `lister.ListAt(finfo, 0)` — i.e. BEFORE `if c, ok := lister.(io.Closer); ok { c.Close() }`; a lister whose
  ListAt fails is then returned from without being closed, and being attached to no Request nothing else ever closes it).

  Facts: `Generated/FilestatClose.lean` (translator unit FilestatClose, /verif/extract/round6.go): every call in the
  package of a handler method that hands out an object to be closed (Filelist, Lstat, Fileread, Filewrite, OpenFile)
  with what becomes of the result (attached to the Request by a setter | kept in a local); for the one function that
  keeps it in a local (filestat): the kinds of its top-level statements, the statements between the ListAt call and the
  close, and whether the close is reached on every path from the ListAt call.
-/
namespace Sftp.C11FilestatClose
open Sftp Sftp.ListerClose

/-- filestat as the translator reads it off the tree -/
def prog : List Stmt := G.fcFilestatKinds.map parse

/-- C11FilestatClose.filestat_shape_as_spec — request.go / request-server.go: the objects obtained in Request.open and
Request.opendir are attached to the Request by its setters (closing those is Props/C11CloseSites' and C11Serve's
business); filestat is the only function that keeps an obtained object in a local; its statements are: declarations,
the obtain, `if err != nil { return … }`, `finfo := …`, the ListAt call, `finfo = finfo[:n]`, the close, and only then
the switch with its returns. -/
theorem filestat_shape_as_spec :
    G.fcObtainSites =
      [("Request.open", "OpenFile", "attached:setWriterAtReaderAt"), ("Request.open", "Filewrite", "attached:setWriterAt"),
       ("Request.open", "Fileread", "attached:setReaderAt"), ("Request.opendir", "Filelist", "attached:setListerAt"),
       ("filestat", "Lstat", "local"), ("filestat", "Filelist", "local"), ("filestat", "Filelist", "local")] ∧
    G.fcLocalObjectFuncs = ["filestat"] ∧
    G.fcFilestatKinds = ["var", "var", "obtain", "errReturn", "plain", "listAt", "plain", "close", "returns"] ∧
    G.fcBetweenListAtAndClose = ["finfo = finfo[:n]"] ∧
    G.fcCloseDominatesReturns = true ∧ G.fcFilestatKinds.all known = true := by
  decide

/-- C11FilestatClose.lister_closed_exactly_once_on_every_outcome — filestat as read off the tree: whether or not the
handler hands out a lister, and WHICHEVER of the later conditional returns are taken (i.e. for every outcome of ListAt —
entries, EOF, any error — every method and every count), the lister has been closed exactly once when filestat is left
if one was obtained, and nothing is closed if none was. -/
theorem lister_closed_exactly_once_on_every_outcome (obtained : Bool) (choices : List Bool) :
    exec obtained prog choices 0 = if obtained then 1 else 0 := by
  have h : dominated prog = true := by decide
  simpa using exec_dominated obtained prog h choices 0

/-- non-vacuity: ListAt fails and the switch returns at once / ListAt succeeds; obtain fails -/
example : exec true prog [true] 0 = 1 ∧ exec true prog [false] 0 = 1 ∧ exec false prog [] 0 = 0 ∧
    prog = [.var, .var, .obtain, .errReturn, .plain, .listAt, .plain, .close, .returns] := by decide

/-! ### the seeded shape (hand-written parameter, so this part builds on every tree) -/

/-- seed C11_l: the hoisted error check stands between ListAt and the close -/
def seedProg : List Stmt := [.var, .var, .obtain, .errReturn, .plain, .listAt, .returns, .plain, .close, .returns]

/-- the seed's conditional return is taken iff ListAt reports an error other than io.EOF -/
inductive ListAtOutcome where
  | entries | eof | err
  deriving DecidableEq, Repr

def seedChoices : ListAtOutcome → List Bool
  | .err => [true]
  | _ => [false, true]

/-- C11FilestatClose.seed_return_before_close_leaks_the_lister — seed C11_l: with a lister obtained and ListAt failing,
filestat is left with the lister closed ZERO times; on the other two outcomes it is closed once (replies and the
existing suite are unchanged); the shape check says so: the close no longer dominates. -/
theorem seed_return_before_close_leaks_the_lister :
    exec true seedProg (seedChoices .err) 0 = 0 ∧ exec true seedProg (seedChoices .entries) 0 = 1 ∧
    exec true seedProg (seedChoices .eof) 0 = 1 ∧ dominated seedProg = false ∧
    (∃ choices, exec true seedProg choices 0 ≠ 1) := by
  refine ⟨by decide, by decide, by decide, by decide, ⟨[true], by decide⟩⟩

end Sftp.C11FilestatClose
