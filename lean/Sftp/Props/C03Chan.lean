import Sftp.Proofs.ClientChan.Step
/-
  C03 (channel part) — "Every client operation returns the result the server produced for that very request,
  no matter in which order the server answers outstanding requests and no matter how many goroutines share the
  Client or a File."

  Props/C03.lean proves routing for M-ClientConn, where every request has a channel of its own for ever and
  every call consumes its result.  Here result channels are RESOURCES (Sftp/Model/ClientChan.lean): made,
  pooled (`resChanPool`), re-used by a sequential loop, and abandoned with a request still outstanding
  (`case <-ctx.Done()`).  Property theorems only, over ALL schedules (`acts` arbitrary: any number of callers,
  any number of calls per caller, any reply order, any point of cancellation).  The hypothesis
  `cfg.Disciplined` is the conjunction of the six source facts of `ChanCfg`; it is discharged for
  `ChanCfg.current` by `decide` (`current_disciplined`).  Each fact is shown necessary by a concrete schedule.
-/
namespace Sftp.C03Chan
open Sftp Sftp.ClientChan

/-- The channel discipline is preserved by every action of every caller, the receiver and the environment. -/
theorem discipline_preserved (cfg : ChanCfg) (s s' : State) (a : Action) (hd : cfg.Disciplined)
    (h : AtMostOneOutstandingPerChannel s) (hs : step cfg s a = some s') :
    AtMostOneOutstandingPerChannel s' :=
  inv_step hd h hs

/-- …and holds initially, hence in every reachable state. -/
theorem discipline_reachable (cfg : ChanCfg) (acts : List Action) (s : State) (hd : cfg.Disciplined)
    (h : Reach cfg acts s) : AtMostOneOutstandingPerChannel s :=
  reach_inv hd h

/-- The discipline in plain words: every channel id appears at most once in the range of `inflight`; a
channel in the pool is not in that range, has an empty buffer and no holder; no buffer exceeds its one slot;
two callers never hold the same channel. -/
theorem at_most_one_outstanding (cfg : ChanCfg) (acts : List Action) (s : State) (hd : cfg.Disciplined)
    (h : Reach cfg acts s) :
    (s.inflight.map (·.2)).Nodup ∧
    (∀ ch, ch ∈ s.pool → ch ∉ s.inflight.map (·.2) ∧ (s.chan ch).buf = [] ∧ (s.chan ch).owner = none) ∧
    (∀ ch, (s.chan ch).buf.length ≤ 1) ∧
    (∀ c c' ch, (s.pc c).ch? = some ch → (s.pc c').ch? = some ch → c = c') := by
  have i := reach_inv hd h
  refine ⟨i.targetsNodup, i.poolFree, i.oneSlot, ?_⟩
  intro c c' ch hc hc'
  have a := i.owned c ch hc
  have b := i.owned c' ch hc'
  rw [a] at b
  exact Option.some.inj b

/-- The executable check printed by the driver (`disc=1`) passes in every reachable state. -/
theorem discipline_check_passes (cfg : ChanCfg) (acts : List Action) (s : State) (hd : cfg.Disciplined)
    (h : Reach cfg acts s) : s.disciplineOk = true :=
  disciplineOk_of_inv (reach_inv hd h)

/-- EACH RECEIVE IS THE OWN REPLY.  For every schedule accepted from `init`: whenever a caller received a
value from its channel (`log` records every `callerRecv`), that value carries the sid the caller had
dispatched, its payload is one the environment sent in a frame with that sid, and the caller did dispatch
that sid. -/
theorem each_recv_is_own_reply (cfg : ChanCfg) (acts : List Action) (s : State) (hd : cfg.Disciplined)
    (h : Reach cfg acts s) (e : RecvEvent) (he : e ∈ s.log) :
    e.msg.sid = e.sid ∧ Action.envReply e.sid e.msg.payload ∈ acts ∧
    Action.dispatch e.caller e.sid ∈ acts := by
  have hown := (reach_inv hd h).logOwn e he
  have ht := (reach_traced h).logSent e he
  exact ⟨hown, hown ▸ ht.1, ht.2.1⟩

/-- The same at the very step: if `callerRecv c` can fire in a reachable state where `c` waits for `sid`,
the caller ends up with a message tagged `sid` whose payload the environment sent for `sid`. -/
theorem recv_step_is_own_reply (cfg : ChanCfg) (acts : List Action) (s s' : State) (hd : cfg.Disciplined)
    (h : Reach cfg acts s) (c ch sid : Nat) (hw : s.pc c = .waiting ch sid)
    (hs : step cfg s (.callerRecv c) = some s') :
    ∃ p, s'.pc c = .got ch sid ⟨sid, p⟩ ∧ Action.envReply sid p ∈ acts ∧
      s'.log = s.log ++ [⟨c, sid, ⟨sid, p⟩⟩] := by
  have i := reach_inv hd h
  have t := reach_traced h
  simp only [step, hw] at hs
  split at hs
  · cases hs
  · next m rest hb =>
    simp only [Option.some.injEq] at hs; subst hs
    have hm := (inv_callerRecv i hw hb).2
    have hsent := t.bufSent ch m (by rw [hb]; exact List.mem_cons_self)
    obtain ⟨ms, mp⟩ := m
    simp only at hm; subst hm
    exact ⟨mp, by simp [State.setPc], hsent, by simp [State.setPc, State.setBuf]⟩

/-- The log is complete: it has one entry per `callerRecv` of the schedule (any configuration). -/
theorem log_counts_receives (cfg : ChanCfg) (acts : List Action) (s : State) (h : Reach cfg acts s) :
    s.log.length = (acts.filter Action.isRecv).length := by
  refine Reach.induction (cfg := cfg)
    (fun acts s => s.log.length = (acts.filter Action.isRecv).length) rfl ?_ acts s h
  intro acts s a s' _ ih hs
  rw [List.filter_append, List.length_append, ← ih, log_step hs]
  cases hr : a.isRecv <;> simp [List.filter, hr]

/-- NO REPLY IS STOLEN.  A caller that is waiting either still has its request registered with its own
channel (and that channel is empty), or its own reply — the payload the environment sent for its sid — is the
one thing in its channel.  So no other call took its reply, and a late reply to someone else's abandoned
request is not in its way. -/
theorem waiting_is_served (cfg : ChanCfg) (acts : List Action) (s : State) (hd : cfg.Disciplined)
    (h : Reach cfg acts s) (c ch sid : Nat) (hw : s.pc c = .waiting ch sid) :
    (lookupSid s.inflight sid = some ch ∧ (s.chan ch).buf = []) ∨
    (∃ p, (s.chan ch).buf = [⟨sid, p⟩] ∧ Action.envReply sid p ∈ acts) := by
  have i := reach_inv hd h
  rcases i.served c ch sid hw with hm | ⟨p, hp⟩
  · refine .inl ⟨lookupSid_of_mem i.keysNodup hm, i.targetEmpty ch ?_⟩
    simp only [State.targets, List.mem_map]; exact ⟨_, hm, rfl⟩
  · exact .inr ⟨p, hp, (reach_traced h).bufSent ch ⟨sid, p⟩ (by rw [hp]; exact List.mem_cons_self)⟩

/-- A LATE REPLY NEVER BLOCKS THE RECEIVER.  Whatever registered request the environment answers — that of a
waiting caller or of one that gave up long ago — the send into its channel is enabled (the one slot is free). -/
theorem late_reply_never_blocks (cfg : ChanCfg) (acts : List Action) (s : State) (hd : cfg.Disciplined)
    (h : Reach cfg acts s) (sid ch : Nat) (p : Bytes) (hl : lookupSid s.inflight sid = some ch)
    (hr : s.recvDead = false) : enabled cfg s (.envReply sid p) := by
  have i := reach_inv hd h
  have hb : (s.chan ch).buf = [] := i.targetEmpty ch (by
    simp only [State.targets, List.mem_map]; exact ⟨_, lookupSid_mem hl, rfl⟩)
  simp [enabled, step, hr, hl, hb, chanCap]

/-- Every abandoned request was dispatched by the caller that gave it up (bookkeeping of `gaveUp`). -/
theorem gave_up_was_dispatched (cfg : ChanCfg) (acts : List Action) (s : State) (h : Reach cfg acts s)
    (c sid : Nat) (hg : (c, sid) ∈ s.gaveUp) :
    Action.dispatch c sid ∈ acts ∧ Action.abandon c ∈ acts :=
  (reach_traced h).gaveUpSent (c, sid) hg

/-! ### the code as it is today -/

theorem current_disciplined : ChanCfg.current.Disciplined := by decide

/-! ### non-vacuity: the hypotheses are satisfiable on schedules that exercise every kind of step -/

/-- Three callers.  Caller 0 makes a sync call (fresh channel 0), request 1, and is cancelled; its channel is
dropped.  Caller 1 runs a pooled transfer item: fresh channel 1, request 2, receives, Puts; caller 2 Gets the
same channel 1 from the pool for request 3; caller 1 then runs a sequential loop on fresh channel 2 (requests
4 and 5 on the same channel).  The environment answers 3 before the late reply to the abandoned request 1,
which lands in the dropped channel 0 and stays there.  Caller 0 meanwhile makes a new call (request 6, fresh
channel 3). -/
def demo : List Action :=
  [.acquireFresh 0, .dispatch 0 1, .acquireFresh 1, .dispatch 1 2, .abandon 0,
   .envReply 2 [0x22], .callerRecv 1, .release 1,
   .acquirePool 2 1, .dispatch 2 3, .acquireFresh 1, .dispatch 1 4,
   .acquireFresh 0, .dispatch 0 6,
   .envReply 3 [0x33], .envReply 1 [0x11], .envReply 6 [0x66], .envReply 4 [0x44],
   .callerRecv 2, .callerRecv 1, .reuseOwn 1, .dispatch 1 5, .envReply 5 [0x55], .callerRecv 1,
   .callerRecv 0, .drop 0, .release 2, .drop 1]

example : (run ChanCfg.current init demo).map (fun s => s.log) =
    some [⟨1, 2, ⟨2, [0x22]⟩⟩, ⟨2, 3, ⟨3, [0x33]⟩⟩, ⟨1, 4, ⟨4, [0x44]⟩⟩, ⟨1, 5, ⟨5, [0x55]⟩⟩,
          ⟨0, 6, ⟨6, [0x66]⟩⟩] := by decide

/-- final state: request 1 was given up, channel 1 is back in the pool, nothing registered, the late reply
to request 1 sits in the dropped channel 0 which nobody holds, four channels were made -/
example : (run ChanCfg.current init demo).map (fun s => (s.gaveUp, s.pool, s.inflight, s.nchan)) =
    some ([(0, 1)], [1], [], 4) := by decide

example : (run ChanCfg.current init demo).map (fun s => ((s.chan 0).buf, (s.chan 0).owner, s.recvDead)) =
    some ([⟨1, [0x11]⟩], none, false) := by decide

/-- `demo` is accepted, so `each_recv_is_own_reply` speaks about it: five receives, none foreign. -/
example : ∃ s, Reach ChanCfg.current demo s ∧ s.log.length = 5 ∧ s.log.all (fun e => !e.foreign) = true :=
  ⟨_, by unfold Reach; exact Option.eq_some_of_isSome (by decide), by decide, by decide⟩

/-- while the abandoned request is still registered its late reply is enabled (`late_reply_never_blocks`) -/
example : (run ChanCfg.current init (demo.take 15)).map
    (fun s => (lookupSid s.inflight 1, decide (enabled ChanCfg.current s (.envReply 1 [0x11])))) =
    some (some 0, true) := by decide

/-- a waiting caller with its reply buffered, and one still registered (`waiting_is_served`, both arms) -/
example : (run ChanCfg.current init (demo.take 15)).map
    (fun s => (s.pc 2, (s.chan 1).buf, s.pc 0, lookupSid s.inflight 6, (s.chan 3).buf)) =
    some (.waiting 1 3, [⟨3, [0x33]⟩], .waiting 3 6, some 3, []) := by decide

/-- the one-slot buffer blocks the receiver when a second frame targets a full channel — only possible
outside the discipline (here: a re-dispatch on a channel whose reply was not taken) -/
example : (run { ChanCfg.current with reuseOnlySequential := false } init
    [.acquireFresh 0, .dispatch 0 1, .envReply 1 [1], .reuseOwn 0, .dispatch 0 2]).map
    (fun s => decide (enabled { ChanCfg.current with reuseOnlySequential := false } s (.envReply 2 [2]))) =
    some false := by decide

/-! ### necessity: each source fact switched off (alone) allows a schedule with a foreign reply -/

/-- configuration of seed C03_b: sync calls recycle their channel through a pool and Put it on every exit
path, including `case <-ctx.Done()` -/
def cfgSeedB : ChanCfg :=
  { ChanCfg.current with poolPutOnlyAfterRecv := false, abandonedNotReturned := false }

/-- Seed C03_b.  Caller 0's request 1 is cancelled while outstanding and its channel 0 goes back to the
pool; caller 1 Gets channel 0 for request 2; the late reply to request 1 lands in channel 0 and caller 1
returns it as the result of request 2.  Caller 1's own reply then sits in the pooled channel and poisons
caller 2's request 3. -/
theorem seedB_late_reply_misrouted :
    (run cfgSeedB init
      [.acquireFresh 0, .dispatch 0 1, .abandon 0, .acquirePool 1 0, .dispatch 1 2,
       .envReply 1 [0xaa], .callerRecv 1, .release 1, .envReply 2 [0xbb],
       .acquirePool 2 0, .dispatch 2 3, .callerRecv 2]).map (fun s => (s.log, s.log.map (·.foreign))) =
    some ([⟨1, 2, ⟨1, [0xaa]⟩⟩, ⟨2, 3, ⟨2, [0xbb]⟩⟩], [true, true]) := by decide

/-- …and the discipline invariant is what breaks first: after the abandon the pooled channel 0 is the target
of the registered request 1. -/
theorem seedB_breaks_discipline :
    (run cfgSeedB init [.acquireFresh 0, .dispatch 0 1, .abandon 0]).map
      (fun s => (s.pool, s.inflight)) = some ([0], [(1, 0)]) := by decide

example : (run cfgSeedB init [.acquireFresh 0, .dispatch 0 1, .abandon 0]).map (·.disciplineOk) =
    some false := by decide

/-- `abandonedNotReturned = false` alone suffices -/
theorem abandonedNotReturned_needed :
    (run { ChanCfg.current with abandonedNotReturned := false } init
      [.acquireFresh 0, .dispatch 0 1, .abandon 0, .acquirePool 1 0, .dispatch 1 2,
       .envReply 1 [0xaa], .callerRecv 1]).map (fun s => s.log) = some [⟨1, 2, ⟨1, [0xaa]⟩⟩] := by decide

/-- `poolPutOnlyAfterRecv = false` alone suffices (a Put before the receive, e.g. a `defer pool.Put`) -/
theorem poolPutOnlyAfterRecv_needed :
    (run { ChanCfg.current with poolPutOnlyAfterRecv := false } init
      [.acquireFresh 0, .dispatch 0 1, .release 0, .acquirePool 1 0, .dispatch 1 2,
       .envReply 1 [0xaa], .callerRecv 1]).map (fun s => s.log) = some [⟨1, 2, ⟨1, [0xaa]⟩⟩] := by decide

/-- Seed C03_d (`sharedAcrossCallers = true`: one `res chan result` per File used by ReadAt/WriteAt under
RLock).  Callers 0 and 1 dispatch requests 1 and 2 with the same channel 0; the server answers 2 first;
caller 0 takes it.  When 1 is answered, caller 1 gets that: the replies are swapped. -/
theorem seedD_shared_channel_swaps :
    (run { ChanCfg.current with sharedAcrossCallers := true } init
      [.acquireFresh 0, .acquireExisting 1 0, .dispatch 0 1, .dispatch 1 2,
       .envReply 2 [0xbb], .callerRecv 0, .envReply 1 [0xaa], .callerRecv 1]).map (fun s => s.log) =
    some [⟨0, 1, ⟨2, [0xbb]⟩⟩, ⟨1, 2, ⟨1, [0xaa]⟩⟩] := by decide

/-- …where the discipline breaks: channel 0 twice in the range of `inflight`. -/
theorem seedD_breaks_discipline :
    (run { ChanCfg.current with sharedAcrossCallers := true } init
      [.acquireFresh 0, .acquireExisting 1 0, .dispatch 0 1, .dispatch 1 2]).map
      (fun s => s.inflight.map (·.2)) = some [0, 0] := by decide

/-- `reuseOnlySequential = false`: a loop re-dispatches on its channel without having taken the previous
reply (e.g. a reusable channel combined with a cancellable ctx): it gets the old reply for the new request. -/
theorem reuseOnlySequential_needed :
    (run { ChanCfg.current with reuseOnlySequential := false } init
      [.acquireFresh 0, .dispatch 0 1, .reuseOwn 0, .dispatch 0 2, .envReply 1 [0xaa], .callerRecv 0]).map
      (fun s => s.log) = some [⟨0, 2, ⟨1, [0xaa]⟩⟩] := by decide

/-- `freshPerSyncCall = false`: a call picks up the dropped channel of an abandoned request. -/
theorem freshPerSyncCall_needed :
    (run { ChanCfg.current with freshPerSyncCall := false } init
      [.acquireFresh 0, .dispatch 0 1, .abandon 0, .acquireExisting 1 0, .dispatch 1 2,
       .envReply 1 [0xaa], .callerRecv 1]).map (fun s => s.log) = some [⟨1, 2, ⟨1, [0xaa]⟩⟩] := by decide

/-- `idsDistinctInFlight = false`: the second registration of sid 5 overwrites the first; the reply goes to
caller 1 and caller 0 waits for ever: not registered, nothing buffered (`waiting_is_served` fails). -/
theorem idsDistinctInFlight_needed :
    (run { ChanCfg.current with idsDistinctInFlight := false } init
      [.acquireFresh 0, .dispatch 0 5, .acquireFresh 1, .dispatch 1 5, .envReply 5 [0xaa], .callerRecv 1]).map
      (fun s => (s.pc 0, lookupSid s.inflight 5, (s.chan 0).buf, s.log)) =
    some (.waiting 0 5, none, [], [⟨1, 5, ⟨5, [0xaa]⟩⟩]) := by decide

end Sftp.C03Chan
