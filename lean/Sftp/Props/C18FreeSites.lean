import Sftp.Model.AllocFree
import Sftp.Generated.AllocFreeSites
/-
  C18 / C07 — the server buffer allocator is invisible, and no byte stream can crash a server: the allocator's page table is
  given up only when nobody can ask it for a page any more (source shape of seeded defect C07_n: conn.go `(*conn).Close`
  also called `alloc.Free()`, and allocator.go `Free` left `used` nil instead of a fresh map; hanging up with a READ still
  waiting for a worker then ends in `panic: assignment to entry in nil map` inside `allocator.GetPage`).

  Facts: `Generated/AllocFreeSites.lean` (translator unit AllocFreeSites, /verif/extract/round7.go): every call of
  `(*allocator).Free` in the package with the place it stands in; for the two Serve functions the top-level `wg.Wait()` /
  `pktMgr.wait()` statements, the number of returns before the first, the go statements with the WaitGroup bracket of the
  goroutine they start; the callers of GetPage / ReleasePages; every write to the allocator's `used` / `available` fields
  with the class of its right-hand side; GetPage's index-assignment into `used` and the conditions it stands under.
-/
namespace Sftp.C18FreeSites
open Sftp Sftp.AllocFree

/-- is Free called only from the deferred epilogue of the two Serve functions, which return only after wg.Wait()? -/
def freeOnlyInEpilogue : Bool :=
  G.afFreeSites.all (fun s => (s.1 == "Server.Serve" || s.1 == "RequestServer.Serve") && s.2.1 == "defer-literal@0") &&
  G.afServeReturnsBeforeWait.all (fun r => r.2 == 0) &&
  G.afServeWaits.all (fun w => w.2 == ["wg.Wait()", "pktMgr.wait()"]) &&
  G.afServeGoStmts.all (fun g => g.2.1 == "wg.Add(1)" && g.2.2 == "defer wg.Done()")

/-- does Free leave `used` nil? (anything but `make` counts as nil) -/
def freeLeavesUsedNil : Bool :=
  !(G.afFieldWrites.filter (fun w => w.1 == "allocator.Free" && w.2.1 == "used") == [("allocator.Free", "used", "make")])

/-- the model's parameters as the tree has them -/
def cfg : Cfg := ⟨!freeOnlyInEpilogue, freeLeavesUsedNil⟩

/-- C18FreeSites.free_sites_and_table_writes_as_spec — `(*allocator).Free` is called at exactly two places: inside the
deferred function literal that is the FIRST statement of `(*RequestServer).Serve` and of `(*Server).Serve`, under
`if s.pktMgr.alloc != nil`; both functions have `wg.Wait()` and then `s.pktMgr.wait()` as plain top-level statements and no
`return` before them, and the only goroutines they start are bracketed by `wg.Add(1)` … `defer wg.Done()`: the deferred
Free runs after every worker has finished and after the receive loop (which runs on Serve's own goroutine).  GetPage is
called by recvPacket (receive loop) and getDataSlice (workers) only.  The table `used` is written by: newAllocator (make),
GetPage (index-assign, unconditionally), ReleasePages (delete), Free (make — a fresh table, never nil); `available` by
newAllocator (make), GetPage (index-assign + reslice, both under `len(a.available) > 0`), ReleasePages (append), Free (nil). -/
theorem free_sites_and_table_writes_as_spec :
    G.afFreeSites = [("RequestServer.Serve", "defer-literal@0", "s.pktMgr.alloc != nil", "s.pktMgr.alloc"),
      ("Server.Serve", "defer-literal@0", "s.pktMgr.alloc != nil", "s.pktMgr.alloc")] ∧
    G.afServeWaits = [("RequestServer.Serve", ["wg.Wait()", "pktMgr.wait()"]), ("Server.Serve", ["wg.Wait()", "pktMgr.wait()"])] ∧
    G.afServeReturnsBeforeWait = [("RequestServer.Serve", 0), ("Server.Serve", 0)] ∧
    G.afServeGoStmts = [("RequestServer.Serve", "wg.Add(1)", "defer wg.Done()"), ("Server.Serve", "wg.Add(1)", "defer wg.Done()")] ∧
    G.afGetPageCallers = ["recvPacket", "sshFxpReadPacket.getDataSlice"] ∧
    G.afReleasePagesCallers = ["packetManager.maybeSendPackets"] ∧
    G.afFieldWrites = [("allocator.Free", "available", "nil"), ("allocator.Free", "used", "make"),
      ("allocator.GetPage", "available", "index-assign"), ("allocator.GetPage", "available", "reslice"),
      ("allocator.GetPage", "used", "index-assign"),
      ("allocator.ReleasePages", "available", "append"), ("allocator.ReleasePages", "used", "delete"),
      ("newAllocator", "available", "make"), ("newAllocator", "used", "make")] ∧
    G.afGetPageUsedAssigns = [("", "0")] ∧ G.afGetPageAssignsUsedUnconditionally = true ∧
    freeOnlyInEpilogue = true ∧ freeLeavesUsedNil = false := by
  decide

/-- C18FreeSites.no_getpage_on_a_freed_table — Free where the tree has it: for EVERY number k of READs still queued when
the model starts, every further packet the receive loop takes in, and EVERY interleaving of the workers, the reply
sender, the hang-up (any number of `conn.Close`) and the end of Serve: no GetPage ever runs on a freed table, and nothing
panics.  (The first conjunct does not depend on what Free leaves in `used`.) -/
theorem no_getpage_on_a_freed_table (k : Nat) (acts : List Act) (s : St)
    (hr : run cfg (St.init k) acts = some s) : s.uaf = false ∧ s.panicked = false := by
  have h : cfg.freeAtHangup = false := by decide
  exact epilogue_only_no_use_after_free cfg h k acts s hr

/-- non-vacuity: two READs queued, a third arrives, a worker hangs up, the loop's next recvPacket still takes a page and
fails, the three READs are served after the hang-up, Serve returns and frees: a run of the model, ending freed, clean;
and the epilogue is not enabled while a READ is queued -/
example : (run cfg (St.init 2) [.recv 3, .serve 1, .hangup, .recv 4, .serve 2, .release 1, .serve 3, .epilogue]).map
      (fun s => (s.queued, s.used, s.freed, s.uaf, s.panicked, s.done)) = some (0, some [], true, false, false, true) ∧
    run cfg (St.init 1) [.eof, .epilogue] = none ∧
    run cfg (St.init 0) [.eof, .epilogue, .serve 0] = none ∧
    run cfg (St.init 0) [.eof, .epilogue, .recv 0] = none := by decide

/-- C18FreeSites.fresh_table_is_safe_anywhere — with Free re-creating the table (as the tree has it) the model never
panics even if Free were called at the hang-up: the first edit of the seed alone is harmless. -/
theorem fresh_table_is_safe_anywhere (atHangup : Bool) (k : Nat) (acts : List Act) (s : St)
    (hr : run ⟨atHangup, cfg.freeUsedNil⟩ (St.init k) acts = some s) : s.panicked = false := by
  have h : cfg.freeUsedNil = false := by decide
  exact fresh_table_never_panics ⟨atHangup, cfg.freeUsedNil⟩ h acts (St.init k) s (invMk_init k) hr

/-- non-vacuity: Free at the hang-up with a fresh table: the late GetPage is a use after free, but works -/
example : (run ⟨true, cfg.freeUsedNil⟩ (St.init 1) [.hangup, .serve 7]).map (fun s => (s.used, s.uaf, s.panicked))
    = some (some [7], true, false) := by decide

/-! ### the seeded shape (hand-written parameters, so this part builds on every tree) -/

/-- C18FreeSites.seed_free_at_hangup_panics — seed C07_n (Free also in conn.Close, Free leaves `used` nil): hang up with
one READ still queued, the worker's GetPage index-assigns into the nil map: panic — for every k ≥ 1 queued READs; with
the allocator's table re-created by Free (second edit only) the same schedule is served; with Free only in the epilogue
(first edit only: `used = nil`) the hang-up frees nothing and the READ is served. -/
theorem seed_free_at_hangup_panics :
    (run ⟨true, true⟩ (St.init 1) [.hangup, .serve 0]).map (fun s => (s.used, s.uaf, s.panicked)) = some (none, true, true) ∧
    (∀ k, ∃ s, run ⟨true, true⟩ (St.init (k + 1)) [.hangup, .serve 0] = some s ∧ s.panicked = true ∧ s.uaf = true) ∧
    (run ⟨true, true⟩ (St.init 0) [.hangup, .recv 0]).map (fun s => s.panicked) = some true ∧
    (run ⟨true, false⟩ (St.init 1) [.hangup, .serve 0]).map (fun s => (s.used, s.uaf, s.panicked)) = some (some [0], true, false) ∧
    (run ⟨false, true⟩ (St.init 1) [.hangup, .serve 0, .eof, .epilogue]).map (fun s => (s.used, s.uaf, s.panicked))
      = some (none, false, false) := by
  refine ⟨by decide, free_at_hangup_nil_panics, by decide, by decide, by decide⟩

end Sftp.C18FreeSites
