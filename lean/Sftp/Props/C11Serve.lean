import Sftp.Model.ServeTail
import Sftp.Generated.ServeShape
/-
  C11 / C14 / C07 — Serve's end-of-session clean-up always runs, and runs AFTER the workers are done (source shapes of
  seeded defects C11_h: the os-backed Serve returned from inside the receive loop on a makePacket error, skipping
  close(pktChan) / wg.Wait() / pktMgr.wait() / the open-files sweep; C14_j: the request server's wg.Wait() and
  pktMgr.wait() were turned into defers, so they ran after the sweep; C11_i: the sweep was moved before the waits.
  The differential harness caught all three, no extracted fact covered them).

  Facts: `Generated/ServeShape.lean` (translator unit ServeShape, /verif/extract/round5.go), for both Serve functions:
  where the receive loop is (inline / in the helper serveLoop, whose returns only leave the helper and whose deferred
  close(pktChan) runs before Serve's next statement), how control leaves it, that Serve's only return is its last
  statement, the defers registered before the loop, and the statements after the loop classified by callee objects.
-/
namespace Sftp.C11Serve
open Sftp Sftp.ServeTail

def servers : List String := ["Server", "RequestServer"]

/-- the steps Serve executes after its receive loop, in execution order, as read off the tree -/
def steps (server : String) : List Step :=
  execOrder ((G.servePrefixDefers.lookup server).getD []) ((G.serveTail.lookup server).getD [])

/-- every way Serve can come to its end: through the statements after the loop — and, if Serve can return from inside
the loop, also directly (only the defers registered before the loop run) -/
def paths (server : String) : List (List Step) :=
  if G.serveLoopHasNoReturn.lookup server = some true then [steps server]
  else [steps server, execOrder ((G.servePrefixDefers.lookup server).getD []) []]

/-- C11Serve.sweep_after_workers_done — both servers: the receive loop is left only by `break` (os-backed server, loop inline)
or by returns of the helper serveLoop (request server: Serve calls it as a plain statement and goes on); Serve has no
return but its last statement; after the loop come, as PLAIN statements in this order, close(pktChan) [request server:
serveLoop's deferred close, which runs when serveLoop returns], wg.Wait(), pktMgr.wait(), the sweep over the handle
table, `return err`; the only deferred calls are the allocator's Free, cancel() and mu.Unlock(). -/
theorem sweep_after_workers_done :
    G.serveLoopSite = [("Server", "inline"), ("RequestServer", "helper:RequestServer.serveLoop")] ∧
    G.serveLoopExits = [("Server", ["break", "break"]), ("RequestServer", ["return", "return"])] ∧
    G.serveLoopHasNoReturn = [("Server", true), ("RequestServer", true)] ∧
    G.serveWaitsBeforeSweep = [("Server", true), ("RequestServer", true)] ∧
    G.servePrefixDefers = [("Server", ["defer allocFree()"]), ("RequestServer", ["defer allocFree()", "defer cancel()"])] ∧
    G.serveTail =
      [("Server", ["close(pktChan)", "wg.Wait()", "pktMgr.wait()", "sweep(openFiles)", "return err"]),
       ("RequestServer", ["close(pktChan)@serveLoop", "wg.Wait()", "pktMgr.wait()", "mu.Lock()", "defer mu.Unlock()",
                          "sweep(openRequests)", "return err"])] ∧
    (G.serveTail.all (fun r => r.2.all known) && G.servePrefixDefers.all (fun r => r.2.all known)) = true := by
  decide

/-- C11Serve.serve_sweeps_only_after_every_received_request — for both servers, with the steps read off the tree (the
only way to Serve's end is through them: no return inside the loop): for
EVERY number of requests that were received and are unfinished when the receive loop ends and EVERY schedule of
workers and Serve, the sweep never closes the open objects while such a request is still queued or running (it can
neither pull an object from under a running ReadAt/WriteAt nor miss a handle that an OPEN still registers), and whenever
Serve gets to its end the sweep has run; and Serve is not blocked for ever (the channel is closed before wg.Wait()). -/
theorem serve_sweeps_only_after_every_received_request :
    ∀ server ∈ servers, paths server = [steps server] ∧ ∀ p ∈ paths server,
      (∀ (n : Nat) (acts : List Act) (s' : St), run (init n p) acts = some s' →
        s'.bad = false ∧ (s'.todo = [] → s'.swept = true)) ∧
      (∀ n : Nat, ∃ s', run (init n p)
          (List.replicate n .workerDone ++ List.replicate p.length .serve) = some s' ∧ s'.todo = []) := by
  intro server hs
  have hg : paths server = [steps server] ∧
      ∀ p ∈ paths server, guarded p = true ∧ Step.sweep ∈ p ∧ closesFirst p = true := by
    simp only [servers, List.mem_cons, List.not_mem_nil, or_false] at hs
    rcases hs with h | h <;> subst h <;> decide
  refine ⟨hg.1, ?_⟩
  intro p hp
  have h := hg.2 p hp
  exact ⟨fun n acts s' hr => sweep_safe _ h.1 h.2.1 n acts s' hr, fun n => can_complete _ h.2.2 n⟩

/-- non-vacuity: the request server's steps; two requests unfinished at the end of the loop, one finishes before
close(pktChan), one after: wg.Wait() is passed only then, the sweep runs with nothing pending -/
example : steps "RequestServer" = [.closeChan, .waitWorkers, .waitReplies, .other, .sweep, .other, .other, .other, .other] ∧
    (run (init 2 (steps "RequestServer")) [.workerDone, .serve, .workerDone, .serve, .serve, .serve, .serve]).map
      (fun s => (s.pending, s.swept, s.bad)) = some (0, true, false) ∧
    run (init 2 (steps "RequestServer")) [.serve, .serve] = none := by decide

/-! ### the seeded shapes (hand-written parameters, so this part builds on every tree) -/

/-- C11Serve.seed_sweep_before_wait_closes_under_a_running_request — seed C11_i (sweep moved before the waits) and seed
C14_j (the waits deferred: they run after the sweep and after `return err`): with one received request unfinished when
the loop ends, Serve sweeps at once — the object is closed while that request is still running. -/
theorem seed_sweep_before_wait_closes_under_a_running_request :
    execOrder ["defer allocFree()", "defer cancel()"]
      ["close(pktChan)@serveLoop", "mu.Lock()", "sweep(openRequests)", "mu.Unlock()", "wg.Wait()", "pktMgr.wait()", "return err"]
      = [.closeChan, .other, .sweep, .other, .waitWorkers, .waitReplies, .other, .other, .other] ∧
    (run (init 1 [.closeChan, .other, .sweep, .other, .waitWorkers, .waitReplies, .other]) [.serve, .serve, .serve]).map (·.bad)
      = some true ∧
    execOrder ["defer allocFree()", "defer cancel()", "defer pktMgr.wait()", "defer wg.Wait()"]
      ["close(pktChan)@serveLoop", "mu.Lock()", "defer mu.Unlock()", "sweep(openRequests)", "return err"]
      = [.closeChan, .other, .sweep, .other, .other, .waitWorkers, .waitReplies, .other, .other] ∧
    (run (init 1 [.closeChan, .other, .sweep, .other, .other, .waitWorkers, .waitReplies, .other, .other])
      [.serve, .serve, .serve]).map (·.bad) = some true ∧
    guarded [.closeChan, .other, .sweep, .other, .waitWorkers, .waitReplies, .other] = false := by
  decide

/-- C11Serve.seed_return_inside_loop_skips_the_sweep — seed C11_h (`return err` inside the inline loop): on that path
Serve executes none of the steps — it is through at once, nothing was swept, and the workers were never shut down. -/
theorem seed_return_inside_loop_skips_the_sweep :
    run (init 1 []) [] = some (init 1 []) ∧ (init 1 []).todo = [] ∧ (init 1 []).swept = false ∧ (init 1 []).closed = false := by
  decide

/-- wg.Wait() before close(pktChan) (neighbour): the workers never exit, Serve never gets through -/
theorem wait_before_close_blocks (acts : List Act) (s' : St)
    (h : run (init 0 [.waitWorkers, .closeChan, .sweep]) acts = some s') : s'.todo ≠ [] := by
  cases acts with
  | nil => simp only [run] at h; cases h; simp [init]
  | cons a as => cases a <;> simp [run, step, init] at h

end Sftp.C11Serve
