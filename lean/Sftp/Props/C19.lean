import Sftp.Proofs.Handshake
import Sftp.Generated.Handshake
import Sftp.Generated.Gate
/-
  C19 — Version and extension negotiation is truthful.

  Model: `Sftp.Handshake` (recvVersion over bytes with the codec primitives of Prim.lean, the client's extension
  map, SetSFTPExtensions over name lists).  Source facts: `Generated/Handshake.lean` (extract/handshake.go) and
  the extended-name switch `G.extSwitch` of `Generated/Gate.lean`.
-/
namespace Sftp.C19
open Sftp Sftp.Handshake

/-- the model parameters as extracted from `Client.recvVersion` -/
def cfgG : Cfg := ⟨G.hsVersionTyp, G.hsVersionSafe, G.hsVersionReject, G.hsVersion⟩

/-- C19.client_accepts_iff_v3 — for ALL reply types and ALL reply bytes: `recvVersion` accepts iff the packet
type is VERSION (2), the version is exactly 3 and the remaining bytes are a sequence of (name, data) string
pairs (`versionBody 3 ps` is precisely what a server's `sshFxVersionPacket.MarshalBinary` emits after the
type byte).  Hypotheses = the extracted shape of recvVersion. -/
theorem client_accepts_iff_v3 (cfg : Cfg) (h1 : cfg.versionTyp = 2) (h2 : cfg.versionSafe = true)
    (h3 : cfg.reject = "!=") (h4 : cfg.version = 3) (typ : Nat) (data : Bytes) :
    (∃ m, recvVersion cfg typ data = .ok m) ↔
      typ = 2 ∧ ∃ ps, WellSized ps ∧ data = versionBody 3 ps := by
  unfold recvVersion
  rw [h1, h2, h3, h4]
  constructor
  · rintro ⟨m, h⟩
    split at h
    · cases h
    · next ht =>
      have ht : typ = 2 := by simpa using ht
      refine ⟨ht, ?_⟩
      simp only [if_true, goU32Safe] at h
      cases hg : get32? data with
      | none => rw [hg] at h; cases h
      | some vr =>
        rw [hg] at h
        simp only [Outcome.bind_ok] at h
        split at h
        · cases h
        · next hv =>
          have hv : vr.1 = 3 := by simpa [rejects] using hv
          cases hp : parsePairs vr.2.length vr.2 with
          | none => rw [hp] at h; cases h
          | some ps =>
            have ⟨e, w⟩ := parsePairs_sound _ _ _ hp
            refine ⟨ps, w, ?_⟩
            have := get32?_eq (v := vr.1) (r := vr.2) hg
            rw [this, hv, e]; rfl
  · rintro ⟨ht, ps, w, rfl⟩
    subst ht
    simp only [ne_eq, not_true_eq_false, if_false, if_true, goU32Safe, versionBody]
    rw [get32?_be32 3 (by decide)]
    simp only [Outcome.bind_ok, rejects, bne_self_eq_false, if_true, Bool.false_eq_true, if_false]
    rw [parsePairs_complete ps _ w (Nat.le_refl _)]
    exact ⟨_, rfl⟩

/-- every other answer is an error, never a panic and never a half-built session -/
theorem client_rejects_cleanly (cfg : Cfg) (h2 : cfg.versionSafe = true) (typ : Nat) (data : Bytes) :
    recvVersion cfg typ data ≠ .panic := by
  unfold recvVersion
  rw [h2]
  split
  · intro h; cases h
  · simp only [if_true]
    apply Outcome.bind_ne_panic _ _ (goU32Safe_ne_panic _)
    intro vr
    split
    · intro h; cases h
    · split <;> intro h <;> cases h

/-- C19.ext_reported_eq_advertised — for every pair list (lengths < 2^32) that a server encodes after version 3,
the client accepts and `HasExtension name` reports exactly the data of the LAST pair with that name
(none if there is none). -/
theorem ext_reported_eq_advertised (cfg : Cfg) (h1 : cfg.versionTyp = 2) (h2 : cfg.versionSafe = true)
    (h3 : cfg.reject = "!=") (h4 : cfg.version = 3) (ps : List Pair) (w : WellSized ps) :
    ∃ m, recvVersion cfg 2 (versionBody 3 ps) = .ok m ∧ ∀ name, get m name = lastWins ps name := by
  refine ⟨store ps, ?_, ?_⟩
  · unfold recvVersion
    rw [h1, h2, h3, h4]
    simp only [ne_eq, not_true_eq_false, if_false, if_true, goU32Safe, versionBody]
    rw [get32?_be32 3 (by decide)]
    simp only [Outcome.bind_ok, rejects, bne_self_eq_false, if_true, Bool.false_eq_true, if_false]
    rw [parsePairs_complete ps _ w (Nat.le_refl _)]
  · intro name
    unfold store
    rw [get_foldl]
    cases lastWins ps name <;> rfl

/-- C19.setExtensions_all_or_nothing — for all supported tables, all current states and ALL name lists:
`SetSFTPExtensions` (validating into a temporary slice, assigning after the loop) either succeeds and the new
list is exactly the requested names, in the requested order, each with its supported data — or it returns an
error and the advertised list is unchanged. -/
theorem setExtensions_all_or_nothing (supported cur : List (String × String)) (names : List String) :
    ((setExtensions false supported cur names).1 = none ∧
       ((setExtensions false supported cur names).2.map (·.1) = names ∧
        ∀ p ∈ (setExtensions false supported cur names).2, p ∈ supported)) ∨
    ((setExtensions false supported cur names).1.isSome = true ∧
       (setExtensions false supported cur names).2 = cur) := by
  unfold setExtensions
  rcases setExtLoop_spec supported names [] cur with ⟨h1, l, h2, h3, h4⟩ | h
  · left
    rw [h2]
    exact ⟨h1, by simpa using h3, by simpa using h4⟩
  · exact .inr h

/-- … and an error is returned exactly when some name is not supported -/
theorem setExtensions_error_iff (supported cur : List (String × String)) (names : List String) :
    (setExtensions false supported cur names).1 = none → ∀ n ∈ names, ∃ p ∈ supported, p.1 = n := by
  intro h n hn
  rcases setExtensions_all_or_nothing supported cur names with ⟨_, hm, hs⟩ | ⟨he, _⟩
  · rw [← hm] at hn
    obtain ⟨p, hp, rfl⟩ := List.mem_map.1 hn
    exact ⟨p, hs p hp, rfl⟩
  · rw [h] at he; cases he

/-- C19.source_shape — the facts of the source the theorems above are instantiated with: recvVersion checks
the type first, uses the checked uint32, rejects `version != 3`, loops over checked extension pairs and stores
them; sendInit announces version 3; SetSFTPExtensions validates every name into a temporary slice and assigns
only after the loop; the advertised list starts as the supported list. -/
theorem source_shape :
    cfgG = Cfg.current ∧ G.hsTypCheckFirst = true ∧ G.hsExtLoop = true ∧ G.hsExtPairSafe = true ∧
    G.hsInitVersion = 3 ∧
    G.setExtValidatesIntoTemp = true ∧ G.setExtAssignInLoop = false ∧ G.setExtAssignAfterLoop = true ∧
    G.setExtLookupByName = true ∧ G.advertisedInitiallySupported = true := by decide

/-- the two ∀-theorems for the source as extracted -/
theorem client_accepts_iff_v3_current (typ : Nat) (data : Bytes) :
    (∃ m, recvVersion cfgG typ data = .ok m) ↔ typ = 2 ∧ ∃ ps, WellSized ps ∧ data = versionBody 3 ps :=
  client_accepts_iff_v3 cfgG (by decide) (by decide) (by decide) (by decide) typ data

/-- C19.servers_answer_v3_with_configured_list — both servers answer INIT with
`Version: sftpProtocolVersion (= 3), Extensions: sftpExtensions`. -/
theorem servers_answer_v3_with_configured_list :
    G.osInitAnswersVersionAndExts = true ∧ G.rsInitAnswersVersionAndExts = true ∧ G.serverVersion = 3 := by decide

/-- C19.advertised_subset_served — every name in `supportedSFTPExtensions` (hence, by
`setExtensions_all_or_nothing`, every name that can ever be advertised) is a key of the extended-request switch
of `sshFxpExtendedPacket.UnmarshalBinary`. -/
theorem advertised_subset_served :
    ∀ p ∈ G.supportedExtensions, (G.extSwitch.lookup p.1).isSome = true := by decide

/-- whatever is configured, what is advertised is served -/
theorem configured_subset_served (cur : List (String × String)) (names : List String)
    (h : (setExtensions false G.supportedExtensions cur names).1 = none) :
    ∀ p ∈ (setExtensions false G.supportedExtensions cur names).2, (G.extSwitch.lookup p.1).isSome = true := by
  intro p hp
  rcases setExtensions_all_or_nothing G.supportedExtensions cur names with ⟨_, _, hs⟩ | ⟨he, _⟩
  · exact advertised_subset_served p (hs p hp)
  · rw [h] at he; cases he

/-- C19.unknown_ext_unsupported — an extended request whose name is not in the switch makes UnmarshalBinary
return errUnknownExtendedPacket (`G.extUnknownIsError`); makePacket still returns the packet (with its id);
both receive loops ignore that error and queue the packet; the os server answers `SpecificPacket == nil` with
ErrSSHFxOpUnsupported (status code 8); the request server's worker has no case for a bare
*sshFxpExtendedPacket (it has neither a handle nor a path), so its `default:` answers ErrSSHFxOpUnsupported. -/
theorem unknown_ext_unsupported :
    G.extUnknownIsError = true ∧ G.makePacketReturnsPktOnError = true ∧
    G.osRecvUnknownExtNonFatal = true ∧ G.rsRecvUnknownExtNonFatal = true ∧
    G.osUnknownExtUnsupported = true ∧ G.rsUnknownExtUnsupported = true ∧ G.opUnsupportedCode = 8 ∧
    "sshFxpExtendedPacket" ∉ G.rsWorkerCaseTypes ∧
    "sshFxpExtendedPacket" ∉ G.getPathTypes ∧ "sshFxpExtendedPacket" ∉ G.getHandleTypes := by decide

/-! non-vacuity -/

/-- a real VERSION body: version 3, ("a@b","1"), ("c",""), ("a@b","2"): accepted, the last "a@b" wins -/
def exPairs : List Pair := [([97,64,98],[49]), ([99],[]), ([97,64,98],[50])]
example : WellSized exPairs := by intro p hp; simp [exPairs] at hp; rcases hp with rfl | rfl | rfl <;> decide
example : recvVersion .current 2 (versionBody 3 exPairs) = .ok [([97,64,98],[50]), ([99],[])] := by decide
example : get (store exPairs) [97,64,98] = some [50] ∧ get (store exPairs) [99] = some [] ∧
    get (store exPairs) [100] = none := by decide
example : recvVersion .current 2 (be32 4) = .err "version" := by decide
example : recvVersion .current 2 (be32 2) = .err "version" := by decide
example : recvVersion .current 2 [0, 0, 3] = .err "short" := by decide
example : recvVersion .current 101 (be32 3) = .err "type" := by decide
example : recvVersion .current 2 (be32 3 ++ [0, 0, 0, 1, 97]) = .err "short" := by decide
/-- `!= 3` → `< 3` would let version 4 through -/
example : (recvVersion { Cfg.current with reject := "<" } 2 (be32 4)).isOk = true := by decide
example : setExtensions false G.supportedExtensions [("x", "9")] ["statvfs@openssh.com", "hardlink@openssh.com"] =
    (none, [("statvfs@openssh.com", "2"), ("hardlink@openssh.com", "1")]) := by decide
example : setExtensions false G.supportedExtensions [("x", "9")] ["statvfs@openssh.com", "nope"] =
    (some "unsupported extension: nope", [("x", "9")]) := by decide
/-- assigning inside the loop leaves a half-applied list behind -/
example : setExtensions true G.supportedExtensions [("x", "9")] ["statvfs@openssh.com", "nope"] =
    (some "unsupported extension: nope", [("statvfs@openssh.com", "2")]) := by decide

end Sftp.C19
