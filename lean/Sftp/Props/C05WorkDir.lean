import Sftp.Model.SrvWorkDir
import Sftp.Generated.SrvWorkDir
/-
  C05 — operations through the Server behave like package os, for working-directory-relative paths too (source shape of
  seeded defect C05_l: `NewServer` filled an unset `workDir` with `cleanPath(os.Getwd())` once, so `toLocalPath` joined
  every relative name under a SNAPSHOT of the working directory: stale after a chdir, and `..` resolved lexically
  instead of by the kernel).

  Facts: `Generated/SrvWorkDir.lean` (translator unit SrvWorkDir, /verif/extract/round6.go): every write of the field
  Server.workDir in the package (assignment, literal key, address-of) with the function and whether it stands in a
  function literal; every reader; every caller of os.Getwd; NewServer's calls and the keys of its Server literal;
  toLocalPath's statements, the guard under which it uses workDir and what it does then.
-/
namespace Sftp.C05WorkDir
open Sftp Sftp.Path Sftp.OsAdapter Sftp.SrvWorkDir

/-- does NewServer give workDir a value of its own, according to the tree?  (no only if the one write in the package is
the option's closure and nothing in the package asks for the process's working directory) -/
def snapshots : Bool :=
  !(G.wdWrites.all (fun w => w.1 == "WithServerWorkingDirectory" && w.2.1 == "closure") && G.wdGetwdCallers.isEmpty &&
    !G.wdNewServerLiteralKeys.contains "workDir")

/-- C05WorkDir.workdir_written_only_by_the_option — server.go: the only write of Server.workDir in the package is
`s.workDir = cleanPath(workDir)` inside the closure WithServerWorkingDirectory returns; NewServer's Server literal has
no workDir key and its body calls nothing but newPktMgr, make and the options themselves; nothing in the package calls
os.Getwd; the only reader is toLocalPath, which is
`if s.workDir != "" && !path.IsAbs(p) { p = path.Join(s.workDir, p) }; return p` (what Model/OsAdapter `toLocal` is). -/
theorem workdir_written_only_by_the_option :
    G.wdWrites = [("WithServerWorkingDirectory", "closure", "s.workDir = cleanPath(workDir)")] ∧
    G.wdReaders = ["Server.toLocalPath"] ∧ G.wdGetwdCallers = [] ∧
    G.wdNewServerCalls = ["newPktMgr", "builtin:make", "option(s)"] ∧
    G.wdNewServerLiteralKeys = ["serverConn", "debugStream", "pktMgr", "openFiles", "maxTxPacket"] ∧
    G.wdToLocalBody = ["if s.workDir != \"\" && !path.IsAbs(p) { p = path.Join(s.workDir, p) }", "return p"] ∧
    G.wdToLocalGuard = "s.workDir != \"\" && !path.IsAbs(p)" ∧ G.wdToLocalThen = "p = path.Join(s.workDir, p)" ∧
    snapshots = false := by
  decide

/-- C05WorkDir.relative_paths_reach_the_kernel_unchanged — a Server built by NewServer (as the tree has it) with ANY list
of options none of which is WithServerWorkingDirectory, in ANY working directory: toLocalPath hands EVERY path — in
particular every relative one — to the os call unchanged, so it means what it means for package os at the time of the
call. -/
theorem relative_paths_reach_the_kernel_unchanged (cwd : Bytes) (opts : List Opt)
    (h : noWorkDirOption opts = true) (p : Bytes) :
    newServer snapshots cwd opts = [] ∧ toLocal (newServer snapshots cwd opts) p = p := by
  have hs : snapshots = false := by decide
  rw [hs]
  exact unset_is_identity cwd opts h p

/-- non-vacuity: two other options, started in "/w"; "a" and "d/../a" stay as they are.  With the option: joined. -/
example : noWorkDirOption [.other, .other] = true ∧
    toLocal (newServer snapshots [47, 119] [.other, .other]) [97] = [97] ∧
    toLocal (newServer snapshots [47, 119] [.other, .other]) [100, 47, 46, 46, 47, 97] = [100, 47, 46, 46, 47, 97] ∧
    toLocal (newServer snapshots [47, 119] [.other, .workDir [47, 120]]) [97] = [47, 120, 47, 97] := by decide

/-! ### the seeded shape (hand-written parameter, so this part builds on every tree) -/

/-- C05WorkDir.seed_snapshot_rewrites_relative_paths — seed C05_l (NewServer snapshots the working directory): a server
built in "/one" hands "a" to the kernel as "/one/a" — wherever the process is by then, while os.Stat("a") would look in
the current directory — and "d/../a" as "/one/a" with `..` resolved lexically (the kernel would go through `d`, which
may be a symlink); with the option given nothing changes. -/
theorem seed_snapshot_rewrites_relative_paths :
    newServer true [47, 111, 110, 101] [] = [47, 111, 110, 101] ∧
    toLocal (newServer true [47, 111, 110, 101] []) [97] = [47, 111, 110, 101, 47, 97] ∧
    toLocal (newServer true [47, 111, 110, 101] []) [100, 47, 46, 46, 47, 97] = [47, 111, 110, 101, 47, 97] ∧
    toLocal (newServer true [47, 111, 110, 101] []) [97] ≠ [97] ∧
    (∀ cwd opts, newServer true cwd (opts ++ [.workDir [47, 120]]) = newServer false cwd (opts ++ [.workDir [47, 120]])) := by
  refine ⟨by decide, by decide, by decide, by decide, ?_⟩
  intro cwd opts
  simp [newServer, List.foldl_append, applyOpt]

end Sftp.C05WorkDir
