import Sftp.Props.C02
import Sftp.Generated.PipeCfg
/-
  C02 for the code as it is now: the generic theorems of Props/C02.lean instantiated with the configuration the
  extractor read off packet-manager.go (`Sftp.G.pipeCfg`, Generated/PipeCfg.lean).  The hypotheses on the
  configuration are discharged by `decide`; a source change that falsifies one of them makes this file fail.
-/
namespace Sftp.C02
open Sftp.Pipe

/-- packet-manager.go today: registration precedes both hand-offs (and incomingPacket / readyPacket have the
Add-then-send / send-then-Done shape), maybeSendPackets sends only on equal order ids, `outgoing` is sorted
ascending after every append. -/
theorem cfg_ok_current : CfgOk G.pipeCfg := by decide

/-- the other shape facts the model relies on (see the header of Model/Pipe.lean) hold in the source:
`close` = Wait then close(fini); the dispatcher ends with close(rwChan), close(cmdChan), s.close(); the controller's
select has the three branches and is followed by maybeSendPackets; order ids are 1,2,3,… in receive order; both
heads are popped after a send; exactly one command worker. -/
theorem shape_ok_current :
    G.closeIsWaitThenFini = true ∧ G.dispatcherShutdownIsCloseCloseClose = true ∧
    G.controllerSelectHasFini = true ∧ G.controllerSendsAfterEveryReceive = true ∧
    G.newOrderIDPreIncrements = true ∧ G.getNextOrderIDIsCountPlusOne = true ∧
    G.maybeSendPopsBothHeads = true ∧ G.pipeCmdWorkers = 1 := by decide

theorem sent_is_prefix_current (as : List Action) (s : State)
    (hr : run G.pipeCfg (init G.pipeCfg) as = some s) :
    s.sent.map Resp.oid = List.range' 1 s.sent.length ∧
    s.sent.length ≤ s.received.length ∧
    s.sent = (s.received.take s.sent.length).map mkResp ∧
    (∀ p ∈ s.sent, p.oid ∈ s.handled) :=
  sent_is_prefix G.pipeCfg cfg_ok_current as s hr

theorem sent_ids_current (as : List Action) (s : State)
    (hr : run G.pipeCfg (init G.pipeCfg) as = some s) (i : Nat) (hi : i < s.sent.length) :
    ∃ r, s.received[i]? = some r ∧ (s.sent[i]).id = r.id ∧ (s.sent[i]).kind = r.kind ∧ (s.sent[i]).oid = i + 1 ∧
      r.oid = i + 1 :=
  sent_ids G.pipeCfg cfg_ok_current as s hr i hi

theorem no_duplicate_no_invention_current (as : List Action) (s : State)
    (hr : run G.pipeCfg (init G.pipeCfg) as = some s) :
    ((s.sent ++ s.outgoing ++ s.respInbox).map Resp.oid).Nodup ∧
    (∀ p ∈ s.sent ++ s.outgoing ++ s.respInbox, ∃ r ∈ s.received, p = mkResp r ∧ r.oid ∈ s.handled) :=
  no_duplicate_no_invention G.pipeCfg (by decide) as s hr

theorem no_waitgroup_panic_current (as : List Action) (s : State)
    (hr : run G.pipeCfg (init G.pipeCfg) as = some s) :
    s.panicked = false ∧ s.working = (pendingOids s).length :=
  no_waitgroup_panic G.pipeCfg (by decide) as s hr

theorem exactly_once_at_drain_current (as : List Action) (s : State)
    (hr : run G.pipeCfg (init G.pipeCfg) as = some s)
    (h1 : s.pktChan = []) (h2 : s.poolQueue = []) (h3 : s.cmdQueue = [])
    (h4 : ∀ sl ∈ s.slots, sl = Slot.idle) (h5 : s.cmdSlot = Slot.idle)
    (h6 : s.reqInbox = []) (h7 : s.respInbox = []) :
    s.sent.length = s.received.length ∧ s.sent = s.received.map mkResp :=
  exactly_once_at_drain G.pipeCfg cfg_ok_current as s hr h1 h2 h3 h4 h5 h6 h7

theorem no_stuck_state_current (as : List Action) (s : State)
    (hr : run G.pipeCfg (init G.pipeCfg) as = some s)
    (hin : s.inputClosed = true) (hst : s.controllerStopped = false) : ∃ a, (step G.pipeCfg s a).isSome = true :=
  no_stuck_state G.pipeCfg (by decide) (by decide) as s hr hin hst

/-! non-vacuity: the demo schedule of Props/C02.lean runs on the generated configuration -/
example : (run G.pipeCfg (init G.pipeCfg) demo).map (·.sent) =
    some [⟨1, 7, .rw⟩, ⟨2, 8, .rw⟩, ⟨3, 9, .close⟩] := by decide

end Sftp.C02

namespace Sftp.C02
open Sftp Sftp.Pipe

/-- The repaired controller drains both channels when `fini` fires and both Serve functions wait for it
(regenerated facts), so the model runs with `drainOnFini`. -/
theorem drain_current : G.pipeCfg.drainOnFini = true ∧ G.controllerDrainsOnFini = true ∧
    G.serveWaitsForController = true := by decide

/-- FULL-STRENGTH C02 for the code as it is now: once the controller has exited (which Serve waits for),
every received request has been answered exactly once, with its id, in arrival order — for every schedule. -/
theorem every_request_answered_current (as : List Action) (s : State)
    (hr : run G.pipeCfg (init G.pipeCfg) as = some s) (hst : s.controllerStopped = true) :
    s.sent = s.received.map mkResp :=
  every_request_answered G.pipeCfg cfg_ok_current drain_current.1 as s hr hst

/-- … and every maximal run ends in such a state. -/
theorem every_request_answered_at_end_current (as : List Action) (s : State)
    (hr : run G.pipeCfg (init G.pipeCfg) as = some s) (hstuck : ∀ a, step G.pipeCfg s a = none) :
    s.sent = s.received.map mkResp :=
  every_request_answered_at_end G.pipeCfg cfg_ok_current drain_current.1 (by decide) as s hr hstuck

end Sftp.C02
