import Sftp.Proofs.ClientConn.Reach
/-
  C04 — If the transport fails or hits EOF at any byte position, every operation that is outstanding and
  every operation started afterwards returns an error in bounded time, each waiting caller is notified
  exactly once, Wait and Close return, and no goroutine started by the package survives.  Operations whose
  replies had been received completely before the failure still return those replies.

  Property theorems only, over ALL schedules of Sftp/Model/ClientConn.lean (any number of callers; the
  environment chooses when reads fail, when Writes fail, and which sids it answers).
  "Bounded time / nobody hangs" is stated as absence of stuck threads: a channel send is enabled only into an
  empty slot, a mutex acquisition only when free, so `enabled` = "this thread is not blocked".
-/
namespace Sftp.C04
open Sftp Sftp.ClientConn

/-- No channel ever receives a second message: reply vs. broadcast vs. send-failure notification cannot
both reach the same caller (this covers the hijacked channels created by broadcastErr, too). -/
theorem notified_at_most_once (cfg : Cfg) (n : Nat) (acts : List Action) (s : State)
    (hdel : cfg.getChannelDeletes = true) (hrep : cfg.broadcastReplacesChan = true)
    (h : Reach cfg n acts s) (ch : Nat) : (s.chan ch).delivered ≤ 1 :=
  (reach_inv hdel hrep h).1.le1 ch

/-- No sender ever blocks: whenever program order brings a thread to a channel send, the slot is empty.
(putChannel's refusal, dispatchRequest's error notification, recv's delivery — for every sid and payload the
server may send —, and the whole loop of broadcastErr.) -/
theorem no_blocked_sender (cfg : Cfg) (n : Nat) (acts : List Action) (s : State)
    (hdel : cfg.getChannelDeletes = true) (hrep : cfg.broadcastReplacesChan = true)
    (h : Reach cfg n acts s) :
    (∀ c sid, s.pc c = .gotId sid → enabled cfg n s (.callerPut c)) ∧
    (∀ c sid, s.pc c = .sendFailed sid → enabled cfg n s (.callerFailNotify c)) ∧
    (s.rpc = .running → ∀ sid p, enabled cfg n s (.envReply sid p)) ∧
    (s.rpc = .broadcasting → enabled cfg n s .recvBroadcast) := by
  have hi := (reach_inv hdel hrep h).1
  exact ⟨fun c sid hpc => en_put hi hpc, fun c sid hpc => en_failNotify hi hpc,
    fun hr sid p => en_reply hi hr sid p, fun hr => en_bcast hi hr⟩

/-- Once the receiver goroutine has exited (after broadcastErr), every caller that has passed putChannel
(accepted or refused) has been notified exactly once: its channel got exactly one message, and unless the
caller has already returned that message is still there to be taken. -/
theorem notified_exactly_once_at_quiescence (cfg : Cfg) (n : Nat) (acts : List Action) (s : State)
    (hdel : cfg.getChannelDeletes = true) (hrep : cfg.broadcastReplacesChan = true)
    (hput : cfg.putChecksClosed = true) (hsf : cfg.sendFailNotifies = true) (hat : cfg.idAtomic = true)
    (h : Reach cfg n acts s) (hlt : s.nextid < idMod) (hstop : s.rpc = .stopped)
    (c : Nat) (hpast : (s.pc c).early = false) :
    (s.chan c).delivered = 1 ∧ ((∃ sid r, s.pc c = .done sid r) ∨ (s.chan c).slot ≠ none) := by
  have q := reach_q hdel hrep hput hsf hat h
  have hcl := q.closedIff.mpr hstop
  cases hpc : s.pc c with
  | idle => rw [hpc] at hpast; cases hpast
  | loaded v => rw [hpc] at hpast; cases hpast
  | gotId sid => rw [hpc] at hpast; cases hpast
  | done sid r => exact ⟨q.doneD c sid r hpc, .inl ⟨sid, r, rfl⟩⟩
  | registered sid =>
    rcases q.reg hlt c sid (by rw [hpc]; rfl) with ⟨_, hf⟩ | hd
    · rw [hcl] at hf; cases hf
    · exact ⟨hd.1, .inr hd.2⟩
  | locked sid =>
    rcases q.reg hlt c sid (by rw [hpc]; rfl) with ⟨_, hf⟩ | hd
    · rw [hcl] at hf; cases hf
    · exact ⟨hd.1, .inr hd.2⟩
  | wroteHeader sid =>
    rcases q.reg hlt c sid (by rw [hpc]; rfl) with ⟨_, hf⟩ | hd
    · rw [hcl] at hf; cases hf
    · exact ⟨hd.1, .inr hd.2⟩
  | sendFailed sid =>
    rcases q.reg hlt c sid (by rw [hpc]; rfl) with ⟨_, hf⟩ | hd
    · rw [hcl] at hf; cases hf
    · exact ⟨hd.1, .inr hd.2⟩
  | waiting sid b =>
    rcases q.reg hlt c sid (by rw [hpc]; rfl) with ⟨_, hf⟩ | hd
    · rw [hcl] at hf; cases hf
    · exact ⟨hd.1, .inr hd.2⟩

/-- In particular nobody waits forever: with the receiver gone, every caller in its `select` has a result
to take (and `callerRecvResult` is enabled). -/
theorem waiting_after_stop (cfg : Cfg) (n : Nat) (acts : List Action) (s : State)
    (hdel : cfg.getChannelDeletes = true) (hrep : cfg.broadcastReplacesChan = true)
    (hput : cfg.putChecksClosed = true) (hsf : cfg.sendFailNotifies = true) (hat : cfg.idAtomic = true)
    (h : Reach cfg n acts s) (hlt : s.nextid < idMod) (hstop : s.rpc = .stopped)
    (c sid : Nat) (b : Bool) (hpc : s.pc c = .waiting sid b) :
    (s.chan c).slot ≠ none ∧ enabled cfg n s (.callerRecvResult c) := by
  have q := reach_q hdel hrep hput hsf hat h
  have hcl := q.closedIff.mpr hstop
  rcases q.reg hlt c sid (by rw [hpc]; rfl) with ⟨_, hf⟩ | hd
  · rw [hcl] at hf; cases hf
  · refine ⟨hd.2, ?_⟩
    cases hsl : (s.chan c).slot with
    | none => exact absurd hsl hd.2
    | some r => exact en_recvResult hpc hsl

/-- A call that registers after the connection was declared lost is refused at once with
ErrSSHFxConnectionLost in its own channel; nothing is added to the map. -/
theorem late_register_refused (cfg : Cfg) (n : Nat) (acts : List Action) (s : State)
    (hdel : cfg.getChannelDeletes = true) (hrep : cfg.broadcastReplacesChan = true)
    (hput : cfg.putChecksClosed = true) (h : Reach cfg n acts s) (hcl : s.closed = true)
    (c sid : Nat) (hpc : s.pc c = .gotId sid) :
    ∃ s', step cfg n s (.callerPut c) = some s' ∧ s'.pc c = .waiting sid false ∧
      s'.chan c = ⟨some .lost, 1⟩ ∧ s'.inflight = s.inflight := by
  have hi := (reach_inv hdel hrep h).1
  have hc : c < n := pc_lt_of_ne_idle hi (by rw [hpc]; intro e; cases e)
  have hd := (hi.early c hc (by rw [hpc]; rfl)).1
  have hsl := hi.slot0 c hd
  have hs : step cfg n s (.callerPut c) =
      some ({ s with chan := putChan s.chan c .lost }.setPc c (.waiting sid false)) := by
    simp only [step, hpc, send, hsl]
    rw [if_pos ⟨hput, hcl⟩]; rfl
  refine ⟨_, hs, ?_, ?_, rfl⟩
  · simp [State.setPc]
  · simp [State.setPc, putChan, hd]

/-- A call whose Write failed is told so without waiting for the receiver: whenever a caller sits in its
`select` without its frame having reached the wire, its result is already in the channel. -/
theorem send_failure_notified (cfg : Cfg) (n : Nat) (acts : List Action) (s : State)
    (hdel : cfg.getChannelDeletes = true) (hrep : cfg.broadcastReplacesChan = true)
    (hput : cfg.putChecksClosed = true) (hsf : cfg.sendFailNotifies = true) (hat : cfg.idAtomic = true)
    (h : Reach cfg n acts s) (hlt : s.nextid < idMod) (c sid : Nat)
    (hpc : s.pc c = .waiting sid false) : (s.chan c).delivered = 1 ∧ (s.chan c).slot ≠ none :=
  (reach_q hdel hrep hput hsf hat h).unsent hlt c sid hpc

/-- A result that has arrived in a caller's channel (in particular a reply received completely before the
failure) is exactly what that caller returns, whatever happens afterwards: neither broadcastErr nor a late
send-failure notification overwrites it. -/
theorem completed_replies_kept (cfg : Cfg) (n : Nat) (acts more : List Action) (s s' : State)
    (hdel : cfg.getChannelDeletes = true) (hrep : cfg.broadcastReplacesChan = true)
    (h : Reach cfg n acts s) (c sid : Nat) (b : Bool) (r : Res)
    (hpc : s.pc c = .waiting sid b) (hsl : (s.chan c).slot = some r)
    (hrun : run cfg n s more = some s') :
    (∃ b', s'.pc c = .waiting sid b' ∧ (s'.chan c).slot = some r) ∨ s'.pc c = .done sid r := by
  refine run_from (cfg := cfg) (n := n) (Kept c sid r) ?_ more acts s s' h (.inl ⟨b, hpc, hsl⟩) hrun
  intro acts s a s1 hre hk hs
  exact kept_step (reach_inv hdel hrep hre).1 hk (step_inv hs)

/-- `closed` (what Wait blocks on) is closed exactly when the receiver goroutine has finished broadcastErr. -/
theorem wait_returns_iff_stopped (cfg : Cfg) (n : Nat) (acts : List Action) (s : State)
    (hdel : cfg.getChannelDeletes = true) (hrep : cfg.broadcastReplacesChan = true)
    (hput : cfg.putChecksClosed = true) (hsf : cfg.sendFailNotifies = true) (hat : cfg.idAtomic = true)
    (h : Reach cfg n acts s) : s.closed = true ↔ s.rpc = .stopped :=
  (reach_q hdel hrep hput hsf hat h).closedIff

/-- Once recv has returned and run its deferred conn.Close, no Write succeeds any more: callers inside
conn.sendPacket can only take the error path. -/
theorem no_write_after_close (cfg : Cfg) (n : Nat) (acts : List Action) (s : State)
    (hcl : cfg.recvClosesConn = true) (h : Reach cfg n acts s)
    (hr : s.rpc = .broadcasting ∨ s.rpc = .stopped) (c : Nat) :
    ¬ enabled cfg n s (.callerWriteHeader c) ∧ ¬ enabled cfg n s (.callerWritePayload c) := by
  have hw := reach_dinv hcl h hr
  constructor <;> (simp only [enabled, step, hw]; split <;> simp)

/-- No reachable state is stuck.  Every caller thread has returned, or can take a step itself, or waits for
the conn mutex whose holder can take a step, or sits in its `select` with an empty channel while the
receiver is still alive (then it is legitimately waiting for the server — `waiting_after_stop` excludes the
other case).  The receiver is reading, has exited, or can take a step itself, or waits for the conn mutex
(deferred conn.Close) whose holder can take a step. -/
theorem no_stuck_state (cfg : Cfg) (n : Nat) (acts : List Action) (s : State)
    (hdel : cfg.getChannelDeletes = true) (hrep : cfg.broadcastReplacesChan = true)
    (hput : cfg.putChecksClosed = true) (hsf : cfg.sendFailNotifies = true) (hat : cfg.idAtomic = true)
    (h : Reach cfg n acts s) (hlt : s.nextid < idMod) :
    (∀ c, c < n →
      (∃ sid r, s.pc c = .done sid r) ∨
      (∃ a ∈ callerActs c, enabled cfg n s a) ∨
      (∃ sid c', s.pc c = .registered sid ∧ s.lock = some c' ∧ enabled cfg n s (.callerWriteFail c')) ∨
      (∃ sid b, s.pc c = .waiting sid b ∧ (s.chan c).slot = none ∧ s.rpc ≠ .stopped)) ∧
    (s.rpc = .running ∨ s.rpc = .stopped ∨ enabled cfg n s .recvCloseConn ∨ enabled cfg n s .recvBroadcast ∨
      (s.rpc = .closing ∧ ∃ c', s.lock = some c' ∧ enabled cfg n s (.callerWriteFail c'))) := by
  have hi := (reach_inv hdel hrep h).1
  have q := reach_q hdel hrep hput hsf hat h
  have lr := reach_lrev h
  have holderFail : ∀ c', s.lock = some c' → enabled cfg n s (.callerWriteFail c') := by
    intro c' hl
    obtain ⟨sid, hp⟩ := lr c' hl
    exact en_writeFail hp
  constructor
  · intro c hc
    cases hpc : s.pc c with
    | idle => exact .inr (.inl ⟨_, by simp [callerActs], en_nextId hc hat hpc⟩)
    | loaded v => exact absurd hpc (q.noLoaded c v)
    | gotId sid => exact .inr (.inl ⟨_, by simp [callerActs], en_put hi hpc⟩)
    | registered sid =>
      cases hl : s.lock with
      | none => exact .inr (.inl ⟨_, by simp [callerActs], en_lock hpc hl⟩)
      | some c' => exact .inr (.inr (.inl ⟨sid, c', rfl, rfl, holderFail c' hl⟩))
    | locked sid => exact .inr (.inl ⟨.callerWriteFail c, by simp [callerActs], en_writeFail (.inl hpc)⟩)
    | wroteHeader sid => exact .inr (.inl ⟨.callerWriteFail c, by simp [callerActs], en_writeFail (.inr hpc)⟩)
    | sendFailed sid => exact .inr (.inl ⟨_, by simp [callerActs], en_failNotify hi hpc⟩)
    | waiting sid b =>
      cases hsl : (s.chan c).slot with
      | some r => exact .inr (.inl ⟨_, by simp [callerActs], en_recvResult hpc hsl⟩)
      | none =>
        refine .inr (.inr (.inr ⟨sid, b, rfl, rfl, ?_⟩))
        intro hstop
        exact (waiting_after_stop cfg n acts s hdel hrep hput hsf hat h hlt hstop c sid b hpc).1 hsl
    | done sid r => exact .inl ⟨sid, r, rfl⟩
  · cases hr : s.rpc with
    | running => exact .inl rfl
    | stopped => exact .inr (.inl rfl)
    | broadcasting => exact .inr (.inr (.inr (.inl (en_bcast hi hr))))
    | closing =>
      cases hl : s.lock with
      | none => exact .inr (.inr (.inl (en_closeConn hr (.inl hl))))
      | some c' => exact .inr (.inr (.inr (.inr ⟨rfl, c', rfl, holderFail c' hl⟩)))

/-- Bounded time: every schedule — whatever the environment does, however threads interleave — has at most
10·n + 3 steps (each caller takes at most 8 steps, the receiver at most 3 beyond the replies it delivers,
and it can deliver at most one frame per registered call).  Together with `no_stuck_state` (somebody can always
move unless everyone has returned or is legitimately waiting for the server) every run ends with all callers
returned once the transport has failed. -/
theorem bounded_schedule (cfg : Cfg) (n : Nat) (acts : List Action) (s : State)
    (hdel : cfg.getChannelDeletes = true) (hrep : cfg.broadcastReplacesChan = true)
    (h : Reach cfg n acts s) : acts.length ≤ 10 * n + 3 := by
  have := reach_bound hdel hrep h
  omega

/-! ### the code as it is today -/

theorem current_ok : Cfg.current.getChannelDeletes = true ∧ Cfg.current.putChecksClosed = true ∧
    Cfg.current.broadcastReplacesChan = true ∧ Cfg.current.sendFailNotifies = true ∧
    Cfg.current.recvClosesConn = true ∧ Cfg.current.idAtomic = true := by decide

/-! ### non-vacuity and necessity of the source facts (concrete schedules) -/

/-- c0: reply fully received, then EOF; c1: outstanding at EOF; c2: header written when the Write fails;
c3: starts after the failure.  All four return, each channel got exactly one message. -/
def demo : List Action :=
  [.callerNextId 0, .callerNextId 1, .callerNextId 2, .callerPut 0, .callerPut 1, .callerPut 2,
   .callerLock 0, .callerWriteHeader 0, .callerWritePayload 0,
   .callerLock 1, .callerWriteHeader 1, .callerWritePayload 1,
   .envReply 1 [0xaa], .callerLock 2, .callerWriteHeader 2, .envFail, .callerWriteFail 2, .recvCloseConn,
   .recvBroadcast, .callerFailNotify 2, .callerNextId 3, .callerPut 3,
   .callerRecvResult 0, .callerRecvResult 1, .callerRecvResult 2, .callerRecvResult 3]

example : (run Cfg.current 4 (init 4) demo).map (fun s => (s.pc 0, s.pc 1, s.pc 2, s.pc 3)) =
    some (.done 1 (.reply 1 [0xaa]), .done 2 .lost, .done 3 .lost, .done 4 .lost) := by decide
example : (run Cfg.current 4 (init 4) demo).map
    (fun s => ((List.range 4).map (fun c => (s.chan c).delivered), s.rpc, s.closed)) =
    some ([1, 1, 1, 1], .stopped, true) := by decide

/-- `getChannelDeletes = false`: the caller is notified twice (reply, then ConnectionLost from broadcastErr). -/
theorem getChannelDeletes_needed :
    (run { Cfg.current with getChannelDeletes := false } 1 (init 1)
      [.callerNextId 0, .callerPut 0, .callerLock 0, .callerWriteHeader 0, .callerWritePayload 0,
       .envReply 1 [0xaa], .callerRecvResult 0, .envFail, .recvCloseConn, .recvBroadcast]).map
      (fun s => (s.chan 0).delivered) = some 2 := by decide

/-- `broadcastReplacesChan = false`: a caller whose Write failed finds its own, already filled channel in the
map after broadcastErr and blocks forever in `ch <- result{err: err}`. -/
theorem broadcastReplacesChan_needed :
    (run { Cfg.current with broadcastReplacesChan := false } 1 (init 1)
      [.callerNextId 0, .callerPut 0, .callerLock 0, .callerWriteFail 0, .envFail, .recvCloseConn,
       .recvBroadcast]).map
      (fun s => (s.pc 0, s.rpc,
        decide (enabled { Cfg.current with broadcastReplacesChan := false } 1 s (.callerFailNotify 0)))) =
    some (.sendFailed 1, .stopped, false) := by decide

/-- `putChecksClosed = false` (and no conn.Close on receiver exit, otherwise the failing Write would report):
a call started after the failure sends its request and waits forever. -/
theorem putChecksClosed_needed :
    (run { Cfg.current with putChecksClosed := false, recvClosesConn := false } 1 (init 1)
      [.envFail, .recvCloseConn, .recvBroadcast, .callerNextId 0, .callerPut 0, .callerLock 0,
       .callerWriteHeader 0, .callerWritePayload 0]).map
      (fun s => (s.pc 0, s.rpc, (s.chan 0).slot, (s.chan 0).delivered)) =
    some (.waiting 1 true, .stopped, none, 0) := by decide

/-- `sendFailNotifies = false`: the Write failed, the reader is still healthy, the caller waits for a reply
to a request the server never saw. -/
theorem sendFailNotifies_needed :
    (run { Cfg.current with sendFailNotifies := false } 1 (init 1)
      [.callerNextId 0, .callerPut 0, .callerLock 0, .callerWriteHeader 0, .callerWriteFail 0]).map
      (fun s => (s.pc 0, s.rpc, (s.chan 0).slot, (s.chan 0).delivered)) =
    some (.waiting 1 false, .running, none, 0) := by decide

/-- `recvClosesConn = false`: requests are still written after the receiver has gone. -/
theorem recvClosesConn_needed :
    (run { Cfg.current with recvClosesConn := false } 1 (init 1)
      [.callerNextId 0, .callerPut 0, .envFail, .recvCloseConn, .recvBroadcast, .callerLock 0,
       .callerWriteHeader 0, .callerWritePayload 0]).map
      (fun s => (s.rpc, s.wire)) = some (.stopped, [.hdr 0 1, .pay 0 1]) := by decide

/-- Environment assumption made visible (FINDING, reproduced on the Go code with an io.Pipe transport whose
peer stops reading): recv's deferred conn.Close() needs conn.Mutex.  While a caller sits inside a transport
Write (lock held), the receiver can neither close nor broadcast; only the Write returning (here: failing)
lets it go on.  If the transport's Write blocks for ever, broadcastErr never runs and every caller hangs. -/
theorem close_waits_for_writer :
    (run Cfg.current 1 (init 1)
      [.callerNextId 0, .callerPut 0, .callerLock 0, .callerWriteHeader 0, .envFail]).map
      (fun s => (s.rpc, s.lock, decide (enabled Cfg.current 1 s .recvCloseConn),
        decide (enabled Cfg.current 1 s .recvBroadcast), decide (enabled Cfg.current 1 s (.callerWriteFail 0)))) =
    some (.closing, some 0, false, false, true) := by decide

/-- Id wrap-around (2^32 ids drawn while a call is outstanding) is why `nextid < 2^32` is assumed: putChannel
overwrites the older entry and the older caller is never notified.  Shown on the map operation itself. -/
example : lookupSid ((5, 1) :: eraseSid [(5, 0)] 5) 5 = some 1 ∧
    (5, 0) ∉ ((5, 1) :: eraseSid [(5, 0)] 5) := by decide

end Sftp.C04
