import Sftp.Props.C20
/-
  C20, instantiation with the tables extracted from client.go / packet.go / conn.go.
  Did not hold before the `fix:` commits for F7 (9c726cf, 86e58f1: 17 unchecked operations in nine functions,
  proved to panic in `Props/Known/C20.lean` over a hand-written copy of the pre-fix programs); holds since.
-/
namespace Sftp.C20
open Sftp Sftp.Reply

/-- C20.all_client_replies_safe — every reply case of every client function, with `unmarshalStatus`,
`unmarshalAttrs`, `unmarshalFileStat` inlined from their extracted bodies, has no unchecked operation beyond the
4 id bytes that `clientConn.recv` guarantees, and is linear. -/
theorem all_client_replies_safe :
    ∀ row ∈ G.clientReplies,
      SafeFrom G.recvGuaranteedLen (inline G.decoderProgs row.2.2) ∧
      linearProg (inline G.decoderProgs row.2.2) = true := by decide

/-- C20.client_never_panics — for every client function, reply type, reply body that `recv` lets through,
expected id and buffer size. -/
theorem client_never_panics (cap id : Nat) (fn : String) (typ : Nat) (data : Bytes)
    (hlen : G.recvGuaranteedLen ≤ data.length) :
    handle G.clientReplies G.decoderProgs cap id fn typ data ≠ .panic :=
  handle_never_panics _ _ _ (fun row h => (all_client_replies_safe row h).1) cap id fn typ data hlen

/-- and nothing is left on the list of unchecked operations beyond the id reads covered by `recv` -/
theorem no_unchecked_sites : ∀ s ∈ G.uncheckedSites, s.2.2.2 = true := by decide

/-- C20.data_replies_reject_ok_status — the eight functions whose successful reply carries data (stat, fstat,
Lstat, open, opendir, ReadLink, RealPath, StatVFS) decode their STATUS case through `statusOrUnexpectedOK`
(`unmarshalStatus` on the same bytes; a nil result becomes `errUnexpectedOK`), so an SSH_FX_OK status can no
longer make them return `(nil, nil)`; nobody else uses the helper. -/
theorem data_replies_reject_ok_status :
    G.dataRepliesRejectOKStatus = true ∧
    G.statusViaOKHelper = ["Client.opendir", "Client.Lstat", "Client.ReadLink", "Client.open", "Client.stat",
      "Client.fstat", "Client.StatVFS", "Client.RealPath"] := by decide

end Sftp.C20
