import Sftp.Props.C18
import Sftp.Generated.AllocHandles
/-
  C18 instantiated with the allocator facts regenerated from allocator.go, packet-manager.go
  and packet.go: the statements about the code as it is now.
-/
namespace Sftp.C18
open Sftp Sftp.Alloc

/-- The regenerated configuration satisfies every source fact the theorems use. -/
theorem current_good : Good G.allocCfg := by decide

/-- getDataSlice never slices a page beyond its size: a READ whose clamped length does not fit a page
is served from a plain allocation (so the `maxTx ≤ pageSize` clause of `Good` is not needed for safety). -/
theorem page_guard_present : G.allocPageGuard = true := by decide

/-- recvPacket lends the frame page under the NEXT order id and both Serve loops free the allocator on return. -/
theorem recv_and_free_shape : G.allocRecvUsesNextOrderID = true ∧ G.allocFreedWhenServeReturns = true := by decide

theorem output_independent_of_allocator_current (acts : List Action) :
    (run G.allocCfg State.init acts).map (·.wire) = (run G.allocCfg.noAlloc State.init acts).map (·.wire) :=
  (output_independent_of_allocator G.allocCfg current_good acts).1

theorem pages_disjoint_current (acts : List Action) (s : State) (h : run G.allocCfg State.init acts = some s) :
    (s.a.available ++ s.a.used.map (·.2)).Nodup :=
  (pages_disjoint G.allocCfg current_good acts s h).1

end Sftp.C18
