import Sftp.Model.FileHandleCell
import Sftp.Generated.FileHandleAtDispatch
/-
  C12 — after Close exactly one close request has been sent and NO REQUEST CARRYING THE CLOSED HANDLE is written to the wire
  afterwards (source shape of seeded defect C12_k, site 1, and of "stale handle" shapes in general: client.go
  `File.readFromWithConcurrency` copied `f.handle` into a local once and its feeder goroutine put that copy into every WRITE;
  together with the second site — the worker no longer drains, so the feeder outlives the call — a WRITE carrying the
  closed handle goes out after the CLOSE).

  Facts: `Generated/FileHandleAtDispatch.lean` (translator unit FileHandleAtDispatch, /verif/extract/round7.go): EVERY
  mention of the field File.handle in the package is classified (request site / closed check / write / capture into a
  local; anything else breaks the tie); per request site: function, kind of function literal it stands in, packet type
  (or the Client method that forwards its parameter into `Handle:`), the expression given, direct | captured-local; the
  captures with the lock their function holds; the writes of the field; the leading lock of every function involved.
-/
namespace Sftp.C12HandleAtDispatch
open Sftp Sftp.FileHandleCell

def lockOf (fn : String) : String := (G.hdFunctionLocks.lookup fn).getD ""

/-- is every request's handle the cell itself, evaluated where the packet is built — or a copy taken and used in the body
(no function literal) of a function that holds f.mu from its first statement to its end? -/
def sitesReadCellUnderLock : Bool :=
  G.hdSites.all (fun s => s.2.2.2.2 == "direct" ||
    (s.2.2.2.2 == "captured-local" && s.2.1 == "body" && lockOf s.1 != "")) &&
  G.hdCaptures.all (fun c => c.2.2.1 == "no" && c.2.2.2 != "")

/-- C12HandleAtDispatch.handle_sites_as_spec — the fourteen places where a request of a File gets its handle: thirteen give
the field `f.handle` itself, evaluated where the packet is built (four of them inside the feeder goroutine of a concurrent
transfer: WriteTo, readAt, readFromWithConcurrency, writeAtConcurrent — `f.handle`, not a copy); six of the thirteen hand
it to Client.fstat / Client.fsetstat, which put their parameter into `Handle:`.  The one copy is Close's
`handle := f.handle`, taken and used in the body of Close, which holds the exclusive lock from its first statement to its
end; the only assignment to the field is Close's `f.handle = ""`. -/
theorem handle_sites_as_spec :
    G.hdForwarders = [("Client.close", "sshFxpClosePacket", "arg0"), ("Client.fsetstat", "sshFxpFsetstatPacket", "arg0"),
      ("Client.fstat", "sshFxpFstatPacket", "arg0")] ∧
    G.hdSites =
      [("File.Chmod", "body", "Client.fsetstat:sshFxpFsetstatPacket", "f.handle", "direct"),
       ("File.Chown", "body", "Client.fsetstat:sshFxpFsetstatPacket", "f.handle", "direct"),
       ("File.Close", "body", "Client.close:sshFxpClosePacket", "handle", "captured-local"),
       ("File.SetExtendedData", "body", "Client.fsetstat:sshFxpFsetstatPacket", "f.handle", "direct"),
       ("File.Sync", "body", "sshFxpFsyncPacket", "f.handle", "direct"),
       ("File.Truncate", "body", "Client.fsetstat:sshFxpFsetstatPacket", "f.handle", "direct"),
       ("File.WriteTo", "body", "Client.fstat:sshFxpFstatPacket", "f.handle", "direct"),
       ("File.WriteTo", "go-literal", "sshFxpReadPacket", "f.handle", "direct"),
       ("File.readAt", "go-literal", "sshFxpReadPacket", "f.handle", "direct"),
       ("File.readChunkAt", "body", "sshFxpReadPacket", "f.handle", "direct"),
       ("File.readFromWithConcurrency", "go-literal", "sshFxpWritePacket", "f.handle", "direct"),
       ("File.stat", "body", "Client.fstat:sshFxpFstatPacket", "f.handle", "direct"),
       ("File.writeAtConcurrent", "go-literal", "sshFxpWritePacket", "f.handle", "direct"),
       ("File.writeChunkAt", "body", "sshFxpWritePacket", "f.handle", "direct")] ∧
    G.hdCaptures = [("File.Close", "handle := f.handle", "no", "Lock")] ∧
    G.hdHandleWrites = [("File.Close", "body", "f.handle = \"\"")] ∧
    lockOf "File.Close" = "Lock" ∧
    (G.hdSites.filter (fun s => s.2.2.2.2 != "direct")).map (·.1) = ["File.Close"] ∧
    sitesReadCellUnderLock = true := by
  decide

/-- C12HandleAtDispatch.function_locks_as_spec — which of the functions above take f.mu themselves (the others — readAt,
readChunkAt, readFromWithConcurrency, stat, writeAtConcurrent, writeChunkAt — are called with it held: unit FileMethods). -/
theorem function_locks_as_spec :
    G.hdFunctionLocks = [("File.Chmod", "RLock"), ("File.Chown", "RLock"), ("File.Close", "Lock"),
      ("File.SetExtendedData", "RLock"), ("File.Sync", "Lock"), ("File.Truncate", "RLock"), ("File.WriteTo", "Lock"),
      ("File.readAt", ""), ("File.readChunkAt", ""), ("File.readFromWithConcurrency", ""), ("File.stat", ""),
      ("File.writeAtConcurrent", ""), ("File.writeChunkAt", "")] := by
  decide

/-- C12HandleAtDispatch.no_request_with_the_closed_handle_after_close — the handle expressions as the tree has them: for ANY
number of method calls and of Close calls on one File and EVERY interleaving of their steps (take the lock, evaluate the
handle expression, dispatch the packet, return; Close: lock, clear, send CLOSE, unlock): no request carrying the server's
handle is newer on the wire than the CLOSE, and at most one CLOSE is ever sent. -/
theorem no_request_with_the_closed_handle_after_close (acts : List Act) (s : St)
    (hr : run sitesReadCellUnderLock St.init acts = some s) : noStale s.wire = true ∧ closes s.wire ≤ 1 := by
  have h : sitesReadCellUnderLock = true := by decide
  rw [h] at hr
  exact no_stale_handle_after_close acts s hr

/-- non-vacuity: two overlapping readers, Close has to wait for both, a call after Close sends the EMPTY handle, a second
Close sends nothing; and neither can Close get in while a reader holds the lock, nor can a call that has returned still
dispatch -/
example : (run sitesReadCellUnderLock St.init
      [.acquire 1, .acquire 2, .read 1, .put 1, .read 2, .release 1, .put 2, .release 2, .cAcquire, .cClear, .cSend, .cRelease,
       .acquire 3, .read 3, .put 3, .release 3, .cAcquire, .cClear, .cRelease]).map (fun s => (s.wire, s.cell))
      = some ([.req false, .close, .req true, .req true], false) ∧
    (run sitesReadCellUnderLock St.init [.acquire 1, .read 1, .cAcquire]).isNone = true ∧
    (run sitesReadCellUnderLock St.init [.acquire 1, .read 1, .release 1, .put 1]).isNone = true := by decide

/-! ### the seeded shape (hand-written parameter, so this part builds on every tree) -/

/-- C12HandleAtDispatch.seed_captured_handle_outlives_close — seed C12_k (the handle copied once, the copy dispatched by a
goroutine that outlives the call): call 1 copies the handle under the lock and returns; Close clears the cell and sends
CLOSE; the goroutine then dispatches the copy: a request carrying the closed handle AFTER the CLOSE.  The same schedule
with the dispatch tied to the call is impossible; and a goroutine that evaluates `f.handle` itself after Close would have
found the empty handle. -/
theorem seed_captured_handle_outlives_close :
    (run false St.init [.acquire 1, .read 1, .release 1, .cAcquire, .cClear, .cSend, .cRelease, .put 1]).map (fun s => s.wire)
      = some [.req true, .close] ∧
    noStale [.req true, .close] = false ∧
    (∃ acts s, run false St.init acts = some s ∧ noStale s.wire = false) ∧
    (run true St.init [.acquire 1, .read 1, .release 1, .cAcquire, .cClear, .cSend, .cRelease, .put 1]).isNone = true ∧
    (run false St.init [.cAcquire, .cClear, .cSend, .cRelease, .acquire 1, .read 1, .release 1, .put 1]).map (fun s => s.wire)
      = some [.req false, .close] := by
  refine ⟨by decide, by decide, ⟨[.acquire 1, .read 1, .release 1, .cAcquire, .cClear, .cSend, .cRelease, .put 1], ?_⟩, by decide, by decide⟩
  refine ⟨⟨false, [], fun j => if j = 1 then some true else none, .idle, [.req true, .close]⟩, ?_, by decide⟩
  simp [run, step, St.init]

end Sftp.C12HandleAtDispatch
