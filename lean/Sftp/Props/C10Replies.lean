import Sftp.Generated.ReqReplies
/-!
  C10, reply half: "whatever the handler returns reaches the client unchanged in kind: data, listings and
  attributes as given, …".

  `Sftp/Generated/ReqReplies.lean` is regenerated from request.go on every check run.  It says, for every wrapper
  that `Request.call` dispatches to (fileget, fileput, fileputget, filelist, filestat, readlink, filecmd) and for
  packetData, which results of the handler call are bound, which reply is built from them field by field, under
  which branch decisions, and when a STATUS built from which error is returned instead.  This file holds the
  hand-written expectation (`Spec`) in the same vocabulary and proves, by evaluation, that the regenerated tables are
  exactly that.  A change of request.go that makes a reply carry anything else than what the handler returned
  (a length word taken from the request, the whole buffer instead of the filled prefix, a listing that includes the
  unfilled tail, a cleaned link target, a touched StatVFS field, a dropped error …) changes a row, and the
  corresponding theorem below stops type-checking.

  Vocabulary (see /verif/extract/reqreplies.go): `H R PKT ALLOC ORDERID MAXTX` the wrapper's parameters (handler,
  *Request, request packet, allocator, order id, max-tx-packet); `REQID = PKT.id()`; `BUF` the READ buffer
  `PKT.getDataSlice(ALLOC,ORDERID,MAXTX)`; `REQOFF = int64(PKT.Offset)`; `REQLEN = PKT.Len` the REQUESTED read
  length; `REQDATA = PKT.Data`, `REQWLEN = PKT.Length` payload and length word of a WRITE; `M#i` the i-th result of
  the one call of M on the path (`ReadAt#0` = the count the handler returned, `ReadAt#1` its error); `X.(T)` /
  `is(X,T)` value and ok of a type assertion; `{a|b}` one of a, b depending on an earlier branch;
  `map(S, EL => E)` the slice built by appending E for every element EL of S; `zero` a never-assigned variable.
  Guards are the branch decisions on the path, in order, joined by `&&`.
-/
namespace Sftp.C10Replies

/-! ### building blocks of the expectation -/

/-- `err != nil && (err != io.EOF || n == 0)`: an error is reported unless it is an EOF that came WITH data
(io.ReaderAt / ListerAt may return n > 0 together with io.EOF; those n items must still be delivered). -/
def eofWithoutData (err n : String) : String :=
  err ++ " != nil && (" ++ err ++ " != io.EOF || " ++ n ++ " == 0)"

def neg (c : String) : String := "!(" ++ c ++ ")"

def conj : List String → String
  | [] => ""
  | [c] => c
  | c :: cs => c ++ " && " ++ conj cs

/-- DATA as given: the reply announces the count the handler's ReadAt returned and carries exactly that prefix of the
very buffer that was handed to ReadAt. -/
def dataReply (buf : String) : String × List (String × String) :=
  ("sshFxpDataPacket", [("ID", "REQID"), ("Length", "uint32(ReadAt#0)"), ("Data", buf ++ "[:ReadAt#0]")])

/-- the one-entry NAME reply of READLINK: the text, twice, with empty attributes. -/
def linkReply (text : String) : String × List (String × String) :=
  ("sshFxpNamePacket", [("ID", "REQID"),
    ("NameAttrs", "[]*sshFxpNameAttr{{Name:" ++ text ++ ",LongName:" ++ text ++ ",Attrs:emptyFileStat}}")])

/-! ### the expectation -/

/-- packetData hands out, for a READ, the clamped read buffer, the offset and the REQUESTED length; for a WRITE the
payload, the offset and its length word; nothing otherwise.  (Its third value is what must NOT become a DATA reply's
length: it is what the client asked for, not what the handler returned.) -/
def specPacketData : List (String × List String) := [
  ("read", ["BUF", "REQOFF", "REQLEN"]),
  ("write", ["REQDATA", "REQOFF", "REQWLEN"]),
  ("default", ["zero", "zero", "zero"])]

/-- which call's results the wrappers work with (#i bound, _ discarded), receiver and arguments included.
* fileget / fileput: buffer and offset are packetData's first two values, its third (the requested length) is
  discarded; ReadAt's count and error are both kept; of WriteAt only the error (the count is not reported in SFTP).
* fileputget: the same on the read-write object, buffer/offset/payload taken from the packet directly.
* filelist: ListAt fills a fresh MaxFilelist-sized slice from the handle's running offset.
* filestat: the lister comes from Lstat (optional interface) or Filelist, and ListAt(·, 0) fills ONE slot.
* readlink / filecmd: the handler method itself. -/
def specBindings : List (String × String × String) := [
  ("fileget", "#0,#1,_", "packetData(PKT,ALLOC,ORDERID,MAXTX)"),
  ("fileget", "#0,#1", "R.getReaderAt().ReadAt(packetData#0,packetData#1)"),
  ("fileput", "#0,#1,_", "packetData(PKT,ALLOC,ORDERID,MAXTX)"),
  ("fileput", "_,#1", "R.getWriterAt().WriteAt(packetData#0,packetData#1)"),
  ("fileputget/read", "#0,#1", "R.getWriterAtReaderAt().ReadAt(BUF,REQOFF)"),
  ("fileputget/write", "_,#1", "R.getWriterAtReaderAt().WriteAt(REQDATA,REQOFF)"),
  ("filelist", "#0,#1", "R.getListerAt().ListAt(make([]os.FileInfo,MaxFilelist),R.lsNext())"),
  ("filestat", "#0,#1", "H.(LstatFileLister).Lstat(R)"),
  ("filestat", "#0,#1", "H.Filelist(R)"),
  ("filestat", "#0,#1", "{Lstat#0|Filelist#0}.ListAt(make([]os.FileInfo,1),0)"),
  ("readlink", "#0,#1", "H.Readlink(R.Filepath)"),
  ("filecmd/PosixRename", "#0", "H.(PosixRenameFileCmder).PosixRename(R)"),
  ("filecmd/PosixRename", "#0", "H.Filecmd(R)"),
  ("filecmd/StatVFS", "#0,#1", "H.(StatVFSFileCmder).StatVFS(R)"),
  ("filecmd", "#0", "H.Filecmd(R)")]

/-- the slice ListAt filled, cut to the count it returned. -/
def listed (size : String) : String := "make([]os.FileInfo," ++ size ++ ")[:ListAt#0]"

/-- every non-status reply, field by field.
* DATA (fileget, fileputget/read): `dataReply` — Length = uint32(ReadAt#0), Data = buffer[:ReadAt#0], the buffer
  being the one ReadAt was called with (`specBindings`).
* NAME (filelist): one entry per element of listed[:ListAt#0] — name from the FileInfo, long name rendered from it,
  attributes the FileInfo itself; never an entry for a slot ListAt did not fill.
* ATTRS (filestat): the single FileInfo the lister produced, `listed[0]`, reached only when ListAt#0 ≠ 0.
* NAME (filestat for READLINK without the optional interface): that FileInfo's Name().
* NAME (readlink): the handler's text verbatim (`Readlink#0`, no cleaning), twice.
* StatVFS: the handler's own value (type "="); the only store into it is its ID (`specEffects`). -/
def specReplies : List (String × String × List (String × String)) := [
  ("fileget", dataReply "packetData#0"),
  ("fileputget/read", dataReply "BUF"),
  ("filelist/List", "sshFxpNamePacket", [("ID", "REQID"),
    ("NameAttrs", "map(" ++ listed "MaxFilelist" ++
      ", EL => &sshFxpNameAttr{Name:EL.Name(),LongName:runLs(H.(NameLookupFileLister),EL),Attrs:[]any{EL}})")]),
  ("filestat/Stat,Lstat", "sshFxpStatResponse", [("ID", "REQID"), ("info", listed "1" ++ "[0]")]),
  ("filestat/Readlink", linkReply (listed "1" ++ "[0].Name()")),
  ("readlink", linkReply "Readlink#0"),
  ("filecmd/StatVFS", "=", [("", "StatVFS#0")])]

def hasReader : String := neg "R.getReaderAt() == nil"
def hasWriter : String := neg "R.getWriterAt() == nil"
def hasReadWriter : String := neg "R.getWriterAtReaderAt() == nil"
def hasLister : String := neg "R.getListerAt() == nil"
def listerOk : String := neg "{Lstat#1|Filelist#1} != nil"
def statErr : String := "ListAt#1 != nil && ListAt#1 != io.EOF"

/-- when each of those replies is sent: the handle has its object, the method/packet clause applies, and the handler
call did NOT fail in the sense of the status guards below (for filestat additionally: one entry was produced). -/
def specReplyGuards : List (String × String) := [
  ("fileget", conj [hasReader, neg (eofWithoutData "ReadAt#1" "ReadAt#0")]),
  ("fileputget/read", conj [hasReadWriter, "type(PKT) in [read]", neg (eofWithoutData "ReadAt#1" "ReadAt#0")]),
  ("filelist/List", conj [hasLister, "R.Method in [\"List\"]", neg (eofWithoutData "ListAt#1" "ListAt#0")]),
  ("filestat/Stat,Lstat", conj [listerOk, "R.Method in [\"Stat\",\"Lstat\"]", neg statErr, neg "ListAt#0 == 0"]),
  ("filestat/Readlink", conj [listerOk, "R.Method in [\"Readlink\"]", neg statErr, neg "ListAt#0 == 0"]),
  ("readlink", neg "Readlink#1 != nil"),
  ("filecmd/StatVFS", conj ["R.Method in [\"StatVFS\"]", "is(H,StatVFSFileCmder)", neg "StatVFS#1 != nil"])]

/-- (clause, guard, error): when a STATUS goes out instead, and from which error it is built.
The error is always the one the handler call returned (`M#1`, or `M#0` for the one-result calls), except for the
wrapper's own diagnostics: missing handle object, wrong packet/method for the handle, "no such file" when the stat
lister produced nothing, and "unsupported" when StatVFS is not implemented.  READ and READDIR report the error
unless it is an EOF that came with data (`eofWithoutData`); WRITE and the commands report it unconditionally
(statusFromError turns nil into OK). -/
def specStatusGuards : List (String × String × String) := [
  ("fileget", "R.getReaderAt() == nil", "errors.New(\"unexpected read packet\")"),
  ("fileget", conj [hasReader, eofWithoutData "ReadAt#1" "ReadAt#0"], "ReadAt#1"),
  ("fileput", "R.getWriterAt() == nil", "errors.New(\"unexpected write packet\")"),
  ("fileput", hasWriter, "WriteAt#1"),
  ("fileputget", "R.getWriterAtReaderAt() == nil", "errors.New(\"unexpected write and read packet\")"),
  ("fileputget/read", conj [hasReadWriter, "type(PKT) in [read]", eofWithoutData "ReadAt#1" "ReadAt#0"], "ReadAt#1"),
  ("fileputget/write", conj [hasReadWriter, "type(PKT) in [write]"], "WriteAt#1"),
  ("fileputget/default", conj [hasReadWriter, "type(PKT) not in [read,write]"],
    "errors.New(\"unexpected packet type for read or write\")"),
  ("filelist", "R.getListerAt() == nil", "errors.New(\"unexpected dir packet\")"),
  ("filelist/List", conj [hasLister, "R.Method in [\"List\"]", eofWithoutData "ListAt#1" "ListAt#0"], "ListAt#1"),
  ("filelist/default", conj [hasLister, "R.Method not in [\"List\"]"], "fmt.Errorf(\"unexpected method: %s\",R.Method)"),
  ("filestat", "{Lstat#1|Filelist#1} != nil", "{Lstat#1|Filelist#1}"),
  ("filestat/Stat,Lstat", conj [listerOk, "R.Method in [\"Stat\",\"Lstat\"]", statErr], "ListAt#1"),
  ("filestat/Stat,Lstat", conj [listerOk, "R.Method in [\"Stat\",\"Lstat\"]", neg statErr, "ListAt#0 == 0"],
    "&os.PathError{Op:strings.ToLower(R.Method),Path:R.Filepath,Err:syscall.ENOENT}"),
  ("filestat/Readlink", conj [listerOk, "R.Method in [\"Readlink\"]", statErr], "ListAt#1"),
  ("filestat/Readlink", conj [listerOk, "R.Method in [\"Readlink\"]", neg statErr, "ListAt#0 == 0"],
    "&os.PathError{Op:\"readlink\",Path:R.Filepath,Err:syscall.ENOENT}"),
  ("filestat/default", conj [listerOk, "R.Method not in [\"Stat\",\"Lstat\",\"Readlink\"]"],
    "fmt.Errorf(\"unexpected method: %s\",R.Method)"),
  ("readlink", "Readlink#1 != nil", "Readlink#1"),
  ("filecmd/PosixRename", "R.Method in [\"PosixRename\"] && is(H,PosixRenameFileCmder)", "PosixRename#0"),
  ("filecmd/PosixRename", "R.Method in [\"PosixRename\"] && !is(H,PosixRenameFileCmder)", "Filecmd#0"),
  ("filecmd/StatVFS", "R.Method in [\"StatVFS\"] && is(H,StatVFSFileCmder) && StatVFS#1 != nil", "StatVFS#1"),
  ("filecmd/StatVFS", "R.Method in [\"StatVFS\"] && !is(H,StatVFSFileCmder)", "ErrSSHFxOpUnsupported"),
  ("filecmd", "R.Method not in [\"PosixRename\",\"StatVFS\"]", "Filecmd#0")]

/-- everything else the wrappers do.  For the property: the StatVFS value gets its ID and nothing else; the listing
offset advances by exactly the count ListAt returned; a one-shot stat lister is closed; the documented method
fallbacks (Lstat → Stat, PosixRename → Rename) and FSETSTAT's late flags/attrs are the only stores into the Request. -/
def specEffects : List (String × String × String) := [
  ("filelist", hasLister, "R.lsInc(int64(ListAt#0))"),
  ("filestat", "R.Method == \"Lstat\" && !is(H,LstatFileLister)", "R.Method = \"Stat\""),
  ("filestat", conj [listerOk, "is({Lstat#0|Filelist#0},io.Closer)"], "{Lstat#0|Filelist#0}.(io.Closer).Close()"),
  ("filecmd/fsetstat", "type(PKT) in [fsetstat]", "R.Flags = PKT.Flags"),
  ("filecmd/fsetstat", "type(PKT) in [fsetstat]", "R.Attrs = PKT.Attrs.([]byte)"),
  ("filecmd/PosixRename", "R.Method in [\"PosixRename\"] && !is(H,PosixRenameFileCmder)", "R.Method = \"Rename\""),
  ("filecmd/StatVFS", "R.Method in [\"StatVFS\"] && is(H,StatVFSFileCmder) && !(StatVFS#1 != nil)", "StatVFS#0.ID = REQID")]

/-! ### the regenerated tables are the expectation -/

theorem packet_data_as_spec : G.packetDataReturns = specPacketData := by decide

theorem bindings_as_spec : G.wrapperResultBindings = specBindings := by decide

/-- Every reply the request server builds from a handler's result is built as the expectation says: what the handler
returned, in the amount it returned, and nothing taken from the request except the id. -/
theorem replies_as_given : G.wrapperReplies = specReplies := by decide +kernel

theorem reply_guards_as_spec : G.wrapperReplyGuards = specReplyGuards := by decide +kernel

theorem status_guards_as_spec : G.wrapperStatusGuards = specStatusGuards := by decide +kernel

theorem effects_as_spec : G.wrapperEffects = specEffects := by decide

/-! ### read off the tables: the statements the property makes, per kind of reply -/

/-- DATA: in every wrapper that answers with a DATA packet, the length word is the handler's count and the payload is
that prefix of the buffer the handler's ReadAt was given (first argument of the bound ReadAt call). -/
theorem data_as_given :
    ∀ r ∈ G.wrapperReplies, r.2.1 = "sshFxpDataPacket" →
      ∃ recv buf off, (r.1, "#0,#1", recv ++ ".ReadAt(" ++ buf ++ "," ++ off ++ ")") ∈ G.wrapperResultBindings ∧
        r.2 = dataReply buf := by
  rw [replies_as_given, bindings_as_spec]
  intro r hr hty
  simp only [specReplies, List.mem_cons, List.not_mem_nil, or_false] at hr
  rcases hr with rfl | rfl | rfl | rfl | rfl | rfl | rfl
  · exact ⟨"R.getReaderAt()", "packetData#0", "packetData#1", by decide, rfl⟩
  · exact ⟨"R.getWriterAtReaderAt()", "BUF", "REQOFF", by decide, rfl⟩
  all_goals exact absurd hty (by decide)

/-- no reply field is computed from the requested length, the WRITE length word, or the whole unsliced read buffer. -/
theorem nothing_from_the_request :
    ∀ r ∈ G.wrapperReplies, ∀ f ∈ r.2.2,
      f.2 ≠ "REQLEN" ∧ f.2 ≠ "packetData#2" ∧ f.2 ≠ "REQWLEN" ∧ f.2 ≠ "BUF" ∧ f.2 ≠ "packetData#0" ∧
      f.2 ≠ "uint32(len(BUF))" ∧ f.2 ≠ "uint32(len(packetData#0))" := by decide +kernel

/-- every status that is not one of the wrapper's own diagnostics is built from an error the handler call returned. -/
theorem status_error_is_the_handlers :
    ∀ r ∈ G.wrapperStatusGuards,
      r.2.2 ∈ ["ReadAt#1", "WriteAt#1", "ListAt#1", "{Lstat#1|Filelist#1}", "Readlink#1", "PosixRename#0",
               "Filecmd#0", "StatVFS#1"] ∨
      r.2.2 ∈ ["errors.New(\"unexpected read packet\")", "errors.New(\"unexpected write packet\")",
               "errors.New(\"unexpected write and read packet\")",
               "errors.New(\"unexpected packet type for read or write\")", "errors.New(\"unexpected dir packet\")",
               "fmt.Errorf(\"unexpected method: %s\",R.Method)",
               "&os.PathError{Op:strings.ToLower(R.Method),Path:R.Filepath,Err:syscall.ENOENT}",
               "&os.PathError{Op:\"readlink\",Path:R.Filepath,Err:syscall.ENOENT}", "ErrSSHFxOpUnsupported"] := by
  decide +kernel

/-- the only store into the value StatVFS returned is its ID. -/
theorem statvfs_only_id_assigned :
    (G.wrapperEffects.filter (fun e => e.1 == "filecmd/StatVFS")).map (·.2.2) = ["StatVFS#0.ID = REQID"] ∧
    G.wrapperReplies.lookup "filecmd/StatVFS" = some ("=", [("", "StatVFS#0")]) := by
  decide

-- non-vacuity: the tables are not empty, and the rows the seeded change of C10_d touched are there
example : G.wrapperReplies.length = 7 ∧ G.wrapperStatusGuards.length = 23 ∧ G.wrapperResultBindings.length = 15 := by
  decide
example : G.wrapperReplies.lookup "fileputget/read" =
    some ("sshFxpDataPacket", [("ID", "REQID"), ("Length", "uint32(ReadAt#0)"), ("Data", "BUF[:ReadAt#0]")]) := by
  decide
example : eofWithoutData "ReadAt#1" "ReadAt#0" = "ReadAt#1 != nil && (ReadAt#1 != io.EOF || ReadAt#0 == 0)" := by
  decide

end Sftp.C10Replies
