import Sftp.Proofs.ExtDispatch
import Sftp.Model.ExtDispatchGenerated
/-
  C19 (extended requests) — "every extension the os-backed server advertises is actually served, and an extended request
  with any other name is answered 'operation unsupported' without ending the session", over the MODEL of the dispatch
  path `Sftp.ExtDispatch.extOutcome` (Model/ExtDispatch.lean: decode → receive loop → read-only gate → handler), for ALL
  names (String), both values of the server's read-only flag, both servers and, for the request server, every set of
  optional handler interfaces.  The general theorems carry explicit decidable hypotheses on the configuration; the
  `_generated` ones discharge them by `decide` on `ExtCfg.generated`, built from the regenerated tables.

  ExtCfg field ↔ Go statement (pinned /repo):
    extSwitch               packet.go:1342-1351  switch p.ExtendedRequest { case "statvfs@openssh.com": … }      G.extSwitch
    unknownErr              packet.go:1349-1350  default: return fmt.Errorf("… %w", errUnknownExtendedPacket)     G.extUnknownIsError
    makePacketReturnsPkt    packet-typing.go:128-132  if err := pkt.UnmarshalBinary(…); err != nil { return pkt, err }  G.makePacketReturnsPktOnError
    osNonFatal / osOnFatal  server.go:406-412  if err != nil && !errors.Is(err, errUnknownExtendedPacket) { …Close(); break }
                                                G.osRecvUnknownExtNonFatal, G.serveLoopOS_*
    rsNonFatal / rsOnFatal  request-server.go:161-171  switch { case errors.Is(err, errUnknownExtendedPacket): default: …Close(); return err }
                                                G.rsRecvUnknownExtNonFatal, G.serveLoopRS_*
    notReadOnly             packet-typing.go:61-71                                                                 G.notReadOnlyTypes
    workerGate, gateShapeOK, denyError   server.go:190-210 sftpServerWorker                                        G.workerGate, G.gateShapeOK, G.gateDenyError
    readonlyConst           packet.go:1363, 1384, 1413  func (p *sshFxpExtendedPacket…) readonly() bool { return … } G.readonlyConst
    genericNilReadonly      packet.go:1319-1321  if p.SpecificPacket == nil { return true }                       G.extendedReadonlyDelegates (combined)
    genericDelegates        packet.go:1322       return p.SpecificPacket.readonly()                               G.extendedReadonlyDelegates (combined)
    osNilReply              server.go:355-357    if p.SpecificPacket == nil { rpkt = statusFromError(p.ID, ErrSSHFxOpUnsupported) }  G.osUnknownExtUnsupported
    osNonNilCalls           server.go:358-359    else { rpkt = p.respond(s) }                                     G.serverCalls "sshFxpExtendedPacket"
    genericRespondDelegates packet.go:1325-1330  return p.SpecificPacket.respond(svr)                             (hand-written, no generated fact)
    osRespond               packet.go:1399-1402, 1428-1431, server_statvfs_impl.go:13-21                            G.serverCalls "<T>.respond"
    rsUnwraps               request-server.go:226-230                                                              G.packetWorkerUnwrapsExtended
    rsCases                 request-server.go:240-320 (clauses of the type switch)                                 G.rsWorkerCaseTypes
    getPathTypes / getHandleTypes  packet-typing.go:36-59                                                          G.getPathTypes, G.getHandleTypes
    rsDefaultReply          request-server.go:319-320  default: rpkt = statusFromError(pkt.id(), ErrSSHFxOpUnsupported)  G.rsUnknownExtUnsupported, G.packetWorkerCases
    rsCaseMethod            request-server.go:303-316  &Request{Method: "PosixRename" …} / {Method: "StatVFS" …}    G.packetWorkerRequestFields
    requestMethod           request.go:661-690 requestMethod                                                       G.requestMethodTable
    requestCall             request.go:318-340 Request.call                                                        G.requestCallTable
    filecmdIface, filecmdClosed  request.go:497-523 filecmd                                                        confirmed against G.wrapperStatusGuards / G.wrapperEffects
-/
namespace Sftp.C19Ext
open Sftp Sftp.ExtDispatch

/-- the configuration regenerated from the source -/
def cfgG : ExtCfg := ExtCfg.generated

/-- the seeded defect C19_c: `(*sshFxpExtendedPacket).readonly()` answers false for SpecificPacket == nil -/
def cfgSeed : ExtCfg := { cfgG with genericNilReadonly := false }

/-! ## the general theorems -/

/-- C19Ext.unknown_name_unsupported — for every configuration in which (h1,h2) both serve loops treat the decode error of
an unknown name as non-fatal, (h3) makePacket still returns the packet, (h4) the gate computes `readonly = true` for a
generic packet without SpecificPacket, (h5) handlePacket answers SpecificPacket == nil with ErrSSHFxOpUnsupported,
(h6,h7) the request server's type switch has no clause for the generic packet and its `default:` answers
ErrSSHFxOpUnsupported: EVERY name outside the switch, on either server (any handler), read-only or not, whatever follows
the name, is answered OP_UNSUPPORTED. -/
theorem unknown_name_unsupported (cfg : ExtCfg) (srv : Srv) (ro : Bool) (name : String) (ok : Bool)
    (h1 : cfg.unknownErr ∈ cfg.osNonFatal)
    (h2 : cfg.unknownErr ∈ cfg.rsNonFatal)
    (h3 : cfg.makePacketReturnsPkt = true)
    (h4 : gateReadonly cfg none = some true)
    (h5 : cfg.osNilReply = opUnsupported)
    (h6 : rsCaseOf cfg extType cfg.rsCases = "default")
    (h7 : cfg.rsDefaultReply = opUnsupported)
    (hn : name ∉ knownNames cfg) :
    extOutcome cfg srv ro name ok = .unsupported := by
  unfold extOutcome extPlan
  rw [decode_unknown cfg name ok hn]
  cases srv with
  | os => simp [Srv.isOs, receive, h1, queue, h3, osDispatch, h4, osHandle, replyOutcome, h5, resolve]
  | rs ifaces =>
    simp [Srv.isOs, receive, h2, queue, h3, rsPlan, rsType, h6, rsCasePlan, replyOutcome, h7, resolve]

/-- C19Ext.known_nonmutating_served (os-backed) — when the worker's gate reaches `pkt.readonly()` for the generic packet,
that method and `respond` delegate to the SpecificPacket and handlePacket calls `p.respond(s)`: a well-formed request
for a known name whose specific packet is read-only is SERVED (its `respond` runs) whether or not the server is
read-only. -/
theorem known_nonmutating_served (cfg : ExtCfg) (ro : Bool) (name t : String) (calls : List String)
    (hg : cfg.gateShapeOK = true) (ha : gateAction cfg cfg.workerGate = "readonly()")
    (hd : cfg.genericDelegates = true) (hc : cfg.osNonNilCalls = ["respond()"])
    (hr : cfg.genericRespondDelegates = true)
    (hl : cfg.extSwitch.lookup name = some t) (hro : cfg.readonlyConst.lookup t = some true)
    (hcalls : cfg.osRespond.lookup t = some calls) :
    extOutcome cfg .os ro name true = .served (kindOf calls) := by
  unfold extOutcome extPlan
  rw [decode_known_ok cfg name t hl]
  simp [Srv.isOs, receive, osDispatch, gateReadonly, hg, ha, genericReadonly, hd, hro, osHandle, hc, hr, hcalls, resolve]

/-- C19Ext.known_mutating_denied_iff_readonly (os-backed) — under the same shape facts and a permission error in the
gate: a well-formed request for a known name whose specific packet says `readonly() == false` is answered
PERMISSION_DENIED iff the server is read-only, and served otherwise. -/
theorem known_mutating_denied_iff_readonly (cfg : ExtCfg) (ro : Bool) (name t : String) (calls : List String)
    (hg : cfg.gateShapeOK = true) (ha : gateAction cfg cfg.workerGate = "readonly()")
    (hd : cfg.genericDelegates = true) (hc : cfg.osNonNilCalls = ["respond()"])
    (hr : cfg.genericRespondDelegates = true) (hp : deniesWithPermission cfg = true)
    (hl : cfg.extSwitch.lookup name = some t) (hro : cfg.readonlyConst.lookup t = some false)
    (hcalls : cfg.osRespond.lookup t = some calls) :
    (extOutcome cfg .os ro name true = .denied ↔ ro = true) ∧
    (ro = false → extOutcome cfg .os ro name true = .served (kindOf calls)) := by
  unfold extOutcome extPlan
  rw [decode_known_ok cfg name t hl]
  cases ro <;>
    simp [Srv.isOs, receive, osDispatch, gateReadonly, hg, ha, genericReadonly, hd, hro, hp, osHandle, hc, hr, hcalls,
      resolve]

/-- C19Ext.session_survives — under (h1,h2,h3) no well-framed extended request (its body decodes, or its name is unknown
so that nothing after the name is looked at) ends the session, on either server, read-only or not. -/
theorem session_survives (cfg : ExtCfg) (srv : Srv) (ro : Bool) (name : String) (ok : Bool)
    (h1 : cfg.unknownErr ∈ cfg.osNonFatal)
    (h2 : cfg.unknownErr ∈ cfg.rsNonFatal)
    (h3 : cfg.makePacketReturnsPkt = true)
    (hw : ok = true ∨ name ∉ knownNames cfg) :
    extOutcome cfg srv ro name ok ≠ .sessionEnds := by
  apply resolve_noEnds
  unfold extPlan
  have key : ∃ spec, receive cfg srv.isOs (decode cfg name ok) = .dispatch spec := by
    by_cases hk : name ∈ knownNames cfg
    · obtain ⟨t, ht⟩ := lookup_some_of_known cfg name hk
      have hok : ok = true := by
        rcases hw with h | h
        · exact h
        · exact absurd hk h
      subst hok
      rw [decode_known_ok cfg name t ht]
      exact ⟨some t, rfl⟩
    · rw [decode_unknown cfg name ok hk]
      refine ⟨none, ?_⟩
      cases srv <;> simp [Srv.isOs, receive, h1, h2, queue, h3]
  obtain ⟨spec, hs⟩ := key
  rw [hs]
  exact dispatched_noEnds cfg srv.isOs ro spec

/-- the request server has no read-only gate: its answer never depends on the flag (any configuration) -/
theorem rs_has_no_gate (cfg : ExtCfg) (ifaces : List String) (ro ro' : Bool) (name : String) (ok : Bool) :
    extOutcome cfg (.rs ifaces) ro name ok = extOutcome cfg (.rs ifaces) ro' name ok :=
  rs_ignores_readOnly cfg ifaces ro ro' name ok

/-- the seed in general form: if the generic packet's `readonly()` is false for SpecificPacket == nil (everything else as
in `unknown_name_unsupported`), a read-only os-backed server answers EVERY unknown name PERMISSION_DENIED. -/
theorem nil_not_readonly_denies_every_unknown (cfg : ExtCfg) (name : String) (ok : Bool)
    (h1 : cfg.unknownErr ∈ cfg.osNonFatal) (h3 : cfg.makePacketReturnsPkt = true)
    (h4 : gateReadonly cfg none = some false) (hp : deniesWithPermission cfg = true)
    (hn : name ∉ knownNames cfg) :
    extOutcome cfg .os true name ok = .denied := by
  unfold extOutcome extPlan
  rw [decode_unknown cfg name ok hn]
  simp [Srv.isOs, receive, h1, queue, h3, osDispatch, h4, hp, resolve]

/-! ## instantiation on the regenerated configuration -/

/-- the regenerated configuration is today's hand-written one -/
theorem generated_eq_current : cfgG = ExtCfg.current := by decide

theorem knownNames_generated :
    knownNames cfgG = ["statvfs@openssh.com", "posix-rename@openssh.com", "hardlink@openssh.com"] := by decide

theorem mutatingNames_generated :
    mutatingNames cfgG = ["posix-rename@openssh.com", "hardlink@openssh.com"] := by decide

/-- the candidate rows of request.go filecmd (optional interface, fallback) are all confirmed by the regenerated guard
tables and no other method is treated specially -/
theorem filecmd_table_confirmed :
    cfgG.filecmdIface = ExtCfg.current.filecmdIface ∧ cfgG.filecmdClosed = true := by decide

/-- C19.unknown_name_unsupported on the source as extracted: ALL names but the three of the switch, both servers (any
handler), read-only or not, any body. -/
theorem unknown_name_unsupported_generated (srv : Srv) (ro : Bool) (name : String) (ok : Bool)
    (hn : name ∉ knownNames cfgG) : extOutcome cfgG srv ro name ok = .unsupported :=
  unknown_name_unsupported cfgG srv ro name ok (by decide) (by decide) (by decide) (by decide) (by decide) (by decide)
    (by decide) hn

theorem known_cases (name : String) (hk : name ∈ knownNames cfgG) :
    name = "statvfs@openssh.com" ∨ name = "posix-rename@openssh.com" ∨ name = "hardlink@openssh.com" := by
  rw [knownNames_generated] at hk
  simpa using hk

/-- every known name that is not mutating is served by the os-backed server, read-only or not (today: statvfs, by
getStatVFSForPath) -/
theorem known_nonmutating_served_generated (ro : Bool) (name : String)
    (hk : name ∈ knownNames cfgG) (hm : name ∉ mutatingNames cfgG) :
    ∃ kind, extOutcome cfgG .os ro name true = .served kind := by
  rw [mutatingNames_generated] at hm
  rcases known_cases name hk with rfl | rfl | rfl
  · exact ⟨_, known_nonmutating_served cfgG ro "statvfs@openssh.com" "sshFxpExtendedPacketStatVFS" ["getStatVFSForPath(L:Path)"]
      (by decide) (by decide) (by decide) (by decide) (by decide) (by decide) (by decide) (by decide)⟩
  · simp at hm
  · simp at hm

/-- every known mutating name is answered PERMISSION_DENIED by the os-backed server iff it is read-only, and served
otherwise -/
theorem known_mutating_denied_iff_readonly_generated (ro : Bool) (name : String) (hm : name ∈ mutatingNames cfgG) :
    (extOutcome cfgG .os ro name true = .denied ↔ ro = true) ∧
    (ro = false → ∃ kind, extOutcome cfgG .os ro name true = .served kind) := by
  rw [mutatingNames_generated] at hm
  have hm : name = "posix-rename@openssh.com" ∨ name = "hardlink@openssh.com" := by simpa using hm
  rcases hm with rfl | rfl
  · have := known_mutating_denied_iff_readonly cfgG ro "posix-rename@openssh.com" "sshFxpExtendedPacketPosixRename" ["os.Rename(L:Oldpath,L:Newpath)"]
      (by decide) (by decide) (by decide) (by decide) (by decide) (by decide) (by decide) (by decide) (by decide)
    exact ⟨this.1, fun h => ⟨_, this.2 h⟩⟩
  · have := known_mutating_denied_iff_readonly cfgG ro "hardlink@openssh.com" "sshFxpExtendedPacketHardlink" ["os.Link(L:Oldpath,L:Newpath)"]
      (by decide) (by decide) (by decide) (by decide) (by decide) (by decide) (by decide) (by decide) (by decide)
    exact ⟨this.1, fun h => ⟨_, this.2 h⟩⟩

/-- no well-framed extended request ends the session -/
theorem session_survives_generated (srv : Srv) (ro : Bool) (name : String) (ok : Bool)
    (hw : ok = true ∨ name ∉ knownNames cfgG) : extOutcome cfgG srv ro name ok ≠ .sessionEnds :=
  session_survives cfgG srv ro name ok (by decide) (by decide) (by decide) hw

/-- … while a known name with a body that does not decode ends it on both servers (the malformed packet is not
dispatched) -/
theorem known_malformed_ends_generated (srv : Srv) (ro : Bool) (name : String) (hk : name ∈ knownNames cfgG) :
    extOutcome cfgG srv ro name false = .sessionEnds := by
  rcases known_cases name hk with rfl | rfl | rfl <;> cases srv <;> cases ro <;>
    simp only [extOutcome, Srv.isOs] <;> rw [show extPlan cfgG _ _ _ false = .reply .sessionEnds by decide] <;> rfl

/-- the request server's answers to the three known names, for EVERY set of optional interfaces of the FileCmd handler
(it has no read-only flag): hardlink is `Filecmd` with Method "Link"; posix-rename is `PosixRename` or, without
PosixRenameFileCmder, `Filecmd` with Method "Rename"; statvfs is `StatVFS` or, without StatVFSFileCmder,
OP_UNSUPPORTED. -/
theorem rs_known_outcomes_generated (ifaces : List String) (ro : Bool) :
    extOutcome cfgG (.rs ifaces) ro "hardlink@openssh.com" true = .served "Filecmd:Link" ∧
    extOutcome cfgG (.rs ifaces) ro "posix-rename@openssh.com" true =
      (if ifaces.contains "PosixRenameFileCmder" then .served "PosixRename" else .served "Filecmd:Rename") ∧
    extOutcome cfgG (.rs ifaces) ro "statvfs@openssh.com" true =
      (if ifaces.contains "StatVFSFileCmder" then .served "StatVFS" else .unsupported) := by
  refine ⟨?_, ?_, ?_⟩ <;> cases ro <;> simp only [extOutcome, Srv.isOs, Srv.ifaces]
  · rw [show extPlan cfgG false false "hardlink@openssh.com" true = .reply (.served "Filecmd:Link") by decide]; rfl
  · rw [show extPlan cfgG false true "hardlink@openssh.com" true = .reply (.served "Filecmd:Link") by decide]; rfl
  · rw [show extPlan cfgG false false "posix-rename@openssh.com" true =
      .needIface "PosixRenameFileCmder" (.served "PosixRename") (.served "Filecmd:Rename") by decide]; rfl
  · rw [show extPlan cfgG false true "posix-rename@openssh.com" true =
      .needIface "PosixRenameFileCmder" (.served "PosixRename") (.served "Filecmd:Rename") by decide]; rfl
  · rw [show extPlan cfgG false false "statvfs@openssh.com" true =
      .needIface "StatVFSFileCmder" (.served "StatVFS") .unsupported by decide]; rfl
  · rw [show extPlan cfgG false true "statvfs@openssh.com" true =
      .needIface "StatVFSFileCmder" (.served "StatVFS") .unsupported by decide]; rfl

/-- the interpreter understands every field of the regenerated configuration: no request is `unmodelled` -/
theorem generated_never_unmodelled (srv : Srv) (ro : Bool) (name : String) (ok : Bool) (why : String) :
    extOutcome cfgG srv ro name ok ≠ .unmodelled why := by
  by_cases hk : name ∈ knownNames cfgG
  · cases ok with
    | false => rw [known_malformed_ends_generated srv ro name hk]; simp
    | true =>
      cases srv with
      | rs ifaces =>
        have h := rs_known_outcomes_generated ifaces ro
        rcases known_cases name hk with rfl | rfl | rfl
        · rw [h.2.2]; split <;> simp
        · rw [h.2.1]; split <;> simp
        · rw [h.1]; simp
      | os =>
        by_cases hm : name ∈ mutatingNames cfgG
        · have h := known_mutating_denied_iff_readonly_generated ro name hm
          cases ro with
          | true => rw [h.1.2 rfl]; simp
          | false => obtain ⟨k, hk'⟩ := h.2 rfl; rw [hk']; simp
        · obtain ⟨k, hk'⟩ := known_nonmutating_served_generated ro name hk hm
          rw [hk']; simp
  · rw [unknown_name_unsupported_generated srv ro name ok hk]; simp

/-! ## necessity: the seeded defect and the other hypotheses -/

/-- C19_c: with the generic packet's readonly value flipped a read-only os-backed server answers an unknown name
PERMISSION_DENIED … -/
theorem seed_flipped_nil_readonly_denies :
    ∃ name, name ∉ knownNames cfgSeed ∧ extOutcome cfgSeed .os true name true = .denied :=
  ⟨"fsync@openssh.com", by decide, by decide⟩

/-- … in fact EVERY unknown name, whatever follows it -/
theorem seed_denies_every_unknown (name : String) (ok : Bool) (hn : name ∉ knownNames cfgSeed) :
    extOutcome cfgSeed .os true name ok = .denied :=
  nil_not_readonly_denies_every_unknown cfgSeed name ok (by decide) (by decide) (by decide) (by decide) hn

/-- and nothing else changes: a server that is not read-only, and the request server, still answer OP_UNSUPPORTED -/
example : extOutcome cfgSeed .os false "fsync@openssh.com" true = .unsupported := by decide
example : extOutcome cfgSeed (.rs []) true "fsync@openssh.com" true = .unsupported := by decide
example : extOutcome cfgSeed .os true "statvfs@openssh.com" true = .served "getStatVFSForPath" := by decide
example : extOutcome cfgSeed .os true "hardlink@openssh.com" true = .denied := by decide

/-- h1 is needed: a serve loop for which the unknown-name error is fatal ends the session -/
example : extOutcome { cfgG with osNonFatal := [] } .os false "fsync@openssh.com" true = .sessionEnds := by decide
example : extOutcome { cfgG with rsNonFatal := [] } (.rs []) false "fsync@openssh.com" true = .sessionEnds := by decide
/-- h3 is needed: makePacket dropping the packet on error -/
example : extOutcome { cfgG with makePacketReturnsPkt := false } .os false "x" true = .sessionEnds := by decide
/-- h6 is needed: a request server that does not unwrap answers the KNOWN names OP_UNSUPPORTED -/
example : extOutcome { cfgG with rsUnwraps := false } (.rs ["StatVFSFileCmder"]) false "statvfs@openssh.com" true =
    .unsupported := by decide
/-- a name dropped from the switch is no longer served although still advertised -/
example : extOutcome { cfgG with extSwitch := cfgG.extSwitch.drop 1 } .os false "statvfs@openssh.com" true =
    .unsupported := by decide
/-- a specific packet wrongly marked read-only passes the gate of a read-only server -/
example : extOutcome { cfgG with readonlyConst := [("sshFxpExtendedPacketHardlink", true)] } .os true
    "hardlink@openssh.com" true = .served "os.Link" := by decide

/-! ## non-vacuity -/

example : "fsync@openssh.com" ∉ knownNames cfgG := by decide
example : "" ∉ knownNames cfgG := by decide
example : "statvfs" ∉ knownNames cfgG := by decide
example : "STATVFS@OPENSSH.COM" ∉ knownNames cfgG := by decide
example : extOutcome cfgG .os true "" false = .unsupported := by decide
example : extOutcome cfgG (.rs ["PosixRenameFileCmder"]) false "hardlink@openssh.com\x00" true = .unsupported := by decide
example : "statvfs@openssh.com" ∈ knownNames cfgG ∧ "statvfs@openssh.com" ∉ mutatingNames cfgG := by decide
example : extOutcome cfgG .os true "statvfs@openssh.com" true = .served "getStatVFSForPath" := by decide
example : extOutcome cfgG .os false "statvfs@openssh.com" true = .served "getStatVFSForPath" := by decide
example : "hardlink@openssh.com" ∈ mutatingNames cfgG := by decide
example : extOutcome cfgG .os true "hardlink@openssh.com" true = .denied := by decide
example : extOutcome cfgG .os false "hardlink@openssh.com" true = .served "os.Link" := by decide
example : extOutcome cfgG .os true "posix-rename@openssh.com" true = .denied := by decide
example : extOutcome cfgG .os false "posix-rename@openssh.com" true = .served "os.Rename" := by decide
example : extOutcome cfgG .os false "posix-rename@openssh.com" false = .sessionEnds := by decide
example : extOutcome cfgG (.rs []) true "posix-rename@openssh.com" true = .served "Filecmd:Rename" := by decide
example : extOutcome cfgG (.rs ["PosixRenameFileCmder", "StatVFSFileCmder"]) true "statvfs@openssh.com" true =
    .served "StatVFS" := by decide
/-- the hypotheses of the general theorems hold of a configuration that is not the generated one, too -/
example : extOutcome { cfgG with extSwitch := [] } .os true "statvfs@openssh.com" true = .unsupported :=
  unknown_name_unsupported _ _ _ _ _ (by decide) (by decide) (by decide) (by decide) (by decide) (by decide) (by decide)
    (by decide)

end Sftp.C19Ext
