import Sftp.Proofs.CodecTables
/-
  C06 (table level) — the packet layouts of both codecs, regenerated from the Go source
  (Generated/CodecTables.lean), are the layouts of draft-ietf-secsh-filexfer-02 / OpenSSH
  PROTOCOL (Spec/Layout.lean, written by hand); decoders read what encoders write; the two codecs
  agree; every decoder field uses a bounds-checked primitive; every request kind has a decoder.

  Every theorem is a statement about complete finite tables, checked by `decide`; the `_bytes`
  corollaries connect the table facts to the generic interpreter of Model/Codec.lean.
-/
namespace Sftp.C06
open Sftp Sftp.Codec

/-! ### the layouts are those of the draft -/

/-- Every encoder of the main codec and of filexfer writes the type byte and the field kinds that
the specification gives to its logical packet kind — the main codec with the trailing ATTRS block
of a request in its raw form (`u32 flags`, `rest`). -/
theorem layout_is_draft :
    (∀ row ∈ G.mainMarshal, ∃ kind spec, G.kindOfMain.lookup row.1 = some kind ∧
        Spec.layout.lookup kind = some (row.2.1, spec) ∧ Spec.refines (kinds row.2.2) spec = true) ∧
    (∀ row ∈ G.fxMarshal, ∃ kind spec, G.kindOfFx.lookup row.1 = some kind ∧
        Spec.layout.lookup kind = some (row.2.1, spec) ∧ Spec.refines (kinds row.2.2) spec = true) := by
  have key : ∀ (ko : List (String × String)) (row : MRow), rowIsDraft ko row = true →
      ∃ kind spec, ko.lookup row.1 = some kind ∧
        Spec.layout.lookup kind = some (row.2.1, spec) ∧ Spec.refines (kinds row.2.2) spec = true := by
    intro ko row h
    unfold rowIsDraft at h
    split at h
    · cases h
    · next k hk =>
      split at h
      · cases h
      · next typ spec hs =>
        simp only [Bool.and_eq_true, beq_iff_eq] at h
        exact ⟨k, spec, hk, by rw [hs, h.1], h.2⟩
  have hm : G.mainMarshal.all (rowIsDraft G.kindOfMain) = true := by decide
  have hf : G.fxMarshal.all (rowIsDraft G.kindOfFx) = true := by decide
  exact ⟨fun row hr => key _ row (List.all_eq_true.mp hm row hr),
         fun row hr => key _ row (List.all_eq_true.mp hf row hr)⟩

example : (G.mainMarshal.lookup "sshFxpOpenPacket").isSome = true ∧ G.fxMarshal ≠ [] := by decide

/-- filexfer carries the ATTRS block in structured form: its field kinds are the specification's
without any refinement. -/
theorem fx_layout_exact : ∀ row ∈ G.fxMarshal, ∃ kind, G.kindOfFx.lookup row.1 = some kind ∧
    Spec.layout.lookup kind = some (row.2.1, kinds row.2.2) := by
  have hf : G.fxMarshal.all (rowIsDraftExact G.kindOfFx) = true := by decide
  intro row hr
  have h := List.all_eq_true.mp hf row hr
  unfold rowIsDraftExact at h
  split at h
  · cases h
  · next k hk =>
    split at h
    · cases h
    · next typ spec hs =>
      simp only [Bool.and_eq_true, beq_iff_eq] at h
      exact ⟨k, hk, by rw [hs, h.1, h.2]⟩

example : G.fxMarshal ≠ [] := by decide

/-- The flags-only form of the ATTRS block (the flags word with nothing after it) occurs for
SSH_FXP_MKDIR only; it is the draft's layout under the well-formedness condition `Mkdir.Flags = 0`
(`mkdir_flags_zero_bytes`). -/
theorem flags_only_is_mkdir : ∀ row ∈ G.mainMarshal ++ G.fxMarshal, ∀ kind typ spec,
    (G.kindOfMain ++ G.kindOfFx).lookup row.1 = some kind → Spec.layout.lookup kind = some (typ, spec) →
    Spec.refinement (kinds row.2.2) spec = some .flagsOnly → kind = "Mkdir" := by
  have h : (G.mainMarshal ++ G.fxMarshal).all (rowFlagsOnlyOK (G.kindOfMain ++ G.kindOfFx)) = true := by decide
  intro row hr kind typ spec hk hs hf
  have := List.all_eq_true.mp h row hr
  unfold rowFlagsOnlyOK at this
  rw [hk] at this
  simp only [hs, hf, bne_self_eq_false, Bool.false_or] at this
  simpa [Spec.flagsOnlyKinds] using this

example : Spec.refinement (kinds [⟨.u32, "ID", true⟩, ⟨.str, "Path", true⟩, ⟨.u32, "Flags", true⟩])
    [.u32, .str, .attrs] = some .flagsOnly := by decide

/-- `Mkdir.Flags = 0`: the flags word alone is then the whole (empty) ATTRS block. -/
theorem mkdir_flags_zero_bytes (n1 n3 : String) (s1 s3 : Bool) :
    encodeFields [⟨.u32, n1, s1⟩] [.n 0] =
    encodeFields [⟨.attrs, n3, s3⟩] [.attrs ⟨0, 0, 0, 0, 0, 0, 0, []⟩] :=
  attrs_flagsOnly_bytes n1 n3 s1 s3

/-- The raw form writes the bytes of the structured form: flags word, then the by-flag bytes. -/
theorem attrs_raw_form_bytes (a : Attrs) (n1 n2 n3 : String) (s1 s2 s3 : Bool) :
    encodeFields [⟨.u32, n1, s1⟩, ⟨.rest, n2, s2⟩] [.n a.flags, .b (Spec.attrBody a)] =
    encodeFields [⟨.attrs, n3, s3⟩] [.attrs a] :=
  attrs_flagsRest_bytes a n1 n2 n3 s1 s2 s3

example : encodeFields [⟨.u32, "Flags", true⟩, ⟨.rest, "Attrs", true⟩]
    [.n 4, .b (Spec.attrBody ⟨4, 0, 0, 0, 0o644, 0, 0, []⟩)] = some [0, 0, 0, 4, 0, 0, 1, 164] := by decide


/-- Field by field, in wire order, every encoder and every decoder of both codecs carries the
role the specification gives to that position (oldpath before newpath, targetpath before
linkpath, the statvfs counters in OpenSSH's order, …): no two fields of equal kind are swapped. -/
theorem field_roles_are_draft :
    (∀ m ∈ G.mainMarshal, rowRolesOK G.kindOfMain m.1 m.2.2 = true) ∧
    (∀ u ∈ G.mainUnmarshal, rowRolesOK G.kindOfMain u.1 u.2 = true) ∧
    (∀ m ∈ G.fxMarshal, rowRolesOK G.kindOfFx m.1 m.2.2 = true) ∧
    (∀ u ∈ G.fxUnmarshal, rowRolesOK G.kindOfFx u.1 u.2 = true) := by
  have h1 : G.mainMarshal.all (fun m => rowRolesOK G.kindOfMain m.1 m.2.2) = true := by decide
  have h2 : G.mainUnmarshal.all (fun u => rowRolesOK G.kindOfMain u.1 u.2) = true := by decide
  have h3 : G.fxMarshal.all (fun m => rowRolesOK G.kindOfFx m.1 m.2.2) = true := by decide
  have h4 : G.fxUnmarshal.all (fun u => rowRolesOK G.kindOfFx u.1 u.2) = true := by decide
  exact ⟨fun m hm => List.all_eq_true.mp h1 m hm, fun u hu => List.all_eq_true.mp h2 u hu,
         fun m hm => List.all_eq_true.mp h3 m hm, fun u hu => List.all_eq_true.mp h4 u hu⟩

example : rowRolesOK G.kindOfMain "sshFxpRenamePacket"
    [⟨.u32, "ID", true⟩, ⟨.str, "Newpath", true⟩, ⟨.str, "Oldpath", true⟩] = false := by decide

/-! ### decoders read what encoders write -/

/-- For every decoder of the main codec (the server-side request decoders and DATA) some encoder
of the same logical kind — of the same struct, or the client-side struct of that kind — writes
exactly the field kinds the decoder reads, role by role (a constant string is read as a string).  The
dispatcher of extended requests reads a prefix of each specific decoder and hands the ORIGINAL
bytes on.  The same for every filexfer decoder and the filexfer encoder of the same struct. -/
theorem unmarshal_matches_marshal :
    (∀ u ∈ G.mainUnmarshal, G.kindOfMain.lookup u.1 ≠ some "Extended" →
        ∃ kind, G.kindOfMain.lookup u.1 = some kind ∧
        ∃ m ∈ G.mainMarshal, G.kindOfMain.lookup m.1 = some kind ∧ decKinds m.2.2 = decKinds u.2 ∧
          rolesOf kind m.2.2 = rolesOf kind u.2) ∧
    (dispatcherIsPrefix G.mainUnmarshal (G.extSwitch.map (·.2)) = true ∧ G.extDispatchOnOriginal = true) ∧
    (∀ u ∈ G.fxUnmarshal, ∃ kind, G.kindOfFx.lookup u.1 = some kind ∧
        ∃ m ∈ G.fxMarshal, G.kindOfFx.lookup m.1 = some kind ∧ decKinds m.2.2 = decKinds u.2 ∧
          rolesOf kind m.2.2 = rolesOf kind u.2) := by
  have key : ∀ (ku km : List (String × String)) (ms : List MRow) (u : URow),
      decoderMatches ku km ms u = true →
      ∃ kind, ku.lookup u.1 = some kind ∧
        ∃ m ∈ ms, km.lookup m.1 = some kind ∧ decKinds m.2.2 = decKinds u.2 ∧
          rolesOf kind m.2.2 = rolesOf kind u.2 := by
    intro ku km ms u h
    unfold decoderMatches at h
    split at h
    · cases h
    · next k hk =>
      obtain ⟨m, hm, hc⟩ := List.any_eq_true.mp h
      simp only [Bool.and_eq_true, beq_iff_eq] at hc
      exact ⟨k, hk, m, hm, hc.1.1, hc.1.2, hc.2⟩
  have hm : G.mainUnmarshal.all mainDecoderOK = true := by decide
  have hd : (dispatcherIsPrefix G.mainUnmarshal (G.extSwitch.map (·.2)) && G.extDispatchOnOriginal) = true := by
    decide
  have hf : G.fxUnmarshal.all (decoderMatches G.kindOfFx G.kindOfFx G.fxMarshal) = true := by decide
  refine ⟨?_, by simpa using hd, fun u hu => key _ _ _ u (List.all_eq_true.mp hf u hu)⟩
  intro u hu hne
  have h := List.all_eq_true.mp hm u hu
  unfold mainDecoderOK at h
  split at h
  · next he => exact absurd (by simpa using he) hne
  · exact key _ _ _ u h

example : (G.mainUnmarshal.lookup "sshFxpExtendedPacketStatVFS").isSome = true ∧ G.fxUnmarshal ≠ [] := by decide

/-- Consequence for the interpreter: decoding by the decoder's table and decoding by the
encoder's table are the same function, as soon as both are made of checked fields. -/
theorem decode_by_encoder_layout (cfg : DecCfg) (m u : List FieldD)
    (hk : decKinds m = decKinds u) (hm : m.all (·.safe) = true) (hu : u.all (·.safe) = true)
    (bs : Bytes) : decodeFields cfg u bs = decodeFields cfg m bs :=
  decodeFields_sameSig cfg u m bs (decSig_of_decKinds u m hk.symm hu hm)

example : decodeFields DecCfg.current
      [⟨.u32, "ID", true⟩, ⟨.str, "ExtendedRequest", true⟩, ⟨.str, "Path", true⟩] [0, 0, 0, 7] =
    decodeFields DecCfg.current
      [⟨.u32, "ID", true⟩, ⟨.cstr (strBytes "statvfs@openssh.com"), "ext", true⟩, ⟨.str, "Path", true⟩] [0, 0, 0, 7] :=
  decode_by_encoder_layout _ _ _ (by decide) (by decide) (by decide) _

/-! ### the two codecs agree -/

/-- Every packet kind the main codec encodes is encoded by filexfer with the same type byte and
the same field kinds, the main codec's raw ATTRS form standing for filexfer's structured one; and
neither table has two rows of one kind. -/
theorem codecs_agree :
    (∀ m ∈ G.mainMarshal, ∃ kind, G.kindOfMain.lookup m.1 = some kind ∧
        ∃ f ∈ G.fxMarshal, G.kindOfFx.lookup f.1 = some kind ∧ f.2.1 = m.2.1 ∧
          Spec.refines (kinds m.2.2) (kinds f.2.2) = true) ∧
    kindsUnique G.kindOfMain (G.mainMarshal.map (·.1)) = true ∧
    kindsUnique G.kindOfFx (G.fxMarshal.map (·.1)) = true := by
  have h : G.mainMarshal.all (agreesWith G.fxMarshal) = true := by decide
  refine ⟨?_, by decide, by decide⟩
  intro m hm
  have := List.all_eq_true.mp h m hm
  unfold agreesWith at this
  split at this
  · cases this
  · next k hk =>
    obtain ⟨f, hf, hc⟩ := List.any_eq_true.mp this
    simp only [Bool.and_eq_true, beq_iff_eq] at hc
    exact ⟨k, hk, f, hf, hc.1.1, hc.1.2, hc.2⟩

example : G.mainMarshal ≠ [] ∧ G.fxMarshal ≠ [] := by decide

/-- Identical bytes: two layouts with the same field kinds encode every record to the same bytes
(and reject the same records), hence to the same frame when the type bytes coincide. -/
theorem same_kinds_same_bytes (l1 l2 : List FieldD) (typ : Nat) (h : kinds l1 = kinds l2)
    (vs : List Val) :
    (encodeFields l1 vs).map (frame typ) = (encodeFields l2 vs).map (frame typ) := by
  rw [encodeFields_sameKinds l1 l2 vs h]

example : (encodeFields [⟨.u32, "ID", true⟩, ⟨.str, "Handle", true⟩] [.n 1, .b [104]]).map (frame 4) =
    some [0, 0, 0, 10, 4, 0, 0, 0, 1, 0, 0, 0, 1, 104] := by decide

/-! ### every decoder is bounds-checked -/

/-- Every field of every decoder of both codecs is read by a primitive that checks the remaining
length first (packet.go: the `…Safe` functions, whose checks are themselves verified; filexfer:
the `Buffer.Consume…` methods), including the length guard in front of `b[:p.Length]`. -/
theorem all_decoders_safe :
    (∀ u ∈ G.mainUnmarshal ++ G.fxUnmarshal, ∀ f ∈ u.2, f.safe = true) ∧
    (∀ p ∈ G.mainSafePrims ++ G.fxSafePrims, p.2 = true) := by
  have h : allSafe (G.mainUnmarshal ++ G.fxUnmarshal) = true := by decide
  have hp : (G.mainSafePrims ++ G.fxSafePrims).all (·.2) = true := by decide
  exact ⟨fun u hu f hf => List.all_eq_true.mp (List.all_eq_true.mp h u hu) f hf,
         fun p hp' => List.all_eq_true.mp hp p hp'⟩

example : G.mainUnmarshal ≠ [] ∧ G.fxUnmarshal ≠ [] ∧ (G.mainUnmarshal ++ G.fxUnmarshal).all (fun u => u.2 != []) = true := by decide

/-! ### every request kind has a decoder -/

/-- (1) every type byte accepted by `makePacket` goes to a tabulated decoder whose logical kind
has that type byte in the specification; (2) every request kind of the draft is reached that way;
(3) every name in the server's extension switch selects the decoder of the kind that carries
this name in the specification; (4) filexfer encodes and decodes every request kind of the draft
and every OpenSSH extension, and registers each extension under its specified name. -/
theorem every_request_kind_covered :
    (∀ r ∈ G.makePacketSwitch, switchRowCovered r = true) ∧
    (∀ k ∈ Spec.draftRequests, draftKindCovered k = true) ∧
    (∀ r ∈ G.extSwitch, extSwitchRowOK r = true) ∧
    (∀ k ∈ Spec.draftRequests ++ Spec.extRequests.map (·.1), fxKindCovered k = true) ∧
    (∀ r ∈ G.fxExtRegistry, fxRegistryRowOK r = true) ∧
    (∀ e ∈ Spec.extRequests, ∃ r ∈ G.fxExtRegistry, r.1 = e.2) := by
  have h1 : G.makePacketSwitch.all switchRowCovered = true := by decide
  have h2 : Spec.draftRequests.all draftKindCovered = true := by decide
  have h3 : G.extSwitch.all extSwitchRowOK = true := by decide
  have h4 : (Spec.draftRequests ++ Spec.extRequests.map (·.1)).all fxKindCovered = true := by decide
  have h5 : G.fxExtRegistry.all fxRegistryRowOK = true := by decide
  have h6 : Spec.extRequests.all (fun e => G.fxExtRegistry.any fun r => r.1 == e.2) = true := by decide
  refine ⟨fun r hr => List.all_eq_true.mp h1 r hr, fun k hk => List.all_eq_true.mp h2 k hk,
    fun r hr => List.all_eq_true.mp h3 r hr, fun k hk => List.all_eq_true.mp h4 k hk,
    fun r hr => List.all_eq_true.mp h5 r hr, ?_⟩
  intro e he
  obtain ⟨r, hr, hc⟩ := List.any_eq_true.mp (List.all_eq_true.mp h6 e he)
  exact ⟨r, hr, by simpa using hc⟩

example : G.makePacketSwitch ≠ [] ∧ G.extSwitch ≠ [] ∧ G.fxExtRegistry ≠ [] := by decide

end Sftp.C06
