import Sftp.Generated.Setstat
/-
  C17, second half — "A set-attributes request changes exactly the attributes whose flags it carries",
  and the attribute block carries exactly the fields its flags name.

  Model: SETSTAT / FSETSTAT as an interpreter of the regenerated step list
  `[(flag mask, calls)]` (server.go respond methods): a step runs iff its mask intersects the
  request's flags (and no earlier step failed).
-/
namespace Sftp.C17
open Sftp

/-- attribute kinds of SFTP v3 -/
inductive AttrKind | size | perm | owner | times
  deriving DecidableEq, Repr

def flagOf : AttrKind → Nat
  | .size => 0x1 | .owner => 0x2 | .perm => 0x4 | .times => 0x8

/-- which attribute each os / file call changes (hand-written) -/
def kindOfCall (c : String) : Option AttrKind :=
  if c = "os.Truncate" ∨ c = "f.Truncate" then some .size
  else if c = "os.Chmod" ∨ c = "f.Chmod" then some .perm
  else if c = "os.Chown" ∨ c = "f.Chown" then some .owner
  else if c = "os.Chtimes" ∨ c = "f.Chtimes" then some .times
  else none

/-- the steps that run for a request carrying `flags` when every call succeeds -/
def applied (steps : List (Nat × List String)) (flags : Nat) : List String :=
  (steps.filter (fun s => flags &&& s.1 != 0)).flatMap (·.2)

/-- the attributes a request with `flags` changes -/
def changed (steps : List (Nat × List String)) (flags : Nat) : List AttrKind :=
  (applied steps flags).filterMap kindOfCall

/-- well-formed step table: each step is guarded by exactly the flag of the attribute its calls change,
every call is one of the known attribute calls, all four attributes are covered once -/
def stepsOk (steps : List (Nat × List String)) : Bool :=
  steps.all (fun s => s.2 != [] && s.2.all (fun c => (kindOfCall c).map flagOf == some s.1)) &&
  (steps.map (·.1)) == [0x1, 0x4, 0x2, 0x8]

theorem stepsOk_step {steps : List (Nat × List String)} (h : stepsOk steps = true) {s : Nat × List String}
    (hs : s ∈ steps) : s.2 ≠ [] ∧ ∀ c ∈ s.2, (kindOfCall c).map flagOf = some s.1 := by
  unfold stepsOk at h
  rw [Bool.and_eq_true, List.all_eq_true] at h
  have := h.1 s hs
  rw [Bool.and_eq_true, List.all_eq_true] at this
  refine ⟨by simpa using this.1, fun c hc => ?_⟩
  simpa using this.2 c hc

theorem flagOf_inj {a b : AttrKind} (h : flagOf a = flagOf b) : a = b := by
  cases a <;> cases b <;> simp [flagOf] at h <;> rfl

theorem mem_changed_iff_of_stepsOk (steps : List (Nat × List String)) (h : stepsOk steps = true)
    (flags : Nat) (k : AttrKind) :
    k ∈ changed steps flags ↔ (flags &&& flagOf k != 0) = true ∧ ∃ s ∈ steps, s.1 = flagOf k := by
  unfold changed applied
  simp only [List.mem_filterMap, List.mem_flatMap, List.mem_filter]
  constructor
  · rintro ⟨c, ⟨s, ⟨hs, hf⟩, hc⟩, hk⟩
    have hcc := (stepsOk_step h hs).2 c hc
    rw [hk] at hcc
    simp only [Option.map_some, Option.some.injEq] at hcc
    exact ⟨by rw [hcc]; exact hf, s, hs, hcc.symm⟩
  · rintro ⟨hf, s, hs, hsk⟩
    obtain ⟨hne, hcalls⟩ := stepsOk_step h hs
    obtain ⟨c, cs, hcs⟩ := List.exists_cons_of_ne_nil hne
    have hc : c ∈ s.2 := by rw [hcs]; simp
    have hcc := hcalls c hc
    cases hkc : kindOfCall c with
    | none => rw [hkc] at hcc; simp at hcc
    | some k' =>
      rw [hkc] at hcc
      simp only [Option.map_some, Option.some.injEq] at hcc
      have hkk : k' = k := flagOf_inj (by rw [hcc, hsk])
      exact ⟨c, ⟨s, ⟨hs, by rw [hsk]; exact hf⟩, hc⟩, by rw [hkc, hkk]⟩

/-- SETSTAT (by path) changes exactly the attributes whose flags the request carries — for every
flags word (all subsets, and whatever other bits are set). -/
theorem setstat_applies_exactly_flagged (flags : Nat) (k : AttrKind) :
    k ∈ changed G.setstatSteps flags ↔ (flags &&& flagOf k != 0) = true := by
  have hok : stepsOk G.setstatSteps = true := by decide
  rw [mem_changed_iff_of_stepsOk _ hok]
  constructor
  · exact fun h => h.1
  · intro h
    refine ⟨h, ?_⟩
    cases k <;> decide

/-- FSETSTAT (by handle) likewise. -/
theorem fsetstat_applies_exactly_flagged (flags : Nat) (k : AttrKind) :
    k ∈ changed G.fsetstatSteps flags ↔ (flags &&& flagOf k != 0) = true := by
  have hok : stepsOk G.fsetstatSteps = true := by decide
  rw [mem_changed_iff_of_stepsOk _ hok]
  constructor
  · exact fun h => h.1
  · intro h
    refine ⟨h, ?_⟩
    cases k <;> decide

/-- The attribute block written for a set of flags carries exactly the fields of the draft, in the
draft's order, and the decoder reads the same fields for the same flags. -/
theorem attr_block_fields :
    G.marshalFileStatFields = [(0x1, ["Size"]), (0x2, ["UID", "GID"]), (0x4, ["Mode"]), (0x8, ["Atime", "Mtime"]), (0x80000000, ["Extended"])] ∧
    G.unmarshalFileStatFields = G.marshalFileStatFields := by decide

/-! Non-vacuity -/
example : changed G.setstatSteps 0x5 = [.size, .perm] := by decide
example : changed G.setstatSteps 0 = [] := by decide
example : changed G.fsetstatSteps 0x8 = [.times, .times] := by decide   -- f.Chtimes or the os.Chtimes fallback

end Sftp.C17
