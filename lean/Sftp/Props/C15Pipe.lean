import Sftp.Proofs.PipeLin
import Sftp.Props.C15
import Sftp.Props.C02
/-
  C15 on the server pipeline — every schedule of M-Pipeline SUPPLIES the linearisation points.

  Props/C15.lean proves: a history whose operations carry a stamp strictly inside their call/return interval, with
  pairwise distinct stamps, and whose results are those of replaying the operations in stamp order through `SeqFile`,
  is linearizable (`lin_points_imply_linearizable`), and the harness validates recorded stamps with `checkStamped`.
  This file closes the gap "pipeline_has_lin_points": for EVERY action list accepted by the pipeline model
  (Model/Pipe.lean: receive loop, dispatcher, pool workers, command worker, controller, in any interleaving)
  the execution over an atomic store (Model/PipeLin.lean) has such stamps:

      call  = index of the request's `recv` action,
      stamp = index of the action at which its handler returns (`workerHandle i` / `cmdHandle`),
      ret   = index of the controller action (`ctlTakeReq` / `ctlTakeResp` / `ctlFini`) that wrote its response,

  with  call < stamp < ret  for every answered request, each request handled at most once, and no two handler
  returns at the same instant.  Hence the history of every execution is linearizable.

  Hypothesis on the configuration: `registerBeforeHandoff` only (through the location invariant `InvLoc`:
  a response exists only for a request whose handler has returned, and only once).  `headMatch`, `sortOutgoing`,
  `closeWaits`, `poolKinds`, `workers`, `drainOnFini` are irrelevant here — a pipeline that answers in the wrong
  order (C02) or closes early (C14) is still linearizable on the file contents.  The end-of-run statement
  (`every_request_linearised_at_end`) additionally uses C02's hypotheses, to know that everything is answered.

  Property theorems only.  Definitions: Model/PipeLin.lean.  Invariants: Proofs/PipeLin.lean.
-/
namespace Sftp.C15Pipe
open Sftp Sftp.Pipe Sftp.C15

/-- The hypothesis on the extracted configuration, decidable: `s.incomingPacket(pkt)` (WaitGroup Add + registration
with the controller) precedes the hand-off to a worker in packet-manager.go workerChan. -/
def CfgOk (cfg : PipeCfg) : Prop := cfg.registerBeforeHandoff = true

instance (cfg : PipeCfg) : Decidable (CfgOk cfg) := by unfold CfgOk; infer_instance

/-- The log is a faithful account of the run: it lists exactly the received requests, the handler returns and the
responses written, in order; the file is the result of the store steps in handler-return order. -/
theorem log_faithful (cfg : PipeCfg) (hc : CfgOk cfg) (ops : Nat → Option Op) (f0 : Bytes) (as : List Action)
    (s : State) (hr : run cfg (init cfg) as = some s) :
    exec cfg ops f0 as = some (s, logOf cfg ops f0 as) ∧
    (logOf cfg ops f0 as).recvAt.map (·.1) = s.received.map OReq.oid ∧
    (logOf cfg ops f0 as).handleAt.map (·.oid) = s.handled ∧
    (logOf cfg ops f0 as).sendAt.map (·.1) = s.sent.map Resp.oid ∧
    (logOf cfg ops f0 as).file = s.handled.foldl (fileStep ops) f0 := by
  obtain ⟨_, _, hi⟩ := inv_of_run hc ops f0 hr
  refine ⟨exec_of_run ops f0 hr, hi.recvOids, hi.handOids, hi.sendOids, ?_⟩
  rw [← hi.handOids]
  have : ∀ (es : List HEntry) (f g : Bytes), Replays ops f es g → g = (es.map (·.oid)).foldl (fileStep ops) f := by
    intro es f g h
    induction h with
    | nil f => rfl
    | cons _ _ ih => rw [List.map_cons, List.foldl_cons]; exact ih
  exact this _ _ _ hi.store

/-- **C15.pipeline_has_lin_points.**  For every schedule accepted by the pipeline model and every response that
has been written to the connection: the request it answers (same order id, request id and kind) was received at an
earlier action `c` (which is that request's `recv`), its handler returned at a later action `h` (a
`workerHandle`/`cmdHandle`), and the response was sent at a still later action `t` (a controller action):
`c < h < t`.  And the stamps order the store steps totally: two requests never share a stamp. -/
theorem pipeline_has_lin_points (cfg : PipeCfg) (hc : CfgOk cfg) (ops : Nat → Option Op) (f0 : Bytes)
    (as : List Action) (s : State) (hr : run cfg (init cfg) as = some s) :
    (∀ p ∈ s.sent, ∃ c h t,
        recvIdx (logOf cfg ops f0 as) p.oid = some c ∧
        stampIdx (logOf cfg ops f0 as) p.oid = some h ∧
        sendIdx (logOf cfg ops f0 as) p.oid = some t ∧
        c < h ∧ h < t ∧ t < as.length ∧
        as[c]? = some (.recv ⟨p.id, p.kind⟩) ∧ HandleAt as h ∧ CtlAt as t) ∧
    (∀ o o' h, stampIdx (logOf cfg ops f0 as) o = some h → stampIdx (logOf cfg ops f0 as) o' = some h → o = o') := by
  obtain ⟨hl, hh, hi⟩ := inv_of_run hc ops f0 hr
  constructor
  · intro p hp
    obtain ⟨t, ht, e, he, heo⟩ := hi.sent_entry hl hp
    obtain ⟨c, hc1, hlt, hst, _, hH, ⟨r, hrr, hro, hra⟩, hsend⟩ := hi.entry hl hh he
    rw [heo] at hc1 hst hsend hro
    obtain ⟨h1, h2, h3⟩ := hsend t ht
    refine ⟨c, e.idx, t, hc1, hst, ht, hlt, h1, h2, ?_, hH, h3⟩
    have hp' : p ∈ s.sent ++ s.outgoing ++ s.respInbox := by simp [hp]
    obtain ⟨r', hr', hpr, _⟩ := resp_origin hl hp'
    have : r = r' := hl.eq_of_oid hrr hr' (by rw [hro, hpr]; rfl)
    rw [hra, this, hpr]; rfl
  · intro o o' h h1 h2
    unfold stampIdx at h1 h2
    cases hf : (logOf cfg ops f0 as).handleAt.find? (fun e => e.oid == o) with
    | none => rw [hf] at h1; cases h1
    | some e =>
      cases hf' : (logOf cfg ops f0 as).handleAt.find? (fun e => e.oid == o') with
      | none => rw [hf'] at h2; cases h2
      | some e' =>
        rw [hf] at h1; rw [hf'] at h2
        simp only [Option.map_some, Option.some.injEq] at h1 h2
        obtain ⟨m1, e1⟩ := mem_of_find hf
        obtain ⟨m2, e2⟩ := mem_of_find hf'
        -- strictly increasing stamps: equal stamp ⇒ same entry
        have key := List.Pairwise.forall_of_forall_of_flip
          (R := fun a b : HEntry => a.idx = b.idx → a = b) (l := (logOf cfg ops f0 as).handleAt)
          (fun _ _ _ => rfl) (hi.handInc.imp (fun h e => by omega)) (hi.handInc.imp (fun h e => by omega))
        have := key m1 m2 (h1.trans h2.symm)
        rw [← e1, ← e2, this]

/-- The same for every request whose handler has returned, answered or not: received strictly before; and a
handler runs at most once per request. -/
theorem handled_after_received (cfg : PipeCfg) (hc : CfgOk cfg) (ops : Nat → Option Op) (f0 : Bytes)
    (as : List Action) (s : State) (hr : run cfg (init cfg) as = some s) :
    s.handled.Nodup ∧
    ∀ o ∈ s.handled, ∃ c h, recvIdx (logOf cfg ops f0 as) o = some c ∧ stampIdx (logOf cfg ops f0 as) o = some h ∧
      c < h ∧ h < as.length ∧ HandleAt as h ∧
      ∃ r ∈ s.received, r.oid = o ∧ as[c]? = some (.recv ⟨r.id, r.kind⟩) := by
  obtain ⟨hl, hh, hi⟩ := inv_of_run hc ops f0 hr
  refine ⟨hh.handled_nodup, ?_⟩
  intro o ho
  rw [← hi.handOids] at ho
  obtain ⟨e, he, rfl⟩ := List.mem_map.mp ho
  obtain ⟨c, h1, h2, h3, h4, h5, h6, _⟩ := hi.entry hl hh he
  exact ⟨c, e.idx, h1, h3, h2, h4, h5, h6⟩

/-- What the events of the history are: each comes from exactly one handled request `o` that is a file operation
(`ops o = some op`), carries that operation and a result computed by the store, was called at the request's `recv`
index, is stamped with its handler-return index, and returns at its send index (at the horizon `n` if pending). -/
theorem stamped_event_spec (cfg : PipeCfg) (hc : CfgOk cfg) (ops : Nat → Option Op) (f0 : Bytes)
    (as : List Action) (s : State) (hr : run cfg (init cfg) as = some s) (n : Nat) :
    ∀ e ∈ stamped n (logOf cfg ops f0 as), ∃ o c, o ∈ s.handled ∧ ops o = some e.ev.op ∧
      (∃ f, e.ev.res = (apply f e.ev.op).2) ∧
      recvIdx (logOf cfg ops f0 as) o = some c ∧ e.ev.call = c ∧
      stampIdx (logOf cfg ops f0 as) o = some e.stamp ∧
      e.ev.ret = (sendIdx (logOf cfg ops f0 as) o).getD n := by
  obtain ⟨hl, hh, hi⟩ := inv_of_run hc ops f0 hr
  intro e he
  obtain ⟨h, hm, hev⟩ := List.mem_filterMap.mp he
  obtain ⟨op, res, heff, rfl⟩ := eventOf_some hev
  obtain ⟨c, h1, _, h3, _⟩ := hi.entry hl hh hm
  obtain ⟨f, hf⟩ := hi.store.mem_eff hm
  rw [heff] at hf
  unfold effAt at hf
  cases hop : ops h.oid with
  | none => rw [hop] at hf; cases hf
  | some op' =>
    rw [hop] at hf
    simp only [Option.map_some, Option.some.injEq, Prod.mk.injEq] at hf
    obtain ⟨rfl, rfl⟩ := hf
    refine ⟨h.oid, c, ?_, hop, ⟨f, rfl⟩, h1, by simp [h1], h3, rfl⟩
    rw [← hi.handOids]; exact List.mem_map.mpr ⟨h, hm, rfl⟩

/-- The hypotheses of `lin_points_imply_linearizable_ord`, for the stamped history of ANY execution: stamps inside
the intervals, strictly increasing in handler-return order, results explained by the replay in that order. -/
theorem stamped_history_has_lin_points (cfg : PipeCfg) (hc : CfgOk cfg) (ops : Nat → Option Op) (f0 : Bytes)
    (as : List Action) (s : State) (hr : run cfg (init cfg) as = some s) :
    (∀ e, e ∈ stamped as.length (logOf cfg ops f0 as) → e.ev.call < e.stamp ∧ e.stamp < e.ev.ret) ∧
    (stamped as.length (logOf cfg ops f0 as)).Pairwise (fun a b => a.stamp < b.stamp) ∧
    replayOk f0 ((stamped as.length (logOf cfg ops f0 as)).map (·.ev)) = true := by
  obtain ⟨hl, hh, hi⟩ := inv_of_run hc ops f0 hr
  exact ⟨stamped_inside hl hh hi, stamped_sorted _ hi, stamped_explains _ hi⟩

/-- **C15.pipeline_linearizable.**  Every execution of M-Pipeline over an atomic store — whatever the schedule,
the pool size, the operations carried by the requests and the initial contents — yields a linearizable history.
(History = all operations that have taken effect; those whose response is still inside the server are completed
with a return at the end of the schedule, as Herlihy–Wing linearizability allows.) -/
theorem pipeline_linearizable (cfg : PipeCfg) (hc : CfgOk cfg) (ops : Nat → Option Op) (f0 : Bytes)
    (as : List Action) (s : State) (hr : run cfg (init cfg) as = some s) :
    Linearizable (history as.length (logOf cfg ops f0 as)) f0 := by
  obtain ⟨h1, h2, h3⟩ := stamped_history_has_lin_points cfg hc ops f0 as s hr
  exact lin_points_imply_linearizable_ord f0 _ _ h1 (List.Perm.refl _) h2 h3

/-- The same through `lin_points_imply_linearizable` itself, i.e. with the linearisation point given as a function
`σ` of the client-side event: the adapter `sigma` maps an event to the handler-return index of the request it
belongs to (well defined because distinct requests are called at distinct instants). -/
theorem pipeline_linearizable_sigma (cfg : PipeCfg) (hc : CfgOk cfg) (ops : Nat → Option Op) (f0 : Bytes)
    (as : List Action) (s : State) (hr : run cfg (init cfg) as = some s) :
    (∀ o, o ∈ history as.length (logOf cfg ops f0 as) →
        o.call < sigma (stamped as.length (logOf cfg ops f0 as)) o ∧
        sigma (stamped as.length (logOf cfg ops f0 as)) o < o.ret) ∧
    (history as.length (logOf cfg ops f0 as)).Pairwise
        (fun a b => sigma (stamped as.length (logOf cfg ops f0 as)) a ≠
                    sigma (stamped as.length (logOf cfg ops f0 as)) b) ∧
    replayOk f0 (sortBy (sigma (stamped as.length (logOf cfg ops f0 as)))
        (history as.length (logOf cfg ops f0 as))) = true ∧
    Linearizable (history as.length (logOf cfg ops f0 as)) f0 := by
  obtain ⟨hl, hh, hi⟩ := inv_of_run hc ops f0 hr
  obtain ⟨h1, h2, h3⟩ := stamped_history_has_lin_points cfg hc ops f0 as s hr
  have hnd := stamped_events_nodup as.length hl hh hi
  have hmap := map_sigma hnd
  have inside : ∀ o, o ∈ history as.length (logOf cfg ops f0 as) →
      o.call < sigma (stamped as.length (logOf cfg ops f0 as)) o ∧
      sigma (stamped as.length (logOf cfg ops f0 as)) o < o.ret := by
    intro o ho
    obtain ⟨x, hx, rfl⟩ := List.mem_map.mp ho
    have : sigma (stamped as.length (logOf cfg ops f0 as)) x.ev = x.stamp := by
      simp only [sigma, find_ev_of_mem hnd hx, Option.map_some, Option.getD_some]
    rw [this]; exact h1 x hx
  have distinct : (history as.length (logOf cfg ops f0 as)).Pairwise
      (fun a b => sigma (stamped as.length (logOf cfg ops f0 as)) a ≠
                  sigma (stamped as.length (logOf cfg ops f0 as)) b) := by
    have : ((history as.length (logOf cfg ops f0 as)).map
        (fun e => (⟨e, sigma (stamped as.length (logOf cfg ops f0 as)) e⟩ : SEvent))).Pairwise
        (fun a b => a.stamp < b.stamp) := by
      unfold history; rw [hmap]; exact h2
    rw [List.pairwise_map] at this
    exact this.imp (fun h => by simp only at h; omega)
  have explains : replayOk f0 (sortBy (sigma (stamped as.length (logOf cfg ops f0 as)))
      (history as.length (logOf cfg ops f0 as))) = true := by
    unfold sortBy history
    rw [hmap, sortByStamp_of_sorted _ h2]
    exact h3
  exact ⟨inside, distinct, explains, lin_points_imply_linearizable f0 _ _ inside distinct explains⟩

/-- The stamped history is made of the completed operations (response sent; exactly the observed instants, no
horizon involved) and the pending ones. -/
theorem history_split (n : Nat) (l : Log) : (stamped n l).Perm (completedStamped l ++ pendingStamped n l) :=
  stamped_split n l

/-- At a point where every handled request has been answered, the history of the COMPLETED operations alone
— what the clients have actually observed — is linearizable. -/
theorem completed_linearizable (cfg : PipeCfg) (hc : CfgOk cfg) (ops : Nat → Option Op) (f0 : Bytes)
    (as : List Action) (s : State) (hr : run cfg (init cfg) as = some s)
    (hq : allAnswered (logOf cfg ops f0 as) = true) :
    Linearizable (completedHistory (logOf cfg ops f0 as)) f0 := by
  unfold completedHistory
  rw [completed_eq_stamped as.length hq]
  exact pipeline_linearizable cfg hc ops f0 as s hr

/-- The harness check can never raise a false alarm on an execution of the model: if all operations lie within
the file's extent, `checkStamped` (Model/Lin.lean, what the Go harness runs on recorded traces) accepts the
stamped history of every schedule. -/
theorem model_trace_accepted_by_checker (cfg : PipeCfg) (hc : CfgOk cfg) (ops : Nat → Option Op) (f0 : Bytes)
    (as : List Action) (s : State) (hr : run cfg (init cfg) as = some s)
    (hext : ∀ o op, ops o = some op → withinExtent f0.length op = true) :
    checkStamped f0 (stamped as.length (logOf cfg ops f0 as)) = true := by
  obtain ⟨h1, h2, h3⟩ := stamped_history_has_lin_points cfg hc ops f0 as s hr
  refine checker_complete f0 _ h1 ?_ (h2.imp (fun h => by omega)) (by rw [sortByStamp_of_sorted _ h2]; exact h3)
  intro e he
  obtain ⟨o, _, _, hop, _⟩ := stamped_event_spec cfg hc ops f0 as s hr as.length e he
  exact hext o _ hop

/-- End of the run (with C02's hypotheses and the repaired controller): once the controller has exited, EVERY
received request has its three instants `recv < handler return < send`, every handled request is answered, and
the history of the completed operations is linearizable. -/
theorem every_request_linearised_at_end (cfg : PipeCfg) (hc : C02.CfgOk cfg) (hd : cfg.drainOnFini = true)
    (ops : Nat → Option Op) (f0 : Bytes) (as : List Action) (s : State)
    (hr : run cfg (init cfg) as = some s) (hst : s.controllerStopped = true) :
    (∀ r ∈ s.received, ∃ c h t,
        recvIdx (logOf cfg ops f0 as) r.oid = some c ∧
        stampIdx (logOf cfg ops f0 as) r.oid = some h ∧
        sendIdx (logOf cfg ops f0 as) r.oid = some t ∧
        c < h ∧ h < t ∧ t < as.length ∧ as[c]? = some (.recv ⟨r.id, r.kind⟩)) ∧
    allAnswered (logOf cfg ops f0 as) = true ∧
    Linearizable (completedHistory (logOf cfg ops f0 as)) f0 := by
  have hsent := C02.every_request_answered cfg hc hd as s hr hst
  have hc' : CfgOk cfg := hc.1
  obtain ⟨hl, hh, hi⟩ := inv_of_run hc' ops f0 hr
  have hq : allAnswered (logOf cfg ops f0 as) = true := by
    unfold allAnswered
    rw [List.all_eq_true]
    intro e he
    obtain ⟨x, hx, e1, _⟩ := hi.recvBefore e he
    apply lookup_isSome_of_key
    rw [hi.sendOids, hsent, List.map_map]
    have : x.1 ∈ (logOf cfg ops f0 as).recvAt.map (·.1) := List.mem_map.mpr ⟨x, hx, rfl⟩
    rw [hi.recvOids, e1] at this
    exact this
  refine ⟨?_, hq, completed_linearizable cfg hc' ops f0 as s hr hq⟩
  intro r hrr
  have hp : mkResp r ∈ s.sent := by rw [hsent]; exact List.mem_map.mpr ⟨r, hrr, rfl⟩
  obtain ⟨c, h, t, h1, h2, h3, h4, h5, h6, h7, _⟩ :=
    (pipeline_has_lin_points cfg hc' ops f0 as s hr).1 _ hp
  exact ⟨c, h, t, h1, h2, h3, h4, h5, h6, h7⟩

/-! ### non-vacuity -/

/-- today's configuration satisfies the hypothesis -/
example : CfgOk PipeCfg.current := by decide

/-- file "abcd"; request 1 = WRITE "XY" at 1, request 2 = READ [0,4). -/
def exFile : Bytes := [97, 98, 99, 100]
def exOps (o : Nat) : Option Op :=
  if o = 1 then some (.write 1 [88, 89]) else if o = 2 then some (.read 0 4) else none

/-- Two overlapping requests whose handlers return in the OPPOSITE order of their receipt: the write (id 7) is
received at 0, the read (id 8) at 1; both are in workers; the read's handler returns at 6, the write's at 7; both
responses leave, in arrival order, at action 13. -/
def exSched : List Action :=
  [.recv ⟨7, .rw⟩, .recv ⟨8, .rw⟩, .dispatch, .dispatch, .workerTake 0, .workerTake 1, .workerHandle 1,
   .workerHandle 0, .workerReady 1, .workerReady 0, .ctlTakeReq, .ctlTakeReq, .ctlTakeResp, .ctlTakeResp]

example : (run .current (init .current) exSched).map (fun s => (s.sent, s.handled)) =
    some ([⟨1, 7, .rw⟩, ⟨2, 8, .rw⟩], [2, 1]) := by decide

/-- its log: the read is stamped 6 and still sees "abcd", the write is stamped 7 -/
example : logOf .current exOps exFile exSched =
    { recvAt := [(1, 0), (2, 1)],
      handleAt := [⟨2, 6, some (.read 0 4, .bytes [97, 98, 99, 100])⟩, ⟨1, 7, some (.write 1 [88, 89], .unit)⟩],
      sendAt := [(1, 13), (2, 13)],
      file := [97, 88, 89, 100] } := by decide

example : (recvIdx (logOf .current exOps exFile exSched) 1, stampIdx (logOf .current exOps exFile exSched) 1,
           sendIdx (logOf .current exOps exFile exSched) 1,
           recvIdx (logOf .current exOps exFile exSched) 2, stampIdx (logOf .current exOps exFile exSched) 2,
           sendIdx (logOf .current exOps exFile exSched) 2) =
    (some 0, some 7, some 13, some 1, some 6, some 13) := by decide

/-- the history: the read (called 1, returned 13) and the write (called 0, returned 13) overlap; the
linearisation puts the later-received read first -/
example : history exSched.length (logOf .current exOps exFile exSched) =
    [⟨.read 0 4, .bytes [97, 98, 99, 100], 1, 13⟩, ⟨.write 1 [88, 89], .unit, 0, 13⟩] := by decide

example : Linearizable (history exSched.length (logOf .current exOps exFile exSched)) exFile := by
  obtain ⟨s, hs⟩ := Option.isSome_iff_exists.mp (by decide : (run .current (init .current) exSched).isSome = true)
  exact pipeline_linearizable .current (by decide) exOps exFile exSched s hs

example : allAnswered (logOf .current exOps exFile exSched) = true := by decide
example : checkStamped exFile (stamped exSched.length (logOf .current exOps exFile exSched)) = true := by decide

/-- Why pending operations belong to the history: request 1 = READ, request 2 = WRITE; the write's handler returns
first (6), the read (7) sees its data and is answered (10) while the write's response is still in the worker.  The
completed operations alone — one read returning "aXYd" from a file "abcd" — are NOT linearizable; with the pending
write completed they are.  (So `allAnswered` in `completed_linearizable` cannot be dropped.) -/
def exOps2 (o : Nat) : Option Op :=
  if o = 1 then some (.read 0 4) else if o = 2 then some (.write 1 [88, 89]) else none
def exSched2 : List Action :=
  [.recv ⟨7, .rw⟩, .recv ⟨8, .rw⟩, .dispatch, .dispatch, .workerTake 0, .workerTake 1, .workerHandle 1,
   .workerHandle 0, .workerReady 0, .ctlTakeReq, .ctlTakeResp]

example : completedHistory (logOf .current exOps2 exFile exSched2) = [⟨.read 0 4, .bytes [97, 88, 89, 100], 0, 10⟩] ∧
    history exSched2.length (logOf .current exOps2 exFile exSched2) =
      [⟨.write 1 [88, 89], .unit, 1, 11⟩, ⟨.read 0 4, .bytes [97, 88, 89, 100], 0, 10⟩] ∧
    allAnswered (logOf .current exOps2 exFile exSched2) = false := by decide

theorem pending_needed : ¬ Linearizable (completedHistory (logOf .current exOps2 exFile exSched2)) exFile := by
  have : completedHistory (logOf .current exOps2 exFile exSched2) =
      [⟨.read 0 4, .bytes [97, 88, 89, 100], 0, 10⟩] := by decide
  rw [this, sequential_linearizable_iff _ _ (by decide) (by unfold Sequential; decide)]
  decide

example : Linearizable (history exSched2.length (logOf .current exOps2 exFile exSched2)) exFile := by
  obtain ⟨s, hs⟩ := Option.isSome_iff_exists.mp (by decide : (run .current (init .current) exSched2).isSome = true)
  exact pipeline_linearizable .current (by decide) exOps2 exFile exSched2 s hs

/-- a complete run (C02's `drainDemo`: CMD id 5 = size query, RW id 6 = write; shutdown, drain on fini):
everything is answered at the end -/
def exOps3 (o : Nat) : Option Op := if o = 1 then some .size else if o = 2 then some (.write 0 [1]) else none

example : (run .current (init .current) C02.drainDemo).map (·.controllerStopped) = some true := by decide
example : completedHistory (logOf .current exOps3 exFile C02.drainDemo) =
    [⟨.write 0 [1], .unit, 1, 12⟩, ⟨.size, .size 4, 0, 12⟩] := by decide

end Sftp.C15Pipe
