import Sftp.Proofs.PipeFinal
import Sftp.Proofs.PipeLive
import Sftp.Proofs.PipeFini
/-
  C02 — Responses leave the server exactly once per request and in arrival order, for every schedule.

  "For every well-formed request packet a server receives it emits exactly one response packet that carries that
  request's id and has a type legal for that request, and responses leave the server in the same order in which
  the requests arrived.  This holds … for any mix of request types sent back-to-back without waiting for replies,
  however the server's internal workers happen to finish."

  Property theorems only.  Model: Sftp/Model/Pipe.lean (all interleavings of receive loop, dispatcher, `workers`
  pool workers, command worker and controller are action lists of `run`).  Invariants: Sftp/Proofs/Pipe*.lean.
  `workers` is arbitrary (0 included), `sortIncoming` is not needed (requests reach the controller in order
  anyway), `closeWaits` / `poolKinds` are irrelevant for the ordering.

  What a response "is": `mkResp r = ⟨r.oid, r.id, r.kind⟩`, i.e. the packet built by the handler branch for r's
  own kind with r's own request id (whether each handler branch builds a packet type that is legal for the request
  type is the table property of C10, not a scheduling property).

  Full strength: "when the server has finished, |sent| = |received| and sent = the in-order handler outputs" (every
  request is answered exactly once, in order).  With the repaired controller (`drainOnFini`, the `fini` branch
  drains both channels and sends before returning, and Serve waits for the controller) this is PROVED:
  `every_request_answered` (in every reachable state in which the controller has exited) and
  `every_request_answered_at_end` (in the last state of every maximal run), `stopped_is_final` /
  `final_is_stopped` (the maximal runs are exactly those that end with the controller stopped).
  For the controller of the pinned commit (`drainOnFini = false`) the statement is FALSE: known finding F5, witness
  `Sftp.C02.Known.drop_witness` in Props/Known/C02.lean.  The remaining theorems hold for both variants and for
  all schedules: never wrong, never reordered, never duplicated (`sent_is_prefix`, `no_duplicate_no_invention`),
  complete as soon as the pipeline has drained (`exactly_once_at_drain`), never deadlocked (`no_stuck_state`).
-/
namespace Sftp.C02
open Sftp.Pipe

/-- The hypotheses on the extracted configuration, decidable. -/
def CfgOk (cfg : PipeCfg) : Prop :=
  cfg.registerBeforeHandoff = true ∧ cfg.headMatch = true ∧ cfg.sortOutgoing = true

instance (cfg : PipeCfg) : Decidable (CfgOk cfg) := by unfold CfgOk; infer_instance

theorem reachable_inv {cfg : PipeCfg} (hc : CfgOk cfg) {as : List Action} {s : State}
    (hr : run cfg (init cfg) as = some s) : InvLoc s ∧ InvOrd s :=
  inv_run hc.1 hc.2.1 hc.2.2 as (invLoc_init cfg) (invOrd_init cfg) hr

/-- In every reachable state, under every schedule: the responses written to the connection so far carry the
order ids 1,2,…,|sent| in this order; they are exactly what the handlers built for the first |sent| received
requests, in arrival order (same request id, built by the branch for that request's kind); and each of those
handlers has indeed run.  Hence at most one response per request, none invented, none out of order. -/
theorem sent_is_prefix (cfg : PipeCfg) (hc : CfgOk cfg) (as : List Action) (s : State)
    (hr : run cfg (init cfg) as = some s) :
    s.sent.map Resp.oid = List.range' 1 s.sent.length ∧
    s.sent.length ≤ s.received.length ∧
    s.sent = (s.received.take s.sent.length).map mkResp ∧
    (∀ p ∈ s.sent, p.oid ∈ s.handled) := by
  obtain ⟨hl, ho⟩ := reachable_inv hc hr
  exact ⟨ho.core.sentOids, Nat.le_trans ho.core.le hl.length_le, sent_eq hl ho, fun p hp => sent_handled hl hp⟩

/-- Index form: the i-th response on the wire answers the i-th request that arrived (its id, its kind). -/
theorem sent_ids (cfg : PipeCfg) (hc : CfgOk cfg) (as : List Action) (s : State)
    (hr : run cfg (init cfg) as = some s) (i : Nat) (hi : i < s.sent.length) :
    ∃ r, s.received[i]? = some r ∧ (s.sent[i]).id = r.id ∧ (s.sent[i]).kind = r.kind ∧ (s.sent[i]).oid = i + 1 ∧
      r.oid = i + 1 := by
  obtain ⟨h1, h2, h3, _⟩ := sent_is_prefix cfg hc as s hr
  have hir : i < s.received.length := by omega
  refine ⟨s.received[i], List.getElem?_eq_getElem hir, ?_⟩
  have e : s.sent[i] = mkResp s.received[i] := by
    have := congrArg (fun l => l[i]?) h3
    simp only [List.getElem?_map, List.getElem?_take, hi, if_true, List.getElem?_eq_getElem hir,
      Option.map_some] at this
    rw [List.getElem?_eq_getElem hi] at this
    exact Option.some.inj this
  have ho : (s.sent[i]).oid = i + 1 := by
    have := congrArg (fun l => l[i]?) h1
    simp only [List.getElem?_map, List.getElem?_eq_getElem hi, Option.map_some, List.getElem?_range' hi,
      Option.some.injEq] at this
    omega
  refine ⟨by rw [e]; rfl, by rw [e]; rfl, ho, ?_⟩
  rw [← ho, e]; rfl

/-- Nowhere between the workers and the wire is a response duplicated or invented: the responses sent, waiting in
`outgoing` and waiting in the `responses` channel have pairwise different order ids and each is the handler output
of a received request whose handler ran.  (Needs only `registerBeforeHandoff`.) -/
theorem no_duplicate_no_invention (cfg : PipeCfg) (hreg : cfg.registerBeforeHandoff = true) (as : List Action)
    (s : State) (hr : run cfg (init cfg) as = some s) :
    ((s.sent ++ s.outgoing ++ s.respInbox).map Resp.oid).Nodup ∧
    (∀ p ∈ s.sent ++ s.outgoing ++ s.respInbox, ∃ r ∈ s.received, p = mkResp r ∧ r.oid ∈ s.handled) := by
  have hl := invLoc_run hreg as (invLoc_init cfg) hr
  exact ⟨resp_nodup hl, fun p hp => resp_origin hl hp⟩

/-- The WaitGroup counter never goes negative (no `sync: negative WaitGroup counter` panic), and it is 0 exactly
when no request is in a queue or in a worker. -/
theorem no_waitgroup_panic (cfg : PipeCfg) (hreg : cfg.registerBeforeHandoff = true) (as : List Action)
    (s : State) (hr : run cfg (init cfg) as = some s) :
    s.panicked = false ∧ s.working = (pendingOids s).length := by
  have hl := invLoc_run hreg as (invLoc_init cfg) hr
  exact ⟨hl.noPanic, hl.work⟩

/-- Exactly once: when the pipeline has drained (nothing in pktChan, the queues, the workers and the two controller
channels) every received request has been answered — whether or not the controller has stopped meanwhile. -/
theorem exactly_once_at_drain (cfg : PipeCfg) (hc : CfgOk cfg) (as : List Action) (s : State)
    (hr : run cfg (init cfg) as = some s)
    (h1 : s.pktChan = []) (h2 : s.poolQueue = []) (h3 : s.cmdQueue = [])
    (h4 : ∀ sl ∈ s.slots, sl = Slot.idle) (h5 : s.cmdSlot = Slot.idle)
    (h6 : s.reqInbox = []) (h7 : s.respInbox = []) :
    s.sent.length = s.received.length ∧ s.sent = s.received.map mkResp := by
  obtain ⟨hl, ho⟩ := reachable_inv hc hr
  have hlen := drained_all_sent hl ho h1 h2 h3 h4 h5 h6 h7
  refine ⟨hlen, ?_⟩
  have := sent_eq hl ho
  rw [hlen, List.take_length] at this
  exact this

/-- No deadlock: once the input is closed (so only the server's own goroutines can move) and as long as the
controller has not stopped, some goroutine can take a step — for every pool size ≥ 1. -/
theorem no_stuck_state (cfg : PipeCfg) (hreg : cfg.registerBeforeHandoff = true) (hw : 1 ≤ cfg.workers)
    (as : List Action) (s : State) (hr : run cfg (init cfg) as = some s)
    (hin : s.inputClosed = true) (hst : s.controllerStopped = false) : ∃ a, (step cfg s a).isSome = true := by
  have hl := invLoc_run hreg as (invLoc_init cfg) hr
  have hlen : s.slots.length = cfg.workers := by
    rw [slots_length_run as hr]; simp [init]
  exact progress cfg hw hl hlen hin hst

/-- FULL STRENGTH (repaired controller).  Under every schedule: once the controller has exited — which is what
`pktMgr.wait()` in both Serve functions waits for — the responses written to the connection are exactly the
handler outputs of ALL received requests, one each, in arrival order (same request id, built by the branch for that
request's kind). -/
theorem every_request_answered (cfg : PipeCfg) (hc : CfgOk cfg) (hd : cfg.drainOnFini = true)
    (as : List Action) (s : State) (hr : run cfg (init cfg) as = some s)
    (hst : s.controllerStopped = true) : s.sent = s.received.map mkResp := by
  obtain ⟨_, _, hf⟩ := invFini_run hc.1 hc.2.1 hc.2.2 as (invLoc_init cfg) (invOrd_init cfg) (invFini_init cfg) hr
  exact hf.answered hd hst

/-- A state in which the controller has stopped is final: no action is enabled (needs no `drainOnFini`). -/
theorem stopped_is_final (cfg : PipeCfg) (hc : CfgOk cfg) (as : List Action) (s : State)
    (hr : run cfg (init cfg) as = some s) (hst : s.controllerStopped = true) (a : Action) :
    step cfg s a = none := by
  obtain ⟨hl, _, hf⟩ := invFini_run hc.1 hc.2.1 hc.2.2 as (invLoc_init cfg) (invOrd_init cfg) (invFini_init cfg) hr
  exact stopped_terminal hl hf hst a

/-- Conversely the only final states are those: if nothing is enabled, the input is closed and the controller
has stopped (for every pool size ≥ 1). -/
theorem final_is_stopped (cfg : PipeCfg) (hc : CfgOk cfg) (hw : 1 ≤ cfg.workers) (as : List Action) (s : State)
    (hr : run cfg (init cfg) as = some s) (hstuck : ∀ a, step cfg s a = none) :
    s.inputClosed = true ∧ s.controllerStopped = true := by
  have hl := invLoc_run hc.1 as (invLoc_init cfg) hr
  have hin := inputClosed_of_stuck hl hstuck
  refine ⟨hin, ?_⟩
  cases hst : s.controllerStopped
  · obtain ⟨a, ha⟩ := no_stuck_state cfg hc.1 hw as s hr hin hst
    rw [hstuck a] at ha
    cases ha
  · rfl

/-- FULL STRENGTH, maximal runs: in the last state of every run that cannot be extended, every received request
has been answered exactly once, in arrival order. -/
theorem every_request_answered_at_end (cfg : PipeCfg) (hc : CfgOk cfg) (hd : cfg.drainOnFini = true)
    (hw : 1 ≤ cfg.workers) (as : List Action) (s : State) (hr : run cfg (init cfg) as = some s)
    (hstuck : ∀ a, step cfg s a = none) : s.sent = s.received.map mkResp :=
  every_request_answered cfg hc hd as s hr (final_is_stopped cfg hc hw as s hr hstuck).2

/-! ### non-vacuity and necessity of the hypotheses -/

/-- today's configuration satisfies the hypotheses -/
example : CfgOk PipeCfg.current := by decide

/-- three pipelined requests (WRITE id 7, WRITE id 8, CLOSE id 9); the second write finishes first; all
three answers leave in arrival order -/
def demo : List Action :=
  [.recv ⟨7, .rw⟩, .recv ⟨8, .rw⟩, .recv ⟨9, .close⟩, .dispatch, .dispatch, .workerTake 0, .workerTake 1,
   .workerHandle 1, .workerReady 1, .ctlTakeResp, .workerHandle 0, .workerReady 0, .dispatch, .cmdTake,
   .cmdHandle, .cmdReady, .ctlTakeReq, .ctlTakeReq, .ctlTakeReq, .ctlTakeResp, .ctlTakeResp]

example : (run .current (init .current) demo).map (·.sent) =
    some [⟨1, 7, .rw⟩, ⟨2, 8, .rw⟩, ⟨3, 9, .close⟩] := by decide

example : (run .current (init .current) demo).map (·.handled) = some [2, 1, 3] := by decide

/-- a state as in `no_stuck_state`: input closed with a WRITE still in a worker; the worker can go on -/
example : ((run .current (init .current) [.recv ⟨7, .rw⟩, .dispatch, .workerTake 3, .closeInput]).bind
    (fun s => step .current s (.workerHandle 3))).isSome = true := by decide

/-- today's configuration drains on `fini` -/
example : PipeCfg.current.drainOnFini = true := by decide

/-- the schedule that loses the answer with the pinned controller (Known/C02.lean) now delivers it: the response is
still in the `responses` channel when `ctlFini` fires, the drain picks it up (the request too) and sends it -/
def drainDemo : List Action :=
  [.recv ⟨5, .cmd⟩, .recv ⟨6, .rw⟩, .dispatch, .dispatch, .workerTake 0, .workerHandle 0, .workerReady 0,
   .cmdTake, .cmdHandle, .cmdReady, .closeInput, .dispatcherShutdown, .ctlFini]

example : (run .current (init .current) drainDemo).map
    (fun s => (s.controllerStopped, s.sent, s.received.map mkResp, s.respInbox, s.reqInbox)) =
    some (true, [⟨1, 5, .cmd⟩, ⟨2, 6, .rw⟩], [⟨1, 5, .cmd⟩, ⟨2, 6, .rw⟩], [], []) := by decide

/-- `drainOnFini` is needed for the full-strength statement: same schedule, pinned controller, nothing sent -/
theorem drain_needed :
    (run .pinned (init .pinned) drainDemo).map (fun s => (s.controllerStopped, s.sent.length, s.received.length)) =
    some (true, 0, 2) := by decide

/-- `headMatch` is needed: if maybeSendPackets sent whenever both lists are non-empty, the answer to the second
request would leave first. -/
theorem head_match_needed :
    (run { PipeCfg.current with headMatch := false } (init { PipeCfg.current with headMatch := false })
      [.recv ⟨1, .rw⟩, .recv ⟨2, .rw⟩, .dispatch, .dispatch, .workerTake 0, .workerTake 1, .workerHandle 1,
       .workerReady 1, .ctlTakeResp, .ctlTakeReq]).map (fun s => s.sent.map Resp.oid) = some [2] := by decide

/-- `sortOutgoing` is needed: without the sort the pipeline drains with both answers stuck in `outgoing`. -/
theorem sort_needed :
    (run { PipeCfg.current with sortOutgoing := false } (init { PipeCfg.current with sortOutgoing := false })
      [.recv ⟨1, .rw⟩, .recv ⟨2, .rw⟩, .dispatch, .dispatch, .workerTake 0, .workerTake 1, .workerHandle 1,
       .workerReady 1, .workerHandle 0, .workerReady 0, .ctlTakeResp, .ctlTakeResp, .ctlTakeReq, .ctlTakeReq]).map
      (fun s => (s.sent.length, s.outgoing.map Resp.oid, s.respInbox.length, s.reqInbox.length, s.working))
      = some (0, [2, 1], 0, 0, 0) := by decide

/-- `registerBeforeHandoff` is needed: otherwise a fast worker makes the WaitGroup counter negative. -/
theorem register_first_needed :
    (run { PipeCfg.current with registerBeforeHandoff := false }
      (init { PipeCfg.current with registerBeforeHandoff := false })
      [.recv ⟨1, .cmd⟩, .dispatch, .cmdTake, .cmdHandle, .cmdReady]).map (·.panicked) = some true := by decide

end Sftp.C02
