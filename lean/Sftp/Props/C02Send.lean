import Sftp.Generated.PipeCfg
import Sftp.Generated.CodecTables
/-
  C02, the last hop: from "the controller pops the head pair" to "the response is on the wire".

  The pipeline model (Model/Pipe.lean) has ONE send step: when the heads of `incoming` and `outgoing` carry the same
  order id, the response is appended to `sent` and both heads are popped.  In the source that step is the send block
  of `maybeSendPackets` (packet-manager.go):

      s.sender.sendPacket(out.(encoding.BinaryMarshaler))     -- an expression statement: the error is not looked at
      … ReleasePages …; pop both heads

  The heads are popped whatever `sendPacket` did.  So `sent` of the model is the byte stream on the connection only if
  `sendPacket` (packet.go, reached through conn.sendPacket in conn.go) hands EVERY successfully marshalled packet to
  the writer.  A `sendPacket` that returns early for some packets (say `if length > maxMsgLength { return errLongPacket }`
  between marshalling and the write) makes the server drop that response silently: the request is never answered, the
  following responses still go out, and nothing in packet-manager.go changed.

  This file states that dependency on the regenerated facts:
    G.sendErrorDiscarded       (Generated/PipeCfg.lean, from maybeSendPackets)
    G.sendPacketTotal          (Generated/CodecTables.lean, closed statement-sequence matcher of sendPacket)
    G.marshalPacketDelegates   (marshalPacket = m.marshalPacket() / m.MarshalBinary(), nothing else)
    G.connSendPacketDelegates  (conn.sendPacket = lock; return sendPacket(c, m); it is the sender of both servers)
    G.sendPacketShape          (the normalised statements, for the record)
  Core Lean only.
-/
namespace Sftp.C02Send

/-! ### a two-bit model of the send block -/

/-- What the two source locations do. `sendTotal`: sendPacket writes every packet it could marshal.
`errDiscarded`: the caller pops the heads without looking at sendPacket's result. -/
structure SendCfg where
  sendTotal : Bool
  errDiscarded : Bool
deriving DecidableEq, Repr

/-- Outcome of one pass through the send block for a marshalled frame, over a writer that accepts everything. -/
structure Outcome where
  /-- the frame reached the writer -/
  written : Bool
  /-- the head pair was popped (the model's `sent := sent ++ [resp]`) -/
  popped : Bool
deriving DecidableEq, Repr

/-- A sendPacket that is not total refuses some frames; all that matters here is that some frame is refused, so the
refusal is a predicate `refuses` on the frame length chosen by the adversary.  A caller that does look at the error is
taken to keep the heads when the send failed (the only way such a caller could stay faithful). -/
def sendBlock (cfg : SendCfg) (refuses : Nat → Bool) (len : Nat) : Outcome :=
  let refused := !cfg.sendTotal && refuses len
  { written := !refused, popped := cfg.errDiscarded || !refused }

/-- The model's send step is faithful: whenever the heads are popped the frame is on the wire —
whatever the refused set is and whatever the frame length. -/
def Faithful (cfg : SendCfg) : Prop :=
  ∀ (refuses : Nat → Bool) (len : Nat), (sendBlock cfg refuses len).popped = true → (sendBlock cfg refuses len).written = true

/-- Faithfulness is exactly: the error is looked at, or there is no error to look at. -/
theorem faithful_iff (cfg : SendCfg) : Faithful cfg ↔ (cfg.errDiscarded = false ∨ cfg.sendTotal = true) := by
  obtain ⟨t, d⟩ := cfg
  constructor
  · intro h
    cases t <;> cases d <;> simp
    -- not total, discarded: a refused frame is popped but not written
    have := h (fun _ => true) 0
    simp [sendBlock] at this
  · intro h refuses len
    cases t <;> cases d <;> simp_all [sendBlock]

/-- Negation witness (the seeded change C02_c): error discarded + an early return in sendPacket loses a response. -/
theorem drop_when_not_total : ¬ Faithful ⟨false, true⟩ := by
  intro h
  have := (faithful_iff ⟨false, true⟩).mp h
  cases this <;> contradiction

/-! ### the code as it is now -/

/-- sendPacket (packet.go) is the closed sequence
marshal; `if err != nil {return}`; length; [debug]; PutUint32 prefix; write header; write payload; `return nil`
with no other statement — in particular no return or branch between marshalling and the writes — and marshalPacket
only forwards to the packet's own marshaller.  Every successfully marshalled packet is written; sendPacket fails only
if the marshaller or the writer failed. -/
theorem send_is_total : G.sendPacketTotal = true := by decide

theorem marshal_delegates : G.marshalPacketDelegates = true := by decide

/-- conn.sendPacket adds nothing but the lock, conn has no Write of its own, and the sender given to newPktMgr by
both servers resolves `sendPacket` to conn.sendPacket. -/
theorem conn_send_delegates : G.connSendPacketDelegates = true := by decide

/-- The statements the matcher saw, debug lines aside. -/
theorem send_shape_current :
    G.sendPacketShape.filter (· != "debug") =
      ["header, payload, err := marshalPacket(m)",
       "if err != nil { return <error> }",
       "length := len(header) + len(payload) - 4",
       "binary.BigEndian.PutUint32(header[:4], uint32(length))",
       "if _, err := w.Write(header); err != nil { return <error> }",
       "if len(payload) > 0 { if _, err := w.Write(payload); err != nil { return <error> } }",
       "return nil"] := by decide

/-- THE dependency of C02 on sendPacket.  The model's send step (controller pops the head pair and the response is
on the wire) is faithful only if sendPacket writes every marshalled packet: since the pipeline discards sendPacket's
error (`G.sendErrorDiscarded`), totality of sendPacket is REQUIRED.  Either maybeSendPackets starts looking at the
error (then PipeCfg's matcher must be taught the new shape and the model a failed-send transition), or sendPacket
must stay total.  An early return in sendPacket makes `G.sendPacketTotal = false` and this theorem false. -/
theorem model_send_step_faithful : G.sendErrorDiscarded = false ∨ G.sendPacketTotal = true := by decide

/-- … in the two-bit model: with the regenerated facts, whatever is popped has been written. -/
theorem send_block_faithful_current : Faithful ⟨G.sendPacketTotal, G.sendErrorDiscarded⟩ :=
  (faithful_iff _).mpr model_send_step_faithful

/-- … and through the wrapper: the writer sendPacket gets is the connection. -/
theorem send_reaches_connection :
    G.connSendPacketDelegates = true ∧ G.marshalPacketDelegates = true ∧ G.sendLenExcludesPrefix = true := by decide

end Sftp.C02Send
