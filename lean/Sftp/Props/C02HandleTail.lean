import Sftp.Model.HandleTail
import Sftp.Generated.HandleTail
/-
  C02 — servers answer every request exactly once (source shape of seeded defect C02_k: in server.go `handlePacket`, the
  case of `*sshFxpRenamePacket` left with `return nil` when both paths are equal — `nil` reads as "no error", but the
  reply is queued only by the common tail after the switch, which the return skips: the request is never answered and
  every later reply of the connection is withheld behind it).

  Facts: `Generated/HandleTail.lean` (translator unit HandleTail, /verif/extract/round6.go), for handlePacket and for
  (*RequestServer).packetWorker: the cases of `switch … := X.requestPacket.(type)`, for each the number of statements
  in its body that leave without falling out of the switch (return, goto, labelled branch, `continue` of the worker
  loop, panic / os.Exit; function literals are not entered) and whether the response variable is assigned on every
  path; the statements after the switch and that the first of them queues the reply.
-/
namespace Sftp.C02HandleTail
open Sftp Sftp.HandleTail

/-- C02HandleTail.cases_fall_into_the_tail — both servers: no case of the type switch but handlePacket's `default`
(`return fmt.Errorf("unexpected packet type …")`: not a request kind, the worker ends and the connection is closed)
contains a statement that leaves early; every case leaves the response variable assigned (FSTAT and READ of the
os-backed server through the `ok`-or-`err != nil` pair); the statement after the switch is
`pktMgr.readyPacket(pktMgr.newOrderedResponse(rpkt, orderID))` and nothing follows but `return nil`. -/
theorem cases_fall_into_the_tail :
    G.htServerCases =
      [("sshFxInitPacket", 0, "always"), ("sshFxpStatPacket", 0, "always"), ("sshFxpLstatPacket", 0, "always"),
       ("sshFxpFstatPacket", 0, "ok-or-err"), ("sshFxpMkdirPacket", 0, "always"), ("sshFxpRmdirPacket", 0, "always"),
       ("sshFxpRemovePacket", 0, "always"), ("sshFxpRenamePacket", 0, "always"), ("sshFxpSymlinkPacket", 0, "always"),
       ("sshFxpClosePacket", 0, "always"), ("sshFxpReadlinkPacket", 0, "always"), ("sshFxpRealpathPacket", 0, "always"),
       ("sshFxpOpendirPacket", 0, "always"), ("sshFxpReadPacket", 0, "ok-or-err"), ("sshFxpWritePacket", 0, "always"),
       ("sshFxpExtendedPacket", 0, "always"), ("serverRespondablePacket", 0, "always"), ("default", 1, "maybe")] ∧
    G.htServerExits = [("default", ["return"])] ∧
    G.htServerTail = ["s.pktMgr.readyPacket(s.pktMgr.newOrderedResponse(rpkt, orderID))", "return nil"] ∧
    G.htServerTailQueues = true ∧
    G.htRequestServerCases =
      [("sshFxInitPacket", 0, "always"), ("sshFxpClosePacket", 0, "always"), ("sshFxpRealpathPacket", 0, "always"),
       ("sshFxpOpendirPacket", 0, "always"), ("sshFxpOpenPacket", 0, "always"), ("sshFxpFstatPacket", 0, "always"),
       ("sshFxpFsetstatPacket", 0, "always"), ("sshFxpExtendedPacketPosixRename", 0, "always"),
       ("sshFxpExtendedPacketStatVFS", 0, "always"), ("hasHandle", 0, "always"), ("hasPath", 0, "always"),
       ("default", 0, "always")] ∧
    G.htRequestServerExits = [] ∧
    G.htRequestServerTail = ["s.pktMgr.readyPacket(s.pktMgr.newOrderedResponse(rpkt, orderID))"] ∧
    G.htRequestServerTailQueues = true := by
  decide

/-- C02HandleTail.every_request_kind_gets_exactly_one_reply — with the tables read off the tree: for EVERY case of either
server's type switch that serves a request kind and EVERY path through its body, exactly one reply is queued (the
response variable being assigned on that path). -/
theorem every_request_kind_gets_exactly_one_reply :
    (∀ r ∈ G.htServerCases, r.1 ≠ "default" → ∀ p : Path, p.valid r.2.1 = true → replies G.htServerTailQueues p = 1) ∧
    (∀ r ∈ G.htRequestServerCases, r.1 ≠ "default" → ∀ p : Path, p.valid r.2.1 = true →
      replies G.htRequestServerTailQueues p = 1) ∧
    alwaysAssigns G.htServerCases = true ∧ alwaysAssigns G.htRequestServerCases = true := by
  refine ⟨?_, ?_, by decide, by decide⟩
  · intro r hr hd p hv
    exact one_reply G.htServerCases _ (by decide) (by decide) r hr hd p hv
  · intro r hr hd p hv
    exact one_reply G.htRequestServerCases _ (by decide) (by decide) r hr hd p hv

/-- non-vacuity: RENAME is a row, falling out of the switch is a path of its body, and it yields the reply -/
example : (("sshFxpRenamePacket", 0, "always") : Row) ∈ G.htServerCases ∧ Path.fallsOut.valid 0 = true ∧
    replies G.htServerTailQueues .fallsOut = 1 := by decide

/-- the request server's `default` answers too (status "operation unsupported"); the os-backed server's does not -/
example : (G.htRequestServerCases.lookup "default").map (·.1) = some 0 ∧
    (G.htServerCases.lookup "default").map (·.1) = some 1 := by decide

/-! ### the seeded shape (hand-written parameter, so this part builds on every tree) -/

/-- seed C02_k: the RENAME row with its `return nil` -/
def seedRow : Row := ("sshFxpRenamePacket", 1, "always")

/-- C02HandleTail.seed_return_in_rename_is_never_answered — seed C02_k: the path that takes the early `return nil` is a
path of the RENAME case and queues ZERO replies, although the tail is unchanged and still queues one on the other path;
in general any case with an early exit has an unanswered path. -/
theorem seed_return_in_rename_is_never_answered :
    (Path.leavesAt 0).valid seedRow.2.1 = true ∧ replies true (.leavesAt 0) = 0 ∧ replies true .fallsOut = 1 ∧
    noEarlyExit [seedRow] = false ∧
    (∀ tailQueues exits, 0 < exits → ∃ p : Path, p.valid exits = true ∧ replies tailQueues p = 0) := by
  refine ⟨by decide, by decide, by decide, by decide, ?_⟩
  intro tq exits h
  exact early_exit_unanswered tq exits h

end Sftp.C02HandleTail
