import Sftp.Proofs.CodecTotal
import Sftp.Proofs.CodecFrame
import Sftp.Proofs.CodecMeter
/-
  C08 — Feeding any byte sequence to any decoding entry point ends with a value or an error, never
  a panic, and allocates memory at most in proportion to the number of input bytes.  Frames longer
  than the limit are refused before their body is read, zero-length frames are refused, and a frame
  whose declared length exceeds the bytes available is an error, never delivered short.

  Property theorems only (model: Model/Codec.lean, lemmas: Proofs/Codec*.lean).
-/
namespace Sftp.C08
open Sftp Sftp.Codec

/-- A layout that uses only the bounds-checked primitives never panics: every layout, every byte
string, either decoder configuration. -/
theorem decode_total (cfg : DecCfg) (fs : List FieldD) (bs : Bytes) (hsafe : ∀ f ∈ fs, f.safe = true) :
    decodeFields cfg fs bs ≠ .panic :=
  decodeFields_safe cfg fs bs hsafe

/-- The attribute and name-list decoders on their own (`unmarshalAttrs`, `Attributes.UnmarshalFrom`,
`NamePacket.UnmarshalPacketBody`). -/
theorem attrs_total (cfg : DecCfg) (bs : Bytes) : decAttrs cfg true bs ≠ .panic := decAttrs_safe cfg bs
theorem names_total (cfg : DecCfg) (bs : Bytes) : decNames cfg true bs ≠ .panic := decNames_safe cfg bs

/-- The `safe` flag matters: the unchecked `unmarshalUint32` on three bytes indexes out of range.
(Hence `decode_total` is not vacuous, and a table row that names an unchecked primitive is a
finding.) -/
theorem unsafe_panics_witness :
    decodeFields DecCfg.current [⟨.u32, "ID", false⟩] [0, 0, 1] = .panic := by decide

example : decodeFields DecCfg.current [⟨.u32, "ID", true⟩] [0, 0, 1] = .err shortPacket := by decide
example : decodeFields DecCfg.current [⟨.u32, "ID", true⟩, ⟨.str, "Path", false⟩] [0, 0, 0, 1, 0, 0, 0, 9, 47] = .panic := by
  decide

/-- Allocation is linear in the input: with both count guards in place the decoder never requests
more than 9 bytes per input byte plus 96 bytes per field of the layout (the per-field constant pays
for the `FileStat` of an attribute field and the first `NameEntry` of a name list). -/
theorem alloc_linear (cfg : DecCfg) (fs : List FieldD) (bs : Bytes)
    (hext : cfg.extCountGuard = true) (hfx : cfg.fxCountGuard = true) :
    decodeMeter cfg fs bs ≤ 9 * bs.length + 96 * fs.length :=
  decodeMeter_le cfg hext hfx fs bs

/-- The main codec's decoder as it is today satisfies the guard hypothesis it needs
(only `extCountGuard` is consulted when `fx = false`). -/
theorem alloc_linear_main (cfg : DecCfg) (fs : List FieldD) (bs : Bytes)
    (hext : cfg.extCountGuard = true) (hmain : cfg.fx = false) :
    decodeMeter cfg fs bs ≤ 9 * bs.length + 96 * fs.length :=
  decodeMeter_le_main cfg hext hmain fs bs

example : DecCfg.current.extCountGuard = true ∧ DecCfg.current.fx = false := by decide
example : decodeMeter DecCfg.current [⟨.attrs, "Attrs", true⟩] [0x80, 0, 0, 0, 0x0f, 0xff, 0xff, 0xff] = 64 := by decide

/-! #### framing (`recvPacket`) -/

/-- A declared length above the limit is refused after exactly the four length bytes: the rest of
the stream (`r`) is still unread, and nothing is allocated for the body. -/
theorem frame_long_refused_early (maxLen : Nat) (s r : Bytes) (n : Nat)
    (hdr : get32? s = some (n, r)) (hlong : n > maxLen) :
    recvFrameL maxLen s = (.errLong, r) ∧ s = be32 n ++ r ∧ recvAlloc maxLen s = 4 := by
  refine ⟨?_, get32?_eq_be32 hdr, ?_⟩
  · rw [recvFrameL_of_get32 maxLen hdr, recvBody_long r hlong]
  · rw [recvAlloc, hdr]
    exact if_pos (Or.inl hlong)

/-- A declared length of zero is refused. -/
theorem frame_zero_refused (maxLen : Nat) (s r : Bytes) (hdr : get32? s = some (0, r)) :
    recvFrame maxLen s = .errZero := by
  rw [recvFrame, recvFrameL_of_get32 maxLen hdr, recvBody_zero]

/-- A delivered payload is exactly the declared number of bytes: `ok` implies that the stream was
length ‖ type ‖ payload ‖ rest with length = |payload| + 1, 0 < length ≤ maxLen. -/
theorem frame_never_short (maxLen : Nat) (s : Bytes) (typ : Nat) (payload rest : Bytes)
    (h : recvFrame maxLen s = .ok typ payload rest) :
    s = be32 (payload.length + 1) ++ UInt8.ofNat typ :: payload ++ rest ∧
      0 < payload.length + 1 ∧ payload.length + 1 ≤ maxLen ∧ typ < 256 := by
  have h' : recvFrameL maxLen s = (.ok typ payload rest, (recvFrameL maxLen s).2) := by
    rw [← h, recvFrame]
  obtain ⟨hs, hmax, ht, _⟩ := recvFrameL_ok h'
  exact ⟨hs, by omega, hmax, ht⟩

/-- Fewer bytes than declared: an error (too long, or short body with the count of bytes that
did arrive), never a shortened payload. -/
theorem frame_short_is_error (maxLen : Nat) (s r : Bytes) (n : Nat)
    (hdr : get32? s = some (n, r)) (hshort : r.length < n) :
    recvFrame maxLen s = .errLong ∨ recvFrame maxLen s = .errShortBody r.length := by
  rw [recvFrame, recvFrameL_of_get32 maxLen hdr]
  rcases recvBody_short (maxLen := maxLen) hshort with h | h
  · left; rw [h]
  · right; rw [h]

/-- `recvFrame` is a total function, and no stream shorter than five bytes yields a packet;
one to three bytes are a short header, none at all is a clean EOF. -/
theorem frame_total (maxLen : Nat) (s : Bytes) :
    (s.length < 5 → ∀ typ payload rest, recvFrame maxLen s ≠ .ok typ payload rest) ∧
    (s = [] → recvFrame maxLen s = .eof) ∧
    (s ≠ [] → s.length < 4 → recvFrame maxLen s = .errShortHeader) := by
  refine ⟨?_, ?_, ?_⟩
  · intro hlen typ payload rest h
    obtain ⟨hs, _, _, _⟩ := frame_never_short maxLen s typ payload rest h
    rw [hs] at hlen
    simp only [List.length_append, length_be32, List.length_cons] at hlen
    omega
  · intro h; subst h; rfl
  · intro h0 h4
    rw [recvFrame, recvFrameL_short maxLen h0 h4]

/-- The same three facts for the filexfer reader (`readPacket`), whose minimum length is 5. -/
theorem fx_frame_refusals (maxLen : Nat) (s r : Bytes) (n : Nat) (hdr : get32? s = some (n, r)) :
    (n < 5 → recvFrameFxL maxLen s = (.errZero, r)) ∧
    (5 ≤ n → n > maxLen → recvFrameFxL maxLen s = (.errLong, r)) ∧
    (r.length < n → recvFrameFx maxLen s = .errZero ∨ recvFrameFx maxLen s = .errLong ∨
      recvFrameFx maxLen s = .errShortBody r.length) := by
  rw [recvFrameFx, recvFrameFxL_of_get32 maxLen hdr]
  refine ⟨recvBodyFx_small r, recvBodyFx_long r, fun h => ?_⟩
  rcases recvBodyFx_short (maxLen := maxLen) h with h | h | h
  · left; rw [h]
  · right; left; rw [h]
  · right; right; rw [h]

theorem fx_frame_never_short (maxLen : Nat) (s : Bytes) (typ : Nat) (payload rest : Bytes)
    (h : recvFrameFx maxLen s = .ok typ payload rest) :
    s = be32 (payload.length + 1) ++ UInt8.ofNat typ :: payload ++ rest ∧
      5 ≤ payload.length + 1 ∧ payload.length + 1 ≤ maxLen ∧ typ < 256 := by
  have h' : recvFrameFxL maxLen s = (.ok typ payload rest, (recvFrameFxL maxLen s).2) := by
    rw [← h, recvFrameFx]
  obtain ⟨hs, h5, hmax, ht, _⟩ := recvFrameFxL_ok h'
  exact ⟨hs, h5, hmax, ht⟩

/-- The loop bound of the model's interpreter for `for len(b) > 0 { … }` (INIT / VERSION extension
pairs; fuel = len(b)) is never the reason for an error: the model's errors are the code's errors. -/
theorem pairs_fuel_sufficient (safe : Bool) (bs : Bytes) : decPairsAll safe bs.length bs ≠ .err "fuel" :=
  decPairsAll_fuel safe _ bs (Nat.le_refl _)

/-- What `recvPacket` itself allocates is bounded by the limit, whatever the stream says. -/
theorem recv_alloc_bounded (maxLen : Nat) (s : Bytes) : recvAlloc maxLen s ≤ 4 + maxLen := by
  rw [recvAlloc]
  split
  · omega
  · split <;> omega

/-! Non-vacuity. -/
example : recvFrameL 262144 [0, 4, 0, 1, 7, 7] = (.errLong, [7, 7]) := by decide
example : recvFrame 262144 [0, 0, 0, 0, 7] = .errZero := by decide
example : recvFrame 262144 [0, 0, 0, 3, 7] = .errShortBody 1 := by decide
example : recvFrame 262144 [0, 0, 0, 2, 101, 9, 8] = .ok 101 [9] [8] := by decide
example : recvFrame 262144 [0, 0, 0] = .errShortHeader := by decide
example : recvFrameFx 262144 [0, 0, 0, 4, 101, 0, 0, 0] = .errZero := by decide
example : recvFrameFx 262144 [0, 0, 0, 5, 101, 0, 0, 0, 9, 8] = .ok 101 [0, 0, 0, 9] [8] := by decide
example : ∀ f ∈ ([⟨.u32, "ID", true⟩, ⟨.str, "Path", true⟩, ⟨.attrs, "Attrs", true⟩] : List FieldD), f.safe = true := by
  decide

end Sftp.C08
