import Sftp.Model.DecoderBounds
import Sftp.Generated.DecoderBounds
/-
  C18 / C07 / C06 — the decoders of packet.go never look past the frame (source shape of seeded defects C18_g, C06_e,
  C07_h, which the differential harness caught but no extracted fact covered).

  Facts: `Generated/DecoderBounds.lean` (translator unit DecoderBounds, /verif/extract/round4.go): every
  `UnmarshalBinary` / `unmarshal*` function of package sftp is scanned for `cap(…)`, 3-index slices, and slices with an
  upper bound; for each of the latter the dominating `len` comparison is recorded (or UNGUARDED).  For WRITE / DATA the
  comparison and the expression stored into `p.Data` are emitted verbatim and parsed into the parameters of
  Model/DecoderBounds.

  Why it matters for C18: with the allocator the receive buffer is a page of the pool, so `cap(b)` is the rest of the
  PAGE; a decoder that bounds a length by `cap` (or leaves `b[:n]` unguarded: Go checks slices against the capacity)
  reads what earlier requests left behind the frame, and the reply stream differs from the one without allocator.
-/
namespace Sftp.C18Decoders
open Sftp Sftp.DecB

/-- a slice site is fine if the translator found its dominating `len` comparison, or if it sits in a plain function
that nothing in the package refers to (today: the unchecked `unmarshalString`, kept for the tests) -/
def siteGuarded (unreferenced : List String) (r : String × String × String) : Bool :=
  r.2.2 != "UNGUARDED" || unreferenced.contains r.1

def unreferencedFns : List String :=
  (G.uncheckedDecoderCallers.filter (fun r => r.2.isEmpty)).map (·.1)

/-- the parameters of the WRITE and of the DATA decoder, parsed from the source text -/
def writeCfg : Option (Guard × Sel) :=
  match parseGuard G.writeLengthGuard, parseSel G.writeDataSlice with
  | some g, some s => some (g, s)
  | _, _ => none

def dataCfg : Option (Guard × Sel) :=
  match parseGuard G.dataLengthGuard, parseSel G.dataDataSlice with
  | some g, some s => some (g, s)
  | _, _ => none

/-- C18Decoders.decoder_tables_len_only — packet.go, every decoding function (`G.decoderFns`): no `cap(`, no 3-index slice; every slice
with an upper bound on a byte slice is dominated by a comparison of that bound with `len` of the same variable whose arm
returns errShortPacket (no assignment to either in between), except in functions nothing refers to; the WRITE, DATA
and checked string decoders are among the functions scanned. -/
theorem decoder_tables_len_only :
    G.decoderCapUses = [] ∧ G.decodersBoundByLenOnly = true ∧
    G.decoderSliceSites.all (siteGuarded unreferencedFns) = true ∧
    (["sshFxpWritePacket.UnmarshalBinary", "sshFxpDataPacket.UnmarshalBinary", "unmarshalStringSafe",
      "unmarshalUint32Safe", "unmarshalUint64Safe", "unmarshalFileStat"].all G.decoderFns.contains) = true ∧
    (G.decoderSliceSites.filter (fun r => r.1 == "sshFxpWritePacket.UnmarshalBinary" || r.1 == "sshFxpDataPacket.UnmarshalBinary"
        || r.1 == "unmarshalStringSafe")).map (fun r => (r.1, r.2.2 != "UNGUARDED")) =
      [("sshFxpDataPacket.UnmarshalBinary", true), ("sshFxpWritePacket.UnmarshalBinary", true), ("unmarshalStringSafe", true)] := by
  decide

/-- C18Decoders.decoders_never_look_past_the_frame — WRITE and DATA as decoded by the code in the tree: for every
remainder of the frame, EVERY content of the backing array behind the frame (the allocator's page; empty without
allocator) and every value of the length field, the decoded data are the same as with nothing behind the frame, and the
decoder does not panic.  Together with `decoder_tables_len_only` (no other decoder mentions the capacity). -/
theorem decoders_never_look_past_the_frame :
    (G.decoderCapUses = [] ∧ G.decodersBoundByLenOnly = true ∧ G.decoderSliceSites.all (siteGuarded unreferencedFns) = true) ∧
    ∀ cfg ∈ [writeCfg, dataCfg], ∃ g s, cfg = some (g, s) ∧
      ∀ (rest tail : Bytes) (n : Nat),
        decodeData g s rest tail n = decodeData g s rest [] n ∧ decodeData g s rest tail n ≠ .panic := by
  refine ⟨by decide, ?_⟩
  intro cfg hcfg
  refine ⟨.len, .upTo, ?_, len_upTo_ignores_tail⟩
  have h : [writeCfg, dataCfg] = [some (Guard.len, Sel.upTo), some (Guard.len, Sel.upTo)] := by decide
  rw [h] at hcfg
  simp at hcfg
  exact hcfg

/-- non-vacuity: a frame promising 3 bytes and carrying 1 is refused, whatever the page holds behind it -/
example : decodeData .len .upTo [1] [9, 9] 3 = .err "errShortPacket" ∧ writeCfg = some (.len, .upTo) := by decide

/-- C18Decoders.write_data_is_exactly_length — `string data` of WRITE (and DATA) is the draft's: the decoder answers
errShortPacket iff the frame holds fewer bytes than the length field says, and otherwise `p.Data` is exactly the
`Length` bytes behind the length field — not the rest of the frame (seeds C06_e, C07_h), not bytes of the page (C18_g). -/
theorem write_data_is_exactly_length :
    G.writeDataSlice = "b[:p.Length]" ∧ G.dataDataSlice = "b[:p.Length]" ∧
    ∀ cfg ∈ [writeCfg, dataCfg], ∃ g s, cfg = some (g, s) ∧
      ∀ (rest tail : Bytes) (n : Nat),
        decodeData g s rest tail n = specData rest n ∧
        ∀ d, decodeData g s rest tail n = .ok d → d = rest.take n ∧ d.length = n := by
  refine ⟨by decide, by decide, ?_⟩
  intro cfg hcfg
  refine ⟨.len, .upTo, ?_, ?_⟩
  · have h : [writeCfg, dataCfg] = [some (Guard.len, Sel.upTo), some (Guard.len, Sel.upTo)] := by decide
    rw [h] at hcfg
    simp at hcfg
    exact hcfg
  · intro rest tail n
    refine ⟨len_upTo_is_spec rest tail n, ?_⟩
    intro d hd
    rw [len_upTo_is_spec] at hd
    exact ⟨(spec_ok rest n d hd).1, (spec_ok rest n d hd).2.1⟩

/-- non-vacuity: trailing bytes behind the data stay out of `Data` -/
example : decodeData .len .upTo [1, 2, 3, 4, 5] [] 3 = .ok [1, 2, 3] := by decide

/-! ### the seeded shapes (hand-written parameters, so this file builds on every tree) -/

/-- C18Decoders.seed_cap_bound_reads_the_page — seed C18_g (`uint32(cap(b)) < p.Length`, `b[:p.Length:p.Length]`):
without allocator (nothing behind the frame) it behaves as the original; with a page behind the frame a WRITE
promising 3 bytes and carrying 1 is accepted and its data are 2 stale bytes of the page. -/
theorem seed_cap_bound_reads_the_page :
    (∀ (rest : Bytes) (n : Nat), decodeData .cap .upTo3 rest [] n = specData rest n) ∧
    decodeData .cap .upTo3 [1] [9, 9] 3 = .ok [1, 9, 9] ∧
    decodeData .cap .upTo3 [1] [] 3 = .err "errShortPacket" := by
  refine ⟨?_, by decide, by decide⟩
  intro rest n
  unfold decodeData specData
  by_cases h : rest.length < n
  · simp [h]
  · have h' : n ≤ rest.length := Nat.le_of_not_lt h
    simp [h, h']

/-- without any comparison `b[:n]` is checked against the CAPACITY by Go: stale bytes with a page, a panic without -/
theorem unguarded_slice_reads_the_page_or_panics :
    decodeData .none .upTo [1] [9, 9] 3 = .ok [1, 9, 9] ∧ decodeData .none .upTo [1] [] 3 = .panic := by decide

/-- C18Decoders.seed_rest_of_frame_is_not_length — seeds C06_e (`b[:len(b):len(b)]`) and C07_h (`b`): the short-packet
check is intact, nothing behind the frame is read, but a frame with bytes behind the data field hands them on as data. -/
theorem seed_rest_of_frame_is_not_length :
    decodeData .len .rest3 [1, 2, 3, 4, 5] [] 3 = .ok [1, 2, 3, 4, 5] ∧
    decodeData .len .rest [1, 2, 3, 4, 5] [] 3 = .ok [1, 2, 3, 4, 5] ∧
    specData [1, 2, 3, 4, 5] 3 = .ok [1, 2, 3] ∧
    (∀ (rest tail : Bytes) (n : Nat), decodeData .len .rest rest tail n = decodeData .len .rest rest [] n) := by
  refine ⟨by decide, by decide, by decide, ?_⟩
  intro rest tail n
  rfl

end Sftp.C18Decoders
