import Sftp.Proofs.ClientArith
import Sftp.Generated.ClientWorkers
/-
  C20 (no server reply can crash or hang the client) — worker-count arithmetic from wire-derived sizes.
  `G.workerSites` is regenerated from client.go / pool.go by extract/clientarith.go (unit ClientWorkers): every
  worker count that reaches `make(chan T, n)`, `wg.Add(n)` or `for i := 0; i < n; i++`, found from the sinks backwards.

  Every such count lies in [1, maxConcurrentRequests] and equals min(size/maxPacket + 1, max), for every 64-bit size
  the wire can carry (`workers` evaluates the extracted shape with Go's 64-bit wrap-around).
-/
namespace Sftp.C20Workers
open Sftp Sftp.Arith

/-! ## A. worker counts -/

/-- C20Workers.workers_in_range_of_guards — ANY shape (whatever the conversions, the type of the division, the size,
the packet size) whose clamp has an upper (`c > max` / `c >= max`) and a lower (`c < 1` / `c <= 0`) disjunct yields
a count in [1, max]. -/
theorem workers_in_range_of_guards (s : WorkerSite) (hHi : s.hasHi = true) (hLo : s.hasLo = true)
    (size mp max : Int) (h1 : 1 ≤ max) (h2 : max < 9223372036854775808) :
    1 ≤ workers s size mp max ∧ workers s size mp max ≤ max := by
  rw [workers_eq, wrap_id s.divTy max (by omega) h2]
  have := clamp_range s hHi hLo
    (if s.divides then wrap s.divTy (Int.tdiv (applyConvs s.convs size) (wrap s.divTy mp) + 1) else applyConvs s.convs size) max h1
  rw [wrap_id _ _ (by omega) (by omega)]
  exact this

/-- C20Workers.workers_exact_of_shape — a shape that keeps the size's signedness, divides, and clamps with exactly
`c > max || c < 1` computes min(size/mp + 1, max) for every legal size (u64: [0, 2^64); signed: [0, 2^63)) and every
packet size in [1, 2^63) — including the one input where `size/mp + 1` wraps (mp = 1, size = type maximum): there
the lower guard turns the wrapped value into max. -/
theorem workers_exact_of_shape (s : WorkerSite) (hs : s.signSafe = true) (hp : s.plainGuards = true)
    (hHi : s.hasHi = true) (hLo : s.hasLo = true) (hd : s.divides = true)
    (size mp max : Int) (hr : SrcRange s size) (hmp1 : 1 ≤ mp) (hmp2 : mp < 9223372036854775808)
    (h1 : 1 ≤ max) (h2 : max < 9223372036854775808) :
    workers s size mp max = min (size / mp + 1) max := by
  rw [workers_eq, wrap_id s.divTy max (by omega) h2, hd, if_pos rfl]
  obtain ⟨ht, hq⟩ := quot_spec s hs size mp hr hmp1 hmp2
  generalize wrap s.divTy (Int.tdiv (applyConvs s.convs size) (wrap s.divTy mp) + 1) = q at hq
  generalize size / mp + 1 = t at ht hq
  have hc : clamp s q max = min t max := by
    rw [clamp_plain s hp]
    simp only [hHi, hLo, true_and]
    split <;> omega
  rw [hc, wrap_id _ _ (by omega) (by omega)]

/-- C20Workers.workers_hi_only_exact_of_mp2 — WITHOUT the lower guard the same holds for every packet size ≥ 2
(the quotient cannot wrap); see `u64_without_lower_guard_mp1` for packet size 1. -/
theorem workers_hi_only_exact_of_mp2 (s : WorkerSite) (hs : s.signSafe = true) (hp : s.plainGuards = true)
    (hHi : s.hasHi = true) (hd : s.divides = true)
    (size mp max : Int) (hr : SrcRange s size) (hmp1 : 2 ≤ mp) (hmp2 : mp < 9223372036854775808)
    (h1 : 1 ≤ max) (h2 : max < 9223372036854775808) :
    workers s size mp max = min (size / mp + 1) max ∧ 1 ≤ workers s size mp max ∧ workers s size mp max ≤ max := by
  rw [workers_eq, wrap_id s.divTy max (by omega) h2, hd, if_pos rfl]
  obtain ⟨ht, hq⟩ := quot_spec s hs size mp hr (by omega) hmp2
  generalize wrap s.divTy (Int.tdiv (applyConvs s.convs size) (wrap s.divTy mp) + 1) = q at hq
  generalize size / mp + 1 = t at ht hq
  have hc : clamp s q max = min t max := by
    rw [clamp_plain s hp]
    simp only [hHi, true_and]
    split <;> omega
  rw [hc, wrap_id _ _ (by omega) (by omega)]
  omega

/-- C20Workers.forwarded_exact_of_shape — a dividing shape with only the upper guard (ReadFrom) whose result is
handed to a parameter site with both guards (readFromWithConcurrency): the count at the callee's sinks is
min(size/mp + 1, max) for every legal size and every packet size ≥ 1, also when the caller's quotient wrapped. -/
theorem forwarded_exact_of_shape (s t : WorkerSite) (hs : s.signSafe = true) (hp : s.plainGuards = true)
    (hHi : s.hasHi = true) (hd : s.divides = true)
    (htd : t.divides = false) (htc : t.convs = []) (htp : t.plainGuards = true)
    (htHi : t.hasHi = true) (htLo : t.hasLo = true)
    (size mp max : Int) (hr : SrcRange s size) (hmp1 : 1 ≤ mp) (hmp2 : mp < 9223372036854775808)
    (h1 : 1 ≤ max) (h2 : max < 9223372036854775808) :
    forwarded s t size mp max = min (size / mp + 1) max := by
  unfold forwarded
  rw [param_clamp t htd htc htp htHi htLo _ mp max h1 h2]
  have hv := hi_only_value s hs hp hHi hd size mp max hr hmp1 hmp2 h1 h2
  generalize workers s size mp max = v at hv
  have ht := (quot_spec s hs size mp hr hmp1 hmp2).1
  generalize size / mp + 1 = tv at ht hv
  split <;> omega

/-! ### the shapes client.go has today -/

/-- the count variables found from the sinks backwards: who computes, from what, where it goes -/
theorem worker_sites_as_expected :
    G.workerSites.map (fun s => (s.fn, s.src, s.sinks, s.forwards)) =
      [("File.readAt", "len", ["newResChanPool:make(chan chan result, n)", "wg.Add(n)", "for i := 0; i < n; i++"], []),
       ("File.WriteTo", "wire", ["newBufPool:make(chan []byte, n)", "newResChanPool:make(chan chan result, n)", "wg.Add(n)",
          "for i := 0; i < n; i++"], []),
       ("File.writeAtConcurrent", "len", ["newResChanPool:make(chan chan result, n)", "wg.Add(n)", "for i := 0; i < n; i++"], []),
       ("File.ReadFromWithConcurrency", "param", [], ["File.readFromWithConcurrency"]),
       ("File.readFromWithConcurrency", "param", ["newResChanPool:make(chan chan result, n)", "wg.Add(n)", "for i := 0; i < n; i++"], []),
       ("File.ReadFrom", "local", [], ["File.readFromWithConcurrency"])] := by decide

/-- C20Workers.workers_in_range — at every site of client.go that sizes a channel, a pool, a WaitGroup or a worker loop,
the count is in [1, maxConcurrentRequests]: for EVERY size (in particular every wire value < 2^64, also ≥ 2^63) and
every packet size (in particular [1, 2^31)).  Fails when a site loses its upper or its lower guard
(seed C20_e: `seed_shape_negative`, `seed_shape_zero`). -/
theorem workers_in_range : ∀ s ∈ G.workerSites, s.sinks ≠ [] → ∀ size mp max : Int,
    1 ≤ max → max < 9223372036854775808 →
    1 ≤ workers s size mp max ∧ workers s size mp max ≤ max := by
  have direct_sites_clamped :
      G.workerSites.all (fun s => s.sinks.isEmpty || (s.hasHi && s.hasLo)) = true := by decide
  intro s hs hne size mp max h1 h2
  have h := List.all_eq_true.mp direct_sites_clamped s hs
  simp only [Bool.or_eq_true, Bool.and_eq_true, List.isEmpty_iff] at h
  rcases h with h | h
  · exact absurd h hne
  · exact workers_in_range_of_guards s h.1 h.2 size mp max h1 h2

/-- every forwarded count reaches a parameter site of the table that clamps on both sides before its sinks -/
def forwardsClamped (tbl : List WorkerSite) : Bool :=
  tbl.all (fun s => s.forwards.all (fun f => tbl.any (fun t =>
    t.fn == f && t.src == "param" && !t.sinks.isEmpty && t.forwards.isEmpty && !t.divides && t.convs.isEmpty &&
    t.plainGuards && t.hasHi && t.hasLo)))

/-- C20Workers.forwarded_workers_in_range — a count that is handed on (ReadFrom's guess, the caller's argument of
ReadFromWithConcurrency) reaches a parameter site that clamps it on both sides before its sinks: in range for every
value the caller computes. -/
theorem forwarded_workers_in_range : ∀ s ∈ G.workerSites, ∀ f ∈ s.forwards, ∃ t ∈ G.workerSites,
    t.fn = f ∧ t.src = "param" ∧ t.sinks ≠ [] ∧ ∀ size mp max : Int, 1 ≤ max → max < 9223372036854775808 →
      1 ≤ forwarded s t size mp max ∧ forwarded s t size mp max ≤ max := by
  have hfc : forwardsClamped G.workerSites = true := by decide
  intro s hs f hf
  have h := List.all_eq_true.mp (List.all_eq_true.mp hfc s hs) f hf
  obtain ⟨t, ht, hp⟩ := List.any_eq_true.mp h
  simp only [Bool.and_eq_true, beq_iff_eq, Bool.not_eq_true', List.isEmpty_eq_false_iff] at hp
  obtain ⟨⟨⟨⟨⟨⟨⟨⟨h1, h2⟩, h3⟩, _⟩, _⟩, _⟩, _⟩, h8⟩, h9⟩ := hp
  exact ⟨t, ht, h1, h2, h3, fun size mp max hm1 hm2 =>
    workers_in_range_of_guards t h8 h9 (workers s size mp max) mp max hm1 hm2⟩

/-- C20Workers.sizes_keep_signedness — no site reinterprets its size with another signedness before dividing; the
wire-derived size (FileStat.Size) is uint64 and divided as uint64; signed sizes are lengths or checked `!(size < 0)`.
(An `int64(fileSize)` / `int(fileSize)` before the division fails here even when both guards are kept.) -/
theorem sizes_keep_signedness : ∀ s ∈ G.workerSites,
    s.signSafe = true ∧ (s.src = "wire" → s.srcTy = .u64 ∧ s.divTy = .u64) ∧
    (s.divides = true → s.srcTy.signed = true → s.src = "len" ∨ "!(size < 0)" ∈ s.pre) := by decide

/-- C20Workers.workers_exact — readAt, WriteTo, writeAtConcurrent: the count is exactly min(size/maxPacket + 1, max)
for every legal size and every packet size in [1, 2^63). -/
theorem workers_exact : ∀ s ∈ G.workerSites, s.divides = true → s.sinks ≠ [] → ∀ size mp max : Int,
    SrcRange s size → 1 ≤ mp → mp < 9223372036854775808 → 1 ≤ max → max < 9223372036854775808 →
    workers s size mp max = min (size / mp + 1) max := by
  have dividing_direct_sites_exact_class : G.workerSites.all (fun s => !s.divides || s.sinks.isEmpty ||
      (s.signSafe && s.plainGuards && s.hasHi && s.hasLo)) = true := by decide
  intro s hs hd hne size mp max hr hm1 hm2 h1 h2
  have h := List.all_eq_true.mp dividing_direct_sites_exact_class s hs
  simp only [Bool.or_eq_true, Bool.and_eq_true, Bool.not_eq_true', List.isEmpty_iff] at h
  rcases h with (h | h) | h
  · rw [hd] at h; cases h
  · exact absurd h hne
  · exact workers_exact_of_shape s h.1.1.1 h.1.1.2 h.1.2 h.2 hd size mp max hr hm1 hm2 h1 h2

/-- C20Workers.forwarded_workers_exact — ReadFrom: the count at readFromWithConcurrency's sinks is exactly
min(remain/maxPacket + 1, max) although ReadFrom itself has no lower guard. -/
theorem forwarded_workers_exact : ∀ s ∈ G.workerSites, s.divides = true → ∀ f ∈ s.forwards, ∃ t ∈ G.workerSites,
    t.fn = f ∧ ∀ size mp max : Int,
      SrcRange s size → 1 ≤ mp → mp < 9223372036854775808 → 1 ≤ max → max < 9223372036854775808 →
      forwarded s t size mp max = min (size / mp + 1) max := by
  have hfc : forwardsClamped G.workerSites = true := by decide
  have dividing_forwarding_sites_class : G.workerSites.all (fun s =>
      !s.divides || s.forwards.isEmpty || (s.signSafe && s.plainGuards && s.hasHi)) = true := by decide
  intro s hs hd f hf
  have h := List.all_eq_true.mp (List.all_eq_true.mp hfc s hs) f hf
  obtain ⟨t, ht, hp⟩ := List.any_eq_true.mp h
  simp only [Bool.and_eq_true, beq_iff_eq, Bool.not_eq_true', List.isEmpty_iff] at hp
  obtain ⟨⟨⟨⟨⟨⟨⟨⟨h1, _⟩, _⟩, _⟩, h5⟩, h6⟩, h7⟩, h8⟩, h9⟩ := hp
  have hc := List.all_eq_true.mp dividing_forwarding_sites_class s hs
  simp only [Bool.or_eq_true, Bool.and_eq_true, Bool.not_eq_true', List.isEmpty_iff] at hc
  rcases hc with (hc | hc) | hc
  · rw [hd] at hc; cases hc
  · rw [hc] at hf; cases hf
  · exact ⟨t, ht, h1, fun size mp max hr hm1 hm2 hx1 hx2 =>
      forwarded_exact_of_shape s t hc.1.1 hc.1.2 hc.2 hd h5 h6 h7 h8 h9 size mp max hr hm1 hm2 hx1 hx2⟩

/-! ### non-vacuity and necessity -/

/-- today's WriteTo shape, hand-written -/
def writeToShape : WorkerSite :=
  { fn := "File.WriteTo", src := "wire", srcTy := .u64, convs := [], divides := true, divTy := .u64,
    guards := [⟨.gt, .max⟩, ⟨.lt, .lit 1⟩], resultTy := .int, pre := [], sinks := ["make"], forwards := [] }

/-- seed C20_e: `int64(fileSize)/int64(f.c.maxPacket) + 1`, capped from above only -/
def seedShape : WorkerSite :=
  { writeToShape with convs := [.i64], divTy := .i64, guards := [⟨.gt, .max⟩] }

/-- a 1 MiB file: 33 workers; a 2^63-byte "file": max workers; the wrapping input: max workers -/
example : workers writeToShape 1048576 32768 64 = 33 ∧ workers writeToShape 9223372036854775808 32768 64 = 64 ∧
    workers writeToShape 18446744073709551615 1 64 = 64 := by decide
example : SrcRange writeToShape 18446744073709551615 := ⟨by decide, by decide⟩

/-- C20Workers.seed_shape_negative — the seed's shape: size 2^63 gives a NEGATIVE count (`make(chan []byte, n)` panics:
"makechan: size out of range") … -/
theorem seed_shape_negative :
    workers seedShape 9223372036854775808 32768 64 = -281474976710655 ∧
    workers seedShape 16045690984503111693 32768 64 < 0 := by decide

/-- … and size 2^64 - 2^15 gives ZERO workers (no worker is started, the reduce loop waits forever); sizes below
2^63 behave as before. -/
theorem seed_shape_zero :
    workers seedShape 18446744073709518848 32768 64 = 0 ∧
    workers seedShape 1048576 32768 64 = 33 ∧ workers seedShape 9223372036854775807 32768 64 = 64 := by decide

/-- the seed's shape satisfies neither hypothesis of the range and exactness theorems -/
theorem seed_shape_outside_class : seedShape.hasLo = false ∧ seedShape.signSafe = false := by decide

/-- the signed conversion alone (both guards kept) stays in range — the lower guard catches the negative values —
and even computes the same count; it is rejected by `sizes_keep_signedness`, not by `workers_in_range` -/
theorem signed_conversion_with_both_guards :
    let s := { writeToShape with convs := [.i64], divTy := .i64 }
    s.signSafe = false ∧ s.hasHi = true ∧ s.hasLo = true ∧
    workers s 9223372036854775808 32768 64 = 64 ∧ workers s 18446744073709518848 32768 64 = 64 := by decide

/-- C20Workers.u64_without_lower_guard_mp1 — uint64 arithmetic WITHOUT the `< 1` disjunct: harmless for every packet
size ≥ 2 (`workers_hi_only_exact_of_mp2`), but with packet size 1 (MaxPacketUnchecked(1)) and size 2^64-1 the sum
wraps to 0 workers.  The lower guard is not dead code. -/
theorem u64_without_lower_guard_mp1 :
    workers { writeToShape with guards := [⟨.gt, .max⟩] } 18446744073709551615 1 64 = 0 ∧
    workers { writeToShape with guards := [⟨.gt, .max⟩] } 18446744073709551615 2 64 = 64 := by decide

/-- C20Workers.cap_removed_exceeds_max — without the upper disjunct a 2^40-byte file asks for 2^25+1 workers -/
theorem cap_removed_exceeds_max :
    workers { writeToShape with guards := [⟨.lt, .lit 1⟩] } 1099511627776 32768 64 = 33554433 := by decide

/-- ReadFrom's own result may be negative (packet size 1, remain 2^63-1); the callee's clamp makes it max -/
theorem readFrom_needs_callee_clamp :
    let rf : WorkerSite := { writeToShape with fn := "File.ReadFrom", src := "local", srcTy := .i64, divTy := .i64,
                                               guards := [⟨.gt, .max⟩] }
    let callee : WorkerSite := { writeToShape with fn := "File.readFromWithConcurrency", src := "param", srcTy := .int,
                                                   divTy := .int, divides := false }
    workers rf 9223372036854775807 1 64 = -9223372036854775808 ∧
    forwarded rf callee 9223372036854775807 1 64 = 64 := by decide

end Sftp.C20Workers
