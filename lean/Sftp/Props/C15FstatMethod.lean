import Sftp.Model.StatMethod
import Sftp.Generated.FstatMethod
/-
  C15 / C10 / C12 — a size query on an open handle reports the file the handle reads and writes (source shape of seeded
  defect C15_l, two sites: request-server.go `packetWorker` served FSTAT with `Method: requestMethod(pkt)` instead of the
  literal "Stat", and request.go `requestMethod` moved `*sshFxpFstatPacket` from the "Stat" row to the "Lstat" row; each
  change alone is neutral, together FSTAT is answered by LstatFileLister.Lstat on the name the handle was opened with — for
  a handle opened through a symbolic link: the size and mode of the LINK, while reads, writes and the other handle of the
  same file say 8192 bytes).

  Facts: `Generated/FstatMethod.lean` (translator unit FstatMethod, /verif/extract/round6.go): requestMethod's table in
  full; that requestFromPacket takes its Method from requestMethod; per case of packetWorker's type switch where the
  Method of the serving Request comes from (a literal, requestMethod, the handle's own Request, none); for every request
  packet type the first case it matches (go/types method sets for the interface cases hasHandle / hasPath).
-/
namespace Sftp.C15FstatMethod
open Sftp Sftp.StatMethod

/-- the method a packet type is served with in the tree -/
def served (t : String) : Option String := servedMethod G.fmServedBy G.fmRequestMethod t

/-- C15FstatMethod.method_tables_as_spec — request.go requestMethod: STAT and FSTAT ↦ "Stat", LSTAT ↦ "Lstat", the rest as
listed, no default; requestFromPacket uses it; packetWorker: FSTAT, FSETSTAT, posix-rename and statvfs are served by a
fresh Request with a LITERAL method ("Stat", "Setstat", "PosixRename", "StatVFS"), OPEN / OPENDIR and every path-based
request through requestFromPacket, READ / WRITE / READDIR by the Request of their handle. -/
theorem method_tables_as_spec :
    G.fmRequestMethod =
      [("sshFxpExtendedPacketHardlink", "Link"), ("sshFxpFsetstatPacket", "Setstat"), ("sshFxpFstatPacket", "Stat"),
       ("sshFxpLstatPacket", "Lstat"), ("sshFxpMkdirPacket", "Mkdir"), ("sshFxpOpenPacket", ""),
       ("sshFxpOpendirPacket", ""), ("sshFxpReadPacket", ""), ("sshFxpReaddirPacket", ""),
       ("sshFxpReadlinkPacket", "Readlink"), ("sshFxpRemovePacket", "Remove"), ("sshFxpRenamePacket", "Rename"),
       ("sshFxpRmdirPacket", "Rmdir"), ("sshFxpSetstatPacket", "Setstat"), ("sshFxpStatPacket", "Stat"),
       ("sshFxpSymlinkPacket", "Symlink"), ("sshFxpWritePacket", "")] ∧
    G.fmRequestMethodHasDefault = false ∧ G.fmRequestFromPacketMethod = "requestMethod" ∧
    G.fmWorkerCases =
      [("sshFxInitPacket", "none", ""), ("sshFxpClosePacket", "none", ""), ("sshFxpRealpathPacket", "none", ""),
       ("sshFxpOpendirPacket", "requestMethod", ""), ("sshFxpOpenPacket", "requestMethod", ""),
       ("sshFxpFstatPacket", "literal", "Stat"), ("sshFxpFsetstatPacket", "literal", "Setstat"),
       ("sshFxpExtendedPacketPosixRename", "literal", "PosixRename"),
       ("sshFxpExtendedPacketStatVFS", "literal", "StatVFS"), ("hasHandle", "handle", ""),
       ("hasPath", "requestMethod", ""), ("default", "none", "")] ∧
    G.fmServedBy.map (fun r => (r.1, r.2.1)) =
      [("sshFxInitPacket", "sshFxInitPacket"), ("sshFxpClosePacket", "sshFxpClosePacket"),
       ("sshFxpDataPacket", "default"), ("sshFxpExtendedPacket", "default"),
       ("sshFxpExtendedPacketHardlink", "hasPath"),
       ("sshFxpExtendedPacketPosixRename", "sshFxpExtendedPacketPosixRename"),
       ("sshFxpExtendedPacketStatVFS", "sshFxpExtendedPacketStatVFS"),
       ("sshFxpFsetstatPacket", "sshFxpFsetstatPacket"), ("sshFxpFstatPacket", "sshFxpFstatPacket"),
       ("sshFxpLstatPacket", "hasPath"), ("sshFxpMkdirPacket", "hasPath"), ("sshFxpOpenPacket", "sshFxpOpenPacket"),
       ("sshFxpOpendirPacket", "sshFxpOpendirPacket"), ("sshFxpReadPacket", "hasHandle"),
       ("sshFxpReaddirPacket", "hasHandle"), ("sshFxpReadlinkPacket", "hasPath"),
       ("sshFxpRealpathPacket", "sshFxpRealpathPacket"), ("sshFxpRemovePacket", "hasPath"),
       ("sshFxpRenamePacket", "hasPath"), ("sshFxpRmdirPacket", "hasPath"), ("sshFxpSetstatPacket", "hasPath"),
       ("sshFxpStatPacket", "hasPath"), ("sshFxpSymlinkPacket", "hasPath"), ("sshFxpWritePacket", "hasHandle")] ∧
    G.fmServedBy.all (fun r => (G.fmWorkerCases.lookup r.2.1) == some r.2.2) = true := by
  decide

/-- C15FstatMethod.fstat_served_as_stat — putting the tables together: FSTAT is served as "Stat" (follows links), STAT as
"Stat", LSTAT as "Lstat", FSETSTAT and SETSTAT as "Setstat"; READ, WRITE and READDIR by their handle's own Request. -/
theorem fstat_served_as_stat :
    served "sshFxpFstatPacket" = some "Stat" ∧ served "sshFxpStatPacket" = some "Stat" ∧
    served "sshFxpLstatPacket" = some "Lstat" ∧ served "sshFxpFsetstatPacket" = some "Setstat" ∧
    served "sshFxpSetstatPacket" = some "Setstat" ∧ served "sshFxpReadPacket" = some "handle" ∧
    served "sshFxpWritePacket" = some "handle" ∧ served "sshFxpReaddirPacket" = some "handle" := by
  decide

/-- C15FstatMethod.size_query_reports_the_opened_file — with the method FSTAT is served with in the tree: for EVERY file
system, name and link depth, the size a query through a handle reports is the size of the object the handle was opened
on — the one its reads and writes go to — whether the name is the file's own or a symbolic link to it. -/
theorem size_query_reports_the_opened_file (fuel : Nat) (fs : FS) (name : String) :
    (served "sshFxpFstatPacket").bind (fun m => query m fuel fs name) = (opened fuel fs name).map Node.size := by
  have h : served "sshFxpFstatPacket" = some "Stat" := by decide
  rw [h]
  exact query_stat fuel fs name

/-- non-vacuity: the file under its own name and under a link name: 8192 both times -/
example : (served "sshFxpFstatPacket").bind (fun m => query m 4 [("lnk", .link "dat" 0), ("dat", .file 8192)] "lnk") = some 8192 ∧
    (served "sshFxpFstatPacket").bind (fun m => query m 4 [("lnk", .link "dat" 0), ("dat", .file 8192)] "dat") = some 8192 ∧
    opened 4 [("lnk", .link "dat" 0), ("dat", .file 8192)] "lnk" = some (.file 8192) := by decide

/-! ### the seeded shape (hand-written parameters, so this part builds on every tree) -/

/-- seed C15_l: the worker's FSTAT case asks requestMethod, whose FSTAT row says "Lstat" -/
def seedServedBy : List (String × String × String × String) :=
  [("sshFxpFstatPacket", "sshFxpFstatPacket", "requestMethod", ""), ("sshFxpStatPacket", "hasPath", "requestMethod", "")]
def seedRequestMethod : List (String × String) :=
  [("sshFxpFstatPacket", "Lstat"), ("sshFxpLstatPacket", "Lstat"), ("sshFxpStatPacket", "Stat")]

/-- C15FstatMethod.seed_fstat_as_lstat_reports_the_link — seed C15_l: FSTAT comes out as "Lstat"; in the two-object file
system (link, file) the size query through the handle opened by the link name reports the link's own size, not the 8192
bytes of the file the handle reads and writes; through the handle opened by the file's name it still says 8192 (the
suite's case); each of the two sites alone leaves FSTAT at "Stat". -/
theorem seed_fstat_as_lstat_reports_the_link :
    servedMethod seedServedBy seedRequestMethod "sshFxpFstatPacket" = some "Lstat" ∧
    query "Lstat" 4 [("lnk", .link "dat" 0), ("dat", .file 8192)] "lnk" = some 0 ∧
    (opened 4 [("lnk", .link "dat" 0), ("dat", .file 8192)] "lnk").map Node.size = some 8192 ∧
    query "Lstat" 4 [("lnk", .link "dat" 0), ("dat", .file 8192)] "dat" = some 8192 ∧
    servedMethod seedServedBy [("sshFxpFstatPacket", "Stat")] "sshFxpFstatPacket" = some "Stat" ∧
    servedMethod [("sshFxpFstatPacket", "sshFxpFstatPacket", "literal", "Stat")] seedRequestMethod "sshFxpFstatPacket"
      = some "Stat" := by
  decide

end Sftp.C15FstatMethod
