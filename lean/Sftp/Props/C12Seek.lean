import Sftp.Generated.FileMethods
import Sftp.Model.Transfer
/-
  C12 (offset part) — "Seek computes start-, current- and end-relative positions and rejects a negative result
  without moving", like an os.File: the END is the end of the file that is OPEN (the descriptor), never of whatever
  the name it was opened with shows now (rename + recreate, remove, replace).  The only request of SFTP v3 that asks
  the open file for its size is FSTAT on the handle (`f.c.fstat(f.handle)`); `f.c.stat(f.path)` asks the name.

  `G.seekSends`, `G.seekEndUsesHandleStat`, `G.seekRejectsNegativeFirst`, `G.writeToPresize` and
  `G.writeToSizeOnlyGuess` are read off client.go (`(*File).Seek`, `(*File).stat`, `(*File).WriteTo`) by
  `extract/filemethods.go`.
-/
namespace Sftp.C12
open Sftp

/-! `Transfer.fileStep` computes an end-relative Seek as `seekTarget s.offset sv.data.length off 2`: the size of the
SERVED file, i.e. of the file behind the handle (`C12.seek_spec`, `C12.offset_refines`).  The fact below is what
entitles the model to do so; it belongs with the structural facts of `C12.facts_current`. -/

/-- C12.seek_end_uses_handle_stat — in `(*File).Seek` the `io.SeekEnd` clause has the shape
`X, err := f.<m>(); if err != nil { return f.offset, err }; offset += X.Size()`, the only request-sending call it
reaches is `f.c.fstat(f.handle)` (in `(*File).stat`), no other clause of Seek sends anything, and
`if offset < 0 { return f.offset, os.ErrInvalid }` precedes the single `f.offset = offset`. -/
theorem seek_end_uses_handle_stat :
    G.seekEndUsesHandleStat = true ∧ G.seekSends = ["stat: f.c.fstat(f.handle)"] ∧
    G.seekRejectsNegativeFirst = true := by decide

/-- C12.writeTo_presize_is_only_a_guess — the documented difference: WriteTo's pre-sizing asks the PATH unless
`UseFstat(true)` (or always the handle, the other shape the translator knows), but no assignment to `f.offset`
reachable from WriteTo depends on that size: it only chooses sequential/concurrent and the number of workers. -/
theorem writeTo_presize_is_only_a_guess :
    (G.writeToPresize = "useFstat: f.c.fstat(f.handle); else: f.c.stat(f.path)" ∨
      G.writeToPresize = "f.c.fstat(f.handle)") ∧ G.writeToSizeOnlyGuess = true := by decide

/-- the size source matters (necessity of the fact): with the size of whatever the NAME shows (a 3-byte file rotated in
under the name of the 10-byte file that is open) the end-relative targets differ, and `Seek(-4, io.SeekEnd)` is
rejected although position 6 exists in the open file. -/
theorem size_source_matters :
    Transfer.seekTarget 0 10 0 2 = some 10 ∧ Transfer.seekTarget 0 3 0 2 = some 3 ∧
    Transfer.seekTarget 0 10 (-4) 2 = some 6 ∧ Transfer.seekTarget 0 3 (-4) 2 = some (-1) := by decide

end Sftp.C12
