import Sftp.Props.C06
import Sftp.Props.Known.C06
import Sftp.Proofs.CodecWire
import Sftp.Generated.CodecTables
/-
  C06 for the code as it is now: the generic round trip of Props/C06.lean instantiated with the
  encoder and decoder tables the extractor read off packet.go / server.go and
  internal/encoding/ssh/filexfer (Generated/CodecTables.lean).

  `tablesFit marsh kM unm kU except`: every encoder row and every decoder row that describe the same
  logical packet (`kM`/`kU` map Go type names to packet kinds) have the same wire layout, except for
  the kinds listed in `except`.
-/
namespace Sftp.C06
open Sftp Sftp.Codec

def tablesFit (marsh : List (String × Nat × List FieldD)) (kM : List (String × String))
    (unm : List (String × List FieldD)) (kU : List (String × String)) (except : List String) : Bool :=
  unm.all fun u => marsh.all fun m =>
    match kM.lookup m.1, kU.lookup u.1 with
    | some a, some b => a != b || except.contains a || sameWire m.2.2 u.2
    | _, _ => true

/-- Every decoder row has an encoder row of the same kind (so `tablesFit` is not vacuous). -/
def tablesCover (marsh : List (String × Nat × List FieldD)) (kM : List (String × String))
    (unm : List (String × List FieldD)) (kU : List (String × String)) (except : List String) : Bool :=
  unm.all fun u =>
    match kU.lookup u.1 with
    | some b => except.contains b || marsh.any fun m => kM.lookup m.1 == some b
    | none => false

/-- For the kinds in `ks` the packet.go row is the filexfer row with the trailing `attrs` split into
(flags word, rest). -/
def tablesSplit (main : List (String × List FKind)) (kM : List (String × String))
    (fx : List (String × List FKind)) (kF : List (String × String)) (ks : List String) : Bool :=
  ks.all fun k =>
    (main.any fun m => kM.lookup m.1 == some k) && (fx.any fun f => kF.lookup f.1 == some k) &&
    main.all fun m => fx.all fun f =>
      !(kM.lookup m.1 == some k && kF.lookup f.1 == some k) || decide (m.2 = splitAttrsTail f.2)

/-- If an encoder layout and a decoder layout have the same wire kinds, what the one writes the
other reads back, for every well-formed record. -/
theorem fit_roundtrip (cfg : DecCfg) (M U : List FieldD) (h : sameWire M U = true) (vs : List Val) (bs : Bytes)
    (hwf : Wf M vs) (he : encodeFields M vs = some bs) :
    forget (decodeFields cfg U bs) = some (vs, []) := by
  rw [← decodeFields_sameWire cfg M U h bs, decode_encode cfg M vs bs hwf he]
  rfl

/-- packet.go: every decoder (`UnmarshalBinary`) reads the layout its encoder (`MarshalBinary` /
`marshalPacket`) writes. -/
theorem main_tables_fit :
    tablesFit G.mainMarshal G.kindOfMain G.mainUnmarshal G.kindOfMain [] = true ∧
    tablesCover G.mainMarshal G.kindOfMain G.mainUnmarshal G.kindOfMain ["Extended"] = true := by decide

/-- filexfer: the same. -/
theorem fx_tables_fit :
    tablesFit G.fxMarshal G.kindOfFx G.fxUnmarshal G.kindOfFx [] = true ∧
    tablesCover G.fxMarshal G.kindOfFx G.fxUnmarshal G.kindOfFx [] = true := by decide

/-- Across the codecs: what packet.go writes filexfer reads and vice versa, kind by kind, with the
same wire layout — except OPEN/SETSTAT/FSETSTAT (next theorem) and MKDIR (Known/C06.lean). -/
theorem cross_tables_fit :
    tablesFit G.mainMarshal G.kindOfMain G.fxUnmarshal G.kindOfFx ["Open", "Setstat", "Fsetstat", "Mkdir"] = true ∧
    tablesFit G.fxMarshal G.kindOfFx G.mainUnmarshal G.kindOfMain ["Open", "Setstat", "Fsetstat", "Mkdir"] = true := by
  decide

/-- OPEN/SETSTAT/FSETSTAT: packet.go's rows are filexfer's with the attribute block split into
(flags word, raw rest) — the same bytes by `flags_rest_is_attrs`. -/
theorem cross_tables_attrs_split :
    tablesSplit (G.mainMarshal.map fun m => (m.1, m.2.2.map (·.kind.wire))) G.kindOfMain
      (G.fxUnmarshal.map fun f => (f.1, f.2.map (·.kind.wire))) G.kindOfFx ["Open", "Setstat", "Fsetstat"] = true ∧
    tablesSplit (G.mainUnmarshal.map fun m => (m.1, m.2.map (·.kind.wire))) G.kindOfMain
      (G.fxMarshal.map fun f => (f.1, f.2.2.map (·.kind.wire))) G.kindOfFx ["Open", "Setstat", "Fsetstat"] = true := by
  decide

/-- The MKDIR rows are the ones of Known/C06.lean. -/
theorem mkdir_rows :
    (G.mainMarshal.lookup "sshFxpMkdirPacket").map (·.2.map (·.kind)) = some (Known.mkdirMain.map (·.kind)) ∧
    (G.fxUnmarshal.lookup "MkdirPacket").map (·.map (·.kind)) = some (Known.mkdirFx.map (·.kind)) := by decide

/-- The type byte each codec puts on the wire for a kind is the same. -/
theorem type_bytes_agree :
    (G.mainMarshal.all fun m => G.fxMarshal.all fun f =>
      !(G.kindOfMain.lookup m.1 == G.kindOfFx.lookup f.1 && (G.kindOfMain.lookup m.1).isSome) || m.2.1 == f.2.1) = true := by
  decide

/-! Non-vacuity: READ, written by packet.go and read by filexfer. -/
example : ∃ M U, (G.mainMarshal.lookup "sshFxpReadPacket") = some (5, M) ∧
    G.fxUnmarshal.lookup "ReadPacket" = some U ∧ sameWire M U = true := ⟨_, _, rfl, rfl, by decide⟩

end Sftp.C06
