import Sftp.Proofs.CodecRoundTrip
import Sftp.Proofs.CodecFrame
import Sftp.Proofs.CodecMeter
import Sftp.Generated.Consts
/-
  C06 — Encoding any protocol packet and decoding the resulting bytes yields the same packet, the
  length prefix equals the number of bytes that follow it, the byte layout is that of the SFTP v3
  draft, and the two codecs of the package produce and accept identical bytes.

  Property theorems only.  The codec is the interpreter of Model/Codec.lean; the packet layouts
  it interprets are tables regenerated from the Go source.  The theorems quantify over ALL
  layouts (field lists), all values and all byte strings.
-/
namespace Sftp.C06
open Sftp Sftp.Codec

/-- decode ∘ encode = id, for every layout, every well-formed record and either decoder
configuration; nothing is left over.  (Both the checked and the unchecked Go primitives give the
value back: the `safe` flags of the layout are arbitrary.) -/
theorem decode_encode (cfg : DecCfg) (fs : List FieldD) (vs : List Val) (bs : Bytes)
    (hwf : Wf fs vs) (he : encodeFields fs vs = some bs) :
    decodeFields cfg fs bs = .ok (vs, []) := by
  have h := decode_encode_aux cfg hwf bs [] he (Or.inl rfl)
  rwa [List.append_nil] at h

/-- Trailing bytes after the encoding do not change the decoded fields and are handed back
untouched, for layouts without a greedy (`rest`, `pairs`) field. -/
theorem decode_encode_trailing (cfg : DecCfg) (fs : List FieldD) (vs : List Val) (bs extra : Bytes)
    (hwf : Wf fs vs) (hng : noGreedy fs = true) (he : encodeFields fs vs = some bs) :
    decodeFields cfg fs (bs ++ extra) = .ok (vs, extra) :=
  decode_encode_aux cfg hwf bs extra he (Or.inr hng)

/-- The attribute block round trip on its own, for every flags word (all subsets of the five
defined bits, any other bits preserved) and any number of extended pairs; with the count guard
of `unmarshalFileStat` enabled or not. -/
theorem attrs_decode_encode (cfg : DecCfg) (safe : Bool) (a : Attrs) (h : a.Wf) (extra : Bytes) :
    decAttrs cfg safe (encAttrs a ++ extra) = .ok (a, extra) :=
  decAttrs_enc cfg safe a h extra

/-- The count guard can never reject an encoded block: each pair occupies at least 8 bytes,
each name entry at least 12. -/
theorem pair_min_size (l : List (Bytes × Bytes)) : 8 * l.length ≤ (encPairs l).length := encPairs_length l
theorem name_min_size (l : List NameEntry) : 12 * l.length ≤ (encNames l).length := encNames_length l

/-- The length prefix is the number of bytes that follow it. -/
theorem length_prefix (typ : Nat) (body : Bytes) :
    (frame typ body).take 4 = be32 ((frame typ body).length - 4) := by
  rw [frame_take4, frame_length]
  congr 1
  omega

/-- A sent frame is received as the same (type, payload); what follows it in the stream is left
in the stream. -/
theorem recv_frame (maxLen typ : Nat) (body rest : Bytes)
    (hmax : 1 + body.length ≤ maxLen) (ht : typ < 256) (hl : 1 + body.length < 2^32) :
    recvFrame maxLen (frame typ body ++ rest) = .ok typ body rest := by
  rw [recvFrame, recvFrameL_frame maxLen typ body rest hmax ht hl]

/-- Two layouts with the same sequence of field kinds (whatever their field names and `safe`
flags) encode every record to the same bytes and decode every byte string to the same values
(`forget`: the value of a successful run, `none` for error or panic).  "The two codecs produce
and accept identical bytes" thereby reduces to `sameLayout mainTable fxTable = true`, a `decide`
over the generated tables. -/
theorem layouts_agree (a b : List FieldD) (h : sameLayout a b = true) :
    (∀ vs, encodeFields a vs = encodeFields b vs) ∧
    (∀ cfg bs, forget (decodeFields cfg a bs) = forget (decodeFields cfg b bs)) :=
  ⟨encodeFields_sameLayout a b h, fun cfg => decodeFields_sameLayout cfg a b h⟩

/-- If moreover the `safe` flags coincide the decoders are the same function (errors included). -/
theorem layouts_agree_exact (cfg : DecCfg) (a b : List FieldD)
    (h : a.map (fun f => (f.kind, f.safe)) = b.map (fun f => (f.kind, f.safe))) (bs : Bytes) :
    decodeFields cfg a bs = decodeFields cfg b bs :=
  decodeFields_sameShape cfg a b h bs

/-- OPEN / SETSTAT / FSETSTAT of packet.go keep the attribute block as (flags word, raw rest) and
run `unmarshalFileStat(flags, rest)` later.  Whenever that two-field layout decodes, the input is
exactly `flags ‖ rest`, so decoding the flags and then the rest is decoding an `attrs` field from
the same bytes: on the wire the layouts `…,u32,rest` and `…,attrs` (filexfer) are the same. -/
theorem flags_rest_is_attrs (cfg : DecCfg) (f1 f2 : FieldD) (h1 : f1.kind = .u32) (h2 : f2.kind = .rest)
    (bs : Bytes) (fl : Nat) (body r : Bytes)
    (h : decodeFields cfg [f1, f2] bs = .ok ([.n fl, .b body], r)) : bs = be32 fl ++ body ∧ r = [] :=
  decode_flags_rest cfg f1 f2 h1 h2 bs fl body r h

/-- The attribute flag masks of the Go source are the bits the model tests (v3 draft §5). -/
theorem masks_are_v3 :
    G.sshFileXferAttrSize = 2^0 ∧ G.sshFileXferAttrUIDGID = 2^1 ∧ G.sshFileXferAttrPermissions = 2^2 ∧
    G.sshFileXferAttrACmodTime = 2^3 ∧ G.sshFileXferAttrExtended = 2^31 := by decide

/-! Non-vacuity. -/

/-- SSH_FXP_READ as packet.go lays it out: id, handle, offset, len. -/
def readLayout : List FieldD :=
  [⟨.u32, "ID", true⟩, ⟨.str, "Handle", true⟩, ⟨.u64, "Offset", true⟩, ⟨.u32, "Len", true⟩]

def readRecord : List Val := [.n 7, .b [1, 2, 0xff], .n (2^40 + 5), .n 32768]

theorem readRecord_wf : Wf readLayout readRecord :=
  .cons (.u32 (by decide)) (fun h => by cases h) <|
  .cons (.str (by decide)) (fun h => by cases h) <|
  .cons (.u64 (by decide)) (fun h => by cases h) <|
  .cons (.u32 (by decide)) (fun h => by cases h) .nil

example : encodeFields readLayout readRecord =
    some [0,0,0,7, 0,0,0,3,1,2,0xff, 0,0,1,0,0,0,0,5, 0,0,0x80,0] := by decide

example : decodeFields DecCfg.current readLayout
    [0,0,0,7, 0,0,0,3,1,2,0xff, 0,0,1,0,0,0,0,5, 0,0,0x80,0] = .ok (readRecord, []) :=
  decode_encode _ _ _ _ readRecord_wf (by decide)

/-- All five flag bits set, two extended pairs (one with an empty value, one non-UTF-8). -/
def fullAttrs : Attrs := ⟨0x8000000f, 2^33 + 1, 1000, 100, 0o100644, 10, 20, [([97, 98], []), ([0xff], [0xfe, 0])]⟩

theorem fullAttrs_wf : fullAttrs.Wf := by
  constructor <;> decide

example : encAttrs fullAttrs =
    [0x80,0,0,0x0f, 0,0,0,2,0,0,0,1, 0,0,3,0xe8, 0,0,0,100, 0,0,0x81,0xa4, 0,0,0,10, 0,0,0,20,
     0,0,0,2, 0,0,0,2,97,98, 0,0,0,0, 0,0,0,1,0xff, 0,0,0,2,0xfe,0] := by decide

example : decAttrs DecCfg.current true (encAttrs fullAttrs ++ [9, 9]) = .ok (fullAttrs, [9, 9]) :=
  attrs_decode_encode _ _ _ fullAttrs_wf _

/-- A NAME reply body (id, entries) and WRITE/OPEN-like layouts with a greedy tail. -/
example : Wf [⟨.u32, "ID", true⟩, ⟨.names, "NameAttrs", false⟩]
    [.n 1, .names [⟨[46], [100, 114], fullAttrs⟩, ⟨[], [], ⟨0, 0, 0, 0, 0, 0, 0, []⟩⟩]] :=
  .cons (.u32 (by decide)) (fun h => by cases h) <|
  .cons (.names (by decide) (by
    intro e he
    simp only [List.mem_cons, List.not_mem_nil, or_false] at he
    rcases he with rfl | rfl
    · exact ⟨by decide, by decide, fullAttrs_wf⟩
    · exact ⟨by decide, by decide, by constructor <;> decide⟩)) (fun h => by cases h) .nil

example : Wf [⟨.u32, "ID", true⟩, ⟨.str, "Path", true⟩, ⟨.u32, "Flags", true⟩, ⟨.rest, "Attrs", true⟩]
    [.n 1, .b [47], .n 4, .b [0, 0, 1, 0xa4]] :=
  .cons (.u32 (by decide)) (fun h => by cases h) <|
  .cons (.str (by decide)) (fun h => by cases h) <|
  .cons (.u32 (by decide)) (fun h => by cases h) <|
  .cons .rest (fun _ => rfl) .nil

example : sameLayout readLayout [⟨.u32, "RequestID", true⟩, ⟨.str, "Handle", true⟩, ⟨.u64, "Offset", true⟩,
    ⟨.u32, "Length", true⟩] = true := by decide

example : recvFrame 262144 (frame 5 [0, 0, 0, 7] ++ [1, 2]) = .ok 5 [0, 0, 0, 7] [1, 2] :=
  recv_frame _ _ _ _ (by decide) (by decide) (by decide)

end Sftp.C06
