import Sftp.Props.C19
import Sftp.Generated.ExtReport
/-
  C19, the reporting side — "the extensions a client reports are exactly those the server advertised".

  `Props/C19.lean` proves what `Client.recvVersion` RECORDS (`ext_reported_eq_advertised`: the recorded map,
  looked up with the model's `get`, is the last advertised pair of that name).  What a caller is TOLD, however,
  is the result of `Client.HasExtension`, and what the client itself acts on is `File.Sync`'s guard.  Source
  facts: `Generated/ExtReport.lean` (extract/extreport.go): the body of HasExtension (closed shape
  `data, ok := c.ext[name]; return data, ok` modulo local names), every use of the field `Client.ext`, every
  caller of HasExtension and the shape of File.Sync's guard.
-/
namespace Sftp.C19Report
open Sftp Sftp.Handshake

/-- Go's two-value map lookup followed by returning both values: `data, ok := m[name]; return data, ok`
(the zero value `""` and `false` for a missing key). -/
def commaOk (m : List Pair) (name : Bytes) : Bytes × Bool :=
  match get m name with
  | some d => (d, true)
  | none => ([], false)

/-- what a truthful client tells about `name` when the server listed `ps`: the data of the LAST pair with that
name and `true` — also when that data is empty —, `("", false)` when no pair has that name. -/
def advertised (ps : List Pair) (name : Bytes) : Bytes × Bool :=
  match lastWins ps name with
  | some d => (d, true)
  | none => ([], false)

/-- `Client.HasExtension` as extracted: only the map-lookup shape has a meaning here; for any other body the
model does not know what is reported (`none`), so nothing can be proved about it. -/
def hasExtension (isMapLookup : Bool) (m : List Pair) (name : Bytes) : Option (Bytes × Bool) :=
  if isMapLookup then some (commaOk m name) else none

/-- `File.Sync`'s guard `if data, ok := f.c.HasExtension(name); !ok || data != want { return unsupported }`:
`some true` = the request is sent. -/
def syncSends (isMapLookup : Bool) (m : List Pair) (name want : Bytes) : Option Bool :=
  (hasExtension isMapLookup m name).map fun r => r.2 && decide (r.1 = want)

/-- C19Report.reports_exactly_recorded — `Client.HasExtension` is the two-value lookup in the map that
recvVersion filled, returned unchanged. -/
theorem reports_exactly_recorded :
    G.hasExtensionIsMapLookup = true ∧
    G.hasExtensionShape = "data, ok := c.ext[name]; return data, ok" := by decide

/-- C19Report.ext_uses_closed — the field `Client.ext` is touched in exactly three places: created empty in
newClientPipe, stored into by recvVersion's extension loop, read with the two-value lookup by HasExtension.
Nothing else reads, deletes from, replaces or copies it. -/
theorem ext_uses_closed :
    G.extFieldType = "map[string]string" ∧
    G.extUses.map (fun u => (u.1, u.2.1)) =
      [("newClientPipe", "init"), ("Client.recvVersion", "store"), ("Client.HasExtension", "lookup2")] := by
  decide

/-- C19Report.sync_guard_shape — the only caller of HasExtension inside the package is File.Sync, whose guard
`!ok || data != "1"` on the name "fsync@openssh.com" stands before anything is sent. -/
theorem sync_guard_shape :
    G.hasExtensionCallers.map (·.1) = ["File.Sync"] ∧ G.syncGuardIsPresentAndData = true ∧
    G.syncGuardName = "fsync@openssh.com" ∧ G.syncGuardData = "1" ∧ G.syncGuardBeforeSend = true := by decide

theorem lastWins_isSome_iff (ps : List Pair) (name : Bytes) :
    (lastWins ps name).isSome = true ↔ ∃ p ∈ ps, p.1 = name := by
  induction ps with
  | nil => simp [lastWins]
  | cons p r ih =>
    simp only [lastWins]
    cases h : lastWins r name with
    | some v =>
      rw [h] at ih
      obtain ⟨q, hq, hn⟩ := ih.1 rfl
      exact ⟨fun _ => ⟨q, List.mem_cons_of_mem _ hq, hn⟩, fun _ => rfl⟩
    | none =>
      rw [h] at ih
      by_cases hp : p.1 = name
      · simp [hp]
      · simp only [if_neg hp]
        constructor
        · intro hh; cases hh
        · rintro ⟨q, hq, hn⟩
          rcases List.mem_cons.1 hq with rfl | hq
          · exact absurd hn hp
          · exact absurd (ih.2 ⟨q, hq, hn⟩) (by simp)

theorem lastWins_mem (ps : List Pair) (name d : Bytes) (h : lastWins ps name = some d) : (name, d) ∈ ps := by
  induction ps with
  | nil => cases h
  | cons p r ih =>
    simp only [lastWins] at h
    cases hr : lastWins r name with
    | some v =>
      rw [hr] at h
      cases h
      exact List.mem_cons_of_mem _ (ih hr)
    | none =>
      rw [hr] at h
      by_cases hp : p.1 = name
      · simp only [if_pos hp] at h
        cases h
        obtain ⟨a, b⟩ := p
        cases hp
        exact List.mem_cons_self
      · simp only [if_neg hp] at h
        cases h

/-- C19Report.present_iff_advertised — a name is reported present iff SOME advertised pair has that name
(whatever its data, the empty string included), and the data reported is that of an advertised pair. -/
theorem present_iff_advertised (ps : List Pair) (name : Bytes) :
    ((advertised ps name).2 = true ↔ ∃ p ∈ ps, p.1 = name) ∧
    ((advertised ps name).2 = true → (name, (advertised ps name).1) ∈ ps) ∧
    ((advertised ps name).2 = false → (advertised ps name).1 = []) := by
  unfold advertised
  have hi := lastWins_isSome_iff ps name
  cases h : lastWins ps name with
  | some d =>
    rw [h] at hi
    exact ⟨⟨fun _ => hi.1 rfl, fun _ => rfl⟩, fun _ => lastWins_mem ps name d h, fun hh => (by cases hh)⟩
  | none =>
    rw [h] at hi
    exact ⟨⟨fun hh => (by cases hh), fun hh => absurd (hi.2 hh) (by simp)⟩, fun hh => (by cases hh), fun _ => rfl⟩

/-- C19Report.reported_eq_advertised — for ALL reply types and ALL reply bytes that recvVersion accepts (with the
extracted shape of recvVersion and HasExtension being the map lookup): the reply is a VERSION packet of version 3
listing some pairs `ps`, and for EVERY name HasExtension returns exactly `advertised ps name`: (data of the last
pair with that name, true) or ("", false). -/
theorem reported_eq_advertised (cfg : Cfg) (h1 : cfg.versionTyp = 2) (h2 : cfg.versionSafe = true)
    (h3 : cfg.reject = "!=") (h4 : cfg.version = 3) (isMapLookup : Bool) (hl : isMapLookup = true)
    (typ : Nat) (data : Bytes) (m : List Pair) (h : recvVersion cfg typ data = .ok m) :
    typ = 2 ∧ ∃ ps, WellSized ps ∧ data = versionBody 3 ps ∧
      ∀ name, hasExtension isMapLookup m name = some (advertised ps name) := by
  obtain ⟨ht, ps, w, hd⟩ := (C19.client_accepts_iff_v3 cfg h1 h2 h3 h4 typ data).1 ⟨m, h⟩
  subst ht hd
  obtain ⟨m', hm', hg⟩ := C19.ext_reported_eq_advertised cfg h1 h2 h3 h4 ps w
  rw [hm'] at h
  cases h
  refine ⟨rfl, ps, w, rfl, fun name => ?_⟩
  simp only [hasExtension, hl, if_true, commaOk, advertised, hg]

/-- … and File.Sync sends its request iff the last advertised pair of that name carries exactly the data the
guard asks for. -/
theorem sync_sends_iff (cfg : Cfg) (h1 : cfg.versionTyp = 2) (h2 : cfg.versionSafe = true)
    (h3 : cfg.reject = "!=") (h4 : cfg.version = 3) (isMapLookup : Bool) (hl : isMapLookup = true)
    (ps : List Pair) (w : WellSized ps) (m : List Pair) (h : recvVersion cfg 2 (versionBody 3 ps) = .ok m)
    (name want : Bytes) :
    syncSends isMapLookup m name want = some (decide (lastWins ps name = some want)) := by
  obtain ⟨m', hm', hg⟩ := C19.ext_reported_eq_advertised cfg h1 h2 h3 h4 ps w
  rw [hm'] at h
  cases h
  simp only [syncSends, hasExtension, hl, if_true, commaOk, hg, Option.map_some]
  cases lastWins ps name with
  | none => simp
  | some d => simp

/-- the composed statement for the source as extracted -/
theorem reported_eq_advertised_current (typ : Nat) (data : Bytes) (m : List Pair)
    (h : recvVersion C19.cfgG typ data = .ok m) :
    typ = 2 ∧ ∃ ps, WellSized ps ∧ data = versionBody 3 ps ∧
      ∀ name, hasExtension G.hasExtensionIsMapLookup m name = some (advertised ps name) :=
  reported_eq_advertised C19.cfgG (by decide) (by decide) (by decide) (by decide)
    G.hasExtensionIsMapLookup reports_exactly_recorded.1 typ data m h

/-! non-vacuity -/

/-- ("a@b","1"), ("c",""), ("a@b","2"): "c" is advertised with EMPTY data and is reported present -/
example : recvVersion C19.cfgG 2 (versionBody 3 C19.exPairs) = .ok (store C19.exPairs) := by decide
example : hasExtension G.hasExtensionIsMapLookup (store C19.exPairs) [99] = some ([], true) := by decide
example : hasExtension G.hasExtensionIsMapLookup (store C19.exPairs) [97, 64, 98] = some ([50], true) := by decide
example : hasExtension G.hasExtensionIsMapLookup (store C19.exPairs) [100] = some ([], false) := by decide
example : hasExtension G.hasExtensionIsMapLookup (store C19.exPairs) [] = some ([], false) := by decide
example : advertised C19.exPairs [99] = ([], true) ∧ advertised C19.exPairs [49] = ([], false) := by decide
/-- deciding presence on the data (`return data, data != ""`) is a different function: it denies "c" -/
example : (fun m n => ((commaOk m n).1, (commaOk m n).1 != [])) (store C19.exPairs) [99] ≠
    advertised C19.exPairs [99] := by decide
/-- Sync: ("fsync","1") then ("fsync","") does not send; the other order does -/
example : syncSends true (store [([102], [49]), ([102], [])]) [102] [49] = some false ∧
    syncSends true (store [([102], []), ([102], [49])]) [102] [49] = some true := by decide

end Sftp.C19Report
