import Sftp.Proofs.MultiHandle
/-
  C01 (and the offset part of C12) for SEVERAL handles on the files of a served file system.

  Models: Sftp/Model/MultiHandle.lean — (S) `stepS`/`runS`: POSIX-like names ↦ inodes ↦ bytes, handles hold inodes;
  (I) `stepI`/`runI`: the request server over `InMemHandler` as `request-example.go`, `request.go` and
  `request-server.go` do it, with the switch `replaceOnTrunc` (seed C01_l).  All histories start from the empty file
  system (`SState.init` / `IState.init`): every state of a served file system that the alphabet can produce is the
  end of such a history, so "for every op list" is "for every reachable state".

  Deviations of the code from (S) (modelled in (I), excluded from the refinement by `inScope`, not repaired):
    D1 open(Read, no Write, Creat or Trunc)  → a handle that takes writes
    D2 fstat(h) / Seek(·, SeekEnd)           → answered for the NAME the handle was opened under
    D3 truncate(h, n)                        → done to what that NAME designates now; no write access asked
    D4 read of 0 bytes at / beyond the end   → EOF
    D5 EMPTY write beyond the end            → extends the file with zeros
-/
namespace Sftp.C01Multi
open Sftp Sftp.MultiHandle

/-- the calls on which (I) and (S) agree in EVERY state: no fstat / truncate / Seek from the end (D2, D3), no open
with Read, without Write and with Creat or Trunc (D1), no empty write (D5), no read of 0 bytes (D4) -/
def coreOp : Op → Bool
  | .open _ fl => !(fl.rd && !fl.wr && (fl.creat || fl.trunc))
  | .writeAt _ _ d => !d.isEmpty
  | .write _ d => !d.isEmpty
  | .readAt _ _ len => decide (len ≠ 0)
  | .read _ len => decide (len ≠ 0)
  | .seek _ wh _ => wh != .fromEnd
  | .truncate _ _ => false
  | .fstat _ => false
  | _ => true

theorem coreOp_inScope (s : IState) (op : Op) (h : coreOp op = true) : inScope s op = true := by
  cases op <;> simp only [coreOp, inScope] at h ⊢ <;> (try exact h) <;> (try (split <;> simp_all))

theorem core_scoped (ops : List Op) : ∀ s, (∀ op ∈ ops, coreOp op = true) → scopedRun s ops = true := by
  induction ops with
  | nil => intro s _; rfl
  | cons op r ih =>
    intro s h
    rw [scopedRun, Bool.and_eq_true]
    exact ⟨coreOp_inScope s op (h op (List.mem_cons_self ..)), ih _ (fun o ho => h o (List.mem_cons_of_mem _ ho))⟩

/-! ### (a) refinement -/

/-- C01Multi.impl_refines_spec_partial — for EVERY op list whose steps are within the scope (checked in the state the
code is in at that step): the request server over InMemHandler, as it is (`replaceOnTrunc = false`: O_TRUNC truncates
the object in place), answers exactly what the inode specification answers — every handle number, count, byte, EOF
flag, size, error class and File offset.

PARTIAL: the full statement is `∀ ops, runI false IState.init ops = runS SState.init ops`; it is FALSE for the code as
it is (`deviation_*` below are the witnesses).  Excluded (`inScope`), state-dependent where the deviation is:
  * open with Read, without Write, with Creat or Trunc (D1);
  * fstat(h), seek(h, fromEnd, ·) when the name h was opened under no longer designates h's object (D2);
  * truncate(h, ·) in that case, and through a handle without write access (D3);
  * readAt/read of 0 bytes at or beyond the end of the file (D4);
  * writeAt/write of 0 bytes at an offset beyond the end of the file (D5). -/
theorem impl_refines_spec_partial (ops : List Op) (h : scopedRun IState.init ops = true) :
    runI false IState.init ops = runS SState.init ops :=
  (run_refines ops IState.init h).symm

/-- … and the states correspond at the end (so the refinement goes on for every continuation within the scope). -/
theorem impl_refines_spec_state_partial (ops : List Op) (h : scopedRun IState.init ops = true) :
    (finalI false IState.init ops).abs = finalS SState.init ops :=
  (final_refines ops IState.init h).symm

/-- C01Multi.impl_refines_spec_core — the same for the op SUBSET that needs no look at the state: open (but D1),
non-empty writeAt / write, non-empty readAt / read, seek from the start / the current offset, close, link, rename,
posixRename, remove, cat — in any number, on any number of handles and names, in any order. -/
theorem impl_refines_spec_core (ops : List Op) (h : ∀ op ∈ ops, coreOp op = true) :
    runI false IState.init ops = runS SState.init ops :=
  impl_refines_spec_partial ops (core_scoped ops _ h)

/-- non-vacuity: two handles on one file, a truncating open under them, a hard link, a remove, fstat and truncate
through a handle whose name is still its own -/
example : scopedRun IState.init
    [.open 0 ⟨true, true, true, false, false⟩, .write 0 [1, 2, 3], .open 0 ⟨false, true, false, true, false⟩,
     .link 0 1, .writeAt 1 2 [9], .readAt 0 0 4, .fstat 0, .truncate 1 1, .remove 1, .seek 0 .fromEnd (-1), .read 0 5,
     .close 0, .cat 0] = true := by decide

example : runS SState.init
    [.open 0 ⟨true, true, true, false, false⟩, .write 0 [1, 2, 3], .open 0 ⟨false, true, false, true, false⟩,
     .writeAt 1 2 [9], .readAt 0 0 4, .fstat 0] =
    [.opened 0, .wrote 3 3, .opened 1, .wrote 1 0, .bytes [0, 0, 9] true 3, .size 3 3] := by decide

/-! ### the deviations are real (each history is out of scope, and the two models answer differently) -/

/-- D2: Stat through a File whose name was removed fails on InMemHandler (POSIX: the size of the open file). -/
theorem deviation_fstat_by_name :
    runI false IState.init [.open 0 ⟨true, true, true, false, false⟩, .remove 0, .fstat 0] =
      [.opened 0, .ok, .err .notExist] ∧
    runS SState.init [.open 0 ⟨true, true, true, false, false⟩, .remove 0, .fstat 0] =
      [.opened 0, .ok, .size 0 0] := by decide

/-- D3: Truncate through a File whose name now designates ANOTHER file cuts that other file. -/
theorem deviation_truncate_by_name :
    let hist : List Op :=
      [.open 0 ⟨true, true, true, false, false⟩, .write 0 [1, 2], .posixRename 0 1, .open 0 ⟨true, true, true, false, false⟩,
       .write 1 [5, 6], .truncate 0 1, .cat 0, .cat 1]
    runI false IState.init hist = [.opened 0, .wrote 2 2, .ok, .opened 1, .wrote 2 2, .truncated 2, .content [5], .content [1, 2]] ∧
    runS SState.init hist = [.opened 0, .wrote 2 2, .ok, .opened 1, .wrote 2 2, .truncated 2, .content [5, 6], .content [1]] := by
  decide

/-- D3: Truncate through a read-only File is carried out. -/
theorem deviation_truncate_readonly :
    let hist : List Op :=
      [.open 0 ⟨true, true, true, false, false⟩, .write 0 [1, 2], .open 0 ⟨true, false, false, false, false⟩, .truncate 1 0, .cat 0]
    runI false IState.init hist = [.opened 0, .wrote 2 2, .opened 1, .truncated 0, .content []] ∧
    runS SState.init hist = [.opened 0, .wrote 2 2, .opened 1, .err .access, .content [1, 2]] := by decide

/-- D1: a File opened O_RDONLY|O_CREATE takes writes. -/
theorem deviation_rdonly_creat_writes :
    let hist : List Op := [.open 0 ⟨true, false, true, false, false⟩, .writeAt 0 0 [1], .cat 0]
    runI false IState.init hist = [.opened 0, .wrote 1 0, .content [1]] ∧
    runS SState.init hist = [.opened 0, .err .access, .content []] := by decide

/-- D5: an empty write beyond the end extends the file. -/
theorem deviation_empty_write_extends :
    let hist : List Op := [.open 0 ⟨true, true, true, false, false⟩, .writeAt 0 2 [], .cat 0]
    runI false IState.init hist = [.opened 0, .wrote 0 0, .content [0, 0]] ∧
    runS SState.init hist = [.opened 0, .wrote 0 0, .content []] := by decide

/-- D4: a read of no bytes at the end answers EOF. -/
theorem deviation_empty_read_eof :
    let hist : List Op := [.open 0 ⟨true, true, true, false, false⟩, .readAt 0 0 0]
    runI false IState.init hist = [.opened 0, .bytes [] true 0] ∧
    runS SState.init hist = [.opened 0, .bytes [] false 0] := by decide

/-! ### (b) all handles of a file, and all its names, show the same bytes -/

/-- what a read delivered -/
def payload : Out → Option (Bytes × Bool)
  | .bytes b eof _ => some (b, eof)
  | _ => none

theorem handles_agree_any_state (s : SState) (h1 h2 : Nat) (a b : SHandle)
    (H1 : s.handles h1 = some a) (H2 : s.handles h2 = some b) (ra : a.rd = true) (rb : b.rd = true)
    (same : a.ino = b.ino) (off len : Nat) :
    payload (stepS s (.readAt h1 off len)).2 = some (pread (s.inodes a.ino) off len, decide ((pread (s.inodes a.ino) off len).length < len)) ∧
    payload (stepS s (.readAt h2 off len)).2 = payload (stepS s (.readAt h1 off len)).2 ∧
    ∀ n, find s.names n = some a.ino →
      (stepS s (.cat n)).2 = .content (s.inodes a.ino) ∧
      (stepS s (.open n { rd := true })).2 = .opened s.nextHid ∧
      payload (stepS (stepS s (.open n { rd := true })).1 (.readAt s.nextHid off len)).2 =
        payload (stepS s (.readAt h1 off len)).2 := by
  refine ⟨?_, ?_, ?_⟩
  · simp [stepS, H1, ra, payload]
  · simp [stepS, H1, H2, ra, rb, payload, same]
  · intro n hn
    refine ⟨by simp [stepS, hn], by simp [stepS, sOpen, hn], ?_⟩
    simp [stepS, sOpen, hn, H1, ra, payload]

/-- C01Multi.handles_on_one_file_agree — after ANY op list: through any two open handles with read access that hold
the same file, ReadAt of any (offset, length) delivers the same bytes and the same end-of-file flag — the bytes of the
file at that place —, in whatever modes and under whatever names the two were opened and whatever was renamed or
removed since; and every name of the file holds these bytes (cat), and a fresh read-only open of any of its names
reads them too. -/
theorem handles_on_one_file_agree (ops : List Op) (h1 h2 : Nat) (a b : SHandle) :
    let s := finalS SState.init ops
    s.handles h1 = some a → s.handles h2 = some b → a.rd = true → b.rd = true → a.ino = b.ino →
    ∀ off len : Nat,
      payload (stepS s (.readAt h1 off len)).2 = some (pread (s.inodes a.ino) off len, decide ((pread (s.inodes a.ino) off len).length < len)) ∧
      payload (stepS s (.readAt h2 off len)).2 = payload (stepS s (.readAt h1 off len)).2 ∧
      ∀ n, find s.names n = some a.ino →
        (stepS s (.cat n)).2 = .content (s.inodes a.ino) ∧
        (stepS s (.open n { rd := true })).2 = .opened s.nextHid ∧
        payload (stepS (stepS s (.open n { rd := true })).1 (.readAt s.nextHid off len)).2 =
          payload (stepS s (.readAt h1 off len)).2 := by
  intro s H1 H2 ra rb same off len
  exact handles_agree_any_state s h1 h2 a b H1 H2 ra rb same off len

/-- non-vacuity: f opened twice (read-write, read-only), linked as g, written through the first: the hypotheses hold
for handles 0 and 1 and name g -/
example :
    let s := finalS SState.init [.open 0 ⟨true, true, true, false, false⟩, .open 0 ⟨true, false, false, false, false⟩,
      .link 0 1, .write 0 [4, 5, 6], .remove 0]
    s.handles 0 = some ⟨0, 3, true, true⟩ ∧ s.handles 1 = some ⟨0, 0, true, false⟩ ∧ find s.names 1 = some 0 ∧
    (stepS s (.readAt 1 1 5)).2 = .bytes [5, 6] true 0 := by decide

/-! ### (c) a write is seen through every handle and under every name of the file -/

theorem write_visible_any_state (s : SState) (h : Nat) (w : SHandle) (off : Nat) (d : Bytes)
    (hw : s.handles h = some w) (hwr : w.wr = true) (hd : d ≠ []) :
    (stepS s (.writeAt h off d)).2 = .wrote d.length w.off ∧
    (∀ h2 b, (stepS s (.writeAt h off d)).1.handles h2 = some b → b.rd = true → b.ino = w.ino →
      (stepS (stepS s (.writeAt h off d)).1 (.readAt h2 off d.length)).2 = .bytes d false b.off) ∧
    (∀ n, find (stepS s (.writeAt h off d)).1.names n = some w.ino →
      ∃ c, (stepS (stepS s (.writeAt h off d)).1 (.cat n)).2 = .content c ∧ pread c off d.length = d ∧
        c.length = max (s.inodes w.ino).length (off + d.length)) ∧
    (∀ i, i ≠ w.ino → (stepS s (.writeAt h off d)).1.inodes i = s.inodes i) ∧
    (∀ h2, (stepS s (.writeAt h off d)).1.handles h2 = s.handles h2) ∧
    (stepS s (.writeAt h off d)).1.names = s.names := by
  have hs : stepS s (.writeAt h off d) =
      ({ s with inodes := upd s.inodes w.ino (pwrite (s.inodes w.ino) off d) }, .wrote d.length w.off) := by
    simp [stepS, hw, hwr]
  rw [hs]
  refine ⟨rfl, ?_, ?_, ?_, fun _ => rfl, rfl⟩
  · intro h2 b hb rb same
    simp only at hb
    simp [stepS, hb, rb, same, pread_pwrite _ _ _ hd]
  · intro n hn
    simp only at hn
    exact ⟨pwrite (s.inodes w.ino) off d, by simp [stepS, hn], pread_pwrite _ _ _ hd, length_pwrite _ _ _ hd⟩
  · intro i hi
    exact upd_other _ _ _ _ hi

/-- C01Multi.write_visible_through_every_handle — after ANY op list: a non-empty WriteAt(d, off) through any open
handle with write access returns (len d, nil) and leaves its offset alone; afterwards EVERY open handle with read
access on that file — whatever its mode, name, age — reads exactly d at off (a full read, no EOF); every name of the
file holds a content with d at off and of length max(old length, off + len d); every other file, every handle and every
name is as before. -/
theorem write_visible_through_every_handle (ops : List Op) (h : Nat) (w : SHandle) (off : Nat) (d : Bytes) :
    let s := finalS SState.init ops
    s.handles h = some w → w.wr = true → d ≠ [] →
    (stepS s (.writeAt h off d)).2 = .wrote d.length w.off ∧
    (∀ h2 b, (stepS s (.writeAt h off d)).1.handles h2 = some b → b.rd = true → b.ino = w.ino →
      (stepS (stepS s (.writeAt h off d)).1 (.readAt h2 off d.length)).2 = .bytes d false b.off) ∧
    (∀ n, find (stepS s (.writeAt h off d)).1.names n = some w.ino →
      ∃ c, (stepS (stepS s (.writeAt h off d)).1 (.cat n)).2 = .content c ∧ pread c off d.length = d ∧
        c.length = max (s.inodes w.ino).length (off + d.length)) ∧
    (∀ i, i ≠ w.ino → (stepS s (.writeAt h off d)).1.inodes i = s.inodes i) ∧
    (∀ h2, (stepS s (.writeAt h off d)).1.handles h2 = s.handles h2) ∧
    (stepS s (.writeAt h off d)).1.names = s.names := by
  intro s hw hwr hd
  exact write_visible_any_state s h w off d hw hwr hd

/-- the same for Write at the File offset: the bytes land at the writer's offset, which advances by len d; no other
handle's offset moves -/
theorem write_at_offset_visible (ops : List Op) (h : Nat) (w : SHandle) (d : Bytes) :
    let s := finalS SState.init ops
    s.handles h = some w → w.wr = true → d ≠ [] →
    (stepS s (.write h d)).2 = .wrote d.length (w.off + d.length) ∧
    (stepS s (.write h d)).1.handles h = some { w with off := w.off + d.length } ∧
    (∀ h2, h2 ≠ h → (stepS s (.write h d)).1.handles h2 = s.handles h2) ∧
    (∀ h2 b, (stepS s (.write h d)).1.handles h2 = some b → b.rd = true → b.ino = w.ino →
      (stepS (stepS s (.write h d)).1 (.readAt h2 w.off d.length)).2 = .bytes d false b.off) := by
  intro s hw hwr hd
  have hs : stepS s (.write h d) =
      ({ s with inodes := upd s.inodes w.ino (pwrite (s.inodes w.ino) w.off d),
                handles := upd s.handles h (some { w with off := w.off + d.length }) },
       .wrote d.length (w.off + d.length)) := by
    simp [stepS, hw, hwr]
  rw [hs]
  refine ⟨rfl, by simp, fun h2 hne => upd_other _ _ _ _ hne, ?_⟩
  intro h2 b hb rb same
  simp only at hb
  simp [stepS, hb, rb, same, pread_pwrite _ _ _ hd]

/-- non-vacuity of (c) -/
example :
    let s := finalS SState.init [.open 0 ⟨true, true, true, false, false⟩, .open 0 ⟨true, false, false, false, false⟩]
    s.handles 0 = some ⟨0, 0, true, true⟩ ∧ s.handles 1 = some ⟨0, 0, true, false⟩ ∧
    (stepS (stepS s (.writeAt 0 2 [7])).1 (.readAt 1 0 4)).2 = .bytes [0, 0, 7] true 0 := by decide

/-! ### a file outlives its names; a name created again is another file -/

/-- C01Multi.unlinked_file_lives_recreated_name_is_new — after ANY op list: remove a name while a handle is open on its
file, then create the name again (O_CREATE, any access mode, with or without O_TRUNC/O_EXCL): the open succeeds with a
handle on a file that is NOT the one the older handle holds; the older handle is still there, and its file has the
bytes it had. (With `write_visible_through_every_handle`: nothing written through the new handle reaches the old
file and vice versa.) -/
theorem unlinked_file_lives_recreated_name_is_new (ops : List Op) (h : Nat) (x : SHandle) (n : Name) (fl : Flags) :
    let s := finalS SState.init ops
    s.handles h = some x → find s.names n ≠ none → fl.creat = true → (fl.rd || fl.wr) = true →
    let s1 := (stepS s (.remove n)).1
    let s2 := (stepS s1 (.open n fl)).1
    (stepS s (.remove n)).2 = .ok ∧
    (stepS s1 (.open n fl)).2 = .opened s.nextHid ∧
    (∃ y, s2.handles s.nextHid = some y ∧ y.ino ≠ x.ino ∧ find s2.names n = some y.ino ∧ s2.inodes y.ino = []) ∧
    (h ≠ s.nextHid → s2.handles h = some x) ∧
    s2.inodes x.ino = s.inodes x.ino := by
  intro s hx hn hc hrw
  have wf : WF s := WF.final ops _ WF.init
  have hlt := wf.handles h x hx
  obtain ⟨ino, hino⟩ := Option.ne_none_iff_exists'.mp hn
  have h1 : stepS s (.remove n) = ({ s with names := erase s.names n }, .ok) := by simp [stepS, hino]
  have hfl : (!fl.rd && !fl.wr) = false := by cases hr : fl.rd <;> cases hw : fl.wr <;> simp_all
  simp only [h1]
  have h2 : stepS { s with names := erase s.names n } (.open n fl) =
      ({ names := bind (erase s.names n) n s.nextIno, inodes := upd s.inodes s.nextIno [], nextIno := s.nextIno + 1,
         handles := upd s.handles s.nextHid (some ⟨s.nextIno, 0, fl.rd, fl.wr⟩), nextHid := s.nextHid + 1 },
       .opened s.nextHid) := by
    simp [stepS, sOpen, hfl, find_erase, hc]
  rw [h2]
  refine ⟨trivial, rfl, ⟨⟨s.nextIno, 0, fl.rd, fl.wr⟩, by simp, ?_, by simp [find_bind], by simp⟩, ?_, ?_⟩
  · simp only; omega
  · intro hne; exact (upd_other _ _ _ _ hne).trans hx
  · exact upd_other _ _ _ _ (by omega)

example :
    let s := finalS SState.init [.open 0 ⟨true, true, true, false, false⟩, .write 0 [1, 2]]
    s.handles 0 = some ⟨0, 2, true, true⟩ ∧ find s.names 0 ≠ none := by decide

/-! ### (d) the seeded change C01_l is not a refinement -/

/-- two Files on f, the second one opened with O_TRUNC, a write through the second, a read through the first -/
def seedHistory : List Op :=
  [.open 0 ⟨true, true, true, false, false⟩, .open 0 ⟨false, true, false, true, false⟩, .writeAt 1 0 [7], .readAt 0 0 1]

/-- C01Multi.seed_replace_on_trunc_breaks_refinement — a truncating open that stores a NEW object under the name
(seed C01_l) is not a refinement of the specification: the history is within the scope, the code as it is answers what
the specification answers, the seeded variant serves the older File the orphaned object: every reply of the writes is
still correct, the read through the older File is not (4 steps from the empty file system: 3 to set the scene, 1 to
look). -/
theorem seed_replace_on_trunc_breaks_refinement :
    scopedRun IState.init seedHistory = true ∧
    runI false IState.init seedHistory = runS SState.init seedHistory ∧
    runS SState.init seedHistory = [.opened 0, .opened 1, .wrote 1 0, .bytes [7] false 0] ∧
    runI true IState.init seedHistory = [.opened 0, .opened 1, .wrote 1 0, .bytes [] true 0] := by decide

end Sftp.C01Multi
