import Sftp.Props.C05Composite
/-
  C05 composites — where the client composites are NOT package os, with concrete trees and paths
  (candidate findings; every statement is about `CompositeCfg.current`, the code as it is, and is closed by
  evaluation).  `driver:` lines give the same case for the differential harness.

  K1  RemoveAll on a path that does not exist.  os.RemoveAll: nil ("If the path does not exist, RemoveAll returns
      nil").  Client.RemoveAll: the error of its Lstat (client.go:1082-1085) — os.ErrNotExist.  The doc comment of
      Client.RemoveAll says so ("An error will be returned if no file or directory with the specified path
      exists"), so this is a DOCUMENTED difference; it is the exception in `removeAll_as_os`.
  K2  fine categories lost on the wire (SFTP v3 has no code for EEXIST / ENOTEMPTY / ENOTDIR; server.go
      statusFromError → SSH_FX_FAILURE): os.IsExist is true for os.Remove on a non-empty directory (ENOTEMPTY) and
      for os.MkdirAll through a dangling symbolic link (EEXIST); through the client both are a bare
      *StatusError(FAILURE).  Same category in the property's four-way reading (ok / not-exist / permission /
      other), different in a five-way reading with "exist".
  K3  why the hypotheses of the theorems are needed (each is violated by a plausible variant of the code):
      Stat instead of Lstat in RemoveAll (client.go:1082) — a link to a directory is entered instead of removed;
      no RMDIR fallback with a files-only REMOVE — an empty directory is not removed;
      MkdirAll without the Stat fast path — a file in the way is reported as FAILURE, not ENOTDIR (same category).
-/
namespace Sftp.C05Composite.Known
open Sftp.AbsFS Sftp.Composite Sftp.Spec.OsComposite Sftp.C05Composite

/-- K1.  driver: `c05c.removeall cur d:/a /a/zz` → `d:/a notexist` ; `c05c.os.removeall d:/a /a/zz` → `d:/a ok` -/
theorem removeAll_missing_path :
    removeAll .current wireStd [(["a"], .dir)] ["a", "zz"] = ([(["a"], .dir)], .notExist) ∧
    osRemoveAll [(["a"], .dir)] ["a", "zz"] = ([(["a"], .dir)], .ok) := by decide

/-- K1, missing parent. -/
theorem removeAll_missing_parent :
    (removeAll .current wireStd [] ["a", "zz"]).2 = .notExist ∧ (osRemoveAll [] ["a", "zz"]).2 = .ok := by decide

/-- K1 is the ONLY kind of difference (restating `removeAll_as_os` for today's code): if the results differ in
category, the Lstat of the path said "does not exist". -/
theorem removeAll_only_difference (fs : FS) (hwf : wf fs = true) (p : Path)
    (h : (removeAll .current wireStd fs p).2.cat ≠ osCat (osRemoveAll fs p).2) : (lstat fs p).1 = .errNoEnt := by
  refine Classical.byContradiction fun hne => h ?_
  exact removeAll_category_as_os .current wireStd (fun _ _ => rfl) removeAll_cfg_current fs hwf p (Or.inl hne)

/-- K2.  Remove on a non-empty directory: os says ENOTEMPTY (os.IsExist), the client a plain failure. -/
theorem fine_remove_nonempty :
    let fs : FS := [(["d"], .dir), (["d", "x"], .file)]
    osFine (osRemove fs ["d"]).2 = .exist ∧ (removeC .current wireStd fs ["d"]).2.fine = .other ∧
    (removeC .current wireStd fs ["d"]).2.cat = osCat (osRemove fs ["d"]).2 := by decide

/-- K2.  MkdirAll through a dangling link: os says EEXIST (os.IsExist), the client a plain failure. -/
theorem fine_mkdirAll_dangling :
    let fs : FS := [(["l"], .link ["nowhere"])]
    osFine (osMkdirAll fs ["l"]).2 = .exist ∧ (mkdirAll .current wireStd fs ["l"]).2.fine = .other ∧
    osFine (osMkdirAll fs ["l", "x"]).2 = .exist ∧ (mkdirAll .current wireStd fs ["l", "x"]).2.fine = .other := by
  decide

/-- K3.  RemoveAll that Stats: the link to a directory is entered (in this model: out of model, failure) and
the link stays; os.RemoveAll removes the link and leaves the directory alone. -/
theorem removeAll_stat_variant :
    let fs : FS := [(["d"], .dir), (["d", "x"], .file), (["l"], .link ["d"])]
    let cfg := { CompositeCfg.current with raLstat := false }
    ¬ RemoveAllCfgOk cfg ∧
    (removeAll cfg wireStd fs ["l"]).1 = fs ∧ (removeAll cfg wireStd fs ["l"]).2 = .failure ∧
    osRemoveAll fs ["l"] = ([(["d"], .dir), (["d", "x"], .file)], .ok) ∧
    removeAll .current wireStd fs ["l"] = ([(["d"], .dir), (["d", "x"], .file)], .ok) := by decide

/-- K3.  files-only REMOVE without the RMDIR fallback: an empty directory survives Client.Remove. -/
theorem remove_no_fallback_variant :
    let fs : FS := [(["d"], .dir)]
    let cfg := { CompositeCfg.current with removePkt := .unlink, rmdirPkt := .rmdir, rmFallbackOn := [] }
    ¬ RemoveCfgOk cfg ∧ removeC cfg wireStd fs ["d"] = (fs, .failure) ∧ osRemove fs ["d"] = ([], .ok) := by decide

/-- K3.  MkdirAll without the fast path: a file in the way is FAILURE (from Mkdir's EEXIST), not ENOTDIR. -/
theorem mkdirAll_no_stat_variant :
    let fs : FS := [(["f"], .file)]
    let cfg := { CompositeCfg.current with maStatFirst := false }
    ¬ MkdirAllCfgOk cfg ∧ mkdirAll cfg wireStd fs ["f"] = (fs, .failure) ∧
    mkdirAll .current wireStd fs ["f"] = (fs, .enotdir) ∧ (osMkdirAll fs ["f"]).2 = .errNotDir := by decide

end Sftp.C05Composite.Known
