import Sftp.Props.C20
/-
  C20, known defect F7 (repaired by 9c726cf / 86e58f1): the client decoded replies with the unchecked
  primitives.  The witnesses are stated over a HAND-WRITTEN copy of the programs the extractor produced from the
  pre-fix source (`preFixReplies`, `preFixDecoders`), so this file builds on every tree; `f7Open` says whether the
  tree the tables were generated from still has the defect, and `f7_witness_current` is about the generated
  tables themselves exactly then.
-/
namespace Sftp.C20.Known
open Sftp Sftp.Reply

/-- packet.go before the repair: `code, data := unmarshalUint32(data)` -/
def preFixStatus : List RStep := [.u32 false, .checkId, .u32 false, .strOpt, .peek [.strOpt]]

def preFixDecoders : List (String × List RStep) :=
  [("unmarshalStatus", preFixStatus),
   ("unmarshalAttrs", [.flags true, .call "unmarshalFileStat"]),
   ("unmarshalFileStat", [.ifFlag 1 [.u64 true], .ifFlag 2 [.u32 true, .u32 true], .ifFlag 4 [.u32 true],
      .ifFlag 8 [.u32 true, .u32 true], .ifFlag 2147483648 [.u32 true, .loopCount (some 8) 32 [.str true, .str true]]]),
   ("unmarshalExtensionPair", [.str true, .str true])]

/-- client.go before the repair: the reply cases that decode more than a status, and one status-only case
(every other function had just `[.status]` for type 101, like `Client.Mkdir`). -/
def preFixReplies : List (String × Nat × List RStep) := [
  ("Client.ReadDirContext", 104, [.u32 false, .checkId, .u32 false, .loopCount none 0 [.str false, .str false, .attrs]]),
  ("Client.opendir", 102, [.u32 false, .checkId, .peek [.str false]]),
  ("Client.ReadLink", 104, [.u32 false, .checkId, .u32 false, .checkCountIs 1, .peek [.str false]]),
  ("Client.open", 102, [.u32 false, .checkId, .peek [.str false]]),
  ("Client.RealPath", 104, [.u32 false, .checkId, .u32 false, .checkCountIs 1, .peek [.str false]]),
  ("File.readChunkAt", 103, [.u32 false, .checkId, .u32 false, .sliceLen false]),
  ("File.readAt", 103, [.u32 false, .checkId, .u32 false, .sliceLen false]),
  ("File.WriteTo", 103, [.u32 false, .checkId, .u32 false, .sliceBuf false, .sliceLen false]),
  ("Client.Mkdir", 101, [.status]),
  ("Client.Lstat", 105, [.u32 false, .checkId, .peek [.attrs]]),
  ("File.writeChunkAt", 101, [.peek [.u32 false], .idFromLast, .status])]

/-- the pre-fix table was not all safe (with the 4 bytes `clientConn.recv` guarantees) -/
theorem prefix_replies_not_all_safe :
    ¬ (∀ row ∈ preFixReplies, SafeFrom 4 (inline preFixDecoders row.2.2)) := by decide

/-- … exactly the nine rows with an unchecked operation beyond the id were unsafe; the attribute replies were not -/
theorem prefix_unsafe_rows :
    (preFixReplies.filter (fun row => !decide (SafeFrom 4 (inline preFixDecoders row.2.2)))).map (·.1) =
      ["Client.ReadDirContext", "Client.opendir", "Client.ReadLink", "Client.open", "Client.RealPath",
       "File.readChunkAt", "File.readAt", "File.WriteTo", "Client.Mkdir", "File.writeChunkAt"] := by decide

/-- C20.Known.status_id_only_panics — a STATUS reply that consists of the id only (4 bytes, so `recv` lets it
through) run through the PRE-FIX `unmarshalStatus` program panics: `code, data := unmarshalUint32(data)` on an
empty slice.  `unmarshalStatus` is behind every operation. -/
theorem status_id_only_panics :
    runReplyWith 32768 1 (inline preFixDecoders [.status]) [0, 0, 0, 1] = .panic ∧
    handle preFixReplies preFixDecoders 32768 1 "Client.Mkdir" 101 [0, 0, 0, 1] = .panic ∧
    handle preFixReplies preFixDecoders 32768 1 "File.writeChunkAt" 101 [0, 0, 0, 1] = .panic := by decide

/-- HANDLE whose string length exceeds the data (opendir, open), NAME without a count / with a long name
(ReadLink, RealPath, ReadDirContext), DATA whose length exceeds the data (readChunkAt, the readAt and WriteTo
workers — those two panicked in a background goroutine), DATA longer than the pooled buffer (WriteTo). -/
theorem truncated_replies_panic :
    handle preFixReplies preFixDecoders 32768 1 "Client.opendir" 102 [0,0,0,1, 0,0,0,9, 97] = .panic ∧
    handle preFixReplies preFixDecoders 32768 1 "Client.open" 102 [0,0,0,1, 0,0] = .panic ∧
    handle preFixReplies preFixDecoders 32768 1 "Client.ReadLink" 104 [0,0,0,1] = .panic ∧
    handle preFixReplies preFixDecoders 32768 1 "Client.RealPath" 104 [0,0,0,1, 0,0,0,1, 0,0,0,2, 47] = .panic ∧
    handle preFixReplies preFixDecoders 32768 1 "Client.ReadDirContext" 104 [0,0,0,1, 0,0,0,1, 0,0,0,1, 97] = .panic ∧
    handle preFixReplies preFixDecoders 32768 1 "File.readChunkAt" 103 [0,0,0,1, 0,0,0,5, 1] = .panic ∧
    handle preFixReplies preFixDecoders 32768 1 "File.readAt" 103 [0,0,0,1, 0,0,0,5, 1] = .panic ∧
    handle preFixReplies preFixDecoders 32768 1 "File.WriteTo" 103 [0,0,0,1, 0,0,0,5, 1] = .panic ∧
    handle preFixReplies preFixDecoders 4 1 "File.WriteTo" 103 [0,0,0,1, 0,0,0,5, 1,2,3,4,5] = .panic := by
  decide

/-- the same replies are errors, not panics, once every unchecked operation beyond the id is replaced by its
checked variant (the shape of the repair) -/
theorem repaired_shape_errs :
    runReplyWith 32768 1 (inline [("unmarshalStatus", [.u32 false, .checkId, .u32 true, .strOpt, .peek [.strOpt]])]
      [.status]) [0, 0, 0, 1] = .err "short" ∧
    runReplyWith 32768 1 [.u32 false, .checkId, .peek [.str true]] [0,0,0,1, 0,0,0,9, 97] = .err "short" ∧
    runReplyWith 4 1 [.u32 false, .checkId, .u32 true, .sliceBuf true, .sliceLen true]
      [0,0,0,1, 0,0,0,5, 1,2,3,4,5] = .err "short" := by decide

/-- is the defect present in the source the tables were generated from?  (an unchecked operation that the
4 bytes guaranteed by `clientConn.recv` do not cover) -/
def f7Open : Bool := G.uncheckedSites.any (fun s => !s.2.2.2)

/-- on every tree the extractor's list of unchecked sites and the model's safety check of the generated programs
agree: the defect is open iff some generated reply program is not safe. -/
theorem f7_open_iff_unsafe :
    f7Open = true ↔
      ¬ (∀ row ∈ G.clientReplies, SafeFrom G.recvGuaranteedLen (inline G.decoderProgs row.2.2)) := by decide

end Sftp.C20.Known
