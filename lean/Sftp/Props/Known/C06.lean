import Sftp.Props.C06
/-
  C06, known difference between the two codecs: SSH_FXP_MKDIR.

  packet.go's `sshFxpMkdirPacket` is (id, path, uint32 "Flags"): the encoder writes the flags word
  of the attribute block and NO attribute fields, the decoder reads the flags word and ignores what
  follows.  filexfer's `MkdirPacket` (and the v3 draft) is (id, path, ATTRS).  The bytes coincide
  exactly when the flags word is 0 — which is what `Client.Mkdir` sends.
-/
namespace Sftp.C06.Known
open Sftp Sftp.Codec

def mkdirMain : List FieldD := [⟨.u32, "ID", true⟩, ⟨.str, "Path", true⟩, ⟨.u32, "Flags", true⟩]
def mkdirFx : List FieldD := [⟨.u32, "RequestID", true⟩, ⟨.str, "Path", true⟩, ⟨.attrs, "Attrs", true⟩]

theorem mkdir_layouts_differ : sameLayout mkdirMain mkdirFx = false := by decide

/-- Same bytes when no attribute is present. -/
theorem mkdir_agree_on_empty_attrs (id : Nat) (path : Bytes) :
    encodeFields mkdirMain [.n id, .b path, .n 0] =
      encodeFields mkdirFx [.n id, .b path, .attrs ⟨0, 0, 0, 0, 0, 0, 0, []⟩] := rfl

/-- A packet.go MKDIR with Flags = 4 (permissions) is accepted by packet.go's decoder and refused by
the filexfer / draft layout: the permission word announced by the flags is not there. -/
theorem mkdir_disagree_witness :
    (∃ bs, encodeFields mkdirMain [.n 1, .b [47, 100], .n 4] = some bs ∧
      decodeFields DecCfg.current mkdirMain bs = .ok ([.n 1, .b [47, 100], .n 4], []) ∧
      decodeFields DecCfg.currentFx mkdirFx bs = .err shortPacket) :=
  ⟨[0, 0, 0, 1, 0, 0, 0, 2, 47, 100, 0, 0, 0, 4], by decide, by decide, by decide⟩

/-- In the other direction packet.go's decoder takes the flags word and leaves the attribute
fields as unread trailing bytes. -/
example : decodeFields DecCfg.current mkdirMain [0, 0, 0, 1, 0, 0, 0, 1, 47, 0, 0, 0, 4, 0, 0, 1, 0xed] =
    .ok ([.n 1, .b [47], .n 4], [0, 0, 1, 0xed]) := by decide

end Sftp.C06.Known
