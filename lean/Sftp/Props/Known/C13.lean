import Sftp.Model.Transfer
import Sftp.Spec.OsFile
/-
  Known defect F6 (C13, also C01/C12): sequential File.ReadFrom does
      m, err2 := f.writeChunkAt(ch, b[:n], f.offset); f.offset += int64(m)
      if err == nil { err = err2 }
  where `err` is io.ReadFull's error.  On the last, short chunk `err` is io.ErrUnexpectedEOF,
  so a failing WRITE (`err2`) is dropped and the call returns `(read, nil)`.
-/
namespace Sftp.C13.Known
open Sftp Sftp.Transfer Sftp.Spec.OsFile

def cfg4 : Cfg := { Cfg.current with maxPacket := 4, maxTx := 4 }

/-- The server rejects the WRITE at offset 4 with status code 9. -/
def sv : Served := { data := [], wrFail := fun o => if o = 4 then some 9 else none }

/-- C13.Known.readFrom_masks_write_error — 6 source bytes, packets of 4, the WRITE of the last
(2-byte) chunk fails: ReadFrom returns count 6 and a NIL error although only 4 bytes were stored;
the File offset is 4. A short transfer comes with a nil error. -/
theorem readFrom_masks_write_error :
    cfg4.readFromMasksWriteErr = true ∧
    (let r := fileStep cfg4 sv {} (.readFrom (pat 1 6) false)
     r.2.1.n = 6 ∧ r.2.1.err = none ∧ r.2.2.data = pat 1 4 ∧ r.1.offset = 4) := by decide

/-- With the masking repaired the same call reports the server's error. -/
theorem readFrom_repaired :
    (fileStep { cfg4 with readFromMasksWriteErr := false } sv {} (.readFrom (pat 1 6) false)).2.1.err
      = some (.srv 9) := by decide

/-- The concurrent discipline is not affected. -/
example : (fileStep cfg4 sv {} (.readFromConc (pat 1 6) 2)).2.1.err = some (.srv 9) := by decide

end Sftp.C13.Known
