import Sftp.Model.Pipe
/-
  STATUS: repaired in /repo (the `fini` branch now drains both channels and sends, Serve waits for the controller);
  the full-strength theorem is `Sftp.C02.every_request_answered`.  What follows is the witness for the PINNED
  controller, `PipeCfg.pinned` = today's configuration with `drainOnFini := false`.

  C02, known finding F5: the controller's `select` may take the `fini` branch while a response is still queued
  on the `responses` channel, so the answer to the last request(s) before EOF can be lost.
  (`packetManager.close` waits for `working` = 0, and `readyPacket` calls `working.Done()` right after the
  channel send — but the send only puts the packet INTO the buffered channel; the controller has not
  necessarily taken it out when `fini` is closed, and `select` chooses among ready cases at random.)
-/
namespace Sftp.C02.Known
open Sftp.Pipe

/-- One STAT-like request (id 5): received, dispatched, handled, readied (WaitGroup back to 0); then the input
closes, the dispatcher shuts down and the controller takes `fini` first.  One request received, none answered,
the response is still sitting in the `responses` channel. -/
theorem drop_witness :
    (run .pinned (init .pinned)
      [.recv ⟨5, .cmd⟩, .dispatch, .cmdTake, .cmdHandle, .cmdReady, .closeInput, .dispatcherShutdown,
       .ctlFini]).map (fun s => (s.received.length, s.sent.length, s.respInbox, s.controllerStopped, s.working))
      = some (1, 0, [⟨1, 5, .cmd⟩], true, 0) := by decide

/-- and from there nothing the controller could do is enabled any more -/
theorem drop_is_final :
    ((run .pinned (init .pinned)
      [.recv ⟨5, .cmd⟩, .dispatch, .cmdTake, .cmdHandle, .cmdReady, .closeInput, .dispatcherShutdown,
       .ctlFini]).bind (fun s => step .pinned s .ctlTakeResp)).isNone = true := by decide

end Sftp.C02.Known
