import Sftp.Model.Transfer
import Sftp.Spec.OsFile
/-
  Known defect F12 (C12): the reduce loop of the concurrent WriteTo assigns
  `f.offset = packet.off + int64(len(packet.b))` for EVERY packet, including the final one that
  only carries io.EOF.  That packet's offset is the next multiple of the chunk size at or above
  the end of the file, so the File offset ends beyond the bytes transferred.
-/
namespace Sftp.C12.Known
open Sftp Sftp.Transfer Sftp.Spec.OsFile

/-- Today's behaviour with packets of 4 bytes (client and server). -/
def cfg4 : Cfg := { Cfg.current with maxPacket := 4, maxTx := 4 }

/-- C12.Known.writeTo_offset_witness — 10-byte file, packets of 4: WriteTo delivers all 10 bytes
with a nil error, yet leaves the File offset at 12; the os.File reference is at 10.  A following
Write would leave a 2-byte hole. -/
theorem writeTo_offset_witness :
    cfg4.writeToMovesOnEmpty = true ∧
    (let r := fileStep cfg4 { data := pat 0 10 } {} .writeTo
     r.1.offset = 12 ∧ r.2.1.n = 10 ∧ r.2.1.err = none ∧ r.2.1.data = pat 0 10 ∧
     (osStep 10 true {} .writeTo r.2.1.n).offset = 10) := by decide

/-- The same input with the repaired assignment (only for a non-empty packet) ends at 10. -/
theorem writeTo_offset_repaired :
    (fileStep { cfg4 with writeToMovesOnEmpty := false } { data := pat 0 10 } {} .writeTo).1.offset = 10 := by
  decide

/-- When the size is a multiple of the packet size the defect is invisible. -/
example : (fileStep cfg4 { data := pat 0 8 } {} .writeTo).1.offset = 8 := by decide

end Sftp.C12.Known
