import Sftp.Props.C10
/-
  C10, known finding F8: statusFromError WITHOUT an os.IsPermission test (server.go before the repair) answers the
  permission family with SSH_FX_FAILURE wherever translateSyscallError does not see the errno: bare
  os.ErrPermission, os.ErrPermission inside any os wrapper, EACCES / EPERM inside *LinkError or *SyscallError.
  The client then returns a *StatusError(FAILURE) where the property asks for os.ErrPermission.

  The witnesses are stated for the hand-written pre-repair configuration `cfgUnfixed` (so this file builds on every
  tree) and, conditionally, for the generated configuration: `f8_witness_current` applies exactly when the
  extractor finds the pre-repair statement list in the source (`f8Open = true`).
-/
namespace Sftp.C10.Known
open Sftp Sftp.Err Sftp.Spec.Err

/-- `os.Link` failing with EACCES (a *LinkError) — or any handler returning it: FAILURE instead of permission. -/
theorem f8_witness :
    statusFromError cfgUnfixed (.linkError (.errno 13)) = (4, true) ∧
    normalise norm (statusFromError cfgUnfixed (.linkError (.errno 13))).1 = .failure ∧
    kindOf (.linkError (.errno 13)) = .permission ∧ inFamilies (.linkError (.errno 13)) = true := by decide

/-- the other shapes -/
theorem f8_witnesses :
    (statusFromError cfgUnfixed .osErrPermission).1 = 4 ∧
    (statusFromError cfgUnfixed (.pathError .osErrPermission)).1 = 4 ∧
    (statusFromError cfgUnfixed (.linkError .osErrPermission)).1 = 4 ∧
    (statusFromError cfgUnfixed (.syscallError .osErrPermission)).1 = 4 ∧
    (statusFromError cfgUnfixed (.linkError (.errno 1))).1 = 4 ∧
    (statusFromError cfgUnfixed (.syscallError (.errno 13))).1 = 4 ∧
    (statusFromError cfgUnfixed (.syscallError (.errno 1))).1 = 4 := by decide

/-- the permission errors that DO arrive as such without the test: EACCES / EPERM bare or inside *PathError -/
theorem f8_not_affected :
    (statusFromError cfgUnfixed (.errno 13)).1 = 3 ∧ (statusFromError cfgUnfixed (.errno 1)).1 = 3 ∧
    (statusFromError cfgUnfixed (.pathError (.errno 13))).1 = 3 ∧
    (statusFromError cfgUnfixed (.pathError (.errno 1))).1 = 3 := by decide

/-- is the defect present in the source the tables were generated from? -/
def f8Open : Bool := decide (G.errCfg.tests = testsUnfixed)

/-- on such a tree the witness is about the generated tables themselves -/
theorem f8_witness_current (h : f8Open = true) :
    normalise G.normCfg (statusFromError G.errCfg (.linkError (.errno 13))).1 = .failure ∧
    kindOf (.linkError (.errno 13)) = .permission := by
  have hu : G.errCfg.tests = testsUnfixed := by simpa [f8Open] using h
  have hc := cfg_eq_unfixed Sftp.C10.tables_ok.2.1 hu
  rw [hc.1, hc.2]
  decide

end Sftp.C10.Known
