import Sftp.Model.LsMode
/-
  C17, REPAIRED defect (fix commit 286d03f in /repo): long name and attributes of one listing entry
  named different owners.

  Before the fix `runLs` took the owner from `Sys()` when that was one of the package's own attribute
  types (`*FileStat`, `*sshfx.Attributes`) BEFORE it looked for `FileInfoUidGid`, while
  `fileStatFromInfo` lets `FileInfoUidGid` override everything and never reads those two types.  A
  request-server handler that proxies another SFTP server (its `os.FileInfo` values come from
  `Client.ReadDir`, so `Sys()` is a `*FileStat`) and maps owners through `Uid()`/`Gid()` therefore
  sent, in one SSH_FXP_NAME entry, the mapped owner in the attributes and the upstream owner in the
  long name.  The witness is stated on the hand-written PRE-FIX source order (closed terms): it
  documents the defect and does not depend on the current tree; on the current tree
  `Sftp.C17.longname_owner_agrees` holds for every shape.
-/
namespace Sftp.C17.Known
open Sftp

/-- `fileStatFromInfo` (unchanged by the fix): Stat_t first, the interface overrides -/
def attrsSteps : List OwnerSrc := [.sysType "*syscall.Stat_t" true, .iface "FileInfoUidGid" true]

/-- `runLs` before 286d03f: the Sys() type switch first, the interface only in its default clause -/
def preFixLsOrder : List OwnerSrc :=
  [.sysType "*sshfx.Attributes" true, .sysType "*FileStat" true, .iface "FileInfoUidGid" true,
   .sysType "*syscall.Stat_t" true]

/-- `runLs` since 286d03f -/
def fixedLsOrder : List OwnerSrc :=
  [.iface "FileInfoUidGid" true, .sysType "*sshfx.Attributes" true, .sysType "*FileStat" true,
   .sysType "*syscall.Stat_t" true]

def proxied : InfoShape := ⟨"*FileStat", (1001, 1002), ["FileInfoUidGid"], (4242, 4343)⟩

/-- pre-fix: attributes carry the mapped owner, the long name the owner found in `Sys()` -/
theorem longname_owner_disagreed_witness :
    lsSysFirst preFixLsOrder = ["*sshfx.Attributes", "*FileStat"] ∧
      attrsOwner attrsSteps proxied = some (4242, 4343) ∧
      lsOwner preFixLsOrder proxied = (1001, 1002) := by decide

/-- the same entry with the repaired order -/
theorem longname_owner_repaired_witness :
    attrsOwner attrsSteps proxied = some (4242, 4343) ∧ lsOwner fixedLsOrder proxied = (4242, 4343) := by
  decide

end Sftp.C17.Known
