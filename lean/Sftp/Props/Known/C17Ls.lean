import Sftp.Props.C17Ls
/-
  C17, known difference between the long name and the attributes of one listing entry.

  `runLs` takes the owner from `Sys()` when that is one of the package's own attribute types
  (`*FileStat`, `*sshfx.Attributes`) BEFORE it looks for `FileInfoUidGid`; `fileStatFromInfo` lets
  `FileInfoUidGid` override everything and never reads those two types.  A request-server handler that
  proxies another SFTP server (its `os.FileInfo` values come from `Client.ReadDir`, so `Sys()` is a
  `*FileStat`) and maps owners through `Uid()`/`Gid()` therefore sends, in one SSH_FXP_NAME entry,
  the mapped owner in the attributes and the upstream owner in the long name.
-/
namespace Sftp.C17.Known
open Sftp

def proxied : InfoShape := ⟨"*FileStat", (1001, 1002), ["FileInfoUidGid"], (4242, 4343)⟩

/-- attributes: the mapped owner; long name: the owner found in `Sys()` -/
theorem longname_owner_disagrees_witness :
    proxied.sysTy ∈ lsSysFirst G.lsOwnerOrder ∧
      attrsOwner G.attrsOwnerSteps proxied = some (4242, 4343) ∧
      lsOwner G.lsOwnerOrder proxied = (1001, 1002) := by decide

/-- Without the interface the attributes of such an entry carry no owner at all while the long name
shows the one in `Sys()` (no contradiction, but the structured owner is lost). -/
example : attrsOwner G.attrsOwnerSteps ⟨"*FileStat", (1001, 1002), [], (0, 0)⟩ = none ∧
    lsOwner G.lsOwnerOrder ⟨"*FileStat", (1001, 1002), [], (0, 0)⟩ = (1001, 1002) := by decide

end Sftp.C17.Known
