import Sftp.Props.C08
/-
  C08, known defect F2: the filexfer attribute decoder allocates `count` elements before looking
  at the bytes that should hold them.  These statements describe the code AS IT IS (fxCountGuard =
  false); they are the negation of `alloc_linear`'s conclusion for that configuration.
-/
namespace Sftp.C08.Known
open Sftp Sftp.Codec

/-- Eight bytes (flags = EXTENDED, count = 0x0fffffff) make `Attributes.XXX_UnmarshalByFlags`
request 32·0x0fffffff bytes (8.5 GB) — and then report "packet too short". -/
theorem fx_alloc_witness :
    decodeMeter DecCfg.currentFx [⟨.attrs, "Attrs", true⟩] [0x80, 0, 0, 0, 0x0f, 0xff, 0xff, 0xff]
      ≥ 32 * 0x0fffffff ∧
    decodeFields DecCfg.currentFx [⟨.attrs, "Attrs", true⟩] [0x80, 0, 0, 0, 0x0f, 0xff, 0xff, 0xff]
      = .err shortPacket := by
  decide

/-- So the linear bound fails for the current filexfer configuration: 8 input bytes, one field. -/
theorem fx_alloc_not_linear :
    ¬ (decodeMeter DecCfg.currentFx [⟨.attrs, "Attrs", true⟩] [0x80, 0, 0, 0, 0x0f, 0xff, 0xff, 0xff]
        ≤ 9 * 8 + 96 * 1) := by
  decide

/-- The same for the name list: `make([]*NameEntry, 0, count)` with count = 0xffffffff. -/
theorem fx_names_alloc_witness :
    decodeMeter DecCfg.currentFx [⟨.names, "Entries", true⟩] [0xff, 0xff, 0xff, 0xff] ≥ 8 * 0xffffffff := by
  decide

/-- With the guard the same input is refused before anything is allocated. -/
example : decodeMeter ⟨true, true, true⟩ [⟨.attrs, "Attrs", true⟩] [0x80, 0, 0, 0, 0x0f, 0xff, 0xff, 0xff] = 0 := by
  decide

/-- The main codec's decoder refuses it too (it only pays for the `FileStat`). -/
example : decodeMeter DecCfg.current [⟨.attrs, "Attrs", true⟩] [0x80, 0, 0, 0, 0x0f, 0xff, 0xff, 0xff] = 64 := by
  decide

end Sftp.C08.Known
