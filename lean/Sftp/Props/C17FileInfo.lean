import Sftp.Model.FileInfoAcc
import Sftp.Generated.FileInfoAcc
/-
  C17 / C05 / C16 — the os.FileInfo the client hands out obeys `IsDir() == Mode().IsDir()` (source shape of seeded defects
  C05_j, C16_i, C17_i: `(*fileInfo).IsDir` tested the wire mode word with `& S_IFDIR`; S_IFSOCK = 0o140000 and
  S_IFBLK = 0o060000 contain that bit.  The differential harness caught them, no extracted fact covered them).

  Facts: `Generated/FileInfoAcc.lean` (translator unit FileInfoAcc, /verif/extract/round5.go): the body of every method
  of the client-side `fileInfo` (attrs.go), the two FileStat helpers they delegate to, and — by callee objects of
  go/types — that IsDir is `<receiver>.Mode().IsDir()` and Mode is `toFileMode(<receiver>.stat.Mode)`.

  `toFileMode` itself is the subject of Props/C17 (`toFileMode_is_reference`: equal to `Spec.Mode.toOs` on every 16-bit
  word); here it is a parameter `conv` with exactly that hypothesis, so this module depends on no other generated file.
-/
namespace Sftp.C17FileInfo
open Sftp Sftp.Spec.Mode Sftp.FileInfoAcc

/-- the IsDir variant in the tree -/
def isDirImpl : Option IsDirImpl := implOf G.fileInfoMethods G.isDirViaMode G.modeViaToFileMode

/-- C17FileInfo.fileinfo_accessors_as_spec — attrs.go: `fileInfo` is (name, stat *FileStat); its methods are exactly
Name = the stored base name, Size = int64(stat.Size), Mode = stat.FileMode() = toFileMode(stat.Mode),
ModTime = stat.ModTime() = time.Unix(int64(Mtime), 0), IsDir = Mode().IsDir(), Sys = the stat itself; the only place a
fileInfo is made is fileInfoFromStat, which stores its two arguments. -/
theorem fileinfo_accessors_as_spec :
    G.fileInfoFields = [("name", "string"), ("stat", "*FileStat")] ∧
    G.fileInfoMethods = expectedMethods ∧
    G.fileStatHelpers = [("FileStat.FileMode", "return toFileMode(fs.Mode)"),
                         ("FileStat.ModTime", "return time.Unix(int64(fs.Mtime), 0)")] ∧
    G.isDirViaMode = true ∧ G.modeViaToFileMode = true ∧
    G.fileInfoCtor = "&fileInfo{ name: name, stat: stat, }" ∧ G.fileInfoLiteralSites = ["fileInfoFromStat"] := by
  decide

/-- C17FileInfo.isdir_agrees_with_mode — with the IsDir the tree holds (`isDirImpl`, from the extracted shape), for every
conversion `conv` that is the reference on 16-bit words (Props/C17 `toFileMode_is_reference` for the tree's toFileMode)
and EVERY wire mode word w < 2^16: `fi.IsDir()` = `fi.Mode().IsDir()`, and it is true exactly when the type nibble of w is
S_IFDIR — not for sockets, block devices or the unassigned nibbles that merely contain the S_IFDIR bit. -/
theorem isdir_agrees_with_mode :
    ∃ impl, isDirImpl = some impl ∧
      ∀ (conv : Nat → Nat), (∀ m, m < 65536 → conv m = toOs m) →
        ∀ w, w < 65536 →
          isDir impl conv w = osIsDir (conv w) ∧
          (isDir impl conv w = true ↔ w &&& S_IFMT = S_IFDIR) := by
  refine ⟨.viaMode, by decide, ?_⟩
  intro conv hconv w hw
  refine ⟨rfl, ?_⟩
  show osIsDir (conv w) = true ↔ _
  rw [hconv w hw, toOs_isDir]
  simp

/-- non-vacuity: the reference conversion is such a `conv`; a setgid directory is one, a socket is not -/
example : (∀ m, m < 65536 → toOs m = toOs m) ∧ isDir .viaMode toOs 0o042755 = true ∧ isDir .viaMode toOs 0o140755 = false :=
  ⟨fun _ _ => rfl, by decide, by decide⟩

/-! ### the seeded shape (hand-written parameter, so this part builds on every tree) -/

/-- C17FileInfo.seed_bit_test_misclassifies_socket_and_blockdev — seeds C05_j / C16_i / C17_i
(`fi.stat.Mode&s_IFDIR != 0`): a unix socket srwxr-xr-x and a block device brw-rw---- report IsDir() = true while Mode()
of the same entry says socket / device (Mode().IsDir() = false). -/
theorem seed_bit_test_misclassifies_socket_and_blockdev :
    isDir (.bitTest S_IFDIR) toOs (S_IFSOCK ||| 0o755) = true ∧ osIsDir (toOs (S_IFSOCK ||| 0o755)) = false ∧
    toOs (S_IFSOCK ||| 0o755) = (ModeSocket ||| 0o755) ∧
    isDir (.bitTest S_IFDIR) toOs (S_IFBLK ||| 0o660) = true ∧ osIsDir (toOs (S_IFBLK ||| 0o660)) = false ∧
    toOs (S_IFBLK ||| 0o660) = (ModeDevice ||| 0o660) := by
  decide

/-- C17FileInfo.seed_bit_test_differs_exactly_on_bit14_nibbles — for every word, the bit test differs from
Mode().IsDir() exactly when the type nibble contains the S_IFDIR bit without being S_IFDIR (socket, block device and
the unassigned nibbles 5, 7, 13, 14, 15); on regular files, directories, symlinks, fifos and character devices — all
the existing suite ever lists — the two agree, which is why only a socket / block device in the tree shows the defect. -/
theorem seed_bit_test_differs_exactly_on_bit14_nibbles (w : Nat) :
    (isDir (.bitTest S_IFDIR) toOs w ≠ isDir .viaMode toOs w) ↔
      ((w &&& S_IFMT).testBit 14 = true ∧ w &&& S_IFMT ≠ S_IFDIR) := by
  rw [bitTest_ifdir, testBit14_nibble]
  show ((w &&& S_IFMT).testBit 14 ≠ osIsDir (toOs w)) ↔ _
  rw [toOs_isDir]
  by_cases h : w &&& S_IFMT = S_IFDIR
  · rw [h]; decide
  · cases hb : (w &&& S_IFMT).testBit 14 <;> simp [h]

/-- the five kinds the suite lists are on the agreeing side -/
example : [S_IFREG, S_IFDIR, S_IFLNK, S_IFIFO, S_IFCHR].all
    (fun t => isDir (.bitTest S_IFDIR) toOs (t ||| 0o644) == isDir .viaMode toOs (t ||| 0o644)) = true := by decide

end Sftp.C17FileInfo
