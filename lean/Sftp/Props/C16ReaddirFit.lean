import Sftp.Generated.SrvReaddir
import Sftp.Generated.Consts
/-
  READDIR batch × frame limit of the os-backed server (server.go, packet.go, ls_formatting.go) — two cooperating
  constants no other extracted fact relates (seeded defects C16_d, C05_e).  Facts: `Generated/SrvReaddir.lean`
  (translator unit SrvReaddir, /verif/extract/srvlifetimes.go part D) and `Generated/Consts.lean` (maxMsgLength).
-/
namespace Sftp.C16ReaddirFit
open Sftp

/-! ## D. READDIR batch × frame limit (os-backed server)

`(*sshFxpReaddirPacket).respond` puts a whole `f.Readdir(N)` batch into ONE NAME packet without looking at its size;
every receiver of the package refuses a frame whose length word exceeds `maxMsgLength` (`recvPacket`, and then drops
the connection).  Cost of one entry, from the encoders:

    sshFxpNameAttr.MarshalBinary   marshalString(Name) + marshalString(LongName) + marshal(Attrs…)
                                   = 4 + |name|  +  4 + |longname|  +  attrs
    runLs  "%s %4d %-8s %-8s %8d %s %5s %s"   longname = columns + name:
           mode 10 (FileMode.String, C17Ls) ␣ links ≤ 20 (uint64, %4d) ␣ owner ␣ group ␣ size ≤ 20 (int64, %8d) ␣
           date ≤ 6 ("Jan _2" / "Jan 22") ␣ year-or-time ≤ 12 ("15:04", "2006"; generous for any int64 second) ␣ name
    marshalFileInfo / marshalFileStat without extended pairs: flags 4 + size 8 + uid,gid 8 + mode 4 + times 8 = 32
    sshFxpNamePacket.marshalPacket length word counts: type 1 + id 4 + count 4 = 9  (HEADER)

ASSUMPTIONS (explicit): a directory entry's name is at most NAME_MAX = 255 bytes (Linux); owner and group NAMES are
at most 32 bytes (what shadow-utils' useradd / groupadd accept; numeric ids are at most 10 digits) — the variant
`os_name_reply_fits_long_owner_names` allows 255-byte owner and group names (glibc's LOGIN_NAME_MAX − 1) as well;
os.FileInfo of a real directory entry carries no extended attribute pairs. -/

def nameMax : Nat := 255
def ownerMax : Nat := 32
def ownerMaxLong : Nat := 255
/-- columns of the long name in front of the name, separators included -/
def lsColsMax (owner : Nat) : Nat := 10 + 1 + 20 + 1 + owner + 1 + owner + 1 + 20 + 1 + 6 + 1 + 12 + 1
def attrsMax : Nat := 32
/-- per entry, beyond the two copies of the name: two length words, the long-name columns, the attribute block -/
def OVERHEAD : Nat := 4 + 4 + lsColsMax ownerMax + attrsMax
def OVERHEAD_LONG : Nat := 4 + 4 + lsColsMax ownerMaxLong + attrsMax
/-- what the frame's length word counts besides the entries -/
def HEADER : Nat := 1 + 4 + 4

/-- C16ReaddirFit.name_entry_encoding_as_assumed — the shapes the cost formula is read from. -/
theorem name_entry_encoding_as_assumed :
    G.nameEntryFields = ["string:Name", "string:LongName", "each:Attrs"] ∧
    G.namePacketFields = ["len:4", "byte:type", "uint32:ID", "uint32:count", "each:NameAttrs"] ∧
    G.lsFormat = "%s %4d %-8s %-8s %8d %s %5s %s" ∧ G.lsFormatArgs.length = 8 ∧
    G.readdirEntry.map (·.1) = ["Name", "LongName", "Attrs"] ∧
    G.attrFixedBytes = attrsMax ∧
    G.recvRefusesLongerThanMax = true ∧ G.srvMaxMsgLength = G.maxMsgLength := by decide

/-- C16ReaddirFit.os_name_reply_fits — the worst NAME reply of the os-backed server fits one frame: 128 · 689 + 9 =
88 201 ≤ 262 144.  (Readdir(256): 176 393, still fits; Readdir(380) is the last that does; Readdir(512) = 352 777 and
Readdir(1024) = 705 545 — seeds C16_d / C05_e — do not.) -/
theorem os_name_reply_fits :
    G.readdirBatchFound = true ∧ 1 ≤ G.readdirBatch ∧
    G.readdirBatch * (2 * 255 + OVERHEAD) + HEADER ≤ G.maxMsgLength := by decide

/-- the same with owner and group names of up to 255 bytes: 128 · 1135 + 9 = 145 289 (Readdir(230) is the last that
fits under this assumption, Readdir(256) does not). -/
theorem os_name_reply_fits_long_owner_names :
    G.readdirBatch * (2 * 255 + OVERHEAD_LONG) + HEADER ≤ G.maxMsgLength := by decide

/-- what the numbers say about other batch sizes -/
example : 256 * (2 * 255 + OVERHEAD) + HEADER ≤ G.maxMsgLength ∧ 380 * (2 * 255 + OVERHEAD) + HEADER ≤ G.maxMsgLength ∧
    ¬ 381 * (2 * 255 + OVERHEAD) + HEADER ≤ G.maxMsgLength ∧ ¬ 512 * (2 * 255 + OVERHEAD) + HEADER ≤ G.maxMsgLength ∧
    ¬ 1024 * (2 * 255 + OVERHEAD) + HEADER ≤ G.maxMsgLength ∧
    ¬ 256 * (2 * 255 + OVERHEAD_LONG) + HEADER ≤ G.maxMsgLength := by decide

/-- One directory entry as the encoder sees it. -/
structure NEntry where
  nameLen : Nat
  /-- length of the long-name columns in front of the name -/
  lsCols : Nat
  /-- length of the attribute block -/
  attrs : Nat
  deriving Repr, DecidableEq

def entryCost (e : NEntry) : Nat := (4 + e.nameLen) + (4 + (e.lsCols + e.nameLen)) + e.attrs

/-- the value of the NAME frame's length word -/
def replyLen (es : List NEntry) : Nat := HEADER + (es.map entryCost).sum

theorem sum_le_length_mul (l : List Nat) (b : Nat) (h : ∀ x ∈ l, x ≤ b) : l.sum ≤ l.length * b := by
  induction l with
  | nil => simp
  | cons x r ih =>
    have hx := h x (List.mem_cons_self ..)
    have hr := ih (fun y hy => h y (List.mem_cons_of_mem _ hy))
    simp only [List.sum_cons, List.length_cons]
    rw [Nat.succ_mul]
    omega

/-- C16ReaddirFit.os_reply_fits_every_batch — for EVERY batch `Readdir(N)` can return (at most N entries) whose
entries respect the assumptions, the NAME frame is accepted by `recvPacket`. -/
theorem os_reply_fits_every_batch (es : List NEntry) (hlen : es.length ≤ G.readdirBatch)
    (hb : ∀ e ∈ es, e.nameLen ≤ nameMax ∧ e.lsCols ≤ lsColsMax ownerMax ∧ e.attrs ≤ G.attrFixedBytes) :
    replyLen es ≤ G.maxMsgLength := by
  have hbound : ∀ x ∈ es.map entryCost, x ≤ 2 * 255 + OVERHEAD := by
    intro x hx
    obtain ⟨e, he, rfl⟩ := List.mem_map.mp hx
    obtain ⟨h1, h2, h3⟩ := hb e he
    have ha : G.attrFixedBytes = 32 := by decide
    simp only [entryCost, OVERHEAD, attrsMax, nameMax] at *
    omega
  have hs := sum_le_length_mul (es.map entryCost) _ hbound
  rw [List.length_map] at hs
  have hm : es.length * (2 * 255 + OVERHEAD) ≤ G.readdirBatch * (2 * 255 + OVERHEAD) :=
    Nat.mul_le_mul_right _ hlen
  have hf := os_name_reply_fits.2.2
  simp only [replyLen]
  omega

/-- non-vacuity: a full batch of worst-case entries (255-byte names, every column at its bound) -/
example : replyLen (List.replicate 8 ⟨255, lsColsMax ownerMax, 32⟩) = 8 * 689 + 9 ∧
    128 * entryCost ⟨255, lsColsMax ownerMax, 32⟩ + HEADER = 88201 ∧
    1024 * entryCost ⟨120, 56, 32⟩ + HEADER = 344073 := by decide

end Sftp.C16ReaddirFit
