import Sftp.Generated.SrvNilGuards
import Sftp.Prim
/-
  Nil guards of the request-server wrappers (request.go fileget / fileput / fileputget / filelist) — a source shape no
  other extracted fact covers (seeded defect C02_f).  Facts: `Generated/SrvNilGuards.lean` (translator unit SrvNilGuards,
  /verif/extract/srvlifetimes.go part A).

  The handle is published and `r.Method` is set BEFORE the handler's open is called, the reader / writer / lister is
  stored only AFTER it returned, so a READ that names the handle in between finds no object and must be answered with a
  STATUS (C02: exactly one response for every request whatever the workers' interleaving; C11: a handle is either
  served or refused, never fatal).

  Every theorem about a table is closed by `decide` on the regenerated value; the small model explains WHY the guard
  is needed (universally quantified over action lists).
-/
namespace Sftp.C02NilGuards
open Sftp

/-! ## A. nil guards of the request-server wrappers -/

/-- `wrapperNilGuards` rows: (wrapper, getter, guarded). -/
def guardedRow (r : String × String × Bool) : Bool := r.2.2

/-- The four getters of `state` whose result a wrapper calls a method on. -/
def objectGetters : List String := ["getReaderAt", "getWriterAt", "getWriterAtReaderAt", "getListerAt"]

/-- C02NilGuards.all_object_uses_nil_guarded — every call of `r.getReaderAt()` / `getWriterAt()` /
`getWriterAtReaderAt()` / `getListerAt()` outside the methods of `state` binds its result to a variable whose first
later mention is `if v == nil { return statusFromError(…) }` (so every method call on it is dominated by the test);
`getAllReaderWriters` results are only ever tested with `c, ok := v.(T)`, which is nil-safe; each of the four getters
is used (the table is not vacuous); each getter returns exactly the field its setter stores. -/
theorem all_object_uses_nil_guarded :
    G.wrapperNilGuards.all guardedRow = true ∧
    objectGetters.all (fun g => G.wrapperNilGuards.any (fun r => r.2.1 == g)) = true ∧
    G.stateAccessors =
      [("getReaderAt", "readerAt"), ("getWriterAt", "writerAt"), ("getWriterAtReaderAt", "writerAtReaderAt"),
       ("getListerAt", "listerAt"), ("setReaderAt", "readerAt"), ("setWriterAt", "writerAt"),
       ("setWriterAtReaderAt", "writerAtReaderAt"), ("setListerAt", "listerAt")] := by decide

/-- C02NilGuards.handle_published_before_object_stored — packetWorker's OPEN / OPENDIR cases call
`rs.nextRequest(request)` (which stores the request in `rs.openRequests`) before `request.open` / `request.opendir`;
these set `r.Method`, THEN call the handler (`Fileread` / `Filewrite` / `OpenFile` / `Filelist`) and store the object
it returned only afterwards — for all four kinds of handle. -/
theorem handle_published_before_object_stored :
    G.handlePublishedBeforeObjectStored = true ∧
    G.objectStores.map (fun r => (r.1, r.2.1, r.2.2.2)) =
      [("Request.open", "Put", "setWriterAt"), ("Request.open", "Open", "setWriterAtReaderAt"),
       ("Request.open", "Get", "setReaderAt"), ("Request.opendir", "List", "setListerAt")] ∧
    G.publishSites.map (fun r => (r.1, r.2.2)) = [("opendir", "publishedBefore"), ("open", "publishedBefore")] := by
  decide

/-! ### why the guard is needed: one handle as a READ / WRITE / READDIR sees it

OPEN runs on the single command worker, READ / WRITE on the pool of transfer workers (C02's dispatch), so a transfer
request naming the handle an OPEN is ABOUT to return (handles are the decimal session counter) can be served while the
handler's open is still running.  CLOSE is a command as well: it cannot fall between the two halves of an OPEN. -/

inductive Slot where
  /-- not in `rs.openRequests` (never opened, closed, or dropped by a failed open) -/
  | absent
  /-- in `rs.openRequests`, `r.Method` set (so `servesPacket` accepts), reader / writer / lister still nil -/
  | publishedNoObject
  /-- in `rs.openRequests` with its object -/
  | live
  deriving Repr, DecidableEq

/-- The two source facts. -/
structure WCfg where
  /-- `G.handlePublishedBeforeObjectStored` -/
  publishedBeforeStored : Bool
  /-- the wrapper tests the getter's result against nil and answers STATUS (`G.wrapperNilGuards`) -/
  guarded : Bool
  deriving Repr, DecidableEq

inductive WAct where
  /-- command worker: `nextRequest`, `r.Method = …`, the handler's open is entered -/
  | openBegin
  /-- the handler's open returned: object stored and HANDLE (`true`), or `closeRequest(handle)` and STATUS (`false`) -/
  | openEnd (ok : Bool)
  /-- a transfer worker serves a READ / WRITE / READDIR that names the handle -/
  | transfer
  /-- command worker: CLOSE of the handle -/
  | close
  deriving Repr, DecidableEq

inductive WReply where
  | handle | status | data
  deriving Repr, DecidableEq

structure WState where
  slot : Slot
  /-- the command worker is inside the handler's open -/
  opening : Bool
  replies : List WReply
  deriving Repr, DecidableEq

def WState.init : WState := { slot := .absent, opening := false, replies := [] }

/-- `.err` = the action is not enabled in this state; `.panic` = a method call on a nil interface in a worker
goroutine (the process dies: no reply for this or any other request in flight). -/
def wstep (cfg : WCfg) (s : WState) : WAct → Outcome WState
  | .openBegin =>
    if s.opening = false ∧ s.slot = .absent then
      .ok { s with opening := true, slot := if cfg.publishedBeforeStored then .publishedNoObject else .absent }
    else .err "disabled"
  | .openEnd ok =>
    if s.opening = true then
      .ok { s with opening := false, slot := if ok then .live else .absent,
                   replies := s.replies ++ [if ok then .handle else .status] }
    else .err "disabled"
  | .transfer =>
    match s.slot with
    | .absent => .ok { s with replies := s.replies ++ [.status] }          -- getRequest fails: EBADF
    | .live => .ok { s with replies := s.replies ++ [.data] }              -- DATA or the handler's own STATUS
    | .publishedNoObject =>
      if cfg.guarded then .ok { s with replies := s.replies ++ [.status] } -- "unexpected read packet"
      else .panic                                                            -- rd.ReadAt on a nil io.ReaderAt
  | .close =>
    if s.opening = false then .ok { s with slot := .absent, replies := s.replies ++ [.status] }
    else .err "disabled"

def wrun (cfg : WCfg) : WState → List WAct → Outcome WState
  | s, [] => .ok s
  | s, a :: as => (wstep cfg s a).bind (fun s' => wrun cfg s' as)

/-- the window exists only when the handle is published first -/
def WInv (cfg : WCfg) (s : WState) : Prop := s.slot = .publishedNoObject → cfg.publishedBeforeStored = true

theorem wstep_inv (cfg : WCfg) (s s' : WState) (a : WAct) (hi : WInv cfg s) (h : wstep cfg s a = .ok s') :
    WInv cfg s' := by
  cases a with
  | openBegin =>
    simp only [wstep] at h
    split at h
    · injection h with h; subst h
      intro hs
      cases hp : cfg.publishedBeforeStored with
      | true => rfl
      | false => simp [hp] at hs
    · cases h
  | openEnd ok =>
    simp only [wstep] at h
    split at h
    · injection h with h; subst h
      intro hs; cases ok <;> simp at hs
    · cases h
  | transfer =>
    simp only [wstep] at h
    split at h
    · injection h with h; subst h; exact hi
    · injection h with h; subst h; exact hi
    · split at h
      · injection h with h; subst h; exact hi
      · cases h
  | close =>
    simp only [wstep] at h
    split at h
    · injection h with h; subst h
      intro hs; simp at hs
    · cases h

theorem wstep_no_panic (cfg : WCfg) (hc : cfg.guarded = true ∨ cfg.publishedBeforeStored = false) (s : WState)
    (hi : WInv cfg s) (a : WAct) : wstep cfg s a ≠ .panic := by
  cases a with
  | openBegin => simp only [wstep]; split <;> simp
  | openEnd ok => simp only [wstep]; split <;> simp
  | close => simp only [wstep]; split <;> simp
  | transfer =>
    simp only [wstep]
    split
    · simp
    · simp
    · rename_i hs
      rcases hc with hg | hp
      · simp [hg]
      · have := hi hs; rw [hp] at this; cases this

theorem wrun_no_panic (cfg : WCfg) (hc : cfg.guarded = true ∨ cfg.publishedBeforeStored = false) :
    ∀ (acts : List WAct) (s : WState), WInv cfg s → wrun cfg s acts ≠ .panic
  | [], s, _ => by simp [wrun]
  | a :: as, s, hi => by
    simp only [wrun]
    cases h : wstep cfg s a with
    | ok s' => simp only [Outcome.bind]; exact wrun_no_panic cfg hc as s' (wstep_inv cfg s s' a hi h)
    | err e => simp [Outcome.bind]
    | panic => exact absurd h (wstep_no_panic cfg hc s hi a)

/-- C02NilGuards.nil_guard_needed_and_sufficient — no schedule of OPEN halves, transfers and CLOSEs on a handle makes
a worker panic IF AND ONLY IF the wrappers test for nil or the object is stored before the handle is published.  With
the handle published first and the guard removed (seed C02_f), `[openBegin, transfer]` kills the process. -/
theorem nil_guard_needed_and_sufficient (cfg : WCfg) :
    (∀ acts, wrun cfg WState.init acts ≠ .panic) ↔ (cfg.guarded = true ∨ cfg.publishedBeforeStored = false) := by
  constructor
  · intro h
    cases hg : cfg.guarded with
    | true => exact Or.inl rfl
    | false =>
      cases hp : cfg.publishedBeforeStored with
      | false => exact Or.inr rfl
      | true =>
        exfalso
        apply h [.openBegin, .transfer]
        obtain ⟨p, g⟩ := cfg
        simp only at hg hp
        subst hg; subst hp
        decide
  · intro hc acts
    exact wrun_no_panic cfg hc acts WState.init (by intro hs; cases hs)

/-- A transfer in the window is answered with exactly one STATUS and changes nothing else. -/
theorem transfer_in_window_gets_status (cfg : WCfg) (hg : cfg.guarded = true) (s : WState)
    (hs : s.slot = .publishedNoObject) :
    wstep cfg s .transfer = .ok { s with replies := s.replies ++ [.status] } := by
  simp [wstep, hs, hg]

/-- The request server as it is now. -/
def wcfgNow : WCfg :=
  { publishedBeforeStored := G.handlePublishedBeforeObjectStored, guarded := G.wrapperNilGuards.all guardedRow }

/-- C02NilGuards.no_transfer_panics_now — for the code as it is: the window exists (the guard is NOT dead code) and no
schedule panics. -/
theorem no_transfer_panics_now :
    wcfgNow.publishedBeforeStored = true ∧ ∀ acts, wrun wcfgNow WState.init acts ≠ .panic :=
  ⟨by decide, (nil_guard_needed_and_sufficient wcfgNow).mpr (Or.inl (by decide))⟩

/-! non-vacuity: the pipelined READ of C02_f's demo — OPEN(10) enters the handler, READ(11) on handle "1", the open
returns, READ(12), CLOSE(13) — is answered STATUS, HANDLE, DATA, STATUS; without the guard it is a panic -/
example : (wrun wcfgNow WState.init [.openBegin, .transfer, .openEnd true, .transfer, .close]).map (·.replies) =
    .ok [.status, .handle, .data, .status] := by decide
example : wrun { wcfgNow with guarded := false } WState.init [.openBegin, .transfer, .openEnd true] = .panic := by
  decide
/-- the same window after a FAILING open (between the handler's error and `rs.closeRequest(handle)`) -/
example : (wrun wcfgNow WState.init [.openBegin, .transfer, .openEnd false, .transfer]).map (·.replies) =
    .ok [.status, .status, .status] := by decide

end Sftp.C02NilGuards
