import Sftp.Generated.SrvLifetimes
import Sftp.Generated.Consts
import Sftp.Props.C11Inst
import Sftp.Props.C18Inst
/-
  Lifetimes of what a server session lends out — four source shapes that no other extracted fact covers
  (seeded defects C02_f, C14_f, C18_e / C15_c,e,f, C16_d / C05_e), consumed from `Generated/SrvLifetimes.lean`
  (translator unit /verif/extract/srvlifetimes.go):

  A  the nil guards of the request-server wrappers (request.go fileget / fileput / fileputget / filelist):
     the handle is published and `r.Method` is set BEFORE the handler's open is called, the reader / writer / lister
     is stored only AFTER it returned, so a READ that names the handle in between finds no object and must be
     answered with a STATUS (C02: exactly one response; C11: a handle is either served or refused, never fatal);
  B  who may close a live *Request (request-server.go packetWorker): only the CLOSE case, a failing OPEN / OPENDIR
     and Serve's final sweep (C11: closed exactly once; C14: not while transfers sent before the CLOSE still run);
  C  allocator pages (packet-manager.go, packet.go, request.go, server.go): released only in maybeSendPackets after
     sendPacket, every key is an order id, order ids are taken by the receive loop itself (C18, C15, C01);
  D  the READDIR batch of the os-backed server times the worst NAME entry fits one frame (C16, C05).

  Every theorem about a table is closed by `decide` on the regenerated value; the small models explain WHY the fact
  is needed (universally quantified over action lists) and tie it to M-Handles / M-Alloc.
-/
namespace Sftp.C11Lifetimes
open Sftp

/-! ## A. nil guards of the request-server wrappers -/

/-- `wrapperNilGuards` rows: (wrapper, getter, guarded). -/
def guardedRow (r : String × String × Bool) : Bool := r.2.2

/-- The four getters of `state` whose result a wrapper calls a method on. -/
def objectGetters : List String := ["getReaderAt", "getWriterAt", "getWriterAtReaderAt", "getListerAt"]

/-- C11Lifetimes.all_object_uses_nil_guarded — every call of `r.getReaderAt()` / `getWriterAt()` /
`getWriterAtReaderAt()` / `getListerAt()` outside the methods of `state` binds its result to a variable whose first
later mention is `if v == nil { return statusFromError(…) }` (so every method call on it is dominated by the test);
`getAllReaderWriters` results are only ever tested with `c, ok := v.(T)`, which is nil-safe; each of the four getters
is used (the table is not vacuous); each getter returns exactly the field its setter stores. -/
theorem all_object_uses_nil_guarded :
    G.wrapperNilGuards.all guardedRow = true ∧
    objectGetters.all (fun g => G.wrapperNilGuards.any (fun r => r.2.1 == g)) = true ∧
    G.stateAccessors =
      [("getReaderAt", "readerAt"), ("getWriterAt", "writerAt"), ("getWriterAtReaderAt", "writerAtReaderAt"),
       ("getListerAt", "listerAt"), ("setReaderAt", "readerAt"), ("setWriterAt", "writerAt"),
       ("setWriterAtReaderAt", "writerAtReaderAt"), ("setListerAt", "listerAt")] := by decide

/-- C11Lifetimes.handle_published_before_object_stored — packetWorker's OPEN / OPENDIR cases call
`rs.nextRequest(request)` (which stores the request in `rs.openRequests`) before `request.open` / `request.opendir`;
these set `r.Method`, THEN call the handler (`Fileread` / `Filewrite` / `OpenFile` / `Filelist`) and store the object
it returned only afterwards — for all four kinds of handle. -/
theorem handle_published_before_object_stored :
    G.handlePublishedBeforeObjectStored = true ∧
    G.objectStores.map (fun r => (r.1, r.2.1, r.2.2.2)) =
      [("Request.open", "Put", "setWriterAt"), ("Request.open", "Open", "setWriterAtReaderAt"),
       ("Request.open", "Get", "setReaderAt"), ("Request.opendir", "List", "setListerAt")] ∧
    G.publishSites.map (fun r => (r.1, r.2.2)) = [("opendir", "publishedBefore"), ("open", "publishedBefore")] := by
  decide

/-! ### why the guard is needed: one handle as a READ / WRITE / READDIR sees it

OPEN runs on the single command worker, READ / WRITE on the pool of transfer workers (C02's dispatch), so a transfer
request naming the handle an OPEN is ABOUT to return (handles are the decimal session counter) can be served while the
handler's open is still running.  CLOSE is a command as well: it cannot fall between the two halves of an OPEN. -/

inductive Slot where
  /-- not in `rs.openRequests` (never opened, closed, or dropped by a failed open) -/
  | absent
  /-- in `rs.openRequests`, `r.Method` set (so `servesPacket` accepts), reader / writer / lister still nil -/
  | publishedNoObject
  /-- in `rs.openRequests` with its object -/
  | live
  deriving Repr, DecidableEq

/-- The two source facts. -/
structure WCfg where
  /-- `G.handlePublishedBeforeObjectStored` -/
  publishedBeforeStored : Bool
  /-- the wrapper tests the getter's result against nil and answers STATUS (`G.wrapperNilGuards`) -/
  guarded : Bool
  deriving Repr, DecidableEq

inductive WAct where
  /-- command worker: `nextRequest`, `r.Method = …`, the handler's open is entered -/
  | openBegin
  /-- the handler's open returned: object stored and HANDLE (`true`), or `closeRequest(handle)` and STATUS (`false`) -/
  | openEnd (ok : Bool)
  /-- a transfer worker serves a READ / WRITE / READDIR that names the handle -/
  | transfer
  /-- command worker: CLOSE of the handle -/
  | close
  deriving Repr, DecidableEq

inductive WReply where
  | handle | status | data
  deriving Repr, DecidableEq

structure WState where
  slot : Slot
  /-- the command worker is inside the handler's open -/
  opening : Bool
  replies : List WReply
  deriving Repr, DecidableEq

def WState.init : WState := { slot := .absent, opening := false, replies := [] }

/-- `.err` = the action is not enabled in this state; `.panic` = a method call on a nil interface in a worker
goroutine (the process dies: no reply for this or any other request in flight). -/
def wstep (cfg : WCfg) (s : WState) : WAct → Outcome WState
  | .openBegin =>
    if s.opening = false ∧ s.slot = .absent then
      .ok { s with opening := true, slot := if cfg.publishedBeforeStored then .publishedNoObject else .absent }
    else .err "disabled"
  | .openEnd ok =>
    if s.opening = true then
      .ok { s with opening := false, slot := if ok then .live else .absent,
                   replies := s.replies ++ [if ok then .handle else .status] }
    else .err "disabled"
  | .transfer =>
    match s.slot with
    | .absent => .ok { s with replies := s.replies ++ [.status] }          -- getRequest fails: EBADF
    | .live => .ok { s with replies := s.replies ++ [.data] }              -- DATA or the handler's own STATUS
    | .publishedNoObject =>
      if cfg.guarded then .ok { s with replies := s.replies ++ [.status] } -- "unexpected read packet"
      else .panic                                                            -- rd.ReadAt on a nil io.ReaderAt
  | .close =>
    if s.opening = false then .ok { s with slot := .absent, replies := s.replies ++ [.status] }
    else .err "disabled"

def wrun (cfg : WCfg) : WState → List WAct → Outcome WState
  | s, [] => .ok s
  | s, a :: as => (wstep cfg s a).bind (fun s' => wrun cfg s' as)

/-- the window exists only when the handle is published first -/
def WInv (cfg : WCfg) (s : WState) : Prop := s.slot = .publishedNoObject → cfg.publishedBeforeStored = true

theorem wstep_inv (cfg : WCfg) (s s' : WState) (a : WAct) (hi : WInv cfg s) (h : wstep cfg s a = .ok s') :
    WInv cfg s' := by
  cases a with
  | openBegin =>
    simp only [wstep] at h
    split at h
    · injection h with h; subst h
      intro hs
      cases hp : cfg.publishedBeforeStored with
      | true => rfl
      | false => simp [hp] at hs
    · cases h
  | openEnd ok =>
    simp only [wstep] at h
    split at h
    · injection h with h; subst h
      intro hs; cases ok <;> simp at hs
    · cases h
  | transfer =>
    simp only [wstep] at h
    split at h
    · injection h with h; subst h; exact hi
    · injection h with h; subst h; exact hi
    · split at h
      · injection h with h; subst h; exact hi
      · cases h
  | close =>
    simp only [wstep] at h
    split at h
    · injection h with h; subst h
      intro hs; simp at hs
    · cases h

theorem wstep_no_panic (cfg : WCfg) (hc : cfg.guarded = true ∨ cfg.publishedBeforeStored = false) (s : WState)
    (hi : WInv cfg s) (a : WAct) : wstep cfg s a ≠ .panic := by
  cases a with
  | openBegin => simp only [wstep]; split <;> simp
  | openEnd ok => simp only [wstep]; split <;> simp
  | close => simp only [wstep]; split <;> simp
  | transfer =>
    simp only [wstep]
    split
    · simp
    · simp
    · rename_i hs
      rcases hc with hg | hp
      · simp [hg]
      · have := hi hs; rw [hp] at this; cases this

theorem wrun_no_panic (cfg : WCfg) (hc : cfg.guarded = true ∨ cfg.publishedBeforeStored = false) :
    ∀ (acts : List WAct) (s : WState), WInv cfg s → wrun cfg s acts ≠ .panic
  | [], s, _ => by simp [wrun]
  | a :: as, s, hi => by
    simp only [wrun]
    cases h : wstep cfg s a with
    | ok s' => simp only [Outcome.bind]; exact wrun_no_panic cfg hc as s' (wstep_inv cfg s s' a hi h)
    | err e => simp [Outcome.bind]
    | panic => exact absurd h (wstep_no_panic cfg hc s hi a)

/-- C11Lifetimes.nil_guard_needed_and_sufficient — no schedule of OPEN halves, transfers and CLOSEs on a handle makes
a worker panic IF AND ONLY IF the wrappers test for nil or the object is stored before the handle is published.  With
the handle published first and the guard removed (seed C02_f), `[openBegin, transfer]` kills the process. -/
theorem nil_guard_needed_and_sufficient (cfg : WCfg) :
    (∀ acts, wrun cfg WState.init acts ≠ .panic) ↔ (cfg.guarded = true ∨ cfg.publishedBeforeStored = false) := by
  constructor
  · intro h
    cases hg : cfg.guarded with
    | true => exact Or.inl rfl
    | false =>
      cases hp : cfg.publishedBeforeStored with
      | false => exact Or.inr rfl
      | true =>
        exfalso
        apply h [.openBegin, .transfer]
        obtain ⟨p, g⟩ := cfg
        simp only at hg hp
        subst hg; subst hp
        decide
  · intro hc acts
    exact wrun_no_panic cfg hc acts WState.init (by intro hs; cases hs)

/-- A transfer in the window is answered with exactly one STATUS and changes nothing else. -/
theorem transfer_in_window_gets_status (cfg : WCfg) (hg : cfg.guarded = true) (s : WState)
    (hs : s.slot = .publishedNoObject) :
    wstep cfg s .transfer = .ok { s with replies := s.replies ++ [.status] } := by
  simp [wstep, hs, hg]

/-- The request server as it is now. -/
def wcfgNow : WCfg :=
  { publishedBeforeStored := G.handlePublishedBeforeObjectStored, guarded := G.wrapperNilGuards.all guardedRow }

/-- C11Lifetimes.no_transfer_panics_now — for the code as it is: the window exists (the guard is NOT dead code) and no
schedule panics. -/
theorem no_transfer_panics_now :
    wcfgNow.publishedBeforeStored = true ∧ ∀ acts, wrun wcfgNow WState.init acts ≠ .panic :=
  ⟨by decide, (nil_guard_needed_and_sufficient wcfgNow).mpr (Or.inl (by decide))⟩

/-! non-vacuity: the pipelined READ of C02_f's demo — OPEN(10) enters the handler, READ(11) on handle "1", the open
returns, READ(12), CLOSE(13) — is answered STATUS, HANDLE, DATA, STATUS; without the guard it is a panic -/
example : (wrun wcfgNow WState.init [.openBegin, .transfer, .openEnd true, .transfer, .close]).map (·.replies) =
    .ok [.status, .handle, .data, .status] := by decide
example : wrun { wcfgNow with guarded := false } WState.init [.openBegin, .transfer, .openEnd true] = .panic := by
  decide
/-- the same window after a FAILING open (between the handler's error and `rs.closeRequest(handle)`) -/
example : (wrun wcfgNow WState.init [.openBegin, .transfer, .openEnd false, .transfer]).map (·.replies) =
    .ok [.status, .status, .status] := by decide

/-! ## B. who may close a live request -/

/-- `closeSites` rows: (function[:case], origin of the receiver / handle, what is called).  Allowed:
* `close` on a FRESH request (built by `requestFromPacket` / a `&Request{Method…, Filepath…}` literal in this very
  case: nobody else holds its objects — the by-path commands);
* `closeRequest` of the handle just allocated, inside `if _, ok := rpkt.(*sshFxpHandlePacket); !ok` (failing OPEN /
  OPENDIR);
* `closeRequest` of the handle the packet names, in the CLOSE case only;
* `close` on a table entry inside `closeRequest` itself (after the `delete`) and inside Serve's final sweep. -/
def allowedSite (r : String × String × String) : Bool :=
  (r.2.1 == "fresh" && r.2.2 == "close") ||
  (r.2.1 == "newHandleOnFailedOpen" && r.2.2 == "closeRequest") ||
  (r.2.1 == "packetHandle" && r.2.2 == "closeRequest" && r.1 == "RequestServer.packetWorker:*sshFxpClosePacket") ||
  (r.2.1 == "table" && r.2.2 == "close" && (r.1 == "RequestServer.closeRequest" || r.1 == "RequestServer.Serve"))

/-- C11Lifetimes.live_object_closed_only_by_close_or_sweep — every call in the package that closes a *Request (or a
part of one) is one of the allowed sites: a request that is, or shares its reader / writer / lister / cancel function
with (`.copy()`), an entry of `rs.openRequests` is closed only through the CLOSE case, a failing OPEN / OPENDIR or the
final sweep; the sites are exactly the six known ones; FSTAT and FSETSTAT serve the packet through a FRESH request
(built from the table entry's path only) and close nothing (seed C14_f: `request.copy()` + `request.close()` in the
FSETSTAT case gives the row `(…:*sshFxpFsetstatPacket, copyOfTable, close)`). -/
theorem live_object_closed_only_by_close_or_sweep :
    G.liveRequestClosedOnlyByClose = true ∧
    G.closeSites.all allowedSite = true ∧
    G.closeSites =
      [("RequestServer.closeRequest", "table", "close"),
       ("RequestServer.Serve", "table", "close"),
       ("RequestServer.packetWorker:*sshFxpClosePacket", "packetHandle", "closeRequest"),
       ("RequestServer.packetWorker:*sshFxpOpendirPacket", "newHandleOnFailedOpen", "closeRequest"),
       ("RequestServer.packetWorker:*sshFxpOpenPacket", "newHandleOnFailedOpen", "closeRequest"),
       ("RequestServer.packetWorker:hasPath", "fresh", "close")] ∧
    G.callSites.map (fun r => (r.1, r.2.1)) =
      [("*sshFxpFstatPacket", "fresh"), ("*sshFxpFsetstatPacket", "fresh"),
       ("*sshFxpExtendedPacketPosixRename", "fresh"), ("*sshFxpExtendedPacketStatVFS", "fresh"),
       ("hasHandle", "table"), ("hasPath", "fresh")] := by decide

/-! ### tie to M-Handles: `use` (FSTAT / FSETSTAT) and `useAs` (READ / WRITE / READDIR) only TOUCH the object.
`liveM leak` is `Handles.live` except that, when some close site is not an allowed one (`leak`), a handle-bearing
command also closes the object it was served through — what C14_f does. -/

open Sftp.Handles in
def liveM (leak : Bool) (cfg : Cfg) (s : State) : Action → Option State
  | .use h =>
    match s.open.lookup h with
    | some id =>
      some { s with objs := upd s.objs id (if leak then (s.objs id).touch.close else (s.objs id).touch),
                    log := s.log ++ [.ok] }
    | none => some { s with log := s.log ++ [.ebadf] }
  | a => live cfg s a

def leak (sites : List (String × String × String)) : Bool := !(sites.all allowedSite)

open Sftp.Handles in
/-- C11Lifetimes.handles_model_use_is_faithful — with the close sites as they are, a handle-bearing command behaves
as M-Handles says (the theorems of Props/C11 and Props/C11Inst speak about the code). -/
theorem handles_model_use_is_faithful (cfg : Cfg) (s : State) (a : Action) :
    liveM (leak G.closeSites) cfg s a = live cfg s a := by
  have hl : leak G.closeSites = false := by decide
  rw [hl]
  cases a with
  | use h => simp only [liveM, live]; cases s.open.lookup h <;> simp
  | _ => rfl

open Sftp.Handles in
/-- C11Lifetimes.use_never_closes — in M-Handles a step that is neither CLOSE, the sweep nor a failing OPEN leaves
every object's close count and context-cancel count as they were (for every configuration and state). -/
theorem use_never_closes (cfg : Cfg) (s s' : State) (a : Action)
    (ha : (∃ k, a = .openOk k) ∨ (∃ h, a = .use h) ∨ (∃ h n, a = .useAs h n))
    (hs : step cfg s a = some s') (id : Nat) (hid : id < s.nobj) :
    (s'.objs id).closed = (s.objs id).closed ∧ (s'.objs id).ctx = (s.objs id).ctx := by
  unfold step at hs
  split at hs
  · cases hs
  · rcases ha with ⟨k, rfl⟩ | ⟨h, rfl⟩ | ⟨h, n, rfl⟩
    · simp only [live, opened] at hs
      injection hs with hs; subst hs
      have : id ≠ s.nobj := Nat.ne_of_lt hid
      simp [upd, this]
    · simp only [live] at hs
      split at hs <;> (injection hs with hs; subst hs)
      · rename_i j _
        by_cases hj : id = j <;> simp [upd, hj, Obj.touch]
      · exact ⟨rfl, rfl⟩
    · simp only [live] at hs
      split at hs
      · rename_i j _
        split at hs
        · injection hs with hs; subst hs
          by_cases hj : id = j <;> simp [upd, hj, Obj.touch]
        · split at hs <;> (injection hs with hs; subst hs)
          · exact ⟨rfl, rfl⟩
          · by_cases hj : id = j <;> simp [upd, hj, Obj.touch]
      · injection hs with hs; subst hs; exact ⟨rfl, rfl⟩

open Sftp.Handles in
/-- necessity (seed C14_f): with a leaking close site, `open; FSETSTAT; CLOSE` closes the writer twice — and the
first time while the transfers sent before the CLOSE may still be running (C14). -/
theorem leaking_use_closes_twice :
    ((liveM true Cfg.current State.init (.openOk .writer)).bind fun s1 =>
      (liveM true Cfg.current s1 (.use 1)).bind fun s2 =>
        (liveM true Cfg.current s2 (.close 1)).map fun s3 => ((s2.objs 0).closed, (s3.objs 0).closed)) =
      some (1, 2) := by decide

open Sftp.Handles in
/-- non-vacuity of `use_never_closes`, and the same session without the leak: closed once, by the CLOSE. -/
example : ((liveM (leak G.closeSites) Cfg.current State.init (.openOk .writer)).bind fun s1 =>
      (liveM (leak G.closeSites) Cfg.current s1 (.use 1)).bind fun s2 =>
        (liveM (leak G.closeSites) Cfg.current s2 (.close 1)).map fun s3 => ((s2.objs 0).closed, (s3.objs 0).closed)) =
      some (0, 1) := by decide

/-! ## C. allocator page lifetime

Which assumptions of `Sftp/Model/Alloc.lean` (M-Alloc, theorems in Props/C18, instantiated in Props/C18Inst) these
facts discharge:
* the action alphabet has ONE action that returns pages to the free list, `release oid`, enabled only when
  `oid < nextSend` (given `cfg.releaseAfterSend`, regenerated in `G.allocCfg` from the text of maybeSendPackets
  alone).  That NO OTHER place in the package releases pages is `pages_released_only_after_send` (seed C18_e adds a
  second site in workerChan's dispatcher);
* `release oid` frees `pagesOf oid` for the order id of the response just sent: `releaseKeyMatchesSent`
  (seed C15_e releases under `in.id()`);
* `lend` books the frame page under `nextOid`, which `arrive` then gives the request: the receive loops key
  `recvPacket` with `getNextOrderID()` and take the id with `newOrderedRequest` themselves
  (`order_ids_assigned_in_receive_loop`; seed C15_c moves `newOrderID` to the dispatcher goroutine);
* `handlerTake oid` books the data page under the handler's OWN order id: every key handed to `GetPage` through
  `getDataSlice` / `packetData` / `fileget` … / `Request.call` is the `orderID` parameter, fed from `pkt.orderID()`
  (`all_page_keys_order_ids`; seed C15_f passes `pkt.id()`);
* `handlerEcho oid` answers from the frame page as it is WHEN THE HANDLER RUNS: the request kinds that keep a
  sub-slice of the receive page past makePacket are exactly OPEN / SETSTAT / FSETSTAT (`Attrs`) and WRITE (`Data`)
  (`page_aliases_as_modelled`), so their page must stay booked until the handler has answered — which
  "released only after the response was sent" gives (`alias_requests_intact_until_handled`). -/

/-- C11Lifetimes.pages_released_only_after_send — the ONLY call of `ReleasePages` outside allocator.go is in
`packetManager.maybeSendPackets`, in a statement list where a plain `s.sender.sendPacket(…)` statement stands before
it, under `if in.orderID() == out.orderID()` with `out` the packet just sent and `in.orderID()` the key released. -/
theorem pages_released_only_after_send :
    G.releaseOnlyAfterSend = true ∧
    G.releaseSites.map (fun r => (r.1, r.2.2)) = [("packetManager.maybeSendPackets", "afterSendPacket")] ∧
    G.releaseKeyMatchesSent = true ∧
    G.allocCfg.releaseAfterSend = true := by decide

/-- functions of the CLIENT, whose conn never has an allocator (`alloc` is assigned by WithAllocator /
WithRSAllocator on the servers' conn only), so the key `0` they pass to `recvPacket` is never used -/
def clientFns : List String := ["Client.recvVersion", "clientConn.recv"]

def orderIdKey (r : String × String × String) : Bool :=
  r.2.2 == "orderID" || (r.2.2 == "clientZero" && clientFns.contains r.1)

/-- C11Lifetimes.all_page_keys_order_ids — every expression that reaches `GetPage` / `ReleasePages` as a key (directly
or through a parameter of recvPacket, getDataSlice, packetData, fileget / fileput / fileputget, Request.call) is an
order id: `X.orderID()`, `X.getNextOrderID()`, a local defined as one of these, or the key parameter itself (whose
callers are rows of the same table).  Never `pkt.id()` / `p.ID`.  The table covers both receive loops, both READ
paths of the request server, the os-backed server's READ and the release. -/
theorem all_page_keys_order_ids :
    G.allPageKeysAreOrderIds = true ∧
    G.pageKeySites.all orderIdKey = true ∧
    ["recvPacket", "sshFxpReadPacket.getDataSlice", "Server.Serve", "RequestServer.serveLoop", "handlePacket",
     "fileget", "fileputget", "packetData", "Request.call", "RequestServer.packetWorker",
     "packetManager.maybeSendPackets"].all (fun f => G.pageKeySites.any (fun r => r.1 == f)) = true := by decide

/-- C11Lifetimes.order_ids_assigned_in_receive_loop — `newOrderID` is called by `newOrderedRequest` only
(`orderid: s.newOrderID()`), `newOrderedRequest` and `getNextOrderID` by the two receive loops only, in each after the
`recvPacket(getNextOrderID())` of the same iteration; nothing assigns `.orderid` afterwards. -/
theorem order_ids_assigned_in_receive_loop :
    G.orderIdAssignedInReceiveLoop = true ∧ G.allocRecvUsesNextOrderID = true ∧
    G.orderIdSites.all (fun r => ["newOrderID", "newOrderedRequest", "getNextOrderID"].contains r.2) = true ∧
    G.orderIdSites.map (·.1) =
      ["packetManager.newOrderedRequest", "RequestServer.serveLoop", "RequestServer.serveLoop", "Server.Serve",
       "Server.Serve"] := by decide

/-- C11Lifetimes.page_aliases_as_modelled — the request decoders that keep a sub-slice of the receive page. -/
theorem page_aliases_as_modelled :
    G.pageAliases.map (·.1) = ["sshFxpOpenPacket", "sshFxpWritePacket", "sshFxpSetstatPacket", "sshFxpFsetstatPacket"] := by
  decide

open Sftp.Alloc in
/-- C11Lifetimes.alias_requests_intact_until_handled — M-Alloc instantiated with the regenerated configuration: for
every schedule, the frame page of a request whose handler has not answered yet still holds the request's bytes (so
the `Attrs` / `Data` sub-slices of `page_aliases_as_modelled` are what the client sent when the command worker gets to
them).  The model's premise "pages return to the free list only through `release`" is
`pages_released_only_after_send`, its key discipline `all_page_keys_order_ids`. -/
theorem alias_requests_intact_until_handled (acts : List Action) (s : State)
    (h : run G.allocCfg State.init acts = some s) (oid : Nat) (hrecv : oid < s.g.nextOid)
    (hun : s.g.gout oid = none) : s.heap (s.page oid) = s.g.gin oid :=
  (C18.request_intact_until_handled G.allocCfg C18.current_good acts s h oid hrecv hun).1

open Sftp.Alloc in
/-- non-vacuity: SETSTAT(oid 0) waits for the command worker while two more frames arrive and the first of them is
answered and sent; its page still holds its own bytes. -/
example : (run G.allocCfg State.init
      [.lend, .arrive [1], .lend, .arrive [2], .lend, .arrive [3]]).map
    (fun s => (s.heap (s.page 0), decide (0 < s.g.nextOid), s.g.gout 0)) = some ([1], true, none) := by decide

/-! ## D. READDIR batch × frame limit (os-backed server)

`(*sshFxpReaddirPacket).respond` puts a whole `f.Readdir(N)` batch into ONE NAME packet without looking at its size;
every receiver of the package refuses a frame whose length word exceeds `maxMsgLength` (`recvPacket`, and then drops
the connection).  Cost of one entry, from the encoders:

    sshFxpNameAttr.MarshalBinary   marshalString(Name) + marshalString(LongName) + marshal(Attrs…)
                                   = 4 + |name|  +  4 + |longname|  +  attrs
    runLs  "%s %4d %-8s %-8s %8d %s %5s %s"   longname = columns + name:
           mode 10 (FileMode.String, C17Ls) ␣ links ≤ 20 (uint64, %4d) ␣ owner ␣ group ␣ size ≤ 20 (int64, %8d) ␣
           date ≤ 6 ("Jan _2" / "Jan 22") ␣ year-or-time ≤ 12 ("15:04", "2006"; generous for any int64 second) ␣ name
    marshalFileInfo / marshalFileStat without extended pairs: flags 4 + size 8 + uid,gid 8 + mode 4 + times 8 = 32
    sshFxpNamePacket.marshalPacket length word counts: type 1 + id 4 + count 4 = 9  (HEADER)

ASSUMPTIONS (explicit): a directory entry's name is at most NAME_MAX = 255 bytes (Linux); owner and group NAMES are
at most 32 bytes (what shadow-utils' useradd / groupadd accept; numeric ids are at most 10 digits) — the variant
`os_name_reply_fits_long_owner_names` allows 255-byte owner and group names (glibc's LOGIN_NAME_MAX − 1) as well;
os.FileInfo of a real directory entry carries no extended attribute pairs. -/

def nameMax : Nat := 255
def ownerMax : Nat := 32
def ownerMaxLong : Nat := 255
/-- columns of the long name in front of the name, separators included -/
def lsColsMax (owner : Nat) : Nat := 10 + 1 + 20 + 1 + owner + 1 + owner + 1 + 20 + 1 + 6 + 1 + 12 + 1
def attrsMax : Nat := 32
/-- per entry, beyond the two copies of the name: two length words, the long-name columns, the attribute block -/
def OVERHEAD : Nat := 4 + 4 + lsColsMax ownerMax + attrsMax
def OVERHEAD_LONG : Nat := 4 + 4 + lsColsMax ownerMaxLong + attrsMax
/-- what the frame's length word counts besides the entries -/
def HEADER : Nat := 1 + 4 + 4

/-- C11Lifetimes.name_entry_encoding_as_assumed — the shapes the cost formula is read from. -/
theorem name_entry_encoding_as_assumed :
    G.nameEntryFields = ["string:Name", "string:LongName", "each:Attrs"] ∧
    G.namePacketFields = ["len:4", "byte:type", "uint32:ID", "uint32:count", "each:NameAttrs"] ∧
    G.lsFormat = "%s %4d %-8s %-8s %8d %s %5s %s" ∧ G.lsFormatArgs.length = 8 ∧
    G.readdirEntry.map (·.1) = ["Name", "LongName", "Attrs"] ∧
    G.attrFixedBytes = attrsMax ∧
    G.recvRefusesLongerThanMax = true ∧ G.srvMaxMsgLength = G.maxMsgLength := by decide

/-- C11Lifetimes.os_name_reply_fits — the worst NAME reply of the os-backed server fits one frame: 128 · 689 + 9 =
88 201 ≤ 262 144.  (Readdir(256): 176 393, still fits; Readdir(380) is the last that does; Readdir(512) = 352 777 and
Readdir(1024) = 705 545 — seeds C16_d / C05_e — do not.) -/
theorem os_name_reply_fits :
    G.readdirBatchFound = true ∧ 1 ≤ G.readdirBatch ∧
    G.readdirBatch * (2 * 255 + OVERHEAD) + HEADER ≤ G.maxMsgLength := by decide

/-- the same with owner and group names of up to 255 bytes: 128 · 1135 + 9 = 145 289 (Readdir(230) is the last that
fits under this assumption, Readdir(256) does not). -/
theorem os_name_reply_fits_long_owner_names :
    G.readdirBatch * (2 * 255 + OVERHEAD_LONG) + HEADER ≤ G.maxMsgLength := by decide

/-- what the numbers say about other batch sizes -/
example : 256 * (2 * 255 + OVERHEAD) + HEADER ≤ G.maxMsgLength ∧ 380 * (2 * 255 + OVERHEAD) + HEADER ≤ G.maxMsgLength ∧
    ¬ 381 * (2 * 255 + OVERHEAD) + HEADER ≤ G.maxMsgLength ∧ ¬ 512 * (2 * 255 + OVERHEAD) + HEADER ≤ G.maxMsgLength ∧
    ¬ 1024 * (2 * 255 + OVERHEAD) + HEADER ≤ G.maxMsgLength ∧
    ¬ 256 * (2 * 255 + OVERHEAD_LONG) + HEADER ≤ G.maxMsgLength := by decide

/-- One directory entry as the encoder sees it. -/
structure NEntry where
  nameLen : Nat
  /-- length of the long-name columns in front of the name -/
  lsCols : Nat
  /-- length of the attribute block -/
  attrs : Nat
  deriving Repr, DecidableEq

def entryCost (e : NEntry) : Nat := (4 + e.nameLen) + (4 + (e.lsCols + e.nameLen)) + e.attrs

/-- the value of the NAME frame's length word -/
def replyLen (es : List NEntry) : Nat := HEADER + (es.map entryCost).sum

theorem sum_le_length_mul (l : List Nat) (b : Nat) (h : ∀ x ∈ l, x ≤ b) : l.sum ≤ l.length * b := by
  induction l with
  | nil => simp
  | cons x r ih =>
    have hx := h x (List.mem_cons_self ..)
    have hr := ih (fun y hy => h y (List.mem_cons_of_mem _ hy))
    simp only [List.sum_cons, List.length_cons]
    rw [Nat.succ_mul]
    omega

/-- C11Lifetimes.os_reply_fits_every_batch — for EVERY batch `Readdir(N)` can return (at most N entries) whose
entries respect the assumptions, the NAME frame is accepted by `recvPacket`. -/
theorem os_reply_fits_every_batch (es : List NEntry) (hlen : es.length ≤ G.readdirBatch)
    (hb : ∀ e ∈ es, e.nameLen ≤ nameMax ∧ e.lsCols ≤ lsColsMax ownerMax ∧ e.attrs ≤ G.attrFixedBytes) :
    replyLen es ≤ G.maxMsgLength := by
  have hbound : ∀ x ∈ es.map entryCost, x ≤ 2 * 255 + OVERHEAD := by
    intro x hx
    obtain ⟨e, he, rfl⟩ := List.mem_map.mp hx
    obtain ⟨h1, h2, h3⟩ := hb e he
    have ha : G.attrFixedBytes = 32 := by decide
    simp only [entryCost, OVERHEAD, attrsMax, nameMax] at *
    omega
  have hs := sum_le_length_mul (es.map entryCost) _ hbound
  rw [List.length_map] at hs
  have hm : es.length * (2 * 255 + OVERHEAD) ≤ G.readdirBatch * (2 * 255 + OVERHEAD) :=
    Nat.mul_le_mul_right _ hlen
  have hf := os_name_reply_fits.2.2
  simp only [replyLen]
  omega

/-- non-vacuity: a full batch of worst-case entries (255-byte names, every column at its bound) -/
example : replyLen (List.replicate 8 ⟨255, lsColsMax ownerMax, 32⟩) = 8 * 689 + 9 ∧
    128 * entryCost ⟨255, lsColsMax ownerMax, 32⟩ + HEADER = 88201 ∧
    1024 * entryCost ⟨120, 56, 32⟩ + HEADER = 344073 := by decide

end Sftp.C11Lifetimes
