import Sftp.Props.C12
import Sftp.Props.C13
import Sftp.Props.C01
import Sftp.Generated.TransferFacts
/-
  C01 / C12 / C13 for the code as it is now: the M-Transfer theorems instantiated with the facts
  the translator read off client.go (Generated/TransferFacts.lean).  `cfgOfOptions` builds a model
  configuration from run-time options; its two source-fact fields are the regenerated ones.
-/
namespace Sftp.C12
open Sftp Sftp.Transfer Sftp.Spec.OsFile

/-- a model configuration for arbitrary client/server options with the source facts of the current tree -/
def cfgOfOptions (maxPacket maxConc : Nat) (concReads concWrites useFstat : Bool) (maxTx : Nat) : Cfg :=
  { maxPacket := maxPacket, maxConc := maxConc, concReads := concReads, concWrites := concWrites,
    useFstat := useFstat, maxTx := maxTx,
    writeToMovesOnEmpty := G.writeToMovesOnEmpty, readFromMasksWriteErr := G.readFromMasksWriteErr }

/-- The two repairs are in place, and the structural shapes the model hard-codes are those of the source:
the earliest-offset fold, the event offsets, the result computation, the refill loop of readChunkAt, the
chunk cut, the ordered WriteTo chain, and the hand-out discipline that justifies the admissibility
hypothesis (work is handed out until `cancel` is closed by the first error; dispatched work is awaited). -/
theorem facts_current :
    G.writeToMovesOnEmpty = false ∧ G.readFromMasksWriteErr = false ∧
    G.xferFoldLE = true ∧ G.xferEventOffsets = true ∧ G.xferResults = true ∧ G.xferRefillLoop = true ∧
    G.xferChunking = true ∧ G.xferWriteToChain = true ∧ G.xferAdmissible = true ∧
    G.readFromConcurrencyChoice = true := by decide

/-- C12.offset_refines for every option set with packet size within the server's payload limit. -/
theorem offset_refines_current (mp conc : Nat) (cr cw fs : Bool) (maxTx : Nat) (hmp : 1 ≤ mp) (htx : mp ≤ maxTx) :
    ∀ (calls : List Call) (sv : Served) (s : FileSt) (o : OsSt), Sim s o →
      ∀ p ∈ trace (cfgOfOptions mp conc cr cw fs maxTx) sv s o calls, p.1.offset = p.2.1.offset ∧ p.1.closed = p.2.1.closed :=
  offset_refines (cfgOfOptions mp conc cr cw fs maxTx) hmp htx facts_current.1 facts_current.2.1

end Sftp.C12
