import Sftp.Proofs.Handles
import Std.Data.String.ToNat
/-
  C11 — handle table and resource release.

  Property theorems only.  Model: Sftp/Model/Handles.lean; every theorem is about ALL action lists (all
  sessions: any mix of successful opens of any kind of object / failed opens, uses — fitting the kind
  of the handle or not — and closes of arbitrary handle numbers, ended by the sweep of Serve with or
  without an error).  `Good cfg` collects the source facts used (closeHandle/closeRequest delete the
  entry, a failed open closes its handle, the final sweep closes everything, the counter only grows).
  Arbitrary are: whether the sweep notifies transfer errors (request server) or not (os-backed server)
  and which kinds of object it tells, whether the sweep also removes the entries it closes (request
  server) or leaves the map as it is (os-backed server), whether the handle is allocated before the
  handler is asked, whether a request is checked against the kind of its handle.  No theorem depends
  on the table being emptied by the sweep: after the sweep no request is processed any more
  (`step = none`), so "the handle is live" is "in the table AND Serve has not returned".
  Handles are the numbers before `strconv.Itoa`; that Go's `strconv.Itoa` is the decimal representation
  (Lean's `Nat.repr`, proved injective in Std) is the one trusted fact — see `handle_strings_fresh`.
-/
namespace Sftp.C11
open Sftp Sftp.Handles

/-- All handles ever allocated in a session are pairwise distinct (and so are the live table keys). -/
theorem handles_fresh (cfg : Cfg) (hg : Good cfg) (acts : List Action) (s : State)
    (h : run cfg State.init acts = some s) :
    s.issued.Pairwise (· ≠ ·) ∧ (keys s).Pairwise (· ≠ ·) ∧ (∀ x ∈ s.issued, x ≤ s.count) := by
  have hi := run_inv hg acts (Inv.init cfg) h
  exact ⟨hi.issued_nodup, hi.keys_nodup, hi.issued_le⟩

/-- The handle STRINGS (decimal representation of the numbers, what `strconv.Itoa` produces) are
pairwise distinct as well. -/
theorem handle_strings_fresh (cfg : Cfg) (hg : Good cfg) (acts : List Action) (s : State)
    (h : run cfg State.init acts = some s) : (s.issued.map Nat.repr).Pairwise (· ≠ ·) := by
  have hi := run_inv hg acts (Inv.init cfg) h
  rw [List.pairwise_map]
  exact List.Pairwise.imp (fun hne heq => hne (Nat.repr_injective heq)) hi.issued_nodup

/-- A request naming a handle that was never issued, or on which a close already succeeded, is answered
EBADF and changes nothing but the log: no object is touched, closed, notified or cancelled, the table
and the counter are as before.  Same for a close of such a handle, and for a READ / WRITE / READDIR
(`useAs`) whatever kind it asks for. -/
theorem stale_handle_rejected (cfg : Cfg) (hg : Good cfg) (acts : List Action) (s : State)
    (h : run cfg State.init acts = some s) (hlive : s.ended = false) (hd : Nat)
    (hstale : hd ∉ s.issued ∨ hd ∈ s.closedH) :
    step cfg s (.use hd) = some { s with log := s.log ++ [.ebadf] } ∧
    step cfg s (.close hd) = some { s with log := s.log ++ [.ebadf] } ∧
    ∀ n, step cfg s (.useAs hd n) = some { s with log := s.log ++ [.ebadf] } := by
  have hi := run_inv hg acts (Inv.init cfg) h
  have hk : hd ∉ s.open.map (·.1) := by
    rcases hstale with h1 | h1
    · intro hm; obtain ⟨e, he, h2⟩ := List.mem_map.mp hm
      exact h1 (h2 ▸ hi.open_issued e he)
    · exact hi.closed_not_open hd h1
  have hl := lookup_none_of_not_mem _ _ hk
  simp [step, hlive, live, hl]

/-- Once a close of `hd` succeeded, `hd` is rejected in every later state of the session, whatever
happens in between (handles are never re-issued). -/
theorem closed_handle_stays_rejected (cfg : Cfg) (hg : Good cfg) (acts₁ acts₂ : List Action)
    (s₁ s₂ s₃ : State) (hd : Nat)
    (h₁ : run cfg State.init acts₁ = some s₁) (hopen : hd ∈ keys s₁)
    (hc : step cfg s₁ (.close hd) = some s₂) (h₂ : run cfg s₂ acts₂ = some s₃) (hlive : s₃.ended = false) :
    s₂.log = s₁.log ++ [.ok] ∧
    step cfg s₃ (.use hd) = some { s₃ with log := s₃.log ++ [.ebadf] } ∧
    step cfg s₃ (.close hd) = some { s₃ with log := s₃.log ++ [.ebadf] } ∧
    ∀ n, step cfg s₃ (.useAs hd n) = some { s₃ with log := s₃.log ++ [.ebadf] } := by
  have hi₁ := run_inv hg acts₁ (Inv.init cfg) h₁
  have hi₂ := step_inv hg hi₁ hc
  have hi₃ := run_inv hg acts₂ hi₂ h₂
  obtain ⟨hne, hl⟩ := step_live hc
  have hcl : s₂.log = s₁.log ++ [.ok] ∧ hd ∈ s₂.closedH := by
    simp only [live] at hl
    split at hl
    · injection hl with hl; subst hl; simp [closeEntry]
    · next hnone =>
      exfalso
      obtain ⟨e, he, h1⟩ := List.mem_map.mp hopen
      have := lookup_ne_none_of_mem _ e he
      rw [h1] at this
      exact this hnone
  have hk : hd ∉ s₃.open.map (·.1) := hi₃.closed_not_open hd ((run_mono hg acts₂ h₂).1 hd hcl.2)
  have hl3 := lookup_none_of_not_mem _ _ hk
  refine ⟨hcl.1, ?_, ?_, ?_⟩ <;> simp [step, hlive, live, hl3]

/-- A failed open leaves no handle behind: the table is as before.  Where the handle had been allocated
before the handler was asked (request server), the number is consumed and marked closed, and the
placeholder request was closed: its context is cancelled once, and — having no reader / writer / lister —
nothing else was closed or notified.  No other object changes. -/
theorem failed_open_drops_handle (cfg : Cfg) (hg : Good cfg) (acts : List Action) (s s' : State)
    (h : run cfg State.init acts = some s) (hs : step cfg s .openFail = some s') :
    s'.open = s.open ∧ s'.log = s.log ++ [.fail] ∧ (∀ id, id < s.nobj → s'.objs id = s.objs id) ∧
    (cfg.allocBeforeOpen = true →
      s'.count = s.count + 1 ∧ s.count + 1 ∈ s'.closedH ∧ s'.nobj = s.nobj + 1 ∧
      s'.objs s.nobj = { closed := 0, terr := 0, ctx := 1, touched := 0, kind := .placeholder }) ∧
    (cfg.allocBeforeOpen = false → s'.count = s.count ∧ s'.nobj = s.nobj) := by
  have hi := run_inv hg acts (Inv.init cfg) h
  obtain ⟨hne, hl⟩ := step_live hs
  simp only [live, hg.cfo, ↓reduceIte] at hl
  split at hl
  · next hab =>
    injection hl with hl; subst hl
    have hf : (s.open ++ [(s.count + 1, s.nobj)]).filter (fun e => !(e.1 == s.count + 1)) = s.open := by
      rw [List.filter_append]
      have h1 : s.open.filter (fun e => !(e.1 == s.count + 1)) = s.open := by
        apply List.filter_eq_self.mpr
        intro e he; have := hi.keys_le e he
        have : e.1 ≠ s.count + 1 := by omega
        simp [this]
      rw [h1]; simp
    simp only [closeEntry, opened, hg.del, hg.mono, if_true, hf]
    refine ⟨trivial, trivial, ?_, ?_, ?_⟩
    · intro id hlt
      have hne' : id ≠ s.nobj := by omega
      rw [upd_other _ _ _ _ hne', upd_other _ _ _ _ hne']
    · intro _; simp [Obj.close, Obj.new, Obj.real]
    · intro hf'; rw [hab] at hf'; cases hf'
  · next hab =>
    injection hl with hl; subst hl
    refine ⟨rfl, rfl, fun _ _ => rfl, ?_, fun _ => ⟨rfl, rfl⟩⟩
    intro hf'; exact absurd hf' hab

/-- Every object ever created is closed at most once at any time; not at all as long as its handle is
live (in the table while Serve runs); exactly as often as it has something to close (`real`: once; the
placeholder of a failed open: never) as soon as its handle has left the table or Serve has returned —
whether or not the final sweep also removed the table entry.  In particular, once Serve has returned
every real object has been closed exactly once (never 0, never 2). -/
theorem closed_exactly_once (cfg : Cfg) (hg : Good cfg) (acts : List Action) (s : State)
    (h : run cfg State.init acts = some s) (id : Nat) (hid : id < s.nobj) :
    (s.objs id).closed ≤ 1 ∧
    (s.ended = false → id ∈ ids s → (s.objs id).closed = 0) ∧
    (id ∉ ids s ∨ s.ended = true → (s.objs id).closed = (s.objs id).real.toNat) ∧
    (s.ended = true → (s.objs id).real = true → (s.objs id).closed = 1) := by
  have hi := run_inv hg acts (Inv.init cfg) h
  have hopen : s.ended = false → id ∈ ids s → (s.objs id).closed = 0 := by
    intro hne hm; obtain ⟨e, he, h1⟩ := List.mem_map.mp hm
    have := (hi.obj_open hne e he).1; rw [h1] at this; exact this
  have hclosed : id ∉ ids s ∨ s.ended = true → (s.objs id).closed = (s.objs id).real.toNat :=
    fun hm => (hi.obj_closed id hid hm).1
  refine ⟨?_, hopen, hclosed, ?_⟩
  · by_cases hm : id ∉ ids s ∨ s.ended = true
    · rw [hclosed hm]; cases (s.objs id).real <;> simp
    · have hm' : id ∈ ids s ∧ s.ended = false := by
        constructor
        · exact Classical.not_not.mp (fun hn => hm (Or.inl hn))
        · cases he : s.ended with
          | false => rfl
          | true => exact absurd (Or.inr he) hm
      rw [hopen hm'.2 hm'.1]; exact Nat.zero_le _
  · intro he hr
    rw [hclosed (Or.inr he), hr]; rfl

/-- The transfer-error notification is delivered exactly to the objects whose handle was still open at
the sweep and whose kind `Request.transferError` tells, exactly once, and only when the session ended
with an error and the server notifies at all; before the sweep nobody has been notified. -/
theorem transfer_error_exactly_open (cfg : Cfg) (hg : Good cfg) (acts : List Action) (s s' : State)
    (err : Bool) (h : run cfg State.init acts = some s) (hs : step cfg s (.sweep err) = some s') :
    (∀ id, (s.objs id).terr = 0) ∧
    (∀ id, (s'.objs id).terr =
      if (cfg.sweepNotifiesTransferError && err) = true ∧ id ∈ ids s ∧ cfg.notifies (s.objs id).kind = true
      then 1 else 0) ∧
    s'.ended = true := by
  have hi := run_inv hg acts (Inv.init cfg) h
  obtain ⟨hne, hl⟩ := step_live hs
  have hz := hi.terr_zero hne
  simp only [live, Option.some.injEq] at hl
  subst hl
  refine ⟨hz, ?_, rfl⟩
  intro id
  simp only [ids]
  by_cases hm : id ∈ s.open.map (·.2)
  · rw [if_pos hm, (sweepObj_fields hg.swp err (s.objs id)).2.2.2.2.2, hz id]
    by_cases hn : (cfg.sweepNotifiesTransferError && err) = true
    · by_cases hk : cfg.notifies (s.objs id).kind = true <;> simp [hm, hn, hk]
    · simp [hn]
  · simp [hm, hz id]

/-- (a) With `Request.transferError` telling exactly the reader / writer / reader-writer objects
(`NotifiesTransfer`, request.go:282-300) and the sweep calling it (`sweepNotifiesTransferError`,
request-server.go:214): at the sweep of a session that ended with an error, exactly the reader / writer /
reader-writer objects that were never closed get TransferError, exactly once (nobody was told before,
nothing happens afterwards); "never closed" is "its handle is still in the table"; listers, placeholders
and objects that have been closed are never told; without an error nobody is told. -/
theorem transfer_error_exactly_to_live_transfer_objects (cfg : Cfg) (hg : Good cfg)
    (hn : cfg.sweepNotifiesTransferError = true) (hk : NotifiesTransfer cfg)
    (acts : List Action) (s s' : State) (err : Bool)
    (h : run cfg State.init acts = some s) (hs : step cfg s (.sweep err) = some s')
    (id : Nat) (hid : id < s.nobj) :
    (s.objs id).terr = 0 ∧
    (s'.objs id).terr =
      (if err = true ∧ (s.objs id).kind.isTransfer = true ∧ (s.objs id).closed = 0 then 1 else 0) ∧
    ((s.objs id).kind.isTransfer = true → ((s.objs id).closed = 0 ↔ id ∈ ids s)) ∧
    ((s.objs id).kind = .lister ∨ (s.objs id).kind = .placeholder ∨ 1 ≤ (s.objs id).closed →
      (s'.objs id).terr = 0) ∧
    (∀ act, step cfg s' act = none) := by
  have hi := run_inv hg acts (Inv.init cfg) h
  obtain ⟨hne, _⟩ := step_live hs
  obtain ⟨hz, ht, he⟩ := transfer_error_exactly_open cfg hg acts s s' err h hs
  have hiff : (s.objs id).kind.isTransfer = true → ((s.objs id).closed = 0 ↔ id ∈ ids s) := by
    intro hT
    have hreal : (s.objs id).real = true := by
      unfold Obj.real; revert hT; cases (s.objs id).kind <;> simp [Kind.isTransfer]
    constructor
    · intro hc
      apply Classical.not_not.mp
      intro hnm
      have := (hi.obj_closed id hid (Or.inl hnm)).1
      rw [hreal, hc] at this; cases this
    · intro hm
      obtain ⟨e, hem, h1⟩ := List.mem_map.mp hm
      have := (hi.obj_open hne e hem).1; rw [h1] at this; exact this
  have hval : (s'.objs id).terr =
      (if err = true ∧ (s.objs id).kind.isTransfer = true ∧ (s.objs id).closed = 0 then 1 else 0) := by
    rw [ht id, hn, hk (s.objs id).kind]
    by_cases hT : (s.objs id).kind.isTransfer = true
    · have := hiff hT
      by_cases hc : (s.objs id).closed = 0
      · have hm := this.mp hc
        cases err <;> simp [hT, hc, hm]
      · have hm : id ∉ ids s := fun hm => hc (this.mpr hm)
        simp [hc, hm]
    · simp [hT]
  refine ⟨hz id, hval, hiff, ?_, fun act => by simp [step, he]⟩
  intro hcase
  rw [hval]
  rcases hcase with hl | hl | hl
  · simp [hl, Kind.isTransfer]
  · simp [hl, Kind.isTransfer]
  · have : (s.objs id).closed ≠ 0 := by omega
    simp [this]

/-- The context handed to an open / opendir handler is cancelled (exactly once) as soon as its handle
is no longer live — closed by the client, dropped after a failed open — and in any case once Serve has
returned; while the handle is live it is not cancelled. -/
theorem ctx_cancelled (cfg : Cfg) (hg : Good cfg) (acts : List Action) (s : State)
    (h : run cfg State.init acts = some s) (id : Nat) (hid : id < s.nobj) :
    (s.ended = false → id ∈ ids s → (s.objs id).ctx = 0) ∧ (id ∉ ids s → (s.objs id).ctx = 1) ∧
    (s.ended = true → (s.objs id).ctx = 1) := by
  have hi := run_inv hg acts (Inv.init cfg) h
  refine ⟨?_, fun hm => (hi.obj_closed id hid (Or.inl hm)).2, fun he => (hi.obj_closed id hid (Or.inr he)).2⟩
  intro hne hm; obtain ⟨e, he, h1⟩ := List.mem_map.mp hm
  have := (hi.obj_open hne e he).2; rw [h1] at this; exact this

/-- (b) After the sweep nothing more happens — no request is processed any more, so what is left in
the table cannot be reached — and everything has been released: every object was closed exactly as
often as it has something to close and its context was cancelled once.  Only where the sweep also
deletes (`sweepEmptiesTable`: the request server) is the table empty as well. -/
theorem ended_final (cfg : Cfg) (hg : Good cfg) (acts : List Action) (s : State)
    (h : run cfg State.init acts = some s) (he : s.ended = true) :
    (cfg.sweepEmptiesTable = true → s.open = []) ∧ (∀ act, step cfg s act = none) ∧
    (∀ id, id < s.nobj → (s.objs id).closed = (s.objs id).real.toNat ∧ (s.objs id).ctx = 1) := by
  have hi := run_inv hg acts (Inv.init cfg) h
  refine ⟨hi.ended_open he, ?_, fun id hid => hi.obj_closed id hid (Or.inr he)⟩
  intro act; simp [step, he]

/-- (d) Request server (`useKindChecked`: `request.servesPacket`, request-server.go:321): a READ /
WRITE / READDIR naming a live handle whose object is of another kind is answered with a failure and
changes nothing but the log — in every state, reachable or not: no object is touched (nor closed,
notified, cancelled), the table and the counter are as before. -/
theorem wrong_kind_use_never_touches (cfg : Cfg) (hc : cfg.useKindChecked = true) (s s' : State)
    (hd id : Nat) (n : Need) (hl : s.open.lookup hd = some id) (hw : fits n (s.objs id).kind = false)
    (hs : step cfg s (.useAs hd n) = some s') :
    s' = { s with log := s.log ++ [.wrongKind] } ∧ (∀ i, (s'.objs i).touched = (s.objs i).touched) := by
  obtain ⟨_, hl'⟩ := step_live hs
  simp only [live, hl, hw, hc, Bool.false_eq_true, ↓reduceIte, Option.some.injEq] at hl'
  subst hl'
  exact ⟨rfl, fun _ => rfl⟩

/-- A request that fits the kind of its live handle calls exactly the object behind that handle, once,
and nothing else changes (whatever the configuration). -/
theorem fitting_use_touches_target (cfg : Cfg) (s s' : State) (hd id : Nat) (n : Need)
    (hl : s.open.lookup hd = some id) (hf : fits n (s.objs id).kind = true)
    (hs : step cfg s (.useAs hd n) = some s') :
    s' = { s with objs := upd s.objs id (s.objs id).touch, log := s.log ++ [.ok] } ∧
    (s'.objs id).touched = (s.objs id).touched + 1 ∧ (∀ i, i ≠ id → s'.objs i = s.objs i) := by
  obtain ⟨_, hl'⟩ := step_live hs
  simp only [live, hl, hf, ↓reduceIte, Option.some.injEq] at hl'
  subst hl'
  refine ⟨rfl, by simp [Obj.touch], fun i hi => upd_other _ _ _ _ hi⟩

/-- os-backed server (`useKindChecked = false`: `getHandle`, then `f.ReadAt` / `f.WriteAt` /
`f.Readdir`, server.go:329-333, 349-352, 529-534): the file IS called and its own error is the reply. -/
theorem wrong_kind_use_unchecked_touches (cfg : Cfg) (hc : cfg.useKindChecked = false) (s s' : State)
    (hd id : Nat) (n : Need) (hl : s.open.lookup hd = some id) (hw : fits n (s.objs id).kind = false)
    (hs : step cfg s (.useAs hd n) = some s') :
    s' = { s with objs := upd s.objs id (s.objs id).touch, log := s.log ++ [.wrongKind] } := by
  obtain ⟨_, hl'⟩ := step_live hs
  simp only [live, hl, hw, hc, Bool.false_eq_true, ↓reduceIte, Option.some.injEq] at hl'
  exact hl'.symm

/-- An object keeps the kind it was created with for the rest of the session. -/
theorem object_kind_fixed (cfg : Cfg) (acts₁ acts₂ : List Action) (s₁ s₂ : State)
    (_h₁ : run cfg State.init acts₁ = some s₁) (h₂ : run cfg s₁ acts₂ = some s₂) (id : Nat) (hid : id < s₁.nobj) :
    id < s₂.nobj ∧ (s₂.objs id).kind = (s₁.objs id).kind := by
  have := run_kind acts₂ h₂
  exact ⟨by omega, this.2 id hid⟩

/-! ### the hypotheses are met by the code as it is, and are needed -/

example : Good Cfg.current := by decide
example : Good Cfg.currentOs := by decide
example : NotifiesTransfer Cfg.current ∧ Cfg.current.sweepNotifiesTransferError = true := by decide
example : Cfg.current.useKindChecked = true ∧ Cfg.currentOs.useKindChecked = false := by decide
example : Cfg.current.sweepEmptiesTable = true ∧ Cfg.currentOs.sweepEmptiesTable = false := by decide

/-- A session with a reader and a lister, a failed open, a stale use, a double close, a READ through the
directory handle, a writer, and a broken connection while the lister (handle 2) and a second reader
(handle 5) are still open: a non-trivial member of the quantified domain. -/
def sample : List Action :=
  [.openOk .reader, .openOk .lister, .use 1, .openFail, .use 3, .close 1, .close 1, .useAs 2 .read,
   .useAs 2 .readdir, .openOk .writer, .close 4, .openOk .reader, .useAs 5 .write, .sweep true]

example : (run Cfg.current State.init sample).map
      (fun s => (s.log, [s.objs 0, s.objs 1, s.objs 2, s.objs 3, s.objs 4], s.open, s.issued)) =
    some ([.ok, .ok, .ok, .fail, .ebadf, .ok, .ebadf, .wrongKind, .ok, .ok, .ok, .ok, .wrongKind, .ok],
      [{ closed := 1, terr := 0, ctx := 1, touched := 1, kind := .reader },
       { closed := 1, terr := 0, ctx := 1, touched := 1, kind := .lister },
       { closed := 0, terr := 0, ctx := 1, touched := 0, kind := .placeholder },
       { closed := 1, terr := 0, ctx := 1, touched := 0, kind := .writer },
       { closed := 1, terr := 1, ctx := 1, touched := 0, kind := .reader }], [], [1, 2, 3, 4, 5]) := by decide

/-- The same session on the os-backed server: the failed open allocates nothing (handles 1..4), the
wrong-kind requests reach the file, nobody is notified, and the sweep leaves its entries in the map —
with everything closed once all the same. -/
example : (run Cfg.currentOs State.init sample).map
      (fun s => (s.log, [s.objs 0, s.objs 1, s.objs 2, s.objs 3], s.open, s.issued)) =
    some ([.ok, .ok, .ok, .fail, .ebadf, .ok, .ebadf, .wrongKind, .ok, .ok, .ebadf, .ok, .ebadf, .ok],
      [{ closed := 1, terr := 0, ctx := 1, touched := 1, kind := .reader },
       { closed := 1, terr := 0, ctx := 1, touched := 2, kind := .lister },
       { closed := 1, terr := 0, ctx := 1, touched := 0, kind := .writer },
       { closed := 1, terr := 0, ctx := 1, touched := 0, kind := .reader }], [(2, 1), (3, 2), (4, 3)],
      [1, 2, 3, 4]) := by decide

/-- Non-vacuity of `wrong_kind_use_never_touches`: a reachable state with a live directory handle. -/
example : ∃ s, run Cfg.current State.init [.openOk .lister] = some s ∧ s.open.lookup 1 = some 0 ∧
    fits .read (s.objs 0).kind = false ∧ (step Cfg.current s (.useAs 1 .read)).isSome = true :=
  ⟨_, rfl, by decide, by decide, by decide⟩

/-- Non-vacuity of `transfer_error_exactly_to_live_transfer_objects`: reader closed, writer, reader-writer
and lister live at a sweep with an error: exactly the writer and the reader-writer are told. -/
example : (run Cfg.current State.init
      [.openOk .reader, .openOk .writer, .openOk .readerWriter, .openOk .lister, .openFail, .close 1, .sweep true]).map
      (fun s => (List.range s.nobj).map (fun i => (s.objs i).terr)) = some [0, 1, 1, 0, 0] := by decide

/-- Non-vacuity of `closed_handle_stays_rejected` / `stale_handle_rejected`. -/
example : (run Cfg.current State.init [.openOk .reader, .close 1, .openOk .writer, .use 1, .useAs 1 .read, .close 1]).map
      (fun s => (s.log, s.closedH, (s.objs 0).touched)) =
    some ([.ok, .ok, .ok, .ebadf, .ebadf, .ebadf], [1], 0) := by decide

/-- `deleteOnClose` is needed: a second CLOSE of the same handle closes the object again. -/
theorem deleteOnClose_needed :
    (run { Cfg.current with deleteOnClose := false } State.init [.openOk .reader, .close 1, .close 1]).map
      (fun s => ((s.objs 0).closed, s.log)) = some (2, [.ok, .ok, .ok]) := by decide

/-- `sweepClosesAll` is needed: a handle left open when the connection breaks is never closed. -/
theorem sweepClosesAll_needed :
    (run { Cfg.current with sweepClosesAll := false } State.init [.openOk .reader, .sweep true]).map
      (fun s => ((s.objs 0).closed, (s.objs 0).ctx, s.ended)) = some (0, 0, true) := by decide

/-- `sweepEmptiesTable` is NOT needed: with the entries left in the map (os-backed server) everything is
closed once all the same and no request can reach the entries any more. -/
theorem sweepEmptiesTable_not_needed :
    (run { Cfg.current with sweepEmptiesTable := false } State.init [.openOk .reader, .sweep true]).map
      (fun s => ((s.objs 0).closed, (s.objs 0).ctx, s.open, s.ended)) = some (1, 1, [(1, 0)], true) ∧
    run { Cfg.current with sweepEmptiesTable := false } State.init [.openOk .reader, .sweep true, .use 1] = none := by
  constructor <;> decide

/-- `closeOnFailedOpen` is needed: the handle of a failed open stays usable. -/
theorem closeOnFailedOpen_needed :
    (run { Cfg.current with closeOnFailedOpen := false } State.init [.openFail, .use 1]).map
      (fun s => (s.open, s.log, (s.objs 0).touched)) = some ([(1, 0)], [.fail, .ok], 1) := by decide

/-- `counterMonotone` is needed: a counter that can go down re-issues a live handle. -/
theorem counterMonotone_needed :
    (run { Cfg.current with counterMonotone := false } State.init
      [.openOk .reader, .openOk .reader, .close 1, .openOk .reader]).map
      (fun s => (s.issued, s.open)) = some ([1, 2, 2], [(2, 1), (2, 2)]) := by decide

/-- `useKindChecked` is needed for `wrong_kind_use_never_touches`: without the check a READ through a
directory handle calls the lister. -/
theorem useKindChecked_needed :
    (run { Cfg.current with useKindChecked := false } State.init [.openOk .lister, .useAs 1 .read]).map
      (fun s => (s.log, (s.objs 0).touched)) = some ([.ok, .wrongKind], 1) := by decide

/-- `NotifiesTransfer` is needed: a `transferError` that also told listers would notify a ListerAt. -/
theorem notifyKinds_needed :
    (run { Cfg.current with notifyKinds := Kind.all } State.init [.openOk .lister, .sweep true]).map
      (fun s => (s.objs 0).terr) = some 1 := by decide

end Sftp.C11
