import Sftp.Proofs.Handles
import Std.Data.String.ToNat
/-
  C11 — handle table and resource release.

  Property theorems only.  Model: Sftp/Model/Handles.lean; every theorem is about ALL action lists (all
  sessions: any mix of successful / failed opens, uses and closes of arbitrary handle numbers, ended by
  the sweep of Serve with or without an error).  `Good cfg` collects the source facts used
  (closeHandle/closeRequest delete the entry, a failed open closes its handle, the final sweep closes
  everything, the counter only grows); whether the sweep notifies transfer errors (request server) or
  not (os-backed server) and whether the handle is allocated before the handler is asked are arbitrary.
  Handles are the numbers before `strconv.Itoa`; that Go's `strconv.Itoa` is the decimal representation
  (Lean's `Nat.repr`, proved injective in Std) is the one trusted fact — see `handle_strings_fresh`.
-/
namespace Sftp.C11
open Sftp Sftp.Handles

/-- All handles ever allocated in a session are pairwise distinct (and so are the live table keys). -/
theorem handles_fresh (cfg : Cfg) (hg : Good cfg) (acts : List Action) (s : State)
    (h : run cfg State.init acts = some s) :
    s.issued.Pairwise (· ≠ ·) ∧ (keys s).Pairwise (· ≠ ·) ∧ (∀ x ∈ s.issued, x ≤ s.count) := by
  have hi := run_inv hg acts Inv.init h
  exact ⟨hi.issued_nodup, hi.keys_nodup, hi.issued_le⟩

/-- The handle STRINGS (decimal representation of the numbers, what `strconv.Itoa` produces) are
pairwise distinct as well. -/
theorem handle_strings_fresh (cfg : Cfg) (hg : Good cfg) (acts : List Action) (s : State)
    (h : run cfg State.init acts = some s) : (s.issued.map Nat.repr).Pairwise (· ≠ ·) := by
  have hi := run_inv hg acts Inv.init h
  rw [List.pairwise_map]
  exact List.Pairwise.imp (fun hne heq => hne (Nat.repr_injective heq)) hi.issued_nodup

/-- A request naming a handle that was never issued, or on which a close already succeeded, is answered
EBADF and changes nothing but the log: no object is touched, closed, notified or cancelled, the table
and the counter are as before.  Same for a close of such a handle. -/
theorem stale_handle_rejected (cfg : Cfg) (hg : Good cfg) (acts : List Action) (s : State)
    (h : run cfg State.init acts = some s) (hlive : s.ended = false) (hd : Nat)
    (hstale : hd ∉ s.issued ∨ hd ∈ s.closedH) :
    step cfg s (.use hd) = some { s with log := s.log ++ [.ebadf] } ∧
    step cfg s (.close hd) = some { s with log := s.log ++ [.ebadf] } := by
  have hi := run_inv hg acts Inv.init h
  have hk : hd ∉ s.open.map (·.1) := by
    rcases hstale with h1 | h1
    · intro hm; obtain ⟨e, he, h2⟩ := List.mem_map.mp hm
      exact h1 (h2 ▸ hi.open_issued e he)
    · exact hi.closed_not_open hd h1
  have hl := lookup_none_of_not_mem _ _ hk
  simp [step, hlive, live, hl]

/-- Once a close of `hd` succeeded, `hd` is rejected in every later state of the session, whatever
happens in between (handles are never re-issued). -/
theorem closed_handle_stays_rejected (cfg : Cfg) (hg : Good cfg) (acts₁ acts₂ : List Action)
    (s₁ s₂ s₃ : State) (hd : Nat)
    (h₁ : run cfg State.init acts₁ = some s₁) (hopen : hd ∈ keys s₁)
    (hc : step cfg s₁ (.close hd) = some s₂) (h₂ : run cfg s₂ acts₂ = some s₃) (hlive : s₃.ended = false) :
    s₂.log = s₁.log ++ [.ok] ∧
    step cfg s₃ (.use hd) = some { s₃ with log := s₃.log ++ [.ebadf] } ∧
    step cfg s₃ (.close hd) = some { s₃ with log := s₃.log ++ [.ebadf] } := by
  have hi₁ := run_inv hg acts₁ Inv.init h₁
  have hi₂ := step_inv hg hi₁ hc
  have hi₃ := run_inv hg acts₂ hi₂ h₂
  obtain ⟨hne, hl⟩ := step_live hc
  have hcl : s₂.log = s₁.log ++ [.ok] ∧ hd ∈ s₂.closedH := by
    simp only [live] at hl
    split at hl
    · injection hl with hl; subst hl; simp [closeEntry]
    · next hnone =>
      exfalso
      obtain ⟨e, he, h1⟩ := List.mem_map.mp hopen
      have : ∀ (l : List (Nat × Nat)), e ∈ l → l.lookup hd ≠ none := by
        intro l
        induction l with
        | nil => intro h; cases h
        | cons x t ih =>
          intro hm hn
          rw [List.lookup_cons] at hn
          by_cases hx : hd = x.1
          · simp [hx] at hn
          · have : (hd == x.1) = false := by simp [hx]
            rw [this] at hn
            simp only [List.mem_cons] at hm
            rcases hm with hm | hm
            · subst hm; exact hx h1.symm
            · exact ih hm hn
      exact this _ he hnone
  have hk : hd ∉ s₃.open.map (·.1) := hi₃.closed_not_open hd ((run_mono hg acts₂ h₂).1 hd hcl.2)
  have hl3 := lookup_none_of_not_mem _ _ hk
  refine ⟨hcl.1, ?_, ?_⟩ <;> simp [step, hlive, live, hl3]

/-- A failed open leaves no handle behind: the table is as before.  Where the handle had been allocated
before the handler was asked (request server), the number is consumed and marked closed, and the
placeholder request was closed: its context is cancelled once, and — having no reader / writer / lister —
nothing else was closed or notified.  No other object changes. -/
theorem failed_open_drops_handle (cfg : Cfg) (hg : Good cfg) (acts : List Action) (s s' : State)
    (h : run cfg State.init acts = some s) (hs : step cfg s .openFail = some s') :
    s'.open = s.open ∧ s'.log = s.log ++ [.fail] ∧ (∀ id, id < s.nobj → s'.objs id = s.objs id) ∧
    (cfg.allocBeforeOpen = true →
      s'.count = s.count + 1 ∧ s.count + 1 ∈ s'.closedH ∧ s'.nobj = s.nobj + 1 ∧
      s'.objs s.nobj = { closed := 0, terr := 0, ctx := 1, touched := 0, real := false }) ∧
    (cfg.allocBeforeOpen = false → s'.count = s.count ∧ s'.nobj = s.nobj) := by
  have hi := run_inv hg acts Inv.init h
  obtain ⟨hne, hl⟩ := step_live hs
  simp only [live, hg.cfo, ↓reduceIte] at hl
  split at hl
  · next hab =>
    injection hl with hl; subst hl
    have hf : (s.open ++ [(s.count + 1, s.nobj)]).filter (fun e => !(e.1 == s.count + 1)) = s.open := by
      rw [List.filter_append]
      have h1 : s.open.filter (fun e => !(e.1 == s.count + 1)) = s.open := by
        apply List.filter_eq_self.mpr
        intro e he; have := hi.keys_le e he
        have : e.1 ≠ s.count + 1 := by omega
        simp [this]
      rw [h1]; simp
    simp only [closeEntry, opened, hg.del, hg.mono, if_true, hf]
    refine ⟨trivial, trivial, ?_, ?_, ?_⟩
    · intro id hlt
      have hne' : id ≠ s.nobj := by omega
      rw [upd_other _ _ _ _ hne', upd_other _ _ _ _ hne']
    · intro _; simp [Obj.close, Obj.new]
    · intro hf'; rw [hab] at hf'; cases hf'
  · next hab =>
    injection hl with hl; subst hl
    refine ⟨rfl, rfl, fun _ _ => rfl, ?_, fun _ => ⟨rfl, rfl⟩⟩
    intro hf'; exact absurd hf' hab

/-- Every object ever created is closed at most once at any time, exactly as long as its handle is in
the table not at all, and — once Serve has returned — exactly once (never 0, never 2) if it has
anything to close (`real`; the placeholder of a failed open has nothing to close: 0). -/
theorem closed_exactly_once (cfg : Cfg) (hg : Good cfg) (acts : List Action) (s : State)
    (h : run cfg State.init acts = some s) (id : Nat) (hid : id < s.nobj) :
    (s.objs id).closed ≤ 1 ∧
    (id ∈ ids s → (s.objs id).closed = 0) ∧
    (id ∉ ids s → (s.objs id).closed = (s.objs id).real.toNat) ∧
    (s.ended = true → (s.objs id).real = true → (s.objs id).closed = 1) := by
  have hi := run_inv hg acts Inv.init h
  have hopen : id ∈ ids s → (s.objs id).closed = 0 := by
    intro hm; obtain ⟨e, he, h1⟩ := List.mem_map.mp hm
    have := (hi.obj_open e he).1; rw [h1] at this; exact this
  have hclosed : id ∉ ids s → (s.objs id).closed = (s.objs id).real.toNat :=
    fun hm => (hi.obj_closed id hid hm).1
  refine ⟨?_, hopen, hclosed, ?_⟩
  · by_cases hm : id ∈ ids s
    · rw [hopen hm]; exact Nat.zero_le _
    · rw [hclosed hm]; cases (s.objs id).real <;> simp
  · intro he hr
    have : id ∉ ids s := by simp [ids, hi.ended_open he]
    rw [hclosed this, hr]; rfl

/-- The transfer-error notification is delivered exactly to the objects whose handle was still open at
the sweep, exactly once, and only when the session ended with an error and the server notifies at all;
before the sweep nobody has been notified. -/
theorem transfer_error_exactly_open (cfg : Cfg) (hg : Good cfg) (acts : List Action) (s s' : State)
    (err : Bool) (h : run cfg State.init acts = some s) (hs : step cfg s (.sweep err) = some s') :
    (∀ id, (s.objs id).terr = 0) ∧
    (∀ id, (s'.objs id).terr =
      if (cfg.sweepNotifiesTransferError && err) = true ∧ id ∈ ids s then 1 else 0) ∧
    s'.ended = true := by
  have hi := run_inv hg acts Inv.init h
  obtain ⟨hne, hl⟩ := step_live hs
  have hz := hi.terr_zero hne
  simp only [live, hg.swp, ↓reduceIte, Option.some.injEq] at hl
  subst hl
  refine ⟨hz, ?_, rfl⟩
  intro id
  simp only [ids]
  by_cases hm : id ∈ s.open.map (·.2)
  · by_cases hn : (cfg.sweepNotifiesTransferError && err) = true
    · simp [hm, hn, Obj.close, Obj.notify, hz id]
    · simp [hm, hn, Obj.close, hz id]
  · simp [hm, hz id]

/-- The context handed to an open / opendir handler is cancelled (exactly once) as soon as its handle
is no longer in the table — closed by the client, dropped after a failed open — and in any case once
Serve has returned; while the handle is open it is not cancelled. -/
theorem ctx_cancelled (cfg : Cfg) (hg : Good cfg) (acts : List Action) (s : State)
    (h : run cfg State.init acts = some s) (id : Nat) (hid : id < s.nobj) :
    (id ∈ ids s → (s.objs id).ctx = 0) ∧ (id ∉ ids s → (s.objs id).ctx = 1) ∧
    (s.ended = true → (s.objs id).ctx = 1) := by
  have hi := run_inv hg acts Inv.init h
  refine ⟨?_, fun hm => (hi.obj_closed id hid hm).2, ?_⟩
  · intro hm; obtain ⟨e, he, h1⟩ := List.mem_map.mp hm
    have := (hi.obj_open e he).2; rw [h1] at this; exact this
  · intro he
    have : id ∉ ids s := by simp [ids, hi.ended_open he]
    exact (hi.obj_closed id hid this).2

/-- After the sweep the table is empty and nothing more happens. -/
theorem ended_final (cfg : Cfg) (hg : Good cfg) (acts : List Action) (s : State)
    (h : run cfg State.init acts = some s) (he : s.ended = true) :
    s.open = [] ∧ ∀ act, step cfg s act = none := by
  refine ⟨(run_inv hg acts Inv.init h).ended_open he, ?_⟩
  intro act; simp [step, he]

/-! ### the hypotheses are met by the code as it is, and are needed -/

example : Good Cfg.current := by decide
example : Good Cfg.currentOs := by decide

/-- A session with two real opens, a failed open, a stale use, a double close, and a broken connection
while handle 2 is still open: a non-trivial member of the quantified domain. -/
def sample : List Action :=
  [.openOk, .openOk, .use 1, .openFail, .use 3, .close 1, .close 1, .use 2, .openOk, .close 4, .sweep true]

example : (run Cfg.current State.init sample).map (fun s => (s.log, [s.objs 0, s.objs 1, s.objs 2, s.objs 3])) =
    some ([.ok, .ok, .ok, .fail, .ebadf, .ok, .ebadf, .ok, .ok, .ok, .ok],
      [{ closed := 1, terr := 0, ctx := 1, touched := 1, real := true },
       { closed := 1, terr := 1, ctx := 1, touched := 1, real := true },
       { closed := 0, terr := 0, ctx := 1, touched := 0, real := false },
       { closed := 1, terr := 0, ctx := 1, touched := 0, real := true }]) := by decide

/-- `deleteOnClose` is needed: a second CLOSE of the same handle closes the object again. -/
theorem deleteOnClose_needed :
    (run { Cfg.current with deleteOnClose := false } State.init [.openOk, .close 1, .close 1]).map
      (fun s => ((s.objs 0).closed, s.log)) = some (2, [.ok, .ok, .ok]) := by decide

/-- `sweepClosesAll` is needed: a handle left open when the connection breaks is never closed. -/
theorem sweepClosesAll_needed :
    (run { Cfg.current with sweepClosesAll := false } State.init [.openOk, .sweep true]).map
      (fun s => ((s.objs 0).closed, (s.objs 0).ctx, s.ended)) = some (0, 0, true) := by decide

/-- `closeOnFailedOpen` is needed: the handle of a failed open stays usable. -/
theorem closeOnFailedOpen_needed :
    (run { Cfg.current with closeOnFailedOpen := false } State.init [.openFail, .use 1]).map
      (fun s => (s.open, s.log, (s.objs 0).touched)) = some ([(1, 0)], [.fail, .ok], 1) := by decide

/-- `counterMonotone` is needed: a counter that can go down re-issues a live handle. -/
theorem counterMonotone_needed :
    (run { Cfg.current with counterMonotone := false } State.init [.openOk, .openOk, .close 1, .openOk]).map
      (fun s => (s.issued, s.open)) = some ([1, 2, 2], [(2, 1), (2, 2)]) := by decide

end Sftp.C11
