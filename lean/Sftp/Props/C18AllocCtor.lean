import Sftp.Model.AllocCtor
import Sftp.Generated.AllocCtor
/-
  C18 / C15 — every server has its own allocator (source shape of seeded defect C18_h: `alloc := newAllocator()`
  hoisted out of the closure WithAllocator / WithRSAllocator return, so that all servers built from one option value
  share one allocator, whose pages are keyed by per-server order ids).

  Facts: `Generated/AllocCtor.lean` (translator unit AllocCtor, /verif/extract/round4.go): every expression that creates
  an allocator with the place it stands in, every assignment to an `alloc` field with the origin of the value, and
  every option constructor of the package with the statements outside the closure it returns.

  M-Alloc (Model/Alloc.lean, theorems in Props/C18) is a model of ONE allocator used by ONE controller; that two
  sessions never meet in an allocator is the assumption this file discharges.
-/
namespace Sftp.C18AllocCtor
open Sftp Sftp.AllocCtor

/-- C18AllocCtor.each_server_has_its_own_allocator — server.go WithAllocator, request-server.go WithRSAllocator: every
creation of an allocator stands inside the func literal the option constructor returns (or in NewServer /
NewRequestServer), both option constructors do create one, every value stored into an `alloc` field is a local defined
in that same literal from `newAllocator()`; hence any two different servers have different allocators, whichever option
values (the same one or not) they were built from. -/
theorem each_server_has_its_own_allocator :
    (G.allocatorPerServer = true ∧
     (G.allocCtorSites.map (·.1)).contains "WithAllocator" = true ∧
     (G.allocCtorSites.map (·.1)).contains "WithRSAllocator" = true ∧
     G.allocAssignSites.all (fun r => r.2.2 == "freshLocal" || r.2.2 == "freshCall") = true ∧
     G.allocAssignSites.length = 2 * G.allocCtorSites.length) ∧
    ∀ row ∈ G.allocCtorSites, ∃ s, parseSite row.2 = some s ∧
      ∀ opt₁ opt₂ srv₁ srv₂ : Nat, srv₁ ≠ srv₂ → allocOf s opt₁ srv₁ ≠ allocOf s opt₂ srv₂ := by
  refine ⟨by decide, ?_⟩
  have hall : G.allocCtorSites.all (fun row => match parseSite row.2 with
      | some s => s.perServer | none => false) = true := by decide
  intro row hrow
  have h := List.all_eq_true.mp hall row hrow
  cases hp : parseSite row.2 with
  | none => simp [hp] at h
  | some s =>
    simp [hp] at h
    exact ⟨s, rfl, own_allocator s h⟩

/-- non-vacuity: there are creation sites, and servers 0 and 1 built from option value 0 differ -/
example : G.allocCtorSites.length = 2 ∧ allocOf .inClosure 0 0 ≠ allocOf .inClosure 0 1 := by decide

/-- C18AllocCtor.option_constructors_evaluate_nothing_early — server.go, request-server.go, client.go: every function
returning a `…Option` consists of `return func(…) { … }` alone (or hands its own parameters to another one of them):
no statement is evaluated when the option VALUE is built, and no returned closure mentions a package-level variable.
So applying one option value to several servers / clients gives each of them state of its own. -/
theorem option_constructors_evaluate_nothing_early :
    G.optionCtorOuterStmts.all (fun r => r.2.isEmpty) = true ∧
    G.optionCtorGlobals.all (fun r => r.2.isEmpty) = true ∧
    G.optionCtorDelegates.all (fun d => (G.optionCtorOuterStmts.map (·.1)).contains d.2 && d.1 != d.2) = true ∧
    (["WithAllocator", "WithRSAllocator", "WithMaxTxPacket", "WithRSMaxTxPacket", "MaxPacketChecked",
      "UseConcurrentWrites"].all (G.optionCtorOuterStmts.map (·.1)).contains) = true := by
  decide

/-! ### the seeded shape -/

/-- C18AllocCtor.seed_hoisted_allocator_is_shared — seed C18_h (creation in the option constructor's body): servers 0 and
1 built from ONE option value share the allocator (with two option values they do not: the package's own tests,
which build a fresh option per server, cannot see it); a package-level allocator is shared by everybody. -/
theorem seed_hoisted_allocator_is_shared :
    allocOf .outsideClosure 0 0 = allocOf .outsideClosure 0 1 ∧
    allocOf .outsideClosure 0 0 ≠ allocOf .outsideClosure 1 1 ∧
    allocOf .packageLevel 0 0 = allocOf .packageLevel 1 1 := by decide

end Sftp.C18AllocCtor
