import Sftp.Props.C11
import Sftp.Generated.AllocHandles
/-
  C11 instantiated with the handle-table facts regenerated from server.go, request-server.go and
  request.go: the statements about the code as it is now, for both servers.

  `G.handlesCfgRS` / `G.handlesCfgOS` carry the six generated fields; the three fields that have no
  generated source yet (`sweepEmptiesTable`, `notifyKinds`, `useKindChecked`) are completed by
  `cfgOfRS` / `cfgOfOS` from the hand-written constants `Sftp.Handles.Hand.*` (Model/Handles.lean).
-/
namespace Sftp.C11
open Sftp Sftp.Handles

/-- The request server as it is now. -/
def cfgRS : Cfg := cfgOfRS G.handlesCfgRS
/-- The os-backed server as it is now. -/
def cfgOS : Cfg := cfgOfOS G.handlesCfgOS

theorem current_good_rs : Good cfgRS := by decide
theorem current_good_os : Good cfgOS := by decide

/-- The generated part alone (what `cur.cfg c11rs` / `c11os` print) meets `Good` as well. -/
theorem current_good_rs_generated : Good G.handlesCfgRS := by decide
theorem current_good_os_generated : Good G.handlesCfgOS := by decide

/-- Request.close cancels the context created by requestFromPacket. -/
theorem close_cancels_context : G.requestCloseCancelsContext = true := by decide

/-- Request.transferError tells exactly readers, writers and reader-writers, and the sweep calls it. -/
theorem current_notifies_transfer_rs : NotifiesTransfer cfgRS ∧ cfgRS.sweepNotifiesTransferError = true := by
  decide

/-- The request server checks a request against the kind of its handle; the os-backed server's sweep
leaves the map as it is. -/
theorem current_kind_checked_rs : cfgRS.useKindChecked = true := by decide
theorem current_sweep_keeps_table_os : cfgOS.sweepEmptiesTable = false ∧ cfgOS.sweepClosesAll = true := by decide

theorem closed_exactly_once_rs (acts : List Action) (s : State) (h : run cfgRS State.init acts = some s)
    (id : Nat) (hid : id < s.nobj) (he : s.ended = true) (hr : (s.objs id).real = true) : (s.objs id).closed = 1 :=
  (closed_exactly_once cfgRS current_good_rs acts s h id hid).2.2.2 he hr

theorem closed_exactly_once_os (acts : List Action) (s : State) (h : run cfgOS State.init acts = some s)
    (id : Nat) (hid : id < s.nobj) (he : s.ended = true) (hr : (s.objs id).real = true) : (s.objs id).closed = 1 :=
  (closed_exactly_once cfgOS current_good_os acts s h id hid).2.2.2 he hr

theorem handle_strings_fresh_rs (acts : List Action) (s : State) (h : run cfgRS State.init acts = some s) :
    (s.issued.map Nat.repr).Pairwise (· ≠ ·) :=
  handle_strings_fresh cfgRS current_good_rs acts s h

theorem handle_strings_fresh_os (acts : List Action) (s : State) (h : run cfgOS State.init acts = some s) :
    (s.issued.map Nat.repr).Pairwise (· ≠ ·) :=
  handle_strings_fresh cfgOS current_good_os acts s h

/-- Request server, a session ending with an error: exactly the never-closed readers / writers /
reader-writers are told, once. -/
theorem transfer_error_rs (acts : List Action) (s s' : State) (h : run cfgRS State.init acts = some s)
    (hs : step cfgRS s (.sweep true) = some s') (id : Nat) (hid : id < s.nobj) :
    (s.objs id).terr = 0 ∧
    (s'.objs id).terr = (if (s.objs id).kind.isTransfer = true ∧ (s.objs id).closed = 0 then 1 else 0) := by
  have := transfer_error_exactly_to_live_transfer_objects cfgRS current_good_rs current_notifies_transfer_rs.2
    current_notifies_transfer_rs.1 acts s s' true h hs id hid
  refine ⟨this.1, ?_⟩
  rw [this.2.1]; simp

/-- Request server: a READ / WRITE / READDIR that does not fit its live handle touches nothing. -/
theorem wrong_kind_use_never_touches_rs (s s' : State) (hd id : Nat) (n : Need)
    (hl : s.open.lookup hd = some id) (hw : fits n (s.objs id).kind = false)
    (hs : step cfgRS s (.useAs hd n) = some s') : s' = { s with log := s.log ++ [.wrongKind] } :=
  (wrong_kind_use_never_touches cfgRS current_kind_checked_rs s s' hd id n hl hw hs).1

/-- os-backed server: although the sweep leaves the map as it is, once Serve has returned every file
has been closed exactly once and no request is processed any more. -/
theorem all_released_os (acts : List Action) (s : State) (h : run cfgOS State.init acts = some s)
    (he : s.ended = true) :
    (∀ act, step cfgOS s act = none) ∧
    (∀ id, id < s.nobj → (s.objs id).closed = (s.objs id).real.toNat ∧ (s.objs id).ctx = 1) :=
  (ended_final cfgOS current_good_os acts s h he).2

/-- Request server: the same, and the table is empty. -/
theorem all_released_rs (acts : List Action) (s : State) (h : run cfgRS State.init acts = some s)
    (he : s.ended = true) :
    s.open = [] ∧ (∀ act, step cfgRS s act = none) ∧
    (∀ id, id < s.nobj → (s.objs id).closed = (s.objs id).real.toNat ∧ (s.objs id).ctx = 1) :=
  have f := ended_final cfgRS current_good_rs acts s h he
  ⟨f.1 (by decide), f.2⟩

end Sftp.C11
