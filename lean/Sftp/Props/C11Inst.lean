import Sftp.Props.C11
import Sftp.Generated.AllocHandles
/-
  C11 instantiated with the handle-table facts regenerated from server.go, request-server.go and
  request.go: the statements about the code as it is now, for both servers.
-/
namespace Sftp.C11
open Sftp Sftp.Handles

theorem current_good_rs : Good G.handlesCfgRS := by decide
theorem current_good_os : Good G.handlesCfgOS := by decide

/-- Request.close cancels the context created by requestFromPacket. -/
theorem close_cancels_context : G.requestCloseCancelsContext = true := by decide

theorem closed_exactly_once_rs (acts : List Action) (s : State) (h : run G.handlesCfgRS State.init acts = some s)
    (id : Nat) (hid : id < s.nobj) (he : s.ended = true) (hr : (s.objs id).real = true) : (s.objs id).closed = 1 :=
  (closed_exactly_once G.handlesCfgRS current_good_rs acts s h id hid).2.2.2 he hr

theorem closed_exactly_once_os (acts : List Action) (s : State) (h : run G.handlesCfgOS State.init acts = some s)
    (id : Nat) (hid : id < s.nobj) (he : s.ended = true) (hr : (s.objs id).real = true) : (s.objs id).closed = 1 :=
  (closed_exactly_once G.handlesCfgOS current_good_os acts s h id hid).2.2.2 he hr

theorem handle_strings_fresh_rs (acts : List Action) (s : State) (h : run G.handlesCfgRS State.init acts = some s) :
    (s.issued.map Nat.repr).Pairwise (· ≠ ·) :=
  handle_strings_fresh G.handlesCfgRS current_good_rs acts s h

theorem handle_strings_fresh_os (acts : List Action) (s : State) (h : run G.handlesCfgOS State.init acts = some s) :
    (s.issued.map Nat.repr).Pairwise (· ≠ ·) :=
  handle_strings_fresh G.handlesCfgOS current_good_os acts s h

end Sftp.C11
