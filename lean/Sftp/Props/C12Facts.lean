import Sftp.Proofs.FileLock
import Sftp.Generated.FileMethods
/-
  C12 (closed-state part) — "no request carrying the closed handle is written to the wire afterwards, even when
  Close races with other methods".

  `G.fileMethods` is read off client.go by `extract/filemethods.go`; `FileLock` is an RWMutex transition system
  whose three parameters are decided from that table.
-/
namespace Sftp.C12
open Sftp Sftp.FileLock

/-- what the lock argument needs from one method -/
def methodOK (m : FileMethodFact) : Bool :=
  !m.sends || ((m.lock == "Lock" || m.lock == "RLock") && m.deferUnlock && m.holdsToEnd && m.checksClosed)

/-- the model parameters as the source has them today -/
def cfgOf (tbl : List FileMethodFact) : Cfg where
  closeExclusive := tbl.any (fun m => m.name == "Close" && m.lock == "Lock")
  methodsHold := tbl.all methodOK
  clearFirst := tbl.any (fun m => m.name == "Close" && m.clearsBeforeSend)

/-- C12.every_method_locks_and_checks — every exported method of `*File` that can send a request takes
`f.mu` first, defers the unlock directly after it (and nothing reachable touches `f.mu` again: the lock is held
for the whole call), and checks `f.handle == ""` ⇒ `os.ErrClosed` as the first thing under the lock; `Close`
takes the EXCLUSIVE lock and clears `f.handle` before it sends CLOSE with the local copy; every method that
assigns `f.offset` holds the exclusive lock; the table covers exactly the 16 exported methods. -/
theorem every_method_locks_and_checks :
    (∀ m ∈ G.fileMethods, methodOK m = true) ∧
    (∀ m ∈ G.fileMethods, m.name = "Close" → m.lock = "Lock" ∧ m.clearsBeforeSend = true ∧ m.checksClosed = true) ∧
    (∀ m ∈ G.fileMethods, m.offsetAssigns ≠ [] → m.lock = "Lock") ∧
    G.fileMethods.map (·.name) =
      ["Close", "Name", "Read", "ReadAt", "WriteTo", "Stat", "Write", "WriteAt", "ReadFromWithConcurrency",
       "ReadFrom", "Seek", "Chown", "Chmod", "SetExtendedData", "Truncate", "Sync"] ∧
    (∀ m ∈ G.fileMethods, m.sends = false → m.name = "Name") := by decide

/-- the model is instantiated with what the table says -/
theorem cfg_current : cfgOf G.fileMethods = Cfg.current := by decide

/-- C12.no_use_after_close_on_wire — for ALL interleavings (action lists) of any number of threads running
methods (holding `f.mu` shared or exclusively) and `Close`s: if `Close` is exclusive and methods keep their lock
while they use the handle they read, no request carrying the handle is written after CLOSE of that handle.
(`clearFirst` is not needed for the wire property as long as Close is exclusive; it is checked in
`every_method_locks_and_checks` because it is what makes a failed/blocked CLOSE harmless.) -/
theorem no_use_after_close_on_wire (cfg : Cfg) (hx : cfg.closeExclusive = true) (hm : cfg.methodsHold = true)
    (sched : List Action) (s : State) (h : run cfg {} sched = some s) :
    noUseAfterClose s.wire = true :=
  (run_inv cfg hx hm sched {} s inv_init h).ok

/-- … in particular for the source as extracted -/
theorem no_use_after_close_current (sched : List Action) (s : State)
    (h : run (cfgOf G.fileMethods) {} sched = some s) : noUseAfterClose s.wire = true := by
  rw [cfg_current] at h
  exact no_use_after_close_on_wire _ rfl rfl sched s h

/-- after a completed Close every later method finds the handle cleared: it sends nothing -/
theorem closed_is_final_example :
    (run .current {} [.acquire 0 true, .readHandle 0, .clear 0, .send 0, .release 0,
                      .acquire 1 false, .readHandle 1]).map
      (fun s => (s.wire, s.isOpen, (s.th 1).phase, s.holders, s.writer))
    = some ([.close], false, .done, [], none) := by decide

/-! non-vacuity and necessity of the hypotheses -/

/-- a schedule with two readers, a writer-method and Close that runs to completion under today's parameters -/
example : (run .current {} [.acquire 1 false, .acquire 2 false, .readHandle 1, .readHandle 2, .send 1, .send 2,
    .send 1, .release 1, .release 2, .acquire 0 true, .readHandle 0, .clear 0, .send 0, .release 0,
    .acquire 3 false, .readHandle 3]).map (·.wire) = some [.req, .req, .req, .close] := by decide

/-- Close cannot get the lock while a method is using the handle -/
example : run .current {} [.acquire 1 false, .readHandle 1, .acquire 0 true] = none := by decide

/-- C12.close_rlock_breaks — with `Close` under `RLock` a request follows the CLOSE of its handle -/
theorem close_rlock_breaks :
    (run { Cfg.current with closeExclusive := false } {}
      [.acquire 1 false, .readHandle 1, .acquire 0 true, .readHandle 0, .clear 0, .send 0, .send 1]).map
      (fun s => (s.wire, noUseAfterClose s.wire)) = some ([.close, .req], false) := by decide

/-- C12.early_unlock_breaks — a method that drops its lock before sending is overtaken by Close -/
theorem early_unlock_breaks :
    (run { Cfg.current with methodsHold := false } {}
      [.acquire 1 false, .readHandle 1, .acquire 0 true, .readHandle 0, .clear 0, .send 0, .send 1]).map
      (fun s => (s.wire, noUseAfterClose s.wire)) = some ([.close, .req], false) := by decide

end Sftp.C12
