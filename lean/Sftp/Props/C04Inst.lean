import Sftp.Props.C04
import Sftp.Generated.ClientConnCfg
/-
  C04 for the code as it is now: the theorems of Props/C04.lean instantiated with the facts the
  translator read off conn.go / client.go (Generated/ClientConnCfg.lean).
-/
namespace Sftp.C04
open Sftp Sftp.ClientConn

theorem cfg_ok_current :
    G.clientConnCfg.getChannelDeletes = true ∧ G.clientConnCfg.broadcastReplacesChan = true ∧
    G.clientConnCfg.putChecksClosed = true ∧ G.clientConnCfg.sendFailNotifies = true ∧
    G.clientConnCfg.idAtomic = true ∧ G.clientConnCfg.recvClosesConn = true ∧ G.clientConnShapes = true := by decide

theorem notified_at_most_once_current (n : Nat) (acts : List Action) (s : State)
    (h : Reach G.clientConnCfg n acts s) (ch : Nat) : (s.chan ch).delivered ≤ 1 :=
  notified_at_most_once _ n acts s cfg_ok_current.1 cfg_ok_current.2.1 h ch

theorem notified_exactly_once_at_quiescence_current (n : Nat) (acts : List Action) (s : State)
    (h : Reach G.clientConnCfg n acts s) (hlt : s.nextid < idMod) (hstop : s.rpc = .stopped)
    (c : Nat) (hpast : (s.pc c).early = false) :
    (s.chan c).delivered = 1 ∧ ((∃ sid r, s.pc c = .done sid r) ∨ (s.chan c).slot ≠ none) :=
  notified_exactly_once_at_quiescence _ n acts s cfg_ok_current.1 cfg_ok_current.2.1 cfg_ok_current.2.2.1
    cfg_ok_current.2.2.2.1 cfg_ok_current.2.2.2.2.1 h hlt hstop c hpast

theorem waiting_after_stop_current (n : Nat) (acts : List Action) (s : State)
    (h : Reach G.clientConnCfg n acts s) (hlt : s.nextid < idMod) (hstop : s.rpc = .stopped)
    (c sid : Nat) (b : Bool) (hpc : s.pc c = .waiting sid b) :
    (s.chan c).slot ≠ none ∧ enabled G.clientConnCfg n s (.callerRecvResult c) :=
  waiting_after_stop _ n acts s cfg_ok_current.1 cfg_ok_current.2.1 cfg_ok_current.2.2.1
    cfg_ok_current.2.2.2.1 cfg_ok_current.2.2.2.2.1 h hlt hstop c sid b hpc

theorem bounded_schedule_current (n : Nat) (acts : List Action) (s : State)
    (h : Reach G.clientConnCfg n acts s) : acts.length ≤ 10 * n + 3 :=
  bounded_schedule _ n acts s cfg_ok_current.1 cfg_ok_current.2.1 h

end Sftp.C04
