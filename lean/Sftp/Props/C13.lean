import Sftp.Proofs.Transfer.Step
import Sftp.Proofs.Transfer.ConcRead
/-
  C13 — a partial failure reports a count that names an intact prefix.
  Property theorems only.
-/
namespace Sftp.C13
open Sftp Sftp.Transfer Sftp.Spec.OsFile

/-- C13.foldEarliest_perm — the reduce loop `if e.off <= firstErr.off { firstErr = e }` is order
independent when the event offsets are pairwise distinct (so `<=` versus `<` is irrelevant). -/
theorem foldEarliest_perm {evs evs' : List Ev} (hp : evs.Perm evs')
    (hn : (evs.map Prod.fst).Nodup) : foldEarliest evs = foldEarliest evs' :=
  Sftp.Transfer.foldEarliest_perm hp hn

/-- C13.error_is_lowest_failing_offset — for any admissible dispatched set `D` of the plan `P`
(see `Admissible`: a prefix that is complete unless one of its chunks produced an error event;
client.go slice goroutines `select { case workCh <- …: case <-cancel: return }`, reduce loops
`close(cancel)`) and any arrival order `arrE` of its error events, the reduce returns the event of
the lowest failing offset of the WHOLE plan. `hs`: event offsets increase along the plan (each
chunk reports inside its own range) — discharged below for reads and writes. -/
theorem error_is_lowest_failing_offset {α} (ev : α → Option Ev) (P D : List α) (arrE : List Ev)
    (hs : (P.filterMap ev).Pairwise (fun a b => a.1 < b.1))
    (hadm : Admissible ev P D) (hp : (D.filterMap ev).Perm arrE) :
    foldEarliest arrE = (P.filterMap ev).head? ∧
    ∀ m, foldEarliest arrE = some m → m ∈ P.filterMap ev ∧ ∀ e ∈ P.filterMap ev, m.1 ≤ e.1 := by
  have hhead := admissible_head ev P D hadm
  obtain ⟨R, rfl, _⟩ := hadm
  rw [List.filterMap_append] at hs
  have h1 := foldEarliest_sorted hp (List.pairwise_append.mp hs).1
  rw [hhead, List.filterMap_append] at h1
  refine ⟨by rw [List.filterMap_append]; exact h1, ?_⟩
  intro m hm
  rw [List.filterMap_append]
  rw [h1] at hm
  cases hl : D.filterMap ev ++ R.filterMap ev with
  | nil => rw [hl] at hm; cases hm
  | cons x xs =>
    rw [hl] at hm hs
    simp only [List.head?_cons, Option.some.injEq] at hm
    subst hm
    refine ⟨by simp, fun e he => ?_⟩
    rcases List.mem_cons.mp he with rfl | he
    · exact Nat.le_refl _
    · exact Nat.le_of_lt ((List.pairwise_cons.mp hs).1 e he)

/-- instance for writeAtConcurrent / readFromWithConcurrency -/
theorem write_error_is_lowest (sv : Served) (mp : Nat) (hmp : 1 ≤ mp) (off : Nat) (b : Bytes)
    (D : List W) (arrE : List Ev)
    (hadm : Admissible (wrEvent sv) (chunkWrites mp off b) D) (hp : (D.filterMap (wrEvent sv)).Perm arrE) :
    foldEarliest arrE = ((chunkWrites mp off b).filterMap (wrEvent sv)).head? :=
  (error_is_lowest_failing_offset (wrEvent sv) _ D arrE
    (wrEvents_sorted sv _ (chunkWrites_sorted mp hmp off b)
      (fun w hw => (chunkWrites_len mp hmp off b w hw).2.2.1)) hadm hp).1

/-- instance for the concurrent readAt (needs packet size ≤ server payload limit) -/
theorem read_error_is_lowest (cfg : Cfg) (sv : Served) (hmp : 1 ≤ cfg.maxPacket)
    (htx : cfg.maxPacket ≤ cfg.maxTx) (off len : Nat) (D : List (Nat × Nat)) (arrE : List Ev)
    (hadm : Admissible (rdEvent cfg sv) (planChunks cfg.maxPacket off len) D)
    (hp : (D.filterMap (rdEvent cfg sv)).Perm arrE) :
    foldEarliest arrE = ((planChunks cfg.maxPacket off len).filterMap (rdEvent cfg sv)).head? :=
  let g := goodPlan cfg sv hmp htx off len
  (error_is_lowest_failing_offset (rdEvent cfg sv) _ D arrE (rdEvents_sorted _ g.sorted g.ok) hadm hp).1

/-- non-vacuity: chunks at 0,4,8,12 with 4 and 8 failing; only 0,4,8 dispatched; events arrive 8 then 4 -/
example :
    let sv : Served := { data := [], wrFail := fun o => if o = 4 then some 7 else if o = 8 then some 9 else none }
    let P := chunkWrites 4 0 (pat 0 16)
    Admissible (wrEvent sv) P (P.take 3) ∧
    ((P.take 3).filterMap (wrEvent sv)).Perm [(8, .srv 9), (4, .srv 7)] ∧
    foldEarliest [(8, .srv 9), (4, .srv 7)] = some (4, .srv 7) := by
  refine ⟨⟨(chunkWrites 4 0 (pat 0 16)).drop 3, (List.take_append_drop 3 _).symm, Or.inr ⟨⟨4, pat 4 4⟩, by decide, by decide⟩⟩, ?_, by decide⟩
  exact List.Perm.swap _ _ _

/-- C13.prefix_intact (reads) — whatever chunks fail, under every discipline and schedule the
returned bytes are the file's bytes `f[off, off+n)`, `n ≤ len`, and the error (if any) is the
status the server gave at offset `off+n` or io.EOF. -/
theorem prefix_intact_read (cfg : Cfg) (sv : Served) (off len : Nat)
    (hmp : 1 ≤ cfg.maxPacket) (htx : cfg.maxPacket ≤ cfg.maxTx) :
    RdOK sv off len (readChunkAt cfg sv len off len) ∧
    RdOK sv off len (seqRead cfg sv (planChunks cfg.maxPacket off len)) ∧
    (∀ (D arrD : List (Nat × Nat)) (arrE : List Ev) (buf0 : Bytes),
        Admissible (rdEvent cfg sv) (planChunks cfg.maxPacket off len) D → D.Perm arrD →
        (D.filterMap (rdEvent cfg sv)).Perm arrE → buf0.length = len →
        RdOK sv off len ((concRead cfg sv off len buf0 arrD arrE).2.2,
                         (concRead cfg sv off len buf0 arrD arrE).2.1) ∧
        (concRead cfg sv off len buf0 arrD arrE).1 = (concRead cfg sv off len buf0 arrD arrE).2.2.length) :=
  ⟨readChunkAt_ok cfg sv (by omega) len off len (Nat.le_refl _),
   seqRead_ok cfg sv (by omega) _ hmp off len,
   fun _ _ arrE buf0 hadm hp hE hbuf =>
     concRead_ok (goodPlan cfg sv hmp htx off len) hadm hp arrE hE buf0 hbuf⟩

/-- C13.eof_only_at_end — a read reports io.EOF only when `off+n` is at (or beyond) the true end
of the file; and a short count never comes with a nil error (C13.short_count_has_error, reads). -/
theorem eof_only_at_end {sv : Served} {off len : Nat} {r : Bytes × Option Err} (h : RdOK sv off len r) :
    (r.2 = some .eof → sv.data.length ≤ off + r.1.length) ∧ (r.1.length < len → r.2 ≠ none) := by
  refine ⟨fun he => ?_, fun hlt hn => by have := h.full hn; omega⟩
  rcases h.cls with hc | ⟨_, hl⟩ | ⟨k, hc, _⟩
  · rw [hc] at he; cases he
  · exact hl
  · rw [hc] at he; cases he

/-- WriteTo never returns io.EOF, and a nil error means delivery reached the end of the file. -/
theorem writeTo_eof (cfg : Cfg) (sv : Served) (off : Nat) (hmp : 1 ≤ cfg.maxPacket)
    (htx : cfg.maxPacket ≤ cfg.maxTx) (hst : sv.statFail = none) :
    WtOK sv off ((writeToM cfg sv off).1.data, (writeToM cfg sv off).1.err) :=
  (writeToM_ok cfg sv off hmp htx hst).1

/-- C13.prefix_intact (sequential writes) — the loop applies exactly the chunks before the first
failing one, in order; the count is their total size; the error is the first failing chunk's. -/
theorem prefix_intact_seqWrite (sv : Served) (ws : List W) (f : Bytes) :
    (seqWrite sv f ws).1 = applyAll f (ws.takeWhile (wOk sv)) ∧
    (seqWrite sv f ws).2.1 = intactPrefix sv.wrFail ws ∧
    (seqWrite sv f ws).2.2 = ((ws.filterMap (wrEvent sv)).head?).map Prod.snd :=
  seqWrite_spec sv ws f

/-- C13.prefix_intact (concurrent writes) — if the reduce reports an error with count `n`, every
chunk lying entirely below `off+n` was dispatched and accepted by the server, for every admissible
dispatched set and every arrival order. -/
theorem prefix_intact_concWrite (sv : Served) (mp : Nat) (hmp : 1 ≤ mp) (off : Nat) (b : Bytes)
    (D : List W) (arrE : List Ev)
    (hadm : Admissible (wrEvent sv) (chunkWrites mp off b) D) (hp : (D.filterMap (wrEvent sv)).Perm arrE)
    (herr : (concResult off b.length arrE).2 ≠ none) :
    ∀ w ∈ chunkWrites mp off b, w.off + w.d.length ≤ off + (concResult off b.length arrE).1 →
      w ∈ D ∧ sv.wrFail w.off = none := by
  have hsorted := wrEvents_sorted sv _ (chunkWrites_sorted mp hmp off b)
      (fun w hw => (chunkWrites_len mp hmp off b w hw).2.2.1)
  have hlow := error_is_lowest_failing_offset (wrEvent sv) _ D arrE hsorted hadm hp
  unfold concResult at herr ⊢
  cases hf : foldEarliest arrE with
  | none => rw [hf] at herr; exact absurd rfl herr
  | some m =>
    simp only
    obtain ⟨_, hmin⟩ := hlow.2 m hf
    -- the failing chunk that produced m was dispatched
    have hmD : m ∈ D.filterMap (wrEvent sv) := hp.mem_iff.mpr (foldEarliest_some hf).1
    obtain ⟨w0, hw0D, hw0e⟩ := List.mem_filterMap.mp hmD
    have hm1 := (wrEvent_some sv w0 m hw0e).1
    obtain ⟨R, hPR, _⟩ := hadm
    have hw0P : w0 ∈ chunkWrites mp off b := by rw [hPR]; exact List.mem_append_left _ hw0D
    have hoff0 := (chunkWrites_len mp hmp off b w0 hw0P).1
    intro w hw hle
    have hwl := chunkWrites_len mp hmp off b w hw
    constructor
    · have hs := chunkWrites_sorted mp hmp off b
      rw [hPR] at hs hw
      rcases List.mem_append.mp hw with h | hR
      · exact h
      · have := (List.pairwise_append.mp hs).2.2 w0 hw0D w hR
        omega
    · cases hfw : sv.wrFail w.off with
      | none => rfl
      | some c =>
        have : (w.off, Err.srv c) ∈ (chunkWrites mp off b).filterMap (wrEvent sv) :=
          List.mem_filterMap.mpr ⟨w, hw, by simp [wrEvent, hfw]⟩
        have := hmin _ this
        simp only at this
        omega

/-- C13.short_count_has_error (writes) — both write disciplines: a count below `|b|` comes with an
error (stated contrapositively: nil error ⇒ full count). -/
theorem short_count_has_error_write (sv : Served) (mp : Nat) (hmp : 1 ≤ mp) (off : Nat) (b f : Bytes)
    (arrE : List Ev) :
    ((seqWrite sv f (chunkWrites mp off b)).2.2 = none → (seqWrite sv f (chunkWrites mp off b)).2.1 = b.length) ∧
    ((concResult off b.length arrE).2 = none → (concResult off b.length arrE).1 = b.length) := by
  constructor
  · obtain ⟨_, h2, h3⟩ := seqWrite_spec sv (chunkWrites mp off b) f
    intro hn
    rw [h3] at hn
    have hnil : (chunkWrites mp off b).filterMap (wrEvent sv) = [] := by
      cases hl : (chunkWrites mp off b).filterMap (wrEvent sv) with
      | nil => rfl
      | cons x xs => rw [hl] at hn; simp at hn
    have hok : ∀ w ∈ chunkWrites mp off b, sv.wrFail w.off = none := fun w hw =>
      (wrEvent_none_iff sv w).mp (List.filterMap_eq_nil_iff.mp hnil w hw)
    rw [h2, intactPrefix_all _ _ hok, sumLens_chunkWrites mp hmp]
  · unfold concResult
    cases foldEarliest arrE with
    | none => intro _; rfl
    | some e => intro h; cases h

/-- C13.readFrom_count_is_consumed — ReadFrom, both disciplines.  The count is what was consumed
from the source (sequential: every chunk handed to io.ReadFull including the failing one;
concurrent: `sumLens sent`, every packet put on the wire), the File offset marks the end of the
intact prefix, and — with the masking repaired — a nil error means the two coincide. -/
theorem readFrom_count_is_consumed (cfg : Cfg) (sv : Served) (off : Nat) (src : Bytes)
    (hmp : 1 ≤ cfg.maxPacket) :
    -- sequential
    (off + (rfSeq cfg sv sv.data (chunkWrites cfg.maxPacket off src)).2.2.1 =
        off + intactPrefix sv.wrFail (chunkWrites cfg.maxPacket off src)) ∧
    (cfg.readFromMasksWriteErr = false →
      (rfSeq cfg sv sv.data (chunkWrites cfg.maxPacket off src)).2.2.2 = none →
      (rfSeq cfg sv sv.data (chunkWrites cfg.maxPacket off src)).2.1 =
        intactPrefix sv.wrFail (chunkWrites cfg.maxPacket off src)) ∧
    -- concurrent, any admissible schedule
    (∀ (D sent : List W) (arrE : List Ev),
        Admissible (wrEvent sv) (chunkWrites cfg.maxPacket off src) D →
        (D.filterMap (wrEvent sv)).Perm arrE →
        (rfConc sv sv.data off sent arrE).2.1 = sumLens sent ∧
        ((rfConc sv sv.data off sent arrE).2.2.2 ≠ none →
          (rfConc sv sv.data off sent arrE).2.2.1 =
            off + intactPrefix sv.wrFail (chunkWrites cfg.maxPacket off src)) ∧
        ((rfConc sv sv.data off sent arrE).2.2.2 = none →
          (rfConc sv sv.data off sent arrE).2.2.1 = off + sumLens sent)) := by
  have hch := chunkWrites_chunked cfg.maxPacket hmp off src
  refine ⟨by rw [rfSeq_adv hch], fun hm hn => by rw [rfSeq_nil hm _ _ hn, rfSeq_adv hch], ?_⟩
  intro D sent arrE hadm hp
  have hlow := write_error_is_lowest sv cfg.maxPacket hmp off src D arrE hadm hp
  unfold rfConc
  cases hf : foldEarliest arrE with
  | none => exact ⟨rfl, fun h => absurd rfl h, fun _ => rfl⟩
  | some e =>
    refine ⟨rfl, fun _ => ?_, fun h => by cases h⟩
    rw [hf] at hlow
    exact chunked_first_event hch e hlow.symm

end Sftp.C13
