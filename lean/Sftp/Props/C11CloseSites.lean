import Sftp.Generated.SrvCloseSites
import Sftp.Props.C11Inst
/-
  Who may close a live *Request (request-server.go packetWorker) — a source shape no other extracted fact covers
  (seeded defect C14_f).  Facts: `Generated/SrvCloseSites.lean` (translator unit SrvCloseSites,
  /verif/extract/srvlifetimes.go part B).

  Only the CLOSE case, a failing OPEN / OPENDIR and Serve's final sweep close a request that is, or shares its objects
  with, an entry of `rs.openRequests` (C11: closed exactly once; C14: not while transfers sent before the CLOSE still
  run).  The table theorems are closed by `decide`; the tie to M-Handles (Model/Handles.lean) says what the fact
  justifies: `use` / `useAs` only TOUCH the object.
-/
namespace Sftp.C11CloseSites
open Sftp

/-! ## B. who may close a live request -/

/-- `closeSites` rows: (function[:case], origin of the receiver / handle, what is called).  Allowed:
* `close` on a FRESH request (built by `requestFromPacket` / a `&Request{Method…, Filepath…}` literal in this very
  case: nobody else holds its objects — the by-path commands);
* `closeRequest` of the handle just allocated, inside `if _, ok := rpkt.(*sshFxpHandlePacket); !ok` (failing OPEN /
  OPENDIR);
* `closeRequest` of the handle the packet names, in the CLOSE case only;
* `close` on a table entry inside `closeRequest` itself (after the `delete`) and inside Serve's final sweep. -/
def allowedSite (r : String × String × String) : Bool :=
  (r.2.1 == "fresh" && r.2.2 == "close") ||
  (r.2.1 == "newHandleOnFailedOpen" && r.2.2 == "closeRequest") ||
  (r.2.1 == "packetHandle" && r.2.2 == "closeRequest" && r.1 == "RequestServer.packetWorker:*sshFxpClosePacket") ||
  (r.2.1 == "table" && r.2.2 == "close" && (r.1 == "RequestServer.closeRequest" || r.1 == "RequestServer.Serve"))

/-- C11CloseSites.live_object_closed_only_by_close_or_sweep — every call in the package that closes a *Request (or a
part of one) is one of the allowed sites: a request that is, or shares its reader / writer / lister / cancel function
with (`.copy()`), an entry of `rs.openRequests` is closed only through the CLOSE case, a failing OPEN / OPENDIR or the
final sweep; the sites are exactly the six known ones; FSTAT and FSETSTAT serve the packet through a FRESH request
(built from the table entry's path only) and close nothing (seed C14_f: `request.copy()` + `request.close()` in the
FSETSTAT case gives the row `(…:*sshFxpFsetstatPacket, copyOfTable, close)`). -/
theorem live_object_closed_only_by_close_or_sweep :
    G.liveRequestClosedOnlyByClose = true ∧
    G.closeSites.all allowedSite = true ∧
    G.closeSites =
      [("RequestServer.closeRequest", "table", "close"),
       ("RequestServer.Serve", "table", "close"),
       ("RequestServer.packetWorker:*sshFxpClosePacket", "packetHandle", "closeRequest"),
       ("RequestServer.packetWorker:*sshFxpOpendirPacket", "newHandleOnFailedOpen", "closeRequest"),
       ("RequestServer.packetWorker:*sshFxpOpenPacket", "newHandleOnFailedOpen", "closeRequest"),
       ("RequestServer.packetWorker:hasPath", "fresh", "close")] ∧
    G.callSites.map (fun r => (r.1, r.2.1)) =
      [("*sshFxpFstatPacket", "fresh"), ("*sshFxpFsetstatPacket", "fresh"),
       ("*sshFxpExtendedPacketPosixRename", "fresh"), ("*sshFxpExtendedPacketStatVFS", "fresh"),
       ("hasHandle", "table"), ("hasPath", "fresh")] := by decide

/-! ### tie to M-Handles: `use` (FSTAT / FSETSTAT) and `useAs` (READ / WRITE / READDIR) only TOUCH the object.
`liveM leak` is `Handles.live` except that, when some close site is not an allowed one (`leak`), a handle-bearing
command also closes the object it was served through — what C14_f does. -/

open Sftp.Handles in
def liveM (leak : Bool) (cfg : Cfg) (s : State) : Action → Option State
  | .use h =>
    match s.open.lookup h with
    | some id =>
      some { s with objs := upd s.objs id (if leak then (s.objs id).touch.close else (s.objs id).touch),
                    log := s.log ++ [.ok] }
    | none => some { s with log := s.log ++ [.ebadf] }
  | a => live cfg s a

def leak (sites : List (String × String × String)) : Bool := !(sites.all allowedSite)

open Sftp.Handles in
/-- C11CloseSites.handles_model_use_is_faithful — with the close sites as they are, a handle-bearing command behaves
as M-Handles says (the theorems of Props/C11 and Props/C11Inst speak about the code). -/
theorem handles_model_use_is_faithful (cfg : Cfg) (s : State) (a : Action) :
    liveM (leak G.closeSites) cfg s a = live cfg s a := by
  have hl : leak G.closeSites = false := by decide
  rw [hl]
  cases a with
  | use h => simp only [liveM, live]; cases s.open.lookup h <;> simp
  | _ => rfl

open Sftp.Handles in
/-- C11CloseSites.use_never_closes — in M-Handles a step that is neither CLOSE, the sweep nor a failing OPEN leaves
every object's close count and context-cancel count as they were (for every configuration and state). -/
theorem use_never_closes (cfg : Cfg) (s s' : State) (a : Action)
    (ha : (∃ k, a = .openOk k) ∨ (∃ h, a = .use h) ∨ (∃ h n, a = .useAs h n))
    (hs : step cfg s a = some s') (id : Nat) (hid : id < s.nobj) :
    (s'.objs id).closed = (s.objs id).closed ∧ (s'.objs id).ctx = (s.objs id).ctx := by
  unfold step at hs
  split at hs
  · cases hs
  · rcases ha with ⟨k, rfl⟩ | ⟨h, rfl⟩ | ⟨h, n, rfl⟩
    · simp only [live, opened] at hs
      injection hs with hs; subst hs
      have : id ≠ s.nobj := Nat.ne_of_lt hid
      simp [upd, this]
    · simp only [live] at hs
      split at hs <;> (injection hs with hs; subst hs)
      · rename_i j _
        by_cases hj : id = j <;> simp [upd, hj, Obj.touch]
      · exact ⟨rfl, rfl⟩
    · simp only [live] at hs
      split at hs
      · rename_i j _
        split at hs
        · injection hs with hs; subst hs
          by_cases hj : id = j <;> simp [upd, hj, Obj.touch]
        · split at hs <;> (injection hs with hs; subst hs)
          · exact ⟨rfl, rfl⟩
          · by_cases hj : id = j <;> simp [upd, hj, Obj.touch]
      · injection hs with hs; subst hs; exact ⟨rfl, rfl⟩

open Sftp.Handles in
/-- necessity (seed C14_f): with a leaking close site, `open; FSETSTAT; CLOSE` closes the writer twice — and the
first time while the transfers sent before the CLOSE may still be running (C14). -/
theorem leaking_use_closes_twice :
    ((liveM true Cfg.current State.init (.openOk .writer)).bind fun s1 =>
      (liveM true Cfg.current s1 (.use 1)).bind fun s2 =>
        (liveM true Cfg.current s2 (.close 1)).map fun s3 => ((s2.objs 0).closed, (s3.objs 0).closed)) =
      some (1, 2) := by decide

open Sftp.Handles in
/-- non-vacuity of `use_never_closes`, and the same session without the leak: closed once, by the CLOSE. -/
example : ((liveM (leak G.closeSites) Cfg.current State.init (.openOk .writer)).bind fun s1 =>
      (liveM (leak G.closeSites) Cfg.current s1 (.use 1)).bind fun s2 =>
        (liveM (leak G.closeSites) Cfg.current s2 (.close 1)).map fun s3 => ((s2.objs 0).closed, (s3.objs 0).closed)) =
      some (0, 1) := by decide

end Sftp.C11CloseSites
