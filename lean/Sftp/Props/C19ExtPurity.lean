import Sftp.Model.ExtSessions
import Sftp.Generated.ExtUnmarshalPurity
/-
  C19 — an extended request with an unknown name is answered "operation unsupported" WITHOUT ENDING THE SESSION, for every
  name and however many sessions the process serves (source shape of seeded defect C19_n: packet.go
  `(*sshFxpExtendedPacket).UnmarshalBinary` recorded every unknown name in a new package-level map, unsynchronised; the
  map is shared by the receive loops of all sessions of the process, two sessions probing unknown names at the same
  time end in "fatal error: concurrent map writes" — every session of the process dies).

  Facts: `Generated/ExtUnmarshalPurity.lean` (translator unit ExtUnmarshalPurity, /verif/extract/round7.go): for
  makePacket and the methods UnmarshalBinary / id / readonly / respond of every sshFxpExtendedPacket… type: the
  package-level variables (go/types objects) read and written, the callees; for every variable read its type,
  initialiser and the number of writes to it in the whole package; the writes of package-level variables and the calls of
  function values in everything the decode path (makePacket, UnmarshalBinary) statically reaches inside the package.
-/
namespace Sftp.C19ExtPurity
open Sftp Sftp.ExtSessions

/-- the shared state the EXTENDED decode / dispatch path writes, according to the tree -/
def sharedWrites : List (String × String × String) := G.epVarWrites ++ G.epDecodeClosureWrites

/-- C19ExtPurity.extended_path_touches_no_shared_state — makePacket and the methods of the four extended packet types
write NO package-level variable; the only one any of them reads is the error sentinel `errUnknownExtendedPacket`
(type error, `errors.New("unknown extended packet")`, assigned nowhere in the package), read by
(*sshFxpExtendedPacket).UnmarshalBinary; that function calls the two bounds-checked decoders, fmt.Errorf and the specific
packet's UnmarshalBinary, nothing else; the whole decode path (everything statically reached from makePacket inside the
package, every request decoder included) writes no package-level variable and calls no function value. -/
theorem extended_path_touches_no_shared_state :
    G.epVarWrites = [] ∧ G.epDecodeClosureWrites = [] ∧ G.epDecodeClosureDynamicCalls = [] ∧ G.epDecodeClosureCovers = true ∧
    G.epVarReads = [("sshFxpExtendedPacket.UnmarshalBinary", "errUnknownExtendedPacket")] ∧
    G.epReadVarInfo = [("errUnknownExtendedPacket", "error", "errors.New(\"unknown extended packet\")", "0")] ∧
    G.epFunctions.length = 17 ∧ G.epFunctions.contains "makePacket" = true ∧
    G.epCalls.lookup "sshFxpExtendedPacket.UnmarshalBinary" =
      some ["encoding.BinaryUnmarshaler.UnmarshalBinary", "fmt.Errorf", "unmarshalStringSafe", "unmarshalUint32Safe"] ∧
    G.epCalls.lookup "makePacket" = some ["encoding.BinaryUnmarshaler.UnmarshalBinary", "fmt.Errorf"] ∧
    sharedWrites = [] := by
  decide

/-- C19ExtPurity.callees_as_spec — the complete callee table of the seventeen functions (a helper that were to hide a
write would have to appear here). -/
theorem callees_as_spec :
    G.epCalls =
      [("makePacket", ["encoding.BinaryUnmarshaler.UnmarshalBinary", "fmt.Errorf"]),
       ("sshFxpExtendedPacket.UnmarshalBinary", ["encoding.BinaryUnmarshaler.UnmarshalBinary", "fmt.Errorf", "unmarshalStringSafe", "unmarshalUint32Safe"]),
       ("sshFxpExtendedPacket.id", []),
       ("sshFxpExtendedPacket.readonly", ["?.readonly"]),
       ("sshFxpExtendedPacket.respond", ["serverRespondablePacket.respond", "statusFromError"]),
       ("sshFxpExtendedPacketHardlink.UnmarshalBinary", ["unmarshalStringSafe", "unmarshalUint32Safe"]),
       ("sshFxpExtendedPacketHardlink.id", []),
       ("sshFxpExtendedPacketHardlink.readonly", []),
       ("sshFxpExtendedPacketHardlink.respond", ["Server.toLocalPath", "os.Link", "statusFromError"]),
       ("sshFxpExtendedPacketPosixRename.UnmarshalBinary", ["unmarshalStringSafe", "unmarshalUint32Safe"]),
       ("sshFxpExtendedPacketPosixRename.id", []),
       ("sshFxpExtendedPacketPosixRename.readonly", []),
       ("sshFxpExtendedPacketPosixRename.respond", ["Server.toLocalPath", "os.Rename", "statusFromError"]),
       ("sshFxpExtendedPacketStatVFS.UnmarshalBinary", ["unmarshalStringSafe", "unmarshalUint32Safe"]),
       ("sshFxpExtendedPacketStatVFS.id", []),
       ("sshFxpExtendedPacketStatVFS.readonly", []),
       ("sshFxpExtendedPacketStatVFS.respond", ["Server.toLocalPath", "getStatVFSForPath", "statusFromError"])] := by
  decide

/-- C19ExtPurity.sessions_are_independent — stated over the generated list: IF the decode path writes no shared state
(`sharedWrites = []`, which `extended_path_touches_no_shared_state` establishes for this tree) THEN for all request lists
of two sessions of one process and EVERY interleaving of their decode steps: the process never dies, each session's
replies are a prefix of what it answers when served alone, and equal to it once it has decoded all its requests. -/
theorem sessions_are_independent (hpure : sharedWrites = []) (r0 r1 : List String) (acts : List Act) (s : St)
    (hr : run (!sharedWrites.isEmpty) (St.init r0 r1) acts = some s) :
    s.fatal = false ∧ s.out0 ++ s.pend0.map reply = sequential r0 ∧ s.out1 ++ s.pend1.map reply = sequential r1 ∧
    (s.pend0 = [] → s.out0 = sequential r0) ∧ (s.pend1 = [] → s.out1 = sequential r1) := by
  rw [hpure] at hr
  exact independent_sessions r0 r1 acts s hr

/-- the same for the tree as it is: the hypothesis is discharged from the generated tables -/
theorem sessions_are_independent_here (r0 r1 : List String) (acts : List Act) (s : St)
    (hr : run (!sharedWrites.isEmpty) (St.init r0 r1) acts = some s) :
    s.fatal = false ∧ (s.pend0 = [] → s.out0 = sequential r0) ∧ (s.pend1 = [] → s.out1 = sequential r1) := by
  have h := sessions_are_independent (by decide) r0 r1 acts s hr
  exact ⟨h.1, h.2.2.2.1, h.2.2.2.2⟩

/-- non-vacuity: the hypothesis holds here; two sessions probing unknown names at the same time, interleaved, both get
"unsupported" for each and the advertised one is served; the write actions are not even enabled -/
example : sharedWrites = [] ∧
    (run (!sharedWrites.isEmpty) (St.init ["foo@x", "statvfs@openssh.com"] ["bar@y", "foo@x"])
      [.dec false, .dec true, .dec true, .dec false]).map (fun s => (s.out0, s.out1, s.fatal))
      = some ([.unsupported, .served "statvfs@openssh.com"], [.unsupported, .unsupported], false) ∧
    run (!sharedWrites.isEmpty) (St.init ["foo@x"] ["bar@y"]) [.wbegin false] = none := by decide

/-! ### the seeded shape (hand-written parameter, so this part builds on every tree) -/

/-- C19ExtPurity.seed_shared_cell_kills_both_sessions — seed C19_n (an unsynchronised package-level map written on the
decode path of an unknown name): two sessions, one unknown name each, both inside the write: fatal — neither request is
ever answered; one after the other the same two requests are answered "unsupported"; advertised names never go near the
cell; and a process with a single session never dies, whatever it is sent. -/
theorem seed_shared_cell_kills_both_sessions :
    (run true (St.init ["foo@x"] ["bar@y"]) [.wbegin false, .wbegin true]).map (fun s => (s.out0, s.out1, s.fatal))
      = some ([], [], true) ∧
    run true (St.init ["foo@x"] ["bar@y"]) [.wbegin false, .wbegin true, .wend false] = none ∧
    (run true (St.init ["foo@x"] ["bar@y"]) [.wbegin false, .wend false, .wbegin true, .wend true]).map
      (fun s => (s.out0, s.out1, s.fatal)) = some ([.unsupported], [.unsupported], false) ∧
    (run true (St.init ["statvfs@openssh.com"] ["bar@y"]) [.wbegin true, .dec false, .wend true]).map
      (fun s => (s.out0, s.out1, s.fatal)) = some ([.served "statvfs@openssh.com"], [.unsupported], false) ∧
    run true (St.init ["foo@x"] ["bar@y"]) [.dec false] = none ∧
    (∀ (r0 : List String) (acts : List Act) (s : St), run true (St.init r0 []) acts = some s → s.fatal = false) := by
  refine ⟨by decide, by decide, by decide, by decide, by decide, ?_⟩
  intro r0 acts s hr
  exact single_session_never_fatal true r0 acts s hr

end Sftp.C19ExtPurity
