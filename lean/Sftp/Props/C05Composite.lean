import Sftp.Proofs.C05Composite.RemoveAll
import Sftp.Model.ErrCurrent
/-
  C05 (composites) — the client-side composites `(*Client).Remove`, `(*Client).MkdirAll`, `(*Client).RemoveAll`
  have the same effect on the served tree, and report the same outcome category, as `os.Remove`, `os.MkdirAll`,
  `os.RemoveAll`.

  Setting: the abstract file system of Model/AbsFS.lean (the ASSUMED semantics of the kernel calls and of Go's
  os.Remove; final-position symbolic links only), the composites of Model/Composite.lean (interpreters of
  client.go parameterised by `CompositeCfg`), the reference semantics of Spec/OsComposite.lean (written from the
  package os documentation), the wire `W` = statusFromError ∘ normaliseError.

  Quantification: every tree (`wf`: unique keys, every entry hangs below real directories — the trees a kernel
  can hold), every path, every recursion budget above the size of the tree.  No bound on sizes or depths.

  What differs from package os is stated, not hidden:
  * the outcome is compared through the wire: the caller sees `W r` where package os reports `r`; in the
    property's categories (ok / not-exist / permission / other) that is the same category (`wire_keeps_category`);
    in a finer reading EEXIST / ENOTEMPTY (os.IsExist) become a plain failure (`Known.fine_*`);
  * RemoveAll on a path that does not exist: os.RemoveAll returns nil, Client.RemoveAll returns the Lstat error
    (`removeAll_as_os` has the exception in its statement; `Known.removeAll_missing_path` is the witness).
-/
namespace Sftp.C05Composite
open Sftp.AbsFS Sftp.Composite Sftp.Spec.OsComposite

/-- the reference wire keeps the property's outcome category -/
theorem wire_keeps_category (W : Result → CErr) (hW : WireStd W) (r : Result) : (W r).cat = osCat r := by
  rw [wire_eq_std hW]; cases r <;> rfl

/-- the generated error tables (server.go statusFromError, errno_posix.go, client.go normaliseError) ARE the
reference wire on the errors of these os calls -/
theorem wire_current : WireStd (wireOf G.errCfg G.normCfg) := by decide

/-! ### Client.Remove -/

/-- **Client.Remove = os.Remove**: for every tree and path, same resulting tree, the caller sees the wire image
of os.Remove's error, hence the same outcome category. -/
theorem remove_as_os (cfg : CompositeCfg) (W : Result → CErr) (hW : WireStd W) (hc : RemoveCfgOk cfg)
    (fs : FS) (p : Path) :
    (removeC cfg W fs p).1 = (osRemove fs p).1 ∧
    (removeC cfg W fs p).2 = W (osRemove fs p).2 ∧
    (removeC cfg W fs p).2.cat = osCat (osRemove fs p).2 := by
  have h := removeC_eq_spec cfg fs p hc
  have hcat := wire_keeps_category W hW (osRemove fs p).2
  rw [wire_eq_std hW] at hcat ⊢
  rw [h]
  exact ⟨rfl, rfl, hcat⟩

/-- the server's os.Remove (unlink, then rmdir, error choice) is the documented os.Remove -/
theorem server_remove_call_as_os (fs : FS) (p : Path) : osRemoveCall fs p = osRemove fs p :=
  osRemoveCall_eq_spec fs p

theorem remove_cfg_current : RemoveCfgOk .current := by decide

theorem remove_as_os_current (fs : FS) (p : Path) :
    (removeC .current (wireOf G.errCfg G.normCfg) fs p).1 = (osRemove fs p).1 ∧
    (removeC .current (wireOf G.errCfg G.normCfg) fs p).2.cat = osCat (osRemove fs p).2 :=
  let h := remove_as_os .current _ wire_current remove_cfg_current fs p
  ⟨h.1, h.2.2⟩

/-! ### Client.MkdirAll -/

/-- **Client.MkdirAll = os.MkdirAll**: for every well-formed tree and path, same resulting tree; the caller sees
the wire image of os.MkdirAll's error, except that ENOTDIR is the locally built error `cfg.maFileErr`; same
outcome category. -/
theorem mkdirAll_as_os (cfg : CompositeCfg) (W : Result → CErr) (hW : WireStd W) (hc : MkdirAllCfgOk cfg)
    (fs : FS) (hwf : wf fs = true) (p : Path) :
    (mkdirAll cfg W fs p).1 = (osMkdirAll fs p).1 ∧
    (mkdirAll cfg W fs p).2 = (if (osMkdirAll fs p).2 = .errNotDir then cfg.maFileErr else W (osMkdirAll fs p).2) ∧
    (mkdirAll cfg W fs p).2.cat = osCat (osMkdirAll fs p).2 := by
  have h := mkdirAllC_eq_spec cfg hc fs hwf p.reverse
  rw [List.reverse_reverse] at h
  have hcat := wire_keeps_category W hW (osMkdirAll fs p).2
  rw [wire_eq_std hW] at hcat ⊢
  unfold mkdirAll
  rw [h]
  refine ⟨rfl, rfl, ?_⟩
  simp only [maErr]
  split
  · next he => rw [he]; exact hc.2.2.2.2
  · exact hcat

theorem mkdirAll_cfg_current : MkdirAllCfgOk .current := by decide

theorem mkdirAll_as_os_current (fs : FS) (hwf : wf fs = true) (p : Path) :
    (mkdirAll .current (wireOf G.errCfg G.normCfg) fs p).1 = (osMkdirAll fs p).1 ∧
    (mkdirAll .current (wireOf G.errCfg G.normCfg) fs p).2.cat = osCat (osMkdirAll fs p).2 :=
  let h := mkdirAll_as_os .current _ wire_current mkdirAll_cfg_current fs hwf p
  ⟨h.1, h.2.2⟩

/-- with today's locally built ENOTDIR the FINE category agrees too whenever os.MkdirAll reports ENOTDIR or nil -/
theorem mkdirAll_notdir_fine (cfg : CompositeCfg) (W : Result → CErr) (hW : WireStd W) (hc : MkdirAllCfgOk cfg)
    (hf : cfg.maFileErr = .enotdir) (fs : FS) (hwf : wf fs = true) (p : Path)
    (hr : (osMkdirAll fs p).2 = .errNotDir ∨ (osMkdirAll fs p).2 = .ok) :
    (mkdirAll cfg W fs p).2.fine = osFine (osMkdirAll fs p).2 := by
  have h := (mkdirAll_as_os cfg W hW hc fs hwf p).2.1
  rw [h, wire_eq_std hW]
  rcases hr with hr | hr <;> simp [hr, hf, wireStd, CErr.fine, osFine]

/-! ### Client.RemoveAll -/

/-- the recursion budget of `removeAll` is enough, and so is every larger one: the result does not depend on it
(in particular the out-of-budget marker is never returned). -/
theorem removeAll_fuel_suffices (cfg : CompositeCfg) (W : Result → CErr) (hW : WireStd W) (hc : RemoveAllCfgOk cfg)
    (fs : FS) (hwf : wf fs = true) (p : Path) (fuel : Nat) (hf : fs.length < fuel) :
    removeAllC cfg W fuel fs p = removeAll cfg W fs p := by
  rw [wire_eq_std hW]
  unfold removeAll
  rw [removeAllC_eq cfg hc fuel fs p hwf (Nat.lt_of_le_of_lt (below_le_length fs p) hf),
    removeAllC_eq cfg hc _ fs p hwf (Nat.lt_succ_of_le (below_le_length fs p))]

/-- **Client.RemoveAll = os.RemoveAll**: for every well-formed tree and path, same resulting tree; the caller
sees the wire image of os.RemoveAll's error EXCEPT when the path (or its parent) does not exist and the client
does not turn that into nil (`raNoEntNil = false`, today's code): then it sees not-exist where os.RemoveAll
returns nil (the tree is unchanged on both sides). -/
theorem removeAll_as_os (cfg : CompositeCfg) (W : Result → CErr) (hW : WireStd W) (hc : RemoveAllCfgOk cfg)
    (fs : FS) (hwf : wf fs = true) (p : Path) :
    (removeAll cfg W fs p).1 = (osRemoveAll fs p).1 ∧
    (removeAll cfg W fs p).2 =
      (if (lstat fs p).1 = .errNoEnt ∧ cfg.raNoEntNil = false then .notExist else W (osRemoveAll fs p).2) := by
  rw [wire_eq_std hW]
  unfold removeAll
  rw [removeAllC_eq cfg hc _ fs p hwf (Nat.lt_succ_of_le (below_le_length fs p))]
  unfold raResult
  cases hloc : locate fs p with
  | dirAt => simp [lstat, hloc, wireStd]
  | entry n => simp [lstat, hloc, wireStd]
  | absent => cases hn : cfg.raNoEntNil <;> simp [lstat, hloc, wireStd, osRemoveAll]
  | blocked r =>
    have hr := locate_blocked_ne_ok hloc
    cases hn : cfg.raNoEntNil <;> cases r <;> simp_all [lstat, wireStd, osRemoveAll]

/-- outside the exception the outcome category is that of os.RemoveAll -/
theorem removeAll_category_as_os (cfg : CompositeCfg) (W : Result → CErr) (hW : WireStd W)
    (hc : RemoveAllCfgOk cfg) (fs : FS) (hwf : wf fs = true) (p : Path)
    (hex : (lstat fs p).1 ≠ .errNoEnt ∨ cfg.raNoEntNil = true) :
    (removeAll cfg W fs p).2.cat = osCat (osRemoveAll fs p).2 := by
  rw [(removeAll_as_os cfg W hW hc fs hwf p).2]
  have hcat := wire_keeps_category W hW (osRemoveAll fs p).2
  rcases hex with h | h
  · simp [h, hcat]
  · simp [h, hcat]

theorem removeAll_cfg_current : RemoveAllCfgOk .current := by decide

theorem removeAll_as_os_current (fs : FS) (hwf : wf fs = true) (p : Path) :
    (removeAll .current (wireOf G.errCfg G.normCfg) fs p).1 = (osRemoveAll fs p).1 ∧
    ((lstat fs p).1 ≠ .errNoEnt →
      (removeAll .current (wireOf G.errCfg G.normCfg) fs p).2.cat = osCat (osRemoveAll fs p).2) :=
  ⟨(removeAll_as_os .current _ wire_current removeAll_cfg_current fs hwf p).1,
   fun h => removeAll_category_as_os .current _ wire_current removeAll_cfg_current fs hwf p (Or.inl h)⟩

/-! ### non-vacuity: concrete trees, all kinds of corners, evaluated -/

/-- /a, /a/f (file), /a/l → /a/f, /a/dl → /a/d, /a/x → /nowhere (dangling), /a/d, /a/d/x, /a/d/e (empty dir) -/
def tree : FS :=
  [(["a"], .dir), (["a", "f"], .file), (["a", "l"], .link ["a", "f"]), (["a", "dl"], .link ["a", "d"]),
   (["a", "x"], .link ["nowhere"]), (["a", "d"], .dir), (["a", "d", "x"], .file), (["a", "d", "e"], .dir)]

example : wf tree = true := by decide
-- Remove: a file, a link (not its target), an empty directory, a non-empty directory, a missing path, below a file
example : removeC .current wireStd tree ["a", "f"] = (del tree ["a", "f"], .ok) := by decide
example : removeC .current wireStd tree ["a", "dl"] = (del tree ["a", "dl"], .ok) := by decide
example : removeC .current wireStd tree ["a", "d", "e"] = (del tree ["a", "d", "e"], .ok) := by decide
example : removeC .current wireStd tree ["a", "d"] = (tree, .failure) ∧ (osRemove tree ["a", "d"]).2 = .errNotEmpty := by
  decide
example : removeC .current wireStd tree ["a", "zz"] = (tree, .notExist) := by decide
example : removeC .current wireStd tree ["a", "f", "y"] = (tree, .failure) ∧ (osRemove tree ["a", "f", "y"]).2 = .errNotDir := by
  decide
-- the fallback matters for a server that answers REMOVE with unlink only
example : RemoveCfgOk { CompositeCfg.current with removePkt := .unlink, rmdirPkt := .rmdir } := by decide
example : removeC { CompositeCfg.current with removePkt := .unlink, rmdirPkt := .rmdir } wireStd tree ["a", "d", "e"] =
    (del tree ["a", "d", "e"], .ok) := by decide
-- MkdirAll: three missing levels, an existing directory, a link to a directory, a file in the way, a dangling link
example : mkdirAll .current wireStd tree ["a", "d", "n1", "n2", "n3"] =
    (tree ++ [(["a", "d", "n1"], .dir), (["a", "d", "n1", "n2"], .dir), (["a", "d", "n1", "n2", "n3"], .dir)], .ok) := by
  decide
example : mkdirAll .current wireStd tree ["a", "d", "e"] = (tree, .ok) := by decide
example : mkdirAll .current wireStd tree ["a", "dl"] = (tree, .ok) := by decide
example : mkdirAll .current wireStd tree ["a", "f", "y", "z"] = (tree, .enotdir) ∧
    (osMkdirAll tree ["a", "f", "y", "z"]).2 = .errNotDir := by decide
example : mkdirAll .current wireStd tree ["a", "x"] = (tree, .failure) ∧ (osMkdirAll tree ["a", "x"]).2 = .errExist := by
  decide
-- RemoveAll: a subtree, a link to a directory (the link goes, the directory stays), everything
example : removeAll .current wireStd tree ["a", "d"] = (delTree tree ["a", "d"], .ok) ∧
    (delTree tree ["a", "d"]).length = 5 := by decide
example : removeAll .current wireStd tree ["a", "dl"] = (del tree ["a", "dl"], .ok) ∧
    get (del tree ["a", "dl"]) ["a", "d", "x"] = some .file := by decide
example : removeAll .current wireStd tree ["a"] = ([], .ok) := by decide
example : removeAll .current wireStd tree [] = ([], .failure) ∧ osRemoveAll tree [] = ([], .errOther) := by decide

end Sftp.C05Composite
