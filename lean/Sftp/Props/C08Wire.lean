import Sftp.Generated.CodecTables
import Sftp.Generated.WireAlloc
/-
  C08, facts regenerated from the source about (a) the frame reader of internal/encoding/ssh/filexfer
  (`readPacket` behind RawPacket.ReadFrom / RequestPacket.ReadFrom) and (b) EVERY allocation in package sftp,
  filexfer and openssh whose size is a value decoded from received bytes.

  These are obligations on the regenerated tables (closed by `decide`): a change of the source that moves the
  limit check behind the allocation, reads the body with something other than io.ReadFull, or adds an
  allocation sized by a wire value without a dominating guard makes the translator emit `false` / a non-empty
  list and the theorem fails.  The behaviour itself (frames longer than the limit are refused with exactly four
  bytes consumed, for every buffer capacity and limit; allocation in proportion to the input) is checked on
  the implementation by the harness (keys fxframing/*, alloc/*, oom/*).
-/
namespace Sftp.C08Wire
open Sftp

/-- filexfer readPacket: the length word is checked against the caller's limit (a parameter, not a constant)
    and against the minimum before anything sized by it is allocated or read, and the body is read in full. -/
theorem fx_framing_facts :
    G.fxRecvLongCheck = true ∧ G.fxRecvLimitIsParam = true ∧ 1 ≤ G.fxRecvMinLen ∧
    G.fxRecvAllocAfterChecks = true ∧ G.fxRecvReadsFull = true := by decide

/-- No allocation sized by a wire-decoded value lacks a dominating guard (reject or clamp against a bound free of
    decoded values) — in the root package (server AND client side), filexfer and openssh. -/
theorem no_unguarded_wire_sized_allocation : G.wireSizedAllocsUnguarded = [] := by decide

/-- Every listed wire-sized allocation carries a guard. -/
theorem every_wire_sized_allocation_guarded :
    (G.wireSizedAllocsMain ++ G.wireSizedAllocsFx ++ G.wireSizedAllocsOpenssh).all (fun r => r.2.2.2 != "") = true := by
  decide

/-- non-vacuity: the tables are not empty (the known allocation sites are found). -/
example : 3 ≤ G.wireSizedAllocsMain.length ∧ 3 ≤ G.wireSizedAllocsFx.length := by decide

end Sftp.C08Wire
