"""Per-property configuration of bin/check (units of the translator a property depends on,
extra trusted-base remarks, assumptions, time limits)."""

TRUSTED_BASE = [
    "Lean 4.33.0 kernel (thorough tier: re-checked with leanchecker)",
    "translator /verif/extract (go/ast + go/types fact extractor; closed list of shapes, unrecognised shape = broken tie)",
    "correspondence harness /verif/harness (generators, canonicalisation, independent wire codec)",
    "hook file /repo/verif_export.go (build tag verif; re-exports only)",
]

NOT_APPLICABLE = {}

PROPS = {
    "C17": {
        "technique": "complete finite tables by decide +kernel over regenerated switch tables, lifted to forall; exhaustive differential of all three conversions",
        "level_text": "Lean theorems: wire->os->wire and os->wire->os identities and agreement with hand-written POSIX/Go reference tables for all 2^16 wire words and all 28672 os modes, proved by complete kernel evaluation of the interpreter instantiated with the switch tables regenerated from stat.go/client.go; exhaustive correspondence of the real functions against the model over the same domains.",
        "level_note": "Trusted: Lean kernel; translator (bitMapFunc shape recogniser); Nat-for-uint32 modelling (covered by the exhaustive differential); POSIX and os.FileMode constants transcribed by hand. SETSTAT/FSETSTAT: theorems setstat_applies_exactly_flagged / fsetstat_applies_exactly_flagged over the regenerated step list (all flag words). Partial: attributes reported for host file kinds (regular, dir, symlink, fifo, socket, char and block device, setuid/setgid/sticky) and the long-name agreement are checked by correspondence only, on the kinds the sandbox can create.",
        "units": ["Mode", "Consts", "Setstat"],
        "modules": ["C17", "C17Setstat"],
        "trusted": ["decide +kernel over complete finite tables (kernel evaluation, no native code), lifted by allRange_spec",
                    "Nat bit operations stand for Go uint32 on values < 2^32 (exhaustive differential covers every value)"],
        "assumptions": ["os.FileMode bit values and POSIX S_IF* constants as transcribed in lean/Sftp/Spec/Mode.lean",
                        "host file kinds: only those the sandbox can create are compared end to end"],
    },
    "C09": {
        "technique": "gate-completeness theorem over regenerated gate tables (marker set, worker type switch, open-flag truth table, extended-name switch); exhaustive request x flags x target sweep with full tree snapshots",
        "level_text": "Lean theorems gate_complete / gate_not_overzealous / sequence_safe: for every type byte, all 64 open-flag sets and every extension name, a request that may modify the file system (hand-written Spec) is refused by the read-only gate, interpreted from tables the translator regenerates from server.go, packet.go and packet-typing.go on every run; exhaustive correspondence of the gate decision and a direct before/after snapshot oracle against a real ReadOnly() server.",
        "level_note": "Trusted: Lean kernel; translator shapes (worker gate switch, readonly() bodies evaluated by a small expression evaluator, extended-name switch, makePacket switch); Spec.Gate.mayMutate (hand-written reading of the draft). Partial: the effect of non-denied requests on the file system is the kernel's; it is observed by snapshot, not modelled.",
        "units": ["Gate", "ServerCalls", "Consts"],
        "assumptions": ["requests with unknown type bytes are not dispatched (C07)", "sandbox runs as uid 0: permission outcomes are compared between runs, not against constants"],
    },
    "C16": {
        "technique": "listing_exact for every legal ListAt behaviour by induction on remaining entries; all sizes x batch sizes x EOF/short-batch behaviours end to end",
        "level_text": "Lean theorems listing_exact / listing_terminates / os_lister_legal / example_lister_legal: for all entry lists, all batch sizes >= 1 and every lister behaviour satisfying the ListerAt contract (EOF with the last entries or on the next call, short batches), the client loop over the server's filelist step returns each entry exactly once in order minus '.' and '..' with the server's attributes within |entries|+1 round trips; necessity witnesses for each configuration fact. Correspondence: Client.ReadDir against a real RequestServer with a scripted lister for every size 0..2*batch+2, batch 1..5, and against the os-backed server on real directories around the 128-entry batch, compared with the model's output (entries, rounds, error).",
        "level_note": "Trusted: Lean kernel; the abstraction of NAME/STATUS packets to (entries | status) (codec is C06/C08); os.File.Readdir(128) assumed to honour its contract (observed on real directories). Names containing '/' are rewritten by path.Base in the client (documented in listing_exact via pathBase; impossible for real directories).",
        "units": ["ListingCfg"],
        "modules": ["C16", "C16Inst"],
        "assumptions": ["MaxFilelist >= 1", "lister honours the ListerAt contract (Legal)"],
    },
    "C15": {
        "technique": "lin-points => linearizable theorem + proved stamped-trace checker (checker_sound); exact validation of stamped histories from both real servers",
        "level_text": "Lean theorems lin_points_imply_linearizable and checker_sound: any history whose operations each have an atomic store step strictly between call and return, with results explained by replaying the sequential file specification in stamp order, is linearizable (total order respecting real time); the executable checker checkStamped is proved sound and complete for that premise. The harness records concurrent single-packet ReadAt/WriteAt/Stat histories through one Client against both real servers (allocator on/off) with a store that stamps each step from the same logical clock, and every history is decided by the proved checker (no search).",
        "level_note": "Trusted: Lean kernel; the harness's matching of client operations to store steps (unique offsets/lengths and data); atomicity of the backing store is the property's own premise (the store wrapper serialises pread/pwrite). Partial: that executions of the real pipeline supply such stamps for every schedule is observed on recorded histories, not derived from the C02/C03/C18 models (pipeline_has_lin_points not proved).",
        "units": [],
        "assumptions": ["backing store ReadAt/WriteAt atomic", "file size constant; operations within the extent and within one packet"],
    },
    "C05": {
        "technique": "request->os-call table (regenerated) equals hand-written Spec; working-directory resolution theorems for all byte strings; differential of Client+Server against package os on twin trees",
        "level_text": "Lean theorems: server_calls_as_spec (for every request kind the os-backed server performs exactly the corresponding package os call with exactly the path arguments resolved against the working directory; table regenerated from handlePacket and the respond methods), toLocal_* (resolution: absolute paths untouched, relative joined under the working directory, result always absolute for a clean working directory, for all byte strings), adapter_transparent over an arbitrary file-system oracle. Correspondence: PRNG operation sequences of 23 operation kinds through a real Client/Server pair on tree A and through package os on twin tree B, comparing outcome category, returned values and a canonical snapshot after every step, absolute and working-directory-relative.",
        "level_note": "Trusted: Lean kernel; translator call descriptions (ServerCalls, ServerPaths); kernel and package os are the oracle (not modelled). Partial: client-side composites (Remove fallback, MkdirAll, RemoveAll, Glob, Walk) and error categories end to end are validated by the differential only (error mapping theorems are C10's); uid 0 sandbox reaches permission outcomes only through link(2) of a directory; documented differences are tabulated in the harness (c05Documented).",
        "units": ["ServerCalls", "ServerPaths"],
        "assumptions": ["names from a small universe, canonical spellings (non-canonical spellings only with VERIF_C05_NONCANON=1)", "umask 022"],
        "timeout": {"quick": 600, "thorough": 3600},
    },
    "C10": {
        "technique": "path confinement for all byte strings (model of path.Clean/Join); regenerated method/call/field/error tables = hand-written Spec; error-kind preservation by case analysis over all errors of the stated families; exhaustive path differential + recording-handler end-to-end run",
        "level_text": "Lean theorems: withBase_absClean / cleanPath_absClean / confined / clean_idempotent (for ALL byte strings the path a handler sees is absolute and lexically clean, so joining it under a root cannot escape); method_table, call_table, called_exactly_once, fields_table, paths_cleaned (tables regenerated from request.go / request-server.go equal the hand-written Spec; exactly the symlink target and the custom RealPath argument are passed verbatim); error_kind_preserved_now (for every error of the families nil / EOF / not-exist / permission / errno / fxerr, bare or inside os.PathError, LinkError, SyscallError, the kind the client sees after statusFromError -> wire -> normaliseError is the kind the handler returned), interpreted from the regenerated ordered test lists. Correspondence: cleanPathWithBase vs the model exhaustively over all strings of length <= 7/8 over {'/','.','a',0xff}; every request kind x tricky paths x start directories through a real RequestServer with recording handlers; every error term through the real wire.",
        "level_note": "Trusted: Lean kernel; translator units ReqServer / ErrTables (statement-by-statement shape matchers); hand-written models of stdlib path.Clean/Join (validated exhaustively against Go), os.IsNotExist/IsPermission, errors.Is/As (validated on 526 terms). Outside the stated families (recorded in C10.outside_families): a handler returning a *sftp.StatusError value is answered FAILURE; %w-wrapped os errors are not looked through by the os predicates. OPEN's attribute flags word is not conveyed to handlers (documented reading).",
        "units": ["ReqServer", "ErrTables", "Consts"],
        "modules": ["C10", "C10Path", "C10Fixed"],
        "known_modules": ["Known.C10"],
        "assumptions": ["linux errno values", "start directory configured through WithStartDirectory (stored clean) or default '/'"],
    },
    "C06": {
        "technique": "generic field-list round-trip theorem (induction over layouts, all values) instantiated on layout tables regenerated from both codecs; tables = hand-written draft layouts; four-way byte comparison (packet.go, filexfer, independent codec, Lean interpreter)",
        "level_text": "Lean theorems: decode_encode / decode_encode_trailing / attrs_decode_encode (for every field list and every well-formed record: ids, 64-bit offsets, any strings, any payload, every attribute-flag word, any number of extended pairs and name entries), length_prefix, recv_frame, layouts_agree; instantiated by decide on the tables the translator regenerates from packet.go and internal/encoding/ssh/filexfer (main_tables_fit, fx_tables_fit, cross_tables_fit, type_bytes_agree, layout_is_draft, field_roles_are_draft, unmarshal_matches_marshal, codecs_agree, every_request_kind_covered). Correspondence: every packet kind x generated boundary values encoded by packet.go, by filexfer, by the independent harness codec and by the Lean interpreter must be byte-identical and decode back.",
        "level_note": "Trusted: Lean kernel; translator units CodecTables (statement-level shape matchers of MarshalBinary/UnmarshalBinary/MarshalPacket/UnmarshalPacketBody); hand-written draft layouts (Spec/Layout.lean). Explicit well-formedness: lengths < 2^32, WRITE/DATA length = len(data), attribute fields zero when unflagged, MKDIR flags = 0 in packet.go (it carries only the flags word: Props/Known/C06). The in-place DATA MarshalBinary, NAME via reflection, StatVFS via binary.Write and the by-flags attribute encoders are tied by the byte-level differential only.",
        "units": ["CodecTables", "Consts", "Gate"],
        "modules": ["C06", "C06Inst", "C06Tables"],
        "known_modules": ["Known.C06"],
        "assumptions": ["filexfer VersionPacket.UnmarshalBinary drops the sticky buffer error (recorded as fxDropsStickyErr; the wire-facing client uses packet.go)"],
    },
    "C08": {
        "technique": "no-panic and allocation-meter theorems for the decoder interpreter over all byte strings; framing theorems; instantiated on regenerated tables; truncation / length-field / type-byte sweep in child processes",
        "level_text": "Lean theorems: decode_total (no decode of any byte string through a layout of bounds-checked primitives panics), attrs_total, names_total, alloc_linear (allocation meter <= 9*len + 96*fields when the count guards are present), frame_long_refused_early, frame_zero_refused, frame_never_short, frame_short_is_error, fx_frame_*; instantiated by decide: tables_all_safe, main_decoders_total, fx_decoders_total, main_alloc_linear, count guards and recvPacket facts regenerated from packet.go / filexfer (main_count_guard, framing_facts, recv_long_refused, recv_zero_refused). Correspondence: every truncation, every 4-byte window replaced by 0/1/n-1/n+1/2^31-1/2^32-1, every type byte and PRNG bytes through every decoding entry point of both codecs in child processes (outcome class vs model, allocation bound, death/hang observed), framing with a byte-counting reader.",
        "level_note": "Trusted: Lean kernel; translator (Safe-variant recognition, count-guard and recvPacket shape matchers); the allocation meter is a model (element count x element size of every modelled make / string conversion) compared against a generous measured bound (64*len + 64 KiB via runtime.MemStats in a child with GC off). Runtime part: bytes actually allocated, process death.",
        "units": ["CodecTables", "Consts"],
        "modules": ["C08", "C08Inst", "C08Tables"],
        "known_modules": ["Known.C08"],
        "assumptions": ["64-bit platform sizes in the meter"],
        "timeout": {"quick": 600, "thorough": 3600},
    },
}
