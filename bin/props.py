"""Per-property configuration of bin/check (units of the translator a property depends on,
extra trusted-base remarks, assumptions, time limits)."""

TRUSTED_BASE = [
    "Lean 4.33.0 kernel (thorough tier: re-checked with leanchecker)",
    "translator /verif/extract (go/ast + go/types fact extractor; closed list of shapes, unrecognised shape = broken tie)",
    "correspondence harness /verif/harness (generators, canonicalisation, independent wire codec)",
    "hook file /repo/verif_export.go (build tag verif; re-exports only)",
]

NOT_APPLICABLE = {}

PROPS = {
    "C17": {
        "technique": "complete finite tables by decide +kernel over regenerated switch tables, lifted to forall; exhaustive differential of all three conversions",
        "level_text": "Lean theorems: wire->os->wire and os->wire->os identities and agreement with hand-written POSIX/Go reference tables for all 2^16 wire words and all 28672 os modes, proved by complete kernel evaluation of the interpreter instantiated with the switch tables regenerated from stat.go/client.go; exhaustive correspondence of the real functions against the model over the same domains.",
        "level_note": "Trusted: Lean kernel; translator (bitMapFunc shape recogniser); Nat-for-uint32 modelling (covered by the exhaustive differential); POSIX and os.FileMode constants transcribed by hand. Partial: attributes reported for host file kinds and SETSTAT application are checked by correspondence on the kinds the sandbox can create.",
        "units": ["Mode", "Consts"],
        "trusted": ["decide +kernel over complete finite tables (kernel evaluation, no native code), lifted by allRange_spec",
                    "Nat bit operations stand for Go uint32 on values < 2^32 (exhaustive differential covers every value)"],
        "assumptions": ["os.FileMode bit values and POSIX S_IF* constants as transcribed in lean/Sftp/Spec/Mode.lean",
                        "host file kinds: only those the sandbox can create are compared end to end"],
    },
}
