package lib

import (
	"os"
	"path/filepath"
	"testing"
)

func TestContained(t *testing.T) {
	outer := t.TempDir()
	root := filepath.Join(outer, "root")
	other := filepath.Join(outer, "other")
	for _, d := range []string{root, other, filepath.Join(root, "d")} {
		if err := os.MkdirAll(d, 0o755); err != nil {
			t.Fatal(err)
		}
	}
	os.WriteFile(filepath.Join(root, "f"), nil, 0o644)
	os.Symlink("f", filepath.Join(root, "in"))                         // relative, inside
	os.Symlink(filepath.Join(root, "d"), filepath.Join(root, "inabs")) // absolute, inside
	os.Symlink(other, filepath.Join(root, "out"))                      // absolute, outside
	os.Symlink("../other", filepath.Join(root, "outrel"))              // relative, outside
	os.Symlink("/", filepath.Join(root, "slash"))
	os.Symlink("loop", filepath.Join(root, "loop"))
	os.Symlink("..", filepath.Join(root, "d", "up")) // root/d/up -> root
	roots := []string{root}
	cases := []struct {
		base, p string
		want    bool
	}{
		{"", root, true},
		{"", root + "/", true},
		{"", root + "/f", true},
		{"", root + "/missing/x/y", true},
		{"", root + "/in", true},
		{"", root + "/inabs/x", true},
		{"", root + "/d/up/f", true},
		{"", root + "/d/up/up", true}, // missing below root
		{"", root + "/d/up/..", false},
		{"", root + "/d/up/../other", false},
		{"", root + "/out", false},
		{"", root + "/out/x", false},
		{"", root + "/outrel", false},
		{"", root + "/slash", false},
		{"", root + "/slash/etc", false},
		{"", root + "/loop", true}, // the kernel refuses it; every link on the way is inside
		{"", root + "/..", false},
		{"", root + "/../root/f", true},
		{"", root + "/d/../../other", false},
		{"", outer, false},
		{"", "/", false},
		{"", "/tmp", false},
		{"", root[:len(root)-1], false}, // a cut path
		{"", root + "x", false},         // a sibling with the root's name as prefix
		{root, "f", true},
		{root, "", true},
		{root, ".", true},
		{root, "..", false},
		{root, "d/../f", true},
		{root, "out/x", false},
		{"/", "f", false},
		{other, "f", false},
		{"", root + "/f\x00/../../..", true}, // a C string ends at the NUL
		{"", "/\x00" + root, false},
	}
	for _, c := range cases {
		got, why := Contained(roots, c.base, c.p)
		if got != c.want {
			t.Errorf("Contained(base %q, %q) = %v (%s), want %v", c.base, c.p, got, why, c.want)
		}
	}
	links := []struct {
		base, link, target string
		want               bool
	}{
		{"", root + "/l", "f", true},
		{"", root + "/l", root + "/f", true},
		{"", root + "/l", "../other", false},
		{"", root + "/d/l", "../f", true},
		{"", root + "/d/l", "../../other", false},
		{"", root + "/l", "/etc/passwd", false},
		{"", root + "/l", "/nonexistent", false},
		{"", root + "/inabs/l", "../f", true}, // the link lands in root/d
		{root, "l", "f", true},
		{root, "l", "..", false},
		{"", root + "/l", "", true},
	}
	for _, c := range links {
		got, why := LinkTargetOK(roots, c.base, c.link, c.target)
		if got != c.want {
			t.Errorf("LinkTargetOK(base %q, link %q, target %q) = %v (%s), want %v", c.base, c.link, c.target, got, why, c.want)
		}
	}
}

func TestHostWatch(t *testing.T) {
	dir := t.TempDir()
	t.Setenv("TMPDIR", dir)
	w := NewHostWatch(dir)
	defer w.Close()
	if ch := w.Verify(); len(ch) != 0 {
		t.Fatalf("changes on an untouched host: %v", ch)
	}
	// the temporary directory's mode and the canary are watched
	os.Chmod(dir, 0o700)
	os.WriteFile(filepath.Join(w.canary, "canary"), []byte("x"), 0o600)
	os.WriteFile(filepath.Join(w.canary, "new"), nil, 0o600)
	ch := w.Verify()
	if len(ch) < 3 {
		t.Fatalf("expected the changes to be seen, got %v", ch)
	}
	if fi, _ := os.Stat(dir); fi.Mode().Perm() == 0o700 {
		t.Errorf("mode of the temporary directory not restored")
	}
	if _, err := os.Lstat(filepath.Join(w.canary, "new")); err == nil {
		t.Errorf("new entry in the canary directory not removed")
	}
	if ch := w.Verify(); len(ch) != 0 {
		t.Errorf("changes reported twice / not restored: %v", ch)
	}
}
