package lib

// Containment.  The harness runs as whoever started it (root, in practice) and starts REAL os-backed sftp
// servers and calls package os on "twin" trees: a request path that leaves the scratch directory is acted on
// for real, on the host.  Everything that can name a file goes through this file:
//
//   - MkScratch creates every scratch directory and registers it as a ROOT.  Scratch directories live two levels
//     below the temporary directory (<tmp>/vh-scratch-<pid>-<rnd>/<pattern><rnd>), so that a path one level up
//     of a root (filepath.Dir of it, "root/..", a string cut at its last slash) is still a directory of ours and
//     not the shared temporary directory.
//   - Contained / InScratch judge a path the way the server and the kernel will resolve it: relative paths
//     against the server's working directory (the process directory without one), lexically cleaned AND walked
//     component by component with every symbolic link that exists expanded; both results must lie in a root.
//   - LinkTargetOK judges the text of a symbolic link about to be created: wherever it would lead from its
//     directory must lie in a root (absolute targets must be inside a root).
//   - ReportEscape / Escapes: the last line of defence in peers (a request that reaches the transport of an
//     os-backed server with a path outside the roots is not delivered) reports here; main turns every entry into
//     a failure of the run.  Child processes append to the file named by VH_ESCAPE_LOG.

import (
	"fmt"
	"os"
	"path/filepath"
	"strings"
	"sync"
	"time"
)

var (
	scratchMu    sync.RWMutex
	scratchRoots []string                       // as created and with symbolic links resolved
	scratchIndex = map[string]map[string]bool{} // parent directory -> names of the roots in it (thousands of roots share a few parents)
	scratchOuter string
	escapes      []string
)

const (
	envOuter     = "VH_SCRATCH_OUTER"
	envEscapeLog = "VH_ESCAPE_LOG"
)

// NotRunBucket is the histogram bucket every check uses for requests / operations it did not run because a path
// of theirs leaves the scratch directories.
const NotRunBucket = "not-run/os-request-names-a-path-outside-the-scratch-directory"

// ScratchOuter returns (and creates on first use) this process's outer scratch directory.
func ScratchOuter() (string, error) {
	scratchMu.Lock()
	defer scratchMu.Unlock()
	return scratchOuterLocked()
}

func scratchOuterLocked() (string, error) {
	if scratchOuter != "" {
		return scratchOuter, nil
	}
	// a child process lives inside its parent's outer directory: whatever it leaves behind when it is killed
	// goes away with the parent's
	// (names of fixed length: checks that mutate frames by offset want paths of a length that does not vary)
	parent, prefix := os.TempDir(), "vh-scratch"
	if po := os.Getenv(envOuter); po != "" {
		if fi, err := os.Stat(po); err == nil && fi.IsDir() {
			parent, prefix = po, "child"
		}
	}
	d, err := mkFixed(parent, prefix)
	if err != nil {
		return "", err
	}
	if r, err := filepath.EvalSymlinks(d); err == nil {
		d = r
	}
	scratchOuter = d
	return d, nil
}

var fixedSeq uint32

// mkFixed creates <parent>/<prefix>-<pid, 7 digits>-<8 hex digits>.
func mkFixed(parent, prefix string) (string, error) {
	var err error
	for i := 0; i < 1000; i++ {
		fixedSeq++
		x := uint32(time.Now().UnixNano())*2654435761 + fixedSeq*40503
		d := filepath.Join(parent, fmt.Sprintf("%s-%07d-%08x", prefix, os.Getpid()%10000000, x))
		if err = os.Mkdir(d, 0o755); err == nil {
			return d, nil
		} else if !os.IsExist(err) {
			return "", err
		}
	}
	return "", err
}

// MkScratch creates a scratch directory (os.MkdirTemp semantics for pattern) inside this process's outer
// scratch directory and registers it as a root.
func MkScratch(pattern string) (string, error) { return MkScratchIn("", pattern) }

// MkScratchIn is MkScratch under another parent than the temporary directory ("/dev/shm"): the same two levels.
func MkScratchIn(parent, pattern string) (string, error) {
	scratchMu.Lock()
	defer scratchMu.Unlock()
	var outer string
	var err error
	if parent == "" {
		outer, err = scratchOuterLocked()
	} else {
		outer, err = mkFixed(parent, "vh-scratch")
		if err == nil {
			extraOuters = append(extraOuters, outer)
		}
	}
	if err != nil {
		return "", err
	}
	d, err := os.MkdirTemp(outer, pattern)
	if err != nil {
		return "", err
	}
	addRootLocked(d)
	return d, nil
}

var extraOuters []string

// AddScratch registers an existing directory as a root (a child process that is handed its scratch directory
// by its parent; a directory created below a root needs no registration).
func AddScratch(dir string) {
	scratchMu.Lock()
	defer scratchMu.Unlock()
	addRootLocked(dir)
}

func addRootLocked(dir string) {
	dir = filepath.Clean(dir)
	if !filepath.IsAbs(dir) || dir == "/" {
		return
	}
	add := func(d string) {
		for _, r := range scratchRoots {
			if r == d {
				return
			}
		}
		scratchRoots = append(scratchRoots, d)
		par := filepath.Dir(d)
		if scratchIndex[par] == nil {
			scratchIndex[par] = map[string]bool{}
		}
		scratchIndex[par][filepath.Base(d)] = true
	}
	add(dir)
	if r, err := filepath.EvalSymlinks(dir); err == nil {
		add(r)
	}
}

// DropScratch removes a root from the registry (after its directory was removed).
func DropScratch(dir string) {
	scratchMu.Lock()
	defer scratchMu.Unlock()
	dir = filepath.Clean(dir)
	out := scratchRoots[:0]
	for _, r := range scratchRoots {
		if r != dir {
			out = append(out, r)
		}
	}
	scratchRoots = out
	if m := scratchIndex[filepath.Dir(dir)]; m != nil {
		delete(m, filepath.Base(dir))
	}
}

// inScratchRoots reports whether the cleaned absolute path p is (inside) a registered root.
func inScratchRoots(p string) bool { return ScratchRootOf(p) != "" }

// ScratchRootOf returns the registered root the cleaned absolute path p lies in ("" when in none).
func ScratchRootOf(p string) string {
	scratchMu.RLock()
	defer scratchMu.RUnlock()
	for par, names := range scratchIndex {
		if len(p) > len(par)+1 && strings.HasPrefix(p, par) && p[len(par)] == '/' {
			name := p[len(par)+1:]
			if i := strings.IndexByte(name, '/'); i >= 0 {
				name = name[:i]
			}
			if names[name] {
				return par + "/" + name
			}
		}
	}
	return ""
}

// ScratchRoots returns the registered roots.
func ScratchRoots() []string {
	scratchMu.RLock()
	defer scratchMu.RUnlock()
	return append([]string(nil), scratchRoots...)
}

// CleanupScratch removes this process's outer scratch directories (everything in them is ours).
func CleanupScratch() {
	scratchMu.Lock()
	defer scratchMu.Unlock()
	if scratchOuter != "" {
		removeOurs(scratchOuter)
	}
	for _, d := range extraOuters {
		removeOurs(d)
	}
	scratchOuter, extraOuters = "", nil
}

// removeOurs removes a tree of ours that a defective server may have left unreadable.
func removeOurs(d string) {
	if os.RemoveAll(d) == nil {
		return
	}
	filepath.Walk(d, func(p string, fi os.FileInfo, err error) error {
		if fi != nil && fi.IsDir() {
			os.Chmod(p, 0o700)
		}
		return nil
	})
	os.RemoveAll(d)
}

func inside(root, p string) bool {
	return p == root || strings.HasPrefix(p, root+string(filepath.Separator))
}

func inAny(roots []string, p string) bool {
	for _, r := range roots {
		if inside(r, p) {
			return true
		}
	}
	return false
}

// ResolveLike walks the absolute path p the way the kernel does — "." and "" skipped, ".." to the parent of
// where the walk IS (not lexically), every existing symbolic link expanded, the last component too — as far as
// components exist; from the first missing component on the rest is appended lexically.  links are the
// locations of the symbolic links that were expanded.  ok is false when more than 40 links were expanded (the
// kernel refuses such a path; res is where the walk was).
func ResolveLike(p string) (res string, links []string, ok bool) {
	rest := strings.Split(p, "/")
	cur := "/"
	missing := false
	for len(rest) > 0 {
		c := rest[0]
		rest = rest[1:]
		switch c {
		case "", ".":
			continue
		case "..":
			cur = filepath.Dir(cur)
			continue
		}
		next := filepath.Join(cur, c)
		if missing {
			cur = next
			continue
		}
		fi, err := os.Lstat(next)
		if err != nil {
			missing = true
			cur = next
			continue
		}
		if fi.Mode()&os.ModeSymlink == 0 {
			cur = next
			continue
		}
		links = append(links, next)
		if len(links) > 40 {
			return cur, links, false
		}
		t, err := os.Readlink(next)
		if err != nil {
			missing = true
			cur = next
			continue
		}
		if strings.HasPrefix(t, "/") {
			cur = "/"
		}
		rest = append(strings.Split(t, "/"), rest...)
	}
	return cur, links, true
}

// Contained reports whether the path p, as an os-backed server with working directory base (or package os in
// a process whose directory is base) resolves it, names something inside one of roots: the lexically cleaned
// path AND the path with every existing symbolic link expanded must lie in (or be) a root, and so must every
// symbolic link passed on the way.  base "" is the process directory.  why says what is wrong.
func Contained(roots []string, base, p string) (ok bool, why string) {
	return containedBy(func(q string) bool { return inAny(roots, q) }, base, p)
}

// InScratch is Contained for the registered roots.
func InScratch(base, p string) (bool, string) { return containedBy(inScratchRoots, base, p) }

func containedBy(in func(string) bool, base, p string) (ok bool, why string) {
	if i := strings.IndexByte(p, 0); i >= 0 {
		p = p[:i] // package os refuses such a path; a C string ends here
	}
	if !strings.HasPrefix(p, "/") {
		if base == "" {
			wd, err := os.Getwd()
			if err != nil {
				return false, "relative path and no process directory: " + err.Error()
			}
			base = wd
		}
		p = base + "/" + p
	}
	c := filepath.Clean(p)
	if !in(c) {
		return false, "cleaned path " + c + " is outside the scratch directories"
	}
	// the path as it is (absolute paths reach the kernel uncleaned) and lexically cleaned (path.Join with a
	// working directory cleans it first)
	for _, q := range []string{p, c} {
		res, links, _ := ResolveLike(q)
		for _, l := range links {
			if !in(l) {
				return false, "the path passes the symbolic link " + l + " outside the scratch directories"
			}
		}
		if !in(res) {
			return false, "with symbolic links resolved the path is " + res + ", outside the scratch directories"
		}
		if q == c {
			break
		}
	}
	return true, ""
}

// LinkTargetOK reports whether a symbolic link at linkPath (resolved like a request path against base) with the
// text target leads into the roots: an absolute target must be contained, a relative one is judged from the
// directory the link will be in.
func LinkTargetOK(roots []string, base, linkPath, target string) (bool, string) {
	return linkTargetBy(func(q string) bool { return inAny(roots, q) }, base, linkPath, target)
}

// LinkTargetInScratch is LinkTargetOK for the registered roots.
func LinkTargetInScratch(base, linkPath, target string) (bool, string) {
	return linkTargetBy(inScratchRoots, base, linkPath, target)
}

func linkTargetBy(in func(string) bool, base, linkPath, target string) (bool, string) {
	if i := strings.IndexByte(target, 0); i >= 0 {
		target = target[:i]
	}
	if target == "" {
		return true, "" // refused by the system call
	}
	if strings.HasPrefix(target, "/") {
		return containedBy(in, "/", target)
	}
	if !strings.HasPrefix(linkPath, "/") {
		if base == "" {
			if wd, err := os.Getwd(); err == nil {
				base = wd
			}
		}
		linkPath = base + "/" + linkPath
	}
	// the directory the link lives in, as the kernel finds it (the link's own name is not followed)
	dir, _, _ := ResolveLike(filepath.Dir(filepath.Clean(linkPath)))
	return containedBy(in, dir, target)
}

// ---------- escapes caught by the last line of defence ----------

// ReportEscape records that something of the harness tried to reach the host outside the scratch directories
// and was stopped (the transport guard of an os-backed server).  main reports every entry as a failure.
func ReportEscape(format string, a ...any) {
	s := fmt.Sprintf(format, a...)
	scratchMu.Lock()
	escapes = append(escapes, s)
	scratchMu.Unlock()
	if p := os.Getenv(envEscapeLog); p != "" {
		if f, err := os.OpenFile(p, os.O_APPEND|os.O_WRONLY|os.O_CREATE, 0o644); err == nil {
			fmt.Fprintf(f, "%s\n", strings.ReplaceAll(s, "\n", " "))
			f.Close()
		}
	}
	if os.Getenv("VH_ESCAPE_STDERR") != "" {
		fmt.Fprintln(os.Stderr, "vh: ESCAPE STOPPED:", s)
	}
}

// Escapes returns what ReportEscape recorded in this process and, through the escape log, in its children.
func Escapes() []string {
	scratchMu.Lock()
	out := append([]string(nil), escapes...)
	scratchMu.Unlock()
	seen := map[string]bool{}
	for _, s := range out {
		seen[s] = true
	}
	if p := os.Getenv(envEscapeLog); p != "" {
		if b, err := os.ReadFile(p); err == nil {
			for _, l := range strings.Split(string(b), "\n") {
				if l != "" && !seen[l] {
					seen[l] = true
					out = append(out, l)
				}
			}
		}
	}
	return out
}

// InitContainment is called once by main (parent and children) before anything runs: the process moves into a
// directory of its own inside its outer scratch directory — a relative path sent to a server without a working
// directory, or handed to package os, resolves THERE and not in the directory the harness was started from — and
// the escape log is set up for the children.
func InitContainment(child bool) error {
	outer, err := ScratchOuter()
	if err != nil {
		return err
	}
	cwd := filepath.Join(outer, "cwd")
	if err := os.Mkdir(cwd, 0o755); err != nil {
		return err
	}
	if err := os.Chdir(cwd); err != nil {
		return err
	}
	os.Setenv("PWD", cwd)
	AddScratch(cwd)
	if !child || os.Getenv(envEscapeLog) == "" {
		os.Setenv(envEscapeLog, filepath.Join(outer, "escapes.log"))
	}
	if child {
		// directories the parent created before it started this process may be handed to it
		if po := filepath.Dir(outer); po != "" && po == os.Getenv(envOuter) {
			if des, err := os.ReadDir(po); err == nil {
				for _, de := range des {
					if de.IsDir() && de.Name() != "cwd" && !strings.HasPrefix(de.Name(), "child-") {
						AddScratch(filepath.Join(po, de.Name()))
					}
				}
			}
		}
	}
	os.Setenv(envOuter, outer) // for the children of this process
	return nil
}
