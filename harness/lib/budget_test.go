package lib

import (
	"os"
	"testing"
	"time"
)

func TestShrinkAndRelated(t *testing.T) {
	for _, c := range []struct{ d, want time.Duration }{
		{20 * time.Second, 2 * time.Second}, {30 * time.Second, 2 * time.Second}, {10 * time.Second, time.Second},
		{5 * time.Second, time.Second}, {500 * time.Millisecond, 500 * time.Millisecond}} {
		if got := shrink(c.d); got != c.want {
			t.Errorf("shrink(%v) = %v, want %v", c.d, got, c.want)
		}
	}
	for _, c := range []struct {
		hung, class string
		want        bool
	}{{"c04/Stat", "c04/Stat", true}, {"c04", "c04/Stat", true}, {"c04/Stat", "c04", true}, {"c04/Stat", "c04/Lstat", false},
		{"*", "anything", true}, {"c19-stat-probe/os", "c19/os", false}, {"c04/Sta", "c04/Stat", false}} {
		if got := related(c.hung, c.class); got != c.want {
			t.Errorf("related(%q, %q) = %v, want %v", c.hung, c.class, got, c.want)
		}
	}
}

// Two budget states on one ledger stand for the parent and a child process of a run.
func TestLedgerIsSharedAndStopsHungClasses(t *testing.T) {
	f, err := os.CreateTemp("", "ledger")
	if err != nil {
		t.Fatal(err)
	}
	f.Close()
	defer os.Remove(f.Name())
	mk := func() *budgetState {
		b := &budgetState{classes: map[string]*classStat{}, pending: map[string][2]int{}, inited: true, hangTotal: 40 * time.Second, soft: time.Now().Add(time.Hour)}
		b.f, _ = os.OpenFile(f.Name(), os.O_RDWR|os.O_APPEND, 0o600)
		return b
	}
	parent, child := mk(), mk()
	child.append("h c04/Stat 20000")
	parent.refresh(true)
	if parent.exhausted || parent.hangs != 1 {
		t.Fatalf("after one hang in the child: parent exhausted=%v hangs=%d", parent.exhausted, parent.hangs)
	}
	if parent.stopWhy("c04/Stat") != 0 {
		t.Fatal("a class must not be stopped before the budget is exhausted")
	}
	parent.append("h c04/Stat 20000")
	child.refresh(true)
	if !child.exhausted || child.exhAt != 2 {
		t.Fatalf("child does not see the exhaustion: %v at %d", child.exhausted, child.exhAt)
	}
	if child.stopWhy("c04/Stat") != 'h' || child.stopWhy("c04") != 'h' || child.stopWhy("c04/Lstat") != 0 {
		t.Fatalf("stopWhy: Stat=%c c04=%c Lstat=%c", child.stopWhy("c04/Stat"), child.stopWhy("c04"), child.stopWhy("c04/Lstat"))
	}
	child.soft = time.Now().Add(-time.Second)
	if child.stopWhy("c04/Lstat") != 'd' {
		t.Fatal("after the soft deadline every class is stopped")
	}
	// clean-up waits have an account of their own and stop nothing
	parent.append("c c15/pair 30000")
	parent.refresh(true)
	if parent.cleanN != 1 || parent.hangs != 2 {
		t.Fatalf("clean-up wait counted as a hang: cleanN=%d hangs=%d", parent.cleanN, parent.hangs)
	}
}

func TestCaseShortensAfterItsFirstHang(t *testing.T) {
	k := NewCase("test/never-spent") // no Spend: the global ledger is not touched
	if k.Hung() != 0 {
		t.Fatal("fresh case has hung")
	}
	k.mu.Lock()
	k.hung = 1
	k.mu.Unlock()
	if got := k.Wait(20 * time.Second); got != 2*time.Second {
		t.Fatalf("Wait after a hang = %v, want 2s", got)
	}
	var nilCase *Case
	if nilCase.Hung() != 0 || nilCase.Class() != "" {
		t.Fatal("nil case")
	}
}
