// Package lib holds what every correspondence check shares: the result record
// written for bin/check, the model-driver client, the PRNG and counters.
package lib

import (
	"bufio"
	"crypto/sha256"
	"encoding/hex"
	"encoding/json"
	"fmt"
	"math/rand"
	"os"
	"os/exec"
	"sort"
	"strings"
	"sync"
	"sync/atomic"
	"time"
)

// Failure is one input on which the implementation violates the property's direct
// oracle ("oracle"), differs from the proved model ("correspondence"), or a broken
// tie ("tie").
type Failure struct {
	Kind     string `json:"kind"`
	Key      string `json:"key"` // stable signature used to match known findings
	What     string `json:"what"`
	Input    any    `json:"input,omitempty"`
	Expected any    `json:"expected,omitempty"`
	Actual   any    `json:"actual,omitempty"`
}

// Result is what a vh sub-command reports.
type Result struct {
	Property    string         `json:"property"`
	Tier        string         `json:"tier"`
	Seed        int64          `json:"seed"`
	Evaluations int            `json:"evaluations"`
	Distinct    int            `json:"distinct_nontrivial"`
	Rule        string         `json:"rule"`
	Samples     []any          `json:"samples"`
	Exhaustive  bool           `json:"exhaustive"`
	Histogram   map[string]int `json:"histogram"`
	ModelCases  int            `json:"traces_validated_against_impl"`
	Failures    []Failure      `json:"failures"`
	Notes       []string       `json:"notes,omitempty"`
	Skipped     []string       `json:"skipped,omitempty"`
	// Incomplete lists the reasons why the run did not cover its whole case space (hang budget exhausted,
	// soft deadline reached, interrupted by a signal); empty for a complete run.
	Incomplete []string `json:"incomplete,omitempty"`
	WallS      float64  `json:"wall_s"`

	// mu guards every field above: Case, Hist, HistAdd, HistGet, Sample, Fail, Note, Skip, MarkIncomplete, AddModelCases
	// and Write may be called concurrently (worker goroutines, the signal handler, the checkpoint writer).
	mu    sync.Mutex
	seen  map[[32]byte]struct{}
	start time.Time
	fkeys map[string]int
}

// Ctx is the per-run context handed to a check.
type Ctx struct {
	Tier      string
	Seed      int64
	ModelPath string
	Replay    string
	Rand      *rand.Rand
	R         *Result
}

func NewResult(prop, tier string, seed int64) *Result {
	return &Result{Property: prop, Tier: tier, Seed: seed, Histogram: map[string]int{},
		seen: map[[32]byte]struct{}{}, start: time.Now(), fkeys: map[string]int{}}
}

// Case counts one evaluated case; nontrivial cases are de-duplicated by their canonical text.
func (r *Result) Case(canonical string, nontrivial bool) {
	Touch()
	r.mu.Lock()
	defer r.mu.Unlock()
	r.Evaluations++
	if nontrivial {
		h := sha256.Sum256([]byte(canonical))
		if _, ok := r.seen[h]; !ok {
			r.seen[h] = struct{}{}
			r.Distinct++
		}
	}
}

func (r *Result) Hist(k string) { r.HistAdd(k, 1) }

// HistAdd adds n to a histogram bucket.
func (r *Result) HistAdd(k string, n int) {
	Touch()
	r.mu.Lock()
	r.Histogram[k] += n
	r.mu.Unlock()
}

// HistGet reads a histogram bucket.
func (r *Result) HistGet(k string) int {
	r.mu.Lock()
	defer r.mu.Unlock()
	return r.Histogram[k]
}

// AddModelCases counts traces validated against the implementation.
func (r *Result) AddModelCases(n int) {
	r.mu.Lock()
	r.ModelCases += n
	r.mu.Unlock()
}

// NumSamples returns the number of samples kept so far.
func (r *Result) NumSamples() int {
	r.mu.Lock()
	defer r.mu.Unlock()
	return len(r.Samples)
}

// NumFailures returns the number of failures recorded so far (all keys, including those not kept).
func (r *Result) NumFailures() int {
	r.mu.Lock()
	defer r.mu.Unlock()
	n := 0
	for _, k := range r.fkeys {
		n += k
	}
	return n
}

// MarkIncomplete records a reason why the run does not cover its whole case space.
func (r *Result) MarkIncomplete(format string, a ...any) {
	r.mu.Lock()
	r.Incomplete = append(r.Incomplete, fmt.Sprintf(format, a...))
	r.mu.Unlock()
}

// Sample keeps up to 12 written-out cases.
func (r *Result) Sample(s any) {
	r.mu.Lock()
	defer r.mu.Unlock()
	if len(r.Samples) < 12 {
		r.Samples = append(r.Samples, s)
	}
}

// Fail records a failure; at most 5 are kept per key, so a systematic defect does not flood the report.
func (r *Result) Fail(f Failure) {
	Touch()
	r.mu.Lock()
	defer r.mu.Unlock()
	r.fkeys[f.Key]++
	if r.fkeys[f.Key] <= 3 {
		r.Failures = append(r.Failures, f)
	}
}

func (r *Result) Note(format string, a ...any) {
	Touch()
	s := fmt.Sprintf(format, a...)
	r.mu.Lock()
	r.Notes = append(r.Notes, s)
	r.mu.Unlock()
}
func (r *Result) Skip(format string, a ...any) {
	s := fmt.Sprintf(format, a...)
	r.mu.Lock()
	r.Skipped = append(r.Skipped, s)
	r.mu.Unlock()
}

// snapshot marshals a consistent copy of the result (safe while workers are still recording).
func (r *Result) snapshot() ([]byte, error) {
	r.mu.Lock()
	cp := Result{Property: r.Property, Tier: r.Tier, Seed: r.Seed, Evaluations: r.Evaluations, Distinct: r.Distinct,
		Rule: r.Rule, Exhaustive: r.Exhaustive, ModelCases: r.ModelCases, WallS: time.Since(r.start).Seconds()}
	cp.Samples = append([]any{}, r.Samples...)
	cp.Failures = append([]Failure{}, r.Failures...)
	cp.Notes = append([]string(nil), r.Notes...)
	cp.Skipped = append([]string(nil), r.Skipped...)
	cp.Incomplete = append([]string(nil), r.Incomplete...)
	cp.Histogram = make(map[string]int, len(r.Histogram))
	for k, v := range r.Histogram {
		cp.Histogram[k] = v
	}
	r.mu.Unlock()
	return json.MarshalIndent(&cp, "", " ")
}

// Write writes the result ("" or "-": standard output).  A result file is replaced atomically.
func (r *Result) Write(path string) error {
	b, err := r.snapshot()
	if err != nil {
		return err
	}
	if path == "" || path == "-" {
		_, err = os.Stdout.Write(append(b, '\n'))
		return err
	}
	tmp := fmt.Sprintf("%s.tmp%d", path, os.Getpid())
	if err := os.WriteFile(tmp, b, 0o644); err != nil {
		return err
	}
	if err := os.Rename(tmp, path); err != nil {
		os.Remove(tmp)
		return err
	}
	return nil
}

// Model sends the given lines to the Lean driver and returns one output line per input line.
func (c *Ctx) Model(lines []string) ([]string, error) {
	Touch()
	defer Touch()
	if len(lines) == 0 {
		return nil, nil
	}
	if c.ModelPath == "" {
		return nil, fmt.Errorf("no model driver given (--model)")
	}
	cmd := exec.Command(c.ModelPath)
	cmd.Stdin = strings.NewReader(strings.Join(lines, "\n") + "\n")
	cmd.Stderr = os.Stderr
	outp, err := cmd.StdoutPipe()
	if err != nil {
		return nil, err
	}
	if err := cmd.Start(); err != nil {
		return nil, err
	}
	var out []string
	sc := bufio.NewScanner(outp)
	sc.Buffer(make([]byte, 1<<20), 1<<28)
	for sc.Scan() {
		out = append(out, sc.Text())
	}
	if err := cmd.Wait(); err != nil {
		return nil, fmt.Errorf("model driver: %w", err)
	}
	if len(out) != len(lines) {
		return nil, fmt.Errorf("model driver returned %d lines for %d cases", len(out), len(lines))
	}
	c.R.AddModelCases(len(lines))
	return out, nil
}

// Compare diffs implementation outputs against model outputs line by line.
func (c *Ctx) Compare(prefix string, lines, impl []string) {
	model, err := c.Model(lines)
	if err != nil {
		c.R.Fail(Failure{Kind: "tie", Key: prefix + "/model-driver", What: err.Error()})
		return
	}
	for i := range lines {
		if model[i] != impl[i] {
			op := lines[i]
			if j := strings.IndexByte(op, ' '); j > 0 {
				op = op[:j]
			}
			c.R.Fail(Failure{Kind: "correspondence", Key: prefix + "/" + op,
				What: "model and implementation differ", Input: lines[i], Expected: model[i], Actual: impl[i]})
		}
	}
}

func Hex(b []byte) string {
	if len(b) == 0 {
		return "-"
	}
	return hex.EncodeToString(b)
}

func UnHex(s string) []byte {
	if s == "-" || s == "" {
		return nil
	}
	b, err := hex.DecodeString(s)
	if err != nil {
		panic(err)
	}
	return b
}

func SortedKeys(m map[string]int) []string {
	var ks []string
	for k := range m {
		ks = append(ks, k)
	}
	sort.Strings(ks)
	return ks
}

// ReadReplay loads the "input" member of a replay file.
func ReadReplay(path string, into any) error {
	b, err := os.ReadFile(path)
	if err != nil {
		return err
	}
	var wrap struct {
		Input json.RawMessage `json:"input"`
	}
	if err := json.Unmarshal(b, &wrap); err != nil {
		return err
	}
	return json.Unmarshal(wrap.Input, into)
}

// ---- interruption ----

var (
	intMu    sync.Mutex
	intHooks = map[int]func(){}
	intNext  int
)

// CheckpointNow, when set by the main program, writes what has been recorded so far to the partial result file at once
// (besides the periodic checkpoint): a check calls it before a section in which a defect of the code under test may kill
// the whole process, so that the findings of the sections before it survive.
var CheckpointNow = func() {}

// OnInterrupt registers f to be run when the process is told to stop (SIGTERM / SIGINT), before the partial result
// is written: a check that keeps findings outside its Result (a child process it is waiting for) brings them in
// there.  The returned function removes the registration.
func OnInterrupt(f func()) (cancel func()) {
	intMu.Lock()
	defer intMu.Unlock()
	id := intNext
	intNext++
	intHooks[id] = f
	return func() { intMu.Lock(); delete(intHooks, id); intMu.Unlock() }
}

// RunInterruptHooks is called by main's signal handler.
func RunInterruptHooks() {
	intMu.Lock()
	var fs []func()
	for _, f := range intHooks {
		fs = append(fs, f)
	}
	intMu.Unlock()
	for _, f := range fs {
		f()
	}
}

// Absorb merges what another process of the same check recorded (its result file, possibly a partial one) into r:
// counters are added, failures, notes, samples and incomplete-marks appended.
func (r *Result) Absorb(b []byte) error {
	var o Result
	if err := json.Unmarshal(b, &o); err != nil {
		return err
	}
	r.mu.Lock()
	defer r.mu.Unlock()
	r.Evaluations += o.Evaluations
	r.Distinct += o.Distinct
	r.ModelCases += o.ModelCases
	if r.Rule == "" {
		r.Rule = o.Rule
	}
	for k, v := range o.Histogram {
		r.Histogram[k] += v
	}
	for _, s := range o.Samples {
		if len(r.Samples) < 12 {
			r.Samples = append(r.Samples, s)
		}
	}
	for _, f := range o.Failures {
		r.fkeys[f.Key]++
		if r.fkeys[f.Key] <= 3 {
			r.Failures = append(r.Failures, f)
		}
	}
	r.Notes = append(r.Notes, o.Notes...)
	r.Skipped = append(r.Skipped, o.Skipped...)
	r.Incomplete = append(r.Incomplete, o.Incomplete...)
	return nil
}

// ---- activity (for main's watchdog) ----

var lastActivity atomic.Int64

// Touch records that the check is making progress: every Result method, every budget query and every line another
// process of the run appends to the budget ledger counts.
func Touch() { lastActivity.Store(time.Now().UnixNano()) }

// SinceActivity returns how long ago the check last showed progress.
func SinceActivity() time.Duration {
	v := lastActivity.Load()
	if v == 0 {
		return 0
	}
	return time.Since(time.Unix(0, v))
}

// KeepAlive keeps the activity clock going (every 2 s) while this process supervises a child process that has a
// timeout of its own; the returned function stops it.
func KeepAlive() (stop func()) {
	done := make(chan struct{})
	go func() {
		t := time.NewTicker(2 * time.Second)
		defer t.Stop()
		for {
			select {
			case <-done:
				return
			case <-t.C:
				Touch()
			}
		}
	}()
	var once sync.Once
	return func() { once.Do(func() { close(done) }) }
}
