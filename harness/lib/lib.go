// Package lib holds what every correspondence check shares: the result record
// written for bin/check, the model-driver client, the PRNG and counters.
package lib

import (
	"bufio"
	"crypto/sha256"
	"encoding/hex"
	"encoding/json"
	"fmt"
	"math/rand"
	"os"
	"os/exec"
	"sort"
	"strings"
	"time"
)

// Failure is one input on which the implementation violates the property's direct
// oracle ("oracle"), differs from the proved model ("correspondence"), or a broken
// tie ("tie").
type Failure struct {
	Kind     string `json:"kind"`
	Key      string `json:"key"` // stable signature used to match known findings
	What     string `json:"what"`
	Input    any    `json:"input,omitempty"`
	Expected any    `json:"expected,omitempty"`
	Actual   any    `json:"actual,omitempty"`
}

// Result is what a vh sub-command reports.
type Result struct {
	Property    string         `json:"property"`
	Tier        string         `json:"tier"`
	Seed        int64          `json:"seed"`
	Evaluations int            `json:"evaluations"`
	Distinct    int            `json:"distinct_nontrivial"`
	Rule        string         `json:"rule"`
	Samples     []any          `json:"samples"`
	Exhaustive  bool           `json:"exhaustive"`
	Histogram   map[string]int `json:"histogram"`
	ModelCases  int            `json:"traces_validated_against_impl"`
	Failures    []Failure      `json:"failures"`
	Notes       []string       `json:"notes,omitempty"`
	Skipped     []string       `json:"skipped,omitempty"`
	WallS       float64        `json:"wall_s"`

	seen  map[[32]byte]struct{}
	start time.Time
	fkeys map[string]int
}

// Ctx is the per-run context handed to a check.
type Ctx struct {
	Tier      string
	Seed      int64
	ModelPath string
	Replay    string
	Rand      *rand.Rand
	R         *Result
}

func NewResult(prop, tier string, seed int64) *Result {
	return &Result{Property: prop, Tier: tier, Seed: seed, Histogram: map[string]int{},
		seen: map[[32]byte]struct{}{}, start: time.Now(), fkeys: map[string]int{}}
}

// Case counts one evaluated case; nontrivial cases are de-duplicated by their canonical text.
func (r *Result) Case(canonical string, nontrivial bool) {
	r.Evaluations++
	if nontrivial {
		h := sha256.Sum256([]byte(canonical))
		if _, ok := r.seen[h]; !ok {
			r.seen[h] = struct{}{}
			r.Distinct++
		}
	}
}

func (r *Result) Hist(k string) { r.Histogram[k]++ }

// Sample keeps up to 12 written-out cases.
func (r *Result) Sample(s any) {
	if len(r.Samples) < 12 {
		r.Samples = append(r.Samples, s)
	}
}

// Fail records a failure; at most 5 are kept per key, so a systematic defect does not flood the report.
func (r *Result) Fail(f Failure) {
	r.fkeys[f.Key]++
	if r.fkeys[f.Key] <= 3 {
		r.Failures = append(r.Failures, f)
	}
}

func (r *Result) Note(format string, a ...any) { r.Notes = append(r.Notes, fmt.Sprintf(format, a...)) }
func (r *Result) Skip(format string, a ...any) {
	r.Skipped = append(r.Skipped, fmt.Sprintf(format, a...))
}

func (r *Result) Write(path string) error {
	r.WallS = time.Since(r.start).Seconds()
	if r.Samples == nil {
		r.Samples = []any{}
	}
	if r.Failures == nil {
		r.Failures = []Failure{}
	}
	b, err := json.MarshalIndent(r, "", " ")
	if err != nil {
		return err
	}
	if path == "" || path == "-" {
		_, err = os.Stdout.Write(append(b, '\n'))
		return err
	}
	return os.WriteFile(path, b, 0o644)
}

// Model sends the given lines to the Lean driver and returns one output line per input line.
func (c *Ctx) Model(lines []string) ([]string, error) {
	if len(lines) == 0 {
		return nil, nil
	}
	if c.ModelPath == "" {
		return nil, fmt.Errorf("no model driver given (--model)")
	}
	cmd := exec.Command(c.ModelPath)
	cmd.Stdin = strings.NewReader(strings.Join(lines, "\n") + "\n")
	cmd.Stderr = os.Stderr
	outp, err := cmd.StdoutPipe()
	if err != nil {
		return nil, err
	}
	if err := cmd.Start(); err != nil {
		return nil, err
	}
	var out []string
	sc := bufio.NewScanner(outp)
	sc.Buffer(make([]byte, 1<<20), 1<<28)
	for sc.Scan() {
		out = append(out, sc.Text())
	}
	if err := cmd.Wait(); err != nil {
		return nil, fmt.Errorf("model driver: %w", err)
	}
	if len(out) != len(lines) {
		return nil, fmt.Errorf("model driver returned %d lines for %d cases", len(out), len(lines))
	}
	c.R.ModelCases += len(lines)
	return out, nil
}

// Compare diffs implementation outputs against model outputs line by line.
func (c *Ctx) Compare(prefix string, lines, impl []string) {
	model, err := c.Model(lines)
	if err != nil {
		c.R.Fail(Failure{Kind: "tie", Key: prefix + "/model-driver", What: err.Error()})
		return
	}
	for i := range lines {
		if model[i] != impl[i] {
			op := lines[i]
			if j := strings.IndexByte(op, ' '); j > 0 {
				op = op[:j]
			}
			c.R.Fail(Failure{Kind: "correspondence", Key: prefix + "/" + op,
				What: "model and implementation differ", Input: lines[i], Expected: model[i], Actual: impl[i]})
		}
	}
}

func Hex(b []byte) string {
	if len(b) == 0 {
		return "-"
	}
	return hex.EncodeToString(b)
}

func UnHex(s string) []byte {
	if s == "-" || s == "" {
		return nil
	}
	b, err := hex.DecodeString(s)
	if err != nil {
		panic(err)
	}
	return b
}

func SortedKeys(m map[string]int) []string {
	var ks []string
	for k := range m {
		ks = append(ks, k)
	}
	sort.Strings(ks)
	return ks
}

// ReadReplay loads the "input" member of a replay file.
func ReadReplay(path string, into any) error {
	b, err := os.ReadFile(path)
	if err != nil {
		return err
	}
	var wrap struct {
		Input json.RawMessage `json:"input"`
	}
	if err := json.Unmarshal(b, &wrap); err != nil {
		return err
	}
	return json.Unmarshal(wrap.Input, into)
}
