package lib

import (
	"crypto/sha256"
	"encoding/hex"
	"fmt"
	"os"
	"path/filepath"
	"sort"
	"strings"
	"syscall"
)

// Snapshot returns a canonical description of the tree under root: one line per entry with
// relative path, type+mode, size (regular files), nlink, link text, content hash and,
// when withMtime is set, the modification time.  atime is never included.
func Snapshot(root string, withMtime bool) []string {
	var out []string
	filepath.Walk(root, func(p string, fi os.FileInfo, err error) error {
		rel, _ := filepath.Rel(root, p)
		if err != nil {
			out = append(out, rel+" ERR "+err.Error())
			return nil
		}
		line := fmt.Sprintf("%s %s", rel, fi.Mode().String())
		if st, ok := fi.Sys().(*syscall.Stat_t); ok {
			line += fmt.Sprintf(" nlink=%d uid=%d gid=%d", st.Nlink, st.Uid, st.Gid)
		}
		switch {
		case fi.Mode().IsRegular():
			b, _ := os.ReadFile(p)
			h := sha256.Sum256(b)
			line += fmt.Sprintf(" size=%d sha=%s", fi.Size(), hex.EncodeToString(h[:6]))
		case fi.Mode()&os.ModeSymlink != 0:
			t, _ := os.Readlink(p)
			line += " -> " + t
		}
		if withMtime {
			line += fmt.Sprintf(" mtime=%d", fi.ModTime().UnixNano())
		}
		out = append(out, line)
		return nil
	})
	sort.Strings(out)
	return out
}

// DiffSnap returns the lines that differ between two snapshots ("-old" / "+new").
func DiffSnap(a, b []string) []string {
	am := map[string]bool{}
	bm := map[string]bool{}
	for _, l := range a {
		am[l] = true
	}
	for _, l := range b {
		bm[l] = true
	}
	var d []string
	for _, l := range a {
		if !bm[l] {
			d = append(d, "-"+l)
		}
	}
	for _, l := range b {
		if !am[l] {
			d = append(d, "+"+l)
		}
	}
	return d
}

func JoinLines(l []string) string { return strings.Join(l, "\n") }
