package lib

// Time budgets of a run.
//
// A defect that makes calls HANG must never make a check lose its findings.  Two budgets bound a run:
//
//   - the HANG budget: the total time a run may spend waiting on hang deadlines (default 120 s quick,
//     900 s thorough, --hang-budget).  Every wait for the code under test takes its deadline from
//     HangWait(nominal) and, when the deadline passes, charges it with SpendHang(class, waited).  Once
//     the budget is exhausted, HangWait shrinks every further deadline to 1–2 s and Stop(class) tells
//     the generators to stop scheduling cases of the classes that have hung;
//   - the SOFT deadline of the whole run (--budget seconds; default 600 s quick, 5400 s thorough):
//     after it Expired() and Stop(anything) are true, every harness stops generating cases and
//     RETURNS its result normally.
//
// Both are shared with the child processes of a run: the soft deadline and the ledger path travel in
// the environment (VH_SOFT_DEADLINE_MS, VH_HANG_BUDGET_MS, VH_BUDGET_LEDGER); the ledger is an
// append-only file of "h <class> <ms>" (one hang deadline spent) and "k <class> <n> <why>" (cases not
// run) lines that every process of the run appends to and reads, so a hang waited for in a child
// counts against the same budget as one in the parent, without any change to the child protocols.
//
// What was cut is reported by BudgetReport: Notes "hang budget exhausted after N hangs: remaining M
// cases of class X not run" / "soft deadline reached …" and the Incomplete list of the result.

import (
	"fmt"
	"os"
	"sort"
	"strconv"
	"strings"
	"sync"
	"time"
)

const (
	envSoft   = "VH_SOFT_DEADLINE_MS" // absolute, unix milliseconds
	envSoftS  = "VH_SOFT_TOTAL_MS"    // the configured length, for messages
	envHang   = "VH_HANG_BUDGET_MS"
	envLedger = "VH_BUDGET_LEDGER"
)

type classStat struct {
	hangs   int
	spent   time.Duration
	skipHng int // cases not run because the class hung and the hang budget is exhausted
	skipDl  int // cases not run because the soft deadline passed
}

type budgetState struct {
	mu        sync.Mutex
	inited    bool
	owner     bool // this process created the ledger
	soft      time.Time
	softTotal time.Duration
	hangTotal time.Duration
	ledger    string
	f         *os.File
	off       int64
	carry     string
	lastRead  time.Time
	spent     time.Duration
	hangs     int
	exhausted bool
	exhAt     int // number of hangs at exhaustion
	// clean-up waits (waiting for a server or client to go away after a case; not an oracle) have an account of their
	// own, half the size: using it up shortens further clean-up waits only, and never stops a class
	cleanSpent time.Duration
	cleanN     int
	cleanBy    map[string]int
	classes    map[string]*classStat
	hungList   []string
	pending    map[string][2]int // skips not yet written to the ledger
	lastFlush  time.Time
}

var bud = &budgetState{classes: map[string]*classStat{}, pending: map[string][2]int{}}

// ConfigureBudget is called once by the top-level process. soft or hang <= 0 select the tier's default.
func ConfigureBudget(tier string, soft, hang time.Duration) {
	if soft <= 0 {
		soft = 600 * time.Second
		if tier == "thorough" {
			soft = 5400 * time.Second
		}
	}
	if hang <= 0 {
		hang = 120 * time.Second
		if tier == "thorough" {
			hang = 900 * time.Second
		}
	}
	b := bud
	b.mu.Lock()
	defer b.mu.Unlock()
	if p := os.Getenv(envLedger); p != "" {
		if _, err := os.Stat(p); err == nil {
			// a whole check re-executed as a child of a run (xfInChild): it lives on the budgets of that run
			b.ensure()
			return
		}
	}
	b.inited, b.owner = true, true
	b.soft, b.softTotal, b.hangTotal = time.Now().Add(soft), soft, hang
	if f, err := os.CreateTemp("", "vh-budget-*.ledger"); err == nil {
		b.ledger = f.Name()
		f.Close()
		b.f, _ = os.OpenFile(b.ledger, os.O_RDWR|os.O_APPEND, 0o600)
	}
	os.Setenv(envSoft, strconv.FormatInt(b.soft.UnixMilli(), 10))
	os.Setenv(envSoftS, strconv.FormatInt(soft.Milliseconds(), 10))
	os.Setenv(envHang, strconv.FormatInt(hang.Milliseconds(), 10))
	os.Setenv(envLedger, b.ledger)
}

// init from the environment (child processes); without one, generous defaults that never bite a healthy run.
func (b *budgetState) ensure() {
	if b.inited {
		return
	}
	b.inited = true
	ms := func(k string) (int64, bool) {
		v, err := strconv.ParseInt(os.Getenv(k), 10, 64)
		return v, err == nil && v > 0
	}
	if v, ok := ms(envSoft); ok {
		b.soft = time.UnixMilli(v)
	}
	if v, ok := ms(envSoftS); ok {
		b.softTotal = time.Duration(v) * time.Millisecond
	}
	b.hangTotal = 120 * time.Second
	if v, ok := ms(envHang); ok {
		b.hangTotal = time.Duration(v) * time.Millisecond
	}
	if p := os.Getenv(envLedger); p != "" {
		if f, err := os.OpenFile(p, os.O_RDWR|os.O_APPEND, 0o600); err == nil {
			b.ledger, b.f = p, f
		}
	}
}

func cleanClass(s string) string {
	if strings.ContainsAny(s, " \t\n\r") {
		s = strings.Join(strings.Fields(s), "_")
	}
	if s == "" {
		return "*"
	}
	return s
}

func (b *budgetState) cls(class string) *classStat {
	cs := b.classes[class]
	if cs == nil {
		cs = &classStat{}
		b.classes[class] = cs
	}
	return cs
}

func (b *budgetState) apply(line string) {
	f := strings.Fields(line)
	if len(f) < 3 {
		return
	}
	n, err := strconv.ParseInt(f[2], 10, 64)
	if err != nil {
		return
	}
	switch f[0] {
	case "h":
		d := time.Duration(n) * time.Millisecond
		cs := b.cls(f[1])
		if cs.hangs == 0 {
			b.hungList = append(b.hungList, f[1])
		}
		cs.hangs++
		cs.spent += d
		b.hangs++
		b.spent += d
		if !b.exhausted && b.spent >= b.hangTotal {
			b.exhausted, b.exhAt = true, b.hangs
		}
	case "c":
		b.cleanN++
		b.cleanSpent += time.Duration(n) * time.Millisecond
		if b.cleanBy == nil {
			b.cleanBy = map[string]int{}
		}
		b.cleanBy[f[1]]++
	case "k":
		cs := b.cls(f[1])
		if len(f) > 3 && f[3] == "d" {
			cs.skipDl += int(n)
		} else {
			cs.skipHng += int(n)
		}
	}
}

// refresh reads what other processes (and this one) appended since the last look.
func (b *budgetState) refresh(force bool) {
	if b.f == nil {
		return
	}
	now := time.Now()
	if !force && now.Sub(b.lastRead) < 50*time.Millisecond {
		return
	}
	b.lastRead = now
	buf := make([]byte, 16<<10)
	for {
		n, err := b.f.ReadAt(buf, b.off)
		if n > 0 {
			b.off += int64(n)
			s := b.carry + string(buf[:n])
			for {
				i := strings.IndexByte(s, '\n')
				if i < 0 {
					break
				}
				b.apply(s[:i])
				Touch()
				s = s[i+1:]
			}
			b.carry = s
		}
		if err != nil || n < len(buf) {
			return
		}
	}
}

func (b *budgetState) append(line string) {
	if b.f == nil { // no ledger: account in memory only
		b.apply(line)
		return
	}
	b.f.WriteString(line + "\n") // O_APPEND: one short write is atomic
	b.refresh(true)
}

func (b *budgetState) expired() bool { return !b.soft.IsZero() && time.Now().After(b.soft) }

// HangWait returns the deadline to use for a wait whose nominal hang deadline is d: d itself while the hang
// budget lasts and the soft deadline has not passed, afterwards a short one (d/10, at least 1 s, at most 2 s).
func HangWait(d time.Duration) time.Duration {
	Touch()
	b := bud
	b.mu.Lock()
	defer b.mu.Unlock()
	b.ensure()
	b.refresh(false)
	if !b.exhausted && !b.expired() {
		return d
	}
	return shrink(d)
}

func shrink(d time.Duration) time.Duration {
	s := d / 10
	if s < time.Second {
		s = time.Second
	}
	if s > 2*time.Second {
		s = 2 * time.Second
	}
	if s > d {
		s = d
	}
	return s
}

// SpendHang charges one hang deadline of length d, waited for by a case of the given class ("" = unclassified,
// which stops every class once the budget is exhausted), and reports whether the hang budget is exhausted now.
func SpendHang(class string, d time.Duration) bool {
	b := bud
	b.mu.Lock()
	defer b.mu.Unlock()
	b.ensure()
	if d < time.Millisecond {
		d = time.Millisecond
	}
	b.append(fmt.Sprintf("h %s %d", cleanClass(class), d.Milliseconds()))
	return b.exhausted
}

// HangExhausted reports whether the hang budget of the run is used up.
func HangExhausted() bool {
	b := bud
	b.mu.Lock()
	defer b.mu.Unlock()
	b.ensure()
	b.refresh(false)
	return b.exhausted
}

// HangCount returns the number of hang deadlines charged so far (all processes of the run).
func HangCount() int {
	b := bud
	b.mu.Lock()
	defer b.mu.Unlock()
	b.ensure()
	b.refresh(false)
	return b.hangs
}

// Expired reports whether the soft deadline of the run has passed.
func Expired() bool {
	b := bud
	b.mu.Lock()
	defer b.mu.Unlock()
	b.ensure()
	return b.expired()
}

// Remaining returns the time left until the soft deadline (a large value when there is none).
func Remaining() time.Duration {
	b := bud
	b.mu.Lock()
	defer b.mu.Unlock()
	b.ensure()
	if b.soft.IsZero() {
		return 24 * time.Hour
	}
	return time.Until(b.soft)
}

// related: a hung class stops itself, everything below it and everything above it.
func related(hung, class string) bool {
	if hung == "*" || class == "*" || hung == class {
		return true
	}
	return strings.HasPrefix(class, hung+"/") || strings.HasPrefix(hung, class+"/")
}

func (b *budgetState) stopWhy(class string) byte {
	if b.expired() {
		return 'd'
	}
	if b.exhausted {
		for _, h := range b.hungList {
			if related(h, class) {
				return 'h'
			}
		}
	}
	return 0
}

// Stopped is Stop without counting a case as not run.
func Stopped(class string) bool {
	b := bud
	b.mu.Lock()
	defer b.mu.Unlock()
	b.ensure()
	b.refresh(false)
	return b.stopWhy(cleanClass(class)) != 0
}

// Stop reports whether a case of the given class must NOT be run any more — the soft deadline has passed, or the
// hang budget is exhausted and the class (or one above or below it in the a/b/c hierarchy) has hung — and counts
// the case as not run.  Generators call it once per case: `if c.Stop("c04/chain") { continue }`.
func Stop(class string) bool { return StopN(class, 1) }

// StopN is Stop for n cases at once.
func StopN(class string, n int) bool {
	Touch()
	b := bud
	b.mu.Lock()
	defer b.mu.Unlock()
	b.ensure()
	b.refresh(false)
	class = cleanClass(class)
	why := b.stopWhy(class)
	if why == 0 {
		return false
	}
	if n > 0 {
		p := b.pending[class]
		if why == 'd' {
			p[1] += n
		} else {
			p[0] += n
		}
		b.pending[class] = p
		if time.Since(b.lastFlush) > 200*time.Millisecond {
			b.flush()
		}
	}
	return true
}

func (b *budgetState) flush() {
	b.lastFlush = time.Now()
	for class, p := range b.pending {
		if p[0] > 0 {
			b.append(fmt.Sprintf("k %s %d h", class, p[0]))
		}
		if p[1] > 0 {
			b.append(fmt.Sprintf("k %s %d d", class, p[1]))
		}
		delete(b.pending, class)
	}
}

// FlushBudget writes this process's pending "not run" counts to the ledger (child processes call it before exiting).
func FlushBudget() {
	b := bud
	b.mu.Lock()
	defer b.mu.Unlock()
	b.ensure()
	b.flush()
}

// WaitCleanup waits for a value on ch for at most d — a clean-up wait (for a server or a client to go away after a
// case), not an oracle.  Such waits have a budget of their own (half the hang budget); once it is used up, or the
// soft deadline has passed, they are shortened like hang deadlines, and to 5 ms once twice as much has been spent.
// They never stop a class.
func WaitCleanup[T any](class string, d time.Duration, ch <-chan T) (v T, ok bool) {
	w := CleanupWait(d)
	t := time.NewTimer(w)
	defer t.Stop()
	select {
	case v = <-ch:
		return v, true
	case <-t.C:
		SpendCleanup(class, w)
		return v, false
	}
}

// CleanupWait returns the deadline to use for a clean-up wait of nominal length d (see WaitCleanup).
func CleanupWait(d time.Duration) time.Duration {
	b := bud
	b.mu.Lock()
	defer b.mu.Unlock()
	b.ensure()
	b.refresh(false)
	switch {
	case b.cleanSpent >= b.hangTotal:
		return min(d, 5*time.Millisecond) // nobody is going away any more: stop waiting for it
	case b.cleanSpent >= b.hangTotal/2 || b.expired():
		return shrink(d)
	}
	return d
}

// SpendCleanup charges a clean-up wait that timed out.
func SpendCleanup(class string, d time.Duration) {
	b := bud
	b.mu.Lock()
	defer b.mu.Unlock()
	b.ensure()
	b.append(fmt.Sprintf("c %s %d", cleanClass(class), d.Milliseconds()))
}

// WaitHang waits for a value on ch for at most HangWait(d).  ok == false: the deadline passed, and the wait was
// charged to the hang budget under class.
func WaitHang[T any](class string, d time.Duration, ch <-chan T) (v T, ok bool) {
	w := HangWait(d)
	t := time.NewTimer(w)
	defer t.Stop()
	select {
	case v = <-ch:
		return v, true
	case <-t.C:
		SpendHang(class, w)
		return v, false
	}
}

// Within runs f in a goroutine of its own and reports whether it returned within HangWait(d); if not, the wait is
// charged to the hang budget under class.
func Within(class string, d time.Duration, f func()) bool {
	done := make(chan struct{})
	go func() { defer close(done); f() }()
	_, ok := WaitHang(class, d, done)
	return ok
}

// BudgetOwner reports whether this process configured the budgets of the run (false: it inherited them).
func BudgetOwner() bool {
	b := bud
	b.mu.Lock()
	defer b.mu.Unlock()
	return b.owner
}

// BudgetReport flushes the accounts and, in the process that owns the budgets, writes what was cut into the result:
// one Note (and one Incomplete entry) per reason.  main calls it exactly once, before Write.
func BudgetReport(r *Result) {
	b := bud
	b.mu.Lock()
	b.ensure()
	b.flush()
	if !b.owner {
		b.mu.Unlock()
		return
	}
	b.refresh(true)
	var hung, cutH, cutD []string
	nH, nD := 0, 0
	names := make([]string, 0, len(b.classes))
	for k := range b.classes {
		names = append(names, k)
	}
	sort.Strings(names)
	show := func(k string) string {
		if k == "*" {
			return "(unclassified)"
		}
		return k
	}
	for _, k := range names {
		cs := b.classes[k]
		if cs.hangs > 0 {
			hung = append(hung, fmt.Sprintf("%s ×%d", show(k), cs.hangs))
		}
		if cs.skipHng > 0 {
			cutH = append(cutH, fmt.Sprintf("%d of class %s", cs.skipHng, show(k)))
			nH += cs.skipHng
		}
		if cs.skipDl > 0 {
			cutD = append(cutD, fmt.Sprintf("%d of class %s", cs.skipDl, show(k)))
			nD += cs.skipDl
		}
	}
	exhausted, exhAt, hangs, spent, total, softTotal, expired := b.exhausted, b.exhAt, b.hangs, b.spent, b.hangTotal, b.softTotal, b.expired()
	var clean []string
	for k, n := range b.cleanBy {
		clean = append(clean, fmt.Sprintf("%s ×%d", k, n))
	}
	sort.Strings(clean)
	cleanN, cleanSpent := b.cleanN, b.cleanSpent
	b.mu.Unlock()
	if cleanN > 0 {
		defer func() {
			r.Note("clean-up waits that timed out (a server or client did not go away after a case; not an oracle of this check): %d, %.0f s in all (shortened once %.0f s were spent): %s",
				cleanN, cleanSpent.Seconds(), (total / 2).Seconds(), strings.Join(clean[:min(len(clean), 12)], "; "))
		}()
	}
	lim := func(xs []string) string {
		if len(xs) > 12 {
			xs = append(xs[:12:12], fmt.Sprintf("… (%d more classes)", len(xs)-12))
		}
		return strings.Join(xs, "; ")
	}
	if exhausted {
		msg := fmt.Sprintf("hang budget (%.0f s) exhausted after %d hangs (%d hang deadlines, %.0f s waited in all; classes: %s): further hang deadlines were shortened to 1–2 s; remaining %d cases not run",
			total.Seconds(), exhAt, hangs, spent.Seconds(), lim(hung), nH)
		if nH > 0 {
			msg += ": " + lim(cutH)
		}
		r.Note("%s", msg)
		r.MarkIncomplete("hang budget exhausted: %d cases not run", nH)
	} else if hangs > 0 {
		r.Note("hang deadlines spent: %d (%.0f s of the %.0f s hang budget; classes: %s)", hangs, spent.Seconds(), total.Seconds(), lim(hung))
	}
	if nD > 0 || expired {
		r.Note("soft deadline (%.0f s) reached: generation stopped, remaining %d cases not run: %s", softTotal.Seconds(), nD, lim(cutD))
		r.MarkIncomplete("soft deadline reached: %d cases not run", nD)
	}
}

// CloseBudget removes the ledger (top-level process only).
func CloseBudget() {
	b := bud
	b.mu.Lock()
	defer b.mu.Unlock()
	if b.f != nil {
		b.f.Close()
		b.f = nil
	}
	if b.owner && b.ledger != "" {
		os.Remove(b.ledger)
	}
}

// ---- Ctx conveniences ----

// HangWait: see lib.HangWait.
func (c *Ctx) HangWait(d time.Duration) time.Duration { return HangWait(d) }

// SpendHang: see lib.SpendHang.
func (c *Ctx) SpendHang(class string, d time.Duration) (exhausted bool) { return SpendHang(class, d) }

// HangExhausted: see lib.HangExhausted.
func (c *Ctx) HangExhausted() bool { return HangExhausted() }

// Expired: the soft deadline (--budget) has passed; stop generating cases and return the result.
func (c *Ctx) Expired() bool { return Expired() }

// Stop: see lib.Stop.
func (c *Ctx) Stop(class string) bool { return Stop(class) }

// StopN: see lib.StopN.
func (c *Ctx) StopN(class string, n int) bool { return StopN(class, n) }

// ---- one case ----

// Case scopes hang deadlines to one case: the first wait of a case runs with the full deadline (HangWait); once a
// wait of the case has timed out, the defect is established for this case and its remaining waits (waiting for the
// racers, for Wait, for Close, for the clean-up …) use the short deadline.  A nil *Case is the unclassified case
// that has never hung.  Safe for concurrent use.
type Case struct {
	class string
	mu    sync.Mutex
	hung  int
	last  time.Duration
}

// NewCase starts the hang accounting of one case of the given class.
func NewCase(class string) *Case { return &Case{class: class} }

// Class returns the class given to NewCase ("" for nil).
func (k *Case) Class() string {
	if k == nil {
		return ""
	}
	return k.class
}

// Hung returns how many hang deadlines this case has spent.
func (k *Case) Hung() int {
	if k == nil {
		return 0
	}
	k.mu.Lock()
	defer k.mu.Unlock()
	return k.hung
}

// Wait returns the deadline to use for the next wait of this case (nominal hang deadline d).
func (k *Case) Wait(d time.Duration) time.Duration {
	if k.Hung() > 0 {
		return shrink(d)
	}
	return HangWait(d)
}

// Spend charges a hang deadline of length d to the case's class.
func (k *Case) Spend(d time.Duration) (exhausted bool) {
	if k != nil {
		k.mu.Lock()
		k.hung++
		k.mu.Unlock()
	}
	return SpendHang(k.Class(), d)
}

// Within is lib.Within scoped to the case.
func (k *Case) Within(d time.Duration, f func()) bool {
	done := make(chan struct{})
	go func() { defer close(done); f() }()
	_, ok := WaitCase(k, d, done)
	return ok
}

// WaitCase is WaitHang scoped to a case.
func WaitCase[T any](k *Case, d time.Duration, ch <-chan T) (v T, ok bool) {
	w := k.Wait(d)
	t := time.NewTimer(w)
	defer t.Stop()
	select {
	case v = <-ch:
		return v, true
	case <-t.C:
		k.Spend(w)
		return v, false
	}
}

var nilLast atomicDuration

type atomicDuration struct {
	mu sync.Mutex
	d  time.Duration
}

func (a *atomicDuration) set(d time.Duration) { a.mu.Lock(); a.d = d; a.mu.Unlock() }
func (a *atomicDuration) get() time.Duration  { a.mu.Lock(); defer a.mu.Unlock(); return a.d }

// After is time.After(k.Wait(d)) for use in a select; the branch that receives from it must call k.Fired():
//
//	select {
//	case <-done:
//	case <-k.After(20 * time.Second):
//		k.Fired()
//		… report the hang …
//	}
func (k *Case) After(d time.Duration) <-chan time.Time {
	w := k.Wait(d)
	if k == nil {
		nilLast.set(w)
	} else {
		k.mu.Lock()
		k.last = w
		k.mu.Unlock()
	}
	return time.After(w)
}

// Fired charges the deadline handed out by the last After of this case.
func (k *Case) Fired() (exhausted bool) {
	if k == nil {
		return SpendHang("", nilLast.get())
	}
	k.mu.Lock()
	w := k.last
	k.mu.Unlock()
	return k.Spend(w)
}

// SoftTotal returns the configured length of the run's soft deadline (0: none).
func SoftTotal() time.Duration {
	b := bud
	b.mu.Lock()
	defer b.mu.Unlock()
	b.ensure()
	return b.softTotal
}

// PollLedger reads what other processes appended to the ledger (main's watchdog calls it: lines from children count as activity).
func PollLedger() {
	b := bud
	b.mu.Lock()
	defer b.mu.Unlock()
	b.ensure()
	b.refresh(true)
}
